/-
  C10 proofs, part 10: the outcome invariant holds in every reachable state of the fixed programs.
-/
import LispModel.Proofs.ConcFutDerefStep
namespace LispModel.Proofs.ConcFut
open LispModel.Conc LispModel.Conc.Fut

theorem defer_is_unlock {fr : FFrame} {d : MOp} {ds : List MOp} (hwf : FFrameWF fr) (hn : fr.name ∈ futNames)
    (hr : fr.returning = true) (hd : fr.defers = d :: ds) : d = .unlock .futMu ∧ ds = [] := by
  unfold FFrameWF at hwf
  simp only [hr, if_true] at hwf
  rcases hwf with h | ⟨h, -⟩
  · rw [hd] at h; cases h
  · rw [hd] at h
    simp only [futNames, clientNames, List.mem_cons, List.not_mem_nil, or_false] at hn
    rcases hn with hn | hn | hn | hn | hn <;> rw [hn] at h <;> simp only [defersAtF] at h <;>
      first
      | (cases h; done)
      | (split at h
         · cases h; exact ⟨rfl, rfl⟩
         · cases h)

def quietEntry (n : OpName) (_pc : Nat) (m : MOp) : Bool := n == .derefF || n == .body || !isOutOp m

theorem quietTable_true : forAllFOps quietEntry = true := by decide

/-- one step of a `future-cancel` / `future-done?` / `future-cancelled?` frame leaves everything the
    outcome invariant looks at unchanged -/
theorem other_frame_sameOut {o : Owner} {arm : Nat} {ce : Bool} {fr : FFrame} {F : FutS}
    {r : FFrame ⊕ FFrame} {F' : FutS}
    (hwf : FFrameWF fr) (hn : fr.name ∈ clientNames) (hnd : fr.name ≠ .derefF)
    (hk : FrameStep prog o arm ce fr F (r, F')) : SameOut F F' := by
  cases hk with
  | mop m fr' F' hnr hm hex =>
    unfold FFrameWF at hwf
    simp only [hnr] at hwf
    obtain ⟨m', hm', htab⟩ := forAllFOps_spec quietTable_true (List.mem_cons_of_mem _ hn) hwf.1
    rw [hm] at hm'; cases hm'
    have hq : isOutOp m = false := by
      simp only [quietEntry, Bool.or_eq_true, beq_iff_eq, Bool.not_eq_true'] at htab
      rcases htab with (h1 | h1) | h1
      · exact absurd h1 hnd
      · rw [h1] at hn; simp [clientNames] at hn
      · exact h1
    obtain ⟨q1, q2, q3, q4, -, -⟩ := execF_quiet hex hq
    obtain ⟨-, -, -, -, q5⟩ := execF_ctl hex hnr
    exact ⟨q1, q2, q3, q4, q5, (execF_mono hex).1⟩
  | defer d ds fr1 F' hr hd hex =>
    obtain ⟨h1, h2⟩ := defer_is_unlock hwf (List.mem_cons_of_mem _ hn) hr hd
    subst h1; subst h2
    simp [execF] at hex
    obtain ⟨-, h2⟩ := hex
    subst h2
    exact ⟨rfl, rfl, rfl, rfl, rfl, id⟩
  | ret hr hd => exact ⟨rfl, rfl, rfl, rfl, rfl, id⟩

theorem SameOut.refl (F : FutS) : SameOut F F := ⟨rfl, rfl, rfl, rfl, rfl, id⟩

theorem resp_out_derefF {fr : FFrame} {o : Outcome} (h : fr.resp = .out o) :
    fr.name = .derefF ∧ fr.got = some o := by
  unfold FFrame.resp at h
  split at h
  · split at h
    · cases h
    · split at h
      · rename_i oc hg; cases h; exact ⟨by assumption, hg⟩
      · cases h
  · cases h

theorem OutInv.step {s s' : FState} {l : Label} (h : OutInv s) (hM : MuInv s)
    (hs : fstep prog s l = some s') : OutInv s' := by
  have hk := fstep_kind hs
  cases hk with
  | endCtx t =>
    refine h.transfer (s' := _) (fun f => SameOut.refl _) ?_ ?_
    · intro t' fr hc _
      by_cases ht : t' = t
      · subst ht; simp [upd] at hc; exact Or.inl hc
      · simp [upd, ht] at hc; exact Or.inl hc
    · intro t' n f o hm
      by_cases ht : t' = t
      · subst ht; simpa [upd] using hm
      · simpa [upd, ht] using hm
  | start t arm op more hc htd =>
    refine h.transfer (s' := _) (fun f => SameOut.refl _) ?_ ?_
    · intro t' fr hc' _
      by_cases ht : t' = t
      · subst ht; simp [upd] at hc'; subst hc'; exact Or.inr ⟨rfl, rfl⟩
      · simp [upd, ht] at hc'; exact Or.inl hc'
    · intro t' n f o hm
      by_cases ht : t' = t
      · subst ht; simpa [upd] using hm
      · simpa [upd, ht] using hm
  | bodyStep f fr fr' F' hb hk => exact h.bodyStep hM hb hk
  | bodyRet f fr fr' F' hb hk => exact h.bodyRet hM hb hk
  | thrStep t arm fr fr' F' hc hk =>
    obtain ⟨hwf, hok⟩ := hM.wf (.thr t) fr hc
    by_cases hn : fr.name = .derefF
    · cases hk with
      | mop m fr' F' hnr hm hex => exact h.derefMop hM hc hn hnr hm hex
      | defer d ds fr1 F' hr hd hex =>
        rw [(deref_frame_facts hM hc hn).1] at hd; cases hd
    · have hso := other_frame_sameOut hwf hok hn hk
      obtain ⟨-, hname, -, -, -⟩ := fframe_step hwf hok.names hk
      refine h.transfer (s' := _) ?_ ?_ ?_
      · intro f
        by_cases hf : f = fr.fut
        · subst hf; simpa [upd] using hso
        · simpa [upd, hf] using SameOut.refl (s.futs f)
      · intro t' fr2 hc' hn2
        by_cases ht : t' = t
        · subst ht; simp [upd] at hc'; subst hc'; rw [hname] at hn2; exact absurd hn2 hn
        · simp [upd, ht] at hc'; exact Or.inl hc'
      · intro t' n f o hm
        by_cases ht : t' = t
        · subst ht; simpa [upd] using hm
        · simpa [upd, ht] using hm
  | thrRet t arm fr fr' F' hc hk =>
    cases hk with
    | ret hr hd =>
      by_cases hn : fr.name = .derefF
      · apply h.derefQuiet hc hn (by simp [hr])
        · intro fr2 h2; simp at h2
        · intro n g o hm
          simp only [List.mem_append, List.mem_singleton] at hm
          rcases hm with hm | hm
          · exact Or.inl hm
          · simp only [Prod.mk.injEq] at hm
            obtain ⟨-, h2, h3⟩ := hm
            exact Or.inr ⟨h2, (resp_out_derefF h3.symm).2⟩
      · refine h.transfer (s' := _) ?_ ?_ ?_
        · intro f
          by_cases hf : f = fr.fut
          · subst hf; simpa [upd] using SameOut.refl _
          · simpa [upd, hf] using SameOut.refl (s.futs f)
        · intro t' fr2 hc' hn2
          by_cases ht : t' = t
          · subst ht; simp [upd] at hc'
          · simp [upd, ht] at hc'; exact Or.inl hc'
        · intro t' n f o hm
          by_cases ht : t' = t
          · subst ht
            simp only [upd, if_true, List.mem_append, List.mem_singleton, Prod.mk.injEq] at hm
            rcases hm with hm | ⟨-, -, h3⟩
            · exact hm
            · exact absurd (resp_out_derefF h3.symm).1 hn
          · simpa [upd, ht] using hm

theorem OutInv.init (kinds : List BodyKind) (progs : List (List FOp)) : OutInv (finit kinds progs) := by
  have hni : ∀ t f, ¬ inflight (finit kinds progs) t f := by
    rintro t f ⟨fr, h1, -⟩; simp [finit] at h1
  constructor
  · intro f; simp [finit]
  · intro f b hb
    simp only [finit] at hb ⊢
    split at hb
    · cases hb; simp
    · cases hb
  · intro f hp
    simp only [pastDone, finit] at hp
    split at hp
    · rename_i b hb
      split at hb
      · cases hb; simp at hp
      · cases hb
    · simp at hp
  · intro f _; exact ⟨rfl, rfl, fun t => hni t f⟩
  · intro f v hv; simp [finit] at hv
  · intro f e he; simp [finit] at he
  · intro t f ht; exact absurd ht (hni t f)
  · intro t fr h1; simp [finit] at h1
  · intro t fr o h1; simp [finit] at h1
  · intro t n f o hm; simp [finit] at hm

theorem finv_run {sched : List Label} {s s' : FState} (hM : MuInv s) (hO : OutInv s)
    (hr : frun prog sched s = some s') : MuInv s' ∧ OutInv s' := by
  induction sched generalizing s with
  | nil => simp [frun] at hr; subst hr; exact ⟨hM, hO⟩
  | cons l ls ih =>
    simp only [frun, Option.bind_eq_some_iff] at hr
    obtain ⟨s1, h1, h2⟩ := hr
    exact ih (hM.step h1) (hO.step hM h1) h2

theorem out_invariant {kinds progs s} (hr : FReachable kinds progs s) : OutInv s := by
  obtain ⟨sched, h⟩ := hr
  exact (finv_run (MuInv.init kinds progs) (OutInv.init kinds progs) h).2

end LispModel.Proofs.ConcFut

/-
  C06, scanner level: from "the spelling alone tokenizes to exactly one token with that text"
  (the definition of readable symbols and keywords) to "the spelling followed by a delimiter is
  scanned as that token, and the scanner stops at the delimiter".  Core Lean only.
-/
import LispModel.Proofs.PrintReadScanSim
import LispModel.Proofs.PrintReadUtf8
namespace LispModel.Proofs.PrintRead
open LispModel LispModel.Scan

theorem tokLoop_prefix : ∀ (n : Nat) (r : List Rune) (c : Int) (p : PState) (acc l : List Token),
    tokLoop n r c p acc = .ok l → ∃ l', l = acc.reverse ++ l' := by
  intro n
  induction n with
  | zero => intro r c p acc l h; simp only [tokLoop, TokResult.ok.injEq] at h; exact ⟨[], by simp [h]⟩
  | succ n ih =>
    intro r c p acc l h
    unfold tokLoop at h
    generalize scan (r.length + 2) r c p = o at h
    obtain ⟨o1, c', r', p'⟩ := o
    cases o1 with
    | none => simp only [TokResult.ok.injEq] at h; exact ⟨[], by simp [h]⟩
    | some kt =>
      obtain ⟨k, text⟩ := kt
      simp only [] at h
      split at h
      · cases h
      · obtain ⟨l', hl⟩ := ih _ _ _ _ _ h
        exact ⟨{ kind := k, text := text, line := (posOf p').1, column := (posOf p').2.1,
                 offset := (posOf p').2.2 } :: l', by rw [hl]; simp⟩

/-- the first step of the token loop, when the result is a single token -/
theorem tokLoop_single (n : Nat) (r : List Rune) (c : Int) (p : PState) (t : Token)
    (h : tokLoop n r c p [] = .ok [t]) :
    ∃ s, scan (r.length + 2) r c p = (some (t.kind, t.text), s) ∧ s.2.2.errs = 0 := by
  cases n with
  | zero => simp [tokLoop] at h
  | succ n =>
    unfold tokLoop at h
    generalize scan (r.length + 2) r c p = o at h ⊢
    obtain ⟨o1, c', r', p'⟩ := o
    cases o1 with
    | none => simp at h
    | some kt =>
      obtain ⟨k, text⟩ := kt
      simp only [] at h
      split at h
      · cases h
      · rename_i he
        obtain ⟨l', hl⟩ := tokLoop_prefix _ _ _ _ _ _ h
        simp only [List.reverse_cons, List.reverse_nil, List.nil_append, List.singleton_append,
          List.cons.injEq] at hl
        obtain ⟨ht, _⟩ := hl
        subst ht
        exact ⟨_, rfl, by simpa using he⟩

theorem runesOf_cons (c : Char) (cs : List Char) : runesOf (c :: cs) = runeOf c :: runesOf cs := rfl

theorem runesOf_length (cs : List Char) : (runesOf cs).length = cs.length := by simp [runesOf]

/-- the continuation property of a spelling that tokenizes, alone, to one symbol / keyword token
    with that text: followed by a delimiter it is scanned as the same token, up to the delimiter -/
theorem readable_scan (cs : List Char) (t : Token) (h : tokenizeRunes (runesOf cs) = .ok [t])
    (hk : AtomKind t.kind) (htext : t.text.length = cs.length) :
    (∃ c0 cs', cs = c0 :: cs' ∧ c0.toNat ≠ 0) ∧ cs.head? ≠ some (Char.ofNat 0xFEFF) ∧
    ∀ d S, IsDelim d → ∀ p : PState, p.errs = 0 → ∃ q,
      (∀ F : Nat, scan (F + 1) (next (runesOf cs ++ d :: S) p).2.1 (next (runesOf cs ++ d :: S) p).1
          (next (runesOf cs ++ d :: S) p).2.2 = (some (t.kind, t.text), ((d.ch : Int), S, q))) ∧
        q.errs = 0 := by
  unfold tokenizeRunes at h
  cases cs with
  | nil =>
    exfalso
    have e : start (runesOf []) = (EOF, [], (next [] {}).2.2) := rfl
    rw [e] at h
    obtain ⟨s, hs, _⟩ := tokLoop_single _ _ _ _ _ h
    have hn := congrArg Prod.fst hs
    rw [scan_eof] at hn
    cases hn
  | cons c0 cs' =>
    obtain ⟨p0, hp0, ep0⟩ := next_cons_eq (runeOf c0) (runesOf cs') {}
    have hbom : ((runeOf c0).ch : Int) ≠ 0xFEFF := by
      intro hb
      have e : start (runesOf (c0 :: cs')) = next (runesOf cs') p0 := by
        unfold start
        rw [runesOf_cons, hp0]
        simp only [hb, if_true]
      rw [e] at h
      cases cs' with
      | nil =>
        have e2 : next (runesOf []) p0 = (EOF, [], (next [] p0).2.2) := rfl
        rw [e2] at h
        obtain ⟨s, hs, _⟩ := tokLoop_single _ _ _ _ _ h
        have hn := congrArg Prod.fst hs
        rw [scan_eof] at hn
        cases hn
      | cons x xs =>
        obtain ⟨p1, hp1, _⟩ := next_cons_eq (runeOf x) (runesOf xs) p0
        rw [runesOf_cons, hp1] at h
        obtain ⟨s, hs, _⟩ := tokLoop_single _ _ _ _ _ h
        have := scan_text_le _ _ _ _ _ _ _ hs
        simp only [runesOf_length, List.length_cons] at this htext
        omega
    have e : start (runesOf (c0 :: cs')) = ((c0.toNat : Int), runesOf cs', p0) := by
      unfold start
      rw [runesOf_cons, hp0]
      simp only []
      rw [if_neg hbom]
      rfl
    rw [e] at h
    obtain ⟨s, hs, hes⟩ := tokLoop_single _ _ _ _ _ h
    have hnul : c0.toNat ≠ 0 := by
      intro h0
      have hp : p0.errs = 1 := by
        rw [ep0]
        have : (runeOf c0).bad = true ∨ (runeOf c0).ch = 0 := Or.inr h0
        rw [if_pos this]
      rw [h0] at hs
      have ht : scanTok ((0 : Nat) : Int) (runesOf cs') p0 = some (.char 0, next (runesOf cs') p0) := by
        simp [scanTok, isIdentRune, isLetter, isDigit, isDecimal]
      rw [scan_of_scanTok _ _ _ _ _ _ (by decide) (by decide) ht] at hs
      injection hs with _ hs2
      rw [← hs2] at hes
      have : 1 ≤ (next (runesOf cs') p0).2.2.errs := by
        cases hr : runesOf cs' with
        | nil => obtain ⟨q, hq, he⟩ := next_nil_eq p0; rw [hq]; simp only []; omega
        | cons x xs => obtain ⟨q, hq, he⟩ := next_cons_eq x xs p0; rw [hq]; simp only []; omega
      omega
    refine ⟨⟨c0, cs', rfl, hnul⟩, ?_, ?_⟩
    · simp only [List.head?_cons, ne_eq, Option.some.injEq]
      intro hc
      apply hbom
      rw [hc]
      decide
    · intro d S hd p hp
      obtain ⟨p2, hp2, ep2⟩ := next_cons_eq (runeOf c0) (runesOf cs' ++ d :: S) p
      rw [runesOf_cons, List.cons_append, hp2]
      simp only []
      have hee : p0.errs = p2.errs := by rw [ep0, ep2, hp]
      obtain ⟨q2, hq2, eq2⟩ := scan_sim hd S _ (runesOf cs') (c0.toNat : Int) p0 p2 (Int.natCast_nonneg _) hee
        t.kind t.text s hs hk (by rw [htext, runesOf_length]; simp)
      exact ⟨q2, hq2, by rw [eq2, hes]⟩

end LispModel.Proofs.PrintRead

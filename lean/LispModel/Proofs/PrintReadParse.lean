/-
  C06, reader level, generic part: tokens that are not reader syntax are leaves of `readForm`;
  the bracket tokens open `readList`; sequences of elements up to the closing bracket.
  Core Lean only.
-/
import LispModel.Read
import LispModel.Proofs.ReaderParse
namespace LispModel.Proofs.PrintRead
open LispModel LispModel.Scan LispModel.Read LispModel.Proofs.Reader

/-- the spelling is none of the reader's syntax tokens -/
def NotSpecial (s : String) : Prop :=
  s ≠ "'" ∧ s ≠ "`" ∧ s ≠ "~" ∧ s ≠ "~@" ∧ s ≠ "@" ∧ s ≠ "^" ∧ s ≠ ")" ∧ s ≠ "]" ∧ s ≠ "}" ∧
  s ≠ "(" ∧ s ≠ "[" ∧ s ≠ "{" ∧ s ≠ "#{" ∧ s ≠ "«"

theorem lookup_none {s : String} (h : NotSpecial s) : readerMacros.lookup s = none := by
  obtain ⟨h1, h2, h3, h4, h5, _⟩ := h
  have e1 : (s == "'") = false := by simpa using h1
  have e2 : (s == "`") = false := by simpa using h2
  have e3 : (s == "~") = false := by simpa using h3
  have e4 : (s == "~@") = false := by simpa using h4
  have e5 : (s == "@") = false := by simpa using h5
  simp only [readerMacros, List.lookup, e1, e2, e3, e4, e5]

/-- a token that is not reader syntax is a leaf -/
theorem shape_leaf {cfg : Cfg} {t : Token} (h : NotSpecial (tokStr t)) :
    shape cfg t =
      if t.text.head? = some 36 then
        .leaf (match cfg.phs with
          | none => .ok (.sym (tokStr t) (some (tokPos cfg t)))
          | some m => .ok ((alookup (tokStr t) m).getD .nil))
      else .leaf (readAtom cfg t) := by
  have hl := lookup_none h
  obtain ⟨_, _, _, _, _, h6, h7, h8, h9, h10, h11, h12, h13, h14⟩ := h
  simp only [shape, hl, if_neg h6, if_neg h7, if_neg h8, if_neg h9, if_neg h10, if_neg h11, if_neg h12,
    if_neg h13, if_neg h14]
  cases cfg.phs <;> rfl

/-- reading a leaf token, without a placeholder table -/
theorem readForm_leaf {cfg : Cfg} (hphs : cfg.phs = none) {t : Token} (h : NotSpecial (tokStr t))
    (f : Nat) (rest : List Token) (v : Val)
    (hv : (if t.text.head? = some 36 then .ok (.sym (tokStr t) (some (tokPos cfg t))) else readAtom cfg t) = .ok v) :
    readForm (f + 1) cfg (t :: rest) = .ok (v, rest) := by
  rw [readForm_cons, shape_leaf h]
  by_cases h36 : t.text.head? = some 36
  · rw [if_pos h36] at hv ⊢
    simp only [hphs]
    injection hv with hv
    rw [hv]
  · rw [if_neg h36] at hv ⊢
    simp only [hv]

end LispModel.Proofs.PrintRead

/-
  C06, reader level, generic part: tokens that are not reader syntax are leaves of `readForm`;
  the bracket tokens open `readList`; sequences of elements up to the closing bracket.
  Core Lean only.
-/
import LispModel.Read
import LispModel.Proofs.ReaderParse
namespace LispModel.Proofs.PrintRead
open LispModel LispModel.Scan LispModel.Read LispModel.Proofs.Reader

/-- the spelling is none of the reader's syntax tokens -/
def NotSpecial (s : String) : Prop :=
  s ≠ "'" ∧ s ≠ "`" ∧ s ≠ "~" ∧ s ≠ "~@" ∧ s ≠ "@" ∧ s ≠ "^" ∧ s ≠ ")" ∧ s ≠ "]" ∧ s ≠ "}" ∧
  s ≠ "(" ∧ s ≠ "[" ∧ s ≠ "{" ∧ s ≠ "#{" ∧ s ≠ "«"

theorem lookup_none {s : String} (h : NotSpecial s) : readerMacros.lookup s = none := by
  obtain ⟨h1, h2, h3, h4, h5, _⟩ := h
  have e1 : (s == "'") = false := by simpa using h1
  have e2 : (s == "`") = false := by simpa using h2
  have e3 : (s == "~") = false := by simpa using h3
  have e4 : (s == "~@") = false := by simpa using h4
  have e5 : (s == "@") = false := by simpa using h5
  simp only [readerMacros, List.lookup, e1, e2, e3, e4, e5]

/-- a token that is not reader syntax is a leaf -/
theorem shape_leaf {cfg : Cfg} {t : Token} (h : NotSpecial (tokStr t)) :
    shape cfg t =
      if t.text.head? = some 36 then
        .leaf (match cfg.phs with
          | none => .ok (.sym (tokStr t) (some (tokPos cfg t)))
          | some m => .ok ((alookup (tokStr t) m).getD .nil))
      else .leaf (readAtom cfg t) := by
  have hl := lookup_none h
  obtain ⟨_, _, _, _, _, h6, h7, h8, h9, h10, h11, h12, h13, h14⟩ := h
  simp only [shape, hl, if_neg h6, if_neg h7, if_neg h8, if_neg h9, if_neg h10, if_neg h11, if_neg h12,
    if_neg h13, if_neg h14]
  cases cfg.phs <;> rfl

/-- reading a leaf token, without a placeholder table -/
theorem readForm_leaf {cfg : Cfg} (hphs : cfg.phs = none) {t : Token} (h : NotSpecial (tokStr t))
    (f : Nat) (rest : List Token) (v : Val)
    (hv : (if t.text.head? = some 36 then .ok (.sym (tokStr t) (some (tokPos cfg t))) else readAtom cfg t) = .ok v) :
    readForm (f + 1) cfg (t :: rest) = .ok (v, rest) := by
  rw [readForm_cons, shape_leaf h]
  by_cases h36 : t.text.head? = some 36
  · rw [if_pos h36] at hv ⊢
    simp only [hphs]
    injection hv with hv
    rw [hv]
  · rw [if_neg h36] at hv ⊢
    simp only [hv]

/-! ### brackets -/

theorem shape_paren {cfg : Cfg} {t : Token} (h : tokStr t = "(") :
    shape cfg t = .opn ")" (fun xs close => .ok (.list xs (some (closePos (tokPos cfg t) (tokPos cfg close))))) := by
  unfold shape
  simp only [h]
  rfl

theorem shape_brack {cfg : Cfg} {t : Token} (h : tokStr t = "[") :
    shape cfg t = .opn "]" (fun xs close => .ok (.vec xs (some (closePos (tokPos cfg t) (tokPos cfg close))))) := by
  unfold shape
  simp only [h]
  rfl

theorem shape_brace {cfg : Cfg} {t : Token} (h : tokStr t = "{") :
    shape cfg t = .opn "}" (fun xs _ =>
        match newHashMap xs [] with
        | .error e => .error e
        | .ok m => .ok (.map m)) := by
  unfold shape
  simp only [h]
  rfl

theorem shape_hashbrace {cfg : Cfg} {t : Token} (h : tokStr t = "#{") :
    shape cfg t = .opn "}" (fun xs _ =>
        match newSet xs [] with
        | .error e => .error e
        | .ok m => .ok (.set m)) := by
  unfold shape
  simp only [h]
  rfl

/-! ### reading a complete form / a sequence up to the closing bracket -/

/-- the tokens `ts` are read as the value `v`, whatever follows -/
def Reads (cfg : Cfg) (ts : List Token) (v : Val) : Prop :=
  ∃ f, ∀ rest, readForm f cfg (ts ++ rest) = .ok (v, rest)

/-- the tokens `ts`, then a closing token, are read by `readList` as the values `vs` -/
def ReadsSeq (cfg : Cfg) (closer : String) (ts : List Token) (vs : List Val) : Prop :=
  ∃ f, ∀ close rest acc, tokStr close = closer →
    readList f cfg closer (ts ++ close :: rest) acc = .ok (acc.reverse ++ vs, close, rest)

/-- the first token is not a closing bracket -/
def FirstOk (ts : List Token) : Prop :=
  ∃ t r, ts = t :: r ∧ tokStr t ≠ ")" ∧ tokStr t ≠ "]" ∧ tokStr t ≠ "}"

def IsCloserStr (c : String) : Prop := c = ")" ∨ c = "]" ∨ c = "}"

theorem readsSeq_nil (cfg : Cfg) (closer : String) : ReadsSeq cfg closer [] [] := by
  refine ⟨1, fun close rest acc hc => ?_⟩
  rw [List.nil_append, readList_cons, if_pos hc, List.append_nil]

theorem ok_ne_fuelPanic {α} {x : α} : (Except.ok x : Except RErr α) ≠ fuelPanic := by
  intro h; cases h

theorem readsSeq_cons {cfg : Cfg} {closer : String} (hcl : IsCloserStr closer) {ts1 ts2 : List Token}
    {v1 : Val} {vs : List Val} (h1 : Reads cfg ts1 v1) (hf : FirstOk ts1) (h2 : ReadsSeq cfg closer ts2 vs) :
    ReadsSeq cfg closer (ts1 ++ ts2) (v1 :: vs) := by
  obtain ⟨f1, h1⟩ := h1
  obtain ⟨f2, h2⟩ := h2
  obtain ⟨t, r, rfl, n1, n2, n3⟩ := hf
  refine ⟨max f1 f2 + 1, fun close rest acc hc => ?_⟩
  have hne : ¬ tokStr t = closer := by
    rcases hcl with h | h | h <;> subst h <;> assumption
  have e1 := h1 (ts2 ++ close :: rest)
  have e2 := h2 close rest (v1 :: acc) hc
  have m1 := (mono cfg f1).1 _ (by rw [e1]; exact ok_ne_fuelPanic) (max f1 f2) (Nat.le_max_left ..)
  have m2 := (mono cfg f2).2 _ _ _ (by rw [e2]; exact ok_ne_fuelPanic) (max f1 f2) (Nat.le_max_right ..)
  rw [List.append_assoc, List.cons_append, readList_cons, if_neg hne]
  rw [List.cons_append] at m1 e1
  rw [m1, e1]
  simp only []
  rw [m2, e2]
  simp

/-- a bracketed sequence -/
theorem reads_open {cfg : Cfg} {closer : String} {k : List Val → Token → Except RErr Val}
    {tOpen tClose : Token} {ts : List Token} {vs : List Val} {v : Val}
    (hs : shape cfg tOpen = .opn closer k) (hc : tokStr tClose = closer) (h : ReadsSeq cfg closer ts vs)
    (hk : k vs tClose = .ok v) : Reads cfg (tOpen :: ts ++ [tClose]) v := by
  obtain ⟨f, h⟩ := h
  refine ⟨f + 1, fun rest => ?_⟩
  have e := h tClose rest [] hc
  have : (tOpen :: ts ++ [tClose]) ++ rest = tOpen :: (ts ++ tClose :: rest) := by simp
  rw [this, readForm_cons, hs]
  simp only [e, List.reverse_nil, List.nil_append, hk]

end LispModel.Proofs.PrintRead

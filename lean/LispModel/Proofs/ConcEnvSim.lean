/-
  C11 proofs, part 6: noninterference by simulation.  `Sim`: the solo system (only thread `t`) agrees with
  the concurrent one on thread `t`'s local state, on the scopes of `t`, and on the root restricted to the
  keys `K` that `t` uses; its mutexes hold at most `t`'s share of the concurrent holdings.
-/
import LispModel.Proofs.ConcEnvVal
namespace LispModel.Proofs.ConcEnv
open LispModel.ConcEnv
open LispModel.Conc (upd)

/-- the solo scope `B` holds at most thread `t`'s share of the locks of the concurrent scope `A` -/
structure LockSim (t : Nat) (A B : ScopeS) : Prop where
  wt : B.w = some t → A.w = some t
  wn : B.w = none ∨ B.w = some t
  rc : ∀ x, B.r.count x ≤ A.r.count x
  rt : ∀ x ∈ B.r, x = t

/-- agreement on what thread `t` can see of scope `sc` -/
structure ViewEq (K : Nat → Bool) (t : Nat) (sc : Sid) (A B : ScopeS) : Prop where
  live : A.live = B.live
  outer : A.outer = B.outer
  data : ∀ k, (sc = none → K k = true) → A.data k = B.data k
  lock : LockSim t A B

theorem execDefer_view {K t sc A B} (d : EMOp) (h : ViewEq K t sc A B) :
    ViewEq K t sc (execDefer t d A) (execDefer t d B) := by
  obtain ⟨h1, h2, h3, ⟨l1, l2, l3, l4⟩⟩ := h
  cases d <;> try exact ⟨h1, h2, h3, ⟨l1, l2, l3, l4⟩⟩
  · -- runlock
    refine ⟨h1, h2, h3, ⟨l1, l2, ?_, ?_⟩⟩
    · intro x
      simp only [execDefer, List.count_erase]
      have := l3 x
      split <;> omega
    · intro x hx; exact l4 x (List.mem_of_mem_erase hx)
  · -- unlock
    exact ⟨h1, h2, h3, ⟨by simp [execDefer], Or.inl rfl, l3, l4⟩⟩

end LispModel.Proofs.ConcEnv

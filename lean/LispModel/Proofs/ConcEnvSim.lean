/-
  C11 proofs, part 6: noninterference by simulation.  `Sim`: the solo system (only thread `t`) agrees with
  the concurrent one on thread `t`'s local state, on the scopes of `t`, and on the root restricted to the
  keys `K` that `t` uses; its mutexes hold at most `t`'s share of the concurrent holdings.
-/
import LispModel.Proofs.ConcEnvVal
namespace LispModel.Proofs.ConcEnv
open LispModel.ConcEnv
open LispModel.Conc (upd)

/-- the solo scope `B` holds at most thread `t`'s share of the locks of the concurrent scope `A` -/
structure LockSim (t : Nat) (A B : ScopeS) : Prop where
  wt : B.w = some t → A.w = some t
  wn : B.w = none ∨ B.w = some t
  rc : ∀ x, B.r.count x ≤ A.r.count x
  rt : ∀ x ∈ B.r, x = t

/-- agreement on what thread `t` can see of scope `sc` -/
structure ViewEq (K : Nat → Bool) (t : Nat) (sc : Sid) (A B : ScopeS) : Prop where
  live : A.live = B.live
  outer : A.outer = B.outer
  data : ∀ k, (sc = none → K k = true) → A.data k = B.data k
  lock : LockSim t A B

theorem execDefer_view {K t sc A B} (d : EMOp) (h : ViewEq K t sc A B) :
    ViewEq K t sc (execDefer t d A) (execDefer t d B) := by
  obtain ⟨h1, h2, h3, ⟨l1, l2, l3, l4⟩⟩ := h
  cases d <;> try exact ⟨h1, h2, h3, ⟨l1, l2, l3, l4⟩⟩
  · -- runlock
    refine ⟨h1, h2, h3, ⟨l1, l2, ?_, ?_⟩⟩
    · intro x
      simp only [execDefer, List.count_erase]
      have := l3 x
      split <;> omega
    · intro x hx; exact l4 x (List.mem_of_mem_erase hx)
  · -- unlock
    exact ⟨h1, h2, h3, ⟨by simp [execDefer], Or.inl rfl, l3, l4⟩⟩

theorem eq_nil_of_count_le {l l' : List Nat} (h : ∀ x, l'.count x ≤ l.count x) (hl : l = []) : l' = [] := by
  subst hl
  cases l' with
  | nil => rfl
  | cons a as => have := h a; simp at this

/-- thread `t`'s micro-op replayed on the solo scope: same frame result, views still agree -/
theorem exec_view {K : Nat → Bool} {t : Nat} {m : EMOp} {fr fr' : EFrame} {A A' B : ScopeS}
    (hv : ViewEq K t fr.cur A B) (hkd : (dataAccess m).isSome = true → A.data fr.key = B.data fr.key)
    (h : exec t m fr A = some (fr', A')) :
    ∃ B', exec t m fr B = some (fr', B') ∧ ViewEq K t fr.cur A' B' := by
  obtain ⟨h1, h2, h3, ⟨l1, l2, l3, l4⟩⟩ := hv
  cases m with
  | rlock =>
    simp [exec] at h; obtain ⟨g1, e1, e2⟩ := h; subst e1; subst e2
    have hb : B.w = none := by
      rcases l2 with l2 | l2
      · exact l2
      · have := l1 l2; rw [g1] at this; cases this
    refine ⟨{ B with r := t :: B.r }, by simp [exec, hb], ⟨h1, h2, h3, ⟨by simpa using l1, l2, ?_, ?_⟩⟩⟩
    · intro x; simp only [List.count_cons]; have := l3 x; omega
    · intro x hx; rcases List.mem_cons.mp hx with hx | hx
      · exact hx
      · exact l4 x hx
  | lock =>
    simp [exec] at h; obtain ⟨⟨g1, g2⟩, e1, e2⟩ := h; subst e1; subst e2
    have hb : B.w = none := by
      rcases l2 with l2 | l2
      · exact l2
      · have := l1 l2; rw [g1] at this; cases this
    have hbr : B.r = [] := eq_nil_of_count_le l3 g2
    exact ⟨{ B with w := some t }, by simp [exec, hb, hbr], ⟨h1, h2, h3, ⟨fun _ => rfl, Or.inr rfl, l3, l4⟩⟩⟩
  | readHit =>
    have hkey := hkd rfl
    simp only [exec] at h ⊢
    rw [← hkey]
    split at h <;> (simp at h; obtain ⟨e1, e2⟩ := h; subst e1; subst e2)
    · exact ⟨B, rfl, ⟨h1, h2, h3, ⟨l1, l2, l3, l4⟩⟩⟩
    · exact ⟨B, rfl, ⟨h1, h2, h3, ⟨l1, l2, l3, l4⟩⟩⟩
  | readMiss =>
    have hkey := hkd rfl
    simp only [exec] at h ⊢
    rw [← hkey]
    split at h <;> (simp at h; obtain ⟨e1, e2⟩ := h; subst e1; subst e2)
    · exact ⟨B, rfl, ⟨h1, h2, h3, ⟨l1, l2, l3, l4⟩⟩⟩
    · exact ⟨B, rfl, ⟨h1, h2, h3, ⟨l1, l2, l3, l4⟩⟩⟩
  | readVal =>
    have hkey := hkd rfl
    simp [exec] at h; obtain ⟨e1, e2⟩ := h; subst e1; subst e2
    exact ⟨B, by simp [exec, hkey], ⟨h1, h2, h3, ⟨l1, l2, l3, l4⟩⟩⟩
  | callOuter n =>
    simp only [exec] at h ⊢
    rw [← h2]
    split at h <;> (simp at h; obtain ⟨e1, e2⟩ := h; subst e1; subst e2)
    · exact ⟨B, rfl, ⟨h1, h2, h3, ⟨l1, l2, l3, l4⟩⟩⟩
    · exact ⟨B, rfl, ⟨h1, h2, h3, ⟨l1, l2, l3, l4⟩⟩⟩
  | writeData =>
    simp [exec] at h; obtain ⟨e1, e2⟩ := h; subst e1; subst e2
    refine ⟨{ B with data := fun k => if k = fr.key then some fr.val else B.data k }, by simp [exec],
      ⟨h1, h2, ?_, ⟨l1, l2, l3, l4⟩⟩⟩
    intro k hk'; by_cases hkk : k = fr.key <;> simp [hkk, h3 k hk']
  | deleteData =>
    simp [exec] at h; obtain ⟨e1, e2⟩ := h; subst e1; subst e2
    refine ⟨{ B with data := fun k => if k = fr.key then none else B.data k }, by simp [exec],
      ⟨h1, h2, ?_, ⟨l1, l2, l3, l4⟩⟩⟩
    intro k hk'; by_cases hkk : k = fr.key <;> simp [hkk, h3 k hk']
  | deferRUnlock | deferUnlock | callback | setOuter | bindLoop | ret =>
    simp [exec] at h; obtain ⟨e1, e2⟩ := h; subst e1; subst e2
    exact ⟨B, by simp [exec], ⟨h1, h2, h3, ⟨l1, l2, l3, l4⟩⟩⟩
  | _ => simp [exec] at h

/-- a micro-op of another thread on the root: thread `t`'s view of the root is unchanged provided the
    other thread does not write one of `t`'s keys -/
theorem exec_other_view {K : Nat → Bool} {t u : Nat} {m : EMOp} {fr fr' : EFrame} {A A' B : ScopeS}
    (hv : ViewEq K t none A B) (hw : m = .writeData ∨ m = .deleteData → K fr.key = false)
    (h : exec u m fr A = some (fr', A')) : ViewEq K t none A' B := by
  obtain ⟨h1, h2, h3, ⟨l1, l2, l3, l4⟩⟩ := hv
  cases m with
  | rlock =>
    simp [exec] at h; obtain ⟨-, -, e2⟩ := h; subst e2
    refine ⟨h1, h2, h3, ⟨l1, l2, ?_, l4⟩⟩
    intro x; simp only [List.count_cons]; have := l3 x; omega
  | lock =>
    simp [exec] at h; obtain ⟨⟨g1, -⟩, -, e2⟩ := h; subst e2
    refine ⟨h1, h2, h3, ⟨?_, l2, l3, l4⟩⟩
    intro hb; have := l1 hb; rw [g1] at this; cases this
  | writeData =>
    simp [exec] at h; obtain ⟨-, e2⟩ := h; subst e2
    have hk := hw (Or.inl rfl)
    refine ⟨h1, h2, ?_, ⟨l1, l2, l3, l4⟩⟩
    intro k hk'
    have hkk : k ≠ fr.key := by intro hh; subst hh; rw [hk' rfl] at hk; cases hk
    simp [hkk, h3 k hk']
  | deleteData =>
    simp [exec] at h; obtain ⟨-, e2⟩ := h; subst e2
    have hk := hw (Or.inr rfl)
    refine ⟨h1, h2, ?_, ⟨l1, l2, l3, l4⟩⟩
    intro k hk'
    have hkk : k ≠ fr.key := by intro hh; subst hh; rw [hk' rfl] at hk; cases hk
    simp [hkk, h3 k hk']
  | readHit => simp only [exec] at h; split at h <;> (simp at h; obtain ⟨-, e2⟩ := h; subst e2; exact ⟨h1, h2, h3, ⟨l1, l2, l3, l4⟩⟩)
  | readMiss => simp only [exec] at h; split at h <;> (simp at h; obtain ⟨-, e2⟩ := h; subst e2; exact ⟨h1, h2, h3, ⟨l1, l2, l3, l4⟩⟩)
  | callOuter n => simp only [exec] at h; split at h <;> (simp at h; obtain ⟨-, e2⟩ := h; subst e2; exact ⟨h1, h2, h3, ⟨l1, l2, l3, l4⟩⟩)
  | deferRUnlock | deferUnlock | readVal | callback | setOuter | bindLoop | ret =>
    simp [exec] at h; obtain ⟨-, e2⟩ := h; subst e2; exact ⟨h1, h2, h3, ⟨l1, l2, l3, l4⟩⟩
  | _ => simp [exec] at h

theorem execDefer_other_view {K : Nat → Bool} {t u : Nat} {sc : Sid} {d : EMOp} {A B : ScopeS} (hu : u ≠ t)
    (hv : ViewEq K t sc A B) (hw : d = .unlock → A.w = some u) : ViewEq K t sc (execDefer u d A) B := by
  obtain ⟨h1, h2, h3, ⟨l1, l2, l3, l4⟩⟩ := hv
  cases d <;> try exact ⟨h1, h2, h3, ⟨l1, l2, l3, l4⟩⟩
  · refine ⟨h1, h2, h3, ⟨l1, l2, ?_, l4⟩⟩
    intro x
    simp only [execDefer]
    by_cases hx : x = u
    · subst hx
      have : B.r.count x = 0 := List.count_eq_zero.mpr (fun hm => hu (l4 x hm))
      omega
    · rw [List.count_erase_of_ne hx]; exact l3 x
  · refine ⟨h1, h2, h3, ⟨?_, l2, l3, l4⟩⟩
    intro hb
    have := l1 hb
    rw [hw rfl] at this; cases this; exact absurd rfl hu

end LispModel.Proofs.ConcEnv

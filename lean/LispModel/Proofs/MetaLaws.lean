/-
  Laws of metadata (model: LispModel/Meta.lean).  Every statement is about ALL values; the examples at the end
  are closed terms checked by evaluation.

  1. `meta_withMeta`, `withMeta_domain`
  2. `withMeta_erase`, `equal_ignores_meta`, `structEq_ignores_meta`, `print_ignores_meta`, `mEqual_sound`,
     `equalOp_ignores_meta`, `prStrOp_ignores_meta`, `erase_strip`
  3. `exec_frame`, `run_frame`, `withMeta_does_not_touch_argument`
  4. `fresh_results_have_no_meta`, `vec_keeps_meta`, `rename_keys_keeps_meta`, `seq_of_list_is_identity`, …
  5. `elements_keep_their_meta`
-/
import LispModel.Meta
import LispModel.Spec.StructEq
namespace LispModel.Meta
open LispModel

/-! ### 1. `meta` reads what `with-meta` wrote -/

theorem meta_withMeta {x m y : MVal} (h : withMeta x m = .ok y) : getMeta y = .ok m := by
  cases x <;> simp [withMeta] at h <;> subst h <;> rfl

theorem withMeta_domain (x m : MVal) : (∃ y, withMeta x m = .ok y) ↔ hasMetaSlot x = true := by
  cases x <;> simp [withMeta, hasMetaSlot]

/-- `meta` is defined on exactly the same kinds -/
theorem getMeta_domain (x : MVal) : (∃ y, getMeta x = .ok y) ↔ hasMetaSlot x = true := by
  cases x <;> simp [getMeta, hasMetaSlot]

/-- on its domain `meta` is the `Meta` field -/
theorem getMeta_eq_metaOf {x y : MVal} (h : getMeta x = .ok y) : y = metaOf x := by
  cases x <;> simp [getMeta] at h <;> subst h <;> rfl

/-- the last `with-meta` wins; the previous metadata is gone -/
theorem withMeta_withMeta {x m y m' : MVal} (h : withMeta x m = .ok y) : withMeta y m' = withMeta x m' := by
  cases x <;> simp [withMeta] at h <;> subst h <;> rfl

/-- `(with-meta x nil)` removes the metadata: the result is the fresh struct -/
theorem withMeta_nil {x y : MVal} (h : withMeta x .nil = .ok y) : metaOf y = .nil := by
  cases x <;> simp [withMeta] at h <;> subst h <;> rfl

/-! ### 2. the value is the same: `=` and the printer cannot see metadata -/

theorem withMeta_erase {x m y : MVal} (h : withMeta x m = .ok y) : erase y = erase x := by
  cases x <;> simp [withMeta] at h <;> subst h <;> simp [erase]

theorem withMeta_strip {x m y : MVal} (h : withMeta x m = .ok y) : strip y = strip x := by
  cases x <;> simp [withMeta] at h <;> subst h <;> simp [strip]

/-- C14: `Equal_Q` (model `LispModel.equalQ`) gives the same answer with and without the metadata, on either side -/
theorem equal_ignores_meta {x m y : MVal} (h : withMeta x m = .ok y) (z : MVal) :
    equalQ (erase y) (erase z) = equalQ (erase x) (erase z) ∧
    equalQ (erase z) (erase y) = equalQ (erase z) (erase x) := by
  rw [withMeta_erase h]; exact ⟨rfl, rfl⟩

/-- C14: so does the specification's structural equality -/
theorem structEq_ignores_meta {x m y : MVal} (h : withMeta x m = .ok y) (z : MVal) :
    structEqB (erase y) (erase z) = structEqB (erase x) (erase z) ∧
    structEqB (erase z) (erase y) = structEqB (erase z) (erase x) := by
  rw [withMeta_erase h]; exact ⟨rfl, rfl⟩

/-- C06: the printed text is the same, readably or not -/
theorem print_ignores_meta {x m y : MVal} (h : withMeta x m = .ok y) (readably : Bool) :
    Print.prStr readably (erase y) = Print.prStr readably (erase x) := by
  rw [withMeta_erase h]

/-! nested metadata is not part of the value either: `erase` factors through `strip` -/
mutual
theorem erase_strip : ∀ x : MVal, erase (strip x) = erase x
  | .nil => rfl
  | .bool _ => rfl
  | .int _ => rfl
  | .str _ => rfl
  | .sym _ => rfl
  | .list xs _ => by simp [strip, erase, eraseList_strip xs]
  | .vec xs _ => by simp [strip, erase, eraseList_strip xs]
  | .map kvs _ => by simp [strip, erase, eraseMap_strip kvs]
  | .set _ _ => by simp [strip, erase]
  | .fn _ _ => by simp [strip, erase]
  | .builtin _ _ => by simp [strip, erase]
theorem eraseList_strip : ∀ xs : List MVal, eraseList (stripList xs) = eraseList xs
  | [] => rfl
  | x :: xs => by simp [stripList, eraseList, erase_strip x, eraseList_strip xs]
theorem eraseMap_strip : ∀ kvs : List (String × MVal), eraseMap (stripMap kvs) = eraseMap kvs
  | [] => rfl
  | (k, v) :: r => by simp [stripMap, eraseMap, erase_strip v, eraseMap_strip r]
end

theorem eraseList_length : ∀ xs : List MVal, (eraseList xs).length = xs.length
  | [] => rfl
  | _ :: xs => by simp [eraseList, eraseList_length xs]

theorem eraseMap_length : ∀ xs : List (String × MVal), (eraseMap xs).length = xs.length
  | [] => rfl
  | (_, _) :: xs => by simp [eraseMap, eraseMap_length xs]

theorem alookup_eraseMap (k : String) : ∀ m : List (String × MVal), alookup k (eraseMap m) = (alookup k m).map erase
  | [] => rfl
  | (k', v) :: r => by
    simp only [eraseMap, alookup]
    split
    · rfl
    · exact alookup_eraseMap k r

theorem equalQList_length_ne : ∀ (xs ys : List Val), xs.length ≠ ys.length → equalQList xs ys = false
  | [], [], h => by simp at h
  | [], _ :: _, _ => by simp [equalQList]
  | _ :: _, [], _ => by simp [equalQList]
  | x :: xs, y :: ys, h => by
    have : xs.length ≠ ys.length := by simpa using h
    simp [equalQList, equalQList_length_ne xs ys this]

end LispModel.Meta

/-
  Laws of metadata (model: LispModel/Meta.lean).  Every statement is about ALL values; the examples at the end
  are closed terms checked by evaluation.

  1. `meta_withMeta`, `withMeta_domain`
  2. `withMeta_erase`, `equal_ignores_meta`, `structEq_ignores_meta`, `print_ignores_meta`, `mEqual_sound`,
     `equalOp_ignores_meta`, `prStrOp_ignores_meta`, `erase_strip`
  3. `exec_frame`, `run_frame`, `withMeta_does_not_touch_argument`
  4. `fresh_results_have_no_meta`, `vec_keeps_meta`, `rename_keys_keeps_meta`, `seq_of_list_is_identity`, …
  5. `elements_keep_their_meta`
-/
import LispModel.Meta
import LispModel.Spec.StructEq
namespace LispModel.Meta
open LispModel

/-! ### 1. `meta` reads what `with-meta` wrote -/

theorem meta_withMeta {x m y : MVal} (h : withMeta x m = .ok y) : getMeta y = .ok m := by
  cases x <;> simp [withMeta] at h <;> subst h <;> rfl

theorem withMeta_domain (x m : MVal) : (∃ y, withMeta x m = .ok y) ↔ hasMetaSlot x = true := by
  cases x <;> simp [withMeta, hasMetaSlot]

/-- `meta` is defined on exactly the same kinds -/
theorem getMeta_domain (x : MVal) : (∃ y, getMeta x = .ok y) ↔ hasMetaSlot x = true := by
  cases x <;> simp [getMeta, hasMetaSlot]

/-- on its domain `meta` is the `Meta` field -/
theorem getMeta_eq_metaOf {x y : MVal} (h : getMeta x = .ok y) : y = metaOf x := by
  cases x <;> simp [getMeta] at h <;> subst h <;> rfl

/-- the last `with-meta` wins; the previous metadata is gone -/
theorem withMeta_withMeta {x m y m' : MVal} (h : withMeta x m = .ok y) : withMeta y m' = withMeta x m' := by
  cases x <;> simp [withMeta] at h <;> subst h <;> rfl

/-- `(with-meta x nil)` removes the metadata: the result is the fresh struct -/
theorem withMeta_nil {x y : MVal} (h : withMeta x .nil = .ok y) : metaOf y = .nil := by
  cases x <;> simp [withMeta] at h <;> subst h <;> rfl

/-! ### 2. the value is the same: `=` and the printer cannot see metadata -/

theorem withMeta_erase {x m y : MVal} (h : withMeta x m = .ok y) : erase y = erase x := by
  cases x <;> simp [withMeta] at h <;> subst h <;> simp [erase]

theorem withMeta_strip {x m y : MVal} (h : withMeta x m = .ok y) : strip y = strip x := by
  cases x <;> simp [withMeta] at h <;> subst h <;> simp [strip]

/-- C14: `Equal_Q` (model `LispModel.equalQ`) gives the same answer with and without the metadata, on either side -/
theorem equal_ignores_meta {x m y : MVal} (h : withMeta x m = .ok y) (z : MVal) :
    equalQ (erase y) (erase z) = equalQ (erase x) (erase z) ∧
    equalQ (erase z) (erase y) = equalQ (erase z) (erase x) := by
  rw [withMeta_erase h]; exact ⟨rfl, rfl⟩

/-- C14: so does the specification's structural equality -/
theorem structEq_ignores_meta {x m y : MVal} (h : withMeta x m = .ok y) (z : MVal) :
    structEqB (erase y) (erase z) = structEqB (erase x) (erase z) ∧
    structEqB (erase z) (erase y) = structEqB (erase z) (erase x) := by
  rw [withMeta_erase h]; exact ⟨rfl, rfl⟩

/-- C06: the printed text is the same, readably or not -/
theorem print_ignores_meta {x m y : MVal} (h : withMeta x m = .ok y) (readably : Bool) :
    Print.prStr readably (erase y) = Print.prStr readably (erase x) := by
  rw [withMeta_erase h]

/-! nested metadata is not part of the value either: `erase` factors through `strip` -/
mutual
theorem erase_strip : ∀ x : MVal, erase (strip x) = erase x
  | .nil => rfl
  | .bool _ => rfl
  | .int _ => rfl
  | .str _ => rfl
  | .sym _ => rfl
  | .list xs _ => by simp [strip, erase, eraseList_strip xs]
  | .vec xs _ => by simp [strip, erase, eraseList_strip xs]
  | .map kvs _ => by simp [strip, erase, eraseMap_strip kvs]
  | .set _ _ => by simp [strip, erase]
  | .fn _ _ => by simp [strip, erase]
  | .builtin _ _ => by simp [strip, erase]
theorem eraseList_strip : ∀ xs : List MVal, eraseList (stripList xs) = eraseList xs
  | [] => rfl
  | x :: xs => by simp [stripList, eraseList, erase_strip x, eraseList_strip xs]
theorem eraseMap_strip : ∀ kvs : List (String × MVal), eraseMap (stripMap kvs) = eraseMap kvs
  | [] => rfl
  | (k, v) :: r => by simp [stripMap, eraseMap, erase_strip v, eraseMap_strip r]
end

theorem eraseList_length : ∀ xs : List MVal, (eraseList xs).length = xs.length
  | [] => rfl
  | _ :: xs => by simp [eraseList, eraseList_length xs]

theorem eraseMap_length : ∀ xs : List (String × MVal), (eraseMap xs).length = xs.length
  | [] => rfl
  | (_, _) :: xs => by simp [eraseMap, eraseMap_length xs]

theorem alookup_eraseMap (k : String) : ∀ m : List (String × MVal), alookup k (eraseMap m) = (alookup k m).map erase
  | [] => rfl
  | (k', v) :: r => by
    simp only [eraseMap, alookup]
    split
    · rfl
    · exact alookup_eraseMap k r

theorem equalQList_length_ne : ∀ (xs ys : List Val), xs.length ≠ ys.length → equalQList xs ys = false
  | [], [], h => by simp at h
  | [], _ :: _, _ => by simp [equalQList]
  | _ :: _, [], _ => by simp [equalQList]
  | x :: xs, y :: ys, h => by
    have : xs.length ≠ ys.length := by simpa using h
    simp [equalQList, equalQList_length_ne xs ys this]

/-! C14, deep version: whenever `Equal_Q` on values WITH metadata (top-level and nested) answers at all, the answer is
   that of `LispModel.equalQ` on the values with every `Meta` field erased (it fails only by comparing two functions) -/
mutual
theorem mEqual_sound : ∀ (a b : MVal) (r : Bool), mEqual a b = .ok r → r = equalQ (erase a) (erase b)
  | .nil, b, r, h => by cases b <;> simp_all [mEqual, erase, equalQ]
  | .bool _, b, r, h => by cases b <;> simp_all [mEqual, erase, equalQ]
  | .int _, b, r, h => by cases b <;> simp_all [mEqual, erase, equalQ]
  | .str _, b, r, h => by cases b <;> simp_all [mEqual, erase, equalQ]
  | .sym _, b, r, h => by cases b <;> simp_all [mEqual, erase, equalQ]
  | .set _ _, b, r, h => by cases b <;> simp_all [mEqual, erase, equalQ]
  | .fn _ _, b, r, h => by cases b <;> simp_all [mEqual, erase, equalQ]
  | .builtin _ _, b, r, h => by cases b <;> simp_all [mEqual, erase, equalQ]
  | .list xs _, b, r, h => by
    cases b <;> simp only [mEqual] at h
    case list ys _ =>
      split at h
      · next hl =>
        have : r = false := by simpa using h.symm
        have hl' : (eraseList xs).length ≠ (eraseList ys).length := by simpa [eraseList_length] using hl
        simp [this, erase, equalQ, equalQList_length_ne _ _ hl']
      · simpa [erase, equalQ] using mEqualList_sound xs ys r h
    case vec ys _ =>
      split at h
      · next hl =>
        have : r = false := by simpa using h.symm
        have hl' : (eraseList xs).length ≠ (eraseList ys).length := by simpa [eraseList_length] using hl
        simp [this, erase, equalQ, equalQList_length_ne _ _ hl']
      · simpa [erase, equalQ] using mEqualList_sound xs ys r h
    all_goals simp_all [erase, equalQ]
  | .vec xs _, b, r, h => by
    cases b <;> simp only [mEqual] at h
    case list ys _ =>
      split at h
      · next hl =>
        have : r = false := by simpa using h.symm
        have hl' : (eraseList xs).length ≠ (eraseList ys).length := by simpa [eraseList_length] using hl
        simp [this, erase, equalQ, equalQList_length_ne _ _ hl']
      · simpa [erase, equalQ] using mEqualList_sound xs ys r h
    case vec ys _ =>
      split at h
      · next hl =>
        have : r = false := by simpa using h.symm
        have hl' : (eraseList xs).length ≠ (eraseList ys).length := by simpa [eraseList_length] using hl
        simp [this, erase, equalQ, equalQList_length_ne _ _ hl']
      · simpa [erase, equalQ] using mEqualList_sound xs ys r h
    all_goals simp_all [erase, equalQ]
  | .map m1 _, b, r, h => by
    cases b <;> simp only [mEqual] at h
    case map m2 _ =>
      split at h
      · next hl =>
        have : r = false := by simpa using h.symm
        simp [this, erase, equalQ, eraseMap_length, hl]
      · next hl =>
        have := mEqualMap_sound m1 m2 r h
        simp at hl
        simp [erase, equalQ, eraseMap_length, hl, ← this]
    all_goals simp_all [erase, equalQ]
theorem mEqualList_sound : ∀ (xs ys : List MVal) (r : Bool), mEqualList xs ys = .ok r → r = equalQList (eraseList xs) (eraseList ys)
  | [], [], r, h => by simp_all [mEqualList, eraseList, equalQList]
  | [], _ :: _, r, h => by simp_all [mEqualList, eraseList, equalQList]
  | _ :: _, [], r, h => by simp_all [mEqualList, eraseList, equalQList]
  | x :: xs, y :: ys, r, h => by
    simp only [mEqualList] at h
    cases hxy : mEqual x y with
    | error e => simp [hxy] at h
    | ok b =>
      have hb := mEqual_sound x y b hxy
      cases b with
      | true =>
        simp [hxy] at h
        have := mEqualList_sound xs ys r h
        simp [eraseList, equalQList, ← hb, this]
      | false =>
        simp [hxy] at h
        simp [h, eraseList, equalQList, ← hb]
theorem mEqualMap_sound : ∀ (m1 m2 : List (String × MVal)) (r : Bool), mEqualMap m1 m2 = .ok r → r = equalQMap (eraseMap m1) (eraseMap m2)
  | [], m2, r, h => by simp_all [mEqualMap, eraseMap, equalQMap]
  | (k, v) :: rest, m2, r, h => by
    simp only [mEqualMap] at h
    simp only [eraseMap, equalQMap, alookup_eraseMap]
    cases hk : alookup k m2 with
    | none =>
      simp [hk] at h
      simp [h]
    | some w =>
      simp only [hk] at h
      cases hvw : mEqual v w with
      | error e => simp [hvw] at h
      | ok b =>
        have hb := mEqual_sound v w b hvw
        cases b with
        | true =>
          simp [hvw] at h
          have := mEqualMap_sound rest m2 r h
          simp [← hb, this]
        | false =>
          simp [hvw] at h
          simp [h, ← hb]
end

theorem hasBigMap_withMeta {x m y : MVal} (h : withMeta x m = .ok y) : hasBigMap y = hasBigMap x := by
  cases x <;> simp [withMeta] at h <;> subst h <;> simp [hasBigMap, anyNode, isBigMap]

theorem hasBigSet_withMeta {x m y : MVal} (h : withMeta x m = .ok y) : hasBigSet y = hasBigSet x := by
  cases x <;> simp [withMeta] at h <;> subst h <;> simp [hasBigSet, anyNode, isBigSet]

theorem hasFunc_withMeta {x m y : MVal} (h : withMeta x m = .ok y) : hasFunc y = hasFunc x := by
  cases x <;> simp [withMeta] at h <;> subst h <;> simp [hasFunc, anyNode, isFunc]

theorem hasBuiltin_withMeta {x m y : MVal} (h : withMeta x m = .ok y) : hasBuiltin y = hasBuiltin x := by
  cases x <;> simp [withMeta] at h <;> subst h <;> simp [hasBuiltin, anyNode, isBuiltin]

theorem mEqual_withMeta_left {x m y : MVal} (h : withMeta x m = .ok y) (z : MVal) : mEqual y z = mEqual x z := by
  cases x <;> simp [withMeta] at h <;> subst h <;> cases z <;> rfl

theorem mEqual_withMeta_right {x m y : MVal} (h : withMeta x m = .ok y) (z : MVal) : mEqual z y = mEqual z x := by
  cases x <;> simp [withMeta] at h <;> subst h <;> cases z <;> rfl

/-- the `=` builtin itself (panic and order-dependence included) behaves the same with and without the metadata -/
theorem equalOp_ignores_meta {x m y : MVal} (h : withMeta x m = .ok y) (z : MVal) :
    equalOp y z = equalOp x z ∧ equalOp z y = equalOp z x := by
  simp [equalOp, hasBigMap_withMeta h, hasFunc_withMeta h, mEqual_withMeta_left h, mEqual_withMeta_right h]

/-- so does `pr-str`, wherever the value stands in the argument list -/
theorem prStrOp_ignores_meta {x m y : MVal} (h : withMeta x m = .ok y) (a b : List MVal) :
    prStrOp (a ++ y :: b) = prStrOp (a ++ x :: b) := by
  simp [prStrOp, hasBigMap_withMeta h, hasBigSet_withMeta h, hasBuiltin_withMeta h, withMeta_erase h]

/-! ### 3. frame: a step writes its destination register and nothing else (C02) -/

/-- evaluating an expression only READS the register file: `mEval` returns a value, `exec` stores it in `dst` -/
theorem exec_regs (regs : Regs) (s : Stmt) :
    (exec regs s).1 = regs.set s.dst (match mEval regs s.e with | .ok v => v | .error _ => .nil) := by
  unfold exec; cases mEval regs s.e <;> rfl

theorem exec_length (regs : Regs) (s : Stmt) : (exec regs s).1.length = regs.length := by
  rw [exec_regs]; simp

/-- every register other than the destination is unchanged, whatever the operation and its outcome -/
theorem exec_frame (regs : Regs) (s : Stmt) (i : Nat) (h : i ≠ s.dst) : (exec regs s).1[i]? = regs[i]? := by
  rw [exec_regs]; exact List.getElem?_set_ne (Ne.symm h)

/-- a program changes only the registers it assigns -/
theorem run_frame : ∀ (prog : List Stmt) (regs : Regs) (i : Nat), (∀ s ∈ prog, s.dst ≠ i) → (run regs prog).1[i]? = regs[i]?
  | [], regs, i, _ => rfl
  | s :: r, regs, i, h => by
    have h1 : i ≠ s.dst := Ne.symm (h s (List.mem_cons_self ..))
    have h2 : ∀ t ∈ r, t.dst ≠ i := fun t ht => h t (List.mem_cons_of_mem _ ht)
    simp only [run]
    rw [run_frame r (exec regs s).1 i h2, exec_frame regs s i h1]

/-- `(def r<dst> (with-meta r<src> m))`, `dst ≠ src`: the SOURCE register holds the very same value afterwards — its
    own metadata and all nested metadata included — and so does every other register -/
theorem withMeta_does_not_touch_argument (regs : Regs) (dst src : Nat) (m : MArg) (h : src ≠ dst) :
    (exec regs ⟨dst, .call "with-meta" [.reg src, m]⟩).1[src]? = regs[src]? ∧
    ∀ i, i ≠ dst → (exec regs ⟨dst, .call "with-meta" [.reg src, m]⟩).1[i]? = regs[i]? :=
  ⟨exec_frame regs _ src h, fun i hi => exec_frame regs _ i hi⟩

/-- … and the destination holds the same VALUE as the source, with the new metadata -/
theorem withMeta_step_result (regs : Regs) (dst src : Nat) (m : MArg) (hd : dst < regs.length)
    (hs : hasMetaSlot (regs.getD src .nil) = true) :
    ∃ y, (exec regs ⟨dst, .call "with-meta" [.reg src, m]⟩).1[dst]? = some y ∧
      erase y = erase (regs.getD src .nil) ∧ getMeta y = .ok (argVal regs m) ∧
      (exec regs ⟨dst, .call "with-meta" [.reg src, m]⟩).2 = none := by
  obtain ⟨y, hy⟩ := (withMeta_domain (regs.getD src .nil) (argVal regs m)).2 hs
  have hev : mEval regs (.call "with-meta" [.reg src, m]) = .ok y := hy
  refine ⟨y, ?_, withMeta_erase hy, meta_withMeta hy, ?_⟩
  · simp [exec, hev, hd]
  · simp [exec, hev]

/-! ### 4. which builtins build a fresh struct (no metadata) and which keep the argument's (C13) -/

theorem rest_fresh {x v : MVal} (h : rest x = .ok v) : metaOf v = .nil := by
  cases x <;> simp [rest, seqOf?] at h <;> subst h <;> rfl

theorem cons_fresh {x s v : MVal} (h : cons x s = .ok v) : metaOf v = .nil := by
  cases s <;> simp [cons, seqOf?] at h <;> subst h <;> rfl

theorem take_fresh {n : Int} {x v : MVal} (h : take n x = .ok v) : metaOf v = .nil := by
  cases x <;> simp [take, seqOf?] at h <;> subst h <;> rfl

theorem count_fresh {x v : MVal} (h : count x = .ok v) : metaOf v = .nil := by
  cases x <;> simp [count] at h <;> subst h <;> rfl

theorem keys_fresh {x v : MVal} (h : keys x = .ok v) : metaOf v = .nil := by
  cases x <;> simp [keys] at h
  split at h <;> simp at h
  subst h; rfl

theorem vals_fresh {x v : MVal} (h : vals x = .ok v) : metaOf v = .nil := by
  cases x <;> simp [vals] at h
  split at h <;> simp at h
  subst h; rfl

theorem merge_fresh {x y v : MVal} (h : merge x y = .ok v) : metaOf v = .nil := by
  cases x <;> cases y <;> simp [merge] at h <;> subst h <;> rfl

theorem concatLoop_fresh : ∀ (a acc : List MVal) {v : MVal}, concatLoop a acc = .ok v → metaOf v = .nil
  | [], acc, v, h => by simp [concatLoop] at h; subst h; rfl
  | x :: r, acc, v, h => by
    simp only [concatLoop] at h
    split at h
    · exact concatLoop_fresh r _ h
    · simp at h

theorem putPairs_fresh : ∀ (a : List MVal) (m : List (String × MVal)) {v : MVal}, putPairs a m = .ok v → metaOf v = .nil
  | [], m, v, h => by simp [putPairs] at h; subst h; rfl
  | [x], m, v, h => by cases x <;> simp [putPairs] at h
  | x :: y :: r, m, v, h => by
    cases x <;> simp [putPairs] at h
    exact putPairs_fresh r _ h

theorem assocVec_fresh : ∀ (a : List MVal) (xs : List MVal) {v : MVal}, assocVec a xs = .ok v → metaOf v = .nil
  | [], m, v, h => by simp [assocVec] at h; subst h; rfl
  | [x], m, v, h => by cases x <;> simp [assocVec] at h
  | x :: y :: r, m, v, h => by
    cases x <;> simp [assocVec] at h
    split at h
    · exact assocVec_fresh r _ h
    · simp at h

theorem addKeys_fresh : ∀ (a : List MVal) (s : List String) {v : MVal}, addKeys a s = .ok v → metaOf v = .nil
  | [], m, v, h => by simp [addKeys] at h; subst h; rfl
  | x :: r, m, v, h => by
    cases x <;> simp [addKeys] at h
    exact addKeys_fresh r _ h

theorem concat_fresh {a : List MVal} {v : MVal} (h : concat a = .ok v) : metaOf v = .nil :=
  concatLoop_fresh a [] h

theorem assoc_fresh {a : List MVal} {v : MVal} (h : assoc a = .ok v) : metaOf v = .nil := by
  unfold assoc at h
  split at h
  · simp at h
  · split at h
    · simp at h
    · split at h
      · simp at h
      · exact putPairs_fresh _ _ h
  · split at h
    · simp at h
    · exact assocVec_fresh _ _ h
  · split at h
    · simp at h
    · exact addKeys_fresh _ _ h
  · simp at h

theorem dissoc_fresh {a : List MVal} {v : MVal} (h : dissoc a = .ok v) : metaOf v = .nil := by
  unfold dissoc at h
  split at h
  · simp at h
  · split at h
    · split at h <;> simp at h
      subst h; rfl
    · split at h <;> simp at h
      subst h; rfl
    · simp at h

theorem conj_fresh {a : List MVal} {v : MVal} (h : conj a = .ok v) : metaOf v = .nil := by
  unfold conj at h
  split at h
  · simp at h
  · simp at h; subst h; rfl
  · simp at h; subst h; rfl
  · split at h
    · simp at h
    · exact putPairs_fresh _ _ h
  · exact addKeys_fresh _ _ h
  · simp at h

theorem equalOp_fresh {x y v : MVal} (h : equalOp x y = .ok v) : metaOf v = .nil := by
  unfold equalOp at h
  split at h
  · simp at h
  · split at h <;> simp at h
    subst h; rfl

theorem prStrOp_fresh {a : List MVal} {v : MVal} (h : prStrOp a = .ok v) : metaOf v = .nil := by
  unfold prStrOp at h
  split at h <;> simp at h
  subst h; rfl

/-- the builtins whose result is a freshly built struct (or a scalar) -/
def freshOps : List String :=
  ["list", "vector", "rest", "cons", "conj", "concat", "assoc", "dissoc", "keys", "vals", "merge", "take", "count", "=",
   "pr-str"]

theorem ap1_ok {f : MVal → Res} {a : List MVal} {v : MVal} (h : ap1 f a = .ok v) : ∃ x, a = [x] ∧ f x = .ok v := by
  match a, h with
  | [x], h => exact ⟨x, rfl, h⟩
  | [], h => simp [ap1] at h
  | _ :: _ :: _, h => simp [ap1] at h

theorem ap2_ok {f : MVal → MVal → Res} {a : List MVal} {v : MVal} (h : ap2 f a = .ok v) :
    ∃ x y, a = [x, y] ∧ f x y = .ok v := by
  match a, h with
  | [x, y], h => exact ⟨x, y, rfl, h⟩
  | [], h => simp [ap2] at h
  | [_], h => simp [ap2] at h
  | _ :: _ :: _ :: _, h => simp [ap2] at h

theorem takeB_fresh {n x v : MVal} (h : takeB n x = .ok v) : metaOf v = .nil := by
  cases n <;> simp [takeB] at h
  exact take_fresh h

/-- whatever the arguments (and whatever metadata THEY carry, at any depth), the result of these builtins has no
    metadata of its own -/
theorem fresh_results_have_no_meta {op : String} {args : List MVal} {v : MVal}
    (hop : op ∈ freshOps) (h : applyPure op args = .ok v) : metaOf v = .nil := by
  simp only [freshOps, List.mem_cons, List.not_mem_nil, or_false] at hop
  rcases hop with rfl | rfl | rfl | rfl | rfl | rfl | rfl | rfl | rfl | rfl | rfl | rfl | rfl | rfl | rfl
  · have h' : Except.ok (MVal.list args .nil) = .ok v := h
    simp at h'; subst h'; rfl
  · have h' : Except.ok (MVal.vec args .nil) = .ok v := h
    simp at h'; subst h'; rfl
  · obtain ⟨x, _, hx⟩ := ap1_ok (f := rest) h; exact rest_fresh hx
  · obtain ⟨x, y, _, hx⟩ := ap2_ok (f := cons) h; exact cons_fresh hx
  · have h' : (if args.length < 2 then .error .error else conj args) = .ok v := h
    split at h'
    · simp at h'
    · exact conj_fresh h'
  · exact concat_fresh (a := args) h
  · exact assoc_fresh (a := args) h
  · exact dissoc_fresh (a := args) h
  · obtain ⟨x, _, hx⟩ := ap1_ok (f := keys) h; exact keys_fresh hx
  · obtain ⟨x, _, hx⟩ := ap1_ok (f := vals) h; exact vals_fresh hx
  · obtain ⟨x, y, _, hx⟩ := ap2_ok (f := merge) h; exact merge_fresh hx
  · obtain ⟨x, y, _, hx⟩ := ap2_ok (f := takeB) h; exact takeB_fresh hx
  · obtain ⟨x, _, hx⟩ := ap1_ok (f := count) h; exact count_fresh hx
  · obtain ⟨x, y, _, hx⟩ := ap2_ok (f := equalOp) h; exact equalOp_fresh hx
  · exact prStrOp_fresh (a := args) h

/-- `vec` hands the argument's metadata on to the new vector (list → vector, vector → vector, set → vector) -/
theorem vec_keeps_meta {x v : MVal} (h : vec x = .ok v) : metaOf v = metaOf x := by
  cases x <;> simp [vec] at h
  · subst h; rfl
  · subst h; rfl
  · split at h <;> simp at h
    subst h; rfl

/-- … and the elements are the same -/
theorem vec_of_vec_is_identity (xs : List MVal) (m : MVal) : vec (.vec xs m) = .ok (.vec xs m) := rfl

theorem vec_of_list (xs : List MVal) (m : MVal) : vec (.list xs m) = .ok (.vec xs m) := rfl

/-- `rename-keys` keeps `data.Meta` (the metadata of the renaming map plays no part) -/
theorem rename_keys_keeps_meta {d alt : List (String × MVal)} {m v : MVal} (h : renameKeys d alt m = .ok v) :
    metaOf v = m := by
  unfold renameKeys at h
  split at h
  · simp at h
  · split at h <;> simp at h
    subst h; rfl

theorem rename_keys_keeps_meta' {x y v : MVal} (h : applyPure "rename-keys" [x, y] = .ok v) : metaOf v = metaOf x := by
  have h' : renameKeysB x y = .ok v := h
  unfold renameKeysB at h'
  split at h'
  · exact rename_keys_keeps_meta h'
  · simp at h'

/-- `seq` of a non-empty list returns the list itself, metadata included -/
theorem seq_of_list_is_identity (x : MVal) (xs : List MVal) (m : MVal) : seq (.list (x :: xs) m) = .ok (.list (x :: xs) m) := rfl

/-- `seq` of anything else builds a fresh list (or nil): a vector's metadata is dropped -/
theorem seq_of_vec_drops_meta {xs : List MVal} {m v : MVal} (h : seq (.vec xs m) = .ok v) : metaOf v = .nil := by
  simp only [seq] at h
  split at h <;> simp at h <;> subst h <;> rfl

theorem seq_of_set_drops_meta {ks : List String} {m v : MVal} (h : seq (.set ks m) = .ok v) : metaOf v = .nil := by
  simp only [seq] at h
  split at h <;> simp at h <;> subst h <;> rfl

/-- re-evaluating a value (`(eval x)`): a vector / hash-map is rebuilt WITHOUT its metadata … -/
theorem eval_vec_drops_meta {xs : List MVal} {m v : MVal} (h : evalData (.vec xs m) = .ok v) : metaOf v = .nil := by
  simp only [evalData] at h
  split at h <;> simp at h
  subst h; rfl

theorem eval_map_drops_meta {kvs : List (String × MVal)} {m v : MVal} (h : evalData (.map kvs m) = .ok v) :
    metaOf v = .nil := by
  simp only [evalData] at h
  split at h <;> simp at h
  subst h; rfl

/-- … while a set, an empty list and a function are returned as they are, metadata included -/
theorem eval_set_keeps_meta (ks : List String) (m : MVal) : evalData (.set ks m) = .ok (.set ks m) := by
  simp [evalData]

theorem eval_empty_list_keeps_meta (m : MVal) : evalData (.list [] m) = .ok (.list [] m) := by
  simp [evalData]

theorem eval_fn_keeps_meta (id : Nat) (m : MVal) : evalData (.fn id m) = .ok (.fn id m) := by
  simp [evalData]

/-! ### 5. `first` / `nth` / `get` return the ELEMENT, with the metadata it was inserted with -/

theorem first_elem (x : MVal) (xs : List MVal) (m : MVal) :
    first (.list (x :: xs) m) = .ok x ∧ first (.vec (x :: xs) m) = .ok x := ⟨rfl, rfl⟩

theorem nth_elem (xs : List MVal) (m : MVal) (i : Nat) (h : i < xs.length) :
    nth (.list xs m) (Int.ofNat i) = .ok xs[i] ∧ nth (.vec xs m) (Int.ofNat i) = .ok xs[i] := by
  simp [nth, seqOf?, h, List.getD_eq_getElem?_getD]

theorem get_elem_vec (xs : List MVal) (m : MVal) (i : Nat) (h : i < xs.length) :
    get (.vec xs m) (.int (Int.ofNat i)) = .ok xs[i] := by
  simp [get, h, List.getD_eq_getElem?_getD]

theorem get_elem_map (kvs : List (String × MVal)) (m : MVal) (k : String) :
    get (.map kvs m) (.str k) = .ok ((alookup k kvs).getD .nil) := rfl

theorem alookup_ainsert_self {α} (k : String) (v : α) : ∀ m : List (String × α), alookup k (ainsert k v m) = some v
  | [] => by simp [ainsert, alookup]
  | (k', v') :: r => by
    simp only [ainsert]
    split
    · simp [alookup]
    · next hne => simp [alookup, hne, alookup_ainsert_self k v r]

/-- what `cons` / `assoc` / `conj` / `list` put into a collection comes out unchanged (own and nested metadata) -/
theorem first_cons {x s r : MVal} (h : cons x s = .ok r) : first r = .ok x := by
  cases s <;> simp [cons, seqOf?] at h <;> subst h <;> rfl

theorem get_assoc {kvs : List (String × MVal)} {m : MVal} {k : String} {v r : MVal}
    (h : assoc [.map kvs m, .str k, v] = .ok r) : get r (.str k) = .ok v := by
  simp [assoc, putPairs] at h
  subst h
  simp [get, alookup_ainsert_self]

theorem first_list (x : MVal) (xs : List MVal) : (applyPure "list" (x :: xs)).bind first = .ok x := rfl

theorem nth_conj_vec (xs : List MVal) (m v : MVal) :
    (conj [.vec xs m, v]).bind (fun r => nth r (Int.ofNat xs.length)) = .ok v := by
  simp [conj, Except.bind, nth, seqOf?, List.getD_eq_getElem?_getD]

/-- summary -/
theorem elements_keep_their_meta (x : MVal) (xs : List MVal) (m : MVal) (kvs : List (String × MVal)) (k : String) :
    first (.list (x :: xs) m) = .ok x ∧ first (.vec (x :: xs) m) = .ok x ∧
    (∀ i (h : i < xs.length), nth (.list xs m) (Int.ofNat i) = .ok xs[i] ∧ nth (.vec xs m) (Int.ofNat i) = .ok xs[i]) ∧
    (∀ i (h : i < xs.length), get (.vec xs m) (.int (Int.ofNat i)) = .ok xs[i]) ∧
    get (.map kvs m) (.str k) = .ok ((alookup k kvs).getD .nil) :=
  ⟨rfl, rfl, fun i h => nth_elem xs m i h, fun i h => get_elem_vec xs m i h, rfl⟩

/-! ### non-vacuity: closed examples, checked by evaluation -/

section Examples
private def kw (s : String) : MVal := .str (String.ofList (kwMarker :: s.toList))
private def m1 : MVal := .map [("a", .int 1)] .nil
private def v12 : MVal := .vec [.int 1, .vec [.int 2] (kw "inner")] m1

-- with-meta / meta round trip; the error arm
example : withMeta v12 (kw "t") = .ok (.vec [.int 1, .vec [.int 2] (kw "inner")] (kw "t")) := rfl
example : (withMeta v12 (kw "t")).bind getMeta = .ok (kw "t") := rfl
example : getMeta v12 = .ok m1 := rfl
example : withMeta (.int 1) m1 = .error .error := rfl
example : withMeta .nil m1 = .error .error := rfl
example : getMeta (.str "s") = .error .error := rfl
example : hasMetaSlot (.builtin "first" .nil) = true := by decide
example : hasMetaSlot (.sym "x") = false := by decide
-- the value is the same: `=` says true, the printed text is the same
example : (withMeta v12 (kw "t")).bind (equalOp v12) = .ok (.bool true) := rfl
example : equalOp (.vec [.int 1] m1) (.list [.int 1] (kw "t")) = .ok (.bool true) := rfl
example : equalOp (.vec [.int 1] m1) (.vec [.int 2] m1) = .ok (.bool false) := rfl
example : prStrOp [v12] = prStrOp [.vec [.int 1, .vec [.int 2] .nil] .nil] := rfl
example : equalOp (.fn 0 .nil) (.fn 0 .nil) = .error .panic := rfl
example : equalQ (erase v12) (erase (strip v12)) = true := by decide
-- fresh results / kept metadata
example : applyPure "rest" [v12] = .ok (.list [.vec [.int 2] (kw "inner")] .nil) := rfl
example : applyPure "conj" [v12, .int 3] = .ok (.vec [.int 1, .vec [.int 2] (kw "inner"), .int 3] .nil) := rfl
example : applyPure "assoc" [.map [("a", .int 1)] m1, .str "b", .int 2] = .ok (.map [("a", .int 1), ("b", .int 2)] .nil) := rfl
example : applyPure "vec" [.list [.int 1] m1] = .ok (.vec [.int 1] m1) := rfl
example : applyPure "seq" [.list [.int 1] m1] = .ok (.list [.int 1] m1) := rfl
example : applyPure "seq" [.vec [.int 1] m1] = .ok (.list [.int 1] .nil) := rfl
example : applyPure "rename-keys" [.map [("a", .int 1)] m1, .map [("a", .str "z")] (kw "t")] = .ok (.map [("z", .int 1)] m1) := rfl
example : applyPure "rename-keys" [.map [("a", .int 1), ("b", .int 2)] .nil, .map [("a", .str "b")] .nil] = .error .skip := rfl
example : applyPure "rename-keys" [.map [("a", .int 1)] .nil, .map [("a", .int 7)] .nil] = .error .panic := rfl
example : applyPure "nth" [v12, .str "x"] = .error .bind := rfl
example : applyPure "nth" [v12, .int (-1)] = .error .panic := rfl
example : applyPure "nth" [v12, .int 5] = .error .error := rfl
-- elements keep their own metadata
example : applyPure "nth" [v12, .int 1] = .ok (.vec [.int 2] (kw "inner")) := rfl
example : applyPure "first" [.list [v12] .nil] = .ok v12 := rfl
example : applyPure "get" [.map [("k", v12)] .nil, .str "k"] = .ok v12 := rfl
-- re-evaluation drops the metadata of vectors and hash-maps (nested ones too), keeps that of sets and of the empty list
example : apply "eval" [v12] = .ok (.vec [.int 1, .vec [.int 2] .nil] .nil) := rfl
example : apply "eval" [.vec [.set ["a"] m1, .list [] m1] m1] = .ok (.vec [.set ["a"] m1, .list [] m1] .nil) := rfl
example : apply "eval" [.list [.fn 0 .nil, v12] m1] = .ok (.list [.vec [.int 1, .vec [.int 2] .nil] .nil] .nil) := rfl
example : apply "eval" [.list [.int 1] .nil] = .error .error := rfl
-- the register machine: the source register keeps its value and its metadata
example : (run (List.replicate 3 .nil)
      [⟨0, .arg (.const v12)⟩, ⟨1, .call "with-meta" [.reg 0, .const (kw "t")]⟩, ⟨2, .call "meta" [.reg 0]⟩]).1
    = [v12, .vec [.int 1, .vec [.int 2] (kw "inner")] (kw "t"), m1] := rfl
example : (run (List.replicate 2 .nil) [⟨0, .call "with-meta" [.const (.int 1), .const .nil]⟩]).2 = [some .error] := rfl
end Examples

end LispModel.Meta

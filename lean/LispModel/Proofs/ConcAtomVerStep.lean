/-
  C09 proofs, part 7: every step of the fixed programs preserves the version invariant.
-/
import LispModel.Proofs.ConcAtomVer
namespace LispModel.Proofs.ConcAtom
open LispModel.Conc

theorem midInstall_iff (fr : Frame) :
    midInstall fr ↔ (fr.returning = false ∧ isMidAt fr.op.name fr.pc = true) := by
  simp [midInstall, isMidAt]

theorem VerInv.mop {s : State} {t : Nat} {fr fr' : Frame} {rest : List Frame} {m : MOp} {A' : AtomS}
    {ev : List LinEv} (hV : VerInv s) (hL : LockInv s)
    (hst : (s.threads t).stack = fr :: rest) (hnr : fr.returning = false)
    (hm : (prog fr.op.name)[fr.pc]? = some m)
    (hex : execM t m fr (s.atoms fr.op.atom) = some (fr', A')) :
    VerInv (s.setTop t fr' rest A' ev) := by
  have hwfs := hL.wf t
  rw [hst] at hwfs
  have hwf := hwfs.1
  unfold FrameWF at hwf
  simp only [hnr] at hwf
  obtain ⟨hpc, hds, -⟩ := hwf
  obtain ⟨hctl, -⟩ := execM_ctl hex hnr
  rw [hds] at hctl
  have hop := (execM_eff hex).1
  have hat : fr'.op.atom = fr.op.atom := by rw [hop]
  obtain ⟨d1, d2, d3, d4, d5, d6, d7, d8, -⟩ := execM_data hex
  have tab := forAllOps_spec verTable_true (name_mem fr.op) hm
  unfold verEntry at tab
  simp only [Bool.and_eq_true, List.all_eq_true] at tab
  obtain ⟨tabMid, tabS⟩ := tab
  have tabS := tabS _ hctl
  obtain ⟨⟨⟨ta, tb⟩, tc⟩, td⟩ := tabS
  simp only [decide_eq_true_eq, beq_iff_eq, Bool.not_eq_true', bne_iff_ne, Bool.and_eq_true, Bool.or_eq_true,
    isReaderAt, ne_eq] at ta tb tc td tabMid
  apply VerInv.setTop hV hL hst (fun f hf => List.mem_cons_of_mem _ hf) <;> (try rw [hat])
  · by_cases hwv : m = .write .ver
    · exact Or.inr (d3 hwv)
    · exact Or.inl (d4 hwv)
  · by_cases hwv : m = .write .val
    · obtain ⟨⟨h1, h2⟩, h3⟩ := ta hwv
      refine Or.inr ⟨(midInstall_iff fr').mpr ⟨h1, by rw [hop]; exact h2⟩, ?_⟩
      exact (hL.top_w hst _).mpr ⟨rfl, by simp [holdsW, hnr, h3]⟩
    · exact Or.inl (d2 hwv)
  · intro top rest' hcons hmi
    cases hcons
    exact ⟨rfl, d3 (tabMid ((midInstall_iff _).mp hmi).2)⟩
  · rintro ⟨hn, hr, hpc2⟩
    rw [hop] at hn
    have hrv := tc ⟨⟨hr, hn⟩, hpc2⟩
    rw [d5 hrv, d2 (by rw [hrv]; simp)]
  · rintro ⟨hn, hr, hlo, hhi⟩
    rw [hop] at hn
    rcases td ⟨hr, ⟨hn, hlo⟩, hhi⟩ with ⟨hrv, hpc2⟩ | ⟨⟨⟨⟨⟨⟨-, hlo0⟩, hhi0⟩, n1⟩, n2⟩, n3⟩, n4⟩
    · right
      have hhalf : HalfRead fr := ⟨hn, hnr, hpc2⟩
      have := hV.half t fr rest hst hhalf
      rw [d7 hrv, d4 (by rw [hrv]; simp), d6 (by rw [hrv]; simp), d2 (by rw [hrv]; simp)]
      exact ⟨rfl, this⟩
    · left
      exact ⟨fr, List.mem_cons_self, ⟨hn, hnr, hlo0, hhi0⟩, rfl, (d6 n1).symm, (d8 n2).symm⟩

theorem Mid.of_eq {s1 s2 : State} {b : Nat} (ht : ∀ t, (s2.threads t).stack = (s1.threads t).stack)
    (h : Mid s1 b) : Mid s2 b := by
  obtain ⟨u, top, rest, h1, h2, h3⟩ := h
  exact ⟨u, top, rest, by rw [ht]; exact h1, h2, h3⟩

theorem VerInv.of_eq {s1 s2 : State} (h : VerInv s1) (ha : ∀ a, s2.atoms a = s1.atoms a)
    (ht : ∀ t, (s2.threads t).stack = (s1.threads t).stack) : VerInv s2 := by
  constructor
  · intro t top rest hst hh; rw [ha]; rw [ht] at hst; exact h.half t top rest hst hh
  · intro t fr hfr hR
    rw [ht] at hfr
    have := h.saved t fr hfr hR
    unfold SavedOK at this ⊢
    rw [ha]
    exact ⟨this.1, fun heq => (this.2 heq).imp id (Mid.of_eq ht)⟩

/-- the whole stack of `t` (whose top frame is returning) disappears -/
theorem VerInv.clear {s s2 : State} {t : Nat} {fr : Frame} (h : VerInv s)
    (hst : (s.threads t).stack = [fr]) (hr : fr.returning = true)
    (ha : ∀ a, s2.atoms a = s.atoms a) (ht : (s2.threads t).stack = [])
    (hu : ∀ u, u ≠ t → (s2.threads u).stack = (s.threads u).stack) : VerInv s2 := by
  have hM : ∀ b, Mid s b → Mid s2 b := by
    rintro b ⟨u, top, rest, h1, h2, h3⟩
    by_cases hut : u = t
    · subst hut; rw [hst] at h1; cases h1
      rw [h3.1] at hr; cases hr
    · exact ⟨u, top, rest, by rw [hu u hut]; exact h1, h2, h3⟩
  constructor
  · intro u top rest hstu hh
    by_cases hut : u = t
    · subst hut; rw [ht] at hstu; cases hstu
    · rw [hu u hut] at hstu; rw [ha]; exact h.half u top rest hstu hh
  · intro u fr' hfr hR
    by_cases hut : u = t
    · subst hut; rw [ht] at hfr; cases hfr
    · rw [hu u hut] at hfr
      have := h.saved u fr' hfr hR
      unfold SavedOK at this ⊢
      rw [ha]
      exact ⟨this.1, fun heq => (this.2 heq).imp id (hM _)⟩

/-- a step that changes neither `Val` nor `version` and whose new top frame saved nothing new -/
theorem VerInv.setTop_quiet {s : State} {t : Nat} {stk : List Frame} {fr' : Frame} {rest' : List Frame}
    {A' : AtomS} {ev : List LinEv}
    (hV : VerInv s) (hL : LockInv s) (hst : (s.threads t).stack = stk)
    (hsub : ∀ f ∈ rest', f ∈ stk)
    (hA : A'.val = (s.atoms fr'.op.atom).val ∧ A'.ver = (s.atoms fr'.op.atom).ver)
    (hnomid : ∀ top rest, stk = top :: rest → ¬ midInstall top)
    (hH : ¬ HalfRead fr')
    (hS : ReaderFrame fr' →
      ∃ fr ∈ stk, ReaderFrame fr ∧ fr.op.atom = fr'.op.atom ∧ fr.old = fr'.old ∧ fr.sver = fr'.sver) :
    VerInv (s.setTop t fr' rest' A' ev) :=
  VerInv.setTop hV hL hst hsub (Or.inl hA.2) (Or.inl hA.1)
    (fun top rest h1 h2 => absurd h2 (hnomid top rest h1))
    (fun h => absurd h hH) (fun h => Or.inl (hS h))

theorem not_reader_new (op : AOp) : ¬ HalfRead (Frame.new op) ∧ ¬ ReaderFrame (Frame.new op) := by
  cases op <;> simp [Frame.new, HalfRead, ReaderFrame]

theorem not_reader_returning {fr : Frame} (h : fr.returning = true) : ¬ HalfRead fr ∧ ¬ ReaderFrame fr := by
  simp [HalfRead, ReaderFrame, h]

theorem not_mid_returning {fr : Frame} (h : fr.returning = true) : ¬ midInstall fr := by
  simp [midInstall, h]

theorem not_mid_pc4 {fr : Frame} (h : fr.pc = 4) : ¬ midInstall fr := by
  simp [midInstall, h]

end LispModel.Proofs.ConcAtom

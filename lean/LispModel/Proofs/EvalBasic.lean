/-
  General facts about the evaluator model (`LispModel/Eval.lean`), for all 13 functions of its
  `mutual` block:

  * vocabulary shared with `Props/C01.lean` (`tick`, `NotMacro`, `a0sym`, `continueWith`);
  * the *arm equations* of `evalLoop`: one unconditional rewriting lemma per branch of the loop body
    (the body is too big for `split`/`simp` to work on it as a whole);
  * `StRel`: a generic "the state only moves along a preorder `R`" theorem, proved once by fuel
    induction over a 13-fold conjunction, instantiated to `trace_suffix`, `stepper_none_preserved`,
    `cancelAt_preserved`, `ticks_mono`, `scopes_grow`;
  * `fuel_mono`: a result different from `.oof` is stable under more fuel.
  Core Lean only.
-/
import LispModel.Eval
namespace LispModel
open LispModel.Core

/-! ### vocabulary -/

/-- one poll of `ctx.Done()` on a context that is not cancelled: only the poll counter moves -/
def tick (st : State) : State := { st with ticks := st.ticks + 1 }

/-- the symbol `s` is not bound to a macro in scope `env` (nor in any scope around it).
    jig/lisp looks the head symbol up as a macro *before* it recognises special forms, so a user macro
    named `if` shadows the special form: every law of evaluation carries this side condition. -/
def NotMacro (st : State) (env : Nat) (s : String) : Prop :=
  ∀ ps b e p, st.get env s ≠ some (.fn ps b e true p)

/-- the head of a form is not a symbol bound to a macro -/
def HeadNotMacro (st : State) (env : Nat) : Val → Prop
  | .sym s _ => NotMacro st env s
  | _ => True

/-- the name the loop dispatches on (`a0sym` of the loop body) -/
def a0sym : Val → String
  | .sym s _ => s
  | _ => "__<*fn>__"

/-- the `continue` of the loop (`continueWith` of the loop body): without debugger the next iteration
    of the same activation, with debugger a fresh `EVAL` -/
def continueWith (F : Nat) (st : State) (env : Nat) (ast : Val) (d : Nat) : R :=
  match st.stepper with
  | none => evalLoop F st env ast d
  | some _ => eval F st env ast (d + 1)

/-- the `catch` stage of the `try` arm of the loop body: `r`, `st` = outcome of the body forms -/
def tryCatch (F : Nat) (parts : TryParts) (env d : Nat) (r : Res Val) (st : State) : R :=
  match r with
  | .ok v => (.ok v, st)
  | .oof => (.oof, st)
  | .err e =>
    (match parts.catchDo, parts.catchBind with
     | some handler, some bind =>
       (match bindParams (.list [bind] none) [caughtValue e] with
        | .error be => (.err be, st)
        | .ok data => doForms F (st.newScope env data).1 (st.newScope env data).2 handler 0 false d)
     | _, _ => (.err e, st))

/-- the deferred `finally` stage of the `try` arm: `r`, `st` = outcome after the `catch` stage -/
def tryFinally (F : Nat) (parts : TryParts) (env d : Nat) (r : Res Val) (st : State) : R :=
  match r with
  | .oof => (.oof, st)
  | _ =>
    match parts.finallyDo with
    | none => (r, outing1Defer st)
    | some fin =>
      match doForms F st env fin 0 false d with
      | (.oof, st) => (.oof, st)
      | (_, st) => (r, st)

/-- the Stepper prologue of `EVAL`: the flags after the callback, and whether it answered `next` -/
def stepPrologue (sp : Stepper) (ast : Val) : Stepper × Bool :=
  if !sp.skip then
    let cmd := sp.script.headD .noop
    let sp := { sp with script := sp.script.tail, calls := ast :: sp.calls }
    match cmd with
    | .next => ({ sp with skip := true }, true)
    | .stepIn => ({ sp with skip := false, outing1 := false }, false)
    | .stepOut => ({ sp with skip := true, outing1 := true }, false)
    | .noop => (sp, false)
  else (sp, false)

/-- the deferred flag resets of `EVAL` -/
def stepEpilogue (hadOuting2 isNext : Bool) (st' : State) : State :=
  match st'.stepper with
  | none => st'
  | some sp' =>
    let sp' := if hadOuting2 then { sp' with skip := false, outing2 := false } else sp'
    let sp' := if isNext then { sp' with skip := false } else sp'
    { st' with stepper := some sp' }

namespace Proofs.EvalBasic

/-! ### arm equations of `evalLoop` -/

section arms
variable {F : Nat} {st s0 s1 : State} {env d : Nat} {ast ast' a0 : Val} {xs ops : List Val}
  {p p' : Option Pos} {e : Err}

theorem evalLoop_timeout (hp : st.poll = (true, s0)) :
    evalLoop (F+1) st env ast d = (.err (timeoutErr ast), s0) := by
  rw [evalLoop.eq_2]; simp (maxSteps := 10000000) only [hp, ↓reduceIte]

theorem evalLoop_nonlist (hp : st.poll = (false, s0)) (hl : ∀ xs p, ast ≠ .list xs p) :
    evalLoop (F+1) st env ast d = evalAst F s0 env ast d := by
  rw [evalLoop.eq_2]
  cases ast <;> first | (exact absurd rfl (hl _ _)) | simp (maxSteps := 10000000) only [hp, Bool.false_eq_true, ↓reduceIte]

theorem evalLoop_mac_err (hp : st.poll = (false, s0))
    (hm : macroexpand F s0 env (.list xs p) d = (.err e, s1)) :
    evalLoop (F+1) st env (.list xs p) d = (.err e, s1) := by
  rw [evalLoop.eq_2]; simp (maxSteps := 10000000) only [hp, hm, Bool.false_eq_true, ↓reduceIte]

theorem evalLoop_mac_oof (hp : st.poll = (false, s0))
    (hm : macroexpand F s0 env (.list xs p) d = (.oof, s1)) :
    evalLoop (F+1) st env (.list xs p) d = (.oof, s1) := by
  rw [evalLoop.eq_2]; simp (maxSteps := 10000000) only [hp, hm, Bool.false_eq_true, ↓reduceIte]

theorem evalLoop_mac_nonlist (hp : st.poll = (false, s0))
    (hm : macroexpand F s0 env (.list xs p) d = (.ok ast', s1)) (hl : ∀ xs p, ast' ≠ .list xs p) :
    evalLoop (F+1) st env (.list xs p) d = evalAst F s1 env ast' d := by
  rw [evalLoop.eq_2]
  cases ast' <;> first | (exact absurd rfl (hl _ _)) | simp (maxSteps := 10000000) only [hp, hm, Bool.false_eq_true, ↓reduceIte]

theorem evalLoop_mac_empty (hp : st.poll = (false, s0))
    (hm : macroexpand F s0 env (.list xs p) d = (.ok (.list [] p'), s1)) :
    evalLoop (F+1) st env (.list xs p) d = (.ok (.list [] p'), s1) := by
  rw [evalLoop.eq_2]; simp (maxSteps := 10000000) only [hp, hm, Bool.false_eq_true, ↓reduceIte]

/-- proof script shared by the special-form arms -/
local macro "arm_tac" hp:ident hm:ident ha:ident : tactic => `(tactic|
  (rw [evalLoop.eq_2]
   cases ‹Val› <;> simp only [a0sym] at $ha:ident <;> first | (exact absurd $ha (by decide)) | skip
   subst $ha
   simp (maxSteps := 10000000) only [$hp:ident, $hm:ident, Bool.false_eq_true, ↓reduceIte, String.reduceEq]
   try rfl))

theorem evalLoop_def (hp : st.poll = (false, s0))
    (hm : macroexpand F s0 env (.list xs p) d = (.ok (.list (a0 :: ops) p'), s1))
    (ha : a0sym a0 = "def") :
    evalLoop (F+1) st env (.list xs p) d =
      match eval F s1 env (ops.getD 1 .nil) (d+1) with
      | (.ok res, s2) =>
        (match ops.getD 0 .nil with
         | .sym name _ => (.ok res, s2.set env name res)
         | _ => (.err (newLispError (.plain "cannot use value as identifier") (.list (a0 :: ops) p')), s2))
      | r => r := by
  arm_tac hp hm ha

theorem evalLoop_let (hp : st.poll = (false, s0))
    (hm : macroexpand F s0 env (.list xs p) d = (.ok (.list (a0 :: ops) p'), s1))
    (ha : a0sym a0 = "let") :
    evalLoop (F+1) st env (.list xs p) d =
      match seqOf? (ops.getD 0 .nil) with
      | none => (.err (.plain "GetSlice called on non-sequence"), (s1.newScope env []).1)
      | some arr1 =>
        if arr1.length % 2 ≠ 0 then
          (.err (newLispError (.plain "let: odd elements on binding vector") (ops.getD 0 .nil)), (s1.newScope env []).1)
        else
          match letBinds F (s1.newScope env []).1 (s1.newScope env []).2 arr1 (ops.getD 0 .nil) d with
          | (.ok _, s2) =>
            (match doForms F s2 (s1.newScope env []).2 (a0 :: ops) 2 true d with
             | (.ok next, s3) => continueWith F s3 (s1.newScope env []).2 next d
             | r => r)
          | r => r := by
  arm_tac hp hm ha

theorem evalLoop_quote (hp : st.poll = (false, s0))
    (hm : macroexpand F s0 env (.list xs p) d = (.ok (.list (a0 :: ops) p'), s1))
    (ha : a0sym a0 = "quote") :
    evalLoop (F+1) st env (.list xs p) d = (.ok (ops.getD 0 .nil), s1) := by
  arm_tac hp hm ha

theorem evalLoop_quasiquoteexpand (hp : st.poll = (false, s0))
    (hm : macroexpand F s0 env (.list xs p) d = (.ok (.list (a0 :: ops) p'), s1))
    (ha : a0sym a0 = "quasiquoteexpand") :
    evalLoop (F+1) st env (.list xs p) d = (.ok (quasiquote (ops.getD 0 .nil)), s1) := by
  arm_tac hp hm ha

theorem evalLoop_quasiquote (hp : st.poll = (false, s0))
    (hm : macroexpand F s0 env (.list xs p) d = (.ok (.list (a0 :: ops) p'), s1))
    (ha : a0sym a0 = "quasiquote") :
    evalLoop (F+1) st env (.list xs p) d = continueWith F s1 env (quasiquote (ops.getD 0 .nil)) d := by
  arm_tac hp hm ha

theorem evalLoop_defmacro (hp : st.poll = (false, s0))
    (hm : macroexpand F s0 env (.list xs p) d = (.ok (.list (a0 :: ops) p'), s1))
    (ha : a0sym a0 = "defmacro") :
    evalLoop (F+1) st env (.list xs p) d =
      match eval F s1 env (ops.getD 1 .nil) (d + 1) with
      | (.ok f, s2) =>
        (match f with
         | .fn ps b e _ fp =>
           (match ops.getD 0 .nil with
            | .sym name _ => (.ok (Val.fn ps b e true fp), s2.set env name (Val.fn ps b e true fp))
            | _ => (.err (newLispError (.plain "cannot use value as identifier") (.list (a0 :: ops) p')), s2))
         | _ => (.err (newLispError (.plain "defmacro requires a function") (.list (a0 :: ops) p')), s2))
      | r => r := by
  arm_tac hp hm ha

theorem evalLoop_macroexpand (hp : st.poll = (false, s0))
    (hm : macroexpand F s0 env (.list xs p) d = (.ok (.list (a0 :: ops) p'), s1))
    (ha : a0sym a0 = "macroexpand") :
    evalLoop (F+1) st env (.list xs p) d = macroexpand F s1 env (ops.getD 0 .nil) d := by
  arm_tac hp hm ha

theorem evalLoop_try (hp : st.poll = (false, s0))
    (hm : macroexpand F s0 env (.list xs p) d = (.ok (.list (a0 :: ops) p'), s1))
    (ha : a0sym a0 = "try") :
    evalLoop (F+1) st env (.list xs p) d =
      if ops.isEmpty then (.ok .nil, s1) else
      match splitTry (a0 :: ops) with
      | .error msg => (.err (newLispError (.plain msg) (.list (a0 :: ops) p')), s1)
      | .ok parts =>
        tryFinally F parts env d
          (tryCatch F parts env d (doForms F s1 env parts.body 0 false d).1 (doForms F s1 env parts.body 0 false d).2).1
          (tryCatch F parts env d (doForms F s1 env parts.body 0 false d).1 (doForms F s1 env parts.body 0 false d).2).2 := by
  arm_tac hp hm ha

theorem evalLoop_do (hp : st.poll = (false, s0))
    (hm : macroexpand F s0 env (.list xs p) d = (.ok (.list (a0 :: ops) p'), s1))
    (ha : a0sym a0 = "do") :
    evalLoop (F+1) st env (.list xs p) d =
      match doForms F s1 env (a0 :: ops) 1 true d with
      | (.ok next, s2) => continueWith F s2 env next d
      | r => r := by
  arm_tac hp hm ha

theorem evalLoop_if (hp : st.poll = (false, s0))
    (hm : macroexpand F s0 env (.list xs p) d = (.ok (.list (a0 :: ops) p'), s1))
    (ha : a0sym a0 = "if") :
    evalLoop (F+1) st env (.list xs p) d =
      match eval F s1 env (ops.getD 0 .nil) (d+1) with
      | (.ok cond, s2) =>
         if truthy cond then continueWith F s2 env (ops.getD 1 .nil) d
         else if (a0 :: ops).length ≥ 4 then continueWith F s2 env ((a0 :: ops).getD 3 .nil) d
         else (.ok .nil, s2)
      | r => r := by
  arm_tac hp hm ha

theorem evalLoop_fn (hp : st.poll = (false, s0))
    (hm : macroexpand F s0 env (.list xs p) d = (.ok (.list (a0 :: ops) p'), s1))
    (ha : a0sym a0 = "fn") :
    evalLoop (F+1) st env (.list xs p) d =
      if (a0 :: ops).length < 2 then
        (.err (newLispError (.plain "fn requires a parameter list") (.list (a0 :: ops) p')), s1)
      else (.ok (.fn (ops.getD 0 .nil) (.list (.sym "do" none :: (a0 :: ops).drop 2) none) env false p'), s1) := by
  arm_tac hp hm ha

theorem evalLoop_app (hp : st.poll = (false, s0))
    (hm : macroexpand F s0 env (.list xs p) d = (.ok (.list (a0 :: ops) p'), s1))
    (ha : a0sym a0 ∉ specialForms) :
    evalLoop (F+1) st env (.list xs p) d =
      match evalList F s1 env (a0 :: ops) d with
      | (.ok el, st) =>
        (match el with
         | [] => (.err (.plain "empty application"), st)
         | f :: args =>
           match f with
           | .fn params body fenv _ _ =>
             (match bindParams params args with
              | .error e =>
                (match e with
                 | .lisp (.goerr m) _ => (.err (.lisp (.goerr (m ++ " (around do)")) none), st)
                 | e => (.err (newLispError e body), st))
              | .ok data => continueWith F (st.newScope fenv data).1 (st.newScope fenv data).2 body d)
           | .builtin name =>
             (match callBuiltin F st name args d with
              | (.ok v, st) => (.ok v, st)
              | (.err e, st) => (.err (newLispError e (.list (a0 :: ops) p')), st)
              | (.oof, st) => (.oof, st))
           | _ => (.err (.lisp (.goerr "attempt to call non-function") none), st))
      | (.err e, st) => (.err e, st)
      | (.oof, st) => (.oof, st) := by
  rw [evalLoop.eq_2]
  simp only [specialForms, List.mem_cons, List.not_mem_nil, or_false, not_or] at ha
  obtain ⟨h1, h2, h3, h4, h5, h6, h7, h8, h9, h10, h11⟩ := ha
  cases a0 <;> simp only [a0sym] at h1 h2 h3 h4 h5 h6 h7 h8 h9 h10 h11 <;>
  simp (maxSteps := 10000000) only [hp, hm, Bool.false_eq_true, ↓reduceIte,
    h1, h2, h3, h4, h5, h6, h7, h8, h9, h10, h11] <;> rfl

end arms

/-! ### the state only moves along a preorder -/

/-- a preorder on states that every primitive state operation of the evaluator respects -/
structure StRel (R : State → State → Prop) : Prop where
  refl : ∀ s, R s s
  trans : ∀ {a b c}, R a b → R b c → R a c
  ticks : ∀ s, R s { s with ticks := s.ticks + 1 }
  set : ∀ s env k v, R s (s.set env k v)
  push : ∀ s o d, R s { s with scopes := s.scopes.push ⟨d, some o⟩ }
  atoms : ∀ s a, R s { s with atoms := a }
  trace : ∀ s v, R s { s with trace := v :: s.trace }
  marks : ∀ s m, R s { s with marks := m }
  stepper : ∀ s sp sp', s.stepper = some sp → R s { s with stepper := some sp' }

/-- the induction predicate: all 13 functions, at fuel `F`, move the state along `R` -/
structure Along (R : State → State → Prop) (F : Nat) : Prop where
  eval : ∀ {st env ast d r s}, eval F st env ast d = (r, s) → R st s
  evalLoop : ∀ {st env ast d r s}, evalLoop F st env ast d = (r, s) → R st s
  evalAst : ∀ {st env ast d r s}, evalAst F st env ast d = (r, s) → R st s
  evalList : ∀ {st env xs d r s}, evalList F st env xs d = (r, s) → R st s
  evalMap : ∀ {st env xs d r s}, evalMap F st env xs d = (r, s) → R st s
  doForms : ∀ {st env lst fr kl d r s}, doForms F st env lst fr kl d = (r, s) → R st s
  letBinds : ∀ {st env bs a1 d r s}, letBinds F st env bs a1 d = (r, s) → R st s
  macroexpand : ∀ {st env ast d r s}, macroexpand F st env ast d = (r, s) → R st s
  apply : ∀ {st f args d r s}, apply F st f args d = (r, s) → R st s
  mapLoop : ∀ {st f xs d r s}, mapLoop F st f xs d = (r, s) → R st s
  updateIn : ∀ {st v p f d r s}, updateIn F st v p f d = (r, s) → R st s
  update1 : ∀ {st v i f d r s}, update1 F st v i f d = (r, s) → R st s
  callBuiltin : ∀ {st n args d r s}, callBuiltin F st n args d = (r, s) → R st s

section along
variable {R : State → State → Prop}

/-- backward chaining: peel the last state operation / recursive call off the right end of `R a b` -/
local syntax "st_chain" : tactic
macro_rules
  | `(tactic| st_chain) => `(tactic|
    first
    | assumption
    | exact StRel.refl ‹StRel _› _
    | (refine StRel.trans ‹StRel _› ?_ (Along.eval ‹Along _ _› (by assumption)); st_chain)
    | (refine StRel.trans ‹StRel _› ?_ (Along.evalLoop ‹Along _ _› (by assumption)); st_chain)
    | (refine StRel.trans ‹StRel _› ?_ (Along.evalAst ‹Along _ _› (by assumption)); st_chain)
    | (refine StRel.trans ‹StRel _› ?_ (Along.evalList ‹Along _ _› (by assumption)); st_chain)
    | (refine StRel.trans ‹StRel _› ?_ (Along.evalMap ‹Along _ _› (by assumption)); st_chain)
    | (refine StRel.trans ‹StRel _› ?_ (Along.doForms ‹Along _ _› (by assumption)); st_chain)
    | (refine StRel.trans ‹StRel _› ?_ (Along.letBinds ‹Along _ _› (by assumption)); st_chain)
    | (refine StRel.trans ‹StRel _› ?_ (Along.macroexpand ‹Along _ _› (by assumption)); st_chain)
    | (refine StRel.trans ‹StRel _› ?_ (Along.apply ‹Along _ _› (by assumption)); st_chain)
    | (refine StRel.trans ‹StRel _› ?_ (Along.mapLoop ‹Along _ _› (by assumption)); st_chain)
    | (refine StRel.trans ‹StRel _› ?_ (Along.updateIn ‹Along _ _› (by assumption)); st_chain)
    | (refine StRel.trans ‹StRel _› ?_ (Along.update1 ‹Along _ _› (by assumption)); st_chain)
    | (refine StRel.trans ‹StRel _› ?_ (Along.callBuiltin ‹Along _ _› (by assumption)); st_chain)
    | (refine StRel.trans ‹StRel _› ?_ (StRel.set ‹StRel _› _ _ _ _); st_chain)
    | (refine StRel.trans ‹StRel _› ?_ (StRel.push ‹StRel _› _ _ _); st_chain)
    | (refine StRel.trans ‹StRel _› ?_ (StRel.atoms ‹StRel _› _ _); st_chain)
    | (refine StRel.trans ‹StRel _› ?_ (StRel.trace ‹StRel _› _ _); st_chain)
    | (refine StRel.trans ‹StRel _› ?_ (StRel.marks ‹StRel _› _ _); st_chain)
    | (refine StRel.trans ‹StRel _› ?_ (StRel.ticks ‹StRel _› _); st_chain)
    | (refine StRel.trans ‹StRel _› ?_ (StRel.stepper ‹StRel _› _ _ _ (by assumption)); st_chain))

/-- split the (small) body in `h` completely, then chain -/
local macro "along_tac" h:ident : tactic => `(tactic|
  ((repeat' split at $h:ident) <;> (try cases $h:ident) <;> st_chain))

theorem evalList_step (hR : StRel R) {F} (ih : Along R F) {st env xs d r s}
    (h : evalList (F+1) st env xs d = (r, s)) : R st s := by
  cases xs with
  | nil => rw [evalList.eq_2] at h; cases h; exact hR.refl _
  | cons x xs => rw [evalList.eq_3] at h; along_tac h

theorem evalMap_step (hR : StRel R) {F} (ih : Along R F) {st env xs d r s}
    (h : evalMap (F+1) st env xs d = (r, s)) : R st s := by
  cases xs with
  | nil => rw [evalMap.eq_2] at h; cases h; exact hR.refl _
  | cons x xs => obtain ⟨k, x⟩ := x; rw [evalMap.eq_3] at h; along_tac h

theorem evalAst_step (hR : StRel R) {F} (ih : Along R F) {st env ast d r s}
    (h : evalAst (F+1) st env ast d = (r, s)) : R st s := by
  cases ast <;> simp only [evalAst] at h <;> along_tac h

theorem doForms_step (hR : StRel R) {F} (ih : Along R F) {st env lst fr kl d r s}
    (h : doForms (F+1) st env lst fr kl d = (r, s)) : R st s := by
  rw [doForms.eq_2] at h; dsimp only at h; along_tac h

theorem letBinds_step (hR : StRel R) {F} (ih : Along R F) {st env bs a1 d r s}
    (h : letBinds (F+1) st env bs a1 d = (r, s)) : R st s := by
  match bs with
  | [] => rw [letBinds.eq_2] at h; cases h; exact hR.refl _
  | [_] => rw [letBinds.eq_3] at h; cases h; exact hR.refl _
  | b :: x :: rest => unfold letBinds at h; along_tac h

theorem macroexpand_step (hR : StRel R) {F} (ih : Along R F) {st env ast d r s}
    (h : macroexpand (F+1) st env ast d = (r, s)) : R st s := by
  unfold macroexpand at h; dsimp only [State.newScope] at h; along_tac h

theorem apply_step (hR : StRel R) {F} (ih : Along R F) {st f args d r s}
    (h : apply (F+1) st f args d = (r, s)) : R st s := by
  unfold apply at h; dsimp only [State.newScope] at h; along_tac h

theorem mapLoop_step (hR : StRel R) {F} (ih : Along R F) {st f xs d r s}
    (h : mapLoop (F+1) st f xs d = (r, s)) : R st s := by
  cases xs with
  | nil => rw [mapLoop.eq_2] at h; cases h; exact hR.refl _
  | cons x xs => rw [mapLoop.eq_3] at h; along_tac h

theorem update1_step (hR : StRel R) {F} (ih : Along R F) {st v i f d r s}
    (h : update1 (F+1) st v i f d = (r, s)) : R st s := by
  unfold update1 at h; dsimp only at h; along_tac h

theorem updateIn_step (hR : StRel R) {F} (ih : Along R F) {st v p f d r s}
    (h : updateIn (F+1) st v p f d = (r, s)) : R st s := by
  match p with
  | [] => rw [updateIn.eq_2] at h; cases h; exact hR.refl _
  | [i] => rw [updateIn.eq_3] at h; st_chain
  | i :: j :: rest =>
    unfold updateIn at h; dsimp only at h; along_tac h


theorem callBuiltin_step (hR : StRel R) {F} (ih : Along R F) {st n args d r s}
    (h : callBuiltin (F+1) st n args d = (r, s)) : R st s := by
  unfold callBuiltin at h; dsimp only [State.newAtom] at h
  by_cases hn : n = "trace!"
  · rw [if_pos hn] at h; along_tac h
  rw [if_neg hn] at h; clear hn
  by_cases hn : n = "depth!"
  · rw [if_pos hn] at h; along_tac h
  rw [if_neg hn] at h; clear hn
  by_cases hn : n = "eval"
  · rw [if_pos hn] at h; along_tac h
  rw [if_neg hn] at h; clear hn
  by_cases hn : n = "apply"
  · rw [if_pos hn] at h; along_tac h
  rw [if_neg hn] at h; clear hn
  by_cases hn : n = "map"
  · rw [if_pos hn] at h; along_tac h
  rw [if_neg hn] at h; clear hn
  by_cases hn : n = "atom"
  · rw [if_pos hn] at h; along_tac h
  rw [if_neg hn] at h; clear hn
  by_cases hn : n = "deref"
  · rw [if_pos hn] at h; along_tac h
  rw [if_neg hn] at h; clear hn
  by_cases hn : n = "reset!"
  · rw [if_pos hn] at h; along_tac h
  rw [if_neg hn] at h; clear hn
  by_cases hn : n = "swap!"
  · rw [if_pos hn] at h; along_tac h
  rw [if_neg hn] at h; clear hn
  by_cases hn : n = "update"
  · rw [if_pos hn] at h; along_tac h
  rw [if_neg hn] at h; clear hn
  by_cases hn : n = "update-in"
  · rw [if_pos hn] at h; along_tac h
  rw [if_neg hn] at h; clear hn
  along_tac h

theorem eval_step (hR : StRel R) {F} (ih : Along R F) {st env ast d r s}
    (h : eval (F+1) st env ast d = (r, s)) : R st s := by
  unfold eval at h
  split at h
  · st_chain
  · rename_i sp hsp
    dsimp only at h
    generalize hx : evalLoop F _ env ast d = x at h
    obtain ⟨r1, s1⟩ := x
    have h1 := hR.trans (hR.stepper st sp _ hsp) (ih.evalLoop hx)
    dsimp only at h
    split at h <;> cases h
    · exact h1
    · exact hR.trans h1 (hR.stepper _ _ _ (by assumption))

theorem evalLoop_step (hR : StRel R) {F} (ih : Along R F) {st env ast d r s}
    (h : evalLoop (F+1) st env ast d = (r, s)) : R st s := by
  rcases hp : st.poll with ⟨dn, s0⟩
  have h0 : R st s0 := by
    have : s0 = st.poll.2 := by rw [hp]
    subst this; exact hR.ticks st
  cases dn with
  | true => rw [evalLoop_timeout hp] at h; cases h; exact h0
  | false =>
    by_cases hl : ∃ xs p, ast = .list xs p
    case neg => rw [evalLoop_nonlist hp (fun xs p hc => hl ⟨xs, p, hc⟩)] at h; st_chain
    obtain ⟨xs, p, rfl⟩ := hl
    rcases hm : macroexpand F s0 env (.list xs p) d with ⟨rm, s1⟩
    have h1 : R st s1 := hR.trans h0 (ih.macroexpand hm)
    cases rm with
    | err e => rw [evalLoop_mac_err hp hm] at h; cases h; exact h1
    | oof => rw [evalLoop_mac_oof hp hm] at h; cases h; exact h1
    | ok ast' =>
      by_cases hl' : ∃ xs p, ast' = .list xs p
      case neg => rw [evalLoop_mac_nonlist hp hm (fun xs p hc => hl' ⟨xs, p, hc⟩)] at h; st_chain
      obtain ⟨ys, p', rfl⟩ := hl'
      cases ys with
      | nil => rw [evalLoop_mac_empty hp hm] at h; cases h; exact h1
      | cons a0 ops =>
        by_cases h_def : a0sym a0 = "def"
        · rw [evalLoop_def hp hm h_def] at h
          along_tac h
        by_cases h_let : a0sym a0 = "let"
        · rw [evalLoop_let hp hm h_let] at h
          simp only [continueWith] at h
          along_tac h
        by_cases h_quote : a0sym a0 = "quote"
        · rw [evalLoop_quote hp hm h_quote] at h
          along_tac h
        by_cases h_quasiquoteexpand : a0sym a0 = "quasiquoteexpand"
        · rw [evalLoop_quasiquoteexpand hp hm h_quasiquoteexpand] at h
          along_tac h
        by_cases h_quasiquote : a0sym a0 = "quasiquote"
        · rw [evalLoop_quasiquote hp hm h_quasiquote] at h
          simp only [continueWith] at h
          along_tac h
        by_cases h_defmacro : a0sym a0 = "defmacro"
        · rw [evalLoop_defmacro hp hm h_defmacro] at h
          along_tac h
        by_cases h_macroexpand : a0sym a0 = "macroexpand"
        · rw [evalLoop_macroexpand hp hm h_macroexpand] at h
          along_tac h
        by_cases h_try : a0sym a0 = "try"
        · rw [evalLoop_try hp hm h_try] at h
          split at h
          · cases h; exact h1
          split at h
          · cases h; exact h1
          rename_i parts _
          rcases hb : doForms F s1 env parts.body 0 false d with ⟨rb, sb⟩
          rw [hb] at h; dsimp only at h
          have h2 := hR.trans h1 (ih.doForms hb)
          rcases hc : tryCatch F parts env d rb sb with ⟨rc, sc⟩
          rw [hc] at h; dsimp only at h
          have h3 : R st sc := by
            unfold tryCatch at hc; dsimp only [State.newScope] at hc; along_tac hc
          unfold tryFinally at h; simp only [outing1Defer] at h; along_tac h
        by_cases h_do : a0sym a0 = "do"
        · rw [evalLoop_do hp hm h_do] at h
          simp only [continueWith] at h
          along_tac h
        by_cases h_if : a0sym a0 = "if"
        · rw [evalLoop_if hp hm h_if] at h
          simp only [continueWith] at h
          along_tac h
        by_cases h_fn : a0sym a0 = "fn"
        · rw [evalLoop_fn hp hm h_fn] at h
          along_tac h
        have ha : a0sym a0 ∉ specialForms := by
          simp only [specialForms, List.mem_cons, List.not_mem_nil, or_false, not_or]
          exact ⟨h_def, h_let, h_quote, h_quasiquoteexpand, h_quasiquote, h_defmacro, h_macroexpand, h_try, h_do, h_if, h_fn⟩
        rw [evalLoop_app hp hm ha] at h
        simp only [continueWith] at h
        along_tac h

/-- every function of the mutual block, at every fuel, moves the state along `R` -/
theorem along (hR : StRel R) : ∀ F, Along R F := by
  intro F
  induction F with
  | zero =>
    constructor <;> intros <;> rename_i h
    · rw [eval.eq_1] at h; cases h; exact hR.refl _
    · rw [evalLoop.eq_1] at h; cases h; exact hR.refl _
    · unfold evalAst at h; cases h; exact hR.refl _
    · rw [evalList.eq_1] at h; cases h; exact hR.refl _
    · rw [evalMap.eq_1] at h; cases h; exact hR.refl _
    · rw [doForms.eq_1] at h; cases h; exact hR.refl _
    · unfold letBinds at h; cases h; exact hR.refl _
    · unfold macroexpand at h; cases h; exact hR.refl _
    · unfold apply at h; cases h; exact hR.refl _
    · rw [mapLoop.eq_1] at h; cases h; exact hR.refl _
    · unfold updateIn at h; cases h; exact hR.refl _
    · unfold update1 at h; cases h; exact hR.refl _
    · unfold callBuiltin at h; cases h; exact hR.refl _
  | succ F ih =>
    exact ⟨eval_step hR ih, evalLoop_step hR ih, evalAst_step hR ih, evalList_step hR ih, evalMap_step hR ih,
      doForms_step hR ih, letBinds_step hR ih, macroexpand_step hR ih, apply_step hR ih, mapLoop_step hR ih,
      updateIn_step hR ih, update1_step hR ih, callBuiltin_step hR ih⟩

end along

/-! the same facts in `(f F st …).2` form -/
namespace Along
variable {R : State → State → Prop} {F : Nat} (h : Along R F)
include h
theorem eval₂ (st env ast d) : R st (LispModel.eval F st env ast d).2 := h.eval rfl
theorem evalLoop₂ (st env ast d) : R st (LispModel.evalLoop F st env ast d).2 := h.evalLoop rfl
theorem evalAst₂ (st env ast d) : R st (LispModel.evalAst F st env ast d).2 := h.evalAst rfl
theorem evalList₂ (st env xs d) : R st (LispModel.evalList F st env xs d).2 := h.evalList rfl
theorem evalMap₂ (st env xs d) : R st (LispModel.evalMap F st env xs d).2 := h.evalMap rfl
theorem doForms₂ (st env lst fr kl d) : R st (LispModel.doForms F st env lst fr kl d).2 := h.doForms rfl
theorem letBinds₂ (st env bs a1 d) : R st (LispModel.letBinds F st env bs a1 d).2 := h.letBinds rfl
theorem macroexpand₂ (st env ast d) : R st (LispModel.macroexpand F st env ast d).2 := h.macroexpand rfl
theorem apply₂ (st f args d) : R st (LispModel.apply F st f args d).2 := h.apply rfl
theorem mapLoop₂ (st f xs d) : R st (LispModel.mapLoop F st f xs d).2 := h.mapLoop rfl
theorem updateIn₂ (st v p f d) : R st (LispModel.updateIn F st v p f d).2 := h.updateIn rfl
theorem update1₂ (st v i f d) : R st (LispModel.update1 F st v i f d).2 := h.update1 rfl
theorem callBuiltin₂ (st n args d) : R st (LispModel.callBuiltin F st n args d).2 := h.callBuiltin rfl
end Along

/-! ### (b)–(e): the instances -/

theorem set_trace (s : State) (env k v) : (s.set env k v).trace = s.trace := by
  unfold State.set; split <;> rfl
theorem set_ticks (s : State) (env k v) : (s.set env k v).ticks = s.ticks := by
  unfold State.set; split <;> rfl
theorem set_cancelAt (s : State) (env k v) : (s.set env k v).cancelAt = s.cancelAt := by
  unfold State.set; split <;> rfl
theorem set_stepper (s : State) (env k v) : (s.set env k v).stepper = s.stepper := by
  unfold State.set; split <;> rfl
theorem set_atoms (s : State) (env k v) : (s.set env k v).atoms = s.atoms := by
  unfold State.set; split <;> rfl

/-- (b) effects are only appended (the trace is stored most-recent-first) -/
def TraceSuffix (a b : State) : Prop := ∃ new, b.trace = new ++ a.trace

theorem traceSuffix_rel : StRel TraceSuffix where
  refl s := ⟨[], rfl⟩
  trans := by
    rintro a b c ⟨n1, h1⟩ ⟨n2, h2⟩
    exact ⟨n2 ++ n1, by rw [h2, h1, List.append_assoc]⟩
  ticks s := ⟨[], rfl⟩
  set s env k v := ⟨[], by rw [set_trace]; rfl⟩
  push s o d := ⟨[], rfl⟩
  atoms s a := ⟨[], rfl⟩
  trace s v := ⟨[v], rfl⟩
  marks s m := ⟨[], rfl⟩
  stepper s sp sp' _ := ⟨[], rfl⟩

/-- (b) `trace_suffix`, all 13 functions at once: `(trace_suffix F).eval₂ st env ast d :
    ∃ new, (eval F st env ast d).2.trace = new ++ st.trace`, and so on -/
theorem trace_suffix (F : Nat) : Along TraceSuffix F := along traceSuffix_rel F

/-- (c) the debugger stays off -/
def StepperOff (a b : State) : Prop := a.stepper = none → b.stepper = none

theorem stepperOff_rel : StRel StepperOff where
  refl s := id
  trans h1 h2 := fun h => h2 (h1 h)
  ticks s := id
  set s env k v := by intro h; rw [set_stepper]; exact h
  push s o d := id
  atoms s a := id
  trace s v := id
  marks s m := id
  stepper s sp sp' hs := by intro h; rw [hs] at h; cases h

theorem stepper_none_preserved (F : Nat) : Along StepperOff F := along stepperOff_rel F

/-- (c) the cancellation oracle is never written -/
def SameCancel (a b : State) : Prop := b.cancelAt = a.cancelAt

theorem sameCancel_rel : StRel SameCancel where
  refl s := rfl
  trans h1 h2 := by unfold SameCancel at *; rw [h2, h1]
  ticks s := rfl
  set s env k v := set_cancelAt ..
  push s o d := rfl
  atoms s a := rfl
  trace s v := rfl
  marks s m := rfl
  stepper s sp sp' _ := rfl

theorem cancelAt_preserved (F : Nat) : Along SameCancel F := along sameCancel_rel F

/-- (d) the poll counter only grows -/
def TicksLe (a b : State) : Prop := a.ticks ≤ b.ticks

theorem ticksLe_rel : StRel TicksLe where
  refl s := Nat.le_refl _
  trans h1 h2 := Nat.le_trans h1 h2
  ticks s := Nat.le_succ _
  set s env k v := by unfold TicksLe; rw [set_ticks]; exact Nat.le_refl _
  push s o d := Nat.le_refl _
  atoms s a := Nat.le_refl _
  trace s v := Nat.le_refl _
  marks s m := Nat.le_refl _
  stepper s sp sp' _ := Nat.le_refl _

theorem ticks_mono (F : Nat) : Along TicksLe F := along ticksLe_rel F

/-- (e) scopes are only pushed or have their `data` updated: the store does not shrink and every
    existing scope keeps its `outer` link -/
def ScopesGrow (a b : State) : Prop :=
  a.scopes.size ≤ b.scopes.size ∧
  ∀ (i : Nat) (sc : Scope), a.scopes[i]? = some sc → ∃ sc' : Scope, b.scopes[i]? = some sc' ∧ sc'.outer = sc.outer

theorem scopesGrow_refl (s : State) : ScopesGrow s s := ⟨Nat.le_refl _, fun _ sc h => ⟨sc, h, rfl⟩⟩

theorem scopesGrow_of_scopes_eq {a b : State} (h : b.scopes = a.scopes) : ScopesGrow a b := by
  unfold ScopesGrow; rw [h]; exact scopesGrow_refl a

theorem scopesGrow_rel : StRel ScopesGrow where
  refl := scopesGrow_refl
  trans := by
    rintro a b c ⟨h1, h1'⟩ ⟨h2, h2'⟩
    refine ⟨Nat.le_trans h1 h2, fun i sc h => ?_⟩
    obtain ⟨sc1, hb, ho1⟩ := h1' i sc h
    obtain ⟨sc2, hc, ho2⟩ := h2' i sc1 hb
    exact ⟨sc2, hc, ho2.trans ho1⟩
  ticks s := scopesGrow_of_scopes_eq rfl
  set s env k v := by
    unfold State.set State.scope?
    split
    · exact scopesGrow_refl s
    · rename_i sc0 hsc
      refine ⟨by simp, fun i sc h => ?_⟩
      by_cases hi : env = i
      · subst hi
        rw [hsc] at h; cases h
        have hlt : env < s.scopes.size := by
          rcases Nat.lt_or_ge env s.scopes.size with hlt | hge
          · exact hlt
          · rw [Array.getElem?_eq_none hge] at hsc; cases hsc
        exact ⟨{ sc0 with data := ainsert k v sc0.data }, by simp [hlt], rfl⟩
      · exact ⟨sc, by simp [hi, h], rfl⟩
  push s o d := by
    refine ⟨by simp, fun i sc h => ⟨sc, ?_, rfl⟩⟩
    have hlt : i < s.scopes.size := by
      rcases Nat.lt_or_ge i s.scopes.size with hlt | hge
      · exact hlt
      · rw [Array.getElem?_eq_none hge] at h; cases h
    simp [Array.getElem?_push, Nat.ne_of_lt hlt, h]
  atoms s a := scopesGrow_of_scopes_eq rfl
  trace s v := scopesGrow_of_scopes_eq rfl
  marks s m := scopesGrow_of_scopes_eq rfl
  stepper s sp sp' _ := scopesGrow_of_scopes_eq rfl

theorem scopes_grow (F : Nat) : Along ScopesGrow F := along scopesGrow_rel F

/-! ### (a) fuel monotonicity -/

/-- the induction predicate: a result of fuel `F` other than `.oof` is also the result of fuel `F+1` -/
structure Mono (F : Nat) : Prop where
  eval : ∀ {st env ast d r s}, eval F st env ast d = (r, s) → r ≠ .oof → eval (F+1) st env ast d = (r, s)
  evalLoop : ∀ {st env ast d r s}, evalLoop F st env ast d = (r, s) → r ≠ .oof → evalLoop (F+1) st env ast d = (r, s)
  evalAst : ∀ {st env ast d r s}, evalAst F st env ast d = (r, s) → r ≠ .oof → evalAst (F+1) st env ast d = (r, s)
  evalList : ∀ {st env xs d r s}, evalList F st env xs d = (r, s) → r ≠ .oof → evalList (F+1) st env xs d = (r, s)
  evalMap : ∀ {st env xs d r s}, evalMap F st env xs d = (r, s) → r ≠ .oof → evalMap (F+1) st env xs d = (r, s)
  doForms : ∀ {st env lst fr kl d r s}, doForms F st env lst fr kl d = (r, s) → r ≠ .oof → doForms (F+1) st env lst fr kl d = (r, s)
  letBinds : ∀ {st env bs a1 d r s}, letBinds F st env bs a1 d = (r, s) → r ≠ .oof → letBinds (F+1) st env bs a1 d = (r, s)
  macroexpand : ∀ {st env ast d r s}, macroexpand F st env ast d = (r, s) → r ≠ .oof → macroexpand (F+1) st env ast d = (r, s)
  apply : ∀ {st f args d r s}, apply F st f args d = (r, s) → r ≠ .oof → apply (F+1) st f args d = (r, s)
  mapLoop : ∀ {st f xs d r s}, mapLoop F st f xs d = (r, s) → r ≠ .oof → mapLoop (F+1) st f xs d = (r, s)
  updateIn : ∀ {st v p f d r s}, updateIn F st v p f d = (r, s) → r ≠ .oof → updateIn (F+1) st v p f d = (r, s)
  update1 : ∀ {st v i f d r s}, update1 F st v i f d = (r, s) → r ≠ .oof → update1 (F+1) st v i f d = (r, s)
  callBuiltin : ∀ {st n args d r s}, callBuiltin F st n args d = (r, s) → r ≠ .oof → callBuiltin (F+1) st n args d = (r, s)

namespace Mono
variable {F : Nat} (h : Mono F)
include h
theorem eval' {st env ast d} (hne : (LispModel.eval F st env ast d).1 ≠ .oof) :
    LispModel.eval (F+1) st env ast d = LispModel.eval F st env ast d := h.eval rfl hne
theorem evalLoop' {st env ast d} (hne : (LispModel.evalLoop F st env ast d).1 ≠ .oof) :
    LispModel.evalLoop (F+1) st env ast d = LispModel.evalLoop F st env ast d := h.evalLoop rfl hne
theorem evalAst' {st env ast d} (hne : (LispModel.evalAst F st env ast d).1 ≠ .oof) :
    LispModel.evalAst (F+1) st env ast d = LispModel.evalAst F st env ast d := h.evalAst rfl hne
theorem evalList' {st env xs d} (hne : (LispModel.evalList F st env xs d).1 ≠ .oof) :
    LispModel.evalList (F+1) st env xs d = LispModel.evalList F st env xs d := h.evalList rfl hne
theorem evalMap' {st env xs d} (hne : (LispModel.evalMap F st env xs d).1 ≠ .oof) :
    LispModel.evalMap (F+1) st env xs d = LispModel.evalMap F st env xs d := h.evalMap rfl hne
theorem doForms' {st env lst fr kl d} (hne : (LispModel.doForms F st env lst fr kl d).1 ≠ .oof) :
    LispModel.doForms (F+1) st env lst fr kl d = LispModel.doForms F st env lst fr kl d := h.doForms rfl hne
theorem letBinds' {st env bs a1 d} (hne : (LispModel.letBinds F st env bs a1 d).1 ≠ .oof) :
    LispModel.letBinds (F+1) st env bs a1 d = LispModel.letBinds F st env bs a1 d := h.letBinds rfl hne
theorem macroexpand' {st env ast d} (hne : (LispModel.macroexpand F st env ast d).1 ≠ .oof) :
    LispModel.macroexpand (F+1) st env ast d = LispModel.macroexpand F st env ast d := h.macroexpand rfl hne
theorem apply' {st f args d} (hne : (LispModel.apply F st f args d).1 ≠ .oof) :
    LispModel.apply (F+1) st f args d = LispModel.apply F st f args d := h.apply rfl hne
theorem mapLoop' {st f xs d} (hne : (LispModel.mapLoop F st f xs d).1 ≠ .oof) :
    LispModel.mapLoop (F+1) st f xs d = LispModel.mapLoop F st f xs d := h.mapLoop rfl hne
theorem updateIn' {st v p f d} (hne : (LispModel.updateIn F st v p f d).1 ≠ .oof) :
    LispModel.updateIn (F+1) st v p f d = LispModel.updateIn F st v p f d := h.updateIn rfl hne
theorem update1' {st v i f d} (hne : (LispModel.update1 F st v i f d).1 ≠ .oof) :
    LispModel.update1 (F+1) st v i f d = LispModel.update1 F st v i f d := h.update1 rfl hne
theorem callBuiltin' {st n args d} (hne : (LispModel.callBuiltin F st n args d).1 ≠ .oof) :
    LispModel.callBuiltin (F+1) st n args d = LispModel.callBuiltin F st n args d := h.callBuiltin rfl hne
end Mono

section mono

/-- leaf of a fuel-monotonicity step: lift every recursive call recorded in the context -/
local macro "mono_leaf" ih:ident hne:ident : tactic => `(tactic|
  first
  | rfl
  | (exfalso; exact $hne rfl)
  | (simp only [Mono.eval' $ih, Mono.evalLoop' $ih, Mono.evalAst' $ih, Mono.evalList' $ih, Mono.evalMap' $ih,
      Mono.doForms' $ih, Mono.letBinds' $ih, Mono.macroexpand' $ih, Mono.apply' $ih, Mono.mapLoop' $ih,
      Mono.updateIn' $ih, Mono.update1' $ih, Mono.callBuiltin' $ih,
      *, ne_eq, reduceCtorEq, not_false_eq_true, ↓reduceIte]; done)
  | (simp only [Mono.eval' $ih, Mono.evalLoop' $ih, Mono.evalAst' $ih, Mono.evalList' $ih, Mono.evalMap' $ih,
      Mono.doForms' $ih, Mono.letBinds' $ih, Mono.macroexpand' $ih, Mono.apply' $ih, Mono.mapLoop' $ih,
      Mono.updateIn' $ih, Mono.update1' $ih, Mono.callBuiltin' $ih,
      *, ne_eq, reduceCtorEq, not_false_eq_true, ↓reduceIte]
     split <;> first | rfl | (exfalso; simp_all; done)))

local macro "mono_tac" h:ident ih:ident hne:ident : tactic => `(tactic|
  ((repeat' split at $h:ident) <;> (try cases $h:ident) <;> (try simp only [imp_false] at *) <;> mono_leaf $ih $hne))

theorem evalList_mono {F} (ih : Mono F) {st env xs d r s}
    (h : evalList (F+1) st env xs d = (r, s)) (hne : r ≠ .oof) : evalList (F+1+1) st env xs d = (r, s) := by
  cases xs with
  | nil => rw [evalList.eq_2] at h ⊢; exact h
  | cons x xs =>
    rw [evalList.eq_3] at h ⊢
    mono_tac h ih hne

theorem evalMap_mono {F} (ih : Mono F) {st env xs d r s}
    (h : evalMap (F+1) st env xs d = (r, s)) (hne : r ≠ .oof) : evalMap (F+1+1) st env xs d = (r, s) := by
  cases xs with
  | nil => rw [evalMap.eq_2] at h ⊢; exact h
  | cons x xs =>
    obtain ⟨k, x⟩ := x
    rw [evalMap.eq_3] at h ⊢
    mono_tac h ih hne

theorem mapLoop_mono {F} (ih : Mono F) {st f xs d r s}
    (h : mapLoop (F+1) st f xs d = (r, s)) (hne : r ≠ .oof) : mapLoop (F+1+1) st f xs d = (r, s) := by
  cases xs with
  | nil => rw [mapLoop.eq_2] at h ⊢; exact h
  | cons x xs =>
    rw [mapLoop.eq_3] at h ⊢
    mono_tac h ih hne

theorem evalAst_mono {F} (ih : Mono F) {st env ast d r s}
    (h : evalAst (F+1) st env ast d = (r, s)) (hne : r ≠ .oof) : evalAst (F+1+1) st env ast d = (r, s) := by
  cases ast <;> simp only [evalAst] at h ⊢ <;> mono_tac h ih hne

theorem letBinds_mono {F} (ih : Mono F) {st env bs a1 d r s}
    (h : letBinds (F+1) st env bs a1 d = (r, s)) (hne : r ≠ .oof) : letBinds (F+1+1) st env bs a1 d = (r, s) := by
  match bs with
  | [] => rw [letBinds.eq_2] at h ⊢; exact h
  | [_] => rw [letBinds.eq_3] at h ⊢; exact h
  | b :: x :: rest => unfold letBinds at h ⊢; mono_tac h ih hne

theorem macroexpand_mono {F} (ih : Mono F) {st env ast d r s}
    (h : macroexpand (F+1) st env ast d = (r, s)) (hne : r ≠ .oof) : macroexpand (F+1+1) st env ast d = (r, s) := by
  unfold macroexpand at h ⊢; dsimp only [State.newScope] at h ⊢; mono_tac h ih hne

theorem apply_mono {F} (ih : Mono F) {st f args d r s}
    (h : apply (F+1) st f args d = (r, s)) (hne : r ≠ .oof) : apply (F+1+1) st f args d = (r, s) := by
  unfold apply at h ⊢; dsimp only [State.newScope] at h ⊢; mono_tac h ih hne

theorem update1_mono {F} (ih : Mono F) {st v i f d r s}
    (h : update1 (F+1) st v i f d = (r, s)) (hne : r ≠ .oof) : update1 (F+1+1) st v i f d = (r, s) := by
  unfold update1 at h ⊢; dsimp only at h ⊢; mono_tac h ih hne


theorem doForms_mono {F} (ih : Mono F) {st env lst fr kl d r s}
    (h : doForms (F+1) st env lst fr kl d = (r, s)) (hne : r ≠ .oof) : doForms (F+1+1) st env lst fr kl d = (r, s) := by
  unfold doForms at h ⊢; dsimp only at h ⊢
  split at h
  · rw [if_pos ‹_›]; exact h
  · rw [if_neg ‹_›]
    rcases hx : evalList F st env (if kl = true then (List.drop fr lst).dropLast else List.drop fr lst) d with ⟨rx, sx⟩
    rw [hx] at h
    have hrx : rx ≠ .oof := by
      intro hc; subst hc; dsimp only at h; apply hne
      (repeat' split at h) <;> cases h <;> rfl
    rw [ih.evalList hx hrx]; exact h

theorem updateIn_mono {F} (ih : Mono F) {st v p f d r s}
    (h : updateIn (F+1) st v p f d = (r, s)) (hne : r ≠ .oof) : updateIn (F+1+1) st v p f d = (r, s) := by
  match p with
  | [] => rw [updateIn.eq_2] at h ⊢; exact h
  | [i] => rw [updateIn.eq_3] at h ⊢; exact ih.update1 h hne
  | i :: j :: rest => unfold updateIn at h ⊢; dsimp only at h ⊢; mono_tac h ih hne

theorem callBuiltin_mono {F} (ih : Mono F) {st n args d r s}
    (h : callBuiltin (F+1) st n args d = (r, s)) (hne : r ≠ .oof) : callBuiltin (F+1+1) st n args d = (r, s) := by
  unfold callBuiltin at h ⊢; dsimp only [State.newAtom] at h ⊢
  by_cases hn : n = "trace!"
  · rw [if_pos hn] at h ⊢; mono_tac h ih hne
  rw [if_neg hn] at h ⊢; clear hn
  by_cases hn : n = "depth!"
  · rw [if_pos hn] at h ⊢; mono_tac h ih hne
  rw [if_neg hn] at h ⊢; clear hn
  by_cases hn : n = "eval"
  · rw [if_pos hn] at h ⊢; mono_tac h ih hne
  rw [if_neg hn] at h ⊢; clear hn
  by_cases hn : n = "apply"
  · rw [if_pos hn] at h ⊢; mono_tac h ih hne
  rw [if_neg hn] at h ⊢; clear hn
  by_cases hn : n = "map"
  · rw [if_pos hn] at h ⊢; mono_tac h ih hne
  rw [if_neg hn] at h ⊢; clear hn
  by_cases hn : n = "atom"
  · rw [if_pos hn] at h ⊢; mono_tac h ih hne
  rw [if_neg hn] at h ⊢; clear hn
  by_cases hn : n = "deref"
  · rw [if_pos hn] at h ⊢; mono_tac h ih hne
  rw [if_neg hn] at h ⊢; clear hn
  by_cases hn : n = "reset!"
  · rw [if_pos hn] at h ⊢; mono_tac h ih hne
  rw [if_neg hn] at h ⊢; clear hn
  by_cases hn : n = "swap!"
  · rw [if_pos hn] at h ⊢; mono_tac h ih hne
  rw [if_neg hn] at h ⊢; clear hn
  by_cases hn : n = "update"
  · rw [if_pos hn] at h ⊢; mono_tac h ih hne
  rw [if_neg hn] at h ⊢; clear hn
  by_cases hn : n = "update-in"
  · rw [if_pos hn] at h ⊢; mono_tac h ih hne
  rw [if_neg hn] at h ⊢; clear hn
  exact h

theorem eval_stepper_none {F st env ast d} (hs : st.stepper = none) :
    eval (F+1) st env ast d = evalLoop F st env ast d := by
  unfold eval; simp only [hs]

theorem eval_stepper_some {F st env ast d sp} (hs : st.stepper = some sp) :
    eval (F+1) st env ast d =
      ((evalLoop F { st with stepper := some (stepPrologue sp ast).1 } env ast d).1,
       stepEpilogue (stepPrologue sp ast).1.outing2 (stepPrologue sp ast).2
         (evalLoop F { st with stepper := some (stepPrologue sp ast).1 } env ast d).2) := by
  unfold eval; simp only [hs]; rfl

theorem eval_mono {F} (ih : Mono F) {st env ast d r s}
    (h : eval (F+1) st env ast d = (r, s)) (hne : r ≠ .oof) : eval (F+1+1) st env ast d = (r, s) := by
  cases hs : st.stepper with
  | none => rw [eval_stepper_none hs] at h ⊢; exact ih.evalLoop h hne
  | some sp =>
    rw [eval_stepper_some hs] at h ⊢
    rcases hx : evalLoop F { st with stepper := some (stepPrologue sp ast).1 } env ast d with ⟨rx, sx⟩
    rw [hx] at h
    have : rx = r := congrArg Prod.fst h
    rw [ih.evalLoop hx (this ▸ hne)]; exact h

theorem tryCatch_mono {F} (ih : Mono F) {parts env d rb sb r s}
    (h : tryCatch F parts env d rb sb = (r, s)) (hne : r ≠ .oof) : tryCatch (F+1) parts env d rb sb = (r, s) := by
  unfold tryCatch at h ⊢; dsimp only [State.newScope] at h ⊢; mono_tac h ih hne

theorem tryFinally_oof {F parts env d sb} : tryFinally F parts env d .oof sb = (.oof, sb) := by
  unfold tryFinally; rfl

theorem tryFinally_mono {F} (ih : Mono F) {parts env d rb sb r s}
    (h : tryFinally F parts env d rb sb = (r, s)) (hne : r ≠ .oof) : tryFinally (F+1) parts env d rb sb = (r, s) := by
  cases rb with
  | oof => rw [tryFinally_oof] at h; cases h; exact absurd rfl hne
  | ok v => unfold tryFinally at h ⊢; dsimp only at h ⊢; mono_tac h ih hne
  | err e => unfold tryFinally at h ⊢; dsimp only at h ⊢; mono_tac h ih hne

theorem tryCatch_oof {F parts env d sb} : tryCatch F parts env d .oof sb = (.oof, sb) := by
  unfold tryCatch; rfl

theorem evalLoop_mono {F} (ih : Mono F) {st env ast d r s}
    (h : evalLoop (F+1) st env ast d = (r, s)) (hne : r ≠ .oof) : evalLoop (F+1+1) st env ast d = (r, s) := by
  rcases hp : st.poll with ⟨dn, s0⟩
  cases dn with
  | true => rw [evalLoop_timeout hp] at h ⊢; exact h
  | false =>
    by_cases hl : ∃ xs p, ast = .list xs p
    case neg =>
      rw [evalLoop_nonlist hp (fun xs p hc => hl ⟨xs, p, hc⟩)] at h ⊢; exact ih.evalAst h hne
    obtain ⟨xs, p, rfl⟩ := hl
    rcases hm : macroexpand F s0 env (.list xs p) d with ⟨rm, s1⟩
    cases rm with
    | oof => rw [evalLoop_mac_oof hp hm] at h; cases h; exact absurd rfl hne
    | err e =>
      have hm' := ih.macroexpand hm (by simp)
      rw [evalLoop_mac_err hp hm] at h; rw [evalLoop_mac_err hp hm']; exact h
    | ok ast' =>
      have hm' := ih.macroexpand hm (by simp)
      by_cases hl' : ∃ xs p, ast' = .list xs p
      case neg =>
        rw [evalLoop_mac_nonlist hp hm (fun xs p hc => hl' ⟨xs, p, hc⟩)] at h
        rw [evalLoop_mac_nonlist hp hm' (fun xs p hc => hl' ⟨xs, p, hc⟩)]; exact ih.evalAst h hne
      obtain ⟨ys, p', rfl⟩ := hl'
      cases ys with
      | nil => rw [evalLoop_mac_empty hp hm] at h; rw [evalLoop_mac_empty hp hm']; exact h
      | cons a0 ops =>
        by_cases h_def : a0sym a0 = "def"
        · rw [evalLoop_def hp hm h_def] at h; rw [evalLoop_def hp hm' h_def]
          mono_tac h ih hne
        by_cases h_let : a0sym a0 = "let"
        · rw [evalLoop_let hp hm h_let] at h; rw [evalLoop_let hp hm' h_let]
          simp only [continueWith] at h ⊢
          mono_tac h ih hne
        by_cases h_quote : a0sym a0 = "quote"
        · rw [evalLoop_quote hp hm h_quote] at h; rw [evalLoop_quote hp hm' h_quote]
          mono_tac h ih hne
        by_cases h_quasiquoteexpand : a0sym a0 = "quasiquoteexpand"
        · rw [evalLoop_quasiquoteexpand hp hm h_quasiquoteexpand] at h; rw [evalLoop_quasiquoteexpand hp hm' h_quasiquoteexpand]
          mono_tac h ih hne
        by_cases h_quasiquote : a0sym a0 = "quasiquote"
        · rw [evalLoop_quasiquote hp hm h_quasiquote] at h; rw [evalLoop_quasiquote hp hm' h_quasiquote]
          simp only [continueWith] at h ⊢
          mono_tac h ih hne
        by_cases h_defmacro : a0sym a0 = "defmacro"
        · rw [evalLoop_defmacro hp hm h_defmacro] at h; rw [evalLoop_defmacro hp hm' h_defmacro]
          mono_tac h ih hne
        by_cases h_macroexpand : a0sym a0 = "macroexpand"
        · rw [evalLoop_macroexpand hp hm h_macroexpand] at h; rw [evalLoop_macroexpand hp hm' h_macroexpand]
          mono_tac h ih hne
        by_cases h_try : a0sym a0 = "try"
        · rw [evalLoop_try hp hm h_try] at h; rw [evalLoop_try hp hm' h_try]
          split at h
          · rw [if_pos ‹_›]; exact h
          rw [if_neg ‹_›]
          split at h
          · exact h
          rename_i parts hst
          rcases hb : doForms F s1 env parts.body 0 false d with ⟨rb, sb⟩
          rw [hb] at h; dsimp only at h
          rcases hc : tryCatch F parts env d rb sb with ⟨rc, sc⟩
          rw [hc] at h; dsimp only at h
          have hrc : rc ≠ .oof := by
            intro hx; subst hx; rw [tryFinally_oof] at h; cases h; exact hne rfl
          have hrb : rb ≠ .oof := by
            intro hx; subst hx; rw [tryCatch_oof] at hc; cases hc; exact hrc rfl
          rw [ih.doForms hb hrb]; dsimp only
          rw [tryCatch_mono ih hc hrc]; exact tryFinally_mono ih h hne
        by_cases h_do : a0sym a0 = "do"
        · rw [evalLoop_do hp hm h_do] at h; rw [evalLoop_do hp hm' h_do]
          simp only [continueWith] at h ⊢
          mono_tac h ih hne
        by_cases h_if : a0sym a0 = "if"
        · rw [evalLoop_if hp hm h_if] at h; rw [evalLoop_if hp hm' h_if]
          simp only [continueWith] at h ⊢
          mono_tac h ih hne
        by_cases h_fn : a0sym a0 = "fn"
        · rw [evalLoop_fn hp hm h_fn] at h; rw [evalLoop_fn hp hm' h_fn]
          mono_tac h ih hne
        have ha : a0sym a0 ∉ specialForms := by
          simp only [specialForms, List.mem_cons, List.not_mem_nil, or_false, not_or]
          exact ⟨h_def, h_let, h_quote, h_quasiquoteexpand, h_quasiquote, h_defmacro, h_macroexpand, h_try, h_do, h_if, h_fn⟩
        rw [evalLoop_app hp hm ha] at h; rw [evalLoop_app hp hm' ha]
        simp only [continueWith] at h ⊢
        mono_tac h ih hne


/-- (a) `fuel_mono`, all 13 functions at once: a result other than `.oof` obtained with fuel `F` is the
    result (value and state) with fuel `F+1` -/
theorem fuel_mono : ∀ F, Mono F := by
  intro F
  induction F with
  | zero =>
    constructor <;> intros <;> rename_i h hne <;> exfalso <;> apply hne
    · rw [eval.eq_1] at h; cases h; rfl
    · rw [evalLoop.eq_1] at h; cases h; rfl
    · unfold evalAst at h; cases h; rfl
    · rw [evalList.eq_1] at h; cases h; rfl
    · rw [evalMap.eq_1] at h; cases h; rfl
    · rw [doForms.eq_1] at h; cases h; rfl
    · unfold letBinds at h; cases h; rfl
    · unfold macroexpand at h; cases h; rfl
    · unfold apply at h; cases h; rfl
    · rw [mapLoop.eq_1] at h; cases h; rfl
    · unfold updateIn at h; cases h; rfl
    · unfold update1 at h; cases h; rfl
    · unfold callBuiltin at h; cases h; rfl
  | succ F ih =>
    exact ⟨eval_mono ih, evalLoop_mono ih, evalAst_mono ih, evalList_mono ih, evalMap_mono ih,
      doForms_mono ih, letBinds_mono ih, macroexpand_mono ih, apply_mono ih, mapLoop_mono ih,
      updateIn_mono ih, update1_mono ih, callBuiltin_mono ih⟩

end mono

/-! corollaries for `F ≤ F'` -/

theorem eval_fuel_le {F F' : Nat} (hle : F ≤ F') {st env ast d r s} (h : eval F st env ast d = (r, s)) (hne : r ≠ .oof) :
    eval F' st env ast d = (r, s) := by
  induction hle with
  | refl => exact h
  | step _ ih => exact (fuel_mono _).eval ih hne

theorem evalLoop_fuel_le {F F' : Nat} (hle : F ≤ F') {st env ast d r s} (h : evalLoop F st env ast d = (r, s)) (hne : r ≠ .oof) :
    evalLoop F' st env ast d = (r, s) := by
  induction hle with
  | refl => exact h
  | step _ ih => exact (fuel_mono _).evalLoop ih hne

theorem evalAst_fuel_le {F F' : Nat} (hle : F ≤ F') {st env ast d r s} (h : evalAst F st env ast d = (r, s)) (hne : r ≠ .oof) :
    evalAst F' st env ast d = (r, s) := by
  induction hle with
  | refl => exact h
  | step _ ih => exact (fuel_mono _).evalAst ih hne

theorem evalList_fuel_le {F F' : Nat} (hle : F ≤ F') {st env xs d r s} (h : evalList F st env xs d = (r, s)) (hne : r ≠ .oof) :
    evalList F' st env xs d = (r, s) := by
  induction hle with
  | refl => exact h
  | step _ ih => exact (fuel_mono _).evalList ih hne

theorem evalMap_fuel_le {F F' : Nat} (hle : F ≤ F') {st env xs d r s} (h : evalMap F st env xs d = (r, s)) (hne : r ≠ .oof) :
    evalMap F' st env xs d = (r, s) := by
  induction hle with
  | refl => exact h
  | step _ ih => exact (fuel_mono _).evalMap ih hne

theorem doForms_fuel_le {F F' : Nat} (hle : F ≤ F') {st env lst fr kl d r s} (h : doForms F st env lst fr kl d = (r, s)) (hne : r ≠ .oof) :
    doForms F' st env lst fr kl d = (r, s) := by
  induction hle with
  | refl => exact h
  | step _ ih => exact (fuel_mono _).doForms ih hne

theorem letBinds_fuel_le {F F' : Nat} (hle : F ≤ F') {st env bs a1 d r s} (h : letBinds F st env bs a1 d = (r, s)) (hne : r ≠ .oof) :
    letBinds F' st env bs a1 d = (r, s) := by
  induction hle with
  | refl => exact h
  | step _ ih => exact (fuel_mono _).letBinds ih hne

theorem macroexpand_fuel_le {F F' : Nat} (hle : F ≤ F') {st env ast d r s} (h : macroexpand F st env ast d = (r, s)) (hne : r ≠ .oof) :
    macroexpand F' st env ast d = (r, s) := by
  induction hle with
  | refl => exact h
  | step _ ih => exact (fuel_mono _).macroexpand ih hne

theorem apply_fuel_le {F F' : Nat} (hle : F ≤ F') {st f args d r s} (h : apply F st f args d = (r, s)) (hne : r ≠ .oof) :
    apply F' st f args d = (r, s) := by
  induction hle with
  | refl => exact h
  | step _ ih => exact (fuel_mono _).apply ih hne

theorem mapLoop_fuel_le {F F' : Nat} (hle : F ≤ F') {st f xs d r s} (h : mapLoop F st f xs d = (r, s)) (hne : r ≠ .oof) :
    mapLoop F' st f xs d = (r, s) := by
  induction hle with
  | refl => exact h
  | step _ ih => exact (fuel_mono _).mapLoop ih hne

theorem updateIn_fuel_le {F F' : Nat} (hle : F ≤ F') {st v p f d r s} (h : updateIn F st v p f d = (r, s)) (hne : r ≠ .oof) :
    updateIn F' st v p f d = (r, s) := by
  induction hle with
  | refl => exact h
  | step _ ih => exact (fuel_mono _).updateIn ih hne

theorem update1_fuel_le {F F' : Nat} (hle : F ≤ F') {st v i f d r s} (h : update1 F st v i f d = (r, s)) (hne : r ≠ .oof) :
    update1 F' st v i f d = (r, s) := by
  induction hle with
  | refl => exact h
  | step _ ih => exact (fuel_mono _).update1 ih hne

theorem callBuiltin_fuel_le {F F' : Nat} (hle : F ≤ F') {st n args d r s} (h : callBuiltin F st n args d = (r, s)) (hne : r ≠ .oof) :
    callBuiltin F' st n args d = (r, s) := by
  induction hle with
  | refl => exact h
  | step _ ih => exact (fuel_mono _).callBuiltin ih hne

/-- two runs of `eval` that both finish agree (determinism in the fuel) -/
theorem eval_fuel_agree {F F' : Nat} {st env ast d r s r' s'} (h : eval F st env ast d = (r, s)) (hne : r ≠ .oof)
    (h' : eval F' st env ast d = (r', s')) (hne' : r' ≠ .oof) : r = r' ∧ s = s' := by
  rcases Nat.le_total F F' with hle | hle
  · have := eval_fuel_le hle h hne; rw [h'] at this; cases this; exact ⟨rfl, rfl⟩
  · have := eval_fuel_le hle h' hne'; rw [h] at this; cases this; exact ⟨rfl, rfl⟩

end Proofs.EvalBasic
end LispModel

/-
  General facts about the evaluator model (`LispModel/Eval.lean`), for all 13 functions of its
  `mutual` block:

  * vocabulary shared with `Props/C01.lean` (`tick`, `NotMacro`, `a0sym`, `continueWith`);
  * the *arm equations* of `evalLoop`: one unconditional rewriting lemma per branch of the loop body
    (the body is too big for `split`/`simp` to work on it as a whole);
  * `StRel`: a generic "the state only moves along a preorder `R`" theorem, proved once by fuel
    induction over a 13-fold conjunction, instantiated to `trace_suffix`, `stepper_none_preserved`,
    `cancelAt_preserved`, `ticks_mono`, `scopes_grow`;
  * `fuel_mono`: a result different from `.oof` is stable under more fuel.
  Core Lean only.
-/
import LispModel.Eval
namespace LispModel
open LispModel.Core

/-! ### vocabulary -/

/-- one poll of `ctx.Done()` on a context that is not cancelled: only the poll counter moves -/
def tick (st : State) : State := { st with ticks := st.ticks + 1 }

/-- the symbol `s` is not bound to a macro in scope `env` (nor in any scope around it).
    jig/lisp looks the head symbol up as a macro *before* it recognises special forms, so a user macro
    named `if` shadows the special form: every law of evaluation carries this side condition. -/
def NotMacro (st : State) (env : Nat) (s : String) : Prop :=
  ∀ ps b e p, st.get env s ≠ some (.fn ps b e true p)

/-- the head of a form is not a symbol bound to a macro -/
def HeadNotMacro (st : State) (env : Nat) : Val → Prop
  | .sym s _ => NotMacro st env s
  | _ => True

/-- the name the loop dispatches on (`a0sym` of the loop body) -/
def a0sym : Val → String
  | .sym s _ => s
  | _ => "__<*fn>__"

/-- the `continue` of the loop (`continueWith` of the loop body): without debugger the next iteration
    of the same activation, with debugger a fresh `EVAL` -/
def continueWith (F : Nat) (st : State) (env : Nat) (ast : Val) (d : Nat) : R :=
  match st.stepper with
  | none => evalLoop F st env ast d
  | some _ => eval F st env ast (d + 1)

/-- the `catch` stage of the `try` arm of the loop body: `r`, `st` = outcome of the body forms -/
def tryCatch (F : Nat) (parts : TryParts) (env d : Nat) (r : Res Val) (st : State) : R :=
  match r with
  | .ok v => (.ok v, st)
  | .oof => (.oof, st)
  | .err e =>
    (match parts.catchDo, parts.catchBind with
     | some handler, some bind =>
       (match bindParams (.list [bind] none) [caughtValue e] with
        | .error be => (.err be, st)
        | .ok data => doForms F (st.newScope env data).1 (st.newScope env data).2 handler 0 false d)
     | _, _ => (.err e, st))

/-- the deferred `finally` stage of the `try` arm: `r`, `st` = outcome after the `catch` stage -/
def tryFinally (F : Nat) (parts : TryParts) (env d : Nat) (r : Res Val) (st : State) : R :=
  match r with
  | .oof => (.oof, st)
  | _ =>
    match parts.finallyDo with
    | none => (r, outing1Defer st)
    | some fin =>
      match doForms F st env fin 0 false d with
      | (.oof, st) => (.oof, st)
      | (_, st) => (r, st)

namespace Proofs.EvalBasic

/-! ### arm equations of `evalLoop` -/

section arms
variable {F : Nat} {st s0 s1 : State} {env d : Nat} {ast ast' a0 : Val} {xs ops : List Val}
  {p p' : Option Pos} {e : Err}

theorem evalLoop_timeout (hp : st.poll = (true, s0)) :
    evalLoop (F+1) st env ast d = (.err (timeoutErr ast), s0) := by
  rw [evalLoop.eq_2]; simp (maxSteps := 10000000) only [hp, ↓reduceIte]

theorem evalLoop_nonlist (hp : st.poll = (false, s0)) (hl : ∀ xs p, ast ≠ .list xs p) :
    evalLoop (F+1) st env ast d = evalAst F s0 env ast d := by
  rw [evalLoop.eq_2]
  cases ast <;> first | (exact absurd rfl (hl _ _)) | simp (maxSteps := 10000000) only [hp, Bool.false_eq_true, ↓reduceIte]

theorem evalLoop_mac_err (hp : st.poll = (false, s0))
    (hm : macroexpand F s0 env (.list xs p) d = (.err e, s1)) :
    evalLoop (F+1) st env (.list xs p) d = (.err e, s1) := by
  rw [evalLoop.eq_2]; simp (maxSteps := 10000000) only [hp, hm, Bool.false_eq_true, ↓reduceIte]

theorem evalLoop_mac_oof (hp : st.poll = (false, s0))
    (hm : macroexpand F s0 env (.list xs p) d = (.oof, s1)) :
    evalLoop (F+1) st env (.list xs p) d = (.oof, s1) := by
  rw [evalLoop.eq_2]; simp (maxSteps := 10000000) only [hp, hm, Bool.false_eq_true, ↓reduceIte]

theorem evalLoop_mac_nonlist (hp : st.poll = (false, s0))
    (hm : macroexpand F s0 env (.list xs p) d = (.ok ast', s1)) (hl : ∀ xs p, ast' ≠ .list xs p) :
    evalLoop (F+1) st env (.list xs p) d = evalAst F s1 env ast' d := by
  rw [evalLoop.eq_2]
  cases ast' <;> first | (exact absurd rfl (hl _ _)) | simp (maxSteps := 10000000) only [hp, hm, Bool.false_eq_true, ↓reduceIte]

theorem evalLoop_mac_empty (hp : st.poll = (false, s0))
    (hm : macroexpand F s0 env (.list xs p) d = (.ok (.list [] p'), s1)) :
    evalLoop (F+1) st env (.list xs p) d = (.ok (.list [] p'), s1) := by
  rw [evalLoop.eq_2]; simp (maxSteps := 10000000) only [hp, hm, Bool.false_eq_true, ↓reduceIte]

/-- proof script shared by the special-form arms -/
local macro "arm_tac" hp:ident hm:ident ha:ident : tactic => `(tactic|
  (rw [evalLoop.eq_2]
   cases ‹Val› <;> simp only [a0sym] at $ha:ident <;> first | (exact absurd $ha (by decide)) | skip
   subst $ha
   simp (maxSteps := 10000000) only [$hp:ident, $hm:ident, Bool.false_eq_true, ↓reduceIte, String.reduceEq]
   try rfl))

theorem evalLoop_def (hp : st.poll = (false, s0))
    (hm : macroexpand F s0 env (.list xs p) d = (.ok (.list (a0 :: ops) p'), s1))
    (ha : a0sym a0 = "def") :
    evalLoop (F+1) st env (.list xs p) d =
      match eval F s1 env (ops.getD 1 .nil) (d+1) with
      | (.ok res, s2) =>
        (match ops.getD 0 .nil with
         | .sym name _ => (.ok res, s2.set env name res)
         | _ => (.err (newLispError (.plain "cannot use value as identifier") (.list (a0 :: ops) p')), s2))
      | r => r := by
  arm_tac hp hm ha

theorem evalLoop_let (hp : st.poll = (false, s0))
    (hm : macroexpand F s0 env (.list xs p) d = (.ok (.list (a0 :: ops) p'), s1))
    (ha : a0sym a0 = "let") :
    evalLoop (F+1) st env (.list xs p) d =
      match seqOf? (ops.getD 0 .nil) with
      | none => (.err (.plain "GetSlice called on non-sequence"), (s1.newScope env []).1)
      | some arr1 =>
        if arr1.length % 2 ≠ 0 then
          (.err (newLispError (.plain "let: odd elements on binding vector") (ops.getD 0 .nil)), (s1.newScope env []).1)
        else
          match letBinds F (s1.newScope env []).1 (s1.newScope env []).2 arr1 (ops.getD 0 .nil) d with
          | (.ok _, s2) =>
            (match doForms F s2 (s1.newScope env []).2 (a0 :: ops) 2 true d with
             | (.ok next, s3) => continueWith F s3 (s1.newScope env []).2 next d
             | r => r)
          | r => r := by
  arm_tac hp hm ha

theorem evalLoop_quote (hp : st.poll = (false, s0))
    (hm : macroexpand F s0 env (.list xs p) d = (.ok (.list (a0 :: ops) p'), s1))
    (ha : a0sym a0 = "quote") :
    evalLoop (F+1) st env (.list xs p) d = (.ok (ops.getD 0 .nil), s1) := by
  arm_tac hp hm ha

theorem evalLoop_quasiquoteexpand (hp : st.poll = (false, s0))
    (hm : macroexpand F s0 env (.list xs p) d = (.ok (.list (a0 :: ops) p'), s1))
    (ha : a0sym a0 = "quasiquoteexpand") :
    evalLoop (F+1) st env (.list xs p) d = (.ok (quasiquote (ops.getD 0 .nil)), s1) := by
  arm_tac hp hm ha

theorem evalLoop_quasiquote (hp : st.poll = (false, s0))
    (hm : macroexpand F s0 env (.list xs p) d = (.ok (.list (a0 :: ops) p'), s1))
    (ha : a0sym a0 = "quasiquote") :
    evalLoop (F+1) st env (.list xs p) d = continueWith F s1 env (quasiquote (ops.getD 0 .nil)) d := by
  arm_tac hp hm ha

theorem evalLoop_defmacro (hp : st.poll = (false, s0))
    (hm : macroexpand F s0 env (.list xs p) d = (.ok (.list (a0 :: ops) p'), s1))
    (ha : a0sym a0 = "defmacro") :
    evalLoop (F+1) st env (.list xs p) d =
      match eval F s1 env (ops.getD 1 .nil) (d + 1) with
      | (.ok f, s2) =>
        (match f with
         | .fn ps b e _ fp =>
           (match ops.getD 0 .nil with
            | .sym name _ => (.ok (Val.fn ps b e true fp), s2.set env name (Val.fn ps b e true fp))
            | _ => (.err (newLispError (.plain "cannot use value as identifier") (.list (a0 :: ops) p')), s2))
         | _ => (.err (newLispError (.plain "defmacro requires a function") (.list (a0 :: ops) p')), s2))
      | r => r := by
  arm_tac hp hm ha

theorem evalLoop_macroexpand (hp : st.poll = (false, s0))
    (hm : macroexpand F s0 env (.list xs p) d = (.ok (.list (a0 :: ops) p'), s1))
    (ha : a0sym a0 = "macroexpand") :
    evalLoop (F+1) st env (.list xs p) d = macroexpand F s1 env (ops.getD 0 .nil) d := by
  arm_tac hp hm ha

theorem evalLoop_try (hp : st.poll = (false, s0))
    (hm : macroexpand F s0 env (.list xs p) d = (.ok (.list (a0 :: ops) p'), s1))
    (ha : a0sym a0 = "try") :
    evalLoop (F+1) st env (.list xs p) d =
      if ops.isEmpty then (.ok .nil, s1) else
      match splitTry (a0 :: ops) with
      | .error msg => (.err (newLispError (.plain msg) (.list (a0 :: ops) p')), s1)
      | .ok parts =>
        tryFinally F parts env d
          (tryCatch F parts env d (doForms F s1 env parts.body 0 false d).1 (doForms F s1 env parts.body 0 false d).2).1
          (tryCatch F parts env d (doForms F s1 env parts.body 0 false d).1 (doForms F s1 env parts.body 0 false d).2).2 := by
  arm_tac hp hm ha

theorem evalLoop_do (hp : st.poll = (false, s0))
    (hm : macroexpand F s0 env (.list xs p) d = (.ok (.list (a0 :: ops) p'), s1))
    (ha : a0sym a0 = "do") :
    evalLoop (F+1) st env (.list xs p) d =
      match doForms F s1 env (a0 :: ops) 1 true d with
      | (.ok next, s2) => continueWith F s2 env next d
      | r => r := by
  arm_tac hp hm ha

theorem evalLoop_if (hp : st.poll = (false, s0))
    (hm : macroexpand F s0 env (.list xs p) d = (.ok (.list (a0 :: ops) p'), s1))
    (ha : a0sym a0 = "if") :
    evalLoop (F+1) st env (.list xs p) d =
      match eval F s1 env (ops.getD 0 .nil) (d+1) with
      | (.ok cond, s2) =>
         if truthy cond then continueWith F s2 env (ops.getD 1 .nil) d
         else if (a0 :: ops).length ≥ 4 then continueWith F s2 env ((a0 :: ops).getD 3 .nil) d
         else (.ok .nil, s2)
      | r => r := by
  arm_tac hp hm ha

theorem evalLoop_fn (hp : st.poll = (false, s0))
    (hm : macroexpand F s0 env (.list xs p) d = (.ok (.list (a0 :: ops) p'), s1))
    (ha : a0sym a0 = "fn") :
    evalLoop (F+1) st env (.list xs p) d =
      if (a0 :: ops).length < 2 then
        (.err (newLispError (.plain "fn requires a parameter list") (.list (a0 :: ops) p')), s1)
      else (.ok (.fn (ops.getD 0 .nil) (.list (.sym "do" none :: (a0 :: ops).drop 2) none) env false p'), s1) := by
  arm_tac hp hm ha

theorem evalLoop_app (hp : st.poll = (false, s0))
    (hm : macroexpand F s0 env (.list xs p) d = (.ok (.list (a0 :: ops) p'), s1))
    (ha : a0sym a0 ∉ specialForms) :
    evalLoop (F+1) st env (.list xs p) d =
      match evalList F s1 env (a0 :: ops) d with
      | (.ok el, st) =>
        (match el with
         | [] => (.err (.plain "empty application"), st)
         | f :: args =>
           match f with
           | .fn params body fenv _ _ =>
             (match bindParams params args with
              | .error e =>
                (match e with
                 | .lisp (.goerr m) _ => (.err (.lisp (.goerr (m ++ " (around do)")) none), st)
                 | e => (.err (newLispError e body), st))
              | .ok data => continueWith F (st.newScope fenv data).1 (st.newScope fenv data).2 body d)
           | .builtin name =>
             (match callBuiltin F st name args d with
              | (.ok v, st) => (.ok v, st)
              | (.err e, st) => (.err (newLispError e (.list (a0 :: ops) p')), st)
              | (.oof, st) => (.oof, st))
           | _ => (.err (.lisp (.goerr "attempt to call non-function") none), st))
      | (.err e, st) => (.err e, st)
      | (.oof, st) => (.oof, st) := by
  rw [evalLoop.eq_2]
  simp only [specialForms, List.mem_cons, List.not_mem_nil, or_false, not_or] at ha
  obtain ⟨h1, h2, h3, h4, h5, h6, h7, h8, h9, h10, h11⟩ := ha
  cases a0 <;> simp only [a0sym] at h1 h2 h3 h4 h5 h6 h7 h8 h9 h10 h11 <;>
  simp (maxSteps := 10000000) only [hp, hm, Bool.false_eq_true, ↓reduceIte,
    h1, h2, h3, h4, h5, h6, h7, h8, h9, h10, h11] <;> rfl

end arms

/-! ### the state only moves along a preorder -/

/-- a preorder on states that every primitive state operation of the evaluator respects -/
structure StRel (R : State → State → Prop) : Prop where
  refl : ∀ s, R s s
  trans : ∀ {a b c}, R a b → R b c → R a c
  ticks : ∀ s, R s { s with ticks := s.ticks + 1 }
  set : ∀ s env k v, R s (s.set env k v)
  push : ∀ s o d, R s { s with scopes := s.scopes.push ⟨d, some o⟩ }
  atoms : ∀ s a, R s { s with atoms := a }
  trace : ∀ s v, R s { s with trace := v :: s.trace }
  marks : ∀ s m, R s { s with marks := m }
  stepper : ∀ s sp sp', s.stepper = some sp → R s { s with stepper := some sp' }

/-- the induction predicate: all 13 functions, at fuel `F`, move the state along `R` -/
structure Along (R : State → State → Prop) (F : Nat) : Prop where
  eval : ∀ {st env ast d r s}, eval F st env ast d = (r, s) → R st s
  evalLoop : ∀ {st env ast d r s}, evalLoop F st env ast d = (r, s) → R st s
  evalAst : ∀ {st env ast d r s}, evalAst F st env ast d = (r, s) → R st s
  evalList : ∀ {st env xs d r s}, evalList F st env xs d = (r, s) → R st s
  evalMap : ∀ {st env xs d r s}, evalMap F st env xs d = (r, s) → R st s
  doForms : ∀ {st env lst fr kl d r s}, doForms F st env lst fr kl d = (r, s) → R st s
  letBinds : ∀ {st env bs a1 d r s}, letBinds F st env bs a1 d = (r, s) → R st s
  macroexpand : ∀ {st env ast d r s}, macroexpand F st env ast d = (r, s) → R st s
  apply : ∀ {st f args d r s}, apply F st f args d = (r, s) → R st s
  mapLoop : ∀ {st f xs d r s}, mapLoop F st f xs d = (r, s) → R st s
  updateIn : ∀ {st v p f d r s}, updateIn F st v p f d = (r, s) → R st s
  update1 : ∀ {st v i f d r s}, update1 F st v i f d = (r, s) → R st s
  callBuiltin : ∀ {st n args d r s}, callBuiltin F st n args d = (r, s) → R st s

section along
variable {R : State → State → Prop}

/-- backward chaining: peel the last state operation / recursive call off the right end of `R a b` -/
local syntax "st_chain" : tactic
macro_rules
  | `(tactic| st_chain) => `(tactic|
    first
    | assumption
    | exact StRel.refl ‹StRel _› _
    | (refine StRel.trans ‹StRel _› ?_ (Along.eval ‹Along _ _› (by assumption)); st_chain)
    | (refine StRel.trans ‹StRel _› ?_ (Along.evalLoop ‹Along _ _› (by assumption)); st_chain)
    | (refine StRel.trans ‹StRel _› ?_ (Along.evalAst ‹Along _ _› (by assumption)); st_chain)
    | (refine StRel.trans ‹StRel _› ?_ (Along.evalList ‹Along _ _› (by assumption)); st_chain)
    | (refine StRel.trans ‹StRel _› ?_ (Along.evalMap ‹Along _ _› (by assumption)); st_chain)
    | (refine StRel.trans ‹StRel _› ?_ (Along.doForms ‹Along _ _› (by assumption)); st_chain)
    | (refine StRel.trans ‹StRel _› ?_ (Along.letBinds ‹Along _ _› (by assumption)); st_chain)
    | (refine StRel.trans ‹StRel _› ?_ (Along.macroexpand ‹Along _ _› (by assumption)); st_chain)
    | (refine StRel.trans ‹StRel _› ?_ (Along.apply ‹Along _ _› (by assumption)); st_chain)
    | (refine StRel.trans ‹StRel _› ?_ (Along.mapLoop ‹Along _ _› (by assumption)); st_chain)
    | (refine StRel.trans ‹StRel _› ?_ (Along.updateIn ‹Along _ _› (by assumption)); st_chain)
    | (refine StRel.trans ‹StRel _› ?_ (Along.update1 ‹Along _ _› (by assumption)); st_chain)
    | (refine StRel.trans ‹StRel _› ?_ (Along.callBuiltin ‹Along _ _› (by assumption)); st_chain)
    | (refine StRel.trans ‹StRel _› ?_ (StRel.set ‹StRel _› _ _ _ _); st_chain)
    | (refine StRel.trans ‹StRel _› ?_ (StRel.push ‹StRel _› _ _ _); st_chain)
    | (refine StRel.trans ‹StRel _› ?_ (StRel.atoms ‹StRel _› _ _); st_chain)
    | (refine StRel.trans ‹StRel _› ?_ (StRel.trace ‹StRel _› _ _); st_chain)
    | (refine StRel.trans ‹StRel _› ?_ (StRel.marks ‹StRel _› _ _); st_chain)
    | (refine StRel.trans ‹StRel _› ?_ (StRel.ticks ‹StRel _› _); st_chain)
    | (refine StRel.trans ‹StRel _› ?_ (StRel.stepper ‹StRel _› _ _ _ (by assumption)); st_chain))

/-- split the (small) body in `h` completely, then chain -/
local macro "along_tac" h:ident : tactic => `(tactic|
  ((repeat' split at $h:ident) <;> (try cases $h:ident) <;> st_chain))

theorem evalList_step (hR : StRel R) {F} (ih : Along R F) {st env xs d r s}
    (h : evalList (F+1) st env xs d = (r, s)) : R st s := by
  cases xs with
  | nil => rw [evalList.eq_2] at h; cases h; exact hR.refl _
  | cons x xs => rw [evalList.eq_3] at h; along_tac h

theorem evalMap_step (hR : StRel R) {F} (ih : Along R F) {st env xs d r s}
    (h : evalMap (F+1) st env xs d = (r, s)) : R st s := by
  cases xs with
  | nil => rw [evalMap.eq_2] at h; cases h; exact hR.refl _
  | cons x xs => obtain ⟨k, x⟩ := x; rw [evalMap.eq_3] at h; along_tac h

theorem evalAst_step (hR : StRel R) {F} (ih : Along R F) {st env ast d r s}
    (h : evalAst (F+1) st env ast d = (r, s)) : R st s := by
  cases ast <;> simp only [evalAst] at h <;> along_tac h

theorem doForms_step (hR : StRel R) {F} (ih : Along R F) {st env lst fr kl d r s}
    (h : doForms (F+1) st env lst fr kl d = (r, s)) : R st s := by
  rw [doForms.eq_2] at h; dsimp only at h; along_tac h

theorem letBinds_step (hR : StRel R) {F} (ih : Along R F) {st env bs a1 d r s}
    (h : letBinds (F+1) st env bs a1 d = (r, s)) : R st s := by
  match bs with
  | [] => rw [letBinds.eq_2] at h; cases h; exact hR.refl _
  | [_] => rw [letBinds.eq_3] at h; cases h; exact hR.refl _
  | b :: x :: rest => unfold letBinds at h; along_tac h

theorem macroexpand_step (hR : StRel R) {F} (ih : Along R F) {st env ast d r s}
    (h : macroexpand (F+1) st env ast d = (r, s)) : R st s := by
  unfold macroexpand at h; dsimp only [State.newScope] at h; along_tac h

theorem apply_step (hR : StRel R) {F} (ih : Along R F) {st f args d r s}
    (h : apply (F+1) st f args d = (r, s)) : R st s := by
  unfold apply at h; dsimp only [State.newScope] at h; along_tac h

theorem mapLoop_step (hR : StRel R) {F} (ih : Along R F) {st f xs d r s}
    (h : mapLoop (F+1) st f xs d = (r, s)) : R st s := by
  cases xs with
  | nil => rw [mapLoop.eq_2] at h; cases h; exact hR.refl _
  | cons x xs => rw [mapLoop.eq_3] at h; along_tac h

theorem update1_step (hR : StRel R) {F} (ih : Along R F) {st v i f d r s}
    (h : update1 (F+1) st v i f d = (r, s)) : R st s := by
  unfold update1 at h; dsimp only at h; along_tac h

theorem updateIn_step (hR : StRel R) {F} (ih : Along R F) {st v p f d r s}
    (h : updateIn (F+1) st v p f d = (r, s)) : R st s := by
  match p with
  | [] => rw [updateIn.eq_2] at h; cases h; exact hR.refl _
  | [i] => rw [updateIn.eq_3] at h; st_chain
  | i :: j :: rest =>
    unfold updateIn at h; dsimp only at h; along_tac h


theorem callBuiltin_step (hR : StRel R) {F} (ih : Along R F) {st n args d r s}
    (h : callBuiltin (F+1) st n args d = (r, s)) : R st s := by
  unfold callBuiltin at h; dsimp only [State.newAtom] at h
  by_cases hn : n = "trace!"
  · rw [if_pos hn] at h; along_tac h
  rw [if_neg hn] at h; clear hn
  by_cases hn : n = "depth!"
  · rw [if_pos hn] at h; along_tac h
  rw [if_neg hn] at h; clear hn
  by_cases hn : n = "eval"
  · rw [if_pos hn] at h; along_tac h
  rw [if_neg hn] at h; clear hn
  by_cases hn : n = "apply"
  · rw [if_pos hn] at h; along_tac h
  rw [if_neg hn] at h; clear hn
  by_cases hn : n = "map"
  · rw [if_pos hn] at h; along_tac h
  rw [if_neg hn] at h; clear hn
  by_cases hn : n = "atom"
  · rw [if_pos hn] at h; along_tac h
  rw [if_neg hn] at h; clear hn
  by_cases hn : n = "deref"
  · rw [if_pos hn] at h; along_tac h
  rw [if_neg hn] at h; clear hn
  by_cases hn : n = "reset!"
  · rw [if_pos hn] at h; along_tac h
  rw [if_neg hn] at h; clear hn
  by_cases hn : n = "swap!"
  · rw [if_pos hn] at h; along_tac h
  rw [if_neg hn] at h; clear hn
  by_cases hn : n = "update"
  · rw [if_pos hn] at h; along_tac h
  rw [if_neg hn] at h; clear hn
  by_cases hn : n = "update-in"
  · rw [if_pos hn] at h; along_tac h
  rw [if_neg hn] at h; clear hn
  along_tac h

theorem eval_step (hR : StRel R) {F} (ih : Along R F) {st env ast d r s}
    (h : eval (F+1) st env ast d = (r, s)) : R st s := by
  unfold eval at h
  split at h
  · st_chain
  · rename_i sp hsp
    dsimp only at h
    generalize hx : evalLoop F _ env ast d = x at h
    obtain ⟨r1, s1⟩ := x
    have h1 := hR.trans (hR.stepper st sp _ hsp) (ih.evalLoop hx)
    dsimp only at h
    split at h <;> cases h
    · exact h1
    · exact hR.trans h1 (hR.stepper _ _ _ (by assumption))

theorem evalLoop_step (hR : StRel R) {F} (ih : Along R F) {st env ast d r s}
    (h : evalLoop (F+1) st env ast d = (r, s)) : R st s := by
  rcases hp : st.poll with ⟨dn, s0⟩
  have h0 : R st s0 := by
    have : s0 = st.poll.2 := by rw [hp]
    subst this; exact hR.ticks st
  cases dn with
  | true => rw [evalLoop_timeout hp] at h; cases h; exact h0
  | false =>
    by_cases hl : ∃ xs p, ast = .list xs p
    case neg => rw [evalLoop_nonlist hp (fun xs p hc => hl ⟨xs, p, hc⟩)] at h; st_chain
    obtain ⟨xs, p, rfl⟩ := hl
    rcases hm : macroexpand F s0 env (.list xs p) d with ⟨rm, s1⟩
    have h1 : R st s1 := hR.trans h0 (ih.macroexpand hm)
    cases rm with
    | err e => rw [evalLoop_mac_err hp hm] at h; cases h; exact h1
    | oof => rw [evalLoop_mac_oof hp hm] at h; cases h; exact h1
    | ok ast' =>
      by_cases hl' : ∃ xs p, ast' = .list xs p
      case neg => rw [evalLoop_mac_nonlist hp hm (fun xs p hc => hl' ⟨xs, p, hc⟩)] at h; st_chain
      obtain ⟨ys, p', rfl⟩ := hl'
      cases ys with
      | nil => rw [evalLoop_mac_empty hp hm] at h; cases h; exact h1
      | cons a0 ops =>
        by_cases h_def : a0sym a0 = "def"
        · rw [evalLoop_def hp hm h_def] at h
          along_tac h
        by_cases h_let : a0sym a0 = "let"
        · rw [evalLoop_let hp hm h_let] at h
          simp only [continueWith] at h
          along_tac h
        by_cases h_quote : a0sym a0 = "quote"
        · rw [evalLoop_quote hp hm h_quote] at h
          along_tac h
        by_cases h_quasiquoteexpand : a0sym a0 = "quasiquoteexpand"
        · rw [evalLoop_quasiquoteexpand hp hm h_quasiquoteexpand] at h
          along_tac h
        by_cases h_quasiquote : a0sym a0 = "quasiquote"
        · rw [evalLoop_quasiquote hp hm h_quasiquote] at h
          simp only [continueWith] at h
          along_tac h
        by_cases h_defmacro : a0sym a0 = "defmacro"
        · rw [evalLoop_defmacro hp hm h_defmacro] at h
          along_tac h
        by_cases h_macroexpand : a0sym a0 = "macroexpand"
        · rw [evalLoop_macroexpand hp hm h_macroexpand] at h
          along_tac h
        by_cases h_try : a0sym a0 = "try"
        · rw [evalLoop_try hp hm h_try] at h
          split at h
          · cases h; exact h1
          split at h
          · cases h; exact h1
          rename_i parts _
          rcases hb : doForms F s1 env parts.body 0 false d with ⟨rb, sb⟩
          rw [hb] at h; dsimp only at h
          have h2 := hR.trans h1 (ih.doForms hb)
          rcases hc : tryCatch F parts env d rb sb with ⟨rc, sc⟩
          rw [hc] at h; dsimp only at h
          have h3 : R st sc := by
            unfold tryCatch at hc; dsimp only [State.newScope] at hc; along_tac hc
          unfold tryFinally at h; simp only [outing1Defer] at h; along_tac h
        by_cases h_do : a0sym a0 = "do"
        · rw [evalLoop_do hp hm h_do] at h
          simp only [continueWith] at h
          along_tac h
        by_cases h_if : a0sym a0 = "if"
        · rw [evalLoop_if hp hm h_if] at h
          simp only [continueWith] at h
          along_tac h
        by_cases h_fn : a0sym a0 = "fn"
        · rw [evalLoop_fn hp hm h_fn] at h
          along_tac h
        have ha : a0sym a0 ∉ specialForms := by
          simp only [specialForms, List.mem_cons, List.not_mem_nil, or_false, not_or]
          exact ⟨h_def, h_let, h_quote, h_quasiquoteexpand, h_quasiquote, h_defmacro, h_macroexpand, h_try, h_do, h_if, h_fn⟩
        rw [evalLoop_app hp hm ha] at h
        simp only [continueWith] at h
        along_tac h

/-- every function of the mutual block, at every fuel, moves the state along `R` -/
theorem along (hR : StRel R) : ∀ F, Along R F := by
  intro F
  induction F with
  | zero =>
    constructor <;> intros <;> rename_i h
    · rw [eval.eq_1] at h; cases h; exact hR.refl _
    · rw [evalLoop.eq_1] at h; cases h; exact hR.refl _
    · unfold evalAst at h; cases h; exact hR.refl _
    · rw [evalList.eq_1] at h; cases h; exact hR.refl _
    · rw [evalMap.eq_1] at h; cases h; exact hR.refl _
    · rw [doForms.eq_1] at h; cases h; exact hR.refl _
    · unfold letBinds at h; cases h; exact hR.refl _
    · unfold macroexpand at h; cases h; exact hR.refl _
    · unfold apply at h; cases h; exact hR.refl _
    · rw [mapLoop.eq_1] at h; cases h; exact hR.refl _
    · unfold updateIn at h; cases h; exact hR.refl _
    · unfold update1 at h; cases h; exact hR.refl _
    · unfold callBuiltin at h; cases h; exact hR.refl _
  | succ F ih =>
    exact ⟨eval_step hR ih, evalLoop_step hR ih, evalAst_step hR ih, evalList_step hR ih, evalMap_step hR ih,
      doForms_step hR ih, letBinds_step hR ih, macroexpand_step hR ih, apply_step hR ih, mapLoop_step hR ih,
      updateIn_step hR ih, update1_step hR ih, callBuiltin_step hR ih⟩

end along

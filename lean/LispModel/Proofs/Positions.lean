/-
  Source positions (property C17).

  Reader side: which cursor each AST node gets (`readForm_allPos`: every cursor of the AST is the
  cursor of a token of the form, closed at a token of the form), hence cursors name the module, a
  bracketed node spans the rows of its opening and closing token, and — token lines being monotone —
  everything inside lies within these rows.
  Evaluator side (second half of the file): positions of errors come from cursors of the program.
  Core Lean only.
-/
import LispModel.Read
import LispModel.Eval
import LispModel.Proofs.ReaderParse
import LispModel.Proofs.Layout
import LispModel.Proofs.EvalErase
namespace LispModel.Proofs.Positions
open LispModel LispModel.Read LispModel.Scan LispModel.Proofs.Reader
open LispModel.Proofs.EvalErase

/-! ### "every cursor of a value satisfies `P`" -/

/-- an optional cursor satisfies `P` when it is there -/
def OptAll (P : Pos → Prop) (o : Option Pos) : Prop := ∀ p, o = some p → P p

mutual
/-- every cursor occurring in the value (symbols, lists, vectors, closures — recursively, including the
    parameters and the body of closures and the values of hash-maps) satisfies `P` -/
def AllPos (P : Pos → Prop) : Val → Prop
  | .sym _ p => OptAll P p
  | .list xs p => OptAll P p ∧ AllPosList P xs
  | .vec xs p => OptAll P p ∧ AllPosList P xs
  | .map kvs => AllPosMap P kvs
  | .fn ps b _ _ p => OptAll P p ∧ AllPos P ps ∧ AllPos P b
  | _ => True
def AllPosList (P : Pos → Prop) : List Val → Prop
  | [] => True
  | x :: xs => AllPos P x ∧ AllPosList P xs
def AllPosMap (P : Pos → Prop) : List (String × Val) → Prop
  | [] => True
  | (_, v) :: r => AllPos P v ∧ AllPosMap P r
end

theorem optAll_none (P : Pos → Prop) : OptAll P none := fun _ h => by cases h
theorem optAll_some {P : Pos → Prop} {p : Pos} : OptAll P (some p) ↔ P p :=
  ⟨fun h => h p rfl, fun h q e => by cases e; exact h⟩

theorem allPosList_iff {P : Pos → Prop} {xs : List Val} : AllPosList P xs ↔ ∀ x ∈ xs, AllPos P x := by
  induction xs with
  | nil => simp [AllPosList]
  | cons x xs ih => simp [AllPosList, ih]

theorem allPosMap_iff {P : Pos → Prop} {m : List (String × Val)} :
    AllPosMap P m ↔ ∀ kv ∈ m, AllPos P kv.2 := by
  induction m with
  | nil => simp [AllPosMap]
  | cons kv m ih => obtain ⟨k, v⟩ := kv; simp [AllPosMap, ih]

set_option linter.unusedSectionVars false
section mono
variable {P Q : Pos → Prop} (h : ∀ p, P p → Q p)
include h

theorem optAll_mono {o : Option Pos} (ho : OptAll P o) : OptAll Q o := fun p e => h p (ho p e)

mutual
theorem allPos_mono : ∀ v, AllPos P v → AllPos Q v
  | .sym _ _, hv => optAll_mono h hv
  | .list xs _, hv => ⟨optAll_mono h hv.1, allPosList_mono xs hv.2⟩
  | .vec xs _, hv => ⟨optAll_mono h hv.1, allPosList_mono xs hv.2⟩
  | .map kvs, hv => allPosMap_mono kvs hv
  | .fn ps b _ _ _, hv => ⟨optAll_mono h hv.1, allPos_mono ps hv.2.1, allPos_mono b hv.2.2⟩
  | .nil, _ | .bool _, _ | .int _, _ | .str _, _ | .set _, _ | .builtin _, _ | .atom _, _
  | .future _, _ | .goerr _, _ | .opaque _, _ => trivial
theorem allPosList_mono : ∀ xs, AllPosList P xs → AllPosList Q xs
  | [], _ => trivial
  | x :: xs, hv => ⟨allPos_mono x hv.1, allPosList_mono xs hv.2⟩
theorem allPosMap_mono : ∀ m, AllPosMap P m → AllPosMap Q m
  | [], _ => trivial
  | (_, v) :: r, hv => ⟨allPos_mono v hv.1, allPosMap_mono r hv.2⟩
end
end mono

/-! ### the reader: every cursor of the AST is made of tokens of the form -/

section reader
variable {P : Pos → Prop} {cfg : Cfg}

/-- `P` holds for every cursor the reader can form from the tokens `ts`: the cursor of a token, closed at
    a token (`closePos x x = x`: the cursor of a token itself is included) -/
def TokCur (P : Pos → Prop) (cfg : Cfg) (ts : List Token) : Prop :=
  ∀ t ∈ ts, ∀ c ∈ ts, P (closePos (tokPos cfg t) (tokPos cfg c))

/-- the values of the placeholder table (inserted into the AST as they are) satisfy `P` -/
def PhsAll (P : Pos → Prop) (cfg : Cfg) : Prop := ∀ m, cfg.phs = some m → AllPosMap P m

theorem closePos_self (x : Pos) : closePos x x = x := rfl

theorem tokCur_self {ts : List Token} (h : TokCur P cfg ts) {t : Token} (ht : t ∈ ts) : P (tokPos cfg t) :=
  h t ht t ht

theorem tokCur_subset {ts ts' : List Token} (h : TokCur P cfg ts) (hs : ∀ t ∈ ts', t ∈ ts) : TokCur P cfg ts' :=
  fun t ht c hc => h t (hs t ht) c (hs c hc)

theorem allPosMap_ainsert {m : List (String × Val)} {k : String} {v : Val}
    (hm : AllPosMap P m) (hv : AllPos P v) : AllPosMap P (ainsert k v m) := by
  induction m with
  | nil => exact ⟨hv, trivial⟩
  | cons kv m ih =>
    obtain ⟨k', v'⟩ := kv
    unfold ainsert
    split
    · exact ⟨hv, hm.2⟩
    · exact ⟨hm.1, ih hm.2⟩

theorem allPosMap_alookup {m : List (String × Val)} {k : String} {v : Val}
    (hm : AllPosMap P m) (h : alookup k m = some v) : AllPos P v := by
  induction m with
  | nil => cases h
  | cons kv m ih =>
    obtain ⟨k', v'⟩ := kv
    unfold alookup at h
    split at h
    · cases h; exact hm.1
    · exact ih hm.2 h

theorem newHashMapLoop_allPos : ∀ (xs : List Val) (m r : List (String × Val)),
    AllPosList P xs → AllPosMap P m → Read.newHashMapLoop xs m = .ok r → AllPosMap P r
  | [], m, r, _, hm, h => by rw [Read.newHashMapLoop] at h; cases h; exact hm
  | [_], m, r, _, _, h => by
    simp [Read.newHashMapLoop] at h
  | a :: b :: rest, m, r, hx, hm, h => by
    unfold Read.newHashMapLoop at h
    split at h
    · cases h
      exact hm
    · rename_i k v r' m' heq
      injection heq with h1 h2; injection h2 with h2 h3; subst h1 h2 h3
      exact newHashMapLoop_allPos _ _ _ hx.2.2 (allPosMap_ainsert hm hx.2.1) h
    · cases h
    · cases h


theorem readAtom_allPos {t : Token} {v : Val} (hp : P (tokPos cfg t)) (h : readAtom cfg t = .ok v) :
    AllPos P v := by
  unfold readAtom at h
  simp only [] at h
  split at h
  · split at h <;> cases h; trivial
  · split at h <;> cases h; trivial
  · split at h
    · cases h
    · split at h <;> cases h; trivial
  · cases h; trivial
  · split at h <;> cases h; trivial
  · split at h
    · cases h; trivial
    · split at h
      · cases h; trivial
      · split at h
        · cases h; trivial
        · cases h; exact optAll_some.2 hp
  · cases h; exact optAll_some.2 hp

theorem shape_leaf_allPos {t : Token} {v : Val} (h : shape cfg t = .leaf (.ok v))
    (hp : P (tokPos cfg t)) (hphs : PhsAll P cfg) : AllPos P v := by
  unfold shape at h
  simp only [] at h
  cases hL : List.lookup (tokStr t) readerMacros with
  | some n => rw [hL] at h; cases h
  | none =>
    rw [hL] at h
    simp only [] at h
    by_cases h1 : tokStr t = "^"
    · rw [if_pos h1] at h; cases h
    rw [if_neg h1] at h
    iterate 8 (split at h; · cases h)
    split at h
    · split at h
      · injection h with h; injection h with h; subst h; exact optAll_some.2 hp
      · rename_i m hm
        injection h with h; injection h with h; subst h
        cases hl : alookup (tokStr t) m with
        | none => trivial
        | some w => exact allPosMap_alookup (hphs m hm) hl
    · injection h with h
      exact readAtom_allPos hp h

theorem shape_opn_allPos {t : Token} {closer : String} {k : List Val → Token → Except RErr Val}
    (h : shape cfg t = .opn closer k) {xs : List Val} {close : Token} {v : Val}
    (hx : AllPosList P xs) (hp : P (closePos (tokPos cfg t) (tokPos cfg close)))
    (hk : k xs close = .ok v) : AllPos P v := by
  unfold shape at h
  simp only [] at h
  cases hL : List.lookup (tokStr t) readerMacros with
  | some n => rw [hL] at h; cases h
  | none =>
    rw [hL] at h
    simp only [] at h
    by_cases h1 : tokStr t = "^"
    · rw [if_pos h1] at h; cases h
    rw [if_neg h1] at h
    split at h
    · cases h
    split at h
    · cases h
    split at h
    · cases h
    split at h
    · cases h; cases hk; exact ⟨optAll_some.2 hp, hx⟩
    split at h
    · cases h; cases hk; exact ⟨optAll_some.2 hp, hx⟩
    split at h
    · cases h
      simp only [] at hk
      cases hh : newHashMap xs [] with
      | error e => rw [hh] at hk; cases hk
      | ok m =>
        rw [hh] at hk; cases hk
        unfold newHashMap at hh
        split at hh
        · cases hh
        · exact newHashMapLoop_allPos _ [] _ hx trivial hh
    split at h
    · cases h
      simp only [] at hk
      cases hh : newSet xs [] with
      | error e => rw [hh] at hk; cases hk
      | ok m => rw [hh] at hk; cases hk; trivial
    split at h
    · cases h
      simp only [] at hk
      split at hk
      · cases hk
      · split at hk
        · cases hk
        · rename_i name _ args _
          cases he : externCall name args with
          | error e => rw [he] at hk; cases hk
          | ok w =>
            rw [he] at hk; cases hk
            unfold externCall at he
            repeat' split at he
            all_goals first | cases he | skip
            all_goals trivial
      · cases hk
    split at h <;> cases h

theorem mem_of_suffix {α} {ts pre rest : List α} (h : ts = pre ++ rest) : ∀ x ∈ rest, x ∈ ts :=
  fun _ ht => h ▸ List.mem_append_right _ ht

/-- every cursor in the AST returned by the reader is the cursor of a token of the input closed at a token
    of the input (or comes from the placeholder table) -/
theorem reader_allPos (hphs : PhsAll P cfg) : ∀ f,
    (∀ ts v rest, TokCur P cfg ts → readForm f cfg ts = .ok (v, rest) → AllPos P v) ∧
    (∀ closer ts acc xs close rest, TokCur P cfg ts → AllPosList P acc →
      readList f cfg closer ts acc = .ok (xs, close, rest) → AllPosList P xs) := by
  intro f
  induction f with
  | zero =>
    constructor
    · intro ts v rest _ h; rw [readForm_zero] at h; cases h
    · intro closer ts acc xs close rest _ _ h; rw [readList_zero] at h; cases h
  | succ f ih =>
    obtain ⟨ihF, ihL⟩ := ih
    constructor
    · intro ts v rest hts h
      cases ts with
      | nil => rw [readForm_nil] at h; cases h
      | cons t ts' =>
        have htl : TokCur P cfg ts' := tokCur_subset hts (fun x hx => List.mem_cons_of_mem _ hx)
        have hpt : P (tokPos cfg t) := tokCur_self hts (List.mem_cons_self ..)
        rw [readForm_cons] at h
        cases hs : shape cfg t with
        | rmacro name =>
          simp only [hs] at h
          cases hr : readForm f cfg ts' with
          | error e => simp [hr] at h
          | ok r =>
            obtain ⟨form, rest'⟩ := r
            simp only [hr, Except.ok.injEq, Prod.mk.injEq] at h
            obtain ⟨rfl, rfl⟩ := h
            exact ⟨optAll_some.2 hpt, optAll_some.2 hpt, ihF _ _ _ htl hr, trivial⟩
        | wmeta =>
          simp only [hs] at h
          cases hr : readForm f cfg ts' with
          | error e => simp [hr] at h
          | ok r =>
            obtain ⟨m, rest'⟩ := r
            simp only [hr] at h
            cases hr2 : readForm f cfg rest' with
            | error e => simp [hr2] at h
            | ok r2 =>
              obtain ⟨form, rest''⟩ := r2
              simp only [hr2, Except.ok.injEq, Prod.mk.injEq] at h
              obtain ⟨rfl, rfl⟩ := h
              obtain ⟨pre, _, hpre, _⟩ := readForm_local hr
              have h2 : TokCur P cfg rest' := tokCur_subset htl (mem_of_suffix hpre)
              exact ⟨optAll_some.2 hpt, optAll_some.2 hpt, ihF _ _ _ h2 hr2, ihF _ _ _ htl hr, trivial⟩
        | closer s => simp [hs] at h
        | opn closer k =>
          simp only [hs] at h
          cases hr : readList f cfg closer ts' [] with
          | error e => simp [hr] at h
          | ok r =>
            obtain ⟨xs, close, rest'⟩ := r
            simp only [hr] at h
            cases hk : k xs close with
            | error e => simp [hk] at h
            | ok v' =>
              simp only [hk, Except.ok.injEq, Prod.mk.injEq] at h
              obtain ⟨rfl, rfl⟩ := h
              obtain ⟨pre, hpre, _⟩ := readList_local hr
              have hc : close ∈ t :: ts' :=
                List.mem_cons_of_mem _ (mem_of_suffix hpre close (List.mem_cons_self ..))
              exact shape_opn_allPos hs (ihL _ _ [] _ _ _ htl trivial hr)
                (hts t (List.mem_cons_self ..) close hc) hk
        | leaf r =>
          simp only [hs] at h
          cases r with
          | error e => simp at h
          | ok v' =>
            simp only [Except.ok.injEq, Prod.mk.injEq] at h
            obtain ⟨rfl, rfl⟩ := h
            exact shape_leaf_allPos hs hpt hphs
    · intro closer ts acc xs close rest hts hacc h
      cases ts with
      | nil => rw [readList_nil] at h; cases h
      | cons t ts' =>
        rw [readList_cons] at h
        by_cases hc : tokStr t = closer
        · rw [if_pos hc] at h
          simp only [Except.ok.injEq, Prod.mk.injEq] at h
          obtain ⟨rfl, rfl, rfl⟩ := h
          rw [allPosList_iff] at hacc ⊢
          intro x hx; exact hacc x (List.mem_reverse.mp hx)
        · rw [if_neg hc] at h
          cases hr : readForm f cfg (t :: ts') with
          | error e => simp [hr] at h
          | ok r =>
            obtain ⟨v, rest'⟩ := r
            simp only [hr] at h
            obtain ⟨pre, _, hpre, _⟩ := readForm_local hr
            exact ihL _ _ (v :: acc) _ _ _ (tokCur_subset hts (mem_of_suffix hpre)) ⟨ihF _ _ _ hts hr, hacc⟩ h

theorem readForm_allPos (hphs : PhsAll P cfg) {f : Nat} {ts : List Token} {v : Val} {rest : List Token}
    (hts : TokCur P cfg ts) (h : readForm f cfg ts = .ok (v, rest)) : AllPos P v :=
  (reader_allPos hphs f).1 ts v rest hts h

end reader

/-- every cursor in the AST returned by `readStr {module := some m}` names the module `m` -/
theorem readStr_module {cfg : Cfg} {m : String} (hm : cfg.module = some m)
    (hphs : PhsAll (fun p => p.module = some m) cfg) {bytes : List UInt8} {v : Val}
    (h : readStr cfg bytes = .ok v) : AllPos (fun p => p.module = some m) v := by
  unfold readStr at h
  have hc : (if cfg.module.isNone then { cfg with module := modulePrefix bytes } else cfg) = cfg := by
    rw [hm]; rfl
  simp only [hc] at h
  split at h
  · cases h
  · cases h
  · rename_i toks _ _
    split at h
    · cases h
    · cases h
      rename_i heq
      exact readForm_allPos hphs (fun t _ c _ => hm) heq
    · cases h

/-- a symbol's cursor is the cursor of its token: both rows are the token's line -/
theorem readAtom_sym_pos {cfg : Cfg} {t : Token} {s : String} {o : Option Pos}
    (h : readAtom cfg t = .ok (.sym s o)) : o = some (tokPos cfg t) := by
  unfold readAtom at h
  simp only [] at h
  split at h
  · split at h <;> cases h
  · split at h <;> cases h
  · split at h
    · cases h
    · split at h <;> cases h
  · cases h
  · split at h <;> cases h
  · split at h
    · cases h
    · split at h
      · cases h
      · split at h
        · cases h
        · cases h; rfl
  · cases h; rfl

theorem readList_close {cfg : Cfg} : ∀ f closer ts acc xs close rest,
    readList f cfg closer ts acc = .ok (xs, close, rest) → tokStr close = closer := by
  intro f
  induction f with
  | zero => intro closer ts acc xs close rest h; rw [readList_zero] at h; cases h
  | succ f ih =>
    intro closer ts acc xs close rest h
    cases ts with
    | nil => rw [readList_nil] at h; cases h
    | cons t ts' =>
      rw [readList_cons] at h
      by_cases hc : tokStr t = closer
      · rw [if_pos hc] at h
        simp only [Except.ok.injEq, Prod.mk.injEq] at h
        obtain ⟨_, rfl, _⟩ := h
        exact hc
      · rw [if_neg hc] at h
        cases hr : readForm f cfg (t :: ts') with
        | error e => simp [hr] at h
        | ok r =>
          obtain ⟨v, rest'⟩ := r
          simp only [hr] at h
          exact ih _ _ _ _ _ _ h

theorem shape_paren (cfg : Cfg) (t : Token) (h : tokStr t = "(") :
    shape cfg t = .opn ")" (fun xs close => .ok (.list xs (some (closePos (tokPos cfg t) (tokPos cfg close))))) := by
  unfold shape
  have e : List.lookup "(" readerMacros = none := by decide
  simp [h, e]

theorem shape_bracket (cfg : Cfg) (t : Token) (h : tokStr t = "[") :
    shape cfg t = .opn "]" (fun xs close => .ok (.vec xs (some (closePos (tokPos cfg t) (tokPos cfg close))))) := by
  unfold shape
  have e : List.lookup "[" readerMacros = none := by decide
  simp [h, e]

/-- what `readForm` returns for a bracketed form, given the `shape` of its opening token -/
theorem readForm_opn {cfg : Cfg} {f : Nat} {t : Token} {ts rest : List Token} {v : Val} {closer : String}
    {mk : List Val → Token → Val}
    (hs : shape cfg t = .opn closer (fun xs close => .ok (mk xs close)))
    (h : readForm f cfg (t :: ts) = .ok (v, rest)) :
    ∃ xs close pre, v = mk xs close ∧ ts = pre ++ close :: rest ∧ tokStr close = closer ∧
      readForm f cfg (t :: (pre ++ [close])) = .ok (v, []) := by
  cases f with
  | zero => rw [readForm_zero] at h; cases h
  | succ f =>
    have h0 := h
    rw [readForm_cons] at h
    simp only [hs] at h
    cases hr : readList f cfg closer ts [] with
    | error e => simp [hr] at h
    | ok r =>
      obtain ⟨xs, close, rest'⟩ := r
      simp only [hr, Except.ok.injEq, Prod.mk.injEq] at h
      obtain ⟨rfl, rfl⟩ := h
      obtain ⟨pre, hpre, hx⟩ := readList_local hr
      refine ⟨xs, close, pre, rfl, hpre, readList_close _ _ _ _ _ _ _ hr, ?_⟩
      rw [readForm_cons]
      simp only [hs, hx []]


theorem phsAll_none {P : Pos → Prop} {cfg : Cfg} (h : cfg.phs = none) : PhsAll P cfg :=
  fun m hm => by rw [h] at hm; cases hm

/-- token lines are non-decreasing along the stream -/
def LinesMono (ts : List Token) : Prop := ts.Pairwise (fun a b => a.line ≤ b.line)

/-- every cursor of a bracketed form (its own and all inside it) lies between the line of the opening
    token and the line of the closing token -/
theorem bracketed_rows {cfg : Cfg} {f : Nat} {t : Token} {ts rest : List Token} {v : Val} {closer : String}
    {mk : List Val → Token → Val}
    (hs : shape cfg t = .opn closer (fun xs close => .ok (mk xs close)))
    (hphs : cfg.phs = none) (hmono : LinesMono (t :: ts))
    (h : readForm f cfg (t :: ts) = .ok (v, rest)) :
    ∃ xs close pre, v = mk xs close ∧ ts = pre ++ close :: rest ∧ tokStr close = closer ∧
      AllPos (fun p => (t.line : Int) ≤ p.beginRow ∧ p.row ≤ (close.line : Int)) v := by
  obtain ⟨xs, close, pre, hv, hts, hc, hr⟩ := readForm_opn hs h
  refine ⟨xs, close, pre, hv, hts, hc, ?_⟩
  refine readForm_allPos (phsAll_none hphs) ?_ hr
  subst hts
  unfold LinesMono at hmono
  rw [List.pairwise_cons] at hmono
  obtain ⟨h1, h2⟩ := hmono
  rw [List.pairwise_append] at h2
  obtain ⟨_, _, h4⟩ := h2
  have lo : ∀ a ∈ t :: (pre ++ [close]), t.line ≤ a.line := by
    intro a ha
    rcases List.mem_cons.mp ha with rfl | ha
    · exact Nat.le_refl _
    · refine h1 a ?_
      rcases List.mem_append.mp ha with ha | ha
      · exact List.mem_append_left _ ha
      · exact List.mem_append_right _ (by simp at ha; simp [ha])
  have hi : ∀ b ∈ t :: (pre ++ [close]), b.line ≤ close.line := by
    intro b hb
    rcases List.mem_cons.mp hb with rfl | hb
    · exact h1 close (List.mem_append_right _ (List.mem_cons_self ..))
    · rcases List.mem_append.mp hb with hb | hb
      · exact h4 b hb close (List.mem_cons_self ..)
      · simp at hb; subst hb; exact Nat.le_refl _
  intro a ha b hb
  exact ⟨Int.ofNat_le.2 (lo a ha), Int.ofNat_le.2 (hi b hb)⟩

/-! ### the evaluator: positions of errors come from cursors of the program -/

theorem newLispError_keeps_first_position (pl : Val) (q : Pos) (c : Val) :
    newLispError (.lisp pl (some q)) c = .lisp pl (some q) := rfl

/-- the position of an error (a plain Go error has none) -/
def errPos : Err → Option Pos
  | .lisp _ p => p
  | .plain _ => none

/-- `NewLispError` never invents a position: the error keeps the one it has, else it gets the cursor of
    the carrier -/
theorem newLispError_position (e : Err) (c : Val) :
    errPos (newLispError e c) = firstPos (errPos e) (getPosition c) := by
  cases e with
  | plain m => rfl
  | lisp pl pos => cases pos <;> rfl

set_option linter.unusedSectionVars false

/-! #### `AllPos P` as a fixed point of a cursor map -/

section fixed
variable {P : Pos → Prop} {g : Option Pos → Option Pos} (hgo : ∀ o, OptAll P o ↔ g o = o)
include hgo

theorem list_map_eq_self {α} (f : α → α) (l : List α) : l.map f = l ↔ ∀ x ∈ l, f x = x := by
  induction l with
  | nil => simp
  | cons a l ih => simp [ih]

mutual
theorem allPos_iff_fixed : ∀ v : Val, AllPos P v ↔ mapPos g v = v
  | .sym s p => by simp only [AllPos, mapPos, hgo p, Val.sym.injEq, true_and]
  | .list xs p => by
    simp only [AllPos, mapPos, hgo p, allPosList_iff_fixed xs, Val.list.injEq]; exact And.comm
  | .vec xs p => by
    simp only [AllPos, mapPos, hgo p, allPosList_iff_fixed xs, Val.vec.injEq]; exact And.comm
  | .map m => by simp only [AllPos, mapPos, allPosMap_iff_fixed m, Val.map.injEq]
  | .fn ps b e m p => by
    simp only [AllPos, mapPos, hgo p, allPos_iff_fixed ps, allPos_iff_fixed b, Val.fn.injEq, true_and]
    constructor
    · rintro ⟨a, b, c⟩; exact ⟨b, c, a⟩
    · rintro ⟨b, c, a⟩; exact ⟨a, b, c⟩
  | .nil => by simp [AllPos, mapPos]
  | .bool _ => by simp [AllPos, mapPos]
  | .int _ => by simp [AllPos, mapPos]
  | .str _ => by simp [AllPos, mapPos]
  | .set _ => by simp [AllPos, mapPos]
  | .builtin _ => by simp [AllPos, mapPos]
  | .atom _ => by simp [AllPos, mapPos]
  | .future _ => by simp [AllPos, mapPos]
  | .goerr _ => by simp [AllPos, mapPos]
  | .opaque _ => by simp [AllPos, mapPos]
theorem allPosList_iff_fixed : ∀ xs : List Val, AllPosList P xs ↔ mapPosList g xs = xs
  | [] => by simp [AllPosList, mapPosList]
  | x :: xs => by
    simp only [AllPosList, mapPosList, allPos_iff_fixed x, allPosList_iff_fixed xs, List.cons.injEq]
theorem allPosMap_iff_fixed : ∀ m : List (String × Val), AllPosMap P m ↔ mapPosMap g m = m
  | [] => by simp [AllPosMap, mapPosMap]
  | (k, v) :: m => by
    simp only [AllPosMap, mapPosMap, allPos_iff_fixed v, allPosMap_iff_fixed m, List.cons.injEq,
      Prod.mk.injEq, true_and]
end

theorem array_map_eq_self {α} (f : α → α) (a : Array α) : a.map f = a ↔ ∀ x ∈ a.toList, f x = x := by
  rw [← list_map_eq_self hgo, ← Array.toList_map]
  constructor
  · intro h; rw [h]
  · intro h; exact Array.ext' h

/-- every cursor occurring anywhere in the state (scopes, atoms, the trace, the forms the debugger saw)
    satisfies `P` -/
structure StAll (P : Pos → Prop) (st : State) : Prop where
  scopes : ∀ sc ∈ st.scopes.toList, AllPosMap P sc.data
  atoms : ∀ v ∈ st.atoms.toList, AllPos P v
  trace : AllPosList P st.trace
  calls : ∀ sp, st.stepper = some sp → AllPosList P sp.calls

theorem stAll_iff_fixed (st : State) : StAll P st ↔ mapSt g st = st := by
  have hsc : ∀ sc : Scope, AllPosMap P sc.data ↔ mapScope g sc = sc := by
    intro sc
    rw [allPosMap_iff_fixed hgo]
    cases sc with
    | mk data outer => simp [mapScope]
  have hsp : (∀ sp, st.stepper = some sp → AllPosList P sp.calls) ↔
      st.stepper.map (mapStepper g) = st.stepper := by
    cases st.stepper with
    | none => simp
    | some sp =>
      simp only [Option.some.injEq, forall_eq', Option.map_some, allPosList_iff_fixed hgo]
      cases sp with
      | mk script skip o1 o2 calls => simp [mapStepper]
  constructor
  · intro h
    cases st with
    | mk scopes atoms trace marks ticks cancelAt stepper =>
      simp only [mapSt, State.mk.injEq, and_true, true_and]
      refine ⟨(array_map_eq_self hgo _ _).2 (fun sc hsc' => (hsc sc).1 (h.scopes sc hsc')),
        (array_map_eq_self hgo _ _).2 (fun v hv => (allPos_iff_fixed hgo v).1 (h.atoms v hv)),
        (allPosList_iff_fixed hgo _).1 h.trace, hsp.1 h.calls⟩
  · intro h
    cases st with
    | mk scopes atoms trace marks ticks cancelAt stepper =>
      simp only [mapSt, State.mk.injEq, and_true, true_and] at h
      obtain ⟨h1, h2, h3, h4⟩ := h
      exact ⟨fun sc hsc' => (hsc sc).2 ((array_map_eq_self hgo _ _).1 h1 sc hsc'),
        fun v hv => (allPos_iff_fixed hgo v).2 ((array_map_eq_self hgo _ _).1 h2 v hv),
        (allPosList_iff_fixed hgo _).2 h3, hsp.2 h4⟩

/-- payload and position of the error satisfy `P` -/
def ErrAll (P : Pos → Prop) : Err → Prop
  | .lisp pl pos => AllPos P pl ∧ OptAll P pos
  | .plain _ => True

theorem errAll_iff_fixed (e : Err) : ErrAll P e ↔ mapErr g e = e := by
  cases e with
  | plain m => simp [ErrAll, mapErr]
  | lisp pl pos => simp only [ErrAll, mapErr, allPos_iff_fixed hgo, hgo pos, Err.lisp.injEq]

end fixed

/-! #### the cursor map whose fixed points are the values with all cursors in `P` -/

open Classical in
/-- relabel every cursor outside `P` to a fixed cursor inside `P`; erase all cursors when `P` is empty -/
noncomputable def gOf (P : Pos → Prop) : Option Pos → Option Pos :=
  if h : ∃ p0, P p0 then Option.map (fun p => if P p then p else choose h) else fun _ => none

theorem gOf_posMap (P : Pos → Prop) : PosMap (gOf P) := by
  unfold gOf
  split
  · exact posMap_map _
  · exact posMap_erase

theorem gOf_fixed (P : Pos → Prop) (o : Option Pos) : OptAll P o ↔ gOf P o = o := by
  unfold gOf
  split
  · rename_i h
    cases o with
    | none => simp [OptAll]
    | some p =>
      simp only [optAll_some, Option.map_some, Option.some.injEq]
      constructor
      · intro hp; rw [if_pos hp]
      · intro e
        by_cases hp : P p
        · exact hp
        · rw [if_neg hp] at e; rw [← e]; exact Classical.choose_spec h
  · rename_i h
    cases o with
    | none => simp [OptAll]
    | some p =>
      simp only [optAll_some]
      constructor
      · intro hp; exact absurd ⟨p, hp⟩ h
      · intro e; cases e

/-- what a result may contain -/
def ResAll {α} (Q : α → Prop) (P : Pos → Prop) : Res α → Prop
  | .ok a => Q a
  | .err e => ErrAll P e
  | .oof => True

section inv
variable {P : Pos → Prop}

theorem resAll_of_fixed {α} {Q : α → Prop} {f : α → α} (hq : ∀ a, Q a ↔ f a = a) {r : Res α}
    (h : mapRes f (gOf P) r = r) : ResAll Q P r := by
  cases r with
  | ok a => simp only [mapRes, Res.ok.injEq] at h; exact (hq a).2 h
  | err e => simp only [mapRes, Res.err.injEq] at h; exact (errAll_iff_fixed (gOf_fixed P) e).2 h
  | oof => trivial

theorem inv_of_fixedR {r : R} (h : mapR (gOf P) r = r) : ResAll (AllPos P) P r.1 ∧ StAll P r.2 := by
  obtain ⟨r1, s1⟩ := r
  simp only [mapR, Prod.mk.injEq] at h
  exact ⟨resAll_of_fixed (allPos_iff_fixed (gOf_fixed P)) h.1, (stAll_iff_fixed (gOf_fixed P) s1).2 h.2⟩

theorem inv_of_fixedRL {r : Res (List Val) × State} (h : mapRL (gOf P) r = r) :
    ResAll (AllPosList P) P r.1 ∧ StAll P r.2 := by
  obtain ⟨r1, s1⟩ := r
  simp only [mapRL, Prod.mk.injEq] at h
  exact ⟨resAll_of_fixed (allPosList_iff_fixed (gOf_fixed P)) h.1, (stAll_iff_fixed (gOf_fixed P) s1).2 h.2⟩

/-- **`error_positions_come_from_the_ast`**, for the entry points of the block: when every cursor of the
    state and of the program satisfies `P`, so does every cursor of the value or error returned (payload
    and position) and of the resulting state -/
theorem eval_allPos (F : Nat) {st : State} (env : Nat) {ast : Val} (d : Nat)
    (hst : StAll P st) (hast : AllPos P ast) :
    ResAll (AllPos P) P (eval F st env ast d).1 ∧ StAll P (eval F st env ast d).2 := by
  have h := (comm (gOf_posMap P) F).eval st env ast d
  rw [(stAll_iff_fixed (gOf_fixed P) st).1 hst, (allPos_iff_fixed (gOf_fixed P) ast).1 hast] at h
  exact inv_of_fixedR h.symm

theorem evalLoop_allPos (F : Nat) {st : State} (env : Nat) {ast : Val} (d : Nat)
    (hst : StAll P st) (hast : AllPos P ast) :
    ResAll (AllPos P) P (evalLoop F st env ast d).1 ∧ StAll P (evalLoop F st env ast d).2 := by
  have h := (comm (gOf_posMap P) F).evalLoop st env ast d
  rw [(stAll_iff_fixed (gOf_fixed P) st).1 hst, (allPos_iff_fixed (gOf_fixed P) ast).1 hast] at h
  exact inv_of_fixedR h.symm

theorem apply_allPos (F : Nat) {st : State} {f : Val} {args : List Val} (d : Nat)
    (hst : StAll P st) (hf : AllPos P f) (hargs : AllPosList P args) :
    ResAll (AllPos P) P (apply F st f args d).1 ∧ StAll P (apply F st f args d).2 := by
  have h := (comm (gOf_posMap P) F).apply st f args d
  rw [(stAll_iff_fixed (gOf_fixed P) st).1 hst, (allPos_iff_fixed (gOf_fixed P) f).1 hf,
    (allPosList_iff_fixed (gOf_fixed P) args).1 hargs] at h
  exact inv_of_fixedR h.symm

theorem evalList_allPos (F : Nat) {st : State} (env : Nat) {xs : List Val} (d : Nat)
    (hst : StAll P st) (hxs : AllPosList P xs) :
    ResAll (AllPosList P) P (evalList F st env xs d).1 ∧ StAll P (evalList F st env xs d).2 := by
  have h := (comm (gOf_posMap P) F).evalList st env xs d
  rw [(stAll_iff_fixed (gOf_fixed P) st).1 hst, (allPosList_iff_fixed (gOf_fixed P) xs).1 hxs] at h
  exact inv_of_fixedRL h.symm

theorem callBuiltin_allPos (F : Nat) {st : State} (name : String) {args : List Val} (d : Nat)
    (hst : StAll P st) (hargs : AllPosList P args) :
    ResAll (AllPos P) P (callBuiltin F st name args d).1 ∧ StAll P (callBuiltin F st name args d).2 := by
  have h := (comm (gOf_posMap P) F).callBuiltin st name args d
  rw [(stAll_iff_fixed (gOf_fixed P) st).1 hst, (allPosList_iff_fixed (gOf_fixed P) args).1 hargs] at h
  exact inv_of_fixedR h.symm

end inv

/-! #### programs: top-level forms fed one by one to `EVAL` -/

/-- the position lies in module `m` between rows `lo` and `hi` -/
def InRows (m : String) (lo hi : Int) (p : Pos) : Prop := p.module = some m ∧ lo ≤ p.beginRow ∧ p.row ≤ hi

/-- feed the top-level forms one by one to `EVAL` in scope `env` (REPL, `load-file`): stop at the first
    error and report the failing form -/
def runForms (F : Nat) (env : Nat) : State → List Val → Option (Val × Err) × State
  | st, [] => (none, st)
  | st, T :: rest =>
    match eval F st env T 0 with
    | (.ok _, st') => runForms F env st' rest
    | (.err e, st') => (some (T, e), st')
    | (.oof, st') => (none, st')

theorem stAll_mono {P Q : Pos → Prop} (h : ∀ p, P p → Q p) {st : State} (hs : StAll P st) : StAll Q st :=
  ⟨fun sc hsc => allPosMap_mono h _ (hs.scopes sc hsc), fun v hv => allPos_mono h _ (hs.atoms v hv),
    allPosList_mono h _ hs.trace, fun sp hsp => allPosList_mono h _ (hs.calls sp hsp)⟩

/-- the start-up state carries no cursor at all -/
theorem initState_no_cursors : StAll (fun _ => False) initState := by
  refine ⟨?_, ?_, trivial, ?_⟩
  · intro sc hsc
    simp only [initState, List.mem_singleton] at hsc
    subst hsc
    rw [allPosMap_iff]
    intro kv hkv
    simp only [List.mem_map] at hkv
    obtain ⟨n, _, rfl⟩ := hkv
    trivial
  · intro v hv; simp [initState] at hv
  · intro sp hsp; simp [initState] at hsp

/-- a runtime error raised while the top-level forms are fed one by one carries — if any — a position
    that is a cursor of the failing form, of one of the forms evaluated before it, or of the store the
    program started from -/
theorem runForms_error_position (Rw : Val → Pos → Prop) (F env : Nat) :
    ∀ (forms : List Val) (Q : Pos → Prop) (st : State), StAll Q st → (∀ T ∈ forms, AllPos (Rw T) T) →
    ∀ T pl q st', runForms F env st forms = (some (T, .lisp pl (some q)), st') →
      ∃ pre post, forms = pre ++ T :: post ∧ (Q q ∨ ∃ T' ∈ pre ++ [T], Rw T' q) := by
  intro forms
  induction forms with
  | nil => intro Q st _ _ T pl q st' h; simp [runForms] at h
  | cons T0 rest ih =>
    intro Q st hst hf T pl q st' h
    have hinv := eval_allPos (P := fun p => Q p ∨ Rw T0 p) F env 0
      (stAll_mono (fun p hp => Or.inl hp) hst)
      (allPos_mono (fun p hp => Or.inr hp) _ (hf T0 (List.mem_cons_self ..)))
    rw [runForms] at h
    rcases he : eval F st env T0 0 with ⟨r, s1⟩
    rw [he] at h hinv
    cases r with
    | ok v =>
      simp only [] at h
      obtain ⟨pre, post, hfm, hq⟩ := ih _ s1 hinv.2 (fun T hT => hf T (List.mem_cons_of_mem _ hT)) T pl q st' h
      refine ⟨T0 :: pre, post, by rw [hfm]; rfl, ?_⟩
      rcases hq with (hq | hq) | ⟨T', hT', hq⟩
      · exact .inl hq
      · exact .inr ⟨T0, List.mem_cons_self .., hq⟩
      · exact .inr ⟨T', List.mem_cons_of_mem _ hT', hq⟩
    | err e =>
      simp only [Prod.mk.injEq, Option.some.injEq] at h
      obtain ⟨⟨rfl, rfl⟩, rfl⟩ := h
      refine ⟨[], rest, rfl, ?_⟩
      have := hinv.1
      simp only [ResAll, ErrAll, optAll_some] at this
      rcases this.2 with hq | hq
      · exact .inl hq
      · exact .inr ⟨T0, List.mem_cons_self .., hq⟩
    | oof => simp at h

/-! ### the module name only changes cursors (property C19: "with or without a module name") -/

/-- outcomes of the reader that differ only in cursors -/
def ExEq {α} (eqv : α → α → Prop) : Except RErr α → Except RErr α → Prop
  | .ok a, .ok b => eqv a b
  | .error e, .error e' => e = e'
  | _, _ => False

/-- lists that differ only in cursors -/
def ListEq (xs ys : List Val) : Prop := mapPosList (fun _ => none) xs = mapPosList (fun _ => none) ys

theorem listEq_nil : ListEq [] [] := rfl
theorem listEq_cons {x y : Val} {xs ys : List Val} (h : ValEq x y) (hs : ListEq xs ys) : ListEq (x :: xs) (y :: ys) := by
  unfold ListEq; simp only [mapPosList]; rw [show mapPos _ x = mapPos _ y from h, show mapPosList _ xs = _ from hs]
theorem listEq_cons_inv {x y : Val} {xs ys : List Val} (h : ListEq (x :: xs) (y :: ys)) : ValEq x y ∧ ListEq xs ys := by
  unfold ListEq at h; simp only [mapPosList, List.cons.injEq] at h; exact h
theorem listEq_length {xs ys : List Val} (h : ListEq xs ys) : xs.length = ys.length := by
  have := congrArg List.length h; simpa using this
theorem listEq_reverse {xs ys : List Val} (h : ListEq xs ys) : ListEq xs.reverse ys.reverse := by
  unfold ListEq at h ⊢; rw [mapPosList_eq, mapPosList_eq] at h ⊢; simp [List.map_reverse, h]

theorem valEq_str_left {k : String} {y : Val} (h : ValEq (.str k) y) : y = .str k := by
  unfold ValEq erasePos at h; cases y <;> simp [mapPos] at h; rw [h]
theorem valEq_not_str {x y : Val} (h : ValEq x y) (hx : ∀ k, x ≠ .str k) : ∀ k, y ≠ .str k := by
  intro k hy; subst hy
  unfold ValEq erasePos at h; cases x <;> simp [mapPos] at h
  exact hx _ (by rw [h])

theorem newHashMapLoop_eq : ∀ (xs ys : List Val) (m m' : List (String × Val)),
    ListEq xs ys → mapPosMap (fun _ => none) m = mapPosMap (fun _ => none) m' →
    ExEq (fun a b => mapPosMap (fun _ => none) a = mapPosMap (fun _ => none) b)
      (Read.newHashMapLoop xs m) (Read.newHashMapLoop ys m')
  | [], ys, m, m', h, hm => by
    cases ys with
    | nil => exact hm
    | cons y ys => exact absurd (listEq_length h) (by simp)
  | [x], ys, m, m', h, hm => by
    match ys, h with
    | [y], h =>
      have hv := (listEq_cons_inv h).1
      cases x <;> cases y <;> first | rfl | (exfalso; unfold ValEq erasePos at hv; simp [mapPos] at hv; done)
    | [], h => exact absurd (listEq_length h) (by simp)
    | _ :: _ :: _, h => exact absurd (listEq_length h) (by simp)
  | a :: v :: r, ys, m, m', h, hm => by
    match ys, h with
    | [], h => exact absurd (listEq_length h) (by simp)
    | [_], h => exact absurd (listEq_length h) (by simp)
    | b :: w :: r', h =>
      obtain ⟨hab, h2⟩ := listEq_cons_inv h
      obtain ⟨hvw, hr⟩ := listEq_cons_inv h2
      by_cases hk : ∃ k, a = .str k
      · obtain ⟨k, rfl⟩ := hk
        rw [valEq_str_left hab]
        simp only [Read.newHashMapLoop]
        refine newHashMapLoop_eq r r' _ _ hr ?_
        rw [← ainsert_map, ← ainsert_map, hm, show mapPos _ v = mapPos _ w from hvw]
      · have ha : ∀ k, a ≠ .str k := fun k e => hk ⟨k, e⟩
        have hb := valEq_not_str hab ha
        have e1 : Read.newHashMapLoop (a :: v :: r) m = .error .badkey := by
          cases a <;> first | rfl | exact absurd rfl (ha _)
        have e2 : Read.newHashMapLoop (b :: w :: r') m' = .error .badkey := by
          cases b <;> first | rfl | exact absurd rfl (hb _)
        rw [e1, e2]; rfl

theorem newSet_eq : ∀ (xs ys : List Val) (s : List String), ListEq xs ys →
    ExEq (fun a b => a = b) (Read.newSet xs s) (Read.newSet ys s)
  | [], ys, s, h => by
    cases ys with
    | nil => rfl
    | cons y ys => exact absurd (listEq_length h) (by simp)
  | a :: r, ys, s, h => by
    match ys, h with
    | [], h => exact absurd (listEq_length h) (by simp)
    | b :: r', h =>
      obtain ⟨hab, hr⟩ := listEq_cons_inv h
      by_cases hk : ∃ k, a = .str k
      · obtain ⟨k, rfl⟩ := hk
        rw [valEq_str_left hab]
        simp only [Read.newSet]
        exact newSet_eq r r' _ hr
      · have ha : ∀ k, a ≠ .str k := fun k e => hk ⟨k, e⟩
        have hb := valEq_not_str hab ha
        have e1 : Read.newSet (a :: r) s = .error .badsetitem := by
          cases a <;> first | rfl | exact absurd rfl (ha _)
        have e2 : Read.newSet (b :: r') s = .error .badsetitem := by
          cases b <;> first | rfl | exact absurd rfl (hb _)
        rw [e1, e2]; rfl

theorem externCall_eq (name : String) {args args' : List Val} (h : ListEq args args') :
    ExEq ValEq (externCall name args) (externCall name args') := by
  unfold externCall
  rw [listEq_length h]
  split
  · split <;> rfl
  · split
    · match args, args', h with
      | [], [], _ => rfl
      | [], _ :: _, h => exact absurd (listEq_length h) (by simp)
      | _ :: _, [], h => exact absurd (listEq_length h) (by simp)
      | [a], [b], h =>
        have hab := (listEq_cons_inv h).1
        by_cases hk : ∃ k, a = .str k
        · obtain ⟨k, rfl⟩ := hk
          rw [valEq_str_left hab]
          simp only []
          split <;> rfl
        · have ha : ∀ k, a ≠ .str k := fun k e => hk ⟨k, e⟩
          have hb := valEq_not_str hab ha
          cases a <;> first | exact absurd rfl (ha _) | skip
          all_goals (cases b <;> first | exact absurd rfl (hb _) | rfl)
      | [_], _ :: _ :: _, h => exact absurd (listEq_length h) (by simp)
      | _ :: _ :: _, [_], h => exact absurd (listEq_length h) (by simp)
      | a :: _ :: _, b :: _ :: _, h =>
        cases a <;> cases b <;> rfl
    · rfl

theorem valEq_refl (v : Val) : ValEq v v := rfl
theorem valEq_sym' (s : String) (p q : Option Pos) : ValEq (.sym s p) (.sym s q) := rfl
theorem valEq_list {xs ys : List Val} (p q : Option Pos) (h : ListEq xs ys) : ValEq (.list xs p) (.list ys q) := by
  unfold ValEq erasePos; simp only [mapPos]; rw [show mapPosList _ xs = _ from h]
theorem valEq_vec {xs ys : List Val} (p q : Option Pos) (h : ListEq xs ys) : ValEq (.vec xs p) (.vec ys q) := by
  unfold ValEq erasePos; simp only [mapPos]; rw [show mapPosList _ xs = _ from h]

theorem readAtom_eq (cfg cfg' : Cfg) (t : Token) : ExEq ValEq (readAtom cfg t) (readAtom cfg' t) := by
  unfold readAtom
  simp only []
  split
  · split <;> rfl
  · split <;> rfl
  · split
    · rfl
    · split <;> rfl
  · rfl
  · split <;> rfl
  · split
    · rfl
    · split
      · rfl
      · split <;> rfl
  · rfl

/-- the two classifications of a token under configurations that differ only in the module name -/
inductive ShapeEq : Shape → Shape → Prop
  | rmacro (n : String) : ShapeEq (.rmacro n) (.rmacro n)
  | wmeta : ShapeEq .wmeta .wmeta
  | closer (s : String) : ShapeEq (.closer s) (.closer s)
  | opn (c : String) {k k' : List Val → Token → Except RErr Val} :
      (∀ xs xs' close, ListEq xs xs' → ExEq ValEq (k xs close) (k' xs' close)) → ShapeEq (.opn c k) (.opn c k')
  | leaf {r r' : Except RErr Val} : ExEq ValEq r r' → ShapeEq (.leaf r) (.leaf r')

theorem shape_eq (cfg cfg' : Cfg) (hphs : cfg.phs = cfg'.phs) (henv : cfg.hasEnv = cfg'.hasEnv) (t : Token) :
    ShapeEq (shape cfg t) (shape cfg' t) := by
  unfold shape
  simp only []
  cases hL : List.lookup (tokStr t) readerMacros with
  | some name => exact .rmacro name
  | none =>
    simp only []
    by_cases h1 : tokStr t = "^"
    · rw [if_pos h1, if_pos h1]; exact .wmeta
    rw [if_neg h1, if_neg h1]
    by_cases h2 : tokStr t = ")"
    · rw [if_pos h2, if_pos h2]; exact .closer _
    rw [if_neg h2, if_neg h2]
    by_cases h3 : tokStr t = "]"
    · rw [if_pos h3, if_pos h3]; exact .closer _
    rw [if_neg h3, if_neg h3]
    by_cases h4 : tokStr t = "}"
    · rw [if_pos h4, if_pos h4]; exact .closer _
    rw [if_neg h4, if_neg h4]
    by_cases h5 : tokStr t = "("
    · rw [if_pos h5, if_pos h5]
      exact .opn _ (fun xs xs' close h => valEq_list _ _ h)
    rw [if_neg h5, if_neg h5]
    by_cases h6 : tokStr t = "["
    · rw [if_pos h6, if_pos h6]
      exact .opn _ (fun xs xs' close h => valEq_vec _ _ h)
    rw [if_neg h6, if_neg h6]
    by_cases h7 : tokStr t = "{"
    · rw [if_pos h7, if_pos h7]
      refine .opn _ (fun xs xs' close h => ?_)
      simp only [Read.newHashMap]
      rw [listEq_length h]
      by_cases hodd : xs'.length % 2 = 1
      · rw [if_pos hodd, if_pos hodd]; rfl
      · rw [if_neg hodd, if_neg hodd]
        have := newHashMapLoop_eq xs xs' [] [] h rfl
        cases h1 : Read.newHashMapLoop xs [] <;> cases h2 : Read.newHashMapLoop xs' [] <;>
          rw [h1, h2] at this <;> first | exact this.elim | skip
        · exact this
        · show ValEq (.map _) (.map _)
          unfold ValEq erasePos; simp only [mapPos]; rw [show mapPosMap _ _ = _ from this]
    rw [if_neg h7, if_neg h7]
    by_cases h8 : tokStr t = "#{"
    · rw [if_pos h8, if_pos h8]
      refine .opn _ (fun xs xs' close h => ?_)
      have := newSet_eq xs xs' [] h
      cases h1 : Read.newSet xs [] <;> cases h2 : Read.newSet xs' [] <;>
        rw [h1, h2] at this <;> first | exact this.elim | skip
      · exact this
      · show ValEq (.set _) (.set _)
        rw [show _ = _ from this]; rfl
    rw [if_neg h8, if_neg h8]
    by_cases h9 : tokStr t = "«"
    · rw [if_pos h9, if_pos h9]
      refine .opn _ (fun xs xs' close h => ?_)
      match xs, xs', h with
      | [], [], _ => rfl
      | [], _ :: _, h => exact absurd (listEq_length h) (by simp)
      | _ :: _, [], h => exact absurd (listEq_length h) (by simp)
      | a :: args, b :: args', h =>
        obtain ⟨hab, hr⟩ := listEq_cons_inv h
        by_cases hs : ∃ n p, a = .sym n p
        · obtain ⟨n, p, rfl⟩ := hs
          have : ∃ q, b = .sym n q := by
            unfold ValEq erasePos at hab
            cases b <;> simp [mapPos] at hab
            exact ⟨_, by rw [hab]⟩
          obtain ⟨q, rfl⟩ := this
          simp only [henv]
          split
          · rfl
          · have := externCall_eq n hr
            cases h1 : externCall n args <;> cases h2 : externCall n args' <;>
              rw [h1, h2] at this <;> first | exact this.elim | exact this
        · have ha : ∀ n p, a ≠ .sym n p := fun n p e => hs ⟨n, p, e⟩
          have hb : ∀ n p, b ≠ .sym n p := by
            intro n p e; subst e
            unfold ValEq erasePos at hab
            cases a <;> simp [mapPos] at hab
            exact ha _ _ (by rw [hab])
          cases a <;> first | exact absurd rfl (ha _ _) | skip
          all_goals (cases b <;> first | exact absurd rfl (hb _ _) | rfl)
    rw [if_neg h9, if_neg h9]
    by_cases h10 : t.text.head? = some 36
    · rw [if_pos h10, if_pos h10]
      refine .leaf ?_
      rw [hphs]
      cases cfg'.phs <;> rfl
    rw [if_neg h10, if_neg h10]
    exact .leaf (readAtom_eq cfg cfg' t)

/-- outcomes of `readForm` that differ only in cursors: the same unread tokens -/
def FormEq (r r' : Except RErr (Val × List Token)) : Prop :=
  ExEq (fun a b => ValEq a.1 b.1 ∧ a.2 = b.2) r r'
def ListResEq (r r' : Except RErr (List Val × Token × List Token)) : Prop :=
  ExEq (fun a b => ListEq a.1 b.1 ∧ a.2 = b.2) r r'

theorem reader_module_irrelevant (cfg cfg' : Cfg) (hphs : cfg.phs = cfg'.phs) (henv : cfg.hasEnv = cfg'.hasEnv) :
    ∀ f, (∀ ts, FormEq (readForm f cfg ts) (readForm f cfg' ts)) ∧
      (∀ closer ts acc acc', ListEq acc acc' →
        ListResEq (readList f cfg closer ts acc) (readList f cfg' closer ts acc')) := by
  intro f
  induction f with
  | zero =>
    exact ⟨fun ts => by rw [readForm_zero, readForm_zero]; rfl,
      fun closer ts acc acc' _ => by rw [readList_zero, readList_zero]; rfl⟩
  | succ f ih =>
    obtain ⟨ihF, ihL⟩ := ih
    constructor
    · intro ts
      cases ts with
      | nil => rw [readForm_nil, readForm_nil]; rfl
      | cons t ts' =>
        rw [readForm_cons, readForm_cons]
        have hsh := shape_eq cfg cfg' hphs henv t
        generalize shape cfg t = sh1 at hsh ⊢
        generalize shape cfg' t = sh2 at hsh ⊢
        cases hsh with
        | rmacro name =>
          simp only []
          have h1 := ihF ts'
          cases hr : readForm f cfg ts' <;> cases hr' : readForm f cfg' ts' <;>
            rw [hr, hr'] at h1 <;> first | exact h1.elim | skip
          · exact h1
          · rename_i a b
            obtain ⟨form, rest⟩ := a
            obtain ⟨form', rest'⟩ := b
            obtain ⟨hv, hrest⟩ := h1
            exact ⟨valEq_list _ _ (listEq_cons (valEq_sym' _ _ _) (listEq_cons hv listEq_nil)), hrest⟩
        | wmeta =>
          simp only []
          have h1 := ihF ts'
          cases hr : readForm f cfg ts' <;> cases hr' : readForm f cfg' ts' <;>
            rw [hr, hr'] at h1 <;> first | exact h1.elim | skip
          · exact h1
          · rename_i a b
            obtain ⟨m, rest⟩ := a
            obtain ⟨m', rest'⟩ := b
            obtain ⟨hm, hrest⟩ := h1
            simp only [] at hrest
            subst hrest
            simp only []
            have h2 := ihF rest
            cases hr2 : readForm f cfg rest <;> cases hr2' : readForm f cfg' rest <;>
              rw [hr2, hr2'] at h2 <;> first | exact h2.elim | skip
            · exact h2
            · rename_i a b
              obtain ⟨form, rest2⟩ := a
              obtain ⟨form', rest2'⟩ := b
              obtain ⟨hv, hrest2⟩ := h2
              exact ⟨valEq_list _ _ (listEq_cons (valEq_sym' _ _ _) (listEq_cons hv (listEq_cons hm listEq_nil))), hrest2⟩
        | closer s => rfl
        | opn c hk =>
          simp only []
          have h1 := ihL c ts' [] [] listEq_nil
          cases hr : readList f cfg c ts' [] <;> cases hr' : readList f cfg' c ts' [] <;>
            rw [hr, hr'] at h1 <;> first | exact h1.elim | skip
          · exact h1
          · rename_i a b
            obtain ⟨xs, close, rest⟩ := a
            obtain ⟨xs', close', rest'⟩ := b
            obtain ⟨hx, hrest⟩ := h1
            simp only [Prod.mk.injEq] at hrest
            obtain ⟨rfl, rfl⟩ := hrest
            simp only []
            have h2 := hk xs xs' close hx
            rename_i k k'
            cases hkk : k xs close <;> cases hkk' : k' xs' close <;>
              rw [hkk, hkk'] at h2 <;> first | exact h2.elim | skip
            · exact h2
            · exact ⟨h2, rfl⟩
        | leaf hr =>
          simp only []
          rename_i r r'
          cases r <;> cases r' <;> first | exact hr.elim | skip
          · exact hr
          · exact ⟨hr, rfl⟩
    · intro closer ts acc acc' hacc
      cases ts with
      | nil => rw [readList_nil, readList_nil]; rfl
      | cons t ts' =>
        rw [readList_cons, readList_cons]
        by_cases hc : tokStr t = closer
        · rw [if_pos hc, if_pos hc]; exact ⟨listEq_reverse hacc, rfl⟩
        · rw [if_neg hc, if_neg hc]
          have h1 := ihF (t :: ts')
          cases hr : readForm f cfg (t :: ts') <;> cases hr' : readForm f cfg' (t :: ts') <;>
            rw [hr, hr'] at h1 <;> first | exact h1.elim | skip
          · exact h1
          · rename_i a b
            obtain ⟨v, rest⟩ := a
            obtain ⟨v', rest'⟩ := b
            obtain ⟨hv, hrest⟩ := h1
            simp only [] at hrest
            subst hrest
            exact ihL closer rest (v :: acc) (v' :: acc') (listEq_cons hv hacc)

/-- **text read with or without a module name**: `readStr` under two configurations that differ only
    in the module name fails with the same error or returns ASTs that differ only in cursors -/
theorem readStr_module_irrelevant (cfg cfg' : Cfg) (hphs : cfg.phs = cfg'.phs) (henv : cfg.hasEnv = cfg'.hasEnv)
    (bytes : List UInt8) : ExEq ValEq (readStr cfg bytes) (readStr cfg' bytes) := by
  unfold readStr
  simp only []
  have hc : ∀ c : Cfg, (if c.module.isNone then { c with module := modulePrefix bytes } else c).phs = c.phs ∧
      (if c.module.isNone then { c with module := modulePrefix bytes } else c).hasEnv = c.hasEnv := by
    intro c; split <;> exact ⟨rfl, rfl⟩
  have h1 := (hc cfg).1.trans (hphs.trans (hc cfg').1.symm)
  have h2 := (hc cfg).2.trans (henv.trans (hc cfg').2.symm)
  generalize (if cfg.module.isNone then { cfg with module := modulePrefix bytes } else cfg) = c1 at h1 h2 ⊢
  generalize (if cfg'.module.isNone then { cfg' with module := modulePrefix bytes } else cfg') = c2 at h1 h2 ⊢
  cases tokenize bytes with
  | error l c => rfl
  | ok toks =>
    cases toks with
    | nil => rfl
    | cons t ts =>
      simp only []
      have h := (reader_module_irrelevant c1 c2 h1 h2 (2 * (t :: ts).length + 2)).1 (t :: ts)
      cases hr : readForm (2 * (t :: ts).length + 2) c1 (t :: ts) <;>
        cases hr' : readForm (2 * (t :: ts).length + 2) c2 (t :: ts) <;>
        rw [hr, hr'] at h <;> first | exact h.elim | skip
      · exact h
      · rename_i a b
        obtain ⟨v, rest⟩ := a
        obtain ⟨v', rest'⟩ := b
        obtain ⟨hv, hrest⟩ := h
        simp only [] at hrest
        subst hrest
        cases rest with
        | nil => exact hv
        | cons _ _ => rfl

/-- delivery with or without a module name: the two ASTs evaluate to results that differ only in cursors -/
theorem eval_read_module_irrelevant (cfg cfg' : Cfg) (hphs : cfg.phs = cfg'.phs) (henv : cfg.hasEnv = cfg'.hasEnv)
    {bytes : List UInt8} {v v' : Val} (h : readStr cfg bytes = .ok v) (h' : readStr cfg' bytes = .ok v')
    (F : Nat) (st : State) (env d : Nat) : REq (eval F st env v d) (eval F st env v' d) := by
  have := readStr_module_irrelevant cfg cfg' hphs henv bytes
  rw [h, h'] at this
  exact eval_ignores_positions F env d rfl this

/-! ### glue for Props/C17.lean -/

theorem list_rows {cfg : Cfg} {f : Nat} {t : Token} {ts rest : List Token} {v : Val}
    (ht : tokStr t = "(") (h : readForm f cfg (t :: ts) = .ok (v, rest)) :
    ∃ xs close pre pos, v = .list xs (some pos) ∧ ts = pre ++ close :: rest ∧ tokStr close = ")" ∧
      pos.beginRow = t.line ∧ pos.row = close.line ∧ pos.module = cfg.module := by
  obtain ⟨xs, close, pre, hv, hts, hc, _⟩ := readForm_opn (shape_paren cfg t ht) h
  exact ⟨xs, close, pre, _, hv, hts, hc, rfl, rfl, rfl⟩

theorem vec_rows {cfg : Cfg} {f : Nat} {t : Token} {ts rest : List Token} {v : Val}
    (ht : tokStr t = "[") (h : readForm f cfg (t :: ts) = .ok (v, rest)) :
    ∃ xs close pre pos, v = .vec xs (some pos) ∧ ts = pre ++ close :: rest ∧ tokStr close = "]" ∧
      pos.beginRow = t.line ∧ pos.row = close.line ∧ pos.module = cfg.module := by
  obtain ⟨xs, close, pre, hv, hts, hc, _⟩ := readForm_opn (shape_bracket cfg t ht) h
  exact ⟨xs, close, pre, _, hv, hts, hc, rfl, rfl, rfl⟩

theorem list_children_rows {cfg : Cfg} {f : Nat} {t : Token} {ts rest : List Token} {v : Val}
    (ht : tokStr t = "(") (hphs : cfg.phs = none) (hmono : LinesMono (t :: ts))
    (h : readForm f cfg (t :: ts) = .ok (v, rest)) :
    ∃ xs pos, v = .list xs (some pos) ∧
      AllPosList (fun p => pos.beginRow ≤ p.beginRow ∧ p.row ≤ pos.row) xs := by
  obtain ⟨xs, close, pre, hv, _, _, hall⟩ := bracketed_rows (shape_paren cfg t ht) hphs hmono h
  subst hv
  exact ⟨xs, _, rfl, hall.2⟩

theorem vec_children_rows {cfg : Cfg} {f : Nat} {t : Token} {ts rest : List Token} {v : Val}
    (ht : tokStr t = "[") (hphs : cfg.phs = none) (hmono : LinesMono (t :: ts))
    (h : readForm f cfg (t :: ts) = .ok (v, rest)) :
    ∃ xs pos, v = .vec xs (some pos) ∧
      AllPosList (fun p => pos.beginRow ≤ p.beginRow ∧ p.row ≤ pos.row) xs := by
  obtain ⟨xs, close, pre, hv, _, _, hall⟩ := bracketed_rows (shape_bracket cfg t ht) hphs hmono h
  subst hv
  exact ⟨xs, _, rfl, hall.2⟩

theorem eval_error_in_rows {m : String} {lo hi : Int} (F : Nat) {st st' : State} (env : Nat)
    {ast pl : Val} {q : Pos} (d : Nat) (hst : StAll (InRows m lo hi) st) (hast : AllPos (InRows m lo hi) ast)
    (h : eval F st env ast d = (.err (.lisp pl (some q)), st')) : InRows m lo hi q := by
  have := (eval_allPos F env d hst hast).1
  rw [h] at this
  exact optAll_some.1 this.2

theorem eval_error_in_form_or_store {m : String} {lo hi : Int} {Q : Pos → Prop} (F : Nat)
    {st st' : State} (env : Nat) {T pl : Val} {q : Pos} (d : Nat)
    (hst : StAll Q st) (hT : AllPos (InRows m lo hi) T)
    (h : eval F st env T d = (.err (.lisp pl (some q)), st')) : InRows m lo hi q ∨ Q q := by
  have := (eval_allPos (P := fun p => InRows m lo hi p ∨ Q p) F env d
    (stAll_mono (fun p hp => Or.inr hp) hst) (allPos_mono (fun p hp => Or.inl hp) _ hT)).1
  rw [h] at this
  exact optAll_some.1 this.2

theorem gap_shifts_lines {g : List Rune} (hg : Layout.Gap g) :
    ∃ k, k ≤ g.length ∧ ∀ f post ch p, isWhite ch = true →
      scan (f + 1 + k) (g ++ post) ch p = scan (f + 1) post (Layout.lastCh ch g) (Layout.feed g p) ∧
      isWhite (Layout.lastCh ch g) = true ∧ (Layout.feed g p).line = p.line + Layout.newlines g := by
  obtain ⟨k, hk, h⟩ := Layout.scan_gap hg
  exact ⟨k, hk, fun f post ch p hch => ⟨(h f post ch p hch).2, (h f post ch p hch).1, Layout.feed_line g p⟩⟩

/-! ### reader and evaluator together -/

mutual
theorem allPos_and {P Q : Pos → Prop} : ∀ v, AllPos P v → AllPos Q v → AllPos (fun p => P p ∧ Q p) v
  | .sym _ _, h1, h2 => fun p e => ⟨h1 p e, h2 p e⟩
  | .list xs _, h1, h2 => ⟨fun p e => ⟨h1.1 p e, h2.1 p e⟩, allPosList_and xs h1.2 h2.2⟩
  | .vec xs _, h1, h2 => ⟨fun p e => ⟨h1.1 p e, h2.1 p e⟩, allPosList_and xs h1.2 h2.2⟩
  | .map kvs, h1, h2 => allPosMap_and kvs h1 h2
  | .fn ps b _ _ _, h1, h2 =>
    ⟨fun p e => ⟨h1.1 p e, h2.1 p e⟩, allPos_and ps h1.2.1 h2.2.1, allPos_and b h1.2.2 h2.2.2⟩
  | .nil, _, _ | .bool _, _, _ | .int _, _, _ | .str _, _, _ | .set _, _, _ | .builtin _, _, _ | .atom _, _, _
  | .future _, _, _ | .goerr _, _, _ | .opaque _, _, _ => trivial
theorem allPosList_and {P Q : Pos → Prop} :
    ∀ xs, AllPosList P xs → AllPosList Q xs → AllPosList (fun p => P p ∧ Q p) xs
  | [], _, _ => trivial
  | x :: xs, h1, h2 => ⟨allPos_and x h1.1 h2.1, allPosList_and xs h1.2 h2.2⟩
theorem allPosMap_and {P Q : Pos → Prop} :
    ∀ m, AllPosMap P m → AllPosMap Q m → AllPosMap (fun p => P p ∧ Q p) m
  | [], _, _ => trivial
  | (_, v) :: r, h1, h2 => ⟨allPos_and v h1.1 h2.1, allPosMap_and r h1.2 h2.2⟩
end

/-- a program read from text under module `m` that fails during evaluation on a store whose cursors (if any)
    name `m`: the position of the error names `m` -/
theorem read_eval_error_names_module {cfg : Cfg} {m : String} (hm : cfg.module = some m)
    (hphs : PhsAll (fun p => p.module = some m) cfg) {bytes : List UInt8} {v : Val}
    (h : readStr cfg bytes = .ok v) (F : Nat) {st st' : State} (env d : Nat) {pl : Val} {q : Pos}
    (hst : StAll (fun p => p.module = some m) st)
    (he : eval F st env v d = (.err (.lisp pl (some q)), st')) : q.module = some m := by
  have := (eval_allPos F env d hst (readStr_module hm hphs h)).1
  rw [he] at this
  exact optAll_some.1 this.2

/-- a bracketed top-level form read under module `m` from monotone tokens, evaluated on a store without
    cursors: the position of the error names `m` and lies between the line of the opening token and the
    line of the closing token of that form -/
theorem read_eval_error_within_form {cfg : Cfg} {m : String} (hm : cfg.module = some m) (hphs : cfg.phs = none)
    {f : Nat} {t : Token} {ts rest : List Token} {T : Val} (ht : tokStr t = "(")
    (hmono : LinesMono (t :: ts)) (h : readForm f cfg (t :: ts) = .ok (T, rest))
    (F : Nat) {st st' : State} (env d : Nat) {pl : Val} {q : Pos}
    (hst : StAll (fun _ => False) st)
    (he : eval F st env T d = (.err (.lisp pl (some q)), st')) :
    ∃ close pre, ts = pre ++ close :: rest ∧ tokStr close = ")" ∧ InRows m t.line close.line q := by
  obtain ⟨xs, close, pre, hv, hts, hc, hall⟩ := bracketed_rows (shape_paren cfg t ht) hphs hmono h
  refine ⟨close, pre, hts, hc, ?_⟩
  have hmod : AllPos (fun p => p.module = some m) T :=
    readForm_allPos (phsAll_none hphs) (fun _ _ _ _ => hm) h
  have hT : AllPos (InRows m t.line close.line) T :=
    allPos_mono (fun p hp => ⟨hp.1, hp.2.1, hp.2.2⟩) _ (allPos_and T hmod hall)
  rcases eval_error_in_form_or_store F env d hst hT he with hq | hq
  · exact hq
  · exact hq.elim

end LispModel.Proofs.Positions

/-
  Source positions (property C17).

  Reader side: which cursor each AST node gets (`readForm_allPos`: every cursor of the AST is the
  cursor of a token of the form, closed at a token of the form), hence cursors name the module, a
  bracketed node spans the rows of its opening and closing token, and — token lines being monotone —
  everything inside lies within these rows.
  Evaluator side (second half of the file): positions of errors come from cursors of the program.
  Core Lean only.
-/
import LispModel.Read
import LispModel.Eval
import LispModel.Proofs.ReaderParse
import LispModel.Proofs.Layout
namespace LispModel.Proofs.Positions
open LispModel LispModel.Read LispModel.Scan LispModel.Proofs.Reader

/-! ### "every cursor of a value satisfies `P`" -/

/-- an optional cursor satisfies `P` when it is there -/
def OptAll (P : Pos → Prop) (o : Option Pos) : Prop := ∀ p, o = some p → P p

mutual
/-- every cursor occurring in the value (symbols, lists, vectors, closures — recursively, including the
    parameters and the body of closures and the values of hash-maps) satisfies `P` -/
def AllPos (P : Pos → Prop) : Val → Prop
  | .sym _ p => OptAll P p
  | .list xs p => OptAll P p ∧ AllPosList P xs
  | .vec xs p => OptAll P p ∧ AllPosList P xs
  | .map kvs => AllPosMap P kvs
  | .fn ps b _ _ p => OptAll P p ∧ AllPos P ps ∧ AllPos P b
  | _ => True
def AllPosList (P : Pos → Prop) : List Val → Prop
  | [] => True
  | x :: xs => AllPos P x ∧ AllPosList P xs
def AllPosMap (P : Pos → Prop) : List (String × Val) → Prop
  | [] => True
  | (_, v) :: r => AllPos P v ∧ AllPosMap P r
end

theorem optAll_none (P : Pos → Prop) : OptAll P none := fun _ h => by cases h
theorem optAll_some {P : Pos → Prop} {p : Pos} : OptAll P (some p) ↔ P p :=
  ⟨fun h => h p rfl, fun h q e => by cases e; exact h⟩

theorem allPosList_iff {P : Pos → Prop} {xs : List Val} : AllPosList P xs ↔ ∀ x ∈ xs, AllPos P x := by
  induction xs with
  | nil => simp [AllPosList]
  | cons x xs ih => simp [AllPosList, ih]

theorem allPosMap_iff {P : Pos → Prop} {m : List (String × Val)} :
    AllPosMap P m ↔ ∀ kv ∈ m, AllPos P kv.2 := by
  induction m with
  | nil => simp [AllPosMap]
  | cons kv m ih => obtain ⟨k, v⟩ := kv; simp [AllPosMap, ih]

set_option linter.unusedSectionVars false
section mono
variable {P Q : Pos → Prop} (h : ∀ p, P p → Q p)
include h

theorem optAll_mono {o : Option Pos} (ho : OptAll P o) : OptAll Q o := fun p e => h p (ho p e)

mutual
theorem allPos_mono : ∀ v, AllPos P v → AllPos Q v
  | .sym _ _, hv => optAll_mono h hv
  | .list xs _, hv => ⟨optAll_mono h hv.1, allPosList_mono xs hv.2⟩
  | .vec xs _, hv => ⟨optAll_mono h hv.1, allPosList_mono xs hv.2⟩
  | .map kvs, hv => allPosMap_mono kvs hv
  | .fn ps b _ _ _, hv => ⟨optAll_mono h hv.1, allPos_mono ps hv.2.1, allPos_mono b hv.2.2⟩
  | .nil, _ | .bool _, _ | .int _, _ | .str _, _ | .set _, _ | .builtin _, _ | .atom _, _
  | .future _, _ | .goerr _, _ | .opaque _, _ => trivial
theorem allPosList_mono : ∀ xs, AllPosList P xs → AllPosList Q xs
  | [], _ => trivial
  | x :: xs, hv => ⟨allPos_mono x hv.1, allPosList_mono xs hv.2⟩
theorem allPosMap_mono : ∀ m, AllPosMap P m → AllPosMap Q m
  | [], _ => trivial
  | (_, v) :: r, hv => ⟨allPos_mono v hv.1, allPosMap_mono r hv.2⟩
end
end mono

/-! ### the reader: every cursor of the AST is made of tokens of the form -/

section reader
variable {P : Pos → Prop} {cfg : Cfg}

/-- `P` holds for every cursor the reader can form from the tokens `ts`: the cursor of a token, closed at
    a token (`closePos x x = x`: the cursor of a token itself is included) -/
def TokCur (P : Pos → Prop) (cfg : Cfg) (ts : List Token) : Prop :=
  ∀ t ∈ ts, ∀ c ∈ ts, P (closePos (tokPos cfg t) (tokPos cfg c))

/-- the values of the placeholder table (inserted into the AST as they are) satisfy `P` -/
def PhsAll (P : Pos → Prop) (cfg : Cfg) : Prop := ∀ m, cfg.phs = some m → AllPosMap P m

theorem closePos_self (x : Pos) : closePos x x = x := rfl

theorem tokCur_self {ts : List Token} (h : TokCur P cfg ts) {t : Token} (ht : t ∈ ts) : P (tokPos cfg t) :=
  h t ht t ht

theorem tokCur_subset {ts ts' : List Token} (h : TokCur P cfg ts) (hs : ∀ t ∈ ts', t ∈ ts) : TokCur P cfg ts' :=
  fun t ht c hc => h t (hs t ht) c (hs c hc)

theorem allPosMap_ainsert {m : List (String × Val)} {k : String} {v : Val}
    (hm : AllPosMap P m) (hv : AllPos P v) : AllPosMap P (ainsert k v m) := by
  induction m with
  | nil => exact ⟨hv, trivial⟩
  | cons kv m ih =>
    obtain ⟨k', v'⟩ := kv
    unfold ainsert
    split
    · exact ⟨hv, hm.2⟩
    · exact ⟨hm.1, ih hm.2⟩

theorem allPosMap_alookup {m : List (String × Val)} {k : String} {v : Val}
    (hm : AllPosMap P m) (h : alookup k m = some v) : AllPos P v := by
  induction m with
  | nil => cases h
  | cons kv m ih =>
    obtain ⟨k', v'⟩ := kv
    unfold alookup at h
    split at h
    · cases h; exact hm.1
    · exact ih hm.2 h

theorem newHashMapLoop_allPos : ∀ (xs : List Val) (m r : List (String × Val)),
    AllPosList P xs → AllPosMap P m → Read.newHashMapLoop xs m = .ok r → AllPosMap P r
  | [], m, r, _, hm, h => by rw [Read.newHashMapLoop] at h; cases h; exact hm
  | [_], m, r, _, _, h => by
    simp [Read.newHashMapLoop] at h
  | a :: b :: rest, m, r, hx, hm, h => by
    unfold Read.newHashMapLoop at h
    split at h
    · cases h
      exact hm
    · rename_i k v r' m' heq
      injection heq with h1 h2; injection h2 with h2 h3; subst h1 h2 h3
      exact newHashMapLoop_allPos _ _ _ hx.2.2 (allPosMap_ainsert hm hx.2.1) h
    · cases h
    · cases h


theorem readAtom_allPos {t : Token} {v : Val} (hp : P (tokPos cfg t)) (h : readAtom cfg t = .ok v) :
    AllPos P v := by
  unfold readAtom at h
  simp only [] at h
  split at h
  · split at h <;> cases h; trivial
  · split at h <;> cases h; trivial
  · split at h
    · cases h
    · split at h <;> cases h; trivial
  · cases h; trivial
  · split at h <;> cases h; trivial
  · split at h
    · cases h; trivial
    · split at h
      · cases h; trivial
      · split at h
        · cases h; trivial
        · cases h; exact optAll_some.2 hp
  · cases h; exact optAll_some.2 hp

theorem shape_leaf_allPos {t : Token} {v : Val} (h : shape cfg t = .leaf (.ok v))
    (hp : P (tokPos cfg t)) (hphs : PhsAll P cfg) : AllPos P v := by
  unfold shape at h
  simp only [] at h
  cases hL : List.lookup (tokStr t) readerMacros with
  | some n => rw [hL] at h; cases h
  | none =>
    rw [hL] at h
    simp only [] at h
    by_cases h1 : tokStr t = "^"
    · rw [if_pos h1] at h; cases h
    rw [if_neg h1] at h
    iterate 8 (split at h; · cases h)
    split at h
    · split at h
      · injection h with h; injection h with h; subst h; exact optAll_some.2 hp
      · rename_i m hm
        injection h with h; injection h with h; subst h
        cases hl : alookup (tokStr t) m with
        | none => trivial
        | some w => exact allPosMap_alookup (hphs m hm) hl
    · injection h with h
      exact readAtom_allPos hp h

theorem shape_opn_allPos {t : Token} {closer : String} {k : List Val → Token → Except RErr Val}
    (h : shape cfg t = .opn closer k) {xs : List Val} {close : Token} {v : Val}
    (hx : AllPosList P xs) (hp : P (closePos (tokPos cfg t) (tokPos cfg close)))
    (hk : k xs close = .ok v) : AllPos P v := by
  unfold shape at h
  simp only [] at h
  cases hL : List.lookup (tokStr t) readerMacros with
  | some n => rw [hL] at h; cases h
  | none =>
    rw [hL] at h
    simp only [] at h
    by_cases h1 : tokStr t = "^"
    · rw [if_pos h1] at h; cases h
    rw [if_neg h1] at h
    split at h
    · cases h
    split at h
    · cases h
    split at h
    · cases h
    split at h
    · cases h; cases hk; exact ⟨optAll_some.2 hp, hx⟩
    split at h
    · cases h; cases hk; exact ⟨optAll_some.2 hp, hx⟩
    split at h
    · cases h
      simp only [] at hk
      cases hh : newHashMap xs [] with
      | error e => rw [hh] at hk; cases hk
      | ok m =>
        rw [hh] at hk; cases hk
        unfold newHashMap at hh
        split at hh
        · cases hh
        · exact newHashMapLoop_allPos _ [] _ hx trivial hh
    split at h
    · cases h
      simp only [] at hk
      cases hh : newSet xs [] with
      | error e => rw [hh] at hk; cases hk
      | ok m => rw [hh] at hk; cases hk; trivial
    split at h
    · cases h
      simp only [] at hk
      split at hk
      · cases hk
      · split at hk
        · cases hk
        · rename_i name _ args _
          cases he : externCall name args with
          | error e => rw [he] at hk; cases hk
          | ok w =>
            rw [he] at hk; cases hk
            unfold externCall at he
            repeat' split at he
            all_goals first | cases he | skip
            all_goals trivial
      · cases hk
    split at h <;> cases h

theorem mem_of_suffix {α} {ts pre rest : List α} (h : ts = pre ++ rest) : ∀ x ∈ rest, x ∈ ts :=
  fun _ ht => h ▸ List.mem_append_right _ ht

/-- every cursor in the AST returned by the reader is the cursor of a token of the input closed at a token
    of the input (or comes from the placeholder table) -/
theorem reader_allPos (hphs : PhsAll P cfg) : ∀ f,
    (∀ ts v rest, TokCur P cfg ts → readForm f cfg ts = .ok (v, rest) → AllPos P v) ∧
    (∀ closer ts acc xs close rest, TokCur P cfg ts → AllPosList P acc →
      readList f cfg closer ts acc = .ok (xs, close, rest) → AllPosList P xs) := by
  intro f
  induction f with
  | zero =>
    constructor
    · intro ts v rest _ h; rw [readForm_zero] at h; cases h
    · intro closer ts acc xs close rest _ _ h; rw [readList_zero] at h; cases h
  | succ f ih =>
    obtain ⟨ihF, ihL⟩ := ih
    constructor
    · intro ts v rest hts h
      cases ts with
      | nil => rw [readForm_nil] at h; cases h
      | cons t ts' =>
        have htl : TokCur P cfg ts' := tokCur_subset hts (fun x hx => List.mem_cons_of_mem _ hx)
        have hpt : P (tokPos cfg t) := tokCur_self hts (List.mem_cons_self ..)
        rw [readForm_cons] at h
        cases hs : shape cfg t with
        | rmacro name =>
          simp only [hs] at h
          cases hr : readForm f cfg ts' with
          | error e => simp [hr] at h
          | ok r =>
            obtain ⟨form, rest'⟩ := r
            simp only [hr, Except.ok.injEq, Prod.mk.injEq] at h
            obtain ⟨rfl, rfl⟩ := h
            exact ⟨optAll_some.2 hpt, optAll_some.2 hpt, ihF _ _ _ htl hr, trivial⟩
        | wmeta =>
          simp only [hs] at h
          cases hr : readForm f cfg ts' with
          | error e => simp [hr] at h
          | ok r =>
            obtain ⟨m, rest'⟩ := r
            simp only [hr] at h
            cases hr2 : readForm f cfg rest' with
            | error e => simp [hr2] at h
            | ok r2 =>
              obtain ⟨form, rest''⟩ := r2
              simp only [hr2, Except.ok.injEq, Prod.mk.injEq] at h
              obtain ⟨rfl, rfl⟩ := h
              obtain ⟨pre, _, hpre, _⟩ := readForm_local hr
              have h2 : TokCur P cfg rest' := tokCur_subset htl (mem_of_suffix hpre)
              exact ⟨optAll_some.2 hpt, optAll_some.2 hpt, ihF _ _ _ h2 hr2, ihF _ _ _ htl hr, trivial⟩
        | closer s => simp [hs] at h
        | opn closer k =>
          simp only [hs] at h
          cases hr : readList f cfg closer ts' [] with
          | error e => simp [hr] at h
          | ok r =>
            obtain ⟨xs, close, rest'⟩ := r
            simp only [hr] at h
            cases hk : k xs close with
            | error e => simp [hk] at h
            | ok v' =>
              simp only [hk, Except.ok.injEq, Prod.mk.injEq] at h
              obtain ⟨rfl, rfl⟩ := h
              obtain ⟨pre, hpre, _⟩ := readList_local hr
              have hc : close ∈ t :: ts' :=
                List.mem_cons_of_mem _ (mem_of_suffix hpre close (List.mem_cons_self ..))
              exact shape_opn_allPos hs (ihL _ _ [] _ _ _ htl trivial hr)
                (hts t (List.mem_cons_self ..) close hc) hk
        | leaf r =>
          simp only [hs] at h
          cases r with
          | error e => simp at h
          | ok v' =>
            simp only [Except.ok.injEq, Prod.mk.injEq] at h
            obtain ⟨rfl, rfl⟩ := h
            exact shape_leaf_allPos hs hpt hphs
    · intro closer ts acc xs close rest hts hacc h
      cases ts with
      | nil => rw [readList_nil] at h; cases h
      | cons t ts' =>
        rw [readList_cons] at h
        by_cases hc : tokStr t = closer
        · rw [if_pos hc] at h
          simp only [Except.ok.injEq, Prod.mk.injEq] at h
          obtain ⟨rfl, rfl, rfl⟩ := h
          rw [allPosList_iff] at hacc ⊢
          intro x hx; exact hacc x (List.mem_reverse.mp hx)
        · rw [if_neg hc] at h
          cases hr : readForm f cfg (t :: ts') with
          | error e => simp [hr] at h
          | ok r =>
            obtain ⟨v, rest'⟩ := r
            simp only [hr] at h
            obtain ⟨pre, _, hpre, _⟩ := readForm_local hr
            exact ihL _ _ (v :: acc) _ _ _ (tokCur_subset hts (mem_of_suffix hpre)) ⟨ihF _ _ _ hts hr, hacc⟩ h

theorem readForm_allPos (hphs : PhsAll P cfg) {f : Nat} {ts : List Token} {v : Val} {rest : List Token}
    (hts : TokCur P cfg ts) (h : readForm f cfg ts = .ok (v, rest)) : AllPos P v :=
  (reader_allPos hphs f).1 ts v rest hts h

end reader

/-- every cursor in the AST returned by `readStr {module := some m}` names the module `m` -/
theorem readStr_module {cfg : Cfg} {m : String} (hm : cfg.module = some m)
    (hphs : PhsAll (fun p => p.module = some m) cfg) {bytes : List UInt8} {v : Val}
    (h : readStr cfg bytes = .ok v) : AllPos (fun p => p.module = some m) v := by
  unfold readStr at h
  have hc : (if cfg.module.isNone then { cfg with module := modulePrefix bytes } else cfg) = cfg := by
    rw [hm]; rfl
  simp only [hc] at h
  split at h
  · cases h
  · cases h
  · rename_i toks _ _
    split at h
    · cases h
    · cases h
      rename_i heq
      exact readForm_allPos hphs (fun t _ c _ => hm) heq
    · cases h

/-- a symbol's cursor is the cursor of its token: both rows are the token's line -/
theorem readAtom_sym_pos {cfg : Cfg} {t : Token} {s : String} {o : Option Pos}
    (h : readAtom cfg t = .ok (.sym s o)) : o = some (tokPos cfg t) := by
  unfold readAtom at h
  simp only [] at h
  split at h
  · split at h <;> cases h
  · split at h <;> cases h
  · split at h
    · cases h
    · split at h <;> cases h
  · cases h
  · split at h <;> cases h
  · split at h
    · cases h
    · split at h
      · cases h
      · split at h
        · cases h
        · cases h; rfl
  · cases h; rfl

theorem readList_close {cfg : Cfg} : ∀ f closer ts acc xs close rest,
    readList f cfg closer ts acc = .ok (xs, close, rest) → tokStr close = closer := by
  intro f
  induction f with
  | zero => intro closer ts acc xs close rest h; rw [readList_zero] at h; cases h
  | succ f ih =>
    intro closer ts acc xs close rest h
    cases ts with
    | nil => rw [readList_nil] at h; cases h
    | cons t ts' =>
      rw [readList_cons] at h
      by_cases hc : tokStr t = closer
      · rw [if_pos hc] at h
        simp only [Except.ok.injEq, Prod.mk.injEq] at h
        obtain ⟨_, rfl, _⟩ := h
        exact hc
      · rw [if_neg hc] at h
        cases hr : readForm f cfg (t :: ts') with
        | error e => simp [hr] at h
        | ok r =>
          obtain ⟨v, rest'⟩ := r
          simp only [hr] at h
          exact ih _ _ _ _ _ _ h

theorem shape_paren (cfg : Cfg) (t : Token) (h : tokStr t = "(") :
    shape cfg t = .opn ")" (fun xs close => .ok (.list xs (some (closePos (tokPos cfg t) (tokPos cfg close))))) := by
  unfold shape
  have e : List.lookup "(" readerMacros = none := by decide
  simp [h, e]

theorem shape_bracket (cfg : Cfg) (t : Token) (h : tokStr t = "[") :
    shape cfg t = .opn "]" (fun xs close => .ok (.vec xs (some (closePos (tokPos cfg t) (tokPos cfg close))))) := by
  unfold shape
  have e : List.lookup "[" readerMacros = none := by decide
  simp [h, e]

/-- what `readForm` returns for a bracketed form, given the `shape` of its opening token -/
theorem readForm_opn {cfg : Cfg} {f : Nat} {t : Token} {ts rest : List Token} {v : Val} {closer : String}
    {mk : List Val → Token → Val}
    (hs : shape cfg t = .opn closer (fun xs close => .ok (mk xs close)))
    (h : readForm f cfg (t :: ts) = .ok (v, rest)) :
    ∃ xs close pre, v = mk xs close ∧ ts = pre ++ close :: rest ∧ tokStr close = closer ∧
      readForm f cfg (t :: (pre ++ [close])) = .ok (v, []) := by
  cases f with
  | zero => rw [readForm_zero] at h; cases h
  | succ f =>
    have h0 := h
    rw [readForm_cons] at h
    simp only [hs] at h
    cases hr : readList f cfg closer ts [] with
    | error e => simp [hr] at h
    | ok r =>
      obtain ⟨xs, close, rest'⟩ := r
      simp only [hr, Except.ok.injEq, Prod.mk.injEq] at h
      obtain ⟨rfl, rfl⟩ := h
      obtain ⟨pre, hpre, hx⟩ := readList_local hr
      refine ⟨xs, close, pre, rfl, hpre, readList_close _ _ _ _ _ _ _ hr, ?_⟩
      rw [readForm_cons]
      simp only [hs, hx []]


theorem phsAll_none {P : Pos → Prop} {cfg : Cfg} (h : cfg.phs = none) : PhsAll P cfg :=
  fun m hm => by rw [h] at hm; cases hm

/-- token lines are non-decreasing along the stream -/
def LinesMono (ts : List Token) : Prop := ts.Pairwise (fun a b => a.line ≤ b.line)

/-- every cursor of a bracketed form (its own and all inside it) lies between the line of the opening
    token and the line of the closing token -/
theorem bracketed_rows {cfg : Cfg} {f : Nat} {t : Token} {ts rest : List Token} {v : Val} {closer : String}
    {mk : List Val → Token → Val}
    (hs : shape cfg t = .opn closer (fun xs close => .ok (mk xs close)))
    (hphs : cfg.phs = none) (hmono : LinesMono (t :: ts))
    (h : readForm f cfg (t :: ts) = .ok (v, rest)) :
    ∃ xs close pre, v = mk xs close ∧ ts = pre ++ close :: rest ∧ tokStr close = closer ∧
      AllPos (fun p => (t.line : Int) ≤ p.beginRow ∧ p.row ≤ (close.line : Int)) v := by
  obtain ⟨xs, close, pre, hv, hts, hc, hr⟩ := readForm_opn hs h
  refine ⟨xs, close, pre, hv, hts, hc, ?_⟩
  refine readForm_allPos (phsAll_none hphs) ?_ hr
  subst hts
  unfold LinesMono at hmono
  rw [List.pairwise_cons] at hmono
  obtain ⟨h1, h2⟩ := hmono
  rw [List.pairwise_append] at h2
  obtain ⟨_, _, h4⟩ := h2
  have lo : ∀ a ∈ t :: (pre ++ [close]), t.line ≤ a.line := by
    intro a ha
    rcases List.mem_cons.mp ha with rfl | ha
    · exact Nat.le_refl _
    · refine h1 a ?_
      rcases List.mem_append.mp ha with ha | ha
      · exact List.mem_append_left _ ha
      · exact List.mem_append_right _ (by simp at ha; simp [ha])
  have hi : ∀ b ∈ t :: (pre ++ [close]), b.line ≤ close.line := by
    intro b hb
    rcases List.mem_cons.mp hb with rfl | hb
    · exact h1 close (List.mem_append_right _ (List.mem_cons_self ..))
    · rcases List.mem_append.mp hb with hb | hb
      · exact h4 b hb close (List.mem_cons_self ..)
      · simp at hb; subst hb; exact Nat.le_refl _
  intro a ha b hb
  exact ⟨Int.ofNat_le.2 (lo a ha), Int.ofNat_le.2 (hi b hb)⟩

end LispModel.Proofs.Positions

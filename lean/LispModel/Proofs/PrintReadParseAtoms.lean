/-
  C06, reader level: `readForm` on the token of a printed atom gives the atom back.  Core Lean only.
-/
import LispModel.Proofs.PrintReadTokenize
import LispModel.Proofs.PrintReadParse
import LispModel.Proofs.PrintReadParseInt
namespace LispModel.Proofs.PrintRead
open LispModel LispModel.Scan LispModel.Read LispModel.Print LispModel.Proofs.Reader

theorem map_ofNat_toNat (l : List Char) : (l.map Char.toNat).map Char.ofNat = l := by
  induction l with
  | nil => rfl
  | cons a l ih => rw [List.map_cons, List.map_cons, Char.ofNat_toNat, ih]

theorem tokStr_of_text {t : Token} {l : List Char} (h : t.text = l.map Char.toNat) : tokStr t = String.ofList l := by
  simp only [tokStr, strOf, h, map_ofNat_toNat]

/-! ### which spellings are reader syntax -/

theorem ne_of_head {s : String} {c : Char} {r : List Char} (h : s.toList = c :: r) (L : String) (c0 : Char)
    (r0 : List Char) (hL : L.toList = c0 :: r0) (hne : c ≠ c0) : s ≠ L := by
  intro e
  rw [e, hL] at h
  injection h with h1 _
  exact hne h1.symm

/-- the first characters of the reader's syntax tokens -/
def specialHeads : List Char := ['\'', '`', '~', '@', '^', ')', ']', '}', '(', '[', '{', '#', '«']

theorem notSpecial_of_head {s : String} {c : Char} {r : List Char} (h : s.toList = c :: r)
    (hc : c ∉ specialHeads) : NotSpecial s := by
  simp only [specialHeads, List.mem_cons, List.not_mem_nil, or_false, not_or] at hc
  obtain ⟨a1, a2, a3, a4, a5, a6, a7, a8, a9, a10, a11, a12, a13⟩ := hc
  exact ⟨ne_of_head h "'" '\'' [] (by decide) a1, ne_of_head h "`" '`' [] (by decide) a2,
    ne_of_head h "~" '~' [] (by decide) a3, ne_of_head h "~@" '~' ['@'] (by decide) a3,
    ne_of_head h "@" '@' [] (by decide) a4, ne_of_head h "^" '^' [] (by decide) a5,
    ne_of_head h ")" ')' [] (by decide) a6, ne_of_head h "]" ']' [] (by decide) a7,
    ne_of_head h "}" '}' [] (by decide) a8, ne_of_head h "(" '(' [] (by decide) a9,
    ne_of_head h "[" '[' [] (by decide) a10, ne_of_head h "{" '{' [] (by decide) a11,
    ne_of_head h "#{" '#' ['{'] (by decide) a12, ne_of_head h "«" '«' [] (by decide) a13⟩

/-- a leaf token read as one complete form -/
theorem reads_leaf {cfg : Cfg} (hphs : cfg.phs = none) {t : Token} (hs : NotSpecial (tokStr t)) {v : Val}
    (hv : (if t.text.head? = some 36 then .ok (.sym (tokStr t) (some (tokPos cfg t))) else readAtom cfg t) = .ok v) :
    Reads cfg [t] v ∧ FirstOk [t] := by
  refine ⟨⟨1, fun rest => ?_⟩, ⟨t, [], rfl, hs.2.2.2.2.2.2.1, hs.2.2.2.2.2.2.2.1, hs.2.2.2.2.2.2.2.2.1⟩⟩
  exact readForm_leaf hphs hs 0 rest v hv

/-! ### constants -/

theorem ktOf_eq {t : Token} {k : Kind} {x : List Nat} (h : ktOf t = (k, x)) : t.kind = k ∧ t.text = x := by
  simpa [ktOf] using h

theorem reads_const (cfg : Cfg) (hphs : cfg.phs = none) (t : Token) (l : List Char) (v : Val)
    (hk : t.kind = .ident) (ht : t.text = l.map Char.toNat) (c : Char) (r : List Char) (hl : l = c :: r)
    (hc : c ∉ specialHeads) (h36 : c ≠ '$')
    (hv : ∀ pos, (if String.ofList l = "nil" then Except.ok Val.nil
        else if String.ofList l = "true" then .ok (.bool true)
        else if String.ofList l = "false" then .ok (.bool false)
        else .ok (.sym (String.ofList l) pos) : Except RErr Val) = .ok v) :
    Reads cfg [t] v ∧ FirstOk [t] := by
  have hs : tokStr t = String.ofList l := tokStr_of_text ht
  have hns : NotSpecial (tokStr t) := by
    rw [hs]; exact notSpecial_of_head (by rw [String.toList_ofList, hl]) hc
  refine reads_leaf hphs hns ?_
  have hh : ¬ t.text.head? = some 36 := by
    rw [ht, hl]
    simp only [List.map_cons, List.head?_cons, Option.some.injEq]
    intro h
    apply h36
    rw [← Char.ofNat_toNat c, h]
  rw [if_neg hh]
  unfold readAtom
  simp only [hk, ht, map_ofNat_toNat]
  exact hv _

theorem reads_nil (cfg : Cfg) (hphs : cfg.phs = none) (t : Token) (h : ktOf t = (.ident, [110, 105, 108])) :
    Reads cfg [t] .nil ∧ FirstOk [t] := by
  obtain ⟨hk, ht⟩ := ktOf_eq h
  exact reads_const cfg hphs t ['n', 'i', 'l'] .nil hk (by rw [ht]; rfl) 'n' _ rfl (by decide) (by decide)
    (fun _ => by rw [if_pos (by decide)])

theorem reads_true (cfg : Cfg) (hphs : cfg.phs = none) (t : Token) (h : ktOf t = (.ident, [116, 114, 117, 101])) :
    Reads cfg [t] (.bool true) ∧ FirstOk [t] := by
  obtain ⟨hk, ht⟩ := ktOf_eq h
  exact reads_const cfg hphs t ['t', 'r', 'u', 'e'] (.bool true) hk (by rw [ht]; rfl) 't' _ rfl (by decide)
    (by decide) (fun _ => by rw [if_neg (by decide), if_pos (by decide)])

theorem reads_false (cfg : Cfg) (hphs : cfg.phs = none) (t : Token)
    (h : ktOf t = (.ident, [102, 97, 108, 115, 101])) :
    Reads cfg [t] (.bool false) ∧ FirstOk [t] := by
  obtain ⟨hk, ht⟩ := ktOf_eq h
  exact reads_const cfg hphs t ['f', 'a', 'l', 's', 'e'] (.bool false) hk (by rw [ht]; rfl) 'f' _ rfl (by decide)
    (by decide) (fun _ => by rw [if_neg (by decide), if_neg (by decide), if_pos (by decide)])

/-! ### integers -/

theorem dig_head : ∀ k, k < 10 → Char.ofNat (48 + k) ∉ specialHeads ∧ Char.ofNat (48 + k) ≠ '$' := by decide

theorem intStr_head (i : Int) : ∃ c r, intStr i = c :: r ∧ c ∉ specialHeads ∧ c ≠ '$' := by
  cases i with
  | ofNat n =>
    obtain ⟨c, r, hcr, ⟨k, hk, rfl⟩, _⟩ := natDigits_shape (n + 1) n (by omega)
    exact ⟨_, r, by simp [intStr, hcr], dig_head k hk⟩
  | negSucc n => exact ⟨'-', _, rfl, by decide, by decide⟩

theorem reads_int (cfg : Cfg) (hphs : cfg.phs = none) (i : Int)
    (hi : -9223372036854775808 ≤ i ∧ i ≤ 9223372036854775807) (t : Token)
    (h : ktOf t = (.int, (intStr i).map Char.toNat)) :
    Reads cfg [t] (.int i) ∧ FirstOk [t] := by
  obtain ⟨hk, ht⟩ := ktOf_eq h
  obtain ⟨c, r, hcr, hc, h36⟩ := intStr_head i
  have hs : tokStr t = String.ofList (intStr i) := tokStr_of_text ht
  have hns : NotSpecial (tokStr t) := by
    rw [hs]; exact notSpecial_of_head (by rw [String.toList_ofList, hcr]) hc
  refine reads_leaf hphs hns ?_
  have hh : ¬ t.text.head? = some 36 := by
    rw [ht, hcr]
    simp only [List.map_cons, List.head?_cons, Option.some.injEq]
    intro h
    apply h36
    rw [← Char.ofNat_toNat c, h]
  rw [if_neg hh]
  unfold readAtom
  simp only [hk, ht, map_ofNat_toNat, parseInt_intStr i hi]

/-! ### strings and keywords -/

theorem reads_str (cfg : Cfg) (hphs : cfg.phs = none) (s : String) (hkw : Val.isKwStr s = false) (t : Token)
    (h : ktOf t = strTok s) : Reads cfg [t] (.str s) ∧ FirstOk [t] := by
  have e : strTok s = (if isRawStr s then .rawString else .string, (prString true s).map Char.toNat) := by
    simp only [strTok, hkw, Bool.false_eq_true, if_false]
  rw [e] at h
  obtain ⟨hk, ht⟩ := ktOf_eq h
  have htext : t.text.map Char.ofNat = prString true s := by rw [ht, map_ofNat_toNat]
  have hkind : t.kind = if ['{', '"'].isPrefixOf s.toList ∧ s.toList.getLast? = some '}' then .rawString
      else .string := by
    rw [hk]
    by_cases hr : isRawStr s = true
    · rw [if_pos hr, if_pos ((isRawStr_iff s).mp hr)]
    · rw [if_neg hr, if_neg (fun h => hr ((isRawStr_iff s).mpr h))]
  obtain ⟨s', hs', hl⟩ := RoundTrip.read_printed_string_token cfg s t hkw htext hkind
  have hss : s' = s := String.toList_inj.mp hl
  rw [hss] at hs'
  -- the head character
  have hhead : ∃ c r, prString true s = c :: r ∧ c ∉ specialHeads ∧ c ≠ '$' := by
    by_cases hr : isRawStr s = true
    · exact ⟨'¬', _, prString_raw hkw hr, by decide, by decide⟩
    · exact ⟨'"', _, ScanString.prString_quoted s hkw (fun h => hr ((isRawStr_iff s).mpr h)), by decide, by decide⟩
  obtain ⟨c, r, hcr, hc, h36⟩ := hhead
  have hs : tokStr t = String.ofList (prString true s) := tokStr_of_text ht
  have hns : NotSpecial (tokStr t) := by
    rw [hs]; exact notSpecial_of_head (by rw [String.toList_ofList, hcr]) hc
  refine reads_leaf hphs hns ?_
  have hh : ¬ t.text.head? = some 36 := by
    rw [ht, hcr]
    simp only [List.map_cons, List.head?_cons, Option.some.injEq]
    intro h
    apply h36
    rw [← Char.ofNat_toNat c, h]
  rw [if_neg hh]
  exact hs'

theorem reads_kw (cfg : Cfg) (hphs : cfg.phs = none) (s : String) (hr : readableKw s = true) (t : Token)
    (h : ktOf t = strTok s) : Reads cfg [t] (.str s) ∧ FirstOk [t] := by
  obtain ⟨name, t0, hs, ht0, hk0, htx0⟩ := readableKw_spec hr
  have e : strTok s = (t0.kind, t0.text) := by
    simp only [strTok, isKwStr_of hs, if_true]
    exact kwTok_eq hs ht0
  rw [e] at h
  obtain ⟨hk, ht⟩ := ktOf_eq h
  have hts : tokStr t = String.ofList (':' :: name) := by
    rw [← htx0]; simp only [tokStr, ht]
  have htl : t.text.map Char.ofNat = ':' :: name := by
    rw [← tokStr_toList, hts, String.toList_ofList]
  have hns : NotSpecial (tokStr t) := by
    rw [hts]; exact notSpecial_of_head (by rw [String.toList_ofList]) (by decide)
  refine reads_leaf hphs hns ?_
  have hh : ¬ t.text.head? = some 36 := by
    intro h36
    cases hx : t.text with
    | nil => rw [hx] at htl; cases htl
    | cons x xs =>
      rw [hx] at htl h36
      simp only [List.head?_cons, Option.some.injEq] at h36
      subst h36
      simp only [List.map_cons, List.cons.injEq] at htl
      exact absurd htl.1 (by decide)
  rw [if_neg hh]
  unfold readAtom
  simp only [hk, hk0, htl, List.drop_succ_cons, List.drop_zero]
  rw [← hs, String.ofList_toList]

/-! ### symbols -/

/-- `readableSym` on the characters, in a form the kernel can evaluate -/
def readableSymL (cs : List Char) : Bool :=
  match tokenizeRunes (runesOf cs) with
  | .ok [t] =>
    tokStr t == String.ofList cs &&
    (match t.kind with
     | .ident => String.ofList cs != "nil" && String.ofList cs != "true" && String.ofList cs != "false" &&
        String.ofList cs != "~@" && String.ofList cs != "#{"
     | .char c => !(['\'', '`', '~', '^', '@', '(', ')', '[', ']', '{', '}', '«', '»'].contains (Char.ofNat c))
     | _ => false)
  | _ => false

theorem readableSym_eq (s : String) : readableSym s = readableSymL s.toList := by
  unfold readableSym readableSymL
  rw [tokensOfString_eq, String.ofList_toList]
  rfl

theorem readableSym_lit (L : String) (h : readableSymL L.toList = false) {s : String} (hs : readableSym s = true) :
    s ≠ L := by
  intro e
  rw [e, readableSym_eq, h] at hs
  cases hs

set_option maxRecDepth 100000 in
theorem notSpecial_of_readableSym {s : String} (h : readableSym s = true) : NotSpecial s :=
  ⟨readableSym_lit "'" (by decide) h, readableSym_lit "`" (by decide) h, readableSym_lit "~" (by decide) h,
   readableSym_lit "~@" (by decide) h, readableSym_lit "@" (by decide) h, readableSym_lit "^" (by decide) h,
   readableSym_lit ")" (by decide) h, readableSym_lit "]" (by decide) h, readableSym_lit "}" (by decide) h,
   readableSym_lit "(" (by decide) h, readableSym_lit "[" (by decide) h, readableSym_lit "{" (by decide) h,
   readableSym_lit "#{" (by decide) h, readableSym_lit "«" (by decide) h⟩

theorem reads_sym (cfg : Cfg) (hphs : cfg.phs = none) (s : String) (hr : readableSym s = true) (t : Token)
    (h : ktOf t = symTok s) : ∃ pos, Reads cfg [t] (.sym s pos) ∧ FirstOk [t] := by
  obtain ⟨t0, ht0, hs0, hk0⟩ := readableSym_spec hr
  rw [symTok_eq ht0] at h
  obtain ⟨hk, ht⟩ := ktOf_eq h
  have hts : tokStr t = s := by rw [← hs0]; simp only [tokStr, ht]
  have hns : NotSpecial (tokStr t) := by rw [hts]; exact notSpecial_of_readableSym hr
  refine ⟨some (tokPos cfg t), reads_leaf hphs hns ?_⟩
  by_cases hh : t.text.head? = some 36
  · rw [if_pos hh, hts]
  · rw [if_neg hh]
    have e : String.ofList (t.text.map Char.ofNat) = s := hts
    unfold readAtom
    rcases hk0 with ⟨hki, n1, n2, n3⟩ | ⟨c, hkc⟩
    · simp only [hk, hki, e, if_neg n1, if_neg n2, if_neg n3]
    · simp only [hk, hkc, e]

end LispModel.Proofs.PrintRead

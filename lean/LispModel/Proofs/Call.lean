/-
  Proofs for C20 (Props/C20.lean): the model of lib/call (LispModel/Call.lean) against the contract
  (LispModel/Spec/CallContract.lean).
-/
import LispModel.Call
import LispModel.Spec.CallContract
namespace LispModel.Proofs.Call
open LispModel LispModel.Call LispModel.CallSpec

/-! ### characters and names -/

theorem toLower_eq_dot (c : Char) (h : c.toLower = '.') : c = '.' := by
  unfold Char.toLower at h
  split at h
  · next hh =>
    exfalso
    have h2 := congrArg Char.val h
    simp only at h2
    obtain ⟨h4, h5⟩ := hh
    rw [ge_iff_le, UInt32.le_iff_toNat_le] at h4
    rw [UInt32.le_iff_toNat_le] at h5
    have h6 := congrArg UInt32.toNat h2
    rw [UInt32.toNat_add] at h6
    simp at h6 h4 h5
    omega
  · exact h

theorem lower_append (a b : List Char) : lower (a ++ b) = lower a ++ lower b := by
  simp [lower]

theorem lower_dot_cons (s : List Char) : lower ('.' :: s) = '.' :: lower s := by
  simp [lower]; decide

theorem dot_not_mem_lower {s : List Char} (h : '.' ∉ s) : '.' ∉ lower s := by
  intro hm
  simp only [lower, List.mem_map] at hm
  obtain ⟨c, hc, he⟩ := hm
  exact h (toLower_eq_dot c he ▸ hc)

theorem dot_mem_lower {s : List Char} (h : '.' ∈ s) : '.' ∈ lower s := by
  simp only [lower, List.mem_map]
  exact ⟨'.', h, by decide⟩

theorem lastIndexDot_absent {s : List Char} (h : '.' ∉ s) : lastIndexDot s = -1 := by
  induction s with
  | nil => rfl
  | cons c r ih =>
    have hr : '.' ∉ r := fun hm => h (List.mem_cons_of_mem _ hm)
    have hc : c ≠ '.' := fun e => h (e ▸ List.mem_cons_self)
    simp [lastIndexDot, ih hr, hc]

theorem lastIndexDot_range (l : List Char) : -1 ≤ lastIndexDot l ∧ lastIndexDot l < l.length := by
  induction l with
  | nil => simp [lastIndexDot]
  | cons c r ih =>
    simp only [lastIndexDot, List.length_cons]
    split
    · omega
    · split <;> omega

theorem lastIndexDot_split (p s : List Char) (h : '.' ∉ s) : lastIndexDot (p ++ '.' :: s) = p.length := by
  induction p with
  | nil => simp [lastIndexDot, lastIndexDot_absent h]
  | cons c r ih =>
    simp only [List.cons_append, lastIndexDot, ih, List.length_cons]
    have : (0 : Int) ≤ r.length := by omega
    simp [this]

theorem lastIndexDot_present {l : List Char} (h : '.' ∈ l) : 0 ≤ lastIndexDot l := by
  induction l with
  | nil => cases h
  | cons c r ih =>
    simp only [lastIndexDot]
    split
    · omega
    · next hk =>
      have hc : c = '.' := by
        rcases List.mem_cons.1 h with e | hm
        · exact e.symm
        · exact absurd (ih hm) hk
      simp [hc]

theorem sliceTo_split (p s : List Char) : sliceTo (p ++ '.' :: s) p.length = some p := by
  have : (p.length : Int) ≤ (p.length : Int) + (s.length + 1) := by omega
  simp [sliceTo, this]

theorem sliceFrom_split (p s : List Char) : sliceFrom (p ++ '.' :: s) ((p.length : Int) + 1) = some s := by
  have h1 : (0 : Int) ≤ (p.length : Int) + 1 := by omega
  have h3 : ((p.length : Int) + 1).toNat = p.length + 1 := by omega
  simp [sliceFrom, h1, h3]

theorem sliceTo_isSome_of_present {l : List Char} (h : '.' ∈ l) : (sliceTo l (lastIndexDot l)).isSome = true := by
  have h0 := lastIndexDot_present h
  have h1 := (lastIndexDot_range l).2
  have : lastIndexDot l ≤ l.length := by omega
  simp [sliceTo, h0, this]

theorem sliceTo_absent {l : List Char} (h : '.' ∉ l) : sliceTo l (lastIndexDot l) = none := by
  simp [sliceTo, lastIndexDot_absent h]

theorem lower_runtime (g : GoName) : lower g.runtime = lower g.qual ++ '.' :: lower g.simple := by
  simp [GoName.runtime, GoName.qual, lower_append, lower_dot_cons]

/-- the name derivation on a runtime name `<qualified prefix>.<identifier>` -/
theorem deriveNames_runtime (ov : Option (List Char)) (g : GoName) (h : g.WellFormed) :
    deriveNames ov g.runtime =
      match ov with
      | none =>
        some ⟨hyphenate (lower g.simple), lower g.qual,
              lower g.qual ++ '[' :: hyphenate (lower g.simple) ++ [']']⟩
      | some o =>
        match sliceTo (lower g.qual) (lastIndexDot (lower g.qual)) with
        | none => none
        | some p => some ⟨o, lower g.qual, p ++ '[' :: o ++ [']']⟩ := by
  have hs : '.' ∉ lower g.simple := dot_not_mem_lower h
  have hlen : (lower g.qual).length = (lower g.qual).length := rfl
  unfold deriveNames
  simp only [lower_runtime, lastIndexDot_split _ _ hs, sliceTo_split, sliceFrom_split]
  cases ov <;> rfl

end LispModel.Proofs.Call

/-
  Proofs for C20 (Props/C20.lean): the model of lib/call (LispModel/Call.lean) against the contract
  (LispModel/Spec/CallContract.lean).
-/
import LispModel.Call
import LispModel.Spec.CallContract
namespace LispModel.Proofs.Call
open LispModel LispModel.Call LispModel.CallSpec

/-! ### characters and names -/

theorem toLower_eq_dot (c : Char) (h : c.toLower = '.') : c = '.' := by
  unfold Char.toLower at h
  split at h
  · next hh =>
    exfalso
    have h2 := congrArg Char.val h
    simp only at h2
    obtain ⟨h4, h5⟩ := hh
    rw [ge_iff_le, UInt32.le_iff_toNat_le] at h4
    rw [UInt32.le_iff_toNat_le] at h5
    have h6 := congrArg UInt32.toNat h2
    rw [UInt32.toNat_add] at h6
    simp at h6 h4 h5
    omega
  · exact h

theorem lower_append (a b : List Char) : lower (a ++ b) = lower a ++ lower b := by
  simp [lower]

theorem lower_dot_cons (s : List Char) : lower ('.' :: s) = '.' :: lower s := by
  simp [lower]

theorem dot_not_mem_lower {s : List Char} (h : '.' ∉ s) : '.' ∉ lower s := by
  intro hm
  simp only [lower, List.mem_map] at hm
  obtain ⟨c, hc, he⟩ := hm
  exact h (toLower_eq_dot c he ▸ hc)

theorem dot_mem_lower {s : List Char} (h : '.' ∈ s) : '.' ∈ lower s := by
  simp only [lower, List.mem_map]
  exact ⟨'.', h, by decide⟩

theorem lastIndexDot_absent {s : List Char} (h : '.' ∉ s) : lastIndexDot s = -1 := by
  induction s with
  | nil => rfl
  | cons c r ih =>
    have hr : '.' ∉ r := fun hm => h (List.mem_cons_of_mem _ hm)
    have hc : c ≠ '.' := fun e => h (e ▸ List.mem_cons_self)
    simp [lastIndexDot, ih hr, hc]

theorem lastIndexDot_range (l : List Char) : -1 ≤ lastIndexDot l ∧ lastIndexDot l < l.length := by
  induction l with
  | nil => simp [lastIndexDot]
  | cons c r ih =>
    simp only [lastIndexDot, List.length_cons]
    split
    · omega
    · split <;> omega

theorem lastIndexDot_split (p s : List Char) (h : '.' ∉ s) : lastIndexDot (p ++ '.' :: s) = p.length := by
  induction p with
  | nil => simp [lastIndexDot, lastIndexDot_absent h]
  | cons c r ih =>
    simp only [List.cons_append, lastIndexDot, ih, List.length_cons]
    have : (0 : Int) ≤ r.length := by omega
    simp [this]

theorem lastIndexDot_present {l : List Char} (h : '.' ∈ l) : 0 ≤ lastIndexDot l := by
  induction l with
  | nil => cases h
  | cons c r ih =>
    simp only [lastIndexDot]
    split
    · omega
    · next hk =>
      have hc : c = '.' := by
        rcases List.mem_cons.1 h with e | hm
        · exact e.symm
        · exact absurd (ih hm) hk
      simp [hc]

theorem sliceTo_split (p s : List Char) : sliceTo (p ++ '.' :: s) p.length = some p := by
  have : (p.length : Int) ≤ (p.length : Int) + (s.length + 1) := by omega
  simp [sliceTo, this]

theorem sliceFrom_split (p s : List Char) : sliceFrom (p ++ '.' :: s) ((p.length : Int) + 1) = some s := by
  have h1 : (0 : Int) ≤ (p.length : Int) + 1 := by omega
  have h3 : ((p.length : Int) + 1).toNat = p.length + 1 := by omega
  have h4 : (1 : Int) ≤ (s.length : Int) + 1 := by omega
  simp [sliceFrom, h1, h3, h4]

theorem sliceTo_isSome_of_present {l : List Char} (h : '.' ∈ l) : (sliceTo l (lastIndexDot l)).isSome = true := by
  have h0 := lastIndexDot_present h
  have h1 := (lastIndexDot_range l).2
  have : lastIndexDot l ≤ l.length := by omega
  simp [sliceTo, h0, this]

theorem sliceTo_absent {l : List Char} (h : '.' ∉ l) : sliceTo l (lastIndexDot l) = none := by
  simp [sliceTo, lastIndexDot_absent h]

theorem lower_runtime (g : GoName) : lower g.runtime = lower g.qual ++ '.' :: lower g.simple := by
  simp [GoName.runtime, GoName.qual, lower_append, lower_dot_cons]

/-- the name derivation on a runtime name `<qualified prefix>.<identifier>` -/
theorem deriveNames_runtime (ov : Option (List Char)) (g : GoName) (h : g.WellFormed) :
    deriveNames ov g.runtime =
      match ov with
      | none =>
        some ⟨hyphenate (lower g.simple), lower g.qual,
              lower g.qual ++ '[' :: hyphenate (lower g.simple) ++ [']']⟩
      | some o =>
        if 0 ≤ lastIndexDot (lower g.qual) then
          match sliceTo (lower g.qual) (lastIndexDot (lower g.qual)) with
          | none => none
          | some p => some ⟨o, lower g.qual, p ++ '[' :: o ++ [']']⟩
        else some ⟨o, lower g.qual, lower g.qual ++ '[' :: o ++ [']']⟩ := by
  have hs : '.' ∉ lower g.simple := dot_not_mem_lower h
  unfold deriveNames
  simp only [lower_runtime, lastIndexDot_split _ _ hs, sliceTo_split, sliceFrom_split]
  cases ov <;> rfl

/-! ### registration -/

theorem register_ok {ov : Option (List Char)} {rt : List Char} {σ : Sig} {decl : List Int} {reg : Reg}
    (h : register ov rt σ decl = .ok reg) :
    reg.sig = σ ∧ selectBounds σ decl = .ok (reg.minArgs, reg.maxArgs) ∧ σ.results ≤ 2 ∧
      deriveNames ov rt = some reg.names := by
  unfold register at h
  split at h
  · cases h
  · next names hn =>
    split at h
    · cases h
    · next mn mx hb =>
      split at h
      · cases h
      · next hr =>
        cases h
        exact ⟨rfl, hb, by omega, hn⟩

/-- the bounds `call()` stores for a valid declaration -/
theorem selectBounds_valid {σ : Sig} {decl : List Int} (hv : ValidDecl σ decl) :
    selectBounds σ decl = .ok
      (match decl with
       | [a] => (a, 1000)
       | [a, b] => (a, b)
       | _ => if σ.variadic.isSome then (0, 1000) else ((σ.fixed.length : Int), (σ.fixed.length : Int))) := by
  rcases decl with _ | ⟨a, _ | ⟨b, _ | ⟨c, r⟩⟩⟩
  · cases hvar : σ.variadic <;> cases hc : σ.ctx <;>
      simp [selectBounds, selectRaw, Sig.isVariadic, Sig.numIn, hvar, hc, unlimitedArgments]
    have h1 : (1 : Int) + (σ.fixed.length : Int) - 1 = σ.fixed.length := by omega
    have h2 : ¬ ((σ.fixed.length : Int) < 0) := by omega
    rw [h1, if_neg h2]
  · simp [ValidDecl, validDecl, unlimited] at hv
    obtain ⟨_, ⟨hvar, h0⟩, h1⟩ := hv
    have h1 := of_decide_eq_true h1
    simp only [selectBounds, selectRaw, Sig.isVariadic, hvar, unlimitedArgments]
    have h2 : ¬ (a > 1000) := by omega
    simp [h2, h0]
  · simp [ValidDecl, validDecl] at hv
    obtain ⟨_, ⟨hvar, h0⟩, h1⟩ := hv
    simp only [selectBounds, selectRaw, Sig.isVariadic, hvar]
    have h2 : ¬ (a > b) := by omega
    have h3 : ¬ (a < 0 ∨ b < 0) := by omega
    simp [h2, h3]
  · simp [ValidDecl, validDecl] at hv

/-! ### reflect's checks = "every argument is assignable to its parameter" -/

theorem assignable_eq (v : Val) (p : PKind) : assignable v p = assignableTo v p := by
  cases p with
  | iface => rfl
  | typed t => cases v <;> simp [assignable, assignableTo, isNil]

/-- `reflect.Value.Call`'s checks with the context parameter subtracted on both sides -/
def reflectCheck' (fixed : List PKind) (variadic : Option PKind) (args : List Val) : Option ReflectPanic :=
  if args.length < fixed.length then some .tooFew
  else if variadic.isNone && decide (args.length > fixed.length) then some .tooMany
  else
    match checkFixed fixed args with
    | some p => some p
    | none =>
      match variadic with
      | some elem => checkVariadic elem (args.drop fixed.length)
      | none => none

theorem reflectCheck_eq (σ : Sig) (args : List Val) :
    reflectCheck σ args = reflectCheck' σ.fixed σ.variadic args := by
  unfold reflectCheck reflectCheck' Sig.numIn Sig.isVariadic
  cases hc : σ.ctx <;> cases hv : σ.variadic <;> simp <;> rfl

theorem checkVariadic_none (e : PKind) (as : List Val) :
    checkVariadic e as = none ↔ as.all (assignable · e) = true := by
  induction as with
  | nil => simp [checkVariadic]
  | cons a r ih =>
    simp only [checkVariadic, List.all_cons, Bool.and_eq_true, assignable_eq]
    cases h : assignableTo a e
    · simp
    · simpa [assignable_eq] using ih

theorem reflectCheck'_cons_ok {p : PKind} {a : Val} (h : assignableTo a p = true) (ps : List PKind)
    (v : Option PKind) (as : List Val) :
    reflectCheck' (p :: ps) v (a :: as) = reflectCheck' ps v as := by
  simp [reflectCheck', checkFixed, h]

theorem reflectCheck'_cons_bad {p : PKind} {a : Val} (h : assignableTo a p = false) (ps : List PKind)
    (v : Option PKind) (as : List Val) :
    reflectCheck' (p :: ps) v (a :: as) ≠ none := by
  simp only [reflectCheck', checkFixed, h]
  split
  · simp
  · split <;> simp

theorem reflectCheck'_none (fixed : List PKind) (v : Option PKind) (args : List Val) :
    reflectCheck' fixed v args = none ↔ argsFit fixed v args = true := by
  induction fixed generalizing args with
  | nil =>
    cases v with
    | none => cases args <;> simp [reflectCheck', checkFixed, argsFit]
    | some e =>
      have := checkVariadic_none e args
      cases args <;> simpa [reflectCheck', checkFixed, argsFit] using this
  | cons p ps ih =>
    cases args with
    | nil => simp [reflectCheck', argsFit]
    | cons a as =>
      cases h : assignableTo a p
      · have := reflectCheck'_cons_bad h ps v as
        simp [argsFit, assignable_eq, h, this]
      · rw [reflectCheck'_cons_ok h]
        simp [argsFit, assignable_eq, h, ih]

theorem reflectCheck_none (σ : Sig) (args : List Val) :
    reflectCheck σ args = none ↔ argsFit σ.fixed σ.variadic args = true := by
  rw [reflectCheck_eq, reflectCheck'_none]

theorem argsFit_length {fixed : List PKind} {v : Option PKind} {as : List Val}
    (h : argsFit fixed v as = true) : fixed.length ≤ as.length ∧ (v = none → as.length = fixed.length) := by
  induction fixed generalizing as with
  | nil =>
    cases v with
    | none => cases as <;> simp_all [argsFit]
    | some e => simp
  | cons p ps ih =>
    cases as with
    | nil => simp [argsFit] at h
    | cons a r =>
      simp only [argsFit, Bool.and_eq_true] at h
      have := ih h.2
      simp only [List.length_cons]
      exact ⟨by omega, fun hv => by have := this.2 hv; omega⟩

theorem argsFit_arityFit {σ : Sig} {as : List Val} (h : argsFit σ.fixed σ.variadic as = true) :
    arityFit σ as.length = true := by
  have := argsFit_length h
  cases hv : σ.variadic
  · simp [arityFit, hv, this.2 hv]
  · simp [arityFit, hv, this.1]

/-- which kind of panic reflect raises -/
theorem checkFixed_isType {ps : List PKind} {as : List Val} {p : ReflectPanic}
    (h : checkFixed ps as = some p) : p.isCount = false := by
  induction ps generalizing as with
  | nil => simp [checkFixed] at h
  | cons q qs ih =>
    cases as with
    | nil => simp [checkFixed] at h
    | cons a r =>
      simp only [checkFixed] at h
      split at h
      · exact ih h
      · cases h; rfl

theorem checkVariadic_isType {e : PKind} {as : List Val} {p : ReflectPanic}
    (h : checkVariadic e as = some p) : p.isCount = false := by
  induction as with
  | nil => simp [checkVariadic] at h
  | cons a r ih =>
    simp only [checkVariadic] at h
    split at h
    · exact ih h
    · cases h; rfl

theorem reflectCheck_class {σ : Sig} {as : List Val} {p : ReflectPanic} (h : reflectCheck σ as = some p) :
    p.isCount = !arityFit σ as.length := by
  rw [reflectCheck_eq] at h
  unfold reflectCheck' at h
  split at h
  · next hlt =>
    cases h
    have : ¬ σ.fixed.length ≤ as.length := by omega
    simp [ReflectPanic.isCount, arityFit, this]
  · next hge =>
    split at h
    · next hm =>
      cases h
      simp only [Bool.and_eq_true, decide_eq_true_eq, Option.isNone_iff_eq_none] at hm
      have : ¬ as.length ≤ σ.fixed.length := by omega
      simp [ReflectPanic.isCount, arityFit, hm.1, this]
    · next hm =>
      have hfit : arityFit σ as.length = true := by
        simp only [Bool.and_eq_true, decide_eq_true_eq, Option.isNone_iff_eq_none, not_and] at hm
        cases hv : σ.variadic
        · have := hm hv
          simp [arityFit, hv]; omega
        · simp [arityFit, hv]; omega
      rw [hfit]
      split at h
      · next q hq => cases h; exact checkFixed_isType hq
      · split at h
        · exact checkVariadic_isType h
        · cases h

/-! ### the call -/

theorem argsCheck_none (ctx : Bool) (mn mx : Int) (n : Nat) :
    argsCheck ctx mn mx n = none ↔ mn ≤ (n : Int) ∧ (n : Int) ≤ mx := by
  unfold argsCheck
  by_cases h : (n : Int) < mn ∨ (n : Int) > mx
  · rw [if_pos h]; exact ⟨fun e => (by cases e), fun e => (by omega)⟩
  · rw [if_neg h]; exact ⟨fun _ => (by omega), fun _ => rfl⟩

theorem isEntered_iff (reg : Reg) (as : List Val) (f : Callee) :
    (invoke reg as f).isEntered = true ↔
      argsCheck reg.sig.ctx reg.minArgs reg.maxArgs as.length = none ∧ reflectCheck reg.sig as = none := by
  unfold invoke
  simp only []
  split
  · next msg h => simp [Outcome.isEntered, h]
  · next h =>
    split
    · next p hp => split <;> simp [Outcome.isEntered, hp]
    · next hp => split <;> simp [Outcome.isEntered, h, hp]

/-- once the two checks pass, the outcome is `entered` with the caller's arguments -/
theorem invoke_entered {reg : Reg} {as : List Val} {f : Callee} (h : (invoke reg as f).isEntered = true) :
    invoke reg as f =
      match f as with
      | .ret v err => .entered reg.sig.ctx as (adapt reg.sig.results v err).1 (adapt reg.sig.results v err).2
      | .panicErr e => .entered reg.sig.ctx as .nil (some (.goError (String.ofList reg.names.fullName) e))
      | .panicVal v => .entered reg.sig.ctx as .nil (some (.lispError v)) := by
  obtain ⟨h1, h2⟩ := (isEntered_iff reg as f).1 h
  unfold invoke
  simp only [h1, h2]
  cases f as <;> rfl

/-- the count test of the code against the bounds of the contract -/
theorem count_agrees {σ : Sig} {decl : List Int} {as : List Val} {mn mx : Int}
    (hv : ValidDecl σ decl) (hb : selectBounds σ decl = .ok (mn, mx)) (hfit : arityFit σ as.length = true) :
    argsCheck σ.ctx mn mx as.length = none ↔ countOk σ decl as.length = true := by
  rw [selectBounds_valid hv] at hb
  rw [argsCheck_none]
  simp only [countOk, Bool.and_eq_true, decide_eq_true_eq]
  simp only [arityFit, Bool.and_eq_true, decide_eq_true_eq, Bool.or_eq_true] at hfit
  obtain ⟨hf1, hf2⟩ := hfit
  rcases decl with _ | ⟨a, _ | ⟨b, _ | ⟨c, r⟩⟩⟩
  · -- derived from the signature
    cases hvar : σ.variadic with
    | none =>
      simp only [hvar, Option.isSome_none, Bool.false_eq_true, if_false, Except.ok.injEq, Prod.mk.injEq] at hb
      obtain ⟨rfl, rfl⟩ := hb
      simp [bounds, hvar]
    | some e =>
      simp only [hvar, Option.isSome_some, if_true, Except.ok.injEq, Prod.mk.injEq] at hb
      obtain ⟨rfl, rfl⟩ := hb
      simp only [bounds, hvar, Option.isSome_some, if_true, unlimited]
      omega
  · simp only [Except.ok.injEq, Prod.mk.injEq] at hb
    obtain ⟨rfl, rfl⟩ := hb
    simp [bounds, unlimited]
  · simp only [Except.ok.injEq, Prod.mk.injEq] at hb
    obtain ⟨rfl, rfl⟩ := hb
    simp [bounds]
  · simp [ValidDecl, validDecl] at hv

/-! ### the contract theorems -/

theorem binder_contract {ov : Option (List Char)} {rt : List Char} {σ : Sig} {decl : List Int}
    {reg : Reg} (hreg : register ov rt σ decl = .ok reg) (hv : ValidDecl σ decl) (as : List Val) (f : Callee) :
    (invoke reg as f).isEntered = true ↔ Admissible σ decl as := by
  obtain ⟨hs, hb, _, _⟩ := register_ok hreg
  rw [isEntered_iff, hs, reflectCheck_none]
  unfold Admissible admissibleB
  rw [Bool.and_eq_true]
  constructor
  · rintro ⟨h1, h2⟩
    exact ⟨(count_agrees hv hb (argsFit_arityFit h2)).1 h1, h2⟩
  · rintro ⟨h1, h2⟩
    exact ⟨(count_agrees hv hb (argsFit_arityFit h2)).2 h1, h2⟩

/-- … and a call that is not admissible gets the class of error the contract names -/
theorem error_class {ov : Option (List Char)} {rt : List Char} {σ : Sig} {decl : List Int}
    {reg : Reg} (hreg : register ov rt σ decl = .ok reg) (hv : ValidDecl σ decl) (as : List Val) (f : Callee) :
    (expect σ decl as = .countError → ∃ e, invoke reg as f = .rejectedCount e ∧ ∀ g, e ≠ .raw g) ∧
    (expect σ decl as = .typeError → ∃ e, invoke reg as f = .rejectedType e ∧ ∀ g, e ≠ .raw g) := by
  obtain ⟨hs, hb, _, _⟩ := register_ok hreg
  have hadm := binder_contract hreg hv as f
  have hent := isEntered_iff reg as f
  rw [hs] at hent
  unfold expect
  constructor
  · intro he
    split at he
    · cases he
    · next hna =>
      split at he
      · cases he
      · next hc =>
        -- the count is outside the bounds, or no parameter list of this length exists
        unfold invoke
        simp only [hs]
        cases hac : argsCheck σ.ctx reg.minArgs reg.maxArgs as.length with
        | some msg => exact ⟨_, rfl, fun g h => by cases h⟩
        | none =>
          cases hrc : reflectCheck σ as with
          | none =>
            exact absurd (hadm.1 (hent.2 ⟨hac, hrc⟩)) hna
          | some p =>
            have hcls := reflectCheck_class hrc
            cases hfit : arityFit σ as.length with
            | false =>
              rw [hfit] at hcls
              simp only [Bool.not_false] at hcls
              simp only [hcls, if_true]
              exact ⟨_, rfl, fun g h => by cases h⟩
            | true =>
              exfalso
              apply hc
              rw [Bool.and_eq_true]
              exact ⟨(count_agrees hv hb hfit).1 hac, hfit⟩
  · intro he
    split at he
    · cases he
    · next hna =>
      split at he
      · next hc =>
        rw [Bool.and_eq_true] at hc
        obtain ⟨hcnt, hfit⟩ := hc
        have hac := (count_agrees hv hb hfit).2 hcnt
        unfold invoke
        simp only [hs, hac]
        cases hrc : reflectCheck σ as with
        | none => exact absurd (hadm.1 (hent.2 ⟨hac, hrc⟩)) hna
        | some p =>
          have hcls := reflectCheck_class hrc
          rw [hfit] at hcls
          simp only [Bool.not_true] at hcls
          simp only [hcls]
          exact ⟨_, rfl, fun g h => by cases h⟩
      · cases he

theorem args_passed_verbatim {reg : Reg} {as : List Val} {f : Callee} {c : Bool} {seen : List Val} {r : Val}
    {e : Option Err} (h : invoke reg as f = .entered c seen r e) : seen = as ∧ c = reg.sig.ctx := by
  have hent : (invoke reg as f).isEntered = true := by rw [h]; rfl
  rw [invoke_entered hent] at h
  cases hf : f as <;> rw [hf] at h <;> simp only [Outcome.entered.injEq] at h <;> exact ⟨h.2.1.symm, h.1.symm⟩

theorem result_mapping {reg : Reg} {as : List Val} {f : Callee} {v : Val} {err : Option GoErr}
    (h : (invoke reg as f).isEntered = true) (hf : f as = .ret v err) :
    (reg.sig.results = 0 → invoke reg as f = .entered reg.sig.ctx as .nil none) ∧
    (reg.sig.results = 1 → invoke reg as f = .entered reg.sig.ctx as .nil (err.map .raw)) ∧
    (reg.sig.results = 2 → invoke reg as f = .entered reg.sig.ctx as v (err.map .raw)) := by
  rw [invoke_entered h, hf]
  refine ⟨fun h0 => ?_, fun h1 => ?_, fun h2 => ?_⟩
  · simp [h0, adapt]
  · simp [h1, adapt]
  · simp [h2, adapt]

theorem panic_becomes_wrapping_error {reg : Reg} {as : List Val} {f : Callee}
    (h : (invoke reg as f).isEntered = true) :
    (∀ e, f as = .panicErr e →
      ∃ er, invoke reg as f = .entered reg.sig.ctx as .nil (some er) ∧ er.wrapsErr e = true ∧ ∀ g, er ≠ .raw g) ∧
    (∀ v, f as = .panicVal v → invoke reg as f = .entered reg.sig.ctx as .nil (some (.lispError v))) := by
  rw [invoke_entered h]
  constructor
  · intro e hf
    rw [hf]
    exact ⟨_, rfl, by simp [Err.wrapsErr], fun g hg => by cases hg⟩
  · intro v hf
    rw [hf]

theorem name_derivation {ov : Option (List Char)} {g : GoName} {σ : Sig} {decl : List Int} {reg : Reg}
    (hg : g.WellFormed) (hreg : register ov g.runtime σ decl = .ok reg) :
    reg.names.functionName = specName ov g := by
  obtain ⟨_, _, _, hn⟩ := register_ok hreg
  rw [deriveNames_runtime ov g hg] at hn
  cases ov with
  | none =>
    simp only [Option.some.injEq] at hn
    rw [← hn]
    rfl
  | some o =>
    simp only at hn
    split at hn
    · split at hn
      · cases hn
      · simp only [Option.some.injEq] at hn
        rw [← hn]
        rfl
    · simp only [Option.some.injEq] at hn
      rw [← hn]
      rfl

theorem deriveNames_isSome {ov : Option (List Char)} {g : GoName} (hg : g.WellFormed) :
    (deriveNames ov g.runtime).isSome = true := by
  rw [deriveNames_runtime ov g hg]
  cases ov with
  | none => rfl
  | some o =>
    simp only
    split
    · next h0 =>
      have h1 := (lastIndexDot_range (lower g.qual)).2
      have : lastIndexDot (lower g.qual) ≤ (lower g.qual).length := by omega
      simp [sliceTo, h0, this]
    · rfl

theorem registration_total {ov : Option (List Char)} {g : GoName} {σ : Sig} {decl : List Int}
    (hg : g.WellFormed) (hv : ValidDecl σ decl) : ∃ reg, register ov g.runtime σ decl = .ok reg := by
  have hn := deriveNames_isSome (ov := ov) hg
  have hb := selectBounds_valid hv
  have hr : ¬ σ.results > 2 := by
    simp only [ValidDecl, validDecl, Bool.and_eq_true, decide_eq_true_eq] at hv
    omega
  unfold register
  cases hd : deriveNames ov g.runtime with
  | none => rw [hd] at hn; cases hn
  | some names =>
    simp only [hb, hr, if_false]
    exact ⟨_, rfl⟩

end LispModel.Proofs.Call

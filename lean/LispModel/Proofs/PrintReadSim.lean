/-
  C06, scanner level: the scanner treats a delimiter (space, `)`, `]`, `}`) after a token exactly as
  it treats the end of the input.  `Sim d S s1 s2` relates a run on `R` (then EOF) with the run on
  `R ++ d :: S`: either both are at the same place inside `R` (`sync`), or the first has hit EOF and
  the second looks at the delimiter `d` (`done`).  Core Lean only.
-/
import LispModel.Scan
import LispModel.Proofs.Scanner
namespace LispModel.Proofs.PrintRead
open LispModel LispModel.Scan

/-- a delimiter the printer emits after an element: a well-encoded space, `)`, `]` or `}` -/
def IsDelim (d : Rune) : Prop := d.bad = false ∧ (d.ch = 32 ∨ d.ch = 41 ∨ d.ch = 93 ∨ d.ch = 125)

inductive Sim (d : Rune) (S : List Rune) : St → St → Prop
  | sync (ch : Int) (r : List Rune) (p1 p2 : PState) : 0 ≤ ch → p1.errs = p2.errs →
      Sim d S (ch, r, p1) (ch, r ++ d :: S, p2)
  | done (p1 p2 : PState) : p1.errs = p2.errs → Sim d S (EOF, [], p1) ((d.ch : Int), S, p2)

theorem next_cons_eq (r : Rune) (rs : List Rune) (p : PState) :
    ∃ q, next (r :: rs) p = ((r.ch : Int), rs, q) ∧
      q.errs = p.errs + (if r.bad = true ∨ r.ch = 0 then 1 else 0) := by
  unfold next
  simp only []
  by_cases h1 : r.bad = true
  · rw [if_pos h1]; exact ⟨_, rfl, by simp [h1]⟩
  · rw [if_neg h1]
    by_cases h2 : r.ch = 0
    · rw [if_pos h2]; exact ⟨_, by rw [h2]; rfl, by simp [h2]⟩
    · rw [if_neg h2]
      by_cases h3 : r.ch = 10
      · rw [if_pos h3]; exact ⟨_, by rw [h3]; rfl, by simp [h1, h2]⟩
      · rw [if_neg h3]; exact ⟨_, rfl, by simp [h1, h2]⟩

theorem next_delim {d : Rune} (hd : IsDelim d) (S : List Rune) (p : PState) :
    ∃ q, next (d :: S) p = ((d.ch : Int), S, q) ∧ q.errs = p.errs := by
  obtain ⟨q, h, he⟩ := next_cons_eq d S p
  refine ⟨q, h, ?_⟩
  have : ¬ (d.bad = true ∨ d.ch = 0) := by
    obtain ⟨hb, hc⟩ := hd
    rw [hb]; intro h; rcases h with h | h
    · cases h
    · omega
  rw [he, if_neg this]; rfl

theorem next_sim {d : Rune} (hd : IsDelim d) (S : List Rune) (r : List Rune) (p1 p2 : PState)
    (he : p1.errs = p2.errs) : Sim d S (next r p1) (next (r ++ d :: S) p2) := by
  cases r with
  | nil =>
    obtain ⟨q, h, hq⟩ := next_delim hd S p2
    rw [List.nil_append, h]
    exact Sim.done _ _ (by rw [hq]; exact he)
  | cons x xs =>
    obtain ⟨q1, h1, e1⟩ := next_cons_eq x xs p1
    obtain ⟨q2, h2, e2⟩ := next_cons_eq x (xs ++ d :: S) p2
    rw [List.cons_append, h1, h2]
    exact Sim.sync _ _ _ _ (Int.natCast_nonneg _) (by rw [e1, e2, he])

/-! ### what the scanner's tests say about a delimiter and about EOF -/

theorem delim_cases {d : Rune} (hd : IsDelim d) :
    (d.ch : Int) = 32 ∨ (d.ch : Int) = 41 ∨ (d.ch : Int) = 93 ∨ (d.ch : Int) = 125 := by
  obtain ⟨_, h | h | h | h⟩ := hd <;> rw [h] <;> simp

theorem delim_not_ident {d : Rune} (hd : IsDelim d) (i : Nat) : isIdentRune (d.ch : Int) i = false := by
  obtain ⟨_, h | h | h | h⟩ := hd <;> rw [h] <;> simp [isIdentRune, isLetter, isDigit]

theorem eof_not_ident (i : Nat) : isIdentRune EOF i = false := by
  simp [isIdentRune]

theorem identLoop_stop (r : List Rune) (ch : Int) (p : PState) (h : isIdentRune ch 1 = false) :
    identLoop r ch p = (ch, r, p) := by
  cases r <;> simp [identLoop, h]

theorem identLoop_sync {d : Rune} (hd : IsDelim d) (S : List Rune) :
    ∀ (r : List Rune) (ch : Int) (p1 p2 : PState), 0 ≤ ch → p1.errs = p2.errs →
      Sim d S (identLoop r ch p1) (identLoop (r ++ d :: S) ch p2) := by
  intro r
  induction r with
  | nil =>
    intro ch p1 p2 h0 he
    by_cases hi : isIdentRune ch 1 = true
    · obtain ⟨q, h, hq⟩ := next_delim hd S p2
      have e2 : identLoop ([] ++ d :: S) ch p2 = identLoop S (d.ch : Int) q := by
        simp only [List.nil_append, identLoop, hi, if_true, h]
      rw [e2, identLoop_stop _ _ _ (delim_not_ident hd 1)]
      have e1 : identLoop [] ch p1 = next [] p1 := by simp only [identLoop, hi, if_true]
      rw [e1]
      exact Sim.done _ _ (by rw [hq]; exact he)
    · have hi' : isIdentRune ch 1 = false := by simpa using hi
      rw [identLoop_stop _ _ _ hi', identLoop_stop _ _ _ hi']
      exact Sim.sync _ _ _ _ h0 he
  | cons x xs ih =>
    intro ch p1 p2 h0 he
    by_cases hi : isIdentRune ch 1 = true
    · obtain ⟨q1, h1, e1⟩ := next_cons_eq x xs p1
      obtain ⟨q2, h2, e2⟩ := next_cons_eq x (xs ++ d :: S) p2
      have a1 : identLoop (x :: xs) ch p1 = identLoop xs (x.ch : Int) q1 := by
        simp only [identLoop, hi, if_true, h1]
      have a2 : identLoop (x :: xs ++ d :: S) ch p2 = identLoop (xs ++ d :: S) (x.ch : Int) q2 := by
        simp only [List.cons_append, identLoop, hi, if_true, h2]
      rw [a1, a2]
      exact ih _ _ _ (Int.natCast_nonneg _) (by rw [e1, e2, he])
    · have hi' : isIdentRune ch 1 = false := by simpa using hi
      rw [identLoop_stop _ _ _ hi', identLoop_stop _ _ _ hi']
      exact Sim.sync _ _ _ _ h0 he

theorem identLoop_sim {d : Rune} (hd : IsDelim d) (S : List Rune) (s1 s2 : St) (h : Sim d S s1 s2) :
    Sim d S (identLoop s1.2.1 s1.1 s1.2.2) (identLoop s2.2.1 s2.1 s2.2.2) := by
  cases h with
  | sync ch r p1 p2 h0 he => exact identLoop_sync hd S r ch p1 p2 h0 he
  | done p1 p2 he =>
    simp only []
    rw [identLoop_stop _ _ _ (eof_not_ident 1), identLoop_stop _ _ _ (delim_not_ident hd 1)]
    exact Sim.done _ _ he

theorem scanIdentifier_sim {d : Rune} (hd : IsDelim d) (S : List Rune) (r : List Rune)
    (p1 p2 : PState) (he : p1.errs = p2.errs) :
    Sim d S (scanIdentifier r p1) (scanIdentifier (r ++ d :: S) p2) :=
  identLoop_sim hd S _ _ (next_sim hd S r p1 p2 he)

/-! ### `digitsLoop` -/

/-- the loop test of `digitsLoop` -/
def digTest (base : Nat) (ch : Int) : Bool := (if base ≤ 10 then isDecimal ch else isHex ch) || ch = 95

theorem delim_not_dig {d : Rune} (hd : IsDelim d) (base : Nat) : digTest base (d.ch : Int) = false := by
  unfold digTest
  obtain ⟨_, h | h | h | h⟩ := hd <;> rw [h] <;> split <;> decide

theorem eof_not_dig (base : Nat) : digTest base EOF = false := by
  unfold digTest; split <;> decide

theorem digitsLoop_stop (base : Nat) (r : List Rune) (ch : Int) (p : PState) (ds : Nat) (inv : Int)
    (h : digTest base ch = false) : digitsLoop base r ch p ds inv = ((ch, r, p), ds, inv) := by
  unfold digTest at h
  cases r <;> simp only [digitsLoop, h] <;> rfl

theorem digitsLoop_step (base : Nat) (x : Rune) (xs : List Rune) (ch : Int) (p : PState) (ds : Nat)
    (inv : Int) (h : digTest base ch = true) :
    digitsLoop base (x :: xs) ch p ds inv =
      digitsLoop base xs (next (x :: xs) p).1 (next (x :: xs) p).2.2 (ds ||| (if ch = 95 then 2 else 1))
        (if base ≤ 10 ∧ ch ≠ 95 ∧ ch ≥ 48 + base ∧ inv = 0 then ch else inv) := by
  unfold digTest at h
  rw [digitsLoop]
  simp only [h, if_true]

theorem digitsLoop_last (base : Nat) (ch : Int) (p : PState) (ds : Nat)
    (inv : Int) (h : digTest base ch = true) :
    digitsLoop base [] ch p ds inv =
      (next [] p, (ds ||| (if ch = 95 then 2 else 1)),
        (if base ≤ 10 ∧ ch ≠ 95 ∧ ch ≥ 48 + base ∧ inv = 0 then ch else inv)) := by
  unfold digTest at h
  rw [digitsLoop]
  simp only [h, if_true]

theorem digitsLoop_sync {d : Rune} (hd : IsDelim d) (S : List Rune) (base : Nat) :
    ∀ (r : List Rune) (ch : Int) (p1 p2 : PState) (ds : Nat) (inv : Int), 0 ≤ ch → p1.errs = p2.errs →
      Sim d S (digitsLoop base r ch p1 ds inv).1 (digitsLoop base (r ++ d :: S) ch p2 ds inv).1 ∧
      (digitsLoop base r ch p1 ds inv).2 = (digitsLoop base (r ++ d :: S) ch p2 ds inv).2 := by
  intro r
  induction r with
  | nil =>
    intro ch p1 p2 ds inv h0 he
    by_cases hi : digTest base ch = true
    · obtain ⟨q, h, hq⟩ := next_delim hd S p2
      rw [List.nil_append, digitsLoop_step _ _ _ _ _ _ _ hi, digitsLoop_last _ _ _ _ _ hi, h]
      simp only []
      rw [digitsLoop_stop _ _ _ _ _ _ (delim_not_dig hd base)]
      exact ⟨Sim.done _ _ (by rw [hq]; exact he), rfl⟩
    · have hi' : digTest base ch = false := by simpa using hi
      rw [digitsLoop_stop _ _ _ _ _ _ hi', digitsLoop_stop _ _ _ _ _ _ hi']
      exact ⟨Sim.sync _ _ _ _ h0 he, rfl⟩
  | cons x xs ih =>
    intro ch p1 p2 ds inv h0 he
    by_cases hi : digTest base ch = true
    · obtain ⟨q1, h1, e1⟩ := next_cons_eq x xs p1
      obtain ⟨q2, h2, e2⟩ := next_cons_eq x (xs ++ d :: S) p2
      rw [List.cons_append, digitsLoop_step _ _ _ _ _ _ _ hi, digitsLoop_step _ _ _ _ _ _ _ hi, h1, h2]
      exact ih _ _ _ _ _ (Int.natCast_nonneg _) (by rw [e1, e2, he])
    · have hi' : digTest base ch = false := by simpa using hi
      rw [digitsLoop_stop _ _ _ _ _ _ hi', digitsLoop_stop _ _ _ _ _ _ hi']
      exact ⟨Sim.sync _ _ _ _ h0 he, rfl⟩

theorem digitsLoop_sim {d : Rune} (hd : IsDelim d) (S : List Rune) (base : Nat) (s1 s2 : St)
    (ds : Nat) (inv : Int) (h : Sim d S s1 s2) :
    Sim d S (digitsLoop base s1.2.1 s1.1 s1.2.2 ds inv).1 (digitsLoop base s2.2.1 s2.1 s2.2.2 ds inv).1 ∧
    (digitsLoop base s1.2.1 s1.1 s1.2.2 ds inv).2 = (digitsLoop base s2.2.1 s2.1 s2.2.2 ds inv).2 := by
  cases h with
  | sync ch r p1 p2 h0 he => exact digitsLoop_sync hd S base r ch p1 p2 ds inv h0 he
  | done p1 p2 he =>
    simp only []
    rw [digitsLoop_stop _ _ _ _ _ _ (eof_not_dig base), digitsLoop_stop _ _ _ _ _ _ (delim_not_dig hd base)]
    exact ⟨Sim.done _ _ he, rfl⟩

end LispModel.Proofs.PrintRead

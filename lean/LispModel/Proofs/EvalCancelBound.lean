/-
  C07, the closed form: a run that is cancelled IN THE MIDDLE.

  §1  the observer `obs F`: computed alongside the evaluation (it re-runs the functions of the block for the
      intermediate states and follows their control flow), it returns the CUT of the run — the state in which
      the first poll that reported "done" was performed, together with the stack of `try` forms that were live
      at that moment (innermost first; `true` = the form has a `finally` clause);
  §2  the invariant `Inv` and its composition lemmas;
  §3  the induction over the thirteen functions;
  §4  the theorems used by Props/C07.lean.

  Debugger off (`stepper = none`) throughout.  All times are poll ticks.
-/
import LispModel.Proofs.EvalCancel
namespace LispModel.Proofs.EvalCancelBound
open LispModel LispModel.Core LispModel.Proofs.EvalCancel

/-! ## §1 the observer -/

/-- the cut of a run: state at the first cancelled poll, `try` forms live at that moment -/
abbrev Cut := Option (State × List Bool)

/-- sequencing: the cut of `run1; run2` where `run2` happens only when `run1` returned a value -/
def andThen {α} (c : Cut) (r : Res α × State) (k : α → State → Cut) : Cut :=
  match c with
  | some x => some x
  | none =>
    match r with
    | (.ok a, st) => k a st
    | _ => none

/-- one observer per function of the block (at some fuel) -/
structure Obs where
  eval : List Bool → State → Nat → Val → Nat → Cut
  evalLoop : List Bool → State → Nat → Val → Nat → Cut
  evalAst : List Bool → State → Nat → Val → Nat → Cut
  evalList : List Bool → State → Nat → List Val → Nat → Cut
  evalMap : List Bool → State → Nat → List (String × Val) → Nat → Cut
  doForms : List Bool → State → Nat → List Val → Nat → Bool → Nat → Cut
  letBinds : List Bool → State → Nat → List Val → Val → Nat → Cut
  macroexpand : List Bool → State → Nat → Val → Nat → Cut
  apply : List Bool → State → Val → List Val → Nat → Cut
  mapLoop : List Bool → State → Val → List Val → Nat → Cut
  updateIn : List Bool → State → Val → List Val → Val → Nat → Cut
  update1 : List Bool → State → Val → Val → Val → Nat → Cut
  callBuiltin : List Bool → State → String → List Val → Nat → Cut

def Obs.zero : Obs :=
  ⟨fun _ _ _ _ _ => none, fun _ _ _ _ _ => none, fun _ _ _ _ _ => none, fun _ _ _ _ _ => none,
   fun _ _ _ _ _ => none, fun _ _ _ _ _ _ _ => none, fun _ _ _ _ _ _ => none, fun _ _ _ _ _ => none,
   fun _ _ _ _ _ => none, fun _ _ _ _ _ => none, fun _ _ _ _ _ _ => none, fun _ _ _ _ _ _ => none,
   fun _ _ _ _ _ => none⟩

/-- the macro call `macroexpand` sees in `ast`, if any: parameters, body, closure scope, operands -/
def macroCall (st : State) (env : Nat) (ast : Val) : Option (Val × Val × Nat × List Val) :=
  match ast with
  | .list (.sym s _ :: args) _ =>
    (match st.get env s with
     | some (.fn params body fenv true _) => some (params, body, fenv, args)
     | _ => none)
  | _ => none

theorem macroexpand_shape (F st env ast d) :
    macroexpand (F + 1) st env ast d =
      match macroCall st env ast with
      | none => (.ok ast, st)
      | some (params, body, fenv, args) =>
        match bindParams params args with
        | .error e => (.err e, st)
        | .ok data =>
          match eval F (st.newScope fenv data).1 (st.newScope fenv data).2 body (d + 1) with
          | (.ok ast', st) => macroexpand F st env ast' d
          | r => r := by
  unfold macroCall
  cases ast
  case list xs pos =>
    cases xs with
    | nil => rw [macroexpand.eq_def]
    | cons a0 args =>
      cases a0
      case sym s p =>
        rw [macroexpand]
        dsimp only
        cases st.get env s with
        | none => rfl
        | some v =>
          cases v <;> try rfl
          case fn ps b e m q => cases m <;> rfl
      all_goals (rw [macroexpand.eq_def])
  all_goals (rw [macroexpand.eq_def])

/-- the branch `_updateIn` descends into -/
def uiBranch (v i : Val) : Option Val :=
  match v, i with
  | .map m, .str k => some (match (alookup k m).getD .nil with | .nil => .map [] | b => b)
  | .vec xs _, .int n => if 0 ≤ n ∧ n.toNat < xs.length then some (match xs.getD n.toNat .nil with | .nil => .vec [] none | b => b) else none
  | _, _ => none

def uiSame (v b : Val) : Bool :=
  match v, b with | .map _, .map _ => true | .vec _ _, .vec _ _ => true | _, _ => false

section arms
variable (o : Obs) (F : Nat)

def oEvalAst (k : List Bool) (st : State) (env : Nat) (ast : Val) (d : Nat) : Cut :=
  match ast with
  | .list xs _ => o.evalList k st env xs d
  | .vec xs _ => o.evalList k st env xs d
  | .map kvs => o.evalMap k st env kvs d
  | _ => none

def oEvalList (k : List Bool) (st : State) (env : Nat) (xs : List Val) (d : Nat) : Cut :=
  match xs with
  | [] => none
  | x :: xs => andThen (o.eval k st env x (d + 1)) (eval F st env x (d + 1)) fun _ st => o.evalList k st env xs d

def oEvalMap (k : List Bool) (st : State) (env : Nat) (xs : List (String × Val)) (d : Nat) : Cut :=
  match xs with
  | [] => none
  | (_, x) :: r => andThen (o.eval k st env x (d + 1)) (eval F st env x (d + 1)) fun _ st => o.evalMap k st env r d

def oDoForms (k : List Bool) (st : State) (env : Nat) (lst : List Val) (fr : Nat) (kl : Bool) (d : Nat) : Cut :=
  if lst.length ≤ fr then none
  else o.evalList k st env (if kl then (lst.drop fr).dropLast else lst.drop fr) d

def oLetBinds (k : List Bool) (st : State) (letEnv : Nat) (bs : List Val) (a1 : Val) (d : Nat) : Cut :=
  match bs with
  | .sym name _ :: x :: rest =>
    andThen (o.eval k st letEnv x (d + 1)) (eval F st letEnv x (d + 1)) fun v st =>
      o.letBinds k (st.set letEnv name v) letEnv rest a1 d
  | _ => none

def oMacroexpand (k : List Bool) (st : State) (env : Nat) (ast : Val) (d : Nat) : Cut :=
  match macroCall st env ast with
  | none => none
  | some (params, body, fenv, args) =>
    match bindParams params args with
    | .error _ => none
    | .ok data =>
      andThen (o.eval k (st.newScope fenv data).1 (st.newScope fenv data).2 body (d + 1))
        (eval F (st.newScope fenv data).1 (st.newScope fenv data).2 body (d + 1)) fun ast' st =>
          o.macroexpand k st env ast' d

def oApply (k : List Bool) (st : State) (f : Val) (args : List Val) (d : Nat) : Cut :=
  match f with
  | .fn params body fenv _ _ =>
    (match bindParams params args with
     | .error _ => none
     | .ok data => o.eval k (st.newScope fenv data).1 (st.newScope fenv data).2 body (d + 1))
  | .builtin name => o.callBuiltin k st name args d
  | _ => none

def oMapLoop (k : List Bool) (st : State) (f : Val) (xs : List Val) (d : Nat) : Cut :=
  match xs with
  | [] => none
  | x :: xs => andThen (o.apply k st f [x] d) (apply F st f [x] d) fun _ st => o.mapLoop k st f xs d

def oUpdateIn (k : List Bool) (st : State) (v : Val) (path : List Val) (f : Val) (d : Nat) : Cut :=
  match path with
  | [] => none
  | [i] => o.update1 k st v i f d
  | i :: j :: rest =>
    match uiBranch v i with
    | none => none
    | some b => if !uiSame v b then none else o.updateIn k st b (j :: rest) f d

def oUpdate1 (k : List Bool) (st : State) (v : Val) (i : Val) (f : Val) (d : Nat) : Cut :=
  match v with
  | .map m =>
    (match i with
     | .str key => o.apply k st f [(alookup key m).getD .nil] d
     | _ => none)
  | .vec xs _ =>
    (match i with
     | .int n => if 0 ≤ n ∧ n.toNat < xs.length then o.apply k st f [xs.getD n.toNat .nil] d else none
     | _ => none)
  | _ => none

def oCallBuiltin (k : List Bool) (st : State) (name : String) (args : List Val) (d : Nat) : Cut :=
  if name = "eval" then
    (match args with
     | [a] => o.eval k st 0 a (d + 1)
     | _ => none)
  else if name = "apply" then
    (match args with
     | f :: rest =>
       (match rest.getLast? with
        | none => none
        | some last =>
          match seqOf? last with
          | none => none
          | some tail => o.apply k st f (rest.dropLast ++ tail) d)
     | [] => none)
  else if name = "map" then
    (match args with
     | [f, s] =>
       (match seqOf? s with
        | none => none
        | some xs => o.mapLoop k st f xs d)
     | _ => none)
  else if name = "swap!" then
    (match args with
     | .atom id :: f :: extra => o.apply k st f (st.atoms.getD id .nil :: extra) d
     | _ => none)
  else if name = "update" then
    (match args with
     | [.nil, _, _] => none
     | [v, i, f] => o.update1 k st v i f d
     | _ => none)
  else if name = "update-in" then
    (match args with
     | [v, .vec path _, f] => (match v with | .nil => none | _ => o.updateIn k st v path f d)
     | _ => none)
  else none

/-! the arms of the loop (debugger off: `continue` is the next iteration) -/

def oLetArm (k : List Bool) (st : State) (env : Nat) (lst : List Val) (a1 : Val) (d : Nat) : Cut :=
  match seqOf? a1 with
  | none => none
  | some arr1 =>
    if arr1.length % 2 ≠ 0 then none
    else
      andThen (o.letBinds k (st.newScope env []).1 (st.newScope env []).2 arr1 a1 d)
        (letBinds F (st.newScope env []).1 (st.newScope env []).2 arr1 a1 d) fun _ st1 =>
      andThen (o.doForms k st1 (st.newScope env []).2 lst 2 true d)
        (doForms F st1 (st.newScope env []).2 lst 2 true d) fun next st2 =>
      o.evalLoop k st2 (st.newScope env []).2 next d

/-- cut of the handler stage, given the result of the body -/
def oHandler (k : List Bool) (parts : TryParts) (env d : Nat) (rb : R) : Cut :=
  match rb with
  | (.err e, s1) =>
    (match parts.catchDo, parts.catchBind with
     | some handler, some bind =>
       (match bindParams (.list [bind] none) [caughtValue e] with
        | .error _ => none
        | .ok data => o.doForms k (s1.newScope env data).1 (s1.newScope env data).2 handler 0 false d)
     | _, _ => none)
  | _ => none

/-- cut of the finally stage, given the result of body + handler -/
def oFinally (k : List Bool) (parts : TryParts) (env d : Nat) (rh : R) : Cut :=
  match rh with
  | (.oof, _) => none
  | (_, s2) =>
    match parts.finallyDo with
    | none => none
    | some fin => o.doForms k s2 env fin 0 false d

/-- the three stages of a try form run with this form pushed on the stack of live try forms -/
def oTryArm (k : List Bool) (st : State) (env : Nat) (parts : TryParts) (d : Nat) : Cut :=
  let k' := parts.finallyDo.isSome :: k
  let rb := doForms F st env parts.body 0 false d
  let rh := handlerStage F parts env d rb
  ((o.doForms k' st env parts.body 0 false d).orElse fun _ => oHandler o k' parts env d rb).orElse fun _ =>
    oFinally o k' parts env d rh

def oTryForm (k : List Bool) (st : State) (env : Nat) (lst operands : List Val) (d : Nat) : Cut :=
  if operands.isEmpty then none else
  match splitTry lst with
  | .error _ => none
  | .ok parts => oTryArm o F k st env parts d

def oDoArm (k : List Bool) (st : State) (env : Nat) (lst : List Val) (d : Nat) : Cut :=
  andThen (o.doForms k st env lst 1 true d) (doForms F st env lst 1 true d) fun next st => o.evalLoop k st env next d

def oIfArm (k : List Bool) (st : State) (env : Nat) (lst : List Val) (a1 a2 : Val) (d : Nat) : Cut :=
  andThen (o.eval k st env a1 (d + 1)) (eval F st env a1 (d + 1)) fun cond st =>
    if truthy cond then o.evalLoop k st env a2 d
    else if lst.length ≥ 4 then o.evalLoop k st env (lst.getD 3 .nil) d
    else none

def oCallArm (k : List Bool) (st : State) (el : List Val) (d : Nat) : Cut :=
  match el with
  | [] => none
  | f :: args =>
    match f with
    | .fn params body fenv _ _ =>
      (match bindParams params args with
       | .error _ => none
       | .ok data => o.evalLoop k (st.newScope fenv data).1 (st.newScope fenv data).2 body d)
    | .builtin name => o.callBuiltin k st name args d
    | _ => none

def oAppArm (k : List Bool) (st : State) (env : Nat) (lst : List Val) (d : Nat) : Cut :=
  andThen (o.evalList k st env lst d) (evalList F st env lst d) fun el st => oCallArm o k st el d

def oDispatch (k : List Bool) (st : State) (env : Nat) (a0 : Val) (operands : List Val) (d : Nat) : Cut :=
  let lst := a0 :: operands
  let a1 := operands.getD 0 .nil
  let a2 := operands.getD 1 .nil
  let a0sym := match a0 with | .sym s _ => s | _ => "__<*fn>__"
  if a0sym = "def" then o.eval k st env a2 (d + 1)
  else if a0sym = "let" then oLetArm o F k st env lst a1 d
  else if a0sym = "quote" then none
  else if a0sym = "quasiquoteexpand" then none
  else if a0sym = "quasiquote" then o.evalLoop k st env (quasiquote a1) d
  else if a0sym = "defmacro" then o.eval k st env a2 (d + 1)
  else if a0sym = "macroexpand" then o.macroexpand k st env a1 d
  else if a0sym = "try" then oTryForm o F k st env lst operands d
  else if a0sym = "do" then oDoArm o F k st env lst d
  else if a0sym = "if" then oIfArm o F k st env lst a1 a2 d
  else if a0sym = "fn" then none
  else oAppArm o F k st env lst d

def oAfterExpand (k : List Bool) (st : State) (env : Nat) (ast : Val) (d : Nat) : Cut :=
  match ast with
  | .list [] _ => none
  | .list (a0 :: operands) _ => oDispatch o F k st env a0 operands d
  | _ => o.evalAst k st env ast d

def oLiveBody (k : List Bool) (st : State) (env : Nat) (ast : Val) (d : Nat) : Cut :=
  match ast with
  | .list _ _ =>
    andThen (o.macroexpand k st env ast d) (macroexpand F st env ast d) fun ast st => oAfterExpand o F k st env ast d
  | _ => o.evalAst k st env ast d

/-- one iteration of the loop: the poll that reports "done" IS the cut -/
def oLoopBody (k : List Bool) (st : State) (env : Nat) (ast : Val) (d : Nat) : Cut :=
  if st.poll.1 then some (st, k) else oLiveBody o F k st.poll.2 env ast d

end arms

/-- the observers at fuel `F` -/
def obs : Nat → Obs
  | 0 => Obs.zero
  | F + 1 =>
    let o := obs F
    { eval := o.evalLoop
      evalLoop := oLoopBody o F
      evalAst := oEvalAst o
      evalList := oEvalList o F
      evalMap := oEvalMap o F
      doForms := oDoForms o
      letBinds := oLetBinds o F
      macroexpand := oMacroexpand o F
      apply := oApply o
      mapLoop := oMapLoop o F
      updateIn := oUpdateIn o
      update1 := oUpdate1 o
      callBuiltin := oCallBuiltin o }

/-! ## §2 the invariant -/

def okB {α} : Res α → Bool
  | .ok _ => true
  | _ => false

/-- no observable effect between two states: same `trace!` effects, same `depth!` marks, same atom store -/
def Quiet (a b : State) : Prop := b.trace = a.trace ∧ b.marks = a.marks ∧ b.atoms = a.atoms

theorem Quiet.refl (a : State) : Quiet a a := ⟨rfl, rfl, rfl⟩
theorem Quiet.trans {a b c : State} (h1 : Quiet a b) (h2 : Quiet b c) : Quiet a c :=
  ⟨h2.1.trans h1.1, h2.2.1.trans h1.2.1, h2.2.2.trans h1.2.2⟩

/-- What a run that starts at poll count `ta` with `k` as the stack of live try forms, ends in state `b`
    (`ok` = it returned a value) and has cut `c` satisfies, when the context is cancelled from poll `n` on.
    `b.ticks + (if ok then 1 else 0)` is the potential: a run that comes back with a VALUE after the cut (a
    `finally` discarded the timeout) makes its caller poll once more. -/
structure Inv (n : Nat) (k : List Bool) (ta : Nat) (ok : Bool) (b : State) (c : Cut) : Prop where
  le : ta ≤ b.ticks
  none_le : c = none → b.ticks ≤ max ta n
  cut : ∀ sc stk, c = some (sc, stk) → sc.ticks = max ta n ∧ sc.ticks < b.ticks ∧
      ∃ ext, stk = ext ++ k ∧ (n < ta → ext = []) ∧
        b.ticks + (if ok then 1 else 0) ≤ max ta n + 1 + 2 * ext.length ∧
        ((∀ x ∈ ext, x = false) → ok = false ∧ Quiet sc b)

variable {n : Nat} {k : List Bool} {ta : Nat}

/-- a run without a poll -/
theorem Inv.noPoll {ok : Bool} {b : State} (hb : b.ticks = ta) : Inv n k ta ok b none :=
  ⟨by omega, fun _ => by omega, fun _ _ h => by cases h⟩

/-- the live poll in front of a run -/
theorem Inv.tick {ok : Bool} {b : State} {c : Cut} (hlt : ta < n) (h : Inv n k (ta + 1) ok b c) :
    Inv n k ta ok b c := by
  refine ⟨by have := h.le; omega, fun hc => by have := h.none_le hc; omega, fun sc stk hc => ?_⟩
  obtain ⟨h1, h2, ext, h3, h4, h5, h6⟩ := h.cut sc stk hc
  exact ⟨by omega, h2, ext, h3, fun hh => by omega, by omega, h6⟩

/-- after the cut (or when it started after the deadline) a run polls at most once, and not at all when it
    returns a value -/
theorem Inv.post {ok : Bool} {b : State} {c : Cut} (h : Inv n k ta ok b c) (hta : n < ta) :
    b.ticks + (if ok then 1 else 0) ≤ ta + 1 := by
  cases c with
  | none => have := h.none_le rfl; split <;> omega
  | some x =>
    obtain ⟨sc, stk⟩ := x
    obtain ⟨h1, h2, ext, h3, h4, h5, h6⟩ := h.cut sc stk rfl
    have := h4 hta; subst this
    simp at h5; omega

/-- `run1; run2` where `run1` returned a value -/
theorem Inv.seq {ok1 ok2 : Bool} {b1 b2 : State} {c1 c2 : Cut} (h1 : Inv n k ta ok1 b1 c1)
    (hok : ok1 = true) (h2 : Inv n k b1.ticks ok2 b2 c2) : Inv n k ta ok2 b2 (c1.orElse fun _ => c2) := by
  subst hok
  have l1 := h1.le
  have l2 := h2.le
  cases c1 with
  | none =>
    have m1 := h1.none_le rfl
    refine ⟨by omega, fun hc => ?_, fun sc stk hc => ?_⟩
    · have := h2.none_le (by simpa using hc); omega
    · obtain ⟨e1, e2, ext, e3, e4, e5, e6⟩ := h2.cut sc stk (by simpa using hc)
      exact ⟨by omega, e2, ext, e3, fun hh => e4 (by omega), by omega, e6⟩
  | some x =>
    obtain ⟨sc, stk⟩ := x
    obtain ⟨e1, e2, ext, e3, e4, e5, e6⟩ := h1.cut sc stk rfl
    have p := h2.post (by omega)
    refine ⟨by omega, fun hc => by simp at hc, fun sc' stk' hc => ?_⟩
    simp only [Option.orElse_some, Option.some.injEq, Prod.mk.injEq] at hc
    obtain ⟨rfl, rfl⟩ := hc
    refine ⟨e1, by omega, ext, e3, e4, ?_, fun hall => ?_⟩
    · simp at e5; omega
    · exact absurd (e6 hall).1 (by simp)

theorem andThen_ok {α} (c : Cut) (v : α) (st : State) (g : α → State → Cut) :
    andThen c (.ok v, st) g = c.orElse fun _ => g v st := by
  cases c <;> rfl

theorem andThen_err {α} (c : Cut) (e : Err) (st : State) (g : α → State → Cut) :
    andThen c (.err e, st) g = c := by
  cases c <;> rfl

theorem andThen_oof {α} (c : Cut) (st : State) (g : α → State → Cut) :
    andThen c (.oof, st) g = c := by
  cases c <;> rfl

theorem ite01_le (b : Bool) : (if b = true then 1 else 0) ≤ 1 := by cases b <;> simp

/-- the three stages of a try form (each run with the form pushed on the stack): body, handler (only after an
    error), finally (always); the value of the form is the pending one -/
theorem Inv.try3 {hf ok1 ok2 ok3 okf : Bool} {s1 s2 s3 : State} {c1 c2 c3 : Cut} (hta : ta ≤ n)
    (h1 : Inv n (hf :: k) ta ok1 s1 c1) (h2 : Inv n (hf :: k) s1.ticks ok2 s2 c2)
    (h3 : Inv n (hf :: k) s2.ticks ok3 s3 c3)
    (hH : ok1 = true → s2 = s1 ∧ ok2 = true) (hokf : okf = true → ok2 = true)
    (hB2 : hf = false → n < s1.ticks → ok1 = false → ok2 = false ∧ Quiet s1 s2)
    (hB3 : hf = false → s3 = s2 ∧ c3 = none) :
    Inv n k ta okf s3 ((c1.orElse fun _ => c2).orElse fun _ => c3) := by
  have l1 := h1.le
  have l2 := h2.le
  have l3 := h3.le
  have hokf' : (if okf = true then 1 else 0) ≤ (if ok2 = true then 1 else 0) := by
    cases okf <;> cases ok2 <;> simp_all
  have hext : ∀ ext : List Bool, ext ++ hf :: k = (ext ++ [hf]) ++ k := by intro ext; simp
  have hall : ∀ ext : List Bool, (∀ x ∈ ext ++ [hf], x = false) → hf = false ∧ ∀ x ∈ ext, x = false := by
    intro ext h
    exact ⟨h hf (by simp), fun x hx => h x (by simp [hx])⟩
  cases c1 with
  | some x =>
    obtain ⟨sc, stk⟩ := x
    obtain ⟨e1, e2, ext, e3, e4, e5, e6⟩ := h1.cut sc stk rfl
    have p2 := h2.post (by omega)
    have p3 := h3.post (by omega)
    have o3 := ite01_le ok3
    refine ⟨by omega, fun hc => by simp at hc, fun sc' stk' hc => ?_⟩
    simp only [Option.orElse_some, Option.some.injEq, Prod.mk.injEq] at hc
    obtain ⟨rfl, rfl⟩ := hc
    refine ⟨e1, by omega, ext ++ [hf], by rw [e3, hext], fun hh => by omega, ?_, fun ha => ?_⟩
    · have : s2.ticks + (if ok2 = true then 1 else 0) ≤ s1.ticks + (if ok1 = true then 1 else 0) + 1 := by
        cases ok1 with
        | true => obtain ⟨rfl, rfl⟩ := hH rfl; simp
        | false => simpa using p2
      simp only [List.length_append, List.length_cons, List.length_nil]
      omega
    · obtain ⟨hf0, hx⟩ := hall ext ha
      obtain ⟨q1, q2⟩ := e6 hx
      obtain ⟨q3, q4⟩ := hB2 hf0 (by omega) q1
      obtain ⟨q5, _⟩ := hB3 hf0
      refine ⟨?_, ?_⟩
      · cases okf with
        | false => rfl
        | true => rw [hokf rfl] at q3; cases q3
      · rw [q5]; exact q2.trans q4
  | none =>
    have m1 := h1.none_le rfl
    cases c2 with
    | some x =>
      obtain ⟨sc, stk⟩ := x
      obtain ⟨e1, e2, ext, e3, e4, e5, e6⟩ := h2.cut sc stk rfl
      have p3 := h3.post (by omega)
      have o3 := ite01_le ok3
      refine ⟨by omega, fun hc => by simp at hc, fun sc' stk' hc => ?_⟩
      simp only [Option.orElse_none, Option.orElse_some, Option.some.injEq, Prod.mk.injEq] at hc
      obtain ⟨rfl, rfl⟩ := hc
      refine ⟨by omega, by omega, ext ++ [hf], by rw [e3, hext], fun hh => by omega, ?_, fun ha => ?_⟩
      · simp only [List.length_append, List.length_cons, List.length_nil]
        omega
      · obtain ⟨hf0, hx⟩ := hall ext ha
        obtain ⟨q1, q2⟩ := e6 hx
        obtain ⟨q5, _⟩ := hB3 hf0
        refine ⟨?_, by rw [q5]; exact q2⟩
        cases okf with
        | false => rfl
        | true => rw [hokf rfl] at q1; cases q1
    | none =>
      have m2 := h2.none_le rfl
      cases c3 with
      | none =>
        have m3 := h3.none_le rfl
        exact ⟨by omega, fun _ => by omega, fun _ _ hc => by simp at hc⟩
      | some x =>
        obtain ⟨sc, stk⟩ := x
        obtain ⟨e1, e2, ext, e3, e4, e5, e6⟩ := h3.cut sc stk rfl
        have o3 := ite01_le okf
        refine ⟨by omega, fun hc => by simp at hc, fun sc' stk' hc => ?_⟩
        simp only [Option.orElse_none, Option.some.injEq, Prod.mk.injEq] at hc
        obtain ⟨rfl, rfl⟩ := hc
        refine ⟨by omega, by omega, ext ++ [hf], by rw [e3, hext], fun hh => by omega, ?_, fun ha => ?_⟩
        · simp only [List.length_append, List.length_cons, List.length_nil]
          omega
        · obtain ⟨hf0, _⟩ := hall ext ha
          exact absurd (hB3 hf0).2 (by simp)

/-! ## §3 the induction over the block -/

/-- standing conditions: the context is cancelled from poll `n` on, debugger off -/
def Good (n : Nat) (st : State) : Prop := st.cancelAt = some n ∧ st.stepper = none

theorem Good.frame {a b : State} (h : Good n a) (f : Frame a b) : Good n b :=
  ⟨by rw [f.2.1]; exact h.1, f.1 h.2⟩

theorem set_ticks (st : State) (env : Nat) (x : String) (v : Val) : (st.set env x v).ticks = st.ticks := by
  unfold State.set; split <;> rfl

theorem Good.set {a : State} (h : Good n a) (env : Nat) (x : String) (v : Val) : Good n (a.set env x v) := by
  unfold State.set; split <;> exact h

theorem Good.newScope {a : State} (h : Good n a) (o : Nat) (data) : Good n (a.newScope o data).1 := h

theorem Good.tick {a : State} (h : Good n a) : Good n (tick a) := h

/-- the invariant for every function of the block at fuel `F` -/
structure AllInv (n F : Nat) : Prop where
  eval : ∀ k st env ast d, Good n st →
    Inv n k st.ticks (okB (eval F st env ast d).1) (eval F st env ast d).2 ((obs F).eval k st env ast d)
  evalLoop : ∀ k st env ast d, Good n st →
    Inv n k st.ticks (okB (evalLoop F st env ast d).1) (evalLoop F st env ast d).2 ((obs F).evalLoop k st env ast d)
  evalAst : ∀ k st env ast d, Good n st →
    Inv n k st.ticks (okB (evalAst F st env ast d).1) (evalAst F st env ast d).2 ((obs F).evalAst k st env ast d)
  evalList : ∀ k st env xs d, Good n st →
    Inv n k st.ticks (okB (evalList F st env xs d).1) (evalList F st env xs d).2 ((obs F).evalList k st env xs d)
  evalMap : ∀ k st env xs d, Good n st →
    Inv n k st.ticks (okB (evalMap F st env xs d).1) (evalMap F st env xs d).2 ((obs F).evalMap k st env xs d)
  doForms : ∀ k st env lst fr kl d, Good n st →
    Inv n k st.ticks (okB (doForms F st env lst fr kl d).1) (doForms F st env lst fr kl d).2
      ((obs F).doForms k st env lst fr kl d)
  letBinds : ∀ k st env bs a1 d, Good n st →
    Inv n k st.ticks (okB (letBinds F st env bs a1 d).1) (letBinds F st env bs a1 d).2
      ((obs F).letBinds k st env bs a1 d)
  macroexpand : ∀ k st env ast d, Good n st →
    Inv n k st.ticks (okB (macroexpand F st env ast d).1) (macroexpand F st env ast d).2
      ((obs F).macroexpand k st env ast d)
  apply : ∀ k st f args d, Good n st →
    Inv n k st.ticks (okB (apply F st f args d).1) (apply F st f args d).2 ((obs F).apply k st f args d)
  mapLoop : ∀ k st f xs d, Good n st →
    Inv n k st.ticks (okB (mapLoop F st f xs d).1) (mapLoop F st f xs d).2 ((obs F).mapLoop k st f xs d)
  updateIn : ∀ k st v path f d, Good n st →
    Inv n k st.ticks (okB (updateIn F st v path f d).1) (updateIn F st v path f d).2
      ((obs F).updateIn k st v path f d)
  update1 : ∀ k st v i f d, Good n st →
    Inv n k st.ticks (okB (update1 F st v i f d).1) (update1 F st v i f d).2 ((obs F).update1 k st v i f d)
  callBuiltin : ∀ k st name args d, Good n st →
    Inv n k st.ticks (okB (callBuiltin F st name args d).1) (callBuiltin F st name args d).2
      ((obs F).callBuiltin k st name args d)

theorem allInv_zero : AllInv n 0 := by
  constructor <;> intros
  · rw [eval]; exact Inv.noPoll rfl
  · rw [evalLoop]; exact Inv.noPoll rfl
  · rw [evalAst]; exact Inv.noPoll rfl
  · rw [evalList]; exact Inv.noPoll rfl
  · rw [evalMap]; exact Inv.noPoll rfl
  · rw [doForms]; exact Inv.noPoll rfl
  · rw [letBinds]; exact Inv.noPoll rfl
  · rw [macroexpand]; exact Inv.noPoll rfl
  · rw [apply]; exact Inv.noPoll rfl
  · rw [mapLoop]; exact Inv.noPoll rfl
  · rw [updateIn]; exact Inv.noPoll rfl
  · rw [update1.eq_def]; exact Inv.noPoll rfl
  · rw [callBuiltin.eq_def]; exact Inv.noPoll rfl

section step
variable {F : Nat} (ih : AllInv n F)
include ih

theorem evalList_inv (k st env xs d) (hg : Good n st) :
    Inv n k st.ticks (okB (evalList (F + 1) st env xs d).1) (evalList (F + 1) st env xs d).2
      (oEvalList (obs F) F k st env xs d) := by
  cases xs with
  | nil => rw [evalList]; exact Inv.noPoll rfl
  | cons x xs =>
    rw [evalList]; simp only [oEvalList]
    have h1 := ih.eval k st env x (d + 1) hg
    have g1 : Good n (eval F st env x (d + 1)).2 := hg.frame ((frame F).eval pairEta)
    generalize eval F st env x (d + 1) = p at h1 g1 ⊢
    obtain ⟨r1, b1⟩ := p
    cases r1 with
    | ok v =>
      simp only [andThen_ok]
      refine Inv.seq h1 rfl ?_
      have h2 := ih.evalList k b1 env xs d g1
      generalize evalList F b1 env xs d = q at h2 ⊢
      obtain ⟨r2, b2⟩ := q
      cases r2 <;> exact h2
    | err e => simp only [andThen_err]; exact h1
    | oof => simp only [andThen_oof]; exact h1

theorem evalMap_inv (k st env xs d) (hg : Good n st) :
    Inv n k st.ticks (okB (evalMap (F + 1) st env xs d).1) (evalMap (F + 1) st env xs d).2
      (oEvalMap (obs F) F k st env xs d) := by
  cases xs with
  | nil => rw [evalMap]; exact Inv.noPoll rfl
  | cons kx xs =>
    obtain ⟨key, x⟩ := kx
    rw [evalMap]; simp only [oEvalMap]
    have h1 := ih.eval k st env x (d + 1) hg
    have g1 : Good n (eval F st env x (d + 1)).2 := hg.frame ((frame F).eval pairEta)
    generalize eval F st env x (d + 1) = p at h1 g1 ⊢
    obtain ⟨r1, b1⟩ := p
    cases r1 with
    | ok v =>
      simp only [andThen_ok]
      refine Inv.seq h1 rfl ?_
      have h2 := ih.evalMap k b1 env xs d g1
      generalize evalMap F b1 env xs d = q at h2 ⊢
      obtain ⟨r2, b2⟩ := q
      cases r2 <;> exact h2
    | err e => simp only [andThen_err]; exact h1
    | oof => simp only [andThen_oof]; exact h1

theorem mapLoop_inv (k st f xs d) (hg : Good n st) :
    Inv n k st.ticks (okB (mapLoop (F + 1) st f xs d).1) (mapLoop (F + 1) st f xs d).2
      (oMapLoop (obs F) F k st f xs d) := by
  cases xs with
  | nil => rw [mapLoop]; exact Inv.noPoll rfl
  | cons x xs =>
    rw [mapLoop]; simp only [oMapLoop]
    have h1 := ih.apply k st f [x] d hg
    have g1 : Good n (apply F st f [x] d).2 := hg.frame ((frame F).apply pairEta)
    generalize apply F st f [x] d = p at h1 g1 ⊢
    obtain ⟨r1, b1⟩ := p
    cases r1 with
    | ok v =>
      simp only [andThen_ok]
      refine Inv.seq h1 rfl ?_
      have h2 := ih.mapLoop k b1 f xs d g1
      generalize mapLoop F b1 f xs d = q at h2 ⊢
      obtain ⟨r2, b2⟩ := q
      cases r2 <;> exact h2
    | err e => simp only [andThen_err]; exact h1
    | oof => simp only [andThen_oof]; exact h1

omit ih in
/-- a sub-run whose result is passed on unchanged up to the value -/
theorem Inv.map_res {α β} {p : Res α × State} {q : Res β × State} {c : Cut}
    (h : Inv n k ta (okB p.1) p.2 c) (h2 : q.2 = p.2) (h1 : okB q.1 = okB p.1) :
    Inv n k ta (okB q.1) q.2 c := by
  rw [h1, h2]; exact h

theorem evalAst_inv (k st env ast d) (hg : Good n st) :
    Inv n k st.ticks (okB (evalAst (F + 1) st env ast d).1) (evalAst (F + 1) st env ast d).2
      (oEvalAst (obs F) k st env ast d) := by
  cases ast <;> simp only [evalAst, oEvalAst]
  case sym s p => split <;> exact Inv.noPoll rfl
  case list xs p =>
    have h1 := ih.evalList k st env xs d hg
    split <;> (rename_i h; rw [h] at h1; exact h1)
  case vec xs p =>
    have h1 := ih.evalList k st env xs d hg
    split <;> (rename_i h; rw [h] at h1; exact h1)
  case map kvs =>
    have h1 := ih.evalMap k st env kvs d hg
    split <;> (rename_i h; rw [h] at h1; exact h1)
  all_goals exact Inv.noPoll rfl

theorem doForms_inv (k st env lst fr kl d) (hg : Good n st) :
    Inv n k st.ticks (okB (doForms (F + 1) st env lst fr kl d).1) (doForms (F + 1) st env lst fr kl d).2
      (oDoForms (obs F) k st env lst fr kl d) := by
  rw [doForms_noStepper hg.2]; simp only [oDoForms]
  split
  · exact Inv.noPoll rfl
  · cases kl
    · have h1 := ih.evalList k st env (lst.drop fr) d hg
      simp only [Bool.false_eq_true, ↓reduceIte]
      split <;> (rename_i h; rw [h] at h1; exact h1)
    · have h1 := ih.evalList k st env (lst.drop fr).dropLast d hg
      simp only [↓reduceIte]
      split <;> (rename_i h; rw [h] at h1; exact h1)

theorem letBinds_inv (k st env bs a1 d) (hg : Good n st) :
    Inv n k st.ticks (okB (letBinds (F + 1) st env bs a1 d).1) (letBinds (F + 1) st env bs a1 d).2
      (oLetBinds (obs F) F k st env bs a1 d) := by
  match bs with
  | [] => rw [letBinds]; simp only [oLetBinds]; exact Inv.noPoll rfl
  | [_] => rw [letBinds]; simp only [oLetBinds]; exact Inv.noPoll rfl
  | b :: x :: rest =>
    cases b
    case sym name p =>
      rw [letBinds]; simp only [oLetBinds]
      have h1 := ih.eval k st env x (d + 1) hg
      have g1 : Good n (eval F st env x (d + 1)).2 := hg.frame ((frame F).eval pairEta)
      generalize eval F st env x (d + 1) = p at h1 g1 ⊢
      obtain ⟨r1, b1⟩ := p
      cases r1 with
      | ok v =>
        simp only [andThen_ok]
        have h2 := ih.letBinds k (b1.set env name v) env rest a1 d (g1.set _ _ _)
        rw [set_ticks] at h2
        exact Inv.seq h1 rfl h2
      | err e => simp only [andThen_err]; exact h1
      | oof => simp only [andThen_oof]; exact h1
    all_goals (rw [letBinds]; simp only [oLetBinds]; exact Inv.noPoll rfl; (intro _ _ hh; cases hh))

theorem apply_inv (k st f args d) (hg : Good n st) :
    Inv n k st.ticks (okB (apply (F + 1) st f args d).1) (apply (F + 1) st f args d).2
      (oApply (obs F) k st f args d) := by
  cases f <;> simp only [apply, oApply]
  case fn params body fenv m p =>
    generalize bindParams params args = bp
    cases bp with
    | error e => exact Inv.noPoll rfl
    | ok data => exact ih.eval k _ _ body (d + 1) (hg.newScope fenv data)
  case builtin name => exact ih.callBuiltin k st name args d hg
  all_goals exact Inv.noPoll rfl

omit ih in
/-- a result that became an error afterwards (same state) -/
theorem Inv.weaken {ok ok' : Bool} {b : State} {c : Cut} (h : Inv n k ta ok b c) (hh : ok' = true → ok = true) :
    Inv n k ta ok' b c := by
  cases ok' with
  | true => rw [hh rfl] at h; exact h
  | false =>
    cases ok with
    | false => exact h
    | true =>
      refine ⟨h.le, h.none_le, fun sc stk hc => ?_⟩
      obtain ⟨h1, h2, ext, h3, h4, h5, h6⟩ := h.cut sc stk hc
      refine ⟨h1, h2, ext, h3, h4, ?_, fun ha => absurd (h6 ha).1 (by simp)⟩
      simp at h5 ⊢; omega

/-- the tail of `update` / `_update`: `assoc` on the value of the callback -/
theorem update1_tail (k : List Bool) (st : State) (f : Val) (c : Val) (d : Nat) (hg : Good n st)
    (post : Val → BRes) :
    Inv n k st.ticks
      (okB (match apply F st f [c] d with
        | (.ok res, st) =>
          (match post res with
           | .ok r => (Res.ok r, st)
           | .thrown t => (.err (.lisp t none), st)
           | .goerr m => (.err (.lisp (.goerr m) none), st))
        | r => r).1)
      (match apply F st f [c] d with
        | (.ok res, st) =>
          (match post res with
           | .ok r => (Res.ok r, st)
           | .thrown t => (.err (.lisp t none), st)
           | .goerr m => (.err (.lisp (.goerr m) none), st))
        | r => r).2
      ((obs F).apply k st f [c] d) := by
  have h1 := ih.apply k st f [c] d hg
  generalize apply F st f [c] d = p at h1 ⊢
  obtain ⟨r1, b1⟩ := p
  cases r1 with
  | ok res => dsimp only; split <;> first | exact h1 | exact h1.weaken (by simp [okB])
  | err e => exact h1
  | oof => exact h1

theorem update1_inv (k st v i f d) (hg : Good n st) :
    Inv n k st.ticks (okB (update1 (F + 1) st v i f d).1) (update1 (F + 1) st v i f d).2
      (oUpdate1 (obs F) k st v i f d) := by
  cases v
  case map m =>
    cases i
    case str key =>
      rw [update1.eq_def]; simp only [oUpdate1]
      exact update1_tail ih k st f _ d hg (fun res => Core.assoc [.map m, .str key, res])
    all_goals (rw [update1.eq_def]; simp only [oUpdate1]; exact Inv.noPoll rfl)
  case vec xs p =>
    cases i
    case int z =>
      rw [update1.eq_def]; simp only [oUpdate1]
      by_cases hz : 0 ≤ z ∧ z.toNat < xs.length
      · simp only [hz, and_self, ↓reduceIte]
        exact update1_tail ih k st f _ d hg (fun res => Core.assoc [.vec xs p, .int z, res])
      · simp only [hz, ↓reduceIte]
        exact Inv.noPoll rfl
    all_goals (rw [update1.eq_def]; simp only [oUpdate1]; exact Inv.noPoll rfl)
  all_goals (rw [update1.eq_def]; simp only [oUpdate1]; exact Inv.noPoll rfl)

omit ih in
theorem updateIn_cons2 (st v i j rest f d) :
    updateIn (F + 1) st v (i :: j :: rest) f d =
      match uiBranch v i with
      | none => (.err (.lisp (.goerr "update-in: type not supported / conversion") none), st)
      | some b =>
        if !uiSame v b then (.err (.lisp (.goerr "interface conversion") none), st) else
        match updateIn F st b (j :: rest) f d with
        | (.ok inner, st) =>
          (match Core.assoc [v, i, inner] with
           | .ok r => (.ok r, st)
           | .thrown t => (.err (.lisp t none), st)
           | .goerr m => (.err (.lisp (.goerr m) none), st))
        | r => r := by
  rw [updateIn.eq_def]; rfl

theorem updateIn_inv (k st v path f d) (hg : Good n st) :
    Inv n k st.ticks (okB (updateIn (F + 1) st v path f d).1) (updateIn (F + 1) st v path f d).2
      (oUpdateIn (obs F) k st v path f d) := by
  match path with
  | [] => rw [updateIn]; exact Inv.noPoll rfl
  | [i] => rw [updateIn]; exact ih.update1 k st v i f d hg
  | i :: j :: rest =>
    rw [updateIn_cons2]; simp only [oUpdateIn]
    cases uiBranch v i with
    | none => exact Inv.noPoll rfl
    | some b =>
      dsimp only
      cases uiSame v b with
      | false => exact Inv.noPoll rfl
      | true =>
        simp only [Bool.not_true, Bool.false_eq_true, ↓reduceIte]
        have h1 := ih.updateIn k st b (j :: rest) f d hg
        generalize updateIn F st b (j :: rest) f d = p at h1 ⊢
        obtain ⟨r1, b1⟩ := p
        cases r1 with
        | ok res => dsimp only; split <;> first | exact h1 | exact h1.weaken (by simp [okB])
        | err e => exact h1
        | oof => exact h1

theorem macroexpand_inv (k st env ast d) (hg : Good n st) :
    Inv n k st.ticks (okB (macroexpand (F + 1) st env ast d).1) (macroexpand (F + 1) st env ast d).2
      (oMacroexpand (obs F) F k st env ast d) := by
  rw [macroexpand_shape]; simp only [oMacroexpand]
  cases macroCall st env ast with
  | none => exact Inv.noPoll rfl
  | some x =>
    obtain ⟨params, body, fenv, args⟩ := x
    dsimp only
    cases bindParams params args with
    | error e => exact Inv.noPoll rfl
    | ok data =>
      dsimp only
      have hg0 : Good n (st.newScope fenv data).1 := hg.newScope fenv data
      have h1 := ih.eval k (st.newScope fenv data).1 (st.newScope fenv data).2 body (d + 1) hg0
      have g1 : Good n (eval F (st.newScope fenv data).1 (st.newScope fenv data).2 body (d + 1)).2 :=
        hg0.frame ((frame F).eval pairEta)
      generalize eval F (st.newScope fenv data).1 (st.newScope fenv data).2 body (d + 1) = p at h1 g1 ⊢
      obtain ⟨r1, b1⟩ := p
      cases r1 with
      | ok v =>
        simp only [andThen_ok]
        exact Inv.seq h1 rfl (ih.macroexpand k b1 env v d g1)
      | err e => simp only [andThen_err]; exact h1
      | oof => simp only [andThen_oof]; exact h1

end step

end LispModel.Proofs.EvalCancelBound

/-
  C07, the closed form: a run that is cancelled IN THE MIDDLE.

  §1  the observer `obs F`: computed alongside the evaluation (it re-runs the functions of the block for the
      intermediate states and follows their control flow), it returns the CUT of the run — the state in which
      the first poll that reported "done" was performed, together with the stack of frames that were live at
      that moment (innermost first): `try` forms (with / without a `finally` clause) and macro expansions;
  §2  the invariant `Inv` and its composition lemmas;
  §3  the induction over the thirteen functions;
  §4  the theorems used by Props/C07.lean.

  Debugger off (`stepper = none`) throughout.  All times are poll ticks.
-/
import LispModel.Proofs.EvalCancel
namespace LispModel.Proofs.EvalCancelBound
open LispModel LispModel.Core LispModel.Proofs.EvalCancel

/-! ## §1 the observer -/

/-- what can be live on the evaluation stack and still poll after the deadline: a `try` form (`fin` = it has
    a `finally` clause, whose deferred run DISCARDS the timeout error) or a macro expansion (the expanded form
    is dispatched in the same loop iteration, without a new poll) -/
inductive Fr where
  | tr (fin : Bool)
  | mac
deriving DecidableEq, Repr, Inhabited

/-- only a `try` form with a `finally` clause can turn the timeout error back into a value -/
def Fr.swallows : Fr → Bool
  | .tr fin => fin
  | .mac => false

/-- the cut of a run: state at the first cancelled poll, frames live at that moment (innermost first) -/
abbrev Cut := Option (State × List Fr)

/-- sequencing: the cut of `run1; run2` where `run2` happens only when `run1` returned a value -/
def andThen {α} (c : Cut) (r : Res α × State) (k : α → State → Cut) : Cut :=
  match c with
  | some x => some x
  | none =>
    match r with
    | (.ok a, st) => k a st
    | _ => none

/-- one observer per function of the block (at some fuel) -/
structure Obs where
  eval : List Fr → State → Nat → Val → Nat → Cut
  evalLoop : List Fr → State → Nat → Val → Nat → Cut
  evalAst : List Fr → State → Nat → Val → Nat → Cut
  evalList : List Fr → State → Nat → List Val → Nat → Cut
  evalMap : List Fr → State → Nat → List (String × Val) → Nat → Cut
  doForms : List Fr → State → Nat → List Val → Nat → Bool → Nat → Cut
  letBinds : List Fr → State → Nat → List Val → Val → Nat → Cut
  macroexpand : List Fr → State → Nat → Val → Nat → Cut
  apply : List Fr → State → Val → List Val → Nat → Cut
  mapLoop : List Fr → State → Val → List Val → Nat → Cut
  updateIn : List Fr → State → Val → List Val → Val → Nat → Cut
  update1 : List Fr → State → Val → Val → Val → Nat → Cut
  callBuiltin : List Fr → State → String → List Val → Nat → Cut

def Obs.zero : Obs :=
  ⟨fun _ _ _ _ _ => none, fun _ _ _ _ _ => none, fun _ _ _ _ _ => none, fun _ _ _ _ _ => none,
   fun _ _ _ _ _ => none, fun _ _ _ _ _ _ _ => none, fun _ _ _ _ _ _ => none, fun _ _ _ _ _ => none,
   fun _ _ _ _ _ => none, fun _ _ _ _ _ => none, fun _ _ _ _ _ _ => none, fun _ _ _ _ _ _ => none,
   fun _ _ _ _ _ => none⟩

/-- the macro call `macroexpand` sees in `ast`, if any: parameters, body, closure scope, operands -/
def macroCall (st : State) (env : Nat) (ast : Val) : Option (Val × Val × Nat × List Val) :=
  match ast with
  | .list (.sym s _ :: args) _ =>
    (match st.get env s with
     | some (.fn params body fenv true _) => some (params, body, fenv, args)
     | _ => none)
  | _ => none

theorem macroexpand_shape (F st env ast d) :
    macroexpand (F + 1) st env ast d =
      match macroCall st env ast with
      | none => (.ok ast, st)
      | some (params, body, fenv, args) =>
        match bindParams params args with
        | .error e => (.err e, st)
        | .ok data =>
          match eval F (st.newScope fenv data).1 (st.newScope fenv data).2 body (d + 1) with
          | (.ok ast', st) => macroexpand F st env ast' d
          | r => r := by
  unfold macroCall
  cases ast
  case list xs pos =>
    cases xs with
    | nil => rw [macroexpand.eq_def]
    | cons a0 args =>
      cases a0
      case sym s p =>
        rw [macroexpand]
        dsimp only
        cases st.get env s with
        | none => rfl
        | some v =>
          cases v <;> try rfl
          case fn ps b e m q => cases m <;> rfl
      all_goals (rw [macroexpand.eq_def])
  all_goals (rw [macroexpand.eq_def])

/-- the branch `_updateIn` descends into -/
def uiBranch (v i : Val) : Option Val :=
  match v, i with
  | .map m, .str k => some (match (alookup k m).getD .nil with | .nil => .map [] | b => b)
  | .vec xs _, .int n => if 0 ≤ n ∧ n.toNat < xs.length then some (match xs.getD n.toNat .nil with | .nil => .vec [] none | b => b) else none
  | _, _ => none

def uiSame (v b : Val) : Bool :=
  match v, b with | .map _, .map _ => true | .vec _ _, .vec _ _ => true | _, _ => false

section arms
variable (o : Obs) (F : Nat)

def oEvalAst (k : List Fr) (st : State) (env : Nat) (ast : Val) (d : Nat) : Cut :=
  match ast with
  | .list xs _ => o.evalList k st env xs d
  | .vec xs _ => o.evalList k st env xs d
  | .map kvs => o.evalMap k st env kvs d
  | _ => none

def oEvalList (k : List Fr) (st : State) (env : Nat) (xs : List Val) (d : Nat) : Cut :=
  match xs with
  | [] => none
  | x :: xs => andThen (o.eval k st env x (d + 1)) (eval F st env x (d + 1)) fun _ st => o.evalList k st env xs d

def oEvalMap (k : List Fr) (st : State) (env : Nat) (xs : List (String × Val)) (d : Nat) : Cut :=
  match xs with
  | [] => none
  | (_, x) :: r => andThen (o.eval k st env x (d + 1)) (eval F st env x (d + 1)) fun _ st => o.evalMap k st env r d

def oDoForms (k : List Fr) (st : State) (env : Nat) (lst : List Val) (fr : Nat) (kl : Bool) (d : Nat) : Cut :=
  if lst.length ≤ fr then none
  else o.evalList k st env (if kl then (lst.drop fr).dropLast else lst.drop fr) d

def oLetBinds (k : List Fr) (st : State) (letEnv : Nat) (bs : List Val) (a1 : Val) (d : Nat) : Cut :=
  match bs with
  | .sym name _ :: x :: rest =>
    andThen (o.eval k st letEnv x (d + 1)) (eval F st letEnv x (d + 1)) fun v st =>
      o.letBinds k (st.set letEnv name v) letEnv rest a1 d
  | _ => none

def oMacroexpand (k : List Fr) (st : State) (env : Nat) (ast : Val) (d : Nat) : Cut :=
  match macroCall st env ast with
  | none => none
  | some (params, body, fenv, args) =>
    match bindParams params args with
    | .error _ => none
    | .ok data =>
      andThen (o.eval (.mac :: k) (st.newScope fenv data).1 (st.newScope fenv data).2 body (d + 1))
        (eval F (st.newScope fenv data).1 (st.newScope fenv data).2 body (d + 1)) fun ast' st =>
          o.macroexpand k st env ast' d

def oApply (k : List Fr) (st : State) (f : Val) (args : List Val) (d : Nat) : Cut :=
  match f with
  | .fn params body fenv _ _ =>
    (match bindParams params args with
     | .error _ => none
     | .ok data => o.eval k (st.newScope fenv data).1 (st.newScope fenv data).2 body (d + 1))
  | .builtin name => o.callBuiltin k st name args d
  | _ => none

def oMapLoop (k : List Fr) (st : State) (f : Val) (xs : List Val) (d : Nat) : Cut :=
  match xs with
  | [] => none
  | x :: xs => andThen (o.apply k st f [x] d) (apply F st f [x] d) fun _ st => o.mapLoop k st f xs d

def oUpdateIn (k : List Fr) (st : State) (v : Val) (path : List Val) (f : Val) (d : Nat) : Cut :=
  match path with
  | [] => none
  | [i] => o.update1 k st v i f d
  | i :: j :: rest =>
    match uiBranch v i with
    | none => none
    | some b => if !uiSame v b then none else o.updateIn k st b (j :: rest) f d

def oUpdate1 (k : List Fr) (st : State) (v : Val) (i : Val) (f : Val) (d : Nat) : Cut :=
  match v with
  | .map m =>
    (match i with
     | .str key => o.apply k st f [(alookup key m).getD .nil] d
     | _ => none)
  | .vec xs _ =>
    (match i with
     | .int n => if 0 ≤ n ∧ n.toNat < xs.length then o.apply k st f [xs.getD n.toNat .nil] d else none
     | _ => none)
  | _ => none

def oCallBuiltin (k : List Fr) (st : State) (name : String) (args : List Val) (d : Nat) : Cut :=
  if name = "trace!" then none
  else if name = "depth!" then none
  else if name = "eval" then
    (match args with
     | [a] => o.eval k st 0 a (d + 1)
     | _ => none)
  else if name = "apply" then
    (match args with
     | f :: rest =>
       (match rest.getLast? with
        | none => none
        | some last =>
          match seqOf? last with
          | none => none
          | some tail => o.apply k st f (rest.dropLast ++ tail) d)
     | [] => none)
  else if name = "map" then
    (match args with
     | [f, s] =>
       (match seqOf? s with
        | none => none
        | some xs => o.mapLoop k st f xs d)
     | _ => none)
  else if name = "atom" then none
  else if name = "deref" then none
  else if name = "reset!" then none
  else if name = "swap!" then
    (match args with
     | .atom id :: f :: extra => o.apply k st f (st.atoms.getD id .nil :: extra) d
     | _ => none)
  else if name = "update" then
    (match args with
     | [.nil, _, _] => none
     | [v, i, f] => o.update1 k st v i f d
     | _ => none)
  else if name = "update-in" then
    (match args with
     | [v, .vec path _, f] => (match v with | .nil => none | _ => o.updateIn k st v path f d)
     | _ => none)
  else none

/-! the arms of the loop (debugger off: `continue` is the next iteration) -/

def oLetArm (k : List Fr) (st : State) (env : Nat) (lst : List Val) (a1 : Val) (d : Nat) : Cut :=
  match seqOf? a1 with
  | none => none
  | some arr1 =>
    if arr1.length % 2 ≠ 0 then none
    else
      andThen (o.letBinds k (st.newScope env []).1 (st.newScope env []).2 arr1 a1 d)
        (letBinds F (st.newScope env []).1 (st.newScope env []).2 arr1 a1 d) fun _ st1 =>
      andThen (o.doForms k st1 (st.newScope env []).2 lst 2 true d)
        (doForms F st1 (st.newScope env []).2 lst 2 true d) fun next st2 =>
      o.evalLoop k st2 (st.newScope env []).2 next d

/-- cut of the handler stage, given the result of the body -/
def oHandler (k : List Fr) (parts : TryParts) (env d : Nat) (rb : R) : Cut :=
  match rb with
  | (.err e, s1) =>
    (match parts.catchDo, parts.catchBind with
     | some handler, some bind =>
       (match bindParams (.list [bind] none) [caughtValue e] with
        | .error _ => none
        | .ok data => o.doForms k (s1.newScope env data).1 (s1.newScope env data).2 handler 0 false d)
     | _, _ => none)
  | _ => none

/-- cut of the finally stage, given the result of body + handler -/
def oFinally (k : List Fr) (parts : TryParts) (env d : Nat) (rh : R) : Cut :=
  match rh with
  | (.oof, _) => none
  | (_, s2) =>
    match parts.finallyDo with
    | none => none
    | some fin => o.doForms k s2 env fin 0 false d

/-- the three stages of a try form run with this form pushed on the stack of live try forms -/
def oTryArm (k : List Fr) (st : State) (env : Nat) (parts : TryParts) (d : Nat) : Cut :=
  let k' := Fr.tr parts.finallyDo.isSome :: k
  let rb := doForms F st env parts.body 0 false d
  let rh := handlerStage F parts env d rb
  ((o.doForms k' st env parts.body 0 false d).orElse fun _ => oHandler o k' parts env d rb).orElse fun _ =>
    oFinally o k' parts env d rh

def oTryForm (k : List Fr) (st : State) (env : Nat) (lst operands : List Val) (d : Nat) : Cut :=
  if operands.isEmpty then none else
  match splitTry lst with
  | .error _ => none
  | .ok parts => oTryArm o F k st env parts d

def oDoArm (k : List Fr) (st : State) (env : Nat) (lst : List Val) (d : Nat) : Cut :=
  andThen (o.doForms k st env lst 1 true d) (doForms F st env lst 1 true d) fun next st => o.evalLoop k st env next d

def oIfArm (k : List Fr) (st : State) (env : Nat) (lst : List Val) (a1 a2 : Val) (d : Nat) : Cut :=
  andThen (o.eval k st env a1 (d + 1)) (eval F st env a1 (d + 1)) fun cond st =>
    if truthy cond then o.evalLoop k st env a2 d
    else if lst.length ≥ 4 then o.evalLoop k st env (lst.getD 3 .nil) d
    else none

def oCallArm (k : List Fr) (st : State) (el : List Val) (d : Nat) : Cut :=
  match el with
  | [] => none
  | f :: args =>
    match f with
    | .fn params body fenv _ _ =>
      (match bindParams params args with
       | .error _ => none
       | .ok data => o.evalLoop k (st.newScope fenv data).1 (st.newScope fenv data).2 body d)
    | .builtin name => o.callBuiltin k st name args d
    | _ => none

def oAppArm (k : List Fr) (st : State) (env : Nat) (lst : List Val) (d : Nat) : Cut :=
  andThen (o.evalList k st env lst d) (evalList F st env lst d) fun el st => oCallArm o k st el d

def oDispatch (k : List Fr) (st : State) (env : Nat) (a0 : Val) (operands : List Val) (d : Nat) : Cut :=
  let lst := a0 :: operands
  let a1 := operands.getD 0 .nil
  let a2 := operands.getD 1 .nil
  let a0sym := match a0 with | .sym s _ => s | _ => "__<*fn>__"
  if a0sym = "def" then o.eval k st env a2 (d + 1)
  else if a0sym = "let" then oLetArm o F k st env lst a1 d
  else if a0sym = "quote" then none
  else if a0sym = "quasiquoteexpand" then none
  else if a0sym = "quasiquote" then o.evalLoop k st env (quasiquote a1) d
  else if a0sym = "defmacro" then o.eval k st env a2 (d + 1)
  else if a0sym = "macroexpand" then o.macroexpand k st env a1 d
  else if a0sym = "try" then oTryForm o F k st env lst operands d
  else if a0sym = "do" then oDoArm o F k st env lst d
  else if a0sym = "if" then oIfArm o F k st env lst a1 a2 d
  else if a0sym = "fn" then none
  else oAppArm o F k st env lst d

def oAfterExpand (k : List Fr) (st : State) (env : Nat) (ast : Val) (d : Nat) : Cut :=
  match ast with
  | .list [] _ => none
  | .list (a0 :: operands) _ => oDispatch o F k st env a0 operands d
  | _ => o.evalAst k st env ast d

def oLiveBody (k : List Fr) (st : State) (env : Nat) (ast : Val) (d : Nat) : Cut :=
  match ast with
  | .list _ _ =>
    andThen (o.macroexpand k st env ast d) (macroexpand F st env ast d) fun ast st => oAfterExpand o F k st env ast d
  | _ => o.evalAst k st env ast d

/-- one iteration of the loop: the poll that reports "done" IS the cut -/
def oLoopBody (k : List Fr) (st : State) (env : Nat) (ast : Val) (d : Nat) : Cut :=
  if st.poll.1 then some (st, k) else oLiveBody o F k st.poll.2 env ast d

end arms

/-- the observers at fuel `F` -/
def obs : Nat → Obs
  | 0 => Obs.zero
  | F + 1 =>
    let o := obs F
    { eval := o.evalLoop
      evalLoop := oLoopBody o F
      evalAst := oEvalAst o
      evalList := oEvalList o F
      evalMap := oEvalMap o F
      doForms := oDoForms o
      letBinds := oLetBinds o F
      macroexpand := oMacroexpand o F
      apply := oApply o
      mapLoop := oMapLoop o F
      updateIn := oUpdateIn o
      update1 := oUpdate1 o
      callBuiltin := oCallBuiltin o }

/-! ## §2 the invariant -/

def okB {α} : Res α → Bool
  | .ok _ => true
  | _ => false

/-- no observable effect between two states: same `trace!` effects, same `depth!` marks, same atom store -/
def Quiet (a b : State) : Prop := b.trace = a.trace ∧ b.marks = a.marks ∧ b.atoms = a.atoms

theorem Quiet.refl (a : State) : Quiet a a := ⟨rfl, rfl, rfl⟩
theorem Quiet.trans {a b c : State} (h1 : Quiet a b) (h2 : Quiet b c) : Quiet a c :=
  ⟨h2.1.trans h1.1, h2.2.1.trans h1.2.1, h2.2.2.trans h1.2.2⟩

/-- What a run that starts at poll count `ta` with `k` as the stack of live frames, ends in state `b`
    (`ok` = it returned a value) and has cut `c` satisfies, when the context is cancelled from poll `n` on.
    `b.ticks + (if ok then 1 else 0)` is the potential: a run that comes back with a VALUE after the cut (a
    `finally` discarded the timeout) makes its caller poll once more. -/
structure Inv (n : Nat) (k : List Fr) (ta : Nat) (ok : Bool) (b : State) (c : Cut) : Prop where
  le : ta ≤ b.ticks
  none_le : c = none → b.ticks ≤ max ta n
  /-- a run entered after the deadline: at most one poll, none when it returns a value -/
  post : n < ta → b.ticks + (if ok then 1 else 0) ≤ ta + 1
  cut : ∀ sc stk, c = some (sc, stk) → sc.ticks = max ta n ∧ sc.ticks < b.ticks ∧
      ∃ ext, stk = ext ++ k ∧
        b.ticks + (if ok then 1 else 0) ≤ max ta n + 1 + 2 * ext.length ∧
        ((∀ x ∈ ext, x.swallows = false) → ok = false ∧ Quiet sc b)

variable {n : Nat} {k : List Fr} {ta : Nat}

theorem ite01_le (b : Bool) : (if b = true then 1 else 0) ≤ 1 := by cases b <;> simp

/-- a run without a poll -/
theorem Inv.noPoll {ok : Bool} {b : State} (hb : b.ticks = ta) : Inv n k ta ok b none :=
  ⟨by omega, fun _ => by omega, fun _ => by have := ite01_le ok; omega, fun _ _ h => by cases h⟩

/-- the live poll in front of a run -/
theorem Inv.tick {ok : Bool} {b : State} {c : Cut} (hlt : ta < n) (h : Inv n k (ta + 1) ok b c) :
    Inv n k ta ok b c := by
  refine ⟨by have := h.le; omega, fun hc => by have := h.none_le hc; omega, fun hh => by omega,
    fun sc stk hc => ?_⟩
  obtain ⟨h1, h2, ext, h3, h5, h6⟩ := h.cut sc stk hc
  exact ⟨by omega, h2, ext, h3, by omega, h6⟩

/-- `run1; run2` where `run1` returned a value -/
theorem Inv.seq {ok1 ok2 : Bool} {b1 b2 : State} {c1 c2 : Cut} (h1 : Inv n k ta ok1 b1 c1)
    (hok : ok1 = true) (h2 : Inv n k b1.ticks ok2 b2 c2) : Inv n k ta ok2 b2 (c1.orElse fun _ => c2) := by
  subst hok
  have l1 := h1.le
  have l2 := h2.le
  have hpost : n < ta → b2.ticks + (if ok2 = true then 1 else 0) ≤ ta + 1 := by
    intro hh
    have p1 := h1.post hh
    have p2 := h2.post (by omega)
    simp at p1; omega
  cases c1 with
  | none =>
    have m1 := h1.none_le rfl
    refine ⟨by omega, fun hc => ?_, hpost, fun sc stk hc => ?_⟩
    · have := h2.none_le (by simpa using hc); omega
    · obtain ⟨e1, e2, ext, e3, e5, e6⟩ := h2.cut sc stk (by simpa using hc)
      exact ⟨by omega, e2, ext, e3, by omega, e6⟩
  | some x =>
    obtain ⟨sc, stk⟩ := x
    obtain ⟨e1, e2, ext, e3, e5, e6⟩ := h1.cut sc stk rfl
    have p := h2.post (by omega)
    refine ⟨by omega, fun hc => by simp at hc, hpost, fun sc' stk' hc => ?_⟩
    simp only [Option.orElse_some, Option.some.injEq, Prod.mk.injEq] at hc
    obtain ⟨rfl, rfl⟩ := hc
    refine ⟨e1, by omega, ext, e3, ?_, fun hall => ?_⟩
    · simp at e5; omega
    · exact absurd (e6 hall).1 (by simp)

theorem andThen_ok {α} (c : Cut) (v : α) (st : State) (g : α → State → Cut) :
    andThen c (.ok v, st) g = c.orElse fun _ => g v st := by
  cases c <;> rfl

theorem andThen_err {α} (c : Cut) (e : Err) (st : State) (g : α → State → Cut) :
    andThen c (.err e, st) g = c := by
  cases c <;> rfl

theorem andThen_oof {α} (c : Cut) (st : State) (g : α → State → Cut) :
    andThen c (.oof, st) g = c := by
  cases c <;> rfl

/-- the three stages of a try form entered before the deadline (each run with the form pushed on the stack):
    body, handler (only after an error), finally (always); the value of the form is the pending one -/
theorem Inv.try3 {hf ok1 ok2 ok3 okf : Bool} {s1 s2 s3 : State} {c1 c2 c3 : Cut} (hta : ta ≤ n)
    (h1 : Inv n (.tr hf :: k) ta ok1 s1 c1) (h2 : Inv n (.tr hf :: k) s1.ticks ok2 s2 c2)
    (h3 : Inv n (.tr hf :: k) s2.ticks ok3 s3 c3)
    (hH : ok1 = true → s2 = s1 ∧ ok2 = true) (hokf : okf = true → ok2 = true)
    (hB2 : hf = false → n < s1.ticks → ok1 = false → ok2 = false ∧ Quiet s1 s2)
    (hB3 : hf = false → s3 = s2 ∧ c3 = none) :
    Inv n k ta okf s3 ((c1.orElse fun _ => c2).orElse fun _ => c3) := by
  have l1 := h1.le
  have l2 := h2.le
  have l3 := h3.le
  have hokf' : (if okf = true then 1 else 0) ≤ (if ok2 = true then 1 else 0) := by
    cases okf <;> cases ok2 <;> simp_all
  have hext : ∀ ext : List Fr, ext ++ Fr.tr hf :: k = (ext ++ [Fr.tr hf]) ++ k := by intro ext; simp
  have hall : ∀ ext : List Fr, (∀ x ∈ ext ++ [Fr.tr hf], x.swallows = false) →
      hf = false ∧ ∀ x ∈ ext, x.swallows = false := by
    intro ext h
    exact ⟨h (.tr hf) (by simp), fun x hx => h x (by simp [hx])⟩
  cases c1 with
  | some x =>
    obtain ⟨sc, stk⟩ := x
    obtain ⟨e1, e2, ext, e3, e5, e6⟩ := h1.cut sc stk rfl
    have p2 := h2.post (by omega)
    have p3 := h3.post (by omega)
    have o3 := ite01_le ok3
    refine ⟨by omega, fun hc => by simp at hc, fun hh => by omega, fun sc' stk' hc => ?_⟩
    simp only [Option.orElse_some, Option.some.injEq, Prod.mk.injEq] at hc
    obtain ⟨rfl, rfl⟩ := hc
    refine ⟨e1, by omega, ext ++ [Fr.tr hf], by rw [e3, hext], ?_, fun ha => ?_⟩
    · have : s2.ticks + (if ok2 = true then 1 else 0) ≤ s1.ticks + (if ok1 = true then 1 else 0) + 1 := by
        cases ok1 with
        | true => obtain ⟨rfl, rfl⟩ := hH rfl; simp
        | false => simpa using p2
      simp only [List.length_append, List.length_cons, List.length_nil]
      omega
    · obtain ⟨hf0, hx⟩ := hall ext ha
      obtain ⟨q1, q2⟩ := e6 hx
      obtain ⟨q3, q4⟩ := hB2 hf0 (by omega) q1
      obtain ⟨q5, _⟩ := hB3 hf0
      refine ⟨?_, ?_⟩
      · cases okf with
        | false => rfl
        | true => rw [hokf rfl] at q3; cases q3
      · rw [q5]; exact q2.trans q4
  | none =>
    have m1 := h1.none_le rfl
    cases c2 with
    | some x =>
      obtain ⟨sc, stk⟩ := x
      obtain ⟨e1, e2, ext, e3, e5, e6⟩ := h2.cut sc stk rfl
      have p3 := h3.post (by omega)
      have o3 := ite01_le ok3
      refine ⟨by omega, fun hc => by simp at hc, fun hh => by omega, fun sc' stk' hc => ?_⟩
      simp only [Option.orElse_none, Option.orElse_some, Option.some.injEq, Prod.mk.injEq] at hc
      obtain ⟨rfl, rfl⟩ := hc
      refine ⟨by omega, by omega, ext ++ [Fr.tr hf], by rw [e3, hext], ?_, fun ha => ?_⟩
      · simp only [List.length_append, List.length_cons, List.length_nil]
        omega
      · obtain ⟨hf0, hx⟩ := hall ext ha
        obtain ⟨q1, q2⟩ := e6 hx
        obtain ⟨q5, _⟩ := hB3 hf0
        refine ⟨?_, by rw [q5]; exact q2⟩
        cases okf with
        | false => rfl
        | true => rw [hokf rfl] at q1; cases q1
    | none =>
      have m2 := h2.none_le rfl
      cases c3 with
      | none =>
        have m3 := h3.none_le rfl
        exact ⟨by omega, fun _ => by omega, fun hh => by omega, fun _ _ hc => by simp at hc⟩
      | some x =>
        obtain ⟨sc, stk⟩ := x
        obtain ⟨e1, e2, ext, e3, e5, e6⟩ := h3.cut sc stk rfl
        have o3 := ite01_le okf
        refine ⟨by omega, fun hc => by simp at hc, fun hh => by omega, fun sc' stk' hc => ?_⟩
        simp only [Option.orElse_none, Option.some.injEq, Prod.mk.injEq] at hc
        obtain ⟨rfl, rfl⟩ := hc
        refine ⟨by omega, by omega, ext ++ [Fr.tr hf], by rw [e3, hext], ?_, fun ha => ?_⟩
        · simp only [List.length_append, List.length_cons, List.length_nil]
          omega
        · obtain ⟨hf0, _⟩ := hall ext ha
          exact absurd (hB3 hf0).2 (by simp)

/-- the stronger invariant of `macroexpand`: a cut inside it falls inside the evaluation of a macro body, and
    the macro frame leaves two polls of slack (for the try form the expansion may be) -/
structure InvM (n : Nat) (k : List Fr) (ta : Nat) (ok : Bool) (b : State) (c : Cut) : Prop where
  inv : Inv n k ta ok b c
  slack : ta ≤ n → ∀ sc ext, c = some (sc, ext ++ k) →
    b.ticks + (if ok then 1 else 0) + 2 ≤ n + 1 + 2 * ext.length

theorem InvM.noPoll {ok : Bool} {b : State} (hb : b.ticks = ta) : InvM n k ta ok b none :=
  ⟨Inv.noPoll hb, fun _ _ _ h => by cases h⟩

/-- the evaluation of a macro body, seen from the expansion that pushed the macro frame -/
theorem Inv.pushMac {ok : Bool} {b : State} {c : Cut} (h : Inv n (.mac :: k) ta ok b c) : InvM n k ta ok b c := by
  have hext : ∀ ext : List Fr, ext ++ Fr.mac :: k = (ext ++ [Fr.mac]) ++ k := by intro ext; simp
  refine ⟨⟨h.le, h.none_le, h.post, fun sc stk hc => ?_⟩, fun hta sc ext' hc => ?_⟩
  · obtain ⟨e1, e2, ext, e3, e5, e6⟩ := h.cut sc stk hc
    refine ⟨e1, e2, ext ++ [Fr.mac], by rw [e3, hext], ?_, fun ha => e6 fun x hx => ha x (by simp [hx])⟩
    simp only [List.length_append, List.length_cons, List.length_nil]; omega
  · obtain ⟨e1, e2, ext, e3, e5, e6⟩ := h.cut sc _ hc
    rw [hext] at e3
    have := List.append_cancel_right e3
    subst this
    simp only [List.length_append, List.length_cons, List.length_nil]; omega

theorem InvM.seq {ok1 ok2 : Bool} {b1 b2 : State} {c1 c2 : Cut} (h1 : InvM n k ta ok1 b1 c1)
    (hok : ok1 = true) (h2 : InvM n k b1.ticks ok2 b2 c2) : InvM n k ta ok2 b2 (c1.orElse fun _ => c2) := by
  refine ⟨h1.inv.seq hok h2.inv, fun hta sc ext hc => ?_⟩
  subst hok
  cases c1 with
  | none =>
    have m1 := h1.inv.none_le rfl
    exact h2.slack (by omega) sc ext (by simpa using hc)
  | some x =>
    obtain ⟨sc1, stk⟩ := x
    simp only [Option.orElse_some, Option.some.injEq, Prod.mk.injEq] at hc
    obtain ⟨rfl, rfl⟩ := hc
    have s1 := h1.slack hta sc1 ext rfl
    obtain ⟨e1, e2, _⟩ := h1.inv.cut sc1 _ rfl
    have p := h2.inv.post (by omega)
    simp at s1; omega

/-- `macroexpand; dispatch of the expansion` (same loop iteration, no poll in between): the expansion may be a
    `try` form that is entered after the deadline; the slack of the macro frame pays for its three polls -/
theorem InvM.seq_after {ok1 ok2 : Bool} {b1 b2 : State} {c1 c2 : Cut} (h1 : InvM n k ta ok1 b1 c1)
    (hta : ta ≤ n) (hok : ok1 = true) (h2 : b1.ticks ≤ n → Inv n k b1.ticks ok2 b2 c2)
    (h2' : n < b1.ticks → b1.ticks ≤ b2.ticks ∧ b2.ticks + (if ok2 then 1 else 0) ≤ b1.ticks + 3) :
    Inv n k ta ok2 b2 (c1.orElse fun _ => c2) := by
  cases c1 with
  | none =>
    have m1 := h1.inv.none_le rfl
    exact h1.inv.seq hok (h2 (by omega))
  | some x =>
    obtain ⟨sc, stk⟩ := x
    subst hok
    obtain ⟨e1, e2, ext, e3, e5, e6⟩ := h1.inv.cut sc stk rfl
    subst e3
    have s1 := h1.slack hta sc ext rfl
    obtain ⟨q1, q2⟩ := h2' (by omega)
    have l1 := h1.inv.le
    refine ⟨by omega, fun hc => by simp at hc, fun hh => by omega, fun sc' stk' hc => ?_⟩
    simp only [Option.orElse_some, Option.some.injEq, Prod.mk.injEq] at hc
    obtain ⟨rfl, rfl⟩ := hc
    refine ⟨e1, by omega, ext, rfl, ?_, fun ha => absurd (e6 ha).1 (by simp)⟩
    simp at s1; omega

/-- what is left of `Inv` for a piece of the loop body that runs after the deadline without a poll in front
    of it: at most three polls (a try form: body, handler, finally) -/
def W (ta : Nat) (ok : Bool) (b : State) : Prop :=
  ta ≤ b.ticks ∧ b.ticks + (if ok then 1 else 0) ≤ ta + 3

theorem Inv.toW {ok : Bool} {b : State} {c : Cut} (h : Inv n k ta ok b c) (hlt : n < ta) : W ta ok b :=
  ⟨h.le, by have := h.post hlt; omega⟩

/-! ## §3 the induction over the block -/

/-- standing conditions: the context is cancelled from poll `n` on, debugger off -/
def Good (n : Nat) (st : State) : Prop := st.cancelAt = some n ∧ st.stepper = none

theorem Good.frame {a b : State} (h : Good n a) (f : Frame a b) : Good n b :=
  ⟨by rw [f.2.1]; exact h.1, f.1 h.2⟩

theorem set_ticks (st : State) (env : Nat) (x : String) (v : Val) : (st.set env x v).ticks = st.ticks := by
  unfold State.set; split <;> rfl

theorem Good.set {a : State} (h : Good n a) (env : Nat) (x : String) (v : Val) : Good n (a.set env x v) := by
  unfold State.set; split <;> exact h

theorem Good.newScope {a : State} (h : Good n a) (o : Nat) (data) : Good n (a.newScope o data).1 := h

theorem Good.tick {a : State} (h : Good n a) : Good n (tick a) := h

/-- the invariant for every function of the block at fuel `F` -/
structure AllInv (n F : Nat) : Prop where
  eval : ∀ k st env ast d, Good n st →
    Inv n k st.ticks (okB (eval F st env ast d).1) (eval F st env ast d).2 ((obs F).eval k st env ast d)
  evalLoop : ∀ k st env ast d, Good n st →
    Inv n k st.ticks (okB (evalLoop F st env ast d).1) (evalLoop F st env ast d).2 ((obs F).evalLoop k st env ast d)
  evalAst : ∀ k st env ast d, Good n st →
    Inv n k st.ticks (okB (evalAst F st env ast d).1) (evalAst F st env ast d).2 ((obs F).evalAst k st env ast d)
  evalList : ∀ k st env xs d, Good n st →
    Inv n k st.ticks (okB (evalList F st env xs d).1) (evalList F st env xs d).2 ((obs F).evalList k st env xs d)
  evalMap : ∀ k st env xs d, Good n st →
    Inv n k st.ticks (okB (evalMap F st env xs d).1) (evalMap F st env xs d).2 ((obs F).evalMap k st env xs d)
  doForms : ∀ k st env lst fr kl d, Good n st →
    Inv n k st.ticks (okB (doForms F st env lst fr kl d).1) (doForms F st env lst fr kl d).2
      ((obs F).doForms k st env lst fr kl d)
  letBinds : ∀ k st env bs a1 d, Good n st →
    Inv n k st.ticks (okB (letBinds F st env bs a1 d).1) (letBinds F st env bs a1 d).2
      ((obs F).letBinds k st env bs a1 d)
  macroexpand : ∀ k st env ast d, Good n st →
    InvM n k st.ticks (okB (macroexpand F st env ast d).1) (macroexpand F st env ast d).2
      ((obs F).macroexpand k st env ast d)
  apply : ∀ k st f args d, Good n st →
    Inv n k st.ticks (okB (apply F st f args d).1) (apply F st f args d).2 ((obs F).apply k st f args d)
  mapLoop : ∀ k st f xs d, Good n st →
    Inv n k st.ticks (okB (mapLoop F st f xs d).1) (mapLoop F st f xs d).2 ((obs F).mapLoop k st f xs d)
  updateIn : ∀ k st v path f d, Good n st →
    Inv n k st.ticks (okB (updateIn F st v path f d).1) (updateIn F st v path f d).2
      ((obs F).updateIn k st v path f d)
  update1 : ∀ k st v i f d, Good n st →
    Inv n k st.ticks (okB (update1 F st v i f d).1) (update1 F st v i f d).2 ((obs F).update1 k st v i f d)
  callBuiltin : ∀ k st name args d, Good n st →
    Inv n k st.ticks (okB (callBuiltin F st name args d).1) (callBuiltin F st name args d).2
      ((obs F).callBuiltin k st name args d)

theorem allInv_zero : AllInv n 0 := by
  constructor <;> intros
  · rw [eval]; exact Inv.noPoll rfl
  · rw [evalLoop]; exact Inv.noPoll rfl
  · rw [evalAst]; exact Inv.noPoll rfl
  · rw [evalList]; exact Inv.noPoll rfl
  · rw [evalMap]; exact Inv.noPoll rfl
  · rw [doForms]; exact Inv.noPoll rfl
  · rw [letBinds]; exact Inv.noPoll rfl
  · rw [macroexpand]; exact InvM.noPoll rfl
  · rw [apply]; exact Inv.noPoll rfl
  · rw [mapLoop]; exact Inv.noPoll rfl
  · rw [updateIn]; exact Inv.noPoll rfl
  · rw [update1.eq_def]; exact Inv.noPoll rfl
  · rw [callBuiltin.eq_def]; exact Inv.noPoll rfl

/-! the catch clause accepted by `splitTry` has at least one handler form -/

theorem clause_ne {c : Val} {b : Val} {dd : List Val}
    (h : (match c with
      | .list (_ :: b :: d) _ => if d.isEmpty then (Except.error "catch must have 2 arguments at least" : Except String (Val × List Val)) else .ok (b, d)
      | _ => .error "catch must have 2 arguments at least") = .ok (b, dd)) : dd ≠ [] := by
  split at h
  · split at h
    · cases h
    · cases h; rename_i hne; intro e; subst e; exact hne rfl
  · cases h

theorem splitTry_handler_ne {lst : List Val} {parts : TryParts} (h : splitTry lst = .ok parts) :
    ∀ hd, parts.catchDo = some hd → hd ≠ [] := by
  unfold splitTry at h
  dsimp only at h
  repeat' (split at h)
  all_goals (cases h)
  all_goals (intro hd e; cases e)
  all_goals first
    | exact clause_ne (by assumption)
    | (have hfalse : firstSym Val.nil = "catch" := by assumption
       simp [firstSym] at hfalse)

section step
variable {F : Nat} (ih : AllInv n F)
include ih

theorem evalList_inv (k st env xs d) (hg : Good n st) :
    Inv n k st.ticks (okB (evalList (F + 1) st env xs d).1) (evalList (F + 1) st env xs d).2
      (oEvalList (obs F) F k st env xs d) := by
  cases xs with
  | nil => rw [evalList]; exact Inv.noPoll rfl
  | cons x xs =>
    rw [evalList]; simp only [oEvalList]
    have h1 := ih.eval k st env x (d + 1) hg
    have g1 : Good n (eval F st env x (d + 1)).2 := hg.frame ((frame F).eval pairEta)
    generalize eval F st env x (d + 1) = p at h1 g1 ⊢
    obtain ⟨r1, b1⟩ := p
    cases r1 with
    | ok v =>
      simp only [andThen_ok]
      refine Inv.seq h1 rfl ?_
      have h2 := ih.evalList k b1 env xs d g1
      generalize evalList F b1 env xs d = q at h2 ⊢
      obtain ⟨r2, b2⟩ := q
      cases r2 <;> exact h2
    | err e => simp only [andThen_err]; exact h1
    | oof => simp only [andThen_oof]; exact h1

theorem evalMap_inv (k st env xs d) (hg : Good n st) :
    Inv n k st.ticks (okB (evalMap (F + 1) st env xs d).1) (evalMap (F + 1) st env xs d).2
      (oEvalMap (obs F) F k st env xs d) := by
  cases xs with
  | nil => rw [evalMap]; exact Inv.noPoll rfl
  | cons kx xs =>
    obtain ⟨key, x⟩ := kx
    rw [evalMap]; simp only [oEvalMap]
    have h1 := ih.eval k st env x (d + 1) hg
    have g1 : Good n (eval F st env x (d + 1)).2 := hg.frame ((frame F).eval pairEta)
    generalize eval F st env x (d + 1) = p at h1 g1 ⊢
    obtain ⟨r1, b1⟩ := p
    cases r1 with
    | ok v =>
      simp only [andThen_ok]
      refine Inv.seq h1 rfl ?_
      have h2 := ih.evalMap k b1 env xs d g1
      generalize evalMap F b1 env xs d = q at h2 ⊢
      obtain ⟨r2, b2⟩ := q
      cases r2 <;> exact h2
    | err e => simp only [andThen_err]; exact h1
    | oof => simp only [andThen_oof]; exact h1

theorem mapLoop_inv (k st f xs d) (hg : Good n st) :
    Inv n k st.ticks (okB (mapLoop (F + 1) st f xs d).1) (mapLoop (F + 1) st f xs d).2
      (oMapLoop (obs F) F k st f xs d) := by
  cases xs with
  | nil => rw [mapLoop]; exact Inv.noPoll rfl
  | cons x xs =>
    rw [mapLoop]; simp only [oMapLoop]
    have h1 := ih.apply k st f [x] d hg
    have g1 : Good n (apply F st f [x] d).2 := hg.frame ((frame F).apply pairEta)
    generalize apply F st f [x] d = p at h1 g1 ⊢
    obtain ⟨r1, b1⟩ := p
    cases r1 with
    | ok v =>
      simp only [andThen_ok]
      refine Inv.seq h1 rfl ?_
      have h2 := ih.mapLoop k b1 f xs d g1
      generalize mapLoop F b1 f xs d = q at h2 ⊢
      obtain ⟨r2, b2⟩ := q
      cases r2 <;> exact h2
    | err e => simp only [andThen_err]; exact h1
    | oof => simp only [andThen_oof]; exact h1

omit ih in
/-- a sub-run whose result is passed on unchanged up to the value -/
theorem Inv.map_res {α β} {p : Res α × State} {q : Res β × State} {c : Cut}
    (h : Inv n k ta (okB p.1) p.2 c) (h2 : q.2 = p.2) (h1 : okB q.1 = okB p.1) :
    Inv n k ta (okB q.1) q.2 c := by
  rw [h1, h2]; exact h

theorem evalAst_inv (k st env ast d) (hg : Good n st) :
    Inv n k st.ticks (okB (evalAst (F + 1) st env ast d).1) (evalAst (F + 1) st env ast d).2
      (oEvalAst (obs F) k st env ast d) := by
  cases ast <;> simp only [evalAst, oEvalAst]
  case sym s p => split <;> exact Inv.noPoll rfl
  case list xs p =>
    have h1 := ih.evalList k st env xs d hg
    split <;> (rename_i h; rw [h] at h1; exact h1)
  case vec xs p =>
    have h1 := ih.evalList k st env xs d hg
    split <;> (rename_i h; rw [h] at h1; exact h1)
  case map kvs =>
    have h1 := ih.evalMap k st env kvs d hg
    split <;> (rename_i h; rw [h] at h1; exact h1)
  all_goals exact Inv.noPoll rfl

theorem doForms_inv (k st env lst fr kl d) (hg : Good n st) :
    Inv n k st.ticks (okB (doForms (F + 1) st env lst fr kl d).1) (doForms (F + 1) st env lst fr kl d).2
      (oDoForms (obs F) k st env lst fr kl d) := by
  rw [doForms_noStepper hg.2]; simp only [oDoForms]
  split
  · exact Inv.noPoll rfl
  · cases kl
    · have h1 := ih.evalList k st env (lst.drop fr) d hg
      simp only [Bool.false_eq_true, ↓reduceIte]
      split <;> (rename_i h; rw [h] at h1; exact h1)
    · have h1 := ih.evalList k st env (lst.drop fr).dropLast d hg
      simp only [↓reduceIte]
      split <;> (rename_i h; rw [h] at h1; exact h1)

theorem letBinds_inv (k st env bs a1 d) (hg : Good n st) :
    Inv n k st.ticks (okB (letBinds (F + 1) st env bs a1 d).1) (letBinds (F + 1) st env bs a1 d).2
      (oLetBinds (obs F) F k st env bs a1 d) := by
  match bs with
  | [] => rw [letBinds]; simp only [oLetBinds]; exact Inv.noPoll rfl
  | [_] => rw [letBinds]; simp only [oLetBinds]; exact Inv.noPoll rfl
  | b :: x :: rest =>
    cases b
    case sym name p =>
      rw [letBinds]; simp only [oLetBinds]
      have h1 := ih.eval k st env x (d + 1) hg
      have g1 : Good n (eval F st env x (d + 1)).2 := hg.frame ((frame F).eval pairEta)
      generalize eval F st env x (d + 1) = p at h1 g1 ⊢
      obtain ⟨r1, b1⟩ := p
      cases r1 with
      | ok v =>
        simp only [andThen_ok]
        have h2 := ih.letBinds k (b1.set env name v) env rest a1 d (g1.set _ _ _)
        rw [set_ticks] at h2
        exact Inv.seq h1 rfl h2
      | err e => simp only [andThen_err]; exact h1
      | oof => simp only [andThen_oof]; exact h1
    all_goals (rw [letBinds]; simp only [oLetBinds]; exact Inv.noPoll rfl; (intro _ _ hh; cases hh))

theorem apply_inv (k st f args d) (hg : Good n st) :
    Inv n k st.ticks (okB (apply (F + 1) st f args d).1) (apply (F + 1) st f args d).2
      (oApply (obs F) k st f args d) := by
  cases f <;> simp only [apply, oApply]
  case fn params body fenv m p =>
    generalize bindParams params args = bp
    cases bp with
    | error e => exact Inv.noPoll rfl
    | ok data => exact ih.eval k _ _ body (d + 1) (hg.newScope fenv data)
  case builtin name => exact ih.callBuiltin k st name args d hg
  all_goals exact Inv.noPoll rfl

omit ih in
/-- a result that became an error afterwards (same state) -/
theorem Inv.weaken {ok ok' : Bool} {b : State} {c : Cut} (h : Inv n k ta ok b c) (hh : ok' = true → ok = true) :
    Inv n k ta ok' b c := by
  cases ok' with
  | true => rw [hh rfl] at h; exact h
  | false =>
    cases ok with
    | false => exact h
    | true =>
      refine ⟨h.le, h.none_le, fun hlt => by have := h.post hlt; simp at this ⊢; omega, fun sc stk hc => ?_⟩
      obtain ⟨h1, h2, ext, h3, h5, h6⟩ := h.cut sc stk hc
      refine ⟨h1, h2, ext, h3, ?_, fun ha => absurd (h6 ha).1 (by simp)⟩
      simp at h5 ⊢; omega

/-- the tail of `update` / `_update`: `assoc` on the value of the callback -/
theorem update1_tail (k : List Fr) (st : State) (f : Val) (c : Val) (d : Nat) (hg : Good n st)
    (post : Val → BRes) :
    Inv n k st.ticks
      (okB (match apply F st f [c] d with
        | (.ok res, st) =>
          (match post res with
           | .ok r => (Res.ok r, st)
           | .thrown t => (.err (.lisp t none), st)
           | .goerr m => (.err (.lisp (.goerr m) none), st))
        | r => r).1)
      (match apply F st f [c] d with
        | (.ok res, st) =>
          (match post res with
           | .ok r => (Res.ok r, st)
           | .thrown t => (.err (.lisp t none), st)
           | .goerr m => (.err (.lisp (.goerr m) none), st))
        | r => r).2
      ((obs F).apply k st f [c] d) := by
  have h1 := ih.apply k st f [c] d hg
  generalize apply F st f [c] d = p at h1 ⊢
  obtain ⟨r1, b1⟩ := p
  cases r1 with
  | ok res => dsimp only; split <;> first | exact h1 | exact h1.weaken (by simp [okB])
  | err e => exact h1
  | oof => exact h1

theorem update1_inv (k st v i f d) (hg : Good n st) :
    Inv n k st.ticks (okB (update1 (F + 1) st v i f d).1) (update1 (F + 1) st v i f d).2
      (oUpdate1 (obs F) k st v i f d) := by
  cases v
  case map m =>
    cases i
    case str key =>
      rw [update1.eq_def]; simp only [oUpdate1]
      exact update1_tail ih k st f _ d hg (fun res => Core.assoc [.map m, .str key, res])
    all_goals (rw [update1.eq_def]; simp only [oUpdate1]; exact Inv.noPoll rfl)
  case vec xs p =>
    cases i
    case int z =>
      rw [update1.eq_def]; simp only [oUpdate1]
      by_cases hz : 0 ≤ z ∧ z.toNat < xs.length
      · simp only [hz, and_self, ↓reduceIte]
        exact update1_tail ih k st f _ d hg (fun res => Core.assoc [.vec xs p, .int z, res])
      · simp only [hz, ↓reduceIte]
        exact Inv.noPoll rfl
    all_goals (rw [update1.eq_def]; simp only [oUpdate1]; exact Inv.noPoll rfl)
  all_goals (rw [update1.eq_def]; simp only [oUpdate1]; exact Inv.noPoll rfl)

omit ih in
theorem updateIn_cons2 (st v i j rest f d) :
    updateIn (F + 1) st v (i :: j :: rest) f d =
      match uiBranch v i with
      | none => (.err (.lisp (.goerr "update-in: type not supported / conversion") none), st)
      | some b =>
        if !uiSame v b then (.err (.lisp (.goerr "interface conversion") none), st) else
        match updateIn F st b (j :: rest) f d with
        | (.ok inner, st) =>
          (match Core.assoc [v, i, inner] with
           | .ok r => (.ok r, st)
           | .thrown t => (.err (.lisp t none), st)
           | .goerr m => (.err (.lisp (.goerr m) none), st))
        | r => r := by
  rw [updateIn.eq_def]; rfl

theorem updateIn_inv (k st v path f d) (hg : Good n st) :
    Inv n k st.ticks (okB (updateIn (F + 1) st v path f d).1) (updateIn (F + 1) st v path f d).2
      (oUpdateIn (obs F) k st v path f d) := by
  match path with
  | [] => rw [updateIn]; exact Inv.noPoll rfl
  | [i] => rw [updateIn]; exact ih.update1 k st v i f d hg
  | i :: j :: rest =>
    rw [updateIn_cons2]; simp only [oUpdateIn]
    cases uiBranch v i with
    | none => exact Inv.noPoll rfl
    | some b =>
      dsimp only
      cases uiSame v b with
      | false => exact Inv.noPoll rfl
      | true =>
        simp only [Bool.not_true, Bool.false_eq_true, ↓reduceIte]
        have h1 := ih.updateIn k st b (j :: rest) f d hg
        generalize updateIn F st b (j :: rest) f d = p at h1 ⊢
        obtain ⟨r1, b1⟩ := p
        cases r1 with
        | ok res => dsimp only; split <;> first | exact h1 | exact h1.weaken (by simp [okB])
        | err e => exact h1
        | oof => exact h1

theorem macroexpand_inv (k st env ast d) (hg : Good n st) :
    InvM n k st.ticks (okB (macroexpand (F + 1) st env ast d).1) (macroexpand (F + 1) st env ast d).2
      (oMacroexpand (obs F) F k st env ast d) := by
  rw [macroexpand_shape]; simp only [oMacroexpand]
  cases macroCall st env ast with
  | none => exact InvM.noPoll rfl
  | some x =>
    obtain ⟨params, body, fenv, args⟩ := x
    dsimp only
    cases bindParams params args with
    | error e => exact InvM.noPoll rfl
    | ok data =>
      dsimp only
      have hg0 : Good n (st.newScope fenv data).1 := hg.newScope fenv data
      have h1 := (ih.eval (.mac :: k) (st.newScope fenv data).1 (st.newScope fenv data).2 body (d + 1) hg0).pushMac
      have g1 : Good n (eval F (st.newScope fenv data).1 (st.newScope fenv data).2 body (d + 1)).2 :=
        hg0.frame ((frame F).eval pairEta)
      generalize eval F (st.newScope fenv data).1 (st.newScope fenv data).2 body (d + 1) = p at h1 g1 ⊢
      obtain ⟨r1, b1⟩ := p
      cases r1 with
      | ok v =>
        simp only [andThen_ok]
        exact InvM.seq h1 rfl (ih.macroexpand k b1 env v d g1)
      | err e => simp only [andThen_err]; exact h1
      | oof => simp only [andThen_oof]; exact h1

omit ih in
theorem inv_ite {c : Prop} [Decidable c] {x y : R} {cx cy : Cut}
    (hx : c → Inv n k ta (okB x.1) x.2 cx) (hy : ¬c → Inv n k ta (okB y.1) y.2 cy) :
    Inv n k ta (okB (if c then x else y).1) (if c then x else y).2 (if c then cx else cy) := by
  split
  · exact hx ‹_›
  · exact hy ‹_›

omit ih in
/-- a value returned in a state that differs from the callee's final state only outside the poll counter -/
theorem Inv.ok_modify {b b' : State} {c : Cut} (h : Inv n k ta true b c) (hb : b'.ticks = b.ticks) :
    Inv n k ta true b' c := by
  refine ⟨by rw [hb]; exact h.le, fun hc => by rw [hb]; exact h.none_le hc,
    fun hlt => by rw [hb]; exact h.post hlt, fun sc stk hc => ?_⟩
  obtain ⟨h1, h2, ext, h3, h5, h6⟩ := h.cut sc stk hc
  exact ⟨h1, by rw [hb]; exact h2, ext, h3, by rw [hb]; exact h5, fun ha => absurd (h6 ha).1 (by simp)⟩

theorem callBuiltin_inv (k st name args d) (hg : Good n st) :
    Inv n k st.ticks (okB (callBuiltin (F + 1) st name args d).1) (callBuiltin (F + 1) st name args d).2
      (oCallBuiltin (obs F) k st name args d) := by
  rw [callBuiltin.eq_def]; dsimp only; unfold oCallBuiltin
  refine inv_ite (fun _ => ?_) (fun _ => ?_)
  · split <;> exact Inv.noPoll rfl
  refine inv_ite (fun _ => ?_) (fun _ => ?_)
  · split <;> exact Inv.noPoll rfl
  refine inv_ite (fun _ => ?_) (fun _ => ?_)
  · rcases args with _ | ⟨a, _ | ⟨b, rest⟩⟩
    · exact Inv.noPoll rfl
    · exact ih.eval k st 0 a (d + 1) hg
    · exact Inv.noPoll rfl
  refine inv_ite (fun _ => ?_) (fun _ => ?_)
  · rcases args with _ | ⟨f, rest⟩
    · exact Inv.noPoll rfl
    · dsimp only
      cases rest.getLast? with
      | none => exact Inv.noPoll rfl
      | some last =>
        dsimp only
        cases seqOf? last with
        | none => exact Inv.noPoll rfl
        | some tail => exact ih.apply k st f _ d hg
  refine inv_ite (fun _ => ?_) (fun _ => ?_)
  · rcases args with _ | ⟨f, _ | ⟨s, _ | ⟨x, rest⟩⟩⟩
    · exact Inv.noPoll rfl
    · exact Inv.noPoll rfl
    · dsimp only
      cases seqOf? s with
      | none => exact Inv.noPoll rfl
      | some xs =>
        dsimp only
        have h1 := ih.mapLoop k st f xs d hg
        generalize mapLoop F st f xs d = p at h1 ⊢
        obtain ⟨r1, b1⟩ := p
        cases r1 <;> exact h1
    · exact Inv.noPoll rfl
  refine inv_ite (fun _ => ?_) (fun _ => ?_)
  · split <;> exact Inv.noPoll rfl
  refine inv_ite (fun _ => ?_) (fun _ => ?_)
  · split <;> exact Inv.noPoll rfl
  refine inv_ite (fun _ => ?_) (fun _ => ?_)
  · split <;> exact Inv.noPoll rfl
  refine inv_ite (fun _ => ?_) (fun _ => ?_)
  · rcases args with _ | ⟨x, _ | ⟨f, extra⟩⟩
    · exact Inv.noPoll rfl
    · cases x <;> exact Inv.noPoll rfl
    · cases x
      case atom id =>
        dsimp only
        have h1 := ih.apply k st f (st.atoms.getD id .nil :: extra) d hg
        generalize apply F st f (st.atoms.getD id .nil :: extra) d = p at h1 ⊢
        obtain ⟨r1, b1⟩ := p
        cases r1 with
        | ok v => exact Inv.ok_modify h1 rfl
        | err e => exact h1
        | oof => exact h1
      all_goals exact Inv.noPoll rfl
  refine inv_ite (fun _ => ?_) (fun _ => ?_)
  · rcases args with _ | ⟨v, _ | ⟨i, _ | ⟨f, _ | ⟨y, rest⟩⟩⟩⟩
    · exact Inv.noPoll rfl
    · cases v <;> exact Inv.noPoll rfl
    · cases v <;> exact Inv.noPoll rfl
    · cases v
      case nil => exact Inv.noPoll rfl
      all_goals exact ih.update1 k st _ i f d hg
    · cases v <;> exact Inv.noPoll rfl
  refine inv_ite (fun _ => ?_) (fun _ => ?_)
  · rcases args with _ | ⟨v, _ | ⟨i, _ | ⟨f, _ | ⟨y, rest⟩⟩⟩⟩
    · exact Inv.noPoll rfl
    · exact Inv.noPoll rfl
    · cases i <;> exact Inv.noPoll rfl
    · cases i
      case vec path pp =>
        cases v
        case nil => exact Inv.noPoll rfl
        all_goals exact ih.updateIn k st _ path f d hg
      all_goals exact Inv.noPoll rfl
    · cases i <;> exact Inv.noPoll rfl
  · split <;> exact Inv.noPoll rfl

/-! the arms of the loop -/

theorem cont_inv (k st env ast d) (hg : Good n st) :
    Inv n k st.ticks (okB (continueWith F d st env ast).1) (continueWith F d st env ast).2
      ((obs F).evalLoop k st env ast d) := by
  rw [continueWith_noStepper hg.2]; exact ih.evalLoop k st env ast d hg

theorem defArm_inv (k st env a1 a2 ast d) (hg : Good n st) :
    Inv n k st.ticks (okB (defArm F st env a1 a2 ast d).1) (defArm F st env a1 a2 ast d).2
      ((obs F).eval k st env a2 (d + 1)) := by
  unfold defArm
  have h1 := ih.eval k st env a2 (d + 1) hg
  generalize eval F st env a2 (d + 1) = p at h1 ⊢
  obtain ⟨r1, b1⟩ := p
  cases r1 with
  | ok res =>
    cases a1
    case sym name q => exact Inv.ok_modify h1 (set_ticks _ _ _ _)
    all_goals exact h1.weaken (by simp [okB])
  | err e => exact h1
  | oof => exact h1

theorem defmacroArm_inv (k st env a1 a2 ast d) (hg : Good n st) :
    Inv n k st.ticks (okB (defmacroArm F st env a1 a2 ast d).1) (defmacroArm F st env a1 a2 ast d).2
      ((obs F).eval k st env a2 (d + 1)) := by
  unfold defmacroArm
  have h1 := ih.eval k st env a2 (d + 1) hg
  generalize eval F st env a2 (d + 1) = p at h1 ⊢
  obtain ⟨r1, b1⟩ := p
  cases r1 with
  | ok res =>
    cases res
    case fn ps b e m q =>
      cases a1
      case sym name q => exact Inv.ok_modify h1 (set_ticks _ _ _ _)
      all_goals exact h1.weaken (by simp [okB])
    all_goals exact h1.weaken (by simp [okB])
  | err e => exact h1
  | oof => exact h1

theorem letArm_inv (k st env lst a1 d) (hg : Good n st) :
    Inv n k st.ticks (okB (letArm F st env lst a1 d).1) (letArm F st env lst a1 d).2
      (oLetArm (obs F) F k st env lst a1 d) := by
  unfold letArm oLetArm
  dsimp only
  cases seqOf? a1 with
  | none => exact Inv.noPoll rfl
  | some arr1 =>
    dsimp only
    split
    · exact Inv.noPoll rfl
    · have hg0 : Good n (st.newScope env []).1 := hg.newScope env []
      have h1 := ih.letBinds k (st.newScope env []).1 (st.newScope env []).2 arr1 a1 d hg0
      have g1 : Good n (letBinds F (st.newScope env []).1 (st.newScope env []).2 arr1 a1 d).2 :=
        hg0.frame ((frame F).letBinds pairEta)
      generalize letBinds F (st.newScope env []).1 (st.newScope env []).2 arr1 a1 d = p at h1 g1 ⊢
      obtain ⟨r1, b1⟩ := p
      cases r1 with
      | ok v =>
        simp only [andThen_ok]
        refine Inv.seq h1 rfl ?_
        have h2 := ih.doForms k b1 (st.newScope env []).2 lst 2 true d g1
        have g2 : Good n (doForms F b1 (st.newScope env []).2 lst 2 true d).2 := g1.frame ((frame F).doForms pairEta)
        generalize doForms F b1 (st.newScope env []).2 lst 2 true d = q at h2 g2 ⊢
        obtain ⟨r2, b2⟩ := q
        cases r2 with
        | ok next =>
          simp only [andThen_ok]
          exact Inv.seq h2 rfl (cont_inv ih k b2 _ next d g2)
        | err e => simp only [andThen_err]; exact h2
        | oof => simp only [andThen_oof]; exact h2
      | err e => simp only [andThen_err]; exact h1
      | oof => simp only [andThen_oof]; exact h1

theorem doArm_inv (k st env lst d) (hg : Good n st) :
    Inv n k st.ticks (okB (doArm F st env lst d).1) (doArm F st env lst d).2
      (oDoArm (obs F) F k st env lst d) := by
  unfold doArm oDoArm
  have h2 := ih.doForms k st env lst 1 true d hg
  have g2 : Good n (doForms F st env lst 1 true d).2 := hg.frame ((frame F).doForms pairEta)
  generalize doForms F st env lst 1 true d = q at h2 g2 ⊢
  obtain ⟨r2, b2⟩ := q
  cases r2 with
  | ok next =>
    simp only [andThen_ok]
    exact Inv.seq h2 rfl (cont_inv ih k b2 _ next d g2)
  | err e => simp only [andThen_err]; exact h2
  | oof => simp only [andThen_oof]; exact h2

theorem ifArm_inv (k st env lst a1 a2 d) (hg : Good n st) :
    Inv n k st.ticks (okB (ifArm F st env lst a1 a2 d).1) (ifArm F st env lst a1 a2 d).2
      (oIfArm (obs F) F k st env lst a1 a2 d) := by
  unfold ifArm oIfArm
  have h1 := ih.eval k st env a1 (d + 1) hg
  have g1 : Good n (eval F st env a1 (d + 1)).2 := hg.frame ((frame F).eval pairEta)
  generalize eval F st env a1 (d + 1) = p at h1 g1 ⊢
  obtain ⟨r1, b1⟩ := p
  cases r1 with
  | ok cond =>
    simp only [andThen_ok]
    refine Inv.seq h1 rfl ?_
    split
    · exact cont_inv ih k b1 _ a2 d g1
    · split
      · exact cont_inv ih k b1 _ _ d g1
      · exact Inv.noPoll rfl
  | err e => simp only [andThen_err]; exact h1
  | oof => simp only [andThen_oof]; exact h1

theorem callArm_inv (k st el ast d) (hg : Good n st) :
    Inv n k st.ticks (okB (callArm F st el ast d).1) (callArm F st el ast d).2
      (oCallArm (obs F) k st el d) := by
  unfold callArm oCallArm
  cases el with
  | nil => exact Inv.noPoll rfl
  | cons f args =>
    cases f
    case fn params body fenv m p =>
      dsimp only
      generalize bindParams params args = bp
      cases bp with
      | error e => dsimp only; split <;> exact Inv.noPoll rfl
      | ok data => exact cont_inv ih k _ _ body d (hg.newScope fenv data)
    case builtin name =>
      dsimp only
      have h1 := ih.callBuiltin k st name args d hg
      generalize callBuiltin F st name args d = p at h1 ⊢
      obtain ⟨r1, b1⟩ := p
      cases r1 <;> exact h1
    all_goals exact Inv.noPoll rfl

theorem appArm_inv (k st env lst ast d) (hg : Good n st) :
    Inv n k st.ticks (okB (appArm F st env lst ast d).1) (appArm F st env lst ast d).2
      (oAppArm (obs F) F k st env lst d) := by
  unfold appArm oAppArm
  have h1 := ih.evalList k st env lst d hg
  have g1 : Good n (evalList F st env lst d).2 := hg.frame ((frame F).evalList pairEta)
  generalize evalList F st env lst d = p at h1 g1 ⊢
  obtain ⟨r1, b1⟩ := p
  cases r1 with
  | ok el =>
    simp only [andThen_ok]
    exact Inv.seq h1 rfl (callArm_inv ih k b1 el ast d g1)
  | err e => simp only [andThen_err]; exact h1
  | oof => simp only [andThen_oof]; exact h1

omit ih in
theorem Good.cancelled {st : State} (hg : Good n st) (h : n ≤ st.ticks) : Cancelled st := ⟨n, hg.1, h⟩

omit ih in
/-- a non-empty sequence entered after the deadline does not return a value -/
theorem doForms_cancelled_notok {st : State} (hc : Cancelled st) (hs : st.stepper = none) (F env x xs d) :
    okB (doForms F st env (x :: xs) 0 false d).1 = false := by
  cases F with
  | zero => rw [doForms]; rfl
  | succ F =>
    rw [doForms_noStepper hs]
    simp only [List.length_cons, Nat.le_zero_eq, Nat.add_one_ne_zero, ↓reduceIte, Bool.false_eq_true, List.drop_zero]
    cases F with
    | zero => rw [evalList]; rfl
    | succ F =>
      rw [evalList]
      rcases eval_cancelled_any hc hs F env x (d + 1) with e | e <;> rw [e] <;> rfl

theorem handler_facts (k' : List Fr) (parts : TryParts) (env d : Nat) (rb : R) (hg1 : Good n rb.2)
    (hne : ∀ h, parts.catchDo = some h → h ≠ []) :
    Inv n k' rb.2.ticks (okB (handlerStage F parts env d rb).1) (handlerStage F parts env d rb).2
      (oHandler (obs F) k' parts env d rb) ∧
    (okB rb.1 = true → (handlerStage F parts env d rb).2 = rb.2 ∧ okB (handlerStage F parts env d rb).1 = true) ∧
    (n < rb.2.ticks → okB rb.1 = false →
      okB (handlerStage F parts env d rb).1 = false ∧ Quiet rb.2 (handlerStage F parts env d rb).2) := by
  obtain ⟨r, s1⟩ := rb
  cases r with
  | ok v => exact ⟨Inv.noPoll rfl, fun _ => ⟨rfl, rfl⟩, fun _ h => by cases h⟩
  | oof => exact ⟨Inv.noPoll rfl, fun h => (by cases h), fun _ _ => ⟨rfl, Quiet.refl _⟩⟩
  | err e =>
    refine ⟨?_, fun h => (by cases h), fun hlt _ => ?_⟩
    · unfold handlerStage oHandler
      dsimp only
      cases parts.catchDo with
      | none => exact Inv.noPoll rfl
      | some handler =>
        cases parts.catchBind with
        | none => exact Inv.noPoll rfl
        | some bind =>
          dsimp only
          cases bindParams (.list [bind] none) [caughtValue e] with
          | error be => exact Inv.noPoll rfl
          | ok data => exact ih.doForms k' _ _ handler 0 false d (Good.newScope hg1 env data)
    · unfold handlerStage
      dsimp only
      cases hcd : parts.catchDo with
      | none => exact ⟨rfl, Quiet.refl _⟩
      | some handler =>
        cases parts.catchBind with
        | none => exact ⟨rfl, Quiet.refl _⟩
        | some bind =>
          dsimp only
          cases bindParams (.list [bind] none) [caughtValue e] with
          | error be => exact ⟨rfl, Quiet.refl _⟩
          | ok data =>
            dsimp only
            have hc : Cancelled (s1.newScope env data).1 := (Good.cancelled hg1 (Nat.le_of_lt hlt)).newScope env data
            have hs : (s1.newScope env data).1.stepper = none := hg1.2
            obtain ⟨x, xs, rfl⟩ : ∃ x xs, handler = x :: xs := by
              cases handler with
              | nil => exact absurd rfl (hne _ hcd)
              | cons x xs => exact ⟨x, xs, rfl⟩
            refine ⟨doForms_cancelled_notok hc hs F _ x xs d, ?_⟩
            have := (doForms_cancelled_any hc hs F (s1.newScope env data).2 (x :: xs) 0 false d).same
            exact ⟨this.1, this.2.1, this.2.2.2⟩

theorem finally_facts (k' : List Fr) (parts : TryParts) (env d : Nat) (rh : R) (hg2 : Good n rh.2) :
    ∃ ok3, Inv n k' rh.2.ticks ok3 (finallyStage F parts env d rh).2 (oFinally (obs F) k' parts env d rh) ∧
      (okB (finallyStage F parts env d rh).1 = true → okB rh.1 = true) ∧
      (parts.finallyDo = none →
        (finallyStage F parts env d rh).2 = rh.2 ∧ oFinally (obs F) k' parts env d rh = none) := by
  obtain ⟨r, s2⟩ := rh
  have hs2 : s2.stepper = none := hg2.2
  have hdefer : outing1Defer s2 = s2 := by simp only [outing1Defer, hs2]
  have key : ∀ r : Res Val, r ≠ .oof →
      (∃ ok3, Inv n k' s2.ticks ok3 (finallyStage F parts env d (r, s2)).2 (oFinally (obs F) k' parts env d (r, s2)) ∧
      (okB (finallyStage F parts env d (r, s2)).1 = true → okB r = true) ∧
      (parts.finallyDo = none →
        (finallyStage F parts env d (r, s2)).2 = s2 ∧ oFinally (obs F) k' parts env d (r, s2) = none)) := by
    intro r hr
    have e1 : finallyStage F parts env d (r, s2) =
        match parts.finallyDo with
        | none => (r, outing1Defer s2)
        | some fin =>
          match doForms F s2 env fin 0 false d with
          | (.oof, st) => (.oof, st)
          | (_, st) => (r, st) := by
      cases r <;> first | rfl | exact absurd rfl hr
    have e2 : oFinally (obs F) k' parts env d (r, s2) =
        match parts.finallyDo with
        | none => none
        | some fin => (obs F).doForms k' s2 env fin 0 false d := by
      cases r <;> first | rfl | exact absurd rfl hr
    rw [e1, e2]
    cases parts.finallyDo with
    | none => exact ⟨false, by rw [hdefer]; exact Inv.noPoll rfl, fun h => h, fun _ => ⟨hdefer, rfl⟩⟩
    | some fin =>
      dsimp only
      have h1 := ih.doForms k' s2 env fin 0 false d hg2
      generalize doForms F s2 env fin 0 false d = q at h1 ⊢
      obtain ⟨r3, s3⟩ := q
      refine ⟨okB r3, ?_, ?_, fun h => by cases h⟩
      · cases r3 <;> exact h1
      · cases r3 <;> first | exact fun h => h | (intro h; cases h)
  cases r with
  | oof => exact ⟨false, Inv.noPoll rfl, fun h => h, fun _ => ⟨rfl, rfl⟩⟩
  | ok v => exact key _ (by simp)
  | err e => exact key _ (by simp)

theorem tryArm_inv (k st env parts d) (hg : Good n st) (hta : st.ticks ≤ n)
    (hne : ∀ h, parts.catchDo = some h → h ≠ []) :
    Inv n k st.ticks (okB (tryArm F st env parts d).1) (tryArm F st env parts d).2
      (oTryArm (obs F) F k st env parts d) := by
  unfold tryArm oTryArm
  dsimp only
  have h1 := ih.doForms (Fr.tr parts.finallyDo.isSome :: k) st env parts.body 0 false d hg
  have g1 : Good n (doForms F st env parts.body 0 false d).2 := hg.frame ((frame F).doForms pairEta)
  generalize doForms F st env parts.body 0 false d = rb at h1 g1 ⊢
  obtain ⟨h2, hH, hB2⟩ := handler_facts ih (Fr.tr parts.finallyDo.isSome :: k) parts env d rb g1 hne
  have g2 : Good n (handlerStage F parts env d rb).2 :=
    g1.frame (handlerStage_rel frame_stepRel (frame F) (frame_stepRel.refl _))
  generalize handlerStage F parts env d rb = rh at h2 hH hB2 g2 ⊢
  obtain ⟨ok3, h3, hokf, hB3⟩ := finally_facts ih (Fr.tr parts.finallyDo.isSome :: k) parts env d rh g2
  refine Inv.try3 hta h1 h2 h3 hH hokf (fun _ => hB2) (fun hf => hB3 ?_)
  cases hfd : parts.finallyDo with
  | none => rfl
  | some fin => rw [hfd] at hf; cases hf

theorem tryForm_inv (k st env lst operands ast d) (hg : Good n st) (hta : st.ticks ≤ n) :
    Inv n k st.ticks (okB (tryForm F st env lst operands ast d).1) (tryForm F st env lst operands ast d).2
      (oTryForm (obs F) F k st env lst operands d) := by
  unfold tryForm oTryForm
  split
  · exact Inv.noPoll rfl
  · cases hsp : splitTry lst with
    | error msg => exact Inv.noPoll rfl
    | ok parts => exact tryArm_inv ih k st env parts d hg hta (splitTry_handler_ne hsp)

theorem dispatch_inv (k st env ast a0 operands pos d) (hg : Good n st) (hta : st.ticks ≤ n) :
    Inv n k st.ticks (okB (dispatch F st env ast a0 operands pos d).1) (dispatch F st env ast a0 operands pos d).2
      (oDispatch (obs F) F k st env a0 operands d) := by
  unfold dispatch oDispatch
  dsimp only
  refine inv_ite (fun _ => ?_) (fun _ => ?_)
  · exact defArm_inv ih k st env _ _ ast d hg
  refine inv_ite (fun _ => ?_) (fun _ => ?_)
  · exact letArm_inv ih k st env _ _ d hg
  refine inv_ite (fun _ => ?_) (fun _ => ?_)
  · exact Inv.noPoll rfl
  refine inv_ite (fun _ => ?_) (fun _ => ?_)
  · exact Inv.noPoll rfl
  refine inv_ite (fun _ => ?_) (fun _ => ?_)
  · exact cont_inv ih k st env _ d hg
  refine inv_ite (fun _ => ?_) (fun _ => ?_)
  · exact defmacroArm_inv ih k st env _ _ ast d hg
  refine inv_ite (fun _ => ?_) (fun _ => ?_)
  · exact (ih.macroexpand k st env _ d hg).inv
  refine inv_ite (fun _ => ?_) (fun _ => ?_)
  · exact tryForm_inv ih k st env _ operands ast d hg hta
  refine inv_ite (fun _ => ?_) (fun _ => ?_)
  · exact doArm_inv ih k st env _ d hg
  refine inv_ite (fun _ => ?_) (fun _ => ?_)
  · exact ifArm_inv ih k st env _ _ _ d hg
  refine inv_ite (fun _ => ?_) (fun _ => ?_)
  · unfold fnArm; split <;> exact Inv.noPoll rfl
  · exact appArm_inv ih k st env _ ast d hg

theorem afterExpand_inv (k st env ast d) (hg : Good n st) (hta : st.ticks ≤ n) :
    Inv n k st.ticks (okB (afterExpand F st env ast d).1) (afterExpand F st env ast d).2
      (oAfterExpand (obs F) F k st env ast d) := by
  unfold afterExpand oAfterExpand
  split
  · exact Inv.noPoll rfl
  · exact dispatch_inv ih k st env _ _ _ _ d hg hta
  · rename_i h1 h2
    split
    · exact absurd rfl (h1 _)
    · exact absurd rfl (h2 _ _ _)
    · exact ih.evalAst k st env ast d hg

/-! the same pieces entered after the deadline (only reachable behind a macro expansion that returned a value
    after the cut) -/

theorem tryArm_W (st env parts d) (hg : Good n st) (hlt : n < st.ticks)
    (hne : ∀ h, parts.catchDo = some h → h ≠ []) :
    W st.ticks (okB (tryArm F st env parts d).1) (tryArm F st env parts d).2 := by
  unfold tryArm
  have h1 := ih.doForms [] st env parts.body 0 false d hg
  have g1 : Good n (doForms F st env parts.body 0 false d).2 := hg.frame ((frame F).doForms pairEta)
  generalize doForms F st env parts.body 0 false d = rb at h1 g1 ⊢
  obtain ⟨h2, hH, _⟩ := handler_facts ih [] parts env d rb g1 hne
  have g2 : Good n (handlerStage F parts env d rb).2 :=
    g1.frame (handlerStage_rel frame_stepRel (frame F) (frame_stepRel.refl _))
  generalize handlerStage F parts env d rb = rh at h2 hH g2 ⊢
  obtain ⟨ok3, h3, hokf, _⟩ := finally_facts ih [] parts env d rh g2
  have l1 := h1.le
  have l2 := h2.le
  have l3 := h3.le
  have p1 := h1.post hlt
  have p2 := h2.post (by omega)
  have p3 := h3.post (by omega)
  have o3 := ite01_le ok3
  refine ⟨by omega, ?_⟩
  generalize okB (finallyStage F parts env d rh).1 = okf at hokf ⊢
  have hokf' : (if okf = true then 1 else 0) ≤ (if okB rh.1 = true then 1 else 0) := by
    cases okf <;> cases h : okB rh.1 <;> simp_all
  cases h : okB rb.1 with
  | true =>
    obtain ⟨q1, q2⟩ := hH h
    rw [h] at p1; rw [q2] at hokf'; rw [q1] at p3
    simp at p1 hokf'; omega
  | false =>
    rw [h] at p1
    simp at p1; omega

theorem tryForm_W (st env lst operands ast d) (hg : Good n st) (hlt : n < st.ticks) :
    W st.ticks (okB (tryForm F st env lst operands ast d).1) (tryForm F st env lst operands ast d).2 := by
  unfold tryForm
  split
  · exact (Inv.noPoll (k := []) rfl).toW hlt
  · cases hsp : splitTry lst with
    | error msg => exact (Inv.noPoll (k := []) rfl).toW hlt
    | ok parts => exact tryArm_W ih st env parts d hg hlt (splitTry_handler_ne hsp)

omit ih in
theorem w_ite {c : Prop} [Decidable c] {x y : R}
    (hx : c → W ta (okB x.1) x.2) (hy : ¬c → W ta (okB y.1) y.2) :
    W ta (okB (if c then x else y).1) (if c then x else y).2 := by
  split
  · exact hx ‹_›
  · exact hy ‹_›

theorem dispatch_W (st env ast a0 operands pos d) (hg : Good n st) (hlt : n < st.ticks) :
    W st.ticks (okB (dispatch F st env ast a0 operands pos d).1) (dispatch F st env ast a0 operands pos d).2 := by
  unfold dispatch
  dsimp only
  refine w_ite (fun _ => ?_) (fun _ => ?_)
  · exact (defArm_inv ih [] st env _ _ ast d hg).toW hlt
  refine w_ite (fun _ => ?_) (fun _ => ?_)
  · exact (letArm_inv ih [] st env _ _ d hg).toW hlt
  refine w_ite (fun _ => ?_) (fun _ => ?_)
  · exact (Inv.noPoll (k := []) rfl).toW hlt
  refine w_ite (fun _ => ?_) (fun _ => ?_)
  · exact (Inv.noPoll (k := []) rfl).toW hlt
  refine w_ite (fun _ => ?_) (fun _ => ?_)
  · exact (cont_inv ih [] st env _ d hg).toW hlt
  refine w_ite (fun _ => ?_) (fun _ => ?_)
  · exact (defmacroArm_inv ih [] st env _ _ ast d hg).toW hlt
  refine w_ite (fun _ => ?_) (fun _ => ?_)
  · exact (ih.macroexpand [] st env _ d hg).inv.toW hlt
  refine w_ite (fun _ => ?_) (fun _ => ?_)
  · exact tryForm_W ih st env _ operands ast d hg hlt
  refine w_ite (fun _ => ?_) (fun _ => ?_)
  · exact (doArm_inv ih [] st env _ d hg).toW hlt
  refine w_ite (fun _ => ?_) (fun _ => ?_)
  · exact (ifArm_inv ih [] st env _ _ _ d hg).toW hlt
  refine w_ite (fun _ => ?_) (fun _ => ?_)
  · unfold fnArm; split <;> exact (Inv.noPoll (k := []) rfl).toW hlt
  · exact (appArm_inv ih [] st env _ ast d hg).toW hlt

theorem afterExpand_W (st env ast d) (hg : Good n st) (hlt : n < st.ticks) :
    W st.ticks (okB (afterExpand F st env ast d).1) (afterExpand F st env ast d).2 := by
  unfold afterExpand
  split
  · exact (Inv.noPoll (k := []) rfl).toW hlt
  · exact dispatch_W ih st env _ _ _ _ d hg hlt
  · exact (ih.evalAst [] st env ast d hg).toW hlt

theorem liveBody_inv (k st env ast d) (hg : Good n st) (hta : st.ticks ≤ n) :
    Inv n k st.ticks (okB (liveBody F st env ast d).1) (liveBody F st env ast d).2
      (oLiveBody (obs F) F k st env ast d) := by
  unfold liveBody oLiveBody
  cases ast
  case list xs pos =>
    dsimp only
    have h1 := ih.macroexpand k st env (.list xs pos) d hg
    have g1 : Good n (macroexpand F st env (.list xs pos) d).2 := hg.frame ((frame F).macroexpand pairEta)
    generalize macroexpand F st env (.list xs pos) d = p at h1 g1 ⊢
    obtain ⟨r1, b1⟩ := p
    cases r1 with
    | ok v =>
      simp only [andThen_ok]
      exact InvM.seq_after h1 hta rfl (fun hb => afterExpand_inv ih k b1 env v d g1 hb)
        (fun hb => afterExpand_W ih b1 env v d g1 hb)
    | err e => simp only [andThen_err]; exact h1.inv
    | oof => simp only [andThen_oof]; exact h1.inv
  all_goals exact ih.evalAst k st env _ d hg

theorem evalLoop_inv (k st env ast d) (hg : Good n st) :
    Inv n k st.ticks (okB (evalLoop (F + 1) st env ast d).1) (evalLoop (F + 1) st env ast d).2
      (oLoopBody (obs F) F k st env ast d) := by
  rw [evalLoop_succ]; unfold loopBody oLoopBody
  by_cases hc : n ≤ st.ticks
  · rw [poll_cancelled (hg.cancelled hc)]
    simp only [↓reduceIte]
    refine ⟨Nat.le_succ _, fun h => (by cases h), fun _ => Nat.le_refl _, fun sc stk h => ?_⟩
    simp only [Option.some.injEq, Prod.mk.injEq] at h
    obtain ⟨rfl, rfl⟩ := h
    refine ⟨by omega, Nat.lt_succ_self _, [], rfl, ?_, fun _ => ⟨rfl, rfl, rfl, rfl⟩⟩
    show st.ticks + 1 + 0 ≤ _
    omega
  · have hl : Live st := by
      intro m hm; rw [hg.1] at hm; cases hm; omega
    rw [poll_of_live hl]
    simp only [Bool.false_eq_true, ↓reduceIte]
    exact Inv.tick (by omega) (liveBody_inv ih k (tick st) env ast d hg.tick (by simp only [tick_ticks]; omega))

theorem allInv_succ : AllInv n (F + 1) where
  eval k st env ast d hg := by rw [eval_noStepper hg.2]; exact ih.evalLoop k st env ast d hg
  evalLoop := evalLoop_inv ih
  evalAst := evalAst_inv ih
  evalList := evalList_inv ih
  evalMap := evalMap_inv ih
  doForms := doForms_inv ih
  letBinds := letBinds_inv ih
  macroexpand := macroexpand_inv ih
  apply := apply_inv ih
  mapLoop := mapLoop_inv ih
  updateIn := updateIn_inv ih
  update1 := update1_inv ih
  callBuiltin := callBuiltin_inv ih

end step

/-- the invariant holds for every function of the block, at every fuel -/
theorem allInv (n : Nat) : ∀ F, AllInv n F
  | 0 => allInv_zero
  | F + 1 => allInv_succ (allInv n F)

/-! ## §4 the closed form -/

/-- `T`: the number of frames (`try` forms and macro expansions) live on the evaluation stack at the moment
    of the first cancelled poll; 0 for a run that never saw a cancelled poll -/
def liveFrames : Cut → Nat
  | none => 0
  | some (_, stk) => stk.length

/-- the closed-form bound of one run from `st` to `b` with cut `c` -/
def Bound (n : Nat) (st b : State) (c : Cut) : Prop :=
  b.ticks ≤ max st.ticks n + 1 + 2 * liveFrames c

/-- effects stop at the cut when no frame live at the cut is a `try` with a `finally` clause: the run returns
    no value and the final trace / marks / atom store are those of the state in which the first cancelled
    poll was performed (which happened at poll `max st.ticks n`) -/
def EffectsStopAtCut (n : Nat) (st : State) (ok : Bool) (b : State) (c : Cut) : Prop :=
  ∀ sc stk, c = some (sc, stk) → sc.ticks = max st.ticks n ∧
    ((∀ x ∈ stk, x.swallows = false) →
      ok = false ∧ b.trace = sc.trace ∧ b.marks = sc.marks ∧ b.atoms = sc.atoms)

theorem Inv.bound {st b : State} {ok : Bool} {c : Cut} (h : Inv n [] st.ticks ok b c) : Bound n st b c := by
  unfold Bound
  cases c with
  | none => have := h.none_le rfl; simp only [liveFrames]; omega
  | some x =>
    obtain ⟨sc, stk⟩ := x
    obtain ⟨_, _, ext, e3, e5, _⟩ := h.cut sc stk rfl
    simp only [List.append_nil] at e3
    subst e3
    have := ite01_le ok
    simp only [liveFrames]; omega

theorem Inv.effects {st b : State} {ok : Bool} {c : Cut} (h : Inv n [] st.ticks ok b c) :
    EffectsStopAtCut n st ok b c := by
  intro sc stk hc
  obtain ⟨e1, _, ext, e3, _, e6⟩ := h.cut sc stk hc
  simp only [List.append_nil] at e3
  subst e3
  exact ⟨e1, fun ha => e6 ha⟩

/-- a run without a cut never saw a cancelled poll -/
theorem Inv.no_cut {st b : State} {ok : Bool} {c : Cut} (h : Inv n [] st.ticks ok b c) (hc : c = none) :
    b.ticks ≤ max st.ticks n := h.none_le hc

/-- the closed form, for every function of the block -/
theorem closed_form_all (n F : Nat) (st : State) (hc : st.cancelAt = some n) (hs : st.stepper = none) (env d : Nat) :
    (∀ ast, Bound n st (eval F st env ast d).2 ((obs F).eval [] st env ast d)) ∧
    (∀ ast, Bound n st (evalLoop F st env ast d).2 ((obs F).evalLoop [] st env ast d)) ∧
    (∀ ast, Bound n st (evalAst F st env ast d).2 ((obs F).evalAst [] st env ast d)) ∧
    (∀ xs, Bound n st (evalList F st env xs d).2 ((obs F).evalList [] st env xs d)) ∧
    (∀ kvs, Bound n st (evalMap F st env kvs d).2 ((obs F).evalMap [] st env kvs d)) ∧
    (∀ lst fr kl, Bound n st (doForms F st env lst fr kl d).2 ((obs F).doForms [] st env lst fr kl d)) ∧
    (∀ bs a1, Bound n st (letBinds F st env bs a1 d).2 ((obs F).letBinds [] st env bs a1 d)) ∧
    (∀ ast, Bound n st (macroexpand F st env ast d).2 ((obs F).macroexpand [] st env ast d)) ∧
    (∀ f args, Bound n st (apply F st f args d).2 ((obs F).apply [] st f args d)) ∧
    (∀ f xs, Bound n st (mapLoop F st f xs d).2 ((obs F).mapLoop [] st f xs d)) ∧
    (∀ v path f, Bound n st (updateIn F st v path f d).2 ((obs F).updateIn [] st v path f d)) ∧
    (∀ v i f, Bound n st (update1 F st v i f d).2 ((obs F).update1 [] st v i f d)) ∧
    (∀ name args, Bound n st (callBuiltin F st name args d).2 ((obs F).callBuiltin [] st name args d)) :=
  have A := allInv n F
  have hg : Good n st := ⟨hc, hs⟩
  ⟨fun _ => (A.eval [] st env _ d hg).bound, fun _ => (A.evalLoop [] st env _ d hg).bound,
   fun _ => (A.evalAst [] st env _ d hg).bound, fun _ => (A.evalList [] st env _ d hg).bound,
   fun _ => (A.evalMap [] st env _ d hg).bound, fun _ _ _ => (A.doForms [] st env _ _ _ d hg).bound,
   fun _ _ => (A.letBinds [] st env _ _ d hg).bound, fun _ => (A.macroexpand [] st env _ d hg).inv.bound,
   fun _ _ => (A.apply [] st _ _ d hg).bound, fun _ _ => (A.mapLoop [] st _ _ d hg).bound,
   fun _ _ _ => (A.updateIn [] st _ _ _ d hg).bound, fun _ _ _ => (A.update1 [] st _ _ _ d hg).bound,
   fun _ _ => (A.callBuiltin [] st _ _ d hg).bound⟩

/-- effects stop at the cut, for every function of the block -/
theorem effects_all (n F : Nat) (st : State) (hc : st.cancelAt = some n) (hs : st.stepper = none) (env d : Nat) :
    (∀ ast, EffectsStopAtCut n st (okB (eval F st env ast d).1) (eval F st env ast d).2
      ((obs F).eval [] st env ast d)) ∧
    (∀ ast, EffectsStopAtCut n st (okB (evalLoop F st env ast d).1) (evalLoop F st env ast d).2
      ((obs F).evalLoop [] st env ast d)) ∧
    (∀ ast, EffectsStopAtCut n st (okB (evalAst F st env ast d).1) (evalAst F st env ast d).2
      ((obs F).evalAst [] st env ast d)) ∧
    (∀ xs, EffectsStopAtCut n st (okB (evalList F st env xs d).1) (evalList F st env xs d).2
      ((obs F).evalList [] st env xs d)) ∧
    (∀ kvs, EffectsStopAtCut n st (okB (evalMap F st env kvs d).1) (evalMap F st env kvs d).2
      ((obs F).evalMap [] st env kvs d)) ∧
    (∀ lst fr kl, EffectsStopAtCut n st (okB (doForms F st env lst fr kl d).1) (doForms F st env lst fr kl d).2
      ((obs F).doForms [] st env lst fr kl d)) ∧
    (∀ bs a1, EffectsStopAtCut n st (okB (letBinds F st env bs a1 d).1) (letBinds F st env bs a1 d).2
      ((obs F).letBinds [] st env bs a1 d)) ∧
    (∀ ast, EffectsStopAtCut n st (okB (macroexpand F st env ast d).1) (macroexpand F st env ast d).2
      ((obs F).macroexpand [] st env ast d)) ∧
    (∀ f args, EffectsStopAtCut n st (okB (apply F st f args d).1) (apply F st f args d).2
      ((obs F).apply [] st f args d)) ∧
    (∀ f xs, EffectsStopAtCut n st (okB (mapLoop F st f xs d).1) (mapLoop F st f xs d).2
      ((obs F).mapLoop [] st f xs d)) ∧
    (∀ v path f, EffectsStopAtCut n st (okB (updateIn F st v path f d).1) (updateIn F st v path f d).2
      ((obs F).updateIn [] st v path f d)) ∧
    (∀ v i f, EffectsStopAtCut n st (okB (update1 F st v i f d).1) (update1 F st v i f d).2
      ((obs F).update1 [] st v i f d)) ∧
    (∀ name args, EffectsStopAtCut n st (okB (callBuiltin F st name args d).1) (callBuiltin F st name args d).2
      ((obs F).callBuiltin [] st name args d)) :=
  have A := allInv n F
  have hg : Good n st := ⟨hc, hs⟩
  ⟨fun _ => (A.eval [] st env _ d hg).effects, fun _ => (A.evalLoop [] st env _ d hg).effects,
   fun _ => (A.evalAst [] st env _ d hg).effects, fun _ => (A.evalList [] st env _ d hg).effects,
   fun _ => (A.evalMap [] st env _ d hg).effects, fun _ _ _ => (A.doForms [] st env _ _ _ d hg).effects,
   fun _ _ => (A.letBinds [] st env _ _ d hg).effects, fun _ => (A.macroexpand [] st env _ d hg).inv.effects,
   fun _ _ => (A.apply [] st _ _ d hg).effects, fun _ _ => (A.mapLoop [] st _ _ d hg).effects,
   fun _ _ _ => (A.updateIn [] st _ _ _ d hg).effects, fun _ _ _ => (A.update1 [] st _ _ _ d hg).effects,
   fun _ _ => (A.callBuiltin [] st _ _ d hg).effects⟩

/-- a run of `EVAL` whose cut is `none` never saw a cancelled poll -/
theorem eval_no_cut (n F : Nat) (st : State) (hc : st.cancelAt = some n) (hs : st.stepper = none) (env : Nat)
    (ast : Val) (d : Nat) (h : (obs F).eval [] st env ast d = none) :
    (eval F st env ast d).2.ticks ≤ max st.ticks n :=
  ((allInv n F).eval [] st env ast d ⟨hc, hs⟩).no_cut h

/-! ### the timeout can be discarded: an effect after the cut -/

/-- `(do (def f (fn () (f))) (trace! (try 1 (finally (f)))))`: the deferred `finally` run spins until the
    deadline, its timeout error is discarded (`defer func() { _, _ = do(ctx, finallyDo, …) }()`), the try form
    returns 1 and `trace!` — whose loop iteration polled long before — is applied to it -/
def swallowProg : Val :=
  .list [.sym "do" none,
    .list [.sym "def" none, .sym "f" none, .list [.sym "fn" none, .list [] none, .list [.sym "f" none] none] none] none,
    .list [.sym "trace!" none,
      .list [.sym "try" none, .int 1, .list [.sym "finally" none, .list [.sym "f" none] none] none] none] none] none

def swallowState : State := { initState with cancelAt := some 12 }

/-- what can be decided about a cut: poll count and trace length of its state, and the frames -/
def cutInfo (c : Cut) : Option (Nat × Nat × List Fr) := c.map fun x => (x.1.ticks, x.1.trace.length, x.2)

theorem swallow_effect :
    ∃ sc stk, (obs 60).eval [] swallowState 0 swallowProg 0 = some (sc, stk) ∧ sc.ticks = 12 ∧
      stk = [.tr true] ∧ sc.trace = [] ∧ (eval 60 swallowState 0 swallowProg 0).2.trace.length = 1 ∧
      (eval 60 swallowState 0 swallowProg 0).2.ticks = 13 ∧ okB (eval 60 swallowState 0 swallowProg 0).1 = true := by
  have h : cutInfo ((obs 60).eval [] swallowState 0 swallowProg 0) = some (12, 0, [.tr true]) ∧
      (eval 60 swallowState 0 swallowProg 0).2.trace.length = 1 ∧
      (eval 60 swallowState 0 swallowProg 0).2.ticks = 13 ∧
      okB (eval 60 swallowState 0 swallowProg 0).1 = true := by decide +kernel
  obtain ⟨h1, h2, h3, h4⟩ := h
  cases hc : (obs 60).eval [] swallowState 0 swallowProg 0 with
  | none => rw [hc] at h1; cases h1
  | some x =>
    obtain ⟨sc, stk⟩ := x
    rw [hc] at h1
    simp only [cutInfo, Option.map_some, Option.some.injEq, Prod.mk.injEq] at h1
    exact ⟨sc, stk, rfl, h1.1, h1.2.2, List.eq_nil_of_length_eq_zero h1.2.1, h2, h3, h4⟩

/-- so "the final trace is the trace at the cut" does not hold for every run -/
theorem swallow_refutes
    (h : ∀ (n F : Nat) (st : State), st.cancelAt = some n → st.stepper = none →
      ∀ (env : Nat) (ast : Val) (d : Nat) (sc : State) (stk : List Fr),
        (obs F).eval [] st env ast d = some (sc, stk) → (eval F st env ast d).2.trace = sc.trace) : False := by
  obtain ⟨sc, stk, hc, _, _, htr, hlen, _⟩ := swallow_effect
  have := h 12 60 swallowState rfl rfl 0 swallowProg 0 sc stk hc
  rw [this, htr] at hlen; cases hlen

end LispModel.Proofs.EvalCancelBound

/-
  Proofs for C07 (cancellation) — and the common base used by EvalTry.lean / EvalTail.lean:

  §1  one-step equations of `evalLoop`: the loop body cut into named, non-recursive "arm" functions
      (`loopBody`, `dispatch`, `defArm`, `letArm`, `tryArm`, `appArm`, …) that are *literal copies* of the
      corresponding pieces of `evalLoop` (the equation `evalLoop_succ` is proved by `rfl`);
  §2  a generic invariant theorem: every reflexive–transitive relation on states that is respected by the
      primitive state steps (poll, `Env.Set`, new scope, new atom, trace/mark append, atom store, stepper
      flag updates when a stepper is installed) is respected by all thirteen functions of the mutual block;
      instances: `stepper = none` is preserved, `cancelAt` never changes, `ticks` only grows;
  §3  the cancellation laws of C07.

  All times are poll ticks of the model; wall-clock latency is outside the model.
-/
import LispModel.Eval
namespace LispModel.Proofs.EvalCancel
open LispModel LispModel.Core

/-! ## §1 the loop body, cut into arms -/

/-- `continue` of the TCO loop (`if Stepper != nil { return EVAL(ctx, ast, env) }`) -/
def continueWith (F : Nat) (d : Nat) (st : State) (env : Nat) (ast : Val) : R :=
  match st.stepper with
  | none => evalLoop F st env ast d
  | some _ => eval F st env ast (d + 1)

def defArm (fuel : Nat) (st : State) (env : Nat) (a1 a2 ast : Val) (d : Nat) : R :=
  match eval fuel st env a2 (d + 1) with
  | (.ok res, st) =>
    (match a1 with
     | .sym name _ => (.ok res, st.set env name res)
     | _ => (.err (newLispError (.plain "cannot use value as identifier") ast), st))
  | r => r

def letArm (fuel : Nat) (st : State) (env : Nat) (lst : List Val) (a1 : Val) (d : Nat) : R :=
  let (st, letEnv) := st.newScope env []
  match seqOf? a1 with
  | none => (.err (.plain "GetSlice called on non-sequence"), st)
  | some arr1 =>
    if arr1.length % 2 ≠ 0 then (.err (newLispError (.plain "let: odd elements on binding vector") a1), st)
    else
      match letBinds fuel st letEnv arr1 a1 d with
      | (.ok _, st) =>
        (match doForms fuel st letEnv lst 2 true d with
         | (.ok next, st) => continueWith fuel d st letEnv next
         | r => r)
      | r => r

def defmacroArm (fuel : Nat) (st : State) (env : Nat) (a1 a2 ast : Val) (d : Nat) : R :=
  match eval fuel st env a2 (d + 1) with
  | (.ok f, st) =>
    (match f with
     | .fn ps b e _ p =>
       (match a1 with
        | .sym name _ => let m := Val.fn ps b e true p; (.ok m, st.set env name m)
        | _ => (.err (newLispError (.plain "cannot use value as identifier") ast), st))
     | _ => (.err (newLispError (.plain "defmacro requires a function") ast), st))
  | r => r

/-- second stage of `try`: the catch clause, run only when the body returned an error -/
def handlerStage (fuel : Nat) (parts : TryParts) (env d : Nat) (rb : R) : R :=
  let (r, st) := rb
  match r with
  | .ok v => (.ok v, st)
  | .oof => (.oof, st)
  | .err e =>
    (match parts.catchDo, parts.catchBind with
     | some handler, some bind =>
       (match bindParams (.list [bind] none) [caughtValue e] with
        | .error be => (.err be, st)
        | .ok data =>
          let (st, catchEnv) := st.newScope env data
          doForms fuel st catchEnv handler 0 false d)
     | _, _ => (.err e, st))

/-- third stage of `try`: the deferred `finally` forms, evaluated in the scope of the try form; their
    value or error is discarded -/
def finallyStage (fuel : Nat) (parts : TryParts) (env d : Nat) (rh : R) : R :=
  let (r, st) := rh
  match r with
  | .oof => (.oof, st)
  | _ =>
    match parts.finallyDo with
    | none => (r, outing1Defer st)      -- `do(ctx, nil, …)` still runs its `outing1` prologue
    | some fin =>
      match doForms fuel st env fin 0 false d with
      | (.oof, st) => (.oof, st)
      | (_, st) => (r, st)

def tryArm (fuel : Nat) (st : State) (env : Nat) (parts : TryParts) (d : Nat) : R :=
  finallyStage fuel parts env d (handlerStage fuel parts env d (doForms fuel st env parts.body 0 false d))

def tryForm (fuel : Nat) (st : State) (env : Nat) (lst operands : List Val) (ast : Val) (d : Nat) : R :=
  if operands.isEmpty then (.ok .nil, st) else
  match splitTry lst with
  | .error msg => (.err (newLispError (.plain msg) ast), st)
  | .ok parts => tryArm fuel st env parts d

def doArm (fuel : Nat) (st : State) (env : Nat) (lst : List Val) (d : Nat) : R :=
  match doForms fuel st env lst 1 true d with
  | (.ok next, st) => continueWith fuel d st env next
  | r => r

def ifArm (fuel : Nat) (st : State) (env : Nat) (lst : List Val) (a1 a2 : Val) (d : Nat) : R :=
  match eval fuel st env a1 (d + 1) with
  | (.ok cond, st) =>
    if truthy cond then continueWith fuel d st env a2
    else if lst.length ≥ 4 then continueWith fuel d st env (lst.getD 3 .nil)
    else (.ok .nil, st)
  | r => r

def fnArm (st : State) (env : Nat) (lst : List Val) (a1 ast : Val) (pos : Option Pos) : R :=
  if lst.length < 2 then (.err (newLispError (.plain "fn requires a parameter list") ast), st)
  else (.ok (.fn a1 (.list (.sym "do" none :: lst.drop 2) none) env false pos), st)

/-- what happens once the operator and the operands have been evaluated to `el` -/
def callArm (fuel : Nat) (st : State) (el : List Val) (ast : Val) (d : Nat) : R :=
  match el with
  | [] => (.err (.plain "empty application"), st)
  | f :: args =>
    match f with
    | .fn params body fenv _ _ =>
      (match bindParams params args with
       | .error e =>
         (match e with
          | .lisp (.goerr m) _ => (.err (.lisp (.goerr (m ++ " (around do)")) none), st)
          | e => (.err (newLispError e body), st))
       | .ok data =>
         let (st, callEnv) := st.newScope fenv data
         continueWith fuel d st callEnv body)
    | .builtin name =>
      (match callBuiltin fuel st name args d with
       | (.ok v, st) => (.ok v, st)
       | (.err e, st) => (.err (newLispError e ast), st)
       | (.oof, st) => (.oof, st))
    | _ => (.err (.lisp (.goerr "attempt to call non-function") none), st)

def appArm (fuel : Nat) (st : State) (env : Nat) (lst : List Val) (ast : Val) (d : Nat) : R :=
  match evalList fuel st env lst d with
  | (.ok el, st) => callArm fuel st el ast d
  | (.err e, st) => (.err e, st)
  | (.oof, st) => (.oof, st)

/-- the special-form dispatch on the (macro-expanded) non-empty list `ast = (a0 :: operands)` -/
def dispatch (fuel : Nat) (st : State) (env : Nat) (ast a0 : Val) (operands : List Val) (pos : Option Pos)
    (d : Nat) : R :=
  let lst := a0 :: operands
  let a1 := operands.getD 0 .nil
  let a2 := operands.getD 1 .nil
  let a0sym := match a0 with | .sym s _ => s | _ => "__<*fn>__"
  if a0sym = "def" then defArm fuel st env a1 a2 ast d
  else if a0sym = "let" then letArm fuel st env lst a1 d
  else if a0sym = "quote" then (.ok a1, st)
  else if a0sym = "quasiquoteexpand" then (.ok (quasiquote a1), st)
  else if a0sym = "quasiquote" then continueWith fuel d st env (quasiquote a1)
  else if a0sym = "defmacro" then defmacroArm fuel st env a1 a2 ast d
  else if a0sym = "macroexpand" then macroexpand fuel st env a1 d
  else if a0sym = "try" then tryForm fuel st env lst operands ast d
  else if a0sym = "do" then doArm fuel st env lst d
  else if a0sym = "if" then ifArm fuel st env lst a1 a2 d
  else if a0sym = "fn" then fnArm st env lst a1 ast pos
  else appArm fuel st env lst ast d

/-- what the loop does with the macro-expanded form -/
def afterExpand (fuel : Nat) (st : State) (env : Nat) (ast : Val) (d : Nat) : R :=
  match ast with
  | .list [] _ => (.ok ast, st)
  | .list (a0 :: operands) pos => dispatch fuel st env ast a0 operands pos d
  | _ => evalAst fuel st env ast d

/-- one iteration of the loop, after the poll said "not cancelled" -/
def liveBody (fuel : Nat) (st : State) (env : Nat) (ast : Val) (d : Nat) : R :=
  match ast with
  | .list _ _ =>
    match macroexpand fuel st env ast d with
    | (.err e, st) => (.err e, st)
    | (.oof, st) => (.oof, st)
    | (.ok ast, st) => afterExpand fuel st env ast d
  | _ => evalAst fuel st env ast d

/-- one iteration of the loop -/
def loopBody (fuel : Nat) (st : State) (env : Nat) (ast : Val) (d : Nat) : R :=
  let (done, st) := st.poll
  if done then (.err (timeoutErr ast), st) else liveBody fuel st env ast d

theorem evalLoop_succ (F : Nat) (st : State) (env : Nat) (ast : Val) (d : Nat) :
    evalLoop (F + 1) st env ast d = loopBody F st env ast d := by
  rw [evalLoop]; rfl

/-! ### basic facts: poll, tick, macro-free heads -/

/-- the state after one poll of `ctx.Done()` -/
def tick (st : State) : State := { st with ticks := st.ticks + 1 }

/-- the context is cancelled (or past its deadline) as seen from `st`: every later poll says "done" -/
def Cancelled (st : State) : Prop := ∃ n, st.cancelAt = some n ∧ n ≤ st.ticks

/-- the symbol `s` is not bound to a macro in scope `env` -/
def NotMacro (st : State) (env : Nat) (s : String) : Prop :=
  ∀ ps b e p, st.get env s ≠ some (.fn ps b e true p)

theorem poll_snd (st : State) : st.poll.2 = tick st := rfl

theorem poll_cancelled {st : State} (h : Cancelled st) : st.poll = (true, tick st) := by
  obtain ⟨n, h1, h2⟩ := h
  simp [State.poll, h1, h2, tick]

theorem poll_live {st : State} (h : st.cancelAt = none) : st.poll = (false, tick st) := by
  simp [State.poll, h, tick]

@[simp] theorem tick_stepper (st : State) : (tick st).stepper = st.stepper := rfl
@[simp] theorem tick_cancelAt (st : State) : (tick st).cancelAt = st.cancelAt := rfl
@[simp] theorem tick_trace (st : State) : (tick st).trace = st.trace := rfl
@[simp] theorem tick_marks (st : State) : (tick st).marks = st.marks := rfl
@[simp] theorem tick_scopes (st : State) : (tick st).scopes = st.scopes := rfl
@[simp] theorem tick_atoms (st : State) : (tick st).atoms = st.atoms := rfl
@[simp] theorem tick_ticks (st : State) : (tick st).ticks = st.ticks + 1 := rfl

/-- `Env.Get` only looks at the scope store -/
theorem get_congr {st st' : State} (h : st'.scopes = st.scopes) (env : Nat) (k : String) :
    st'.get env k = st.get env k := by
  simp only [State.get, h]
  generalize (st.scopes.size + 1) = n
  induction n generalizing env with
  | zero => rfl
  | succ n ih =>
    simp only [State.getAux, State.scope?, h]
    split <;> try rfl
    split <;> try rfl
    split <;> try rfl
    apply ih

@[simp] theorem tick_get (st : State) (env : Nat) (k : String) : (tick st).get env k = st.get env k :=
  get_congr (st := st) (st' := tick st) rfl env k

theorem NotMacro.tick {st : State} {env s} (h : NotMacro st env s) : NotMacro (tick st) env s := by
  intro a b c d; rw [tick_get]; exact h a b c d

theorem Cancelled.tick {st : State} (h : Cancelled st) : Cancelled (tick st) := by
  obtain ⟨n, h1, h2⟩ := h
  exact ⟨n, h1, Nat.le_succ_of_le h2⟩

theorem macroexpand_notMacro {st : State} {env s} (h : NotMacro st env s) (F p args pos d) :
    macroexpand (F + 1) st env (.list (.sym s p :: args) pos) d = (.ok (.list (.sym s p :: args) pos), st) := by
  rw [macroexpand]
  split
  · rename_i heq; exact absurd heq (h _ _ _ _)
  · rfl

/-- a form whose head is not a symbol is not macro-expanded -/
theorem macroexpand_nonSymHead (F st env d) (a0 : Val) (args pos) (h : ∀ s p, a0 ≠ .sym s p) :
    macroexpand (F + 1) st env (.list (a0 :: args) pos) d = (.ok (.list (a0 :: args) pos), st) := by
  rw [macroexpand.eq_def]
  split
  · rename_i h1; cases h1
  · split
    · rename_i h1; cases h1; exact absurd rfl (h _ _)
    · rfl

/-! ## §2 a generic invariant of the whole mutual block -/

/-- a relation between an earlier and a later state that every primitive state step respects -/
structure StepRel (Rel : State → State → Prop) : Prop where
  refl : ∀ st, Rel st st
  trans : ∀ {a b c}, Rel a b → Rel b c → Rel a c
  poll : ∀ {st b st'}, st.poll = (b, st') → Rel st st'
  set : ∀ st env k v, Rel st (st.set env k v)
  newScope : ∀ {st o data st' id}, st.newScope o data = (st', id) → Rel st st'
  newAtom : ∀ {st v st' id}, st.newAtom v = (st', id) → Rel st st'
  trace : ∀ st v, Rel st { st with trace := v :: st.trace }
  marks : ∀ st d, Rel st { st with marks := d :: st.marks }
  atoms : ∀ st id v, Rel st { st with atoms := st.atoms.setIfInBounds id v }
  /-- the debugger flags are only rewritten when a stepper is installed -/
  stepper : ∀ st sp sp', st.stepper = some sp → Rel st { st with stepper := some sp' }

/-- `Rel` holds between the initial and the final state of every function of the block, at fuel `F` -/
structure AllRel (Rel : State → State → Prop) (F : Nat) : Prop where
  eval : ∀ {st env ast d r st'}, eval F st env ast d = (r, st') → Rel st st'
  evalLoop : ∀ {st env ast d r st'}, evalLoop F st env ast d = (r, st') → Rel st st'
  evalAst : ∀ {st env ast d r st'}, evalAst F st env ast d = (r, st') → Rel st st'
  evalList : ∀ {st env xs d r st'}, evalList F st env xs d = (r, st') → Rel st st'
  evalMap : ∀ {st env xs d r st'}, evalMap F st env xs d = (r, st') → Rel st st'
  doForms : ∀ {st env lst fr kl d r st'}, doForms F st env lst fr kl d = (r, st') → Rel st st'
  letBinds : ∀ {st env bs a1 d r st'}, letBinds F st env bs a1 d = (r, st') → Rel st st'
  macroexpand : ∀ {st env ast d r st'}, macroexpand F st env ast d = (r, st') → Rel st st'
  apply : ∀ {st f args d r st'}, apply F st f args d = (r, st') → Rel st st'
  mapLoop : ∀ {st f xs d r st'}, mapLoop F st f xs d = (r, st') → Rel st st'
  updateIn : ∀ {st v path f d r st'}, updateIn F st v path f d = (r, st') → Rel st st'
  update1 : ∀ {st v i f d r st'}, update1 F st v i f d = (r, st') → Rel st st'
  callBuiltin : ∀ {st name args d r st'}, callBuiltin F st name args d = (r, st') → Rel st st'

theorem pairEta {α β} {p : α × β} : p = (p.1, p.2) := rfl

section generic
variable {Rel : State → State → Prop} (S : StepRel Rel)
include S

theorem allRel_zero : AllRel Rel 0 := by
  constructor <;> intros <;> rename_i h
  · rw [eval] at h; cases h; exact S.refl _
  · rw [evalLoop] at h; cases h; exact S.refl _
  · rw [evalAst] at h; cases h; exact S.refl _
  · rw [evalList] at h; cases h; exact S.refl _
  · rw [evalMap] at h; cases h; exact S.refl _
  · rw [doForms] at h; cases h; exact S.refl _
  · rw [letBinds] at h; cases h; exact S.refl _
  · rw [macroexpand] at h; cases h; exact S.refl _
  · rw [apply] at h; cases h; exact S.refl _
  · rw [mapLoop] at h; cases h; exact S.refl _
  · rw [updateIn] at h; cases h; exact S.refl _
  · rw [update1.eq_def] at h; cases h; exact S.refl _
  · rw [callBuiltin.eq_def] at h; cases h; exact S.refl _

variable {F : Nat} (ih : AllRel Rel F)
include ih

set_option hygiene false in
/-- close `Rel a b` by one known step -/
local macro "rel_tac" : tactic => `(tactic| first
  | exact S.refl _
  | assumption
  | exact ih.eval ‹_› | exact ih.evalLoop ‹_› | exact ih.evalAst ‹_› | exact ih.evalList ‹_›
  | exact ih.evalMap ‹_› | exact ih.doForms ‹_› | exact ih.letBinds ‹_› | exact ih.macroexpand ‹_›
  | exact ih.apply ‹_› | exact ih.mapLoop ‹_› | exact ih.updateIn ‹_› | exact ih.update1 ‹_›
  | exact ih.callBuiltin ‹_›
  | exact ih.eval pairEta | exact ih.evalLoop pairEta | exact ih.evalAst pairEta
  | exact ih.evalList pairEta | exact ih.evalMap pairEta | exact ih.doForms pairEta
  | exact ih.letBinds pairEta | exact ih.macroexpand pairEta
  | exact ih.apply pairEta | exact ih.mapLoop pairEta | exact ih.updateIn pairEta
  | exact ih.update1 pairEta | exact ih.callBuiltin pairEta
  | exact S.poll ‹_› | exact S.newScope ‹_› | exact S.newAtom ‹_›
  | exact S.poll pairEta | exact S.newScope pairEta | exact S.newAtom pairEta
  | exact S.set _ _ _ _ | exact S.trace _ _ | exact S.marks _ _ | exact S.atoms _ _ _
  | exact S.stepper _ _ _ ‹_› | exact S.newScope rfl | exact S.newAtom rfl | exact S.poll rfl)

set_option hygiene false in
/-- close `Rel a b` by peeling known steps off the right end -/
local macro "rel_chain" : tactic => `(tactic| repeat (first
  | rel_tac
  | refine S.trans ?_ (ih.eval ‹_›) | refine S.trans ?_ (ih.evalLoop ‹_›) | refine S.trans ?_ (ih.evalAst ‹_›)
  | refine S.trans ?_ (ih.evalList ‹_›)
  | refine S.trans ?_ (ih.evalMap ‹_›) | refine S.trans ?_ (ih.doForms ‹_›) | refine S.trans ?_ (ih.letBinds ‹_›)
  | refine S.trans ?_ (ih.macroexpand ‹_›)
  | refine S.trans ?_ (ih.apply ‹_›) | refine S.trans ?_ (ih.mapLoop ‹_›) | refine S.trans ?_ (ih.updateIn ‹_›)
  | refine S.trans ?_ (ih.update1 ‹_›)
  | refine S.trans ?_ (ih.callBuiltin ‹_›)
  | refine S.trans ?_ (ih.eval pairEta) | refine S.trans ?_ (ih.evalLoop pairEta)
  | refine S.trans ?_ (ih.evalList pairEta) | refine S.trans ?_ (ih.evalMap pairEta)
  | refine S.trans ?_ (ih.letBinds pairEta) | refine S.trans ?_ (ih.mapLoop pairEta)
  | refine S.trans ?_ (ih.doForms pairEta) | refine S.trans ?_ (ih.apply pairEta)
  | refine S.trans ?_ (ih.updateIn pairEta) | refine S.trans ?_ (ih.update1 pairEta)
  | refine S.trans ?_ (ih.macroexpand pairEta)
  | refine S.trans ?_ (S.poll ‹_›) | refine S.trans ?_ (S.newScope ‹_›) | refine S.trans ?_ (S.newAtom ‹_›)
  | refine S.trans ?_ (S.set _ _ _ _) | refine S.trans ?_ (S.trace _ _) | refine S.trans ?_ (S.marks _ _)
  | refine S.trans ?_ (S.atoms _ _ _) | refine S.trans ?_ (S.stepper _ _ _ ‹_›)
  | refine S.trans ?_ (S.newScope rfl) | refine S.trans ?_ (S.newAtom rfl) | refine S.trans ?_ (S.poll rfl)))

set_option hygiene false in
/-- split the goal `Rel st (…).2` to its leaves, then chain -/
local macro "rel_auto" : tactic => `(tactic| (
  repeat' (first | split | simp only [Bool.not_true, Bool.not_false, Bool.false_eq_true, ↓reduceIte])
  all_goals (try injections)
  all_goals (try subst_vars)
  all_goals (try dsimp only)
  all_goals rel_chain))

/-- unfold a fuel-matched definition at fuel `F + 1` -/
local macro "fuel_split" : tactic => `(tactic| (
  split
  · rename_i heq; cases heq
  rename_i heq; cases heq))

theorem evalAst_step {st env ast d} : Rel st (evalAst (F + 1) st env ast d).2 := by
  rw [evalAst.eq_def]; fuel_split; rel_auto

theorem macroexpand_step {st env ast d} : Rel st (macroexpand (F + 1) st env ast d).2 := by
  rw [macroexpand.eq_def]; fuel_split; rel_auto

theorem apply_step {st f args d} : Rel st (apply (F + 1) st f args d).2 := by
  rw [apply.eq_def]; fuel_split; rel_auto

theorem evalList_step {st env xs d} : Rel st (evalList (F + 1) st env xs d).2 := by
  rw [evalList.eq_def]; rel_auto

theorem evalMap_step {st env xs d} : Rel st (evalMap (F + 1) st env xs d).2 := by
  rw [evalMap.eq_def]; rel_auto

theorem letBinds_step {st env bs a1 d} : Rel st (letBinds (F + 1) st env bs a1 d).2 := by
  rw [letBinds.eq_def]; rel_auto

theorem mapLoop_step {st f xs d} : Rel st (mapLoop (F + 1) st f xs d).2 := by
  rw [mapLoop.eq_def]; rel_auto

theorem updateIn_step {st v path f d} : Rel st (updateIn (F + 1) st v path f d).2 := by
  rw [updateIn.eq_def]; rel_auto

theorem update1_step {st v i f d} : Rel st (update1 (F + 1) st v i f d).2 := by
  rw [update1.eq_def]; rel_auto

omit S ih in
theorem rel_ite {α} {st : State} {c : Prop} [Decidable c] {a b : α × State}
    (ha : c → Rel st a.2) (hb : ¬c → Rel st b.2) : Rel st (if c then a else b).2 := by
  split
  · exact ha ‹_›
  · exact hb ‹_›

theorem callBuiltin_step {st name args d} : Rel st (callBuiltin (F + 1) st name args d).2 := by
  rw [callBuiltin.eq_def]; fuel_split; dsimp only
  repeat' (refine rel_ite (fun _ => ?_) (fun _ => ?_))
  all_goals rel_auto

theorem doForms_step {st env lst fr kl d} : Rel st (doForms (F + 1) st env lst fr kl d).2 := by
  rw [doForms.eq_def]; fuel_split; dsimp only; rel_auto

theorem eval_step {st env ast d} : Rel st (eval (F + 1) st env ast d).2 := by
  rw [eval.eq_def]; fuel_split; dsimp only; rel_auto

omit ih in
theorem outing1Defer_rel (st : State) : Rel st (outing1Defer st) := by
  unfold outing1Defer
  split
  · split
    · exact S.stepper _ _ _ ‹_›
    · exact S.refl _
  · exact S.refl _

set_option linter.unusedSectionVars false in
theorem continueWith_rel {st env ast d} : Rel st (continueWith F d st env ast).2 := by
  unfold continueWith; rel_auto

set_option hygiene false in
/-- `rel_chain` extended with the continuation of the loop -/
local macro "rel_auto'" : tactic => `(tactic| (
  repeat' (first | split | simp only [Bool.not_true, Bool.not_false, Bool.false_eq_true, ↓reduceIte])
  all_goals (try injections)
  all_goals (try subst_vars)
  all_goals (try dsimp only at *)
  all_goals (first
    | (refine S.trans ?_ (continueWith_rel S ih); rel_chain)
    | (refine S.trans ?_ (outing1Defer_rel S _); rel_chain)
    | rel_chain)))

theorem defArm_rel {st env a1 a2 ast d} : Rel st (defArm F st env a1 a2 ast d).2 := by
  unfold defArm; rel_auto'

theorem letArm_rel {st env lst a1 d} : Rel st (letArm F st env lst a1 d).2 := by
  unfold letArm; rel_auto'

theorem defmacroArm_rel {st env a1 a2 ast d} : Rel st (defmacroArm F st env a1 a2 ast d).2 := by
  unfold defmacroArm; rel_auto'

theorem handlerStage_rel {st0 parts env d} {rb : R} (h : Rel st0 rb.2) :
    Rel st0 (handlerStage F parts env d rb).2 := by
  obtain ⟨r, st⟩ := rb
  unfold handlerStage; rel_auto'

theorem finallyStage_rel {st0 parts env d} {rh : R} (h : Rel st0 rh.2) :
    Rel st0 (finallyStage F parts env d rh).2 := by
  obtain ⟨r, st⟩ := rh
  unfold finallyStage; rel_auto'

theorem tryArm_rel {st env parts d} : Rel st (tryArm F st env parts d).2 :=
  finallyStage_rel S ih (handlerStage_rel S ih (ih.doForms pairEta))

theorem tryForm_rel {st env lst ops ast d} : Rel st (tryForm F st env lst ops ast d).2 := by
  unfold tryForm
  split
  · exact S.refl _
  · split
    · exact S.refl _
    · exact tryArm_rel S ih

theorem doArm_rel {st env lst d} : Rel st (doArm F st env lst d).2 := by
  unfold doArm; rel_auto'

theorem ifArm_rel {st env lst a1 a2 d} : Rel st (ifArm F st env lst a1 a2 d).2 := by
  unfold ifArm; rel_auto'

omit ih in
theorem fnArm_rel {st env lst a1 ast pos} : Rel st (fnArm st env lst a1 ast pos).2 := by
  unfold fnArm; split <;> exact S.refl _

theorem callArm_rel {st el ast d} : Rel st (callArm F st el ast d).2 := by
  unfold callArm; rel_auto'

theorem appArm_rel {st env lst ast d} : Rel st (appArm F st env lst ast d).2 := by
  unfold appArm
  split
  · exact S.trans (ih.evalList ‹_›) (callArm_rel S ih)
  · exact ih.evalList ‹_›
  · exact ih.evalList ‹_›

theorem dispatch_rel {st env ast a0 ops pos d} : Rel st (dispatch F st env ast a0 ops pos d).2 := by
  unfold dispatch; dsimp only
  repeat' (refine rel_ite (fun _ => ?_) (fun _ => ?_))
  all_goals first
    | exact S.refl _
    | exact defArm_rel S ih | exact letArm_rel S ih | exact continueWith_rel S ih
    | exact defmacroArm_rel S ih | exact ih.macroexpand pairEta | exact tryForm_rel S ih
    | exact doArm_rel S ih | exact ifArm_rel S ih | exact fnArm_rel S | exact appArm_rel S ih
    | (split <;> first | exact S.refl _ | exact tryArm_rel S ih)

theorem afterExpand_rel {st env ast d} : Rel st (afterExpand F st env ast d).2 := by
  unfold afterExpand
  split
  · exact S.refl _
  · exact dispatch_rel S ih
  · exact ih.evalAst pairEta

theorem liveBody_rel {st env ast d} : Rel st (liveBody F st env ast d).2 := by
  unfold liveBody
  split
  · split
    · exact ih.macroexpand ‹_›
    · exact ih.macroexpand ‹_›
    · exact S.trans (ih.macroexpand ‹_›) (afterExpand_rel S ih)
  · exact ih.evalAst pairEta

theorem evalLoop_step {st env ast d} : Rel st (evalLoop (F + 1) st env ast d).2 := by
  rw [evalLoop_succ]; unfold loopBody
  split
  split
  · exact S.poll ‹_›
  · exact S.trans (S.poll ‹_›) (liveBody_rel S ih)

omit S ih in
theorem ofSnd {α} {st st' : State} {p : α × State} {r : α} (h : Rel st p.2) (e : p = (r, st')) : Rel st st' := by
  subst e; exact h

theorem allRel_succ : AllRel Rel (F + 1) where
  eval h := ofSnd (eval_step S ih) h
  evalLoop h := ofSnd (evalLoop_step S ih) h
  evalAst h := ofSnd (evalAst_step S ih) h
  evalList h := ofSnd (evalList_step S ih) h
  evalMap h := ofSnd (evalMap_step S ih) h
  doForms h := ofSnd (doForms_step S ih) h
  letBinds h := ofSnd (letBinds_step S ih) h
  macroexpand h := ofSnd (macroexpand_step S ih) h
  apply h := ofSnd (apply_step S ih) h
  mapLoop h := ofSnd (mapLoop_step S ih) h
  updateIn h := ofSnd (updateIn_step S ih) h
  update1 h := ofSnd (update1_step S ih) h
  callBuiltin h := ofSnd (callBuiltin_step S ih) h

omit ih in
/-- **Generic invariant**: a step relation holds across every function of the mutual block. -/
theorem allRel : ∀ F, AllRel Rel F
  | 0 => allRel_zero S
  | F + 1 => allRel_succ S (allRel F)

end generic

/-! ### instances -/

/-- what never changes / only grows: no stepper is ever installed, `cancelAt` is fixed, `ticks` only grow -/
def Frame (a b : State) : Prop :=
  (a.stepper = none → b.stepper = none) ∧ b.cancelAt = a.cancelAt ∧ a.ticks ≤ b.ticks

theorem frame_stepRel : StepRel Frame where
  refl _ := ⟨id, rfl, Nat.le_refl _⟩
  trans h1 h2 := ⟨fun h => h2.1 (h1.1 h), h2.2.1.trans h1.2.1, Nat.le_trans h1.2.2 h2.2.2⟩
  poll h := by cases h; exact ⟨id, rfl, Nat.le_succ _⟩
  set st env k v := by
    unfold State.set; split
    · exact ⟨id, rfl, Nat.le_refl _⟩
    · exact ⟨id, rfl, Nat.le_refl _⟩
  newScope h := by cases h; exact ⟨id, rfl, Nat.le_refl _⟩
  newAtom h := by cases h; exact ⟨id, rfl, Nat.le_refl _⟩
  trace _ _ := ⟨id, rfl, Nat.le_refl _⟩
  marks _ _ := ⟨id, rfl, Nat.le_refl _⟩
  atoms _ _ _ := ⟨id, rfl, Nat.le_refl _⟩
  stepper st sp sp' h := ⟨fun h' => (by rw [h] at h'; cases h'), rfl, Nat.le_refl _⟩

theorem frame (F : Nat) : AllRel Frame F := allRel frame_stepRel F

theorem Frame.cancelled {a b : State} (h : Frame a b) (hc : Cancelled a) : Cancelled b := by
  obtain ⟨n, h1, h2⟩ := hc
  exact ⟨n, by rw [h.2.1, h1], Nat.le_trans h2 h.2.2⟩

/-! ## §3 cancellation (C07) -/

/-- every iteration of the loop polls first: from a cancelled state it does nothing else -/
theorem evalLoop_cancelled {st : State} (h : Cancelled st) (F env ast d) :
    evalLoop (F + 1) st env ast d = (.err (timeoutErr ast), tick st) := by
  rw [evalLoop_succ]; unfold loopBody; rw [poll_cancelled h]; rfl

theorem eval_noStepper {st : State} (hs : st.stepper = none) (F env ast d) :
    eval (F + 1) st env ast d = evalLoop F st env ast d := by
  rw [eval]; split
  · rfl
  · rename_i h; rw [hs] at h; cases h

theorem eval_cancelled {st : State} (h : Cancelled st) (hs : st.stepper = none) (F env ast d) :
    eval (F + 2) st env ast d = (.err (timeoutErr ast), tick st) := by
  rw [eval_noStepper hs, evalLoop_cancelled h]

theorem evalList_cancelled {st : State} (h : Cancelled st) (hs : st.stepper = none) (F env x xs d) :
    evalList (F + 3) st env (x :: xs) d = (.err (timeoutErr x), tick st) := by
  rw [evalList, eval_cancelled h hs]

theorem evalMap_cancelled {st : State} (h : Cancelled st) (hs : st.stepper = none) (F env k x r d) :
    evalMap (F + 3) st env ((k, x) :: r) d = (.err (timeoutErr x), tick st) := by
  rw [evalMap, eval_cancelled h hs]

/-- `do()` without a stepper has no epilogue -/
theorem doForms_noStepper {st : State} (hs : st.stepper = none) (F env lst fr kl d) :
    doForms (F + 1) st env lst fr kl d =
      if lst.length ≤ fr then (.ok .nil, st) else
        match evalList F st env (if kl then (lst.drop fr).dropLast else lst.drop fr) d with
        | (.ok vs, st) => if kl then (.ok (lst.getLast?.getD .nil), st) else (.ok (vs.getLast?.getD .nil), st)
        | (.err e, st) => (.err e, st)
        | (.oof, st) => (.oof, st) := by
  rw [doForms]; simp only [hs, Bool.false_eq_true, ↓reduceIte]
  split
  · rfl
  · cases kl <;> simp only [Bool.false_eq_true, ↓reduceIte] <;> split <;> simp_all

theorem doForms_cancelled {st : State} (h : Cancelled st) (hs : st.stepper = none) (F env x xs d) :
    doForms (F + 4) st env (x :: xs) 0 false d = (.err (timeoutErr x), tick st) := by
  rw [doForms_noStepper hs]
  simp [evalList_cancelled h hs]

theorem letBinds_cancelled {st : State} (h : Cancelled st) (hs : st.stepper = none) (F env s p x rest a1 d) :
    letBinds (F + 3) st env (.sym s p :: x :: rest) a1 d = (.err (timeoutErr x), tick st) := by
  rw [letBinds, eval_cancelled h hs]

/-- from a cancelled state: at most one poll, and nothing else happens to the state -/
def AtMostOnePoll (st st' : State) : Prop := st' = st ∨ st' = tick st

theorem amop_of_eq {α} {st st' : State} {p : α × State} {r : α}
    (h : AtMostOnePoll st p.2) (e : p = (r, st')) : AtMostOnePoll st st' := by
  subst e; exact h

theorem evalLoop_cancelled_any {st : State} (h : Cancelled st) (F env ast d) :
    evalLoop F st env ast d = (.oof, st) ∨ evalLoop F st env ast d = (.err (timeoutErr ast), tick st) := by
  cases F with
  | zero => left; rw [evalLoop]
  | succ F => right; exact evalLoop_cancelled h F env ast d

theorem eval_cancelled_any {st : State} (h : Cancelled st) (hs : st.stepper = none) (F env ast d) :
    eval F st env ast d = (.oof, st) ∨ eval F st env ast d = (.err (timeoutErr ast), tick st) := by
  cases F with
  | zero => left; rw [eval]
  | succ F => rw [eval_noStepper hs]; exact evalLoop_cancelled_any h F env ast d

theorem evalList_cancelled_any {st : State} (h : Cancelled st) (hs : st.stepper = none) (F env xs d) :
    AtMostOnePoll st (evalList F st env xs d).2 := by
  cases F with
  | zero => left; rw [evalList]
  | succ F =>
    cases xs with
    | nil => left; rw [evalList]
    | cons x xs =>
      rw [evalList]
      rcases eval_cancelled_any h hs F env x (d + 1) with e | e <;> rw [e]
      · left; rfl
      · right; rfl

theorem evalMap_cancelled_any {st : State} (h : Cancelled st) (hs : st.stepper = none) (F env xs d) :
    AtMostOnePoll st (evalMap F st env xs d).2 := by
  cases F with
  | zero => left; rw [evalMap]
  | succ F =>
    cases xs with
    | nil => left; rw [evalMap]
    | cons x xs =>
      obtain ⟨k, x⟩ := x
      rw [evalMap]
      rcases eval_cancelled_any h hs F env x (d + 1) with e | e <;> rw [e]
      · left; rfl
      · right; rfl

theorem evalAst_cancelled_any {st : State} (h : Cancelled st) (hs : st.stepper = none) (F env ast d) :
    AtMostOnePoll st (evalAst F st env ast d).2 := by
  cases F with
  | zero => left; rw [evalAst]
  | succ F =>
    rw [evalAst.eq_def]
    split
    · rename_i heq; cases heq
    rename_i heq; cases heq
    split
    · split <;> (left; rfl)
    · split <;> (rename_i heq; exact amop_of_eq (evalList_cancelled_any h hs F _ _ _) heq)
    · split <;> (rename_i heq; exact amop_of_eq (evalList_cancelled_any h hs F _ _ _) heq)
    · split <;> (rename_i heq; exact amop_of_eq (evalMap_cancelled_any h hs F _ _ _) heq)
    · left; rfl

theorem doForms_cancelled_any {st : State} (h : Cancelled st) (hs : st.stepper = none) (F env lst fr kl d) :
    AtMostOnePoll st (doForms F st env lst fr kl d).2 := by
  cases F with
  | zero => left; rw [doForms]
  | succ F =>
    rw [doForms_noStepper hs]
    split
    · left; rfl
    · split <;> (rename_i heq; have t := amop_of_eq (evalList_cancelled_any h hs F _ _ _) heq)
      · split <;> exact t
      · exact t
      · exact t

theorem letBinds_cancelled_any {st : State} (h : Cancelled st) (hs : st.stepper = none) (F env bs a1 d) :
    AtMostOnePoll st (letBinds F st env bs a1 d).2 := by
  cases F with
  | zero => left; rw [letBinds]
  | succ F =>
    match bs with
    | [] => left; rw [letBinds]
    | [_] => left; rw [letBinds]
    | b :: x :: rest =>
      cases b
      case sym s p =>
        rw [letBinds]
        rcases eval_cancelled_any h hs F env x (d + 1) with e | e <;> rw [e]
        · left; rfl
        · right; rfl
      all_goals (rw [letBinds]; (left; rfl); (intro _ _ hh; cases hh))


/-! ### handlers and finally bodies run from a cancelled state -/

theorem bindParams_one {x : String} (hx : x ≠ "&") (p : Option Pos) (v : Val) :
    bindParams (.list [.sym x p] none) [v] = .ok [(x, v)] := by
  simp only [bindParams]
  rw [bindLoop.eq_def]
  simp [bindLoop, ainsert]

theorem Cancelled.newScope {st : State} (h : Cancelled st) (o data) : Cancelled (st.newScope o data).1 := h

/-- a catch handler entered after the deadline: its first form times out after one poll, nothing else runs -/
theorem handler_after_cancel {s1 : State} (hc : Cancelled s1) (hs : s1.stepper = none)
    (F : Nat) (parts : TryParts) (env d : Nat) (e : Err) {x : String} (hx : x ≠ "&") (p : Option Pos)
    (h0 : Val) (hrest : List Val)
    (hb : parts.catchBind = some (.sym x p)) (hd : parts.catchDo = some (h0 :: hrest)) :
    handlerStage (F + 4) parts env d (.err e, s1) =
      (.err (timeoutErr h0), tick (s1.newScope env [(x, caughtValue e)]).1) := by
  simp only [handlerStage, hb, hd, bindParams_one hx]
  exact doForms_cancelled (hc.newScope env _) hs F _ h0 hrest d

/-- a finally body entered after the deadline: one poll, then the pending result is returned unchanged -/
theorem finally_after_cancel {s2 : State} (hc : Cancelled s2) (hs : s2.stepper = none)
    (F : Nat) (parts : TryParts) (env d : Nat) (r : Res Val) (hr : r ≠ .oof) (f0 : Val) (frest : List Val)
    (hf : parts.finallyDo = some (f0 :: frest)) :
    finallyStage (F + 4) parts env d (r, s2) = (r, tick s2) := by
  simp only [finallyStage, hf, doForms_cancelled hc hs]

/-! ## §4 one-step equations of a live (not cancelled) loop iteration -/

/-- the next poll does not report cancellation -/
def Live (st : State) : Prop := ∀ n, st.cancelAt = some n → st.ticks < n

theorem live_of_none {st : State} (hc : st.cancelAt = none) : Live st := by
  intro n h; rw [hc] at h; cases h

theorem poll_of_live {st : State} (h : Live st) : st.poll = (false, tick st) := by
  unfold State.poll tick
  cases hc : st.cancelAt with
  | none => rfl
  | some n => simp [Nat.not_le.mpr (h n hc)]

theorem evalLoop_live {st : State} (hc : Live st) (F env ast d) :
    evalLoop (F + 1) st env ast d = liveBody F (tick st) env ast d := by
  rw [evalLoop_succ]; unfold loopBody; rw [poll_of_live hc]; rfl

/-- a list form whose head symbol is not a macro goes to the special-form dispatch after one poll -/
theorem evalLoop_dispatch {st : State} (hc : Live st) {env : Nat} {s : String}
    (hm : NotMacro st env s) (F p ops pos d) :
    evalLoop (F + 2) st env (.list (.sym s p :: ops) pos) d =
      dispatch (F + 1) (tick st) env (.list (.sym s p :: ops) pos) (.sym s p) ops pos d := by
  rw [evalLoop_live hc]
  simp only [liveBody, macroexpand_notMacro hm.tick, afterExpand]

/-- the same for a head that is not a symbol -/
theorem evalLoop_dispatch_nonSym {st : State} (hc : Live st) (env : Nat) (a0 : Val)
    (h0 : ∀ s p, a0 ≠ .sym s p) (F ops pos d) :
    evalLoop (F + 2) st env (.list (a0 :: ops) pos) d =
      dispatch (F + 1) (tick st) env (.list (a0 :: ops) pos) a0 ops pos d := by
  rw [evalLoop_live hc]
  simp only [liveBody, macroexpand_nonSymHead _ _ _ _ a0 _ _ h0, afterExpand]

theorem dispatch_try (F st env ast p ops pos d) :
    dispatch F st env ast (.sym "try" p) ops pos d = tryForm F st env (.sym "try" p :: ops) ops ast d := by
  simp [dispatch]

theorem dispatch_do (F st env ast p ops pos d) :
    dispatch F st env ast (.sym "do" p) ops pos d = doArm F st env (.sym "do" p :: ops) d := by
  simp [dispatch]

theorem dispatch_if (F st env ast p ops pos d) :
    dispatch F st env ast (.sym "if" p) ops pos d =
      ifArm F st env (.sym "if" p :: ops) (ops.getD 0 .nil) (ops.getD 1 .nil) d := by
  simp [dispatch]

theorem dispatch_let (F st env ast p ops pos d) :
    dispatch F st env ast (.sym "let" p) ops pos d = letArm F st env (.sym "let" p :: ops) (ops.getD 0 .nil) d := by
  simp [dispatch]

theorem dispatch_def (F st env ast p ops pos d) :
    dispatch F st env ast (.sym "def" p) ops pos d = defArm F st env (ops.getD 0 .nil) (ops.getD 1 .nil) ast d := by
  simp [dispatch]

theorem dispatch_fn (F st env ast p ops pos d) :
    dispatch F st env ast (.sym "fn" p) ops pos d = fnArm st env (.sym "fn" p :: ops) (ops.getD 0 .nil) ast pos := by
  simp [dispatch]

theorem dispatch_quasiquote (F st env ast p ops pos d) :
    dispatch F st env ast (.sym "quasiquote" p) ops pos d = continueWith F d st env (quasiquote (ops.getD 0 .nil)) := by
  simp [dispatch]

theorem dispatch_quote (F st env ast p ops pos d) :
    dispatch F st env ast (.sym "quote" p) ops pos d = (.ok (ops.getD 0 .nil), st) := by
  simp [dispatch]

/-- any head that is not one of the eleven special-form symbols is an application -/
theorem dispatch_app (F st env ast s p ops pos d) (hs : s ∉ specialForms) :
    dispatch F st env ast (.sym s p) ops pos d = appArm F st env (.sym s p :: ops) ast d := by
  simp only [specialForms, List.mem_cons, List.not_mem_nil, or_false, not_or] at hs
  simp [dispatch, hs]

theorem dispatch_app_nonSym (F st env ast a0 ops pos d) (h0 : ∀ s p, a0 ≠ .sym s p) :
    dispatch F st env ast a0 ops pos d = appArm F st env (a0 :: ops) ast d := by
  cases a0 <;> first | exact absurd rfl (h0 _ _) | simp [dispatch]

theorem continueWith_noStepper {st : State} (hs : st.stepper = none) (F d env ast) :
    continueWith F d st env ast = evalLoop F st env ast d := by
  simp [continueWith, hs]

theorem evalLoop_cancelled_amop {st : State} (h : Cancelled st) (F env ast d) :
    AtMostOnePoll st (evalLoop F st env ast d).2 := by
  rcases evalLoop_cancelled_any h F env ast d with e | e <;> rw [e]
  · left; rfl
  · right; rfl

theorem eval_cancelled_amop {st : State} (h : Cancelled st) (hs : st.stepper = none) (F env ast d) :
    AtMostOnePoll st (eval F st env ast d).2 := by
  rcases eval_cancelled_any h hs F env ast d with e | e <;> rw [e]
  · left; rfl
  · right; rfl

theorem AtMostOnePoll.same {st st' : State} (h : AtMostOnePoll st st') :
    st'.trace = st.trace ∧ st'.marks = st.marks ∧ st'.scopes = st.scopes ∧ st'.atoms = st.atoms := by
  rcases h with e | e <;> rw [e] <;> exact ⟨rfl, rfl, rfl, rfl⟩

theorem AtMostOnePoll.ticks {st st' : State} (h : AtMostOnePoll st st') : st'.ticks ≤ st.ticks + 1 := by
  rcases h with e | e <;> rw [e] <;> simp [tick]

end LispModel.Proofs.EvalCancel

/-
  Proofs for C07 (cancellation) — and the common base used by EvalTry.lean / EvalTail.lean:

  §1  one-step equations of `evalLoop`: the loop body cut into named, non-recursive "arm" functions
      (`loopBody`, `dispatch`, `defArm`, `letArm`, `tryArm`, `appArm`, …) that are *literal copies* of the
      corresponding pieces of `evalLoop` (the equation `evalLoop_succ` is proved by `rfl`);
  §2  a generic invariant theorem: every reflexive–transitive relation on states that is respected by the
      primitive state steps (poll, `Env.Set`, new scope, new atom, trace/mark append, atom store, stepper
      flag updates when a stepper is installed) is respected by all thirteen functions of the mutual block;
      instances: `stepper = none` is preserved, `cancelAt` never changes, `ticks` only grows;
  §3  the cancellation laws of C07.

  All times are poll ticks of the model; wall-clock latency is outside the model.
-/
import LispModel.Eval
namespace LispModel.Proofs.EvalCancel
open LispModel LispModel.Core

/-! ## §1 the loop body, cut into arms -/

/-- `continue` of the TCO loop (`if Stepper != nil { return EVAL(ctx, ast, env) }`) -/
def continueWith (F : Nat) (d : Nat) (st : State) (env : Nat) (ast : Val) : R :=
  match st.stepper with
  | none => evalLoop F st env ast d
  | some _ => eval F st env ast (d + 1)

def defArm (fuel : Nat) (st : State) (env : Nat) (a1 a2 ast : Val) (d : Nat) : R :=
  match eval fuel st env a2 (d + 1) with
  | (.ok res, st) =>
    (match a1 with
     | .sym name _ => (.ok res, st.set env name res)
     | _ => (.err (newLispError (.plain "cannot use value as identifier") ast), st))
  | r => r

def letArm (fuel : Nat) (st : State) (env : Nat) (lst : List Val) (a1 : Val) (d : Nat) : R :=
  let (st, letEnv) := st.newScope env []
  match seqOf? a1 with
  | none => (.err (.plain "GetSlice called on non-sequence"), st)
  | some arr1 =>
    if arr1.length % 2 ≠ 0 then (.err (newLispError (.plain "let: odd elements on binding vector") a1), st)
    else
      match letBinds fuel st letEnv arr1 a1 d with
      | (.ok _, st) =>
        (match doForms fuel st letEnv lst 2 true d with
         | (.ok next, st) => continueWith fuel d st letEnv next
         | r => r)
      | r => r

def defmacroArm (fuel : Nat) (st : State) (env : Nat) (a1 a2 ast : Val) (d : Nat) : R :=
  match eval fuel st env a2 (d + 1) with
  | (.ok f, st) =>
    (match f with
     | .fn ps b e _ p =>
       (match a1 with
        | .sym name _ => let m := Val.fn ps b e true p; (.ok m, st.set env name m)
        | _ => (.err (newLispError (.plain "cannot use value as identifier") ast), st))
     | _ => (.err (newLispError (.plain "defmacro requires a function") ast), st))
  | r => r

/-- second stage of `try`: the catch clause, run only when the body returned an error -/
def handlerStage (fuel : Nat) (parts : TryParts) (env d : Nat) (rb : R) : R :=
  let (r, st) := rb
  match r with
  | .ok v => (.ok v, st)
  | .oof => (.oof, st)
  | .err e =>
    (match parts.catchDo, parts.catchBind with
     | some handler, some bind =>
       (match bindParams (.list [bind] none) [caughtValue e] with
        | .error be => (.err be, st)
        | .ok data =>
          let (st, catchEnv) := st.newScope env data
          doForms fuel st catchEnv handler 0 false d)
     | _, _ => (.err e, st))

/-- third stage of `try`: the deferred `finally` forms, evaluated in the scope of the try form; their
    value or error is discarded -/
def finallyStage (fuel : Nat) (parts : TryParts) (env d : Nat) (rh : R) : R :=
  let (r, st) := rh
  match r with
  | .oof => (.oof, st)
  | _ =>
    match parts.finallyDo with
    | none => (r, outing1Defer st)      -- `do(ctx, nil, …)` still runs its `outing1` prologue
    | some fin =>
      match doForms fuel st env fin 0 false d with
      | (.oof, st) => (.oof, st)
      | (_, st) => (r, st)

def tryArm (fuel : Nat) (st : State) (env : Nat) (parts : TryParts) (d : Nat) : R :=
  finallyStage fuel parts env d (handlerStage fuel parts env d (doForms fuel st env parts.body 0 false d))

def tryForm (fuel : Nat) (st : State) (env : Nat) (lst operands : List Val) (ast : Val) (d : Nat) : R :=
  if operands.isEmpty then (.ok .nil, st) else
  match splitTry lst with
  | .error msg => (.err (newLispError (.plain msg) ast), st)
  | .ok parts => tryArm fuel st env parts d

def doArm (fuel : Nat) (st : State) (env : Nat) (lst : List Val) (d : Nat) : R :=
  match doForms fuel st env lst 1 true d with
  | (.ok next, st) => continueWith fuel d st env next
  | r => r

def ifArm (fuel : Nat) (st : State) (env : Nat) (lst : List Val) (a1 a2 : Val) (d : Nat) : R :=
  match eval fuel st env a1 (d + 1) with
  | (.ok cond, st) =>
    if truthy cond then continueWith fuel d st env a2
    else if lst.length ≥ 4 then continueWith fuel d st env (lst.getD 3 .nil)
    else (.ok .nil, st)
  | r => r

def fnArm (st : State) (env : Nat) (lst : List Val) (a1 ast : Val) (pos : Option Pos) : R :=
  if lst.length < 2 then (.err (newLispError (.plain "fn requires a parameter list") ast), st)
  else (.ok (.fn a1 (.list (.sym "do" none :: lst.drop 2) none) env false pos), st)

/-- what happens once the operator and the operands have been evaluated to `el` -/
def callArm (fuel : Nat) (st : State) (el : List Val) (ast : Val) (d : Nat) : R :=
  match el with
  | [] => (.err (.plain "empty application"), st)
  | f :: args =>
    match f with
    | .fn params body fenv _ _ =>
      (match bindParams params args with
       | .error e =>
         (match e with
          | .lisp (.goerr m) _ => (.err (.lisp (.goerr (m ++ " (around do)")) none), st)
          | e => (.err (newLispError e body), st))
       | .ok data =>
         let (st, callEnv) := st.newScope fenv data
         continueWith fuel d st callEnv body)
    | .builtin name =>
      (match callBuiltin fuel st name args d with
       | (.ok v, st) => (.ok v, st)
       | (.err e, st) => (.err (newLispError e ast), st)
       | (.oof, st) => (.oof, st))
    | _ => (.err (.lisp (.goerr "attempt to call non-function") none), st)

def appArm (fuel : Nat) (st : State) (env : Nat) (lst : List Val) (ast : Val) (d : Nat) : R :=
  match evalList fuel st env lst d with
  | (.ok el, st) => callArm fuel st el ast d
  | (.err e, st) => (.err e, st)
  | (.oof, st) => (.oof, st)

/-- the special-form dispatch on the (macro-expanded) non-empty list `ast = (a0 :: operands)` -/
def dispatch (fuel : Nat) (st : State) (env : Nat) (ast a0 : Val) (operands : List Val) (pos : Option Pos)
    (d : Nat) : R :=
  let lst := a0 :: operands
  let a1 := operands.getD 0 .nil
  let a2 := operands.getD 1 .nil
  let a0sym := match a0 with | .sym s _ => s | _ => "__<*fn>__"
  if a0sym = "def" then defArm fuel st env a1 a2 ast d
  else if a0sym = "let" then letArm fuel st env lst a1 d
  else if a0sym = "quote" then (.ok a1, st)
  else if a0sym = "quasiquoteexpand" then (.ok (quasiquote a1), st)
  else if a0sym = "quasiquote" then continueWith fuel d st env (quasiquote a1)
  else if a0sym = "defmacro" then defmacroArm fuel st env a1 a2 ast d
  else if a0sym = "macroexpand" then macroexpand fuel st env a1 d
  else if a0sym = "try" then tryForm fuel st env lst operands ast d
  else if a0sym = "do" then doArm fuel st env lst d
  else if a0sym = "if" then ifArm fuel st env lst a1 a2 d
  else if a0sym = "fn" then fnArm st env lst a1 ast pos
  else appArm fuel st env lst ast d

/-- what the loop does with the macro-expanded form -/
def afterExpand (fuel : Nat) (st : State) (env : Nat) (ast : Val) (d : Nat) : R :=
  match ast with
  | .list [] _ => (.ok ast, st)
  | .list (a0 :: operands) pos => dispatch fuel st env ast a0 operands pos d
  | _ => evalAst fuel st env ast d

/-- one iteration of the loop, after the poll said "not cancelled" -/
def liveBody (fuel : Nat) (st : State) (env : Nat) (ast : Val) (d : Nat) : R :=
  match ast with
  | .list _ _ =>
    match macroexpand fuel st env ast d with
    | (.err e, st) => (.err e, st)
    | (.oof, st) => (.oof, st)
    | (.ok ast, st) => afterExpand fuel st env ast d
  | _ => evalAst fuel st env ast d

/-- one iteration of the loop -/
def loopBody (fuel : Nat) (st : State) (env : Nat) (ast : Val) (d : Nat) : R :=
  let (done, st) := st.poll
  if done then (.err (timeoutErr ast), st) else liveBody fuel st env ast d

theorem evalLoop_succ (F : Nat) (st : State) (env : Nat) (ast : Val) (d : Nat) :
    evalLoop (F + 1) st env ast d = loopBody F st env ast d := by
  rw [evalLoop]; rfl

/-! ### basic facts: poll, tick, macro-free heads -/

/-- the state after one poll of `ctx.Done()` -/
def tick (st : State) : State := { st with ticks := st.ticks + 1 }

/-- the context is cancelled (or past its deadline) as seen from `st`: every later poll says "done" -/
def Cancelled (st : State) : Prop := ∃ n, st.cancelAt = some n ∧ n ≤ st.ticks

/-- the symbol `s` is not bound to a macro in scope `env` -/
def NotMacro (st : State) (env : Nat) (s : String) : Prop :=
  ∀ ps b e p, st.get env s ≠ some (.fn ps b e true p)

theorem poll_snd (st : State) : st.poll.2 = tick st := rfl

theorem poll_cancelled {st : State} (h : Cancelled st) : st.poll = (true, tick st) := by
  obtain ⟨n, h1, h2⟩ := h
  simp [State.poll, h1, h2, tick]

theorem poll_live {st : State} (h : st.cancelAt = none) : st.poll = (false, tick st) := by
  simp [State.poll, h, tick]

@[simp] theorem tick_stepper (st : State) : (tick st).stepper = st.stepper := rfl
@[simp] theorem tick_cancelAt (st : State) : (tick st).cancelAt = st.cancelAt := rfl
@[simp] theorem tick_trace (st : State) : (tick st).trace = st.trace := rfl
@[simp] theorem tick_marks (st : State) : (tick st).marks = st.marks := rfl
@[simp] theorem tick_scopes (st : State) : (tick st).scopes = st.scopes := rfl
@[simp] theorem tick_atoms (st : State) : (tick st).atoms = st.atoms := rfl
@[simp] theorem tick_ticks (st : State) : (tick st).ticks = st.ticks + 1 := rfl

/-- `Env.Get` only looks at the scope store -/
theorem get_congr {st st' : State} (h : st'.scopes = st.scopes) (env : Nat) (k : String) :
    st'.get env k = st.get env k := by
  simp only [State.get, h]
  generalize (st.scopes.size + 1) = n
  induction n generalizing env with
  | zero => rfl
  | succ n ih =>
    simp only [State.getAux, State.scope?, h]
    split <;> try rfl
    split <;> try rfl
    split <;> try rfl
    apply ih

@[simp] theorem tick_get (st : State) (env : Nat) (k : String) : (tick st).get env k = st.get env k :=
  get_congr (st := st) (st' := tick st) rfl env k

theorem NotMacro.tick {st : State} {env s} (h : NotMacro st env s) : NotMacro (tick st) env s := by
  intro a b c d; rw [tick_get]; exact h a b c d

theorem Cancelled.tick {st : State} (h : Cancelled st) : Cancelled (tick st) := by
  obtain ⟨n, h1, h2⟩ := h
  exact ⟨n, h1, Nat.le_succ_of_le h2⟩

theorem macroexpand_notMacro {st : State} {env s} (h : NotMacro st env s) (F p args pos d) :
    macroexpand (F + 1) st env (.list (.sym s p :: args) pos) d = (.ok (.list (.sym s p :: args) pos), st) := by
  rw [macroexpand]
  split
  · rename_i heq; exact absurd heq (h _ _ _ _)
  · rfl

/-- a form whose head is not a symbol is not macro-expanded -/
theorem macroexpand_nonSymHead (F st env d) (a0 : Val) (args pos) (h : ∀ s p, a0 ≠ .sym s p) :
    macroexpand (F + 1) st env (.list (a0 :: args) pos) d = (.ok (.list (a0 :: args) pos), st) := by
  rw [macroexpand.eq_def]
  split
  · rename_i h1; cases h1
  · split
    · rename_i h1; cases h1; exact absurd rfl (h _ _)
    · rfl

/-! ## §2 a generic invariant of the whole mutual block -/

/-- a relation between an earlier and a later state that every primitive state step respects -/
structure StepRel (Rel : State → State → Prop) : Prop where
  refl : ∀ st, Rel st st
  trans : ∀ {a b c}, Rel a b → Rel b c → Rel a c
  poll : ∀ {st b st'}, st.poll = (b, st') → Rel st st'
  set : ∀ st env k v, Rel st (st.set env k v)
  newScope : ∀ {st o data st' id}, st.newScope o data = (st', id) → Rel st st'
  newAtom : ∀ {st v st' id}, st.newAtom v = (st', id) → Rel st st'
  trace : ∀ st v, Rel st { st with trace := v :: st.trace }
  marks : ∀ st d, Rel st { st with marks := d :: st.marks }
  atoms : ∀ st id v, Rel st { st with atoms := st.atoms.setIfInBounds id v }
  /-- the debugger flags are only rewritten when a stepper is installed -/
  stepper : ∀ st sp sp', st.stepper = some sp → Rel st { st with stepper := some sp' }

/-- `Rel` holds between the initial and the final state of every function of the block, at fuel `F` -/
structure AllRel (Rel : State → State → Prop) (F : Nat) : Prop where
  eval : ∀ {st env ast d r st'}, eval F st env ast d = (r, st') → Rel st st'
  evalLoop : ∀ {st env ast d r st'}, evalLoop F st env ast d = (r, st') → Rel st st'
  evalAst : ∀ {st env ast d r st'}, evalAst F st env ast d = (r, st') → Rel st st'
  evalList : ∀ {st env xs d r st'}, evalList F st env xs d = (r, st') → Rel st st'
  evalMap : ∀ {st env xs d r st'}, evalMap F st env xs d = (r, st') → Rel st st'
  doForms : ∀ {st env lst fr kl d r st'}, doForms F st env lst fr kl d = (r, st') → Rel st st'
  letBinds : ∀ {st env bs a1 d r st'}, letBinds F st env bs a1 d = (r, st') → Rel st st'
  macroexpand : ∀ {st env ast d r st'}, macroexpand F st env ast d = (r, st') → Rel st st'
  apply : ∀ {st f args d r st'}, apply F st f args d = (r, st') → Rel st st'
  mapLoop : ∀ {st f xs d r st'}, mapLoop F st f xs d = (r, st') → Rel st st'
  updateIn : ∀ {st v path f d r st'}, updateIn F st v path f d = (r, st') → Rel st st'
  update1 : ∀ {st v i f d r st'}, update1 F st v i f d = (r, st') → Rel st st'
  callBuiltin : ∀ {st name args d r st'}, callBuiltin F st name args d = (r, st') → Rel st st'

section generic
variable {Rel : State → State → Prop} (S : StepRel Rel)
include S

theorem allRel_zero : AllRel Rel 0 := by
  constructor <;> intros <;> rename_i h
  · rw [eval] at h; cases h; exact S.refl _
  · rw [evalLoop] at h; cases h; exact S.refl _
  · rw [evalAst] at h; cases h; exact S.refl _
  · rw [evalList] at h; cases h; exact S.refl _
  · rw [evalMap] at h; cases h; exact S.refl _
  · rw [doForms] at h; cases h; exact S.refl _
  · rw [letBinds] at h; cases h; exact S.refl _
  · rw [macroexpand] at h; cases h; exact S.refl _
  · rw [apply] at h; cases h; exact S.refl _
  · rw [mapLoop] at h; cases h; exact S.refl _
  · rw [updateIn] at h; cases h; exact S.refl _
  · rw [update1.eq_def] at h; cases h; exact S.refl _
  · rw [callBuiltin.eq_def] at h; cases h; exact S.refl _

variable {F : Nat} (ih : AllRel Rel F)
include ih

set_option hygiene false in
/-- close `Rel a b` by one known step -/
local macro "rel_tac" : tactic => `(tactic| first
  | exact S.refl _
  | assumption
  | exact ih.eval ‹_› | exact ih.evalLoop ‹_› | exact ih.evalAst ‹_› | exact ih.evalList ‹_›
  | exact ih.evalMap ‹_› | exact ih.doForms ‹_› | exact ih.letBinds ‹_› | exact ih.macroexpand ‹_›
  | exact ih.apply ‹_› | exact ih.mapLoop ‹_› | exact ih.updateIn ‹_› | exact ih.update1 ‹_›
  | exact ih.callBuiltin ‹_›
  | exact ih.eval Prod.mk.eta.symm | exact ih.evalLoop Prod.mk.eta.symm | exact ih.evalAst Prod.mk.eta.symm
  | exact ih.evalList Prod.mk.eta.symm | exact ih.evalMap Prod.mk.eta.symm | exact ih.doForms Prod.mk.eta.symm
  | exact ih.letBinds Prod.mk.eta.symm | exact ih.macroexpand Prod.mk.eta.symm
  | exact ih.apply Prod.mk.eta.symm | exact ih.mapLoop Prod.mk.eta.symm | exact ih.updateIn Prod.mk.eta.symm
  | exact ih.update1 Prod.mk.eta.symm | exact ih.callBuiltin Prod.mk.eta.symm
  | exact S.poll ‹_› | exact S.newScope ‹_› | exact S.newAtom ‹_›
  | exact S.poll Prod.mk.eta.symm | exact S.newScope Prod.mk.eta.symm | exact S.newAtom Prod.mk.eta.symm
  | exact S.set _ _ _ _ | exact S.trace _ _ | exact S.marks _ _ | exact S.atoms _ _ _)

set_option hygiene false in
/-- close `Rel a b` by peeling known steps off the right end -/
local macro "rel_chain" : tactic => `(tactic| repeat (first
  | rel_tac
  | refine S.trans ?_ (ih.eval ‹_›) | refine S.trans ?_ (ih.evalLoop ‹_›) | refine S.trans ?_ (ih.evalAst ‹_›)
  | refine S.trans ?_ (ih.evalList ‹_›)
  | refine S.trans ?_ (ih.evalMap ‹_›) | refine S.trans ?_ (ih.doForms ‹_›) | refine S.trans ?_ (ih.letBinds ‹_›)
  | refine S.trans ?_ (ih.macroexpand ‹_›)
  | refine S.trans ?_ (ih.apply ‹_›) | refine S.trans ?_ (ih.mapLoop ‹_›) | refine S.trans ?_ (ih.updateIn ‹_›)
  | refine S.trans ?_ (ih.update1 ‹_›)
  | refine S.trans ?_ (ih.callBuiltin ‹_›)
  | refine S.trans ?_ (ih.eval Prod.mk.eta.symm) | refine S.trans ?_ (ih.evalLoop Prod.mk.eta.symm)
  | refine S.trans ?_ (ih.evalList Prod.mk.eta.symm) | refine S.trans ?_ (ih.evalMap Prod.mk.eta.symm)
  | refine S.trans ?_ (ih.letBinds Prod.mk.eta.symm) | refine S.trans ?_ (ih.mapLoop Prod.mk.eta.symm)
  | refine S.trans ?_ (ih.doForms Prod.mk.eta.symm) | refine S.trans ?_ (ih.apply Prod.mk.eta.symm)
  | refine S.trans ?_ (ih.updateIn Prod.mk.eta.symm) | refine S.trans ?_ (ih.update1 Prod.mk.eta.symm)
  | refine S.trans ?_ (ih.macroexpand Prod.mk.eta.symm)
  | refine S.trans ?_ (S.poll ‹_›) | refine S.trans ?_ (S.newScope ‹_›) | refine S.trans ?_ (S.newAtom ‹_›)
  | refine S.trans ?_ (S.set _ _ _ _) | refine S.trans ?_ (S.trace _ _) | refine S.trans ?_ (S.marks _ _)
  | refine S.trans ?_ (S.atoms _ _ _)))

set_option hygiene false in
/-- split the goal `Rel st (…).2` to its leaves, then chain -/
local macro "rel_auto" : tactic => `(tactic| (
  repeat' split
  all_goals (try dsimp only)
  all_goals rel_chain))

/-- unfold a fuel-matched definition at fuel `F + 1` -/
local macro "fuel_split" : tactic => `(tactic| (
  split
  · rename_i heq; cases heq
  rename_i heq; cases heq))

theorem evalAst_step {st env ast d} : Rel st (evalAst (F + 1) st env ast d).2 := by
  rw [evalAst.eq_def]; fuel_split; rel_auto

theorem macroexpand_step {st env ast d} : Rel st (macroexpand (F + 1) st env ast d).2 := by
  rw [macroexpand.eq_def]; fuel_split; rel_auto

theorem apply_step {st f args d} : Rel st (apply (F + 1) st f args d).2 := by
  rw [apply.eq_def]; fuel_split; rel_auto

/-
  Helper lemmas of C06 (Props/C06.lean): the reader's un-escaping inverts the printer's escaping.

  * `replaceAll [c] rep` (single-character pattern) is a `flatMap` over the characters;
  * the printer's three chained replacements are the character-wise map `escChar`;
  * `unescape` inverts it; the `¬¬ ↦ ¬` replacement inverts the doubling of `¬`;
  * `readAtom` on the token spelled `prString true s` returns `s`.
  Core Lean only.
-/
import LispModel.Read
import LispModel.Print
namespace LispModel.Proofs.RoundTrip
open LispModel LispModel.Read LispModel.Print

/-! ### `strings.Replace` with a single-character pattern -/

theorem replaceAux_single (c : Char) (rep cs : List Char) :
    replaceAux [c] rep 0 cs = cs.flatMap (fun x => if x = c then rep else [x]) := by
  induction cs with
  | nil => simp [replaceAux]
  | cons x xs ih =>
    by_cases h : x = c
    · subst h
      simp [replaceAux, ih]
    · have h' : ¬ c = x := fun e => h e.symm
      simp [replaceAux, ih, h, h']

theorem replaceAll_single (c : Char) (rep cs : List Char) :
    replaceAll [c] rep cs = cs.flatMap (fun x => if x = c then rep else [x]) :=
  replaceAux_single c rep cs

/-! ### the printer's escaping, character by character -/

/-- what the three chained replacements of `prString` do to one character -/
def escChar (c : Char) : List Char :=
  if c = '\\' then ['\\', '\\'] else if c = '"' then ['\\', '"'] else if c = '\n' then ['\\', 'n'] else [c]

/-- the quoted body printed by `prString` (`escape` of Props/C06.lean, unfolded) -/
abbrev esc (cs : List Char) : List Char :=
  replaceAll ['\n'] ['\\', 'n'] (replaceAll ['"'] ['\\', '"'] (replaceAll ['\\'] ['\\', '\\'] cs))

theorem esc_eq_flatMap (cs : List Char) : esc cs = cs.flatMap escChar := by
  unfold esc
  rw [replaceAll_single, replaceAll_single, replaceAll_single, List.flatMap_assoc, List.flatMap_assoc]
  congr 1
  funext x
  unfold escChar
  by_cases h1 : x = '\\'
  · subst h1; decide
  · by_cases h2 : x = '"'
    · subst h2; decide
    · by_cases h3 : x = '\n'
      · subst h3; decide
      · simp [h1, h2, h3]

theorem esc_nil : esc [] = [] := by rw [esc_eq_flatMap]; rfl

theorem esc_cons (c : Char) (cs : List Char) : esc (c :: cs) = escChar c ++ esc cs := by
  rw [esc_eq_flatMap, esc_eq_flatMap, List.flatMap_cons]

/-! ### `unescape` -/

theorem unescape_bs_bs (r : List Char) : unescape ('\\' :: '\\' :: r) = '\\' :: unescape r := by
  simp [unescape]

theorem unescape_bs_quote (r : List Char) : unescape ('\\' :: '"' :: r) = '"' :: unescape r := by
  simp [unescape]

theorem unescape_bs_n (r : List Char) : unescape ('\\' :: 'n' :: r) = '\n' :: unescape r := by
  simp [unescape]

theorem unescape_other (c : Char) (r : List Char) (h : c ≠ '\\') :
    unescape (c :: r) = c :: unescape r := by
  rw [unescape.eq_def]
  split <;> simp_all

/-- 1a. un-escaping inverts escaping, for every string -/
theorem unescape_escape (cs : List Char) :
    unescape (replaceAll ['\n'] ['\\', 'n'] (replaceAll ['"'] ['\\', '"']
      (replaceAll ['\\'] ['\\', '\\'] cs))) = cs := by
  show unescape (esc cs) = cs
  induction cs with
  | nil => rw [esc_nil]; simp [unescape]
  | cons c cs ih =>
    rw [esc_cons]
    unfold escChar
    by_cases h1 : c = '\\'
    · subst h1; rw [if_pos rfl]; show unescape ('\\' :: '\\' :: esc cs) = _
      rw [unescape_bs_bs, ih]
    · rw [if_neg h1]
      by_cases h2 : c = '"'
      · subst h2; rw [if_pos rfl]; show unescape ('\\' :: '"' :: esc cs) = _
        rw [unescape_bs_quote, ih]
      · rw [if_neg h2]
        by_cases h3 : c = '\n'
        · subst h3; rw [if_pos rfl]; show unescape ('\\' :: 'n' :: esc cs) = _
          rw [unescape_bs_n, ih]
        · rw [if_neg h3]; show unescape (c :: esc cs) = _
          rw [unescape_other c _ h1, ih]

/-- the quoted form never contains a raw newline -/
theorem escape_no_newline (cs : List Char) :
    '\n' ∉ replaceAll ['\n'] ['\\', 'n'] (replaceAll ['"'] ['\\', '"']
      (replaceAll ['\\'] ['\\', '\\'] cs)) := by
  show '\n' ∉ esc cs
  rw [esc_eq_flatMap, List.mem_flatMap]
  rintro ⟨c, -, hc⟩
  unfold escChar at hc
  split at hc
  · revert hc; decide
  · split at hc
    · revert hc; decide
    · split at hc
      · revert hc; decide
      · rename_i h
        simp at hc
        exact h hc.symm

/-! ### the raw form -/

theorem unraw_raw (cs : List Char) :
    replaceAll ['¬', '¬'] ['¬'] (replaceAll ['¬'] ['¬', '¬'] cs) = cs := by
  rw [replaceAll_single]
  unfold replaceAll
  induction cs with
  | nil => simp [replaceAux]
  | cons c cs ih =>
    rw [List.flatMap_cons]
    by_cases h : c = '¬'
    · subst h
      rw [if_pos rfl]
      show replaceAux ['¬', '¬'] ['¬'] 0 ('¬' :: '¬' :: _) = _
      simp [replaceAux, ih]
    · rw [if_neg h]
      have h' : ¬ '¬' = c := fun e => h e.symm
      show replaceAux ['¬', '¬'] ['¬'] 0 (c :: _) = _
      simp [replaceAux, ih, h']

/-! ### reader level -/

theorem drop_dropLast_wrap (q : Char) (body : List Char) :
    ((q :: body ++ [q]).drop 1).dropLast = body := by
  simp

/-- 3. every non-keyword string `s` is recovered by `readAtom` from the token spelled
    `prString true s`. -/
theorem read_printed_string_token (cfg : Cfg) (s : String) (t : Scan.Token)
    (hkw : Val.isKwStr s = false)
    (htext : t.text.map Char.ofNat = prString true s)
    (hkind : t.kind = if ['{', '"'].isPrefixOf s.toList ∧ s.toList.getLast? = some '}' then .rawString else .string) :
    ∃ s', readAtom cfg t = .ok (.str s') ∧ s'.toList = s.toList := by
  unfold readAtom
  simp only [htext]
  unfold prString
  unfold Val.isKwStr at hkw
  generalize s.toList = cs at *
  cases cs with
  | nil =>
    simp at hkind
    simp [hkind, unescape]
  | cons c rest =>
    have hc : ¬ c = kwMarker := by simpa using hkw
    simp only [hc, if_false, if_true]
    split at hkind
    · rename_i hraw
      rw [hkind]
      simp only [if_pos hraw]
      refine ⟨String.ofList (c :: rest), ?_, String.toList_ofList⟩
      generalize hb : replaceAll ['¬'] ['¬', '¬'] (c :: rest) = body
      have h1 : ¬ ('¬' :: body ++ ['¬'] = ['¬']) := by simp
      have h2 : ¬ ('¬' :: body ++ ['¬']).length < 2 := by simp
      rw [if_neg h1, if_neg h2, drop_dropLast_wrap, ← hb, unraw_raw]
    · rename_i hraw
      rw [hkind]
      simp only [if_neg hraw]
      refine ⟨String.ofList (c :: rest), ?_, String.toList_ofList⟩
      have h2 : ¬ ('"' :: esc (c :: rest) ++ ['"']).length < 2 := by simp
      show (if ('"' :: esc (c :: rest) ++ ['"']).length < 2 then _ else
        Except.ok (Val.str (String.ofList (unescape
          (List.drop 1 ('"' :: esc (c :: rest) ++ ['"'])).dropLast)))) = _
      rw [if_neg h2, drop_dropLast_wrap]
      show Except.ok (Val.str (String.ofList (unescape (replaceAll ['\n'] ['\\', 'n']
        (replaceAll ['"'] ['\\', '"'] (replaceAll ['\\'] ['\\', '\\'] (c :: rest))))))) = _
      rw [unescape_escape]

end LispModel.Proofs.RoundTrip

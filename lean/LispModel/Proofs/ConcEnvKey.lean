/-
  C11 proofs, part 7: bookkeeping for noninterference — the keys thread `t` uses all lie in `K`, and no
  other thread writes a key of `K` in the root.
-/
import LispModel.Proofs.ConcEnvSim
namespace LispModel.Proofs.ConcEnv
open LispModel.ConcEnv
open LispModel.Conc (upd)

def opKey : EOp → Option Nat
  | .get _ k | .find _ k | .set _ k _ | .remove _ k | .update _ k _ => some k
  | .newScope _ _ => none

def isWriteOp : EOp → Bool
  | .set _ _ _ | .remove _ _ | .update _ _ _ => true
  | _ => false

/-- every key the evaluation looks up or writes lies in `K` -/
def KeysIn (K : Nat → Bool) (strat : List ERes → Option EOp) : Prop :=
  ∀ hist op k, strat hist = some op → opKey op = some k → K k = true

/-- the evaluation never writes (Set / Remove / Update) a key of `K` in the root -/
def AvoidsWrites (K : Nat → Bool) (strat : List ERes → Option EOp) : Prop :=
  ∀ hist op k, strat hist = some op → isWriteOp op = true → op.scope = none → opKey op = some k → K k = false

structure KeyInv (K : Nat → Bool) (t : Nat) (s : EState) : Prop where
  mine : ∀ fr, (s.threads t).cur = some fr → fr.m ≠ .newScope → K fr.key = true
  others : ∀ u fr, u ≠ t → (s.threads u).cur = some fr → writeMethod fr.m = true → fr.cur = none → K fr.key = false
  stratT : KeysIn K (s.threads t).strat
  stratO : ∀ u, u ≠ t → AvoidsWrites K (s.threads u).strat

def isCallOuter : EMOp → Bool | .callOuter _ => true | _ => false

def coEntry (n : EName) (_pc : Nat) (m : EMOp) : Bool := isCallOuter m → readMethod n

theorem coTable_true : forAllE coEntry = true := by decide

theorem step_strat {s s' : EState} {t : Nat} (h : step s t = some s') (u : Nat) :
    (s'.threads u).strat = (s.threads u).strat := by
  have hk := step_kind h
  by_cases hu : u = t
  · subst hu; cases hk <;> simp [upd]
  · rw [step_other_thread h hu]

theorem frame_key (op : EOp) : (op.frame.m = op.name) ∧ (op.frame.cur = op.scope) ∧
    (∀ k, opKey op = some k → op.frame.key = k) ∧ (op.frame.m ≠ .newScope → ∃ k, opKey op = some k) ∧
    (writeMethod op.frame.m = isWriteOp op) := by
  cases op <;> simp [EOp.frame, EOp.name, EOp.scope, opKey, writeMethod, isWriteOp]

theorem KeyInv.step {K : Nat → Bool} {t : Nat} {s s' : EState} {u : Nat} (h : KeyInv K t s)
    (hs : step s u = some s') : KeyInv K t s' := by
  have hk := step_kind hs
  have hth : ∀ v, v ≠ u → s'.threads v = s.threads v := fun v hv => step_other_thread hs hv
  -- what has to be shown about the stepping thread's new frame
  have gen : (∀ fr, (s'.threads u).cur = some fr →
        (u = t → fr.m ≠ .newScope → K fr.key = true) ∧
        (u ≠ t → writeMethod fr.m = true → fr.cur = none → K fr.key = false)) → KeyInv K t s' := by
    intro hnew
    constructor
    · intro fr hc
      by_cases hu : t = u
      · subst hu; exact (hnew fr hc).1 rfl
      · rw [hth t hu] at hc; exact h.mine fr hc
    · intro v fr hv hc
      by_cases hu : v = u
      · subst hu; exact (hnew fr hc).2 hv
      · rw [hth v hu] at hc; exact h.others v fr hv hc
    · rw [step_strat hs t]; exact h.stratT
    · intro v hv; rw [step_strat hs v]; exact h.stratO v hv
  apply gen
  cases hk with
  | start op hc hsr hl =>
    intro fr hfr; simp [upd] at hfr; subst hfr
    obtain ⟨f1, f2, f3, f4, f5⟩ := frame_key op
    constructor
    · intro hu hm
      subst hu
      obtain ⟨k, hk⟩ := f4 hm
      rw [f3 k hk]; exact h.stratT _ op k hsr hk
    · intro hu hw hcur
      rw [f5] at hw
      rw [f2] at hcur
      have hm : op.frame.m ≠ .newScope := by
        intro hh; rw [hh] at f5; simp [writeMethod] at f5; rw [hw] at f5; cases f5
      obtain ⟨k, hk⟩ := f4 hm
      rw [f3 k hk]; exact h.stratO u hu _ op k hsr hw hcur hk
  | finish fr hc hr hd hm => intro fr' hfr; simp [upd] at hfr
  | install fr hc hr hd hm => intro fr' hfr; simp [upd] at hfr
  | defer fr d sc0 ds hc hr hd =>
    intro fr' hfr; simp [upd] at hfr; subst hfr
    exact ⟨fun hu => by subst hu; exact h.mine fr hc, fun hu => h.others u fr hu hc⟩
  | alloc fr hc hnr hm =>
    intro fr' hfr; simp [upd] at hfr; subst hfr
    exact ⟨fun hu => by subst hu; exact h.mine fr hc, fun hu => h.others u fr hu hc⟩
  | mop fr m fr' A' hc hnr hm hna hex =>
    intro fr2 hfr; simp [upd] at hfr; subst hfr
    obtain ⟨-, k2, k3, -⟩ := exec_keeps hex
    have sh := exec_shape hnr hex
    constructor
    · intro hu hm'; subst hu; rw [k2]; rw [k3] at hm'; exact h.mine fr hc hm'
    · intro hu hw hcur
      rw [k2]; rw [k3] at hw
      apply h.others u fr hu hc hw
      rcases sh.ctl with ⟨-, -, p, -⟩ | ⟨-, -, p, -⟩ | ⟨⟨n, hn⟩, -⟩
      · rw [← p]; exact hcur
      · rw [← p]; exact hcur
      · exfalso
        subst hn
        have tab := forAllE_spec coTable_true hm
        simp only [coEntry, isCallOuter, decide_eq_true_eq, forall_const] at tab
        cases hfm : fr.m <;> simp_all [readMethod, writeMethod]

end LispModel.Proofs.ConcEnv

/-
  C09 proofs, part 6: the saved (value, version) pair of a `swap!` that has not yet installed is
  either stale (its version is behind) or exact (its value is the current one) — the core of the
  optimistic retry.  Invariant `VerInv`, preserved by every step of the fixed programs.
-/
import LispModel.Proofs.ConcAtomInv
import LispModel.Proofs.ConcAtomKind
namespace LispModel.Proofs.ConcAtom
open LispModel.Conc

/-- what a micro-op does to the data part of atom and frame -/
theorem execM_data {t m fr A fr' A'} (h : execM t m fr A = some (fr', A')) :
    (m = .write .val → A'.val = fr.res) ∧ (m ≠ .write .val → A'.val = A.val) ∧
    (m = .write .ver → A'.ver = A.ver + 1) ∧ (m ≠ .write .ver → A'.ver = A.ver) ∧
    (m = .read .val → fr'.old = A.val) ∧ (m ≠ .read .val → fr'.old = fr.old) ∧
    (m = .read .ver → fr'.sver = A.ver) ∧ (m ≠ .read .ver → fr'.sver = fr.sver) ∧
    fr'.res = fr.res := by
  cases m with
  | lock mu => cases mu <;> simp [execM] at h
               obtain ⟨-, h3, h4⟩ := h; subst h3; subst h4; simp
  | rlock mu => cases mu <;> simp [execM] at h
                obtain ⟨-, h3, h4⟩ := h; subst h3; subst h4; simp
  | unlock mu => cases mu <;> simp [execM] at h
                 obtain ⟨h3, h4⟩ := h; subst h3; subst h4; simp
  | runlock mu => cases mu <;> simp [execM] at h
                  obtain ⟨h3, h4⟩ := h; subst h3; subst h4; simp
  | read l => cases l <;> simp [execM] at h <;> (obtain ⟨h3, h4⟩ := h; subst h3; subst h4; simp)
  | write l => cases l <;> simp [execM] at h <;> (obtain ⟨h3, h4⟩ := h; subst h3; subst h4; simp)
  | brNe l k => cases l <;> simp [execM] at h
                obtain ⟨h3, h4⟩ := h; subst h3; subst h4
                split <;> simp
  | deferUnlock mu => simp [execM] at h; obtain ⟨h3, h4⟩ := h; subst h3; subst h4; simp
  | deferRUnlock mu => simp [execM] at h; obtain ⟨h3, h4⟩ := h; subst h3; subst h4; simp
  | jmp k => simp [execM] at h; obtain ⟨h3, h4⟩ := h; subst h3; subst h4; simp
  | ctxCheck => simp [execM] at h; obtain ⟨h3, h4⟩ := h; subst h3; subst h4; simp
  | ret => simp [execM] at h; obtain ⟨h3, h4⟩ := h; subst h3; subst h4; simp
  | _ => simp [execM] at h

/-- a `swap!` frame holding a saved (value, version) pair it may still install -/
def ReaderFrame (fr : Frame) : Prop :=
  fr.op.name = .swap ∧ fr.returning = false ∧ 3 ≤ fr.pc ∧ fr.pc ≤ 7

/-- a `swap!` frame that has read `Val` but not yet `version` (under the read lock) -/
def HalfRead (fr : Frame) : Prop := fr.op.name = .swap ∧ fr.returning = false ∧ fr.pc = 2

/-- between `Val = …` and `version++` of an install -/
def midInstall (fr : Frame) : Prop :=
  fr.returning = false ∧ ((fr.op.name = .swap ∧ fr.pc = 8) ∨ (fr.op.name = .reset ∧ fr.pc = 3))

def Mid (s : State) (a : Nat) : Prop :=
  ∃ u top rest, (s.threads u).stack = top :: rest ∧ top.op.atom = a ∧ midInstall top

def SavedOK (s : State) (fr : Frame) : Prop :=
  fr.sver ≤ (s.atoms fr.op.atom).ver ∧
  (fr.sver = (s.atoms fr.op.atom).ver → fr.old = (s.atoms fr.op.atom).val ∨ Mid s fr.op.atom)

structure VerInv (s : State) : Prop where
  half : ∀ t top rest, (s.threads t).stack = top :: rest → HalfRead top →
    top.old = (s.atoms top.op.atom).val
  saved : ∀ t fr, fr ∈ (s.threads t).stack → ReaderFrame fr → SavedOK s fr

theorem halfRead_holdsR {fr : Frame} (h : HalfRead fr) : holdsR fr = true := by
  obtain ⟨hn, hr, hpc⟩ := h
  simp [holdsR, hr, hn, hpc, holdsRAt]

theorem midInstall_holdsW {fr : Frame} (h : midInstall fr) : holdsW fr = true := by
  obtain ⟨hr, h | h⟩ := h <;> simp [holdsW, hr, h.1, h.2, holdsWAt]

theorem VerInv.setTop {s : State} {t : Nat} {stk : List Frame} {fr' : Frame} {rest' : List Frame}
    {A' : AtomS} {ev : List LinEv}
    (hV : VerInv s) (hL : LockInv s) (hst : (s.threads t).stack = stk)
    (hsub : ∀ f ∈ rest', f ∈ stk)
    (hver : A'.ver = (s.atoms fr'.op.atom).ver ∨ A'.ver = (s.atoms fr'.op.atom).ver + 1)
    (hval : A'.val = (s.atoms fr'.op.atom).val ∨ (midInstall fr' ∧ (s.atoms fr'.op.atom).w = some t))
    (hmid : ∀ top rest, stk = top :: rest → midInstall top →
      top.op.atom = fr'.op.atom ∧ A'.ver = (s.atoms fr'.op.atom).ver + 1)
    (hH : HalfRead fr' → fr'.old = A'.val)
    (hS : ReaderFrame fr' →
      (∃ fr ∈ stk, ReaderFrame fr ∧ fr.op.atom = fr'.op.atom ∧ fr.old = fr'.old ∧ fr.sver = fr'.sver) ∨
      (fr'.sver = A'.ver ∧ fr'.old = A'.val)) :
    VerInv (s.setTop t fr' rest' A' ev) := by
  have hM : ∀ b, (b ≠ fr'.op.atom ∨ A'.ver = (s.atoms fr'.op.atom).ver) → Mid s b →
      Mid (s.setTop t fr' rest' A' ev) b := by
    rintro b hb ⟨u, top, rest, hstu, hat, hmi⟩
    by_cases hu : u = t
    · subst hu
      obtain ⟨h1, h2⟩ := hmid top rest (hst ▸ hstu) hmi
      rcases hb with hb | hb
      · exact absurd (hat ▸ h1) hb
      · omega
    · exact ⟨u, top, rest, by rw [setTop_threads_other _ _ _ _ _ _ hu]; exact hstu, hat, hmi⟩
  have hO : ∀ fr, ReaderFrame fr → SavedOK s fr → SavedOK (s.setTop t fr' rest' A' ev) fr := by
    intro fr _ hs
    unfold SavedOK at hs ⊢
    by_cases ha : fr.op.atom = fr'.op.atom
    · rw [ha] at hs ⊢
      rw [setTop_atoms_same]
      obtain ⟨h1, h2⟩ := hs
      rcases hver with hv | hv
      · refine ⟨by omega, fun heq => ?_⟩
        rcases h2 (by omega) with h3 | h3
        · rcases hval with h4 | h4
          · exact Or.inl (by rw [h4]; exact h3)
          · exact Or.inr ⟨t, fr', rest', setTop_stack_same _ _ _ _ _ _, rfl, h4.1⟩
        · exact Or.inr (hM _ (Or.inr hv) h3)
      · exact ⟨by omega, fun heq => by omega⟩
    · rw [setTop_atoms_other _ _ _ _ _ _ ha]
      exact ⟨hs.1, fun heq => (hs.2 heq).imp id (hM _ (Or.inl ha))⟩
  constructor
  · intro u top rest hstu hHR
    by_cases hu : u = t
    · subst hu
      rw [setTop_stack_same] at hstu
      cases hstu
      rw [setTop_atoms_same]; exact hH hHR
    · rw [setTop_threads_other _ _ _ _ _ _ hu] at hstu
      have h0 := hV.half u top rest hstu hHR
      by_cases ha : top.op.atom = fr'.op.atom
      · rw [ha, setTop_atoms_same]
        rw [ha] at h0
        rcases hval with h4 | h4
        · rw [h4]; exact h0
        · have hr := hL.excl fr'.op.atom (by rw [h4.2]; simp)
          have hmem := (hL.r_iff fr'.op.atom u).mpr ⟨top, rest, hstu, ha, halfRead_holdsR hHR⟩
          rw [hr] at hmem; cases hmem
      · rw [setTop_atoms_other _ _ _ _ _ _ ha]; exact h0
  · intro u fr hfr hR
    by_cases hu : u = t
    · subst hu
      rw [setTop_stack_same] at hfr
      rcases List.mem_cons.mp hfr with hfr | hfr
      · subst hfr
        rcases hS hR with ⟨g, hg, hRg, hga, hgo, hgs⟩ | ⟨h1, h2⟩
        · have := hO g hRg (hV.saved u g (hst ▸ hg) hRg)
          unfold SavedOK at this ⊢
          rw [hga, hgo, hgs] at this
          exact this
        · unfold SavedOK
          rw [setTop_atoms_same]
          exact ⟨by omega, fun _ => Or.inl h2⟩
      · exact hO fr hR (hV.saved u fr (hst ▸ hsub fr hfr) hR)
    · rw [setTop_threads_other _ _ _ _ _ _ hu] at hfr
      exact hO fr hR (hV.saved u fr hfr hR)

/-- generic lookup in a table over (function, pc, micro-op) of the atom programs -/
def forAllOps (P : OpName → Nat → MOp → Bool) : Bool :=
  atomNames.all fun n => (List.range (prog n).length).all fun pc =>
    match (prog n)[pc]? with
    | none => true
    | some m => P n pc m

theorem forAllOps_spec {P : OpName → Nat → MOp → Bool} (h : forAllOps P = true) {n : OpName} {pc : Nat}
    {m : MOp} (hn : n ∈ atomNames) (hm : (prog n)[pc]? = some m) : P n pc m = true := by
  have hpc : pc < (prog n).length := by
    rcases Nat.lt_or_ge pc (prog n).length with hlt | hge
    · exact hlt
    · rw [List.getElem?_eq_none_iff.mpr hge] at hm; cases hm
  unfold forAllOps at h
  rw [List.all_eq_true] at h
  have h1 := h n hn
  rw [List.all_eq_true] at h1
  have h2 := h1 pc (List.mem_range.mpr hpc)
  rw [hm] at h2
  exact h2

def isMidAt (n : OpName) (pc : Nat) : Bool := (n == .swap && pc == 8) || (n == .reset && pc == 3)
def isReaderAt (n : OpName) (pc : Nat) : Bool := n == .swap && decide (3 ≤ pc) && decide (pc ≤ 7)

/-- the data-flow facts about the fixed programs the version invariant needs -/
def verEntry (n : OpName) (pc : Nat) (m : MOp) : Bool :=
  (isMidAt n pc → m == .write .ver) &&
  (ctl m pc (defersAt n pc)).all fun (pc', _, ret') =>
    ((m == .write .val) → (!ret' && isMidAt n pc' && holdsWAt n pc)) &&
    ((!ret' && isMidAt n pc') → m == .write .val) &&
    ((!ret' && n == .swap && pc' == 2) → m == .read .val) &&
    ((!ret' && isReaderAt n pc') →
      ((m == .read .ver && pc == 2) ||
       (isReaderAt n pc && m != .read .val && m != .read .ver && m != .write .val && m != .write .ver)))

theorem verTable_true : forAllOps verEntry = true := by decide

end LispModel.Proofs.ConcAtom

/-
  Laws mirroring the seeded changes of rounds 3–5 (brief F1): facts about the model that realistic
  regressions of the Go code broke.  Grouped per property (`namespace C01` … `C17`); re-stated at the
  end of the `Props/Cxx.lean` files.  Core Lean only.
-/
import LispModel.Eval
import LispModel.Read
import LispModel.Print
import LispModel.Preamble
import LispModel.Util
import LispModel.Proofs.EvalBasic
import LispModel.Proofs.EvalLaws
import LispModel.Proofs.CoreLaws
import LispModel.Proofs.QQ
import LispModel.Proofs.Reader
import LispModel.Proofs.Preamble
import LispModel.Proofs.Positions
namespace LispModel.Proofs.SeedLaws
open LispModel LispModel.Core

/-! ### small vocabulary for the kernel-evaluated examples -/

def Sy (s : String) : Val := .sym s none
def Ls (xs : List Val) : Val := .list xs none
def Vc (xs : List Val) : Val := .vec xs none
def Nm (n : Int) : Val := .int n
def Kw (s : String) : Val := Val.kw s

/-- run a program on the harness environment (top-level `EVAL`, depth 1) -/
def runTop (prog : Val) : R := eval 300 initState 0 prog 1

/-- structural comparison of plain data (ints, strings, symbols, nil, bools, lists, vectors), kinds
    distinguished (a list is not a vector) -/
def sameData : Val → Val → Bool
  | .nil, .nil => true
  | .bool a, .bool b => a == b
  | .int a, .int b => a == b
  | .str a, .str b => a == b
  | .sym a _, .sym b _ => a == b
  | .list xs _, .list ys _ => sameList xs ys
  | .vec xs _, .vec ys _ => sameList xs ys
  | _, _ => false
where
  sameList : List Val → List Val → Bool
    | [], [] => true
    | x :: xs, y :: ys => sameData x y && sameList xs ys
    | _, _ => false

/-- the trace (oldest effect first) is exactly `vs` -/
def traceEq (r : R) (vs : List Val) : Bool := sameData (Ls r.2.trace.reverse) (Ls vs)

def okIs (r : R) (v : Val) : Bool :=
  match r.1 with
  | .ok w => sameData w v
  | _ => false

def failed (r : R) : Bool :=
  match r.1 with
  | .err _ => true
  | _ => false

/-! ## C01 — the operator is evaluated before (and without) the operands -/
namespace C01
open Proofs.EvalLaws

variable {F : Nat} {st : State} {env d : Nat} {pos : Option Pos}

/-- a call form `(h a₁ … aₙ)` whose head `h` evaluates with an error returns that error in the state
    reached by evaluating `h` ALONE: no operand is evaluated, whatever the operands are -/
theorem operator_before_operands (hc : st.cancelAt = none) (hs : st.stepper = none) {h : Val}
    (args : List Val) (hm : HeadNotMacro st env h) (hsf : a0sym h ∉ specialForms) {e : Err} {st1 : State}
    (hh : eval F (tick st) env h (d+1) = (.err e, st1)) :
    evalLoop (F+2) st env (.list (h :: args) pos) d = (.err e, st1) :=
  eval_args_error hc hs hm hsf (evalList_error_stops args hh)

/-- in particular an unbound head symbol: the "not found" error of the symbol, after the two polls of
    the call form and of the symbol — no operand is touched -/
theorem unbound_operator_before_operands (hc : st.cancelAt = none) (hs : st.stepper = none) {s : String}
    (p : Option Pos) (args : List Val) (hsf : s ∉ specialForms) (hu : st.get env s = none) :
    evalLoop (F+5) st env (.list (.sym s p :: args) pos) d =
      (.err (.lisp (.goerr ("symbol '" ++ s ++ "' not found")) p), tick (tick st)) := by
  have hm : HeadNotMacro st env (.sym s p) := by
    intro ps b e q h; rw [hu] at h; cases h
  refine operator_before_operands hc hs args hm hsf ?_
  rw [eval_of_stepper_none (by simpa using hs)]
  exact eval_unbound_symbol_errors (by simpa using hc) p (by rw [get_scopes_congr (tick_scopes st)]; exact hu)

/-- `((do (trace! 1) +) (trace! 2) (trace! 3))` ⇒ 5 with the effects 1, 2, 3 in this order: the effects of
    the operator come first -/
theorem operator_effects_first :
    (let r := runTop (Ls [Ls [Sy "do", Ls [Sy "trace!", Nm 1], Sy "+"], Ls [Sy "trace!", Nm 2], Ls [Sy "trace!", Nm 3]]);
     okIs r (Nm 5) && traceEq r [Nm 1, Nm 2, Nm 3]) = true := by
  decide +kernel

/-- `(nope (trace! 1))`: an error, and no effect -/
theorem unbound_operator_example :
    (let r := runTop (Ls [Sy "nope", Ls [Sy "trace!", Nm 1]]); failed r && traceEq r []) = true := by
  decide +kernel

end C01

/-! ## C12 — a macro binding wins over a special form of the same name; splice results keep their kind -/
namespace C12
open Proofs.EvalLaws

/-- The head symbol of a list form is looked up as a macro BEFORE the special forms are recognised: if
    `s` is bound (in scope) to a macro closure — whatever `s` is, in particular `let`, `if`, `try`, `def`,
    `fn` — then (a) the form is expanded by applying the macro to the operand FORMS, (b) an error of the
    expansion is the error of the form, (c) otherwise the result is that of evaluating the expansion. -/
theorem macro_named_like_special_form_wins {F : Nat} {st : State} {env d : Nat} {s : String}
    {p q fp : Option Pos} {args : List Val} {ps b : Val} {fe : Nat}
    (hc : st.cancelAt = none) (h : st.get env s = some (.fn ps b fe true fp)) :
    (macroexpand (F+1) (tick st) env (.list (.sym s p :: args) q) d =
      match bindParams ps args with
      | .error e => (.err e, tick st)
      | .ok data =>
        match eval F ((tick st).newScope fe data).1 ((tick st).newScope fe data).2 b (d+1) with
        | (.ok ast', st2) => macroexpand F st2 env ast' d
        | r => r) ∧
    (∀ e s1, macroexpand (F+1) (tick st) env (.list (.sym s p :: args) q) d = (.err e, s1) →
      evalLoop (F+2) st env (.list (.sym s p :: args) q) d = (.err e, s1)) ∧
    (∀ ast' s1 st0, macroexpand (F+1) (tick st) env (.list (.sym s p :: args) q) d = (.ok ast', s1) →
      st0.poll = (false, s1) →
      evalLoop (F+2) st env (.list (.sym s p :: args) q) d = evalLoop (F+2) st0 env ast' d) := by
  have h' : (tick st).get env s = some (.fn ps b fe true fp) := by
    rw [get_scopes_congr (tick_scopes st)]; exact h
  have hp := poll_of_not_cancelled hc
  exact ⟨Proofs.QQ.macroexpand_macro h', fun e s1 hm => Proofs.EvalBasic.evalLoop_mac_err hp hm,
    fun ast' s1 st0 hm hp0 => Proofs.QQ.macro_call_eq_expansion hp hm hp0⟩

/-- `(do (defmacro let (fn (a b) (list 'trace! b))) (let 1 2))` ⇒ 2 with the effect 2 (the special form
    `let` would reject `1` as a binding vector) -/
theorem macro_named_let_example :
    (let r := runTop (Ls [Sy "do",
        Ls [Sy "defmacro", Sy "let", Ls [Sy "fn", Ls [Sy "a", Sy "b"], Ls [Sy "list", Ls [Sy "quote", Sy "trace!"], Sy "b"]]],
        Ls [Sy "let", Nm 1, Nm 2]]);
     okIs r (Nm 2) && traceEq r [Nm 2]) = true := by
  decide +kernel

/-- `(do (defmacro if (fn (c a b) b)) (if true 1 2))` ⇒ 2 -/
theorem macro_named_if_example :
    okIs (runTop (Ls [Sy "do", Ls [Sy "defmacro", Sy "if", Ls [Sy "fn", Ls [Sy "c", Sy "a", Sy "b"], Sy "b"]],
      Ls [Sy "if", .bool true, Nm 1, Nm 2]])) (Nm 2) = true := by
  decide +kernel

/-- ``(let (v [2 3]) `(~@v))`` is the LIST `(2 3)` -/
theorem splice_in_list_is_list :
    okIs (runTop (Ls [Sy "let", Ls [Sy "v", Vc [Nm 2, Nm 3]],
      Ls [Sy "quasiquote", Ls [Ls [Sy "splice-unquote", Sy "v"]]]])) (Ls [Nm 2, Nm 3]) = true := by
  decide +kernel

/-- ``(let (v [2 3]) `[~@v])`` is the VECTOR `[2 3]` -/
theorem splice_in_vector_is_vector :
    okIs (runTop (Ls [Sy "let", Ls [Sy "v", Vc [Nm 2, Nm 3]],
      Ls [Sy "quasiquote", Vc [Ls [Sy "splice-unquote", Sy "v"]]]])) (Vc [Nm 2, Nm 3]) = true := by
  decide +kernel

end C12

/-! ## C13 — map builtins with several keys, nil values, and the kind of `concat`'s result -/
namespace C13
open LispModel.CoreLaws

/-- erasing keys one after the other -/
def eraseAll (m : List (String × Val)) (ks : List String) : List (String × Val) :=
  ks.foldl (fun acc k => aerase k acc) m

theorem dissoc_fold (ks : List String) (m : List (String × Val)) :
    (ks.map Val.str).foldl (fun m k => match k with | .str k => aerase k m | _ => m) m = eraseAll m ks := by
  induction ks generalizing m with
  | nil => rfl
  | cons k ks ih => simp only [List.map_cons, List.foldl_cons, eraseAll]; exact ih _

theorem all_isStr (ks : List String) : (ks.map Val.str).all isStr = true := by
  induction ks with
  | nil => rfl
  | cons k ks ih => simp only [List.map_cons, List.all_cons, isStr, ih, Bool.and_self]

/-- `(dissoc m k₁ … kₙ)` (n ≥ 1, keys strings / keywords) removes ALL the keys: it is the fold of the
    single-key `dissoc` (`(dissoc m k)` is `aerase k m`, second part) over the keys, left to right -/
theorem dissoc_many (m : List (String × Val)) (ks : List String) (hne : ks ≠ []) (hl : ks.length < 1000) :
    callOk "dissoc" (.map m :: ks.map .str) (.map (eraseAll m ks)) ∧
    (∀ acc k, callOk "dissoc" [.map acc, .str k] (.map (aerase k acc))) ∧
    eraseAll m ks = ks.foldl (fun acc k => aerase k acc) m := by
  refine ⟨?_, fun acc k => dissoc_map1 acc k, rfl⟩
  rw [callOk, call_var rfl _ (by simp; omega), body_dissoc]
  have h2 : ¬ (Val.map m :: ks.map Val.str).length < 2 := by
    cases ks with
    | nil => exact absurd rfl hne
    | cons k ks => simp
  simp only [Core.dissoc, h2, ↓reduceIte, all_isStr]
  exact congrArg (fun x => some (BRes.ok (Val.map x))) (dissoc_fold ks m)

/-- `(contains? (assoc m k nil) k) = true` although `(get (assoc m k nil) k) = nil`: presence is not
    "the value is not nil"  (instance of `contains_assoc`, plus the value) -/
theorem contains_present_nil (m : List (String × Val)) (k : String) :
    ∃ r, callOk "assoc" [.map m, .str k, .nil] r ∧ callOk "contains?" [r, .str k] (.bool true) ∧
      callOk "get" [r, .str k] .nil :=
  ⟨_, assoc_map1 m k .nil, contains_assoc m k .nil, get_assoc_same m k .nil⟩

/-- `(concat v)` for ONE vector `v` is the LIST of its elements, not `v` itself (instance of
    `concat_spec`) -/
theorem concat_one_vector_is_list (xs : List Val) (p : Option Pos) :
    callOk "concat" [.vec xs p] (.list xs none) := by
  have h := concat_spec (ss := [.vec xs p]) (xss := [xs]) ⟨rfl, trivial⟩ (by simp)
  simpa using h

end C13

/-! ### reader vocabulary for the kernel-evaluated examples -/

/-- the text reads (no module, no table, no environment) as the datum `v` (cursors ignored, kinds not) -/
def readsAs (bytes : List UInt8) (v : Val) : Bool :=
  match Read.readStr {} bytes with
  | .ok w => sameData w v
  | .error _ => false

/-- the text is rejected with exactly the error `e` -/
def rejectedWith (bytes : List UInt8) (e : Read.RErr) : Bool :=
  match Read.readStr {} bytes with
  | .ok _ => false
  | .error e' => e' == e

def utf8Of (cs : List Char) : List UInt8 := cs.flatMap String.utf8EncodeChar

/-! ## C05 — the literals `nil` / `true` / `false` are case-sensitive -/
namespace C05

/-- `True`, `NIL`, `Nil`, `FALSE`, `TRUE`, `False` read as SYMBOLS … -/
theorem capitalised_literals_are_symbols :
    (readsAs (bytes% "True") (Sy "True") && readsAs (bytes% "NIL") (Sy "NIL") &&
     readsAs (bytes% "Nil") (Sy "Nil") && readsAs (bytes% "FALSE") (Sy "FALSE") &&
     readsAs (bytes% "TRUE") (Sy "TRUE") && readsAs (bytes% "False") (Sy "False")) = true := by
  decide +kernel

/-- … and `nil`, `true`, `false` as the literals (also inside a form next to their capitalised twins) -/
theorem lowercase_literals_are_literals :
    (readsAs (bytes% "nil") .nil && readsAs (bytes% "true") (.bool true) &&
     readsAs (bytes% "false") (.bool false) &&
     readsAs (bytes% "(nil Nil true True false False)")
       (Ls [.nil, Sy "Nil", .bool true, Sy "True", .bool false, Sy "False"])) = true := by
  decide +kernel

end C05

/-! ## C06 — a keyword whose name starts with the keyword marker -/
namespace C06

/-- the keyword `:ʞx` (name starting with U+029E) prints as `:ʞx` and reads back to itself: only ONE
    leading marker is the keyword tag -/
theorem keyword_named_with_marker_round_trips :
    (Print.print (Kw "ʞx") == ":ʞx".toList && readsAs (utf8Of (Print.print (Kw "ʞx"))) (Kw "ʞx") &&
     readsAs (bytes% ":ʞx") (Kw "ʞx") && !readsAs (bytes% ":ʞx") (Kw "x")) = true := by
  decide +kernel

end C06

/-! ## C16 — malformed is not incomplete: a reader macro in front of a closer, a second open form -/
namespace C16
open Read

/-- a reader macro (`'`, `` ` ``, `~`, `~@`, `@`) directly in front of a closing bracket: the closer is
    reported as unexpected (never "got EOF"), whatever follows and however deep the macro sits -/
theorem reader_macro_before_closer (cfg : Cfg) (f : Nat) (q c : Scan.Token) (rest : List Scan.Token)
    {name : String} (hq : readerMacros.lookup (tokStr q) = some name)
    (hc : tokStr c = ")" ∨ tokStr c = "]" ∨ tokStr c = "}") :
    readForm (f+2) cfg (q :: c :: rest) = .error (.unexpected (tokStr c)) ∧
    multiLine (.unexpected (tokStr c)) = false := by
  have h := Proofs.Reader.unmatched_closer_rejected cfg c rest f hc
  refine ⟨?_, h.2⟩
  rw [readForm.eq_3]
  simp only [hq, h.1]

/-- `')`, `(a ')`, `` [1 `] `` are rejected as malformed ("unexpected closer"), not as incomplete -/
theorem quote_before_closer_examples :
    (rejectedWith (bytes% "')") (.unexpected ")") && rejectedWith (bytes% "(a ')") (.unexpected ")") &&
     rejectedWith (bytes% "[1 `]") (.unexpected "]") &&
     !multiLine (.unexpected ")") && !multiLine (.unexpected "]")) = true := by
  decide +kernel

/-- `(a) (b`: a complete form followed by an open one is rejected with the trailing ("not all tokens
    where parsed") class, not the eof class — the REPL does not wait for more lines -/
theorem second_open_form_is_trailing :
    (rejectedWith (bytes% "(a) (b") .trailing && !multiLine .trailing &&
     rejectedWith (bytes% "(b") (.eof ")") && multiLine (.eof ")")) = true := by
  decide +kernel

end C16

/-! ## C15 — an empty placeholder table still writes the blank separator line -/
namespace C15
open Read Preamble

/-- with an empty table `AddPreamble` writes just the blank separator line in front of the source … -/
theorem addPreamble_empty (src : List UInt8) : addPreamble src [] = 10 :: src := rfl

/-- … so `READWithPreamble (AddPreamble src ∅)` reads `src` ITSELF with the empty table: a first line of
    `src` that looks like a preamble line (`;; $x 10`) is source text (a comment), not an entry -/
theorem addPreamble_empty_table (cfg : Cfg) (src : List UInt8) :
    readWithPreamble cfg (addPreamble src []) =
      (match readStr { cfg with phs := some [] } src with
       | .ok r => .ok r
       | .error e => .err e) := by
  rw [addPreamble_empty]
  exact Proofs.Preamble.aux_blank cfg _ src []

def preambleReadsAs (bytes : List UInt8) (v : Val) : Bool :=
  match readWithPreamble {} bytes with
  | .ok w => sameData w v
  | _ => false

/-- `src = ";; $x 10\n(list $x)"` sent with an empty table reads as `(list nil)`; without the separator
    line (the text handed over as it is) its first line would be taken for an entry: `(list 10)` -/
theorem addPreamble_empty_table_example :
    (preambleReadsAs (addPreamble (bytes% ";; $x 10\n(list $x)") []) (Ls [Sy "list", .nil]) &&
     preambleReadsAs (bytes% ";; $x 10\n(list $x)") (Ls [Sy "list", Nm 10])) = true := by
  decide +kernel

end C15

/-! ## C17 — the module name of the positions: from the `;; $MODULE` header only when none is given -/
namespace C17
open Read Proofs.Positions

/-- without a module name in the configuration the reader takes it from the header line of the text … -/
theorem readStr_module_from_header {cfg : Cfg} (hm : cfg.module = none) (bytes : List UInt8) :
    readStr cfg bytes = readStr { cfg with module := modulePrefix bytes } bytes := by
  unfold readStr
  cases hp : modulePrefix bytes <;> simp [hm]

/-- … so with a first line `;; $MODULE name` every cursor of the read form names `name` -/
theorem module_from_header {cfg : Cfg} (hm : cfg.module = none) {bytes : List UInt8} {name : String}
    (hh : modulePrefix bytes = some name)
    (hphs : PhsAll (fun p => p.module = some name) cfg) {v : Val}
    (h : readStr cfg bytes = .ok v) : AllPos (fun p => p.module = some name) v := by
  rw [readStr_module_from_header hm] at h
  exact readStr_module (cfg := { cfg with module := modulePrefix bytes }) hh hphs h

/-- with a module name in the configuration the header is not consulted: the text is read under the
    given configuration as it is, whatever its first line says -/
theorem module_header_ignored_when_named {cfg : Cfg} {m : String} (hm : cfg.module = some m)
    (bytes : List UInt8) :
    (if cfg.module.isNone then { cfg with module := modulePrefix bytes } else cfg) = cfg := by
  rw [hm]; rfl

/-- every cursor in the value names module `m` (Boolean, for the examples) -/
def allModule (m : Option String) : Val → Bool
  | .sym _ p => ok p
  | .list xs p => ok p && all xs
  | .vec xs p => ok p && all xs
  | _ => true
where
  ok : Option Pos → Bool
    | some p => p.module == m
    | none => false
  all : List Val → Bool
    | [] => true
    | x :: xs => allModule m x && all xs

def readModuleIs (cfg : Cfg) (bytes : List UInt8) (m : Option String) : Bool :=
  match readStr cfg bytes with
  | .ok v => allModule m v
  | .error _ => false

/-- the header names the module, also a name containing a blank; without header there is none -/
theorem module_from_header_examples :
    (modulePrefix (bytes% ";; $MODULE nightly report.lisp\n(f [x] y)") == some "nightly report.lisp" &&
     readModuleIs {} (bytes% ";; $MODULE nightly report.lisp\n(f [x] y)") (some "nightly report.lisp") &&
     readModuleIs {} (bytes% ";; $MODULE a.lisp\n(f [x] y)") (some "a.lisp") &&
     readModuleIs {} (bytes% "(f [x] y)") none) = true := by
  decide +kernel

/-- a module name given by the caller wins over the header -/
theorem module_header_ignored_example :
    (readModuleIs { module := some "m" } (bytes% ";; $MODULE other.lisp\n(f [x] y)") (some "m") &&
     !readModuleIs { module := some "m" } (bytes% ";; $MODULE other.lisp\n(f [x] y)") (some "other.lisp")) = true := by
  decide +kernel

end C17

/-! ## C03 — the handler runs before `finally`; `finally` also runs when the handler throws -/
namespace C03

/-- the error payload of a result is the datum `v` -/
def isErrWith (r : R) (v : Val) : Bool :=
  match r.1 with
  | .err e => sameData (caughtValue e) v
  | _ => false

/-- `(try (throw 1) (catch e (trace! :h)) (finally (trace! :f)))` ⇒ `:h`, with the effects `:h`, `:f` in
    this order: the handler runs before `finally` -/
theorem handler_before_finally :
    (let r := runTop (Ls [Sy "try", Ls [Sy "throw", Nm 1],
        Ls [Sy "catch", Sy "e", Ls [Sy "trace!", Kw "h"]], Ls [Sy "finally", Ls [Sy "trace!", Kw "f"]]]);
     okIs r (Kw "h") && traceEq r [Kw "h", Kw "f"]) = true := by
  decide +kernel

/-- `(try (throw 1) (catch e (trace! :h) (throw 2)) (finally (trace! :f)))`: the handler throws; `finally`
    still runs (effects `:h`, `:f`) and the handler's error `2` (not `1`) is the result -/
theorem finally_runs_when_handler_throws :
    (let r := runTop (Ls [Sy "try", Ls [Sy "throw", Nm 1],
        Ls [Sy "catch", Sy "e", Ls [Sy "trace!", Kw "h"], Ls [Sy "throw", Nm 2]], Ls [Sy "finally", Ls [Sy "trace!", Kw "f"]]]);
     isErrWith r (Nm 2) && !isErrWith r (Nm 1) && traceEq r [Kw "h", Kw "f"]) = true := by
  decide +kernel

end C03

end LispModel.Proofs.SeedLaws

/-
  C11 proofs, part 2: every step preserves the lock discipline.
-/
import LispModel.Proofs.ConcEnvLock
namespace LispModel.Proofs.ConcEnv
open LispModel.ConcEnv
open LispModel.Conc (upd)

@[simp] theorem updS_same {α} (f : Sid → α) (i : Sid) (x : α) : updS f i x i = x := by simp [updS]
theorem updS_other {α} (f : Sid → α) {i j : Sid} (x : α) (h : j ≠ i) : updS f i x j = f j := by simp [updS, h]

theorem LockInv.step_gen {s s' : EState} {t : Nat} (h : LockInv s)
    (hth : ∀ u, u ≠ t → s'.threads u = s.threads u)
    (hfw : ∀ fr, (s'.threads t).cur = some fr → FW fr)
    (hr : ∀ sc, heldRc (s'.threads t).cur sc ≤ (s'.scopes sc).r.count t)
    (hw : ∀ sc, heldWc (s'.threads t).cur sc ≤ (if (s'.scopes sc).w = some t then 1 else 0))
    (hor : ∀ u, u ≠ t → ∀ sc, (s.scopes sc).r.count u ≤ (s'.scopes sc).r.count u)
    (how : ∀ u, u ≠ t → ∀ sc, (s.scopes sc).w = some u → (s'.scopes sc).w = some u)
    (hex : ∀ sc, (s'.scopes sc).w ≠ none → (s'.scopes sc).r = []) : LockInv s' := by
  constructor
  · intro u fr hc
    by_cases hu : u = t
    · subst hu; exact hfw fr hc
    · rw [hth u hu] at hc; exact h.fw u fr hc
  · intro u sc
    by_cases hu : u = t
    · subst hu; exact hr sc
    · rw [hth u hu]; exact Nat.le_trans (h.rd u sc) (hor u hu sc)
  · intro u sc
    by_cases hu : u = t
    · subst hu; exact hw sc
    · rw [hth u hu]
      have := h.wr u sc
      by_cases hwu : (s.scopes sc).w = some u
      · rw [how u hu sc hwu]; simpa [hwu] using this
      · simp only [hwu, if_false] at this
        exact Nat.le_trans this (Nat.zero_le _)
  · exact hex

/-- steps that change neither a mutex nor (beyond thread `t`'s frame) anything the invariant looks at -/
theorem LockInv.step_frame {s s' : EState} {t : Nat} (h : LockInv s)
    (hth : ∀ u, u ≠ t → s'.threads u = s.threads u)
    (hsc : ∀ sc, (s'.scopes sc).w = (s.scopes sc).w ∧ (s'.scopes sc).r = (s.scopes sc).r)
    (hfw : ∀ fr, (s'.threads t).cur = some fr → FW fr)
    (hr : ∀ sc, heldRc (s'.threads t).cur sc ≤ heldRc (s.threads t).cur sc)
    (hw : ∀ sc, heldWc (s'.threads t).cur sc ≤ heldWc (s.threads t).cur sc) : LockInv s' := by
  apply h.step_gen hth hfw
  · intro sc; rw [(hsc sc).2]; exact Nat.le_trans (hr sc) (h.rd t sc)
  · intro sc; rw [(hsc sc).1]; exact Nat.le_trans (hw sc) (h.wr t sc)
  · intro u _ sc; rw [(hsc sc).2]; exact Nat.le_refl _
  · intro u _ sc hh; rw [(hsc sc).1]; exact hh
  · intro sc; rw [(hsc sc).1, (hsc sc).2]; exact h.excl sc

theorem frame_new_fw (op : EOp) : FW op.frame ∧ ∀ sc, heldRc (some op.frame) sc = 0 ∧ heldWc (some op.frame) sc = 0 := by
  cases op <;> simp [EOp.frame, FW, prog, heldRc, heldWc, justLocked]

theorem count_tail_le {α} [BEq α] (a x : α) (l : List α) : l.count a ≤ (x :: l).count a := by
  rw [List.count_cons]; omega

theorem LockInv.step {s s' : EState} {t : Nat} (h : LockInv s) (hs : step s t = some s') : LockInv s' := by
  have hk := step_kind hs
  have hth : ∀ u, u ≠ t → s'.threads u = s.threads u := fun u hu => step_other_thread hs hu
  cases hk with
  | start op hc hsr hl =>
    apply h.step_frame hth (fun sc => ⟨rfl, rfl⟩)
    · intro fr hfr; simp [upd] at hfr; subst hfr; exact (frame_new_fw op).1
    · intro sc; simp only [upd, if_true]; rw [((frame_new_fw op).2 sc).1]; exact Nat.zero_le _
    · intro sc; simp only [upd, if_true]; rw [((frame_new_fw op).2 sc).2]; exact Nat.zero_le _
  | finish fr hc hr hd hm =>
    apply h.step_frame hth (fun sc => ⟨rfl, rfl⟩)
    · intro fr' hfr; simp [upd] at hfr
    · intro sc; simp [upd, heldRc]
    · intro sc; simp [upd, heldWc]
  | install fr hc hr hd hm =>
    apply h.step_frame hth
    · intro sc
      by_cases hsc : sc = fr.newId
      · subst hsc; simp
      · simp [updS_other _ _ hsc]
    · intro fr' hfr; simp [upd] at hfr
    · intro sc; simp [upd, heldRc]
    · intro sc; simp [upd, heldWc]
  | alloc fr hc hnr hm =>
    have tab := forAllE_spec lockTable_true hm
    simp only [lockEntry, Bool.and_eq_true, decide_eq_true_eq, beq_iff_eq, Bool.not_eq_true'] at tab
    obtain ⟨hn, hp⟩ := tab.2 trivial
    apply h.step_frame hth (fun sc => ⟨rfl, rfl⟩)
    · intro fr' hfr; simp [upd] at hfr; subst hfr
      simp [FW, hnr, hn, hp, prog]
    · intro sc; simp [upd, heldRc, hc, justLocked, hn, readMethod]
    · intro sc; simp [upd, heldWc, hc, justLocked, hn, writeMethod]
  | defer fr d sc0 ds hc hr hd =>
    have hrd := h.rd t
    have hwr := h.wr t
    rw [hc] at hrd hwr
    simp only [heldRc, heldWc, justLocked, hr, hd, Bool.not_true, Bool.false_and, Bool.false_eq_true, if_false,
      Nat.add_zero] at hrd hwr
    by_cases hd1 : d = .runlock
    · subst hd1
      apply h.step_gen hth
      · intro fr' hfr; simp [upd] at hfr; subst hfr; intro hnr; simp [hr] at hnr
      · intro sc
        simp only [upd, if_true, heldRc, justLocked, hr, Bool.not_true, Bool.false_and, Bool.false_eq_true, if_false,
          Nat.add_zero]
        by_cases hsc : sc = sc0
        · subst hsc
          have := hrd sc
          simp only [updS_same, execDefer, List.count_erase_self]
          rw [List.count_cons_self] at this
          omega
        · simp only [updS_other _ _ hsc]
          have := hrd sc
          rw [List.count_cons_of_ne (by intro hh; cases hh; exact hsc rfl)] at this
          exact this
      · intro sc
        simp only [upd, if_true, heldWc, justLocked, hr, Bool.not_true, Bool.false_and, Bool.false_eq_true, if_false,
          Nat.add_zero]
        have := hwr sc
        rw [List.count_cons_of_ne (by intro hh; cases hh)] at this
        by_cases hsc : sc = sc0
        · subst hsc; simpa [execDefer] using this
        · simp only [updS_other _ _ hsc]; exact this
      · intro u hu sc
        by_cases hsc : sc = sc0
        · subst hsc; simp only [updS_same, execDefer]; rw [List.count_erase_of_ne hu]; exact Nat.le_refl _
        · simp only [updS_other _ _ hsc]; exact Nat.le_refl _
      · intro u hu sc hh
        by_cases hsc : sc = sc0
        · subst hsc; simpa [execDefer] using hh
        · simp only [updS_other _ _ hsc]; exact hh
      · intro sc
        by_cases hsc : sc = sc0
        · subst hsc
          simp only [updS_same, execDefer]
          intro hw; rw [h.excl sc hw]; rfl
        · simp only [updS_other _ _ hsc]; exact h.excl sc
    · by_cases hd2 : d = .unlock
      · subst hd2
        have hw0 : (s.scopes sc0).w = some t := by
          have := hwr sc0
          rw [List.count_cons_self] at this
          by_cases hh : (s.scopes sc0).w = some t
          · exact hh
          · simp [hh] at this
        apply h.step_gen hth
        · intro fr' hfr; simp [upd] at hfr; subst hfr; intro hnr; simp [hr] at hnr
        · intro sc
          simp only [upd, if_true, heldRc, justLocked, hr, Bool.not_true, Bool.false_and, Bool.false_eq_true, if_false,
            Nat.add_zero]
          have := hrd sc
          rw [List.count_cons_of_ne (by intro hh; cases hh)] at this
          by_cases hsc : sc = sc0
          · subst hsc; simpa [execDefer] using this
          · simp only [updS_other _ _ hsc]; exact this
        · intro sc
          simp only [upd, if_true, heldWc, justLocked, hr, Bool.not_true, Bool.false_and, Bool.false_eq_true, if_false,
            Nat.add_zero]
          by_cases hsc : sc = sc0
          · subst hsc
            have := hwr sc
            rw [List.count_cons_self, hw0] at this
            simp only [updS_same, execDefer]
            simp at this ⊢
            omega
          · simp only [updS_other _ _ hsc]
            have := hwr sc
            rw [List.count_cons_of_ne (by intro hh; cases hh; exact hsc rfl)] at this
            exact this
        · intro u hu sc
          by_cases hsc : sc = sc0
          · subst hsc; simp [execDefer]
          · simp only [updS_other _ _ hsc]; exact Nat.le_refl _
        · intro u hu sc hh
          by_cases hsc : sc = sc0
          · subst hsc; rw [hw0] at hh; cases hh; exact absurd rfl hu
          · simp only [updS_other _ _ hsc]; exact hh
        · intro sc
          by_cases hsc : sc = sc0
          · subst hsc; simp [execDefer]
          · simp only [updS_other _ _ hsc]; exact h.excl sc
      · have hsame : execDefer t d (s.scopes sc0) = s.scopes sc0 := by
          cases d <;> simp_all [execDefer]
        apply h.step_frame hth
        · intro sc
          by_cases hsc : sc = sc0
          · subst hsc; simp [hsame]
          · simp [updS_other _ _ hsc]
        · intro fr' hfr; simp [upd] at hfr; subst hfr; intro hnr; simp [hr] at hnr
        · intro sc
          simp only [upd, if_true, hc, heldRc, justLocked, hr, hd, Bool.not_true, Bool.false_and, Bool.false_eq_true,
            if_false, Nat.add_zero]
          exact count_tail_le _ _ _
        · intro sc
          simp only [upd, if_true, hc, heldWc, justLocked, hr, hd, Bool.not_true, Bool.false_and, Bool.false_eq_true,
            if_false, Nat.add_zero]
          exact count_tail_le _ _ _
  | mop fr m fr' A' hc hnr hm hna hex =>
    have sh := exec_shape hnr hex
    have tab := forAllE_spec lockTable_true hm
    simp only [lockEntry, Bool.and_eq_true, decide_eq_true_eq, beq_iff_eq, Bool.not_eq_true', Bool.or_eq_true,
      bne_iff_ne, ne_eq] at tab
    obtain ⟨⟨⟨⟨⟨⟨⟨t1, t2⟩, t3⟩, t4⟩, t5⟩, t6⟩, t7⟩, -⟩ := tab
    obtain ⟨hpcl, hhead⟩ := h.fw t fr hc hnr
    have hrd := h.rd t
    have hwr := h.wr t
    rw [hc] at hrd hwr
    simp only [heldRc, heldWc, justLocked, hnr, Bool.not_false, Bool.true_and] at hrd hwr
    have hscw : ∀ sc, sc ≠ fr.cur → (updS s.scopes fr.cur A' sc) = s.scopes sc := fun sc hsc => updS_other _ _ hsc
    by_cases hl : isLockOp m = true
    · obtain ⟨c1, c2, c3, c4, c5⟩ := exec_lockctl hl hex
      rw [hnr] at c1
      have hcases : m = .rlock ∨ m = .lock ∨ m = .deferRUnlock ∨ m = .deferUnlock := by
        cases m <;> simp [isLockOp] at hl <;> simp
      have hfw' : FW fr' := by
        intro _
        rw [c4, c2, c3, c5]
        refine ⟨t6 (by rcases hcases with h1 | h1 | h1 | h1 <;> rw [h1] <;> simp), fun hns h2 => ?_⟩
        rcases hcases with h1 | h1 | h1 | h1
        · have := (t1 h1).1; omega
        · have := (t2 h1).1; omega
        · subst h1; simp [unlockOf, (t3 rfl).2]
        · subst h1
          have hwm := (t4 rfl).2
          have : readMethod fr.m = false := by cases hfm : fr.m <;> simp_all [writeMethod, readMethod]
          simp [unlockOf, this]
      rcases hcases with hm1 | hm1 | hm1 | hm1 <;> subst hm1
      · -- RLock
        obtain ⟨a1, a2, a3⟩ := sh.lockR rfl
        obtain ⟨p0, prd⟩ := t1 rfl
        have pwr : writeMethod fr.m = false := by cases hfm : fr.m <;> simp_all [writeMethod, readMethod]
        simp only [reduceCtorEq, if_false] at c5
        apply h.step_gen hth
        · intro fr2 hfr; simp [upd] at hfr; subst hfr; exact hfw'
        · intro sc
          simp only [upd, if_true, heldRc, justLocked, c1, c2, c3, c4, c5, Bool.not_false, Bool.true_and]
          by_cases hsc : sc = fr.cur
          · subst hsc
            have := hrd fr.cur
            simp only [updS_same, a2, List.count_cons_self]
            simp [p0] at this ⊢
            split <;> omega
          · have := hrd sc
            have hne : ¬ fr.cur = sc := fun hh => hsc hh.symm
            simp only [updS_other _ _ hsc]
            simp [p0, hne] at this ⊢
            exact this
        · intro sc
          simp only [upd, if_true, heldWc, justLocked, c1, c2, c3, c4, c5, pwr, Bool.and_false, Bool.false_eq_true,
            if_false, Nat.add_zero]
          have := hwr sc
          simp only [pwr, Bool.and_false, Bool.false_eq_true, if_false, Nat.add_zero] at this
          by_cases hsc : sc = fr.cur
          · subst hsc; simpa [a3] using this
          · simp only [updS_other _ _ hsc]; exact this
        · intro u hu sc
          by_cases hsc : sc = fr.cur
          · subst hsc; simp only [updS_same, a2]; exact count_tail_le _ _ _
          · simp only [updS_other _ _ hsc]; exact Nat.le_refl _
        · intro u hu sc hh
          by_cases hsc : sc = fr.cur
          · subst hsc; simpa [a3] using hh
          · simp only [updS_other _ _ hsc]; exact hh
        · intro sc
          by_cases hsc : sc = fr.cur
          · subst hsc; simp [a3, a1]
          · simp only [updS_other _ _ hsc]; exact h.excl sc
      · -- Lock
        obtain ⟨a1, a0, a2, a3⟩ := sh.lockW rfl
        obtain ⟨p0, pwr⟩ := t2 rfl
        have prd : readMethod fr.m = false := by cases hfm : fr.m <;> simp_all [writeMethod, readMethod]
        simp only [reduceCtorEq, if_false] at c5
        apply h.step_gen hth
        · intro fr2 hfr; simp [upd] at hfr; subst hfr; exact hfw'
        · intro sc
          simp only [upd, if_true, heldRc, justLocked, c1, c2, c3, c4, c5, prd, Bool.and_false, Bool.false_eq_true,
            if_false, Nat.add_zero]
          have := hrd sc
          simp only [prd, Bool.and_false, Bool.false_eq_true, if_false, Nat.add_zero] at this
          by_cases hsc : sc = fr.cur
          · subst hsc; simpa [a3] using this
          · simp only [updS_other _ _ hsc]; exact this
        · intro sc
          simp only [upd, if_true, heldWc, justLocked, c1, c2, c3, c4, c5, Bool.not_false, Bool.true_and]
          by_cases hsc : sc = fr.cur
          · subst hsc
            have := hwr fr.cur
            simp only [updS_same, a2]
            simp [p0, a1] at this ⊢
            simp [this, pwr]
          · have := hwr sc
            have hne : ¬ fr.cur = sc := fun hh => hsc hh.symm
            simp only [updS_other _ _ hsc]
            simp [p0, hne] at this ⊢
            exact this
        · intro u hu sc
          by_cases hsc : sc = fr.cur
          · subst hsc; simp [a3]
          · simp only [updS_other _ _ hsc]; exact Nat.le_refl _
        · intro u hu sc hh
          by_cases hsc : sc = fr.cur
          · subst hsc; rw [a1] at hh; cases hh
          · simp only [updS_other _ _ hsc]; exact hh
        · intro sc
          by_cases hsc : sc = fr.cur
          · subst hsc; simp [a3, a0]
          · simp only [updS_other _ _ hsc]; exact h.excl sc
      · -- defer RUnlock
        obtain ⟨hw', hr'⟩ := sh.lockN (by simp) (by simp)
        obtain ⟨p1, prd⟩ := t3 rfl
        simp only [if_true] at c5
        apply h.step_frame hth
        · intro sc
          by_cases hsc : sc = fr.cur
          · subst hsc; simp [hw', hr']
          · simp [updS_other _ _ hsc]
        · intro fr2 hfr; simp [upd] at hfr; subst hfr; exact hfw'
        · intro sc
          simp only [upd, if_true, hc, heldRc, justLocked, c1, c2, c3, c4, c5, hnr, Bool.not_false, Bool.true_and]
          rw [List.count_cons]
          by_cases hsc : fr.cur = sc <;> simp [p1, prd, hsc]
        · intro sc
          simp only [upd, if_true, hc, heldWc, justLocked, c1, c2, c3, c4, c5, hnr, Bool.not_false, Bool.true_and]
          rw [List.count_cons]
          simp [p1]
      · -- defer Unlock
        obtain ⟨hw', hr'⟩ := sh.lockN (by simp) (by simp)
        obtain ⟨p1, pwr⟩ := t4 rfl
        simp only [reduceCtorEq, if_false, if_true] at c5
        apply h.step_frame hth
        · intro sc
          by_cases hsc : sc = fr.cur
          · subst hsc; simp [hw', hr']
          · simp [updS_other _ _ hsc]
        · intro fr2 hfr; simp [upd] at hfr; subst hfr; exact hfw'
        · intro sc
          simp only [upd, if_true, hc, heldRc, justLocked, c1, c2, c3, c4, c5, hnr, Bool.not_false, Bool.true_and]
          rw [List.count_cons]
          simp [p1]
        · intro sc
          simp only [upd, if_true, hc, heldWc, justLocked, c1, c2, c3, c4, c5, hnr, Bool.not_false, Bool.true_and]
          rw [List.count_cons]
          by_cases hsc : fr.cur = sc <;> simp [p1, pwr, hsc]
    · have hl' : isLockOp m = false := by simpa using hl
      have hmr : m ≠ .rlock := by intro hh; subst hh; simp [isLockOp] at hl'
      have hml : m ≠ .lock := by intro hh; subst hh; simp [isLockOp] at hl'
      have hnd1 : m ≠ .deferRUnlock := by intro hh; subst hh; simp [isLockOp] at hl'
      have hnd2 : m ≠ .deferUnlock := by intro hh; subst hh; simp [isLockOp] at hl'
      obtain ⟨hw', hr'⟩ := sh.lockN hmr hml
      have hpos := t5 hl'
      have hdef : fr'.defers = fr.defers := by
        rcases sh.ctl with ⟨-, p, -⟩ | ⟨-, -, -, p⟩ | ⟨-, -, -, p, -⟩
        · exact p
        · simpa [hnd1, hnd2] using p
        · exact p
      have hterm : ∀ sc, (justLocked fr' sc && readMethod fr'.m) = false ∧
          (justLocked fr' sc && writeMethod fr'.m) = false := by
        intro sc
        rcases sh.ctl with ⟨p, -⟩ | ⟨-, p1, -⟩ | ⟨-, -, p1, -⟩
        · simp [justLocked, p]
        · rcases hpos with hpos | hpos
          · have : fr'.pc ≠ 1 := by omega
            simp [justLocked, this]
          · rw [sh.name, hpos]; simp [readMethod, writeMethod]
        · simp [justLocked, p1]
      apply h.step_frame hth
      · intro sc
        by_cases hsc : sc = fr.cur
        · subst hsc; simp [hw', hr']
        · simp [updS_other _ _ hsc]
      · intro fr2 hfr
        simp [upd] at hfr; subst hfr
        intro hnr'
        rcases sh.ctl with ⟨hret, -⟩ | ⟨-, p1, p2, -⟩ | ⟨-, -, p1, -⟩
        · rw [hret] at hnr'; cases hnr'
        · have hmret : m ≠ .ret := by
            intro hh; subst hh; simp [exec] at hex; obtain ⟨h1, -⟩ := hex; subst h1; simp at hnr'
          rw [sh.name, p1, p2, hdef]
          refine ⟨t6 hmret, fun hns _ => ?_⟩
          rcases hpos with hpos | hpos
          · exact hhead hns hpos
          · exact absurd hpos hns
        · rw [sh.name, p1]; exact ⟨by omega, fun _ h2 => by omega⟩
      · intro sc
        simp only [upd, if_true, hc, heldRc, hdef, (hterm sc).1, Bool.false_eq_true, if_false, Nat.add_zero]
        exact Nat.le_add_right _ _
      · intro sc
        simp only [upd, if_true, hc, heldWc, hdef, (hterm sc).2, Bool.false_eq_true, if_false, Nat.add_zero]
        exact Nat.le_add_right _ _

end LispModel.Proofs.ConcEnv

/-
  The reader lemmas behind C16 (incomplete vs. malformed input) and C05 (no panic).
  Parser lemmas live in Proofs/ReaderParse.lean, the scanner invariant (String / RawString tokens of
  a successful tokenization carry both quotes) in Proofs/Scanner.lean.  Core Lean only.
-/
import LispModel.Read
import LispModel.Preamble
import LispModel.Proofs.ReaderParse
import LispModel.Proofs.Scanner
namespace LispModel.Proofs.Reader
open LispModel LispModel.Read LispModel.Scan

/-! ### C16 -/

theorem multiLine_eof_of_closer {c : Token} (hc : IsCloser c = true) :
    multiLine (.eof (tokStr c)) = true := by
  rcases isCloser_iff.mp hc with h | h | h <;> rw [h] <;> decide

theorem incomplete_reports_innermost_closer (cfg : Cfg) (toks : List Token) (c : Token) (cs : List Token)
    (hc : IsCloser c = true) (_hcs : ∀ t ∈ cs, IsCloser t = true)
    (hwf : ∃ v, readForm (2 * (toks ++ c :: cs).length + 2) cfg (toks ++ c :: cs) = .ok (v, [])) :
    readForm (2 * toks.length + 2) cfg toks = .error (.eof (tokStr c)) ∧
      multiLine (.eof (tokStr c)) = true := by
  refine ⟨?_, multiLine_eof_of_closer hc⟩
  obtain ⟨v, hv⟩ := hwf
  have h1 := (incomplete cfg _).1 toks c cs v [] hc hv (by simp)
  have h2 := readForm_no_fuel_panic cfg toks (2 * toks.length + 2) (by omega)
  have h3 := readForm_mono (f' := 2 * (toks ++ c :: cs).length + 2) h2
    (by simp only [List.length_append]; omega)
  rw [← h3, h1]

theorem ok_extend {cfg : Cfg} {toks : List Token} {v : Val}
    (h : readForm (2 * toks.length + 2) cfg toks = .ok (v, [])) (extra : List Token) :
    readForm (2 * (toks ++ extra).length + 2) cfg (toks ++ extra) = .ok (v, extra) := by
  obtain ⟨pre, _, hts, hx⟩ := readForm_local h
  rw [List.append_nil] at hts
  subst hts
  have h2 : readForm (2 * toks.length + 2) cfg (toks ++ extra) ≠ .error (.panic "fuel") := by
    rw [hx extra]; intro h; cases h
  rw [readForm_mono h2 (by simp only [List.length_append]; omega), hx extra]

theorem surplus_token_left_over (cfg : Cfg) (toks : List Token) (c : Token)
    (h : ∃ v, readForm (2 * toks.length + 2) cfg toks = .ok (v, [])) :
    ∃ v r, readForm (2 * (toks ++ [c]).length + 2) cfg (toks ++ [c]) = .ok (v, r) ∧ r ≠ [] := by
  obtain ⟨v, hv⟩ := h
  exact ⟨v, [c], ok_extend hv [c], by simp⟩

theorem two_forms_left_over (cfg : Cfg) (t1 t2 : List Token)
    (h1 : ∃ v, readForm (2 * t1.length + 2) cfg t1 = .ok (v, [])) (_h2 : t2 ≠ []) :
    ∃ v, readForm (2 * (t1 ++ t2).length + 2) cfg (t1 ++ t2) = .ok (v, t2) := by
  obtain ⟨v, hv⟩ := h1
  exact ⟨v, ok_extend hv t2⟩

theorem unmatched_closer_rejected (cfg : Cfg) (c : Token) (rest : List Token) (fuel : Nat)
    (hc : tokStr c = ")" ∨ tokStr c = "]" ∨ tokStr c = "}") :
    readForm (fuel + 1) cfg (c :: rest) = .error (.unexpected (tokStr c)) ∧
    multiLine (.unexpected (tokStr c)) = false := by
  refine ⟨readForm_closer _ _ _ _ hc, ?_⟩
  rcases hc with h | h | h <;> rw [h] <;> decide

theorem readStr_leftover_is_trailing (cfg : Cfg) (bytes : List UInt8) (toks : List Token) (v : Val)
    (t : Token) (r : List Token)
    (ht : Scan.tokenize bytes = .ok toks) (hne : toks ≠ [])
    (hr : readForm (2 * toks.length + 2)
      { cfg with module := if cfg.module.isNone then modulePrefix bytes else cfg.module } toks = .ok (v, t :: r)) :
    readStr cfg bytes = .error .trailing ∧ multiLine .trailing = false := by
  refine ⟨?_, by decide⟩
  have hcfg : (if cfg.module.isNone then { cfg with module := modulePrefix bytes } else cfg) =
      { cfg with module := if cfg.module.isNone then modulePrefix bytes else cfg.module } := by
    cases cfg.module.isNone <;> simp
  unfold readStr
  simp only [hcfg, ht]
  cases toks with
  | nil => exact absurd rfl hne
  | cons t0 ts => simp only [hr]

theorem eof_msg_eq (c d : String) :
    "expected '" ++ c ++ "', got EOF" = "expected '" ++ d ++ "', got EOF" ↔ c = d := by
  rw [String.append_left_inj, String.append_right_inj]

/-- the five messages `multiLine` looks for all start with "exp" -/
theorem ml_lits (m : String)
    (h : m = "expected ')', got EOF" ∨ m = "expected ']', got EOF" ∨ m = "expected '}', got EOF" ∨
      m = "expected '»', got EOF" ∨ m = "expected '¬', got EOF") :
    m.toList.take 3 = ['e', 'x', 'p'] := by
  rcases h with h | h | h | h | h <;> subst h <;> decide

theorem multiLine_eq (e : RErr) : multiLine e = true ↔
    (errMessage e = "expected ')', got EOF" ∨ errMessage e = "expected ']', got EOF" ∨
     errMessage e = "expected '}', got EOF" ∨ errMessage e = "expected '»', got EOF" ∨
     errMessage e = "expected '¬', got EOF") := by
  simp only [multiLine, Bool.or_eq_true, beq_iff_eq, or_assoc]

theorem multiLine_iff_eof_class (e : RErr) :
    multiLine e = true ↔
      (e = .eof ")" ∨ e = .eof "]" ∨ e = .eof "}" ∨ e = .eof "»" ∨ e = .rawEof ∨ e = .eof "¬") := by
  cases e with
  | eof c =>
    rw [multiLine_eq]
    simp only [errMessage]
    have e1 : "expected ')', got EOF" = "expected '" ++ ")" ++ "', got EOF" := by decide
    have e2 : "expected ']', got EOF" = "expected '" ++ "]" ++ "', got EOF" := by decide
    have e3 : "expected '}', got EOF" = "expected '" ++ "}" ++ "', got EOF" := by decide
    have e4 : "expected '»', got EOF" = "expected '" ++ "»" ++ "', got EOF" := by decide
    have e5 : "expected '¬', got EOF" = "expected '" ++ "¬" ++ "', got EOF" := by decide
    rw [e1, e2, e3, e4, e5]
    simp only [eof_msg_eq, RErr.eof.injEq, reduceCtorEq, false_or]
  | unexpected c =>
    rw [multiLine_eq]
    simp only [errMessage, reduceCtorEq, or_false, iff_false]
    intro h
    have hr := ml_lits _ h
    have hu : ("unexpected '").toList = 'u' :: ("nexpected '").toList := by decide
    rw [String.toList_append, String.toList_append, hu] at hr
    simp at hr
  | extern c =>
    rw [multiLine_eq]
    simp only [errMessage, reduceCtorEq, or_false, iff_false]
    intro h
    have hr := ml_lits _ h
    have hu : ("extern: ").toList = 'e' :: 'x' :: 't' :: ("ern: ").toList := by decide
    rw [String.toList_append, hu] at hr
    simp at hr
  | panic s =>
    rw [multiLine_eq]
    simp only [errMessage, reduceCtorEq, or_false, iff_false]
    intro h
    have hr := ml_lits _ h
    have hu : ("panic: ").toList = 'p' :: ("anic: ").toList := by decide
    rw [String.toList_append, hu] at hr
    simp at hr
  | _ => decide
/-! ### C05: the preamble loop -/
open LispModel.Preamble in
theorem cutLine_length_le (str : List UInt8) : (cutLine str).2.length ≤ str.length := by
  induction str with
  | nil => simp [cutLine]
  | cons b r ih =>
    unfold cutLine
    split
    · simp
    · simp only [List.length_cons]; omega

open LispModel.Preamble in
theorem cutLine_length_lt (b : UInt8) (r : List UInt8) : (cutLine (b :: r)).2.length < (b :: r).length := by
  unfold cutLine
  split
  · simp
  · have := cutLine_length_le r
    simp only [List.length_cons]; omega

open LispModel.Preamble in
theorem readWithPreambleAux_no_panic
    (hRS : ∀ cfg bytes site, readStr cfg bytes ≠ .error (.panic site)) (cfg : Cfg) :
    ∀ fuel str phs site, str.length + 1 ≤ fuel →
      readWithPreambleAux cfg fuel str phs ≠ .err (.panic site) := by
  intro fuel
  induction fuel with
  | zero => intro str phs site h; omega
  | succ fuel ih =>
    intro str phs site hlen
    unfold readWithPreambleAux
    simp only []
    split
    · split
      · intro h; cases h
      · rename_i e he
        intro h; injection h with h; subst h
        exact hRS _ _ _ he
    · split
      · split
        · intro h; cases h
        · rename_i e he
          intro h; injection h with h; subst h
          exact hRS _ _ _ he
      · rename_i hne _
        cases str with
        | nil => exact absurd (by decide) hne
        | cons b r =>
          have hlt := cutLine_length_lt b r
          simp only [List.length_cons] at hlen hlt
          split
          · intro h; cases h
          · split
            · rename_i he
              exact absurd he (hRS _ _ _)
            · exact ih _ _ _ (by omega)
            · exact ih _ _ _ (by omega)


/-! ### C05: no panic -/

theorem readAtom_no_panic_of_good (cfg : Cfg) (t : Token) (hg : Scanner.GoodTok t) (site : String) :
    readAtom cfg t ≠ .error (.panic site) := by
  intro h
  obtain ⟨_, hlen, hk⟩ := readAtom_panic_site h
  rcases hk with hk | ⟨hk, hne⟩
  · have := hg.1 hk; omega
  · have hh := hg.2 hk
    apply hne
    cases ht : t.text with
    | nil => rw [ht] at hh; cases hh
    | cons a r =>
      rw [ht] at hh hlen
      simp only [List.head?_cons, Option.some.injEq] at hh
      subst hh
      cases r with
      | nil => decide
      | cons b r' => simp only [List.length_cons] at hlen; omega

theorem readStr_no_panic (cfg : Cfg) (bytes : List UInt8) (site : String) :
    readStr cfg bytes ≠ .error (.panic site) := by
  unfold readStr
  simp only []
  generalize (if cfg.module.isNone then { cfg with module := modulePrefix bytes } else cfg) = cfg'
  cases ht : tokenize bytes with
  | error l c => intro h; cases h
  | ok toks =>
    cases toks with
    | nil => intro h; cases h
    | cons t0 ts =>
      simp only []
      cases hr : readForm (2 * (t0 :: ts).length + 2) cfg' (t0 :: ts) with
      | error e =>
        simp only []
        intro h
        injection h with h
        subst h
        obtain ⟨t, htm, hp⟩ := (adequacy cfg' _).1 (t0 :: ts) site (by omega) hr
        exact readAtom_no_panic_of_good cfg' t (Scanner.tokenize_good bytes _ ht t htm) site hp
      | ok r =>
        obtain ⟨v, rest⟩ := r
        cases rest <;> (simp only []; intro h; cases h)

theorem readWithPreamble_no_panic (cfg : Cfg) (bytes : List UInt8) (site : String) :
    Preamble.readWithPreamble cfg bytes ≠ .err (.panic site) := by
  unfold Preamble.readWithPreamble
  exact readWithPreambleAux_no_panic readStr_no_panic cfg _ _ _ _ (by omega)

end LispModel.Proofs.Reader

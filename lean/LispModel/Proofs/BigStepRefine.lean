/-
  C01 headline: the implementation-shaped evaluator model (`eval` / `evalLoop` of `LispModel/Eval.lean`)
  and the textbook big-step semantics `sem` of `LispModel/Spec/BigStep.lean` coincide.

  * `sem_fuel_le`: results of `sem` other than `.oof` are stable under more fuel;
  * `fwd`: every finished run of `sem` is matched by `evalLoop` (some fuel, any depth), from any store
    that agrees up to `ticks`/`marks`, with the same result and stores that agree up to `ticks`/`marks`;
  * `bwd`: the converse;
  both by fuel induction, using the arm equations of `Proofs/EvalBasic.lean` and the insensitivity of
  evaluation to `ticks`/`marks`/depth (`Proofs/BigStepIns.lean`) for the delegated parts of `sem`.
  Core Lean only.
-/
import LispModel.Spec.BigStep
import LispModel.Proofs.BigStepIns
namespace LispModel.Proofs.BigStepRefine
open LispModel LispModel.Core LispModel.Spec.BigStep
open LispModel.Proofs.EvalBasic LispModel.Proofs.EvalLaws LispModel.Proofs.BigStepIns

/-! ### `parse`, `macroHead` -/

theorem headName_eq (v : Val) : headName v = a0sym v := by cases v <;> rfl

theorem op1_eq (ops : List Val) : ops.getD 0 .nil = op1 ops := by cases ops <;> rfl
theorem op2_eq (ops : List Val) : ops.getD 1 .nil = op2 ops := by
  match ops with
  | [] => rfl
  | [_] => rfl
  | _ :: _ :: _ => rfl

section parse
variable {a0 : Val} {ops : List Val} {pos : Option Pos}

theorem parse_def (ha : a0sym a0 = "def") : parse (.list (a0 :: ops) pos) = .def_ (op1 ops) (op2 ops) := by
  simp [parse, headName_eq, ha]
theorem parse_let (ha : a0sym a0 = "let") : parse (.list (a0 :: ops) pos) = .let_ (op1 ops) (ops.drop 1) := by
  simp [parse, headName_eq, ha]
theorem parse_quote (ha : a0sym a0 = "quote") : parse (.list (a0 :: ops) pos) = .quote_ (op1 ops) := by
  simp [parse, headName_eq, ha]
theorem parse_outside (ha : a0sym a0 ∈ outsideForms) : parse (.list (a0 :: ops) pos) = .outside := by
  simp only [outsideForms, List.mem_cons, List.not_mem_nil, or_false] at ha
  rcases ha with ha | ha | ha | ha | ha <;> simp [parse, headName_eq, ha, outsideForms]
theorem parse_do (ha : a0sym a0 = "do") : parse (.list (a0 :: ops) pos) = .do_ ops := by
  simp [parse, headName_eq, ha, outsideForms]
theorem parse_if (ha : a0sym a0 = "if") : parse (.list (a0 :: ops) pos) = .if_ (op1 ops) (op2 ops) (op3? ops) := by
  simp [parse, headName_eq, ha, outsideForms]
theorem parse_fn_nil (ha : a0sym a0 = "fn") :
    parse (.list [a0] pos) = .bad "fn requires a parameter list" := by
  simp [parse, headName_eq, ha, outsideForms]
theorem parse_fn_cons (ha : a0sym a0 = "fn") {params : Val} {body : List Val} :
    parse (.list (a0 :: params :: body) pos) = .fn_ params body pos := by
  simp [parse, headName_eq, ha, outsideForms]
theorem parse_app (ha : a0sym a0 ∉ specialForms) : parse (.list (a0 :: ops) pos) = .app a0 ops := by
  simp only [specialForms, List.mem_cons, List.not_mem_nil, or_false, not_or] at ha
  obtain ⟨h1, h2, h3, h4, h5, h6, h7, h8, h9, h10, h11⟩ := ha
  simp [parse, headName_eq, outsideForms, h1, h2, h3, h4, h5, h6, h7, h8, h9, h10, h11]

end parse

theorem macroHead_iff {st : State} {env : Nat} {ast : Val} : macroHead st env ast = true ↔ IsMacroCall st env ast := by
  constructor
  · intro h
    unfold macroHead at h
    split at h
    · split at h
      · rename_i heq; exact ⟨_, _, _, _, _, _, _, _, rfl, heq⟩
      · cases h
    · cases h
  · rintro ⟨n, p, args, pos, params, body, fenv, fp, rfl, hg⟩
    simp [macroHead, hg]

theorem isMacroCall_congr {a b : State} (h : a.scopes = b.scopes) {env ast} :
    IsMacroCall a env ast ↔ IsMacroCall b env ast := by
  unfold IsMacroCall; simp only [get_scopes_congr h]

theorem macroHead_congr {a b : State} (h : a.scopes = b.scopes) (env ast) : macroHead a env ast = macroHead b env ast := by
  have := @isMacroCall_congr a b h env ast
  rw [← macroHead_iff, ← macroHead_iff] at this
  cases h1 : macroHead a env ast <;> cases h2 : macroHead b env ast <;> simp_all

/-! ### the arms of `sem` -/

/-- the body of `sem` after parsing (a literal copy; `sem_succ` is by `rfl`) -/
def semArm (F : Nat) (st : State) (env : Nat) (ast : Val) : Form → R
  | .outside => eval F st env ast 0
  | .const => (.ok ast, st)
  | .symbol s p =>
    (match st.get env s with
     | some v => (.ok v, st)
     | none => (.err (.lisp (.goerr ("symbol '" ++ s ++ "' not found")) p), st))
  | .vecLit xs =>
    (match semList F st env xs with
     | (.ok vs, st1) => (.ok (.vec vs none), st1)
     | (.err e, st1) => (.err e, st1)
     | (.oof, st1) => (.oof, st1))
  | .quote_ x => (.ok x, st)
  | .bad msg => (.err (newLispError (.plain msg) ast), st)
  | .fn_ params body pos => (.ok (.fn params (.list (.sym "do" none :: body) none) env false pos), st)
  | .def_ target x =>
    (match sem F st env x with
     | (.ok v, st1) =>
       (match target with
        | .sym name _ => (.ok v, st1.set env name v)
        | _ => (.err (newLispError (.plain "cannot use value as identifier") ast), st1))
     | r => r)
  | .if_ c t e =>
    (match sem F st env c with
     | (.ok v, st1) =>
       if truthy v then sem F st1 env t
       else (match e with
         | some e => sem F st1 env e
         | none => (.ok .nil, st1))
     | r => r)
  | .do_ body => semBody F st env body
  | .let_ bindings body =>
    (match seqOf? bindings with
     | none => (.err (.plain "GetSlice called on non-sequence"), (st.newScope env []).1)
     | some bs =>
       if bs.length % 2 ≠ 0 then
         (.err (newLispError (.plain "let: odd elements on binding vector") bindings), (st.newScope env []).1)
       else
         match semBinds F (st.newScope env []).1 (st.newScope env []).2 bs bindings with
         | (.ok _, st2) => semBody F st2 (st.newScope env []).2 body
         | r => r)
  | .app f args =>
    (match semList F st env (f :: args) with
     | (.ok [], st1) => (.err (.plain "empty application"), st1)
     | (.ok (fv :: vs), st1) =>
       (match fv with
        | .fn params body fenv _ _ =>
          (match bindParams params vs with
           | .error e => (.err (arityError e body), st1)
           | .ok data => sem F (st1.newScope fenv data).1 (st1.newScope fenv data).2 body)
        | .builtin name =>
          (match callBuiltin F st1 name vs 0 with
           | (.ok v, st2) => (.ok v, st2)
           | (.err e, st2) => (.err (newLispError e ast), st2)
           | (.oof, st2) => (.oof, st2))
        | _ => (.err (.lisp (.goerr "attempt to call non-function") none), st1))
     | (.err e, st1) => (.err e, st1)
     | (.oof, st1) => (.oof, st1))

theorem sem_succ (F : Nat) (st : State) (env : Nat) (ast : Val) :
    sem (F+1) st env ast =
      if macroHead st env ast then eval F st env ast 0 else semArm F st env ast (parse ast) := by
  rw [sem.eq_2]; rfl

theorem sem_macro {F st env ast} (hm : macroHead st env ast = true) : sem (F+1) st env ast = eval F st env ast 0 := by
  rw [sem_succ, if_pos hm]

theorem sem_arm {F st env ast} (hm : macroHead st env ast = false) :
    sem (F+1) st env ast = semArm F st env ast (parse ast) := by
  rw [sem_succ, hm]; rfl

/-! ### fuel monotonicity of `sem` -/

structure SMono (F : Nat) : Prop where
  sem : ∀ {st env ast r s}, sem F st env ast = (r, s) → r ≠ .oof → sem (F+1) st env ast = (r, s)
  semList : ∀ {st env xs r s}, semList F st env xs = (r, s) → r ≠ .oof → semList (F+1) st env xs = (r, s)
  semBody : ∀ {st env xs r s}, semBody F st env xs = (r, s) → r ≠ .oof → semBody (F+1) st env xs = (r, s)
  semBinds : ∀ {st env bs a1 r s}, semBinds F st env bs a1 = (r, s) → r ≠ .oof → semBinds (F+1) st env bs a1 = (r, s)

namespace SMono
variable {F : Nat} (h : SMono F)
include h
theorem sem' {st env ast} (hne : (LispModel.Spec.BigStep.sem F st env ast).1 ≠ .oof) :
    LispModel.Spec.BigStep.sem (F+1) st env ast = LispModel.Spec.BigStep.sem F st env ast := h.sem rfl hne
theorem semList' {st env xs} (hne : (LispModel.Spec.BigStep.semList F st env xs).1 ≠ .oof) :
    LispModel.Spec.BigStep.semList (F+1) st env xs = LispModel.Spec.BigStep.semList F st env xs := h.semList rfl hne
theorem semBody' {st env xs} (hne : (LispModel.Spec.BigStep.semBody F st env xs).1 ≠ .oof) :
    LispModel.Spec.BigStep.semBody (F+1) st env xs = LispModel.Spec.BigStep.semBody F st env xs := h.semBody rfl hne
theorem semBinds' {st env bs a1} (hne : (LispModel.Spec.BigStep.semBinds F st env bs a1).1 ≠ .oof) :
    LispModel.Spec.BigStep.semBinds (F+1) st env bs a1 = LispModel.Spec.BigStep.semBinds F st env bs a1 :=
  h.semBinds rfl hne
end SMono

local macro "smono_leaf" ih:ident hne:ident : tactic => `(tactic|
  first
  | rfl
  | (exfalso; exact $hne rfl)
  | (simp only [SMono.sem' $ih, SMono.semList' $ih, SMono.semBody' $ih, SMono.semBinds' $ih,
      Mono.eval' (fuel_mono _), Mono.callBuiltin' (fuel_mono _),
      *, ne_eq, reduceCtorEq, not_false_eq_true, ↓reduceIte]; done)
  | (simp only [SMono.sem' $ih, SMono.semList' $ih, SMono.semBody' $ih, SMono.semBinds' $ih,
      Mono.eval' (fuel_mono _), Mono.callBuiltin' (fuel_mono _),
      *, ne_eq, reduceCtorEq, not_false_eq_true, ↓reduceIte]
     split <;> first | rfl | (exfalso; simp_all; done)))

local macro "smono_tac" h:ident ih:ident hne:ident : tactic => `(tactic|
  ((repeat' split at $h:ident) <;> (try cases $h:ident) <;> (try simp only [imp_false] at *) <;> smono_leaf $ih $hne))

theorem sem_mono_step {F} (ih : SMono F) {st env ast r s}
    (h : sem (F+1) st env ast = (r, s)) (hne : r ≠ .oof) : sem (F+1+1) st env ast = (r, s) := by
  rw [sem_succ] at h ⊢
  cases hm : macroHead st env ast
  · rw [hm] at h; simp only [Bool.false_eq_true, ↓reduceIte] at h ⊢
    cases hp : parse ast <;> rw [hp] at h <;> simp only [semArm] at h ⊢ <;> smono_tac h ih hne
  · rw [hm] at h; simp only [↓reduceIte] at h ⊢
    exact (fuel_mono F).eval h hne

theorem semList_mono_step {F} (ih : SMono F) {st env xs r s}
    (h : semList (F+1) st env xs = (r, s)) (hne : r ≠ .oof) : semList (F+1+1) st env xs = (r, s) := by
  cases xs with
  | nil => rw [semList.eq_2] at h ⊢; exact h
  | cons x xs => rw [semList.eq_3] at h ⊢; smono_tac h ih hne

theorem semBody_mono_step {F} (ih : SMono F) {st env xs r s}
    (h : semBody (F+1) st env xs = (r, s)) (hne : r ≠ .oof) : semBody (F+1+1) st env xs = (r, s) := by
  match xs with
  | [] => rw [semBody.eq_2] at h ⊢; exact h
  | [x] => rw [semBody.eq_3] at h ⊢; exact ih.sem h hne
  | x :: y :: rest => rw [semBody.eq_4] at h ⊢; smono_tac h ih hne

theorem semBinds_mono_step {F} (ih : SMono F) {st env bs a1 r s}
    (h : semBinds (F+1) st env bs a1 = (r, s)) (hne : r ≠ .oof) : semBinds (F+1+1) st env bs a1 = (r, s) := by
  match bs with
  | [] => rw [semBinds.eq_2] at h ⊢; exact h
  | [_] => rw [semBinds.eq_3] at h ⊢; exact h
  | b :: x :: rest => unfold semBinds at h ⊢; smono_tac h ih hne

theorem sem_mono : ∀ F, SMono F := by
  intro F
  induction F with
  | zero =>
    constructor <;> intros <;> rename_i h hne <;> exfalso <;> apply hne
    · rw [sem.eq_1] at h; cases h; rfl
    · rw [semList.eq_1] at h; cases h; rfl
    · rw [semBody.eq_1] at h; cases h; rfl
    · unfold semBinds at h; cases h; rfl
  | succ F ih => exact ⟨sem_mono_step ih, semList_mono_step ih, semBody_mono_step ih, semBinds_mono_step ih⟩

theorem sem_fuel_le {F F' : Nat} (hle : F ≤ F') {st env ast r s} (h : sem F st env ast = (r, s)) (hne : r ≠ .oof) :
    sem F' st env ast = (r, s) := by
  induction hle with
  | refl => exact h
  | step _ ih => exact (sem_mono _).sem ih hne
theorem semList_fuel_le {F F' : Nat} (hle : F ≤ F') {st env xs r s} (h : semList F st env xs = (r, s)) (hne : r ≠ .oof) :
    semList F' st env xs = (r, s) := by
  induction hle with
  | refl => exact h
  | step _ ih => exact (sem_mono _).semList ih hne
theorem semBody_fuel_le {F F' : Nat} (hle : F ≤ F') {st env xs r s} (h : semBody F st env xs = (r, s)) (hne : r ≠ .oof) :
    semBody F' st env xs = (r, s) := by
  induction hle with
  | refl => exact h
  | step _ ih => exact (sem_mono _).semBody ih hne
theorem semBinds_fuel_le {F F' : Nat} (hle : F ≤ F') {st env bs a1 r s} (h : semBinds F st env bs a1 = (r, s)) (hne : r ≠ .oof) :
    semBinds F' st env bs a1 = (r, s) := by
  induction hle with
  | refl => exact h
  | step _ ih => exact (sem_mono _).semBinds ih hne

/-! ### convergence of fuel-indexed runs -/

/-- the fuel-indexed run `f` converges to `x`: from some fuel on, the result is `x` -/
def Conv {β : Type} (f : Nat → β) (x : β) : Prop := ∃ G, ∀ G', G ≤ G' → f G' = x

theorem conv_of_key {β : Type} {f : Nat → β} {x : β} (k G0 : Nat) (key : ∀ G, G0 ≤ G → f (G + k) = x) : Conv f x :=
  ⟨G0 + k, fun G' hG' => by
    obtain ⟨G, rfl⟩ : ∃ G, G' = G + k := ⟨G' - k, by omega⟩
    exact key G (by omega)⟩

theorem Conv.unique {β : Type} {f : Nat → β} {x y : β} (h : Conv f x) (h' : Conv f y) : x = y := by
  obtain ⟨G, hG⟩ := h
  obtain ⟨G', hG'⟩ := h'
  rw [← hG (G + G') (by omega), hG' (G + G') (by omega)]

/-- the body forms of `do` / `let` / a call as the loop runs them: all but the last by `evalList`
    (fuel `G1`), then the loop continues on the last one (fuel `G2`); no forms: the loop continues on `nil` -/
def bodyRun (G1 G2 : Nat) (st : State) (env : Nat) (forms : List Val) (d : Nat) : R :=
  match evalList G1 st env forms.dropLast d with
  | (.ok _, s1) => evalLoop G2 s1 env (forms.getLast?.getD .nil) d
  | (.err e, s1) => (.err e, s1)
  | (.oof, s1) => (.oof, s1)

def BodyConv (st : State) (env : Nat) (forms : List Val) (d : Nat) (x : R) : Prop :=
  ∃ G, ∀ G1 G2, G ≤ G1 → G ≤ G2 → bodyRun G1 G2 st env forms d = x

/-- `do()` with `to = -1`, then `continue` on the form it returns -/
def thenContinue (G env d : Nat) (x : R) : R :=
  match x with
  | (.ok next, s2) => continueWith G s2 env next d
  | r => r

theorem do_arm {st : State} (hs : st.stepper = none) (lst : List Val) (fr G env d : Nat) :
    thenContinue (G+1+1) env d (doForms (G+1+1) st env lst fr true d) =
      bodyRun (G+1) (G+1+1) st env (lst.drop fr) d := by
  rw [doForms_keepLast hs]
  unfold bodyRun thenContinue
  by_cases hl : lst.length ≤ fr
  · rw [if_pos hl, List.drop_eq_nil_of_le hl]
    simp only [List.dropLast_nil, evalList, List.getLast?_nil, Option.getD_none]
    exact cw hs
  · rw [if_neg hl]
    have hlast : (lst.drop fr).getLast? = lst.getLast? := by
      rw [List.getLast?_drop, if_neg hl]
    rw [hlast]
    rcases hx : evalList (G+1) st env (lst.drop fr).dropLast d with ⟨rl, s1⟩
    cases rl with
    | ok vs => exact cw ((stepper_none_preserved _).evalList hx hs)
    | err e => rfl
    | oof => rfl

section arms'
variable {F : Nat} {st s0 s1 : State} {env d : Nat} {a0 : Val} {xs ops : List Val} {p p' : Option Pos}

theorem evalLoop_do' (hp : st.poll = (false, s0))
    (hm : macroexpand F s0 env (.list xs p) d = (.ok (.list (a0 :: ops) p'), s1)) (ha : a0sym a0 = "do") :
    evalLoop (F+1) st env (.list xs p) d = thenContinue F env d (doForms F s1 env (a0 :: ops) 1 true d) := by
  rw [evalLoop_do hp hm ha]; rfl

theorem evalLoop_let' (hp : st.poll = (false, s0))
    (hm : macroexpand F s0 env (.list xs p) d = (.ok (.list (a0 :: ops) p'), s1)) (ha : a0sym a0 = "let") :
    evalLoop (F+1) st env (.list xs p) d =
      match seqOf? (ops.getD 0 .nil) with
      | none => (.err (.plain "GetSlice called on non-sequence"), (s1.newScope env []).1)
      | some arr1 =>
        if arr1.length % 2 ≠ 0 then
          (.err (newLispError (.plain "let: odd elements on binding vector") (ops.getD 0 .nil)), (s1.newScope env []).1)
        else
          match letBinds F (s1.newScope env []).1 (s1.newScope env []).2 arr1 (ops.getD 0 .nil) d with
          | (.ok _, s2) => thenContinue F (s1.newScope env []).2 d (doForms F s2 (s1.newScope env []).2 (a0 :: ops) 2 true d)
          | r => r := by
  rw [evalLoop_let hp hm ha]; rfl

end arms'

/-! ### forward: `sem` ⊑ `evalLoop` -/

structure Fwd (F : Nat) : Prop where
  sem : ∀ {a b env ast r s}, Eqv a b → sem F a env ast = (r, s) → r ≠ .oof → ∀ d,
    ∃ s', Eqv s s' ∧ Conv (fun G => evalLoop G b env ast d) (r, s')
  semList : ∀ {a b env xs r s}, Eqv a b → semList F a env xs = (r, s) → r ≠ .oof → ∀ d,
    ∃ s', Eqv s s' ∧ Conv (fun G => evalList G b env xs d) (r, s')
  semBody : ∀ {a b env xs r s}, Eqv a b → semBody F a env xs = (r, s) → r ≠ .oof → ∀ d,
    ∃ s', Eqv s s' ∧ BodyConv b env xs d (r, s')
  semBinds : ∀ {a b env bs a1 r s}, Eqv a b → semBinds F a env bs a1 = (r, s) → r ≠ .oof → ∀ d,
    ∃ s', Eqv s s' ∧ Conv (fun G => letBinds G b env bs a1 d) (r, s')

section fwd
variable {F : Nat} (ih : Fwd F)
include ih

theorem semList_fwd {a b env xs r s} (hab : Eqv a b) (h : semList (F+1) a env xs = (r, s)) (hne : r ≠ .oof) (d : Nat) :
    ∃ s', Eqv s s' ∧ Conv (fun G => evalList G b env xs d) (r, s') := by
  cases xs with
  | nil => rw [semList.eq_2] at h; cases h; exact ⟨b, hab, conv_of_key 1 0 fun G _ => by rw [evalList.eq_2]⟩
  | cons x xs =>
    rw [semList.eq_3] at h
    rcases h1 : sem F a env x with ⟨r1, s1⟩
    rw [h1] at h
    cases r1 with
    | oof => exact absurd (by cases h; rfl) hne
    | err e =>
      cases h
      obtain ⟨s1', he1, G1, hG1⟩ := ih.sem hab h1 (by simp) (d+1); dsimp only at hG1
      refine ⟨_, he1, conv_of_key 2 G1 fun G hG => ?_⟩
      rw [evalList.eq_3, eval_stepper_none hab.sb, hG1 G hG]
    | ok v =>
      dsimp only at h
      obtain ⟨s1', he1, G1, hG1⟩ := ih.sem hab h1 (by simp) (d+1); dsimp only at hG1
      rcases h2 : semList F s1 env xs with ⟨r2, s2⟩
      rw [h2] at h
      have hne2 : r2 ≠ .oof := by rintro rfl; exact hne (by cases h; rfl)
      obtain ⟨s2', he2, G2, hG2⟩ := ih.semList he1 h2 hne2 d; dsimp only at hG2
      refine ⟨s2', ?_, conv_of_key 2 (G1 + G2) fun G hG => ?_⟩
      · cases r2 <;> cases h <;> first | exact he2 | exact absurd rfl hne2
      · rw [evalList.eq_3, eval_stepper_none hab.sb, hG1 G (by omega)]; dsimp only
        rw [hG2 (G+1) (by omega)]
        cases r2 <;> cases h <;> first | rfl | exact absurd rfl hne2

theorem semBinds_fwd {a b env bs a1 r s} (hab : Eqv a b) (h : semBinds (F+1) a env bs a1 = (r, s)) (hne : r ≠ .oof)
    (d : Nat) : ∃ s', Eqv s s' ∧ Conv (fun G => letBinds G b env bs a1 d) (r, s') := by
  match bs with
  | [] => rw [semBinds.eq_2] at h; cases h; exact ⟨b, hab, conv_of_key 1 0 fun G _ => letBinds_nil ..⟩
  | [_] => rw [semBinds.eq_3] at h; cases h; exact ⟨b, hab, conv_of_key 1 0 fun G _ => by rw [letBinds.eq_3]⟩
  | bb :: x :: rest =>
    unfold semBinds at h
    cases bb
    case sym n p =>
      dsimp only at h
      rcases h1 : sem F a env x with ⟨r1, s1⟩
      rw [h1] at h
      cases r1 with
      | oof => exact absurd (by cases h; rfl) hne
      | err e =>
        cases h
        obtain ⟨s1', he1, G1, hG1⟩ := ih.sem hab h1 (by simp) (d+1); dsimp only at hG1
        refine ⟨_, he1, conv_of_key 2 G1 fun G hG => ?_⟩
        rw [letBinds_cons, eval_stepper_none hab.sb, hG1 G hG]
      | ok v =>
        dsimp only at h
        obtain ⟨s1', he1, G1, hG1⟩ := ih.sem hab h1 (by simp) (d+1); dsimp only at hG1
        obtain ⟨s2', he2, G2, hG2⟩ := ih.semBinds (he1.set env n v) h hne d; dsimp only at hG2
        refine ⟨s2', he2, conv_of_key 2 (G1 + G2) fun G hG => ?_⟩
        rw [letBinds_cons, eval_stepper_none hab.sb, hG1 G (by omega)]
        exact hG2 (G+1) (by omega)
    all_goals
      (dsimp only at h; cases h
       exact ⟨b, hab, conv_of_key 1 0 fun G _ => letBinds_non_symbol _ _ _ (by intro _ _ hc; cases hc) _ _ _⟩)

omit ih in
theorem bodyRun_cons (G1 G2 : Nat) (st : State) (env : Nat) (x y : Val) (rest : List Val) (d : Nat) :
    bodyRun (G1+1) G2 st env (x :: y :: rest) d =
      match eval G1 st env x (d+1) with
      | (.ok _, s1) => bodyRun G1 G2 s1 env (y :: rest) d
      | (.err e, s1) => (.err e, s1)
      | (.oof, s1) => (.oof, s1) := by
  unfold bodyRun
  rw [List.dropLast_cons_cons, List.getLast?_cons_cons, evalList.eq_3]
  rcases eval G1 st env x (d+1) with ⟨r1, s1⟩
  cases r1 with
  | ok v =>
    dsimp only
    rcases evalList G1 s1 env (y :: rest).dropLast d with ⟨r2, s2⟩
    cases r2 <;> rfl
  | err e => rfl
  | oof => rfl

theorem semBody_fwd {a b env xs r s} (hab : Eqv a b) (h : semBody (F+1) a env xs = (r, s)) (hne : r ≠ .oof)
    (d : Nat) : ∃ s', Eqv s s' ∧ BodyConv b env xs d (r, s') := by
  match xs with
  | [] =>
    rw [semBody.eq_2] at h; cases h
    refine ⟨tick b, hab.tickR, 2, fun G1 G2 h1 h2 => ?_⟩
    obtain ⟨G1, rfl⟩ : ∃ G, G1 = G + 1 := ⟨G1 - 1, by omega⟩
    obtain ⟨G2, rfl⟩ : ∃ G, G2 = G + 2 := ⟨G2 - 2, by omega⟩
    unfold bodyRun
    simp only [List.dropLast_nil, evalList, List.getLast?_nil, Option.getD_none]
    exact eval_nil hab.cb
  | [x] =>
    rw [semBody.eq_3] at h
    obtain ⟨s1', he1, G, hG⟩ := ih.sem hab h hne d; dsimp only at hG
    refine ⟨s1', he1, G + 1, fun G1 G2 h1 h2 => ?_⟩
    obtain ⟨G1, rfl⟩ : ∃ G, G1 = G + 1 := ⟨G1 - 1, by omega⟩
    unfold bodyRun
    simp only [List.dropLast_singleton, evalList, List.getLast?_singleton, Option.getD_some]
    exact hG G2 (by omega)
  | x :: y :: rest =>
    rw [semBody.eq_4] at h
    rcases h1 : sem F a env x with ⟨r1, s1⟩
    rw [h1] at h
    cases r1 with
    | oof => exact absurd (by cases h; rfl) hne
    | err e =>
      cases h
      obtain ⟨s1', he1, G, hG⟩ := ih.sem hab h1 (by simp) (d+1); dsimp only at hG
      refine ⟨s1', he1, G + 2, fun G1 G2 h1 h2 => ?_⟩
      obtain ⟨G1, rfl⟩ : ∃ G', G1 = G' + 2 := ⟨G1 - 2, by omega⟩
      rw [bodyRun_cons, eval_stepper_none hab.sb, hG G1 (by omega)]
    | ok v =>
      dsimp only at h
      obtain ⟨s1', he1, G, hG⟩ := ih.sem hab h1 (by simp) (d+1); dsimp only at hG
      obtain ⟨s2', he2, G', hG'⟩ := ih.semBody he1 h hne d
      refine ⟨s2', he2, G + G' + 2, fun G1 G2 h1 h2 => ?_⟩
      obtain ⟨G1, rfl⟩ : ∃ G', G1 = G' + 2 := ⟨G1 - 2, by omega⟩
      rw [bodyRun_cons, eval_stepper_none hab.sb, hG G1 (by omega)]
      exact hG' (G1+1) G2 (by omega) (by omega)

omit ih in
/-- a delegated run of `sem` is matched by the loop -/
theorem deleg_fwd {F a b env ast r s} (hab : Eqv a b) (h : eval F a env ast 0 = (r, s)) (hne : r ≠ .oof) (d : Nat) :
    ∃ s', Eqv s s' ∧ Conv (fun G => evalLoop G b env ast d) (r, s') := by
  obtain ⟨s', hb, he⟩ := (ins F).eval hab h d
  cases F with
  | zero => rw [eval.eq_1] at h; cases h; exact absurd rfl hne
  | succ F =>
    rw [eval_stepper_none hab.sb] at hb
    exact ⟨s', he, F, fun G' hG' => evalLoop_fuel_le hG' hb hne⟩

omit ih in
/-- on a form that is not a macro call the loop reaches its dispatch with the form unchanged -/
theorem reach_b {b : State} {env : Nat} {ast : Val} (hc : b.cancelAt = none) (hnm : ¬ IsMacroCall b env ast) :
    b.poll = (false, tick b) ∧ ∀ G d, macroexpand (G+1) (tick b) env ast d = (.ok ast, tick b) :=
  ⟨poll_of_not_cancelled hc, fun _ _ => macroexpand_nonmacro (mt (isMacroCall_congr (by rfl)).mp hnm)⟩

omit ih in
theorem op3_some {a0 : Val} {ops : List Val} {e : Val} (h : op3? ops = some e) :
    (a0 :: ops).length ≥ 4 ∧ (a0 :: ops).getD 3 .nil = e := by
  match ops, h with
  | _ :: _ :: z :: _, h => simp only [op3?, Option.some.injEq] at h; subst h; simp

omit ih in
theorem op3_none {a0 : Val} {ops : List Val} (h : op3? ops = none) : ¬ (a0 :: ops).length ≥ 4 := by
  match ops, h with
  | [], _ => simp
  | [_], _ => simp
  | [_, _], _ => simp

theorem sem_fwd {a b env ast r s} (hab : Eqv a b) (h : sem (F+1) a env ast = (r, s)) (hne : r ≠ .oof) (d : Nat) :
    ∃ s', Eqv s s' ∧ Conv (fun G => evalLoop G b env ast d) (r, s') := by
  cases hm : macroHead a env ast
  case true => rw [sem_macro hm] at h; exact deleg_fwd hab h hne d
  rw [sem_arm hm] at h
  have hnm : ¬ IsMacroCall b env ast := by
    rw [← macroHead_iff, ← macroHead_congr hab.scopes, hm]; simp
  obtain ⟨hpb, hme⟩ := reach_b hab.cb hnm
  have hat : Eqv a (tick b) := hab.tickR
  have hsb : (tick b).stepper = none := hab.sb
  by_cases hl : ∃ xs p, ast = .list xs p
  case neg =>
    have hnl := fun xs p hc => hl ⟨xs, p, hc⟩
    cases ast <;> (first | exact absurd ⟨_, _, rfl⟩ hl | skip) <;> simp only [parse, semArm] at h
    case sym n p =>
      refine ⟨tick b, ?_, conv_of_key 2 0 fun G _ => ?_⟩
      · split at h <;> cases h <;> exact hat
      · rw [evalLoop_nonlist hpb hnl]; simp only [evalAst]
        rw [← hat.get env n]
        split at h <;> cases h <;> first | (simp only [*]; done) | (simp only [*]; rfl)
    case vec xs p =>
      rcases h1 : semList F a env xs with ⟨r1, s1⟩
      rw [h1] at h
      have hne1 : r1 ≠ .oof := by rintro rfl; exact hne (by cases h; rfl)
      obtain ⟨s1', he1, G1, hG1⟩ := ih.semList hat h1 hne1 d; dsimp only at hG1
      refine ⟨s1', ?_, conv_of_key 2 G1 fun G hG => ?_⟩
      · cases r1 <;> cases h <;> first | exact he1 | exact absurd rfl hne1
      · rw [evalLoop_nonlist hpb hnl]; simp only [evalAst]
        rw [hG1 G hG]
        cases r1 <;> cases h <;> first | rfl | exact absurd rfl hne1
    case map kvs => exact deleg_fwd hab h hne d
    all_goals
      (cases h
       exact ⟨tick b, hat, conv_of_key 2 0 fun G _ => by rw [evalLoop_nonlist hpb hnl]; simp only [evalAst]⟩)
  obtain ⟨xs, p, rfl⟩ := hl
  cases xs with
  | nil =>
    simp only [parse, semArm] at h; cases h
    exact ⟨tick b, hat, conv_of_key 2 0 fun G _ => evalLoop_mac_empty hpb (hme G d)⟩
  | cons a0 ops =>
    by_cases h_def : a0sym a0 = "def"
    · rw [parse_def h_def] at h; simp only [semArm] at h
      rcases h1 : sem F a env (op2 ops) with ⟨r1, s1⟩
      rw [h1] at h
      have hne1 : r1 ≠ .oof := by rintro rfl; exact hne (by cases h; rfl)
      obtain ⟨s1', he1, G1, hG1⟩ := ih.sem hat h1 hne1 (d+1); dsimp only at hG1
      have key : ∀ G, G1 ≤ G → evalLoop (G+2) b env (.list (a0 :: ops) p) d =
          match (r1, s1') with
          | (.ok res, s2) =>
            (match op1 ops with
             | .sym name _ => (.ok res, s2.set env name res)
             | _ => (.err (newLispError (.plain "cannot use value as identifier") (.list (a0 :: ops) p)), s2))
          | r => r := by
        intro G hG
        rw [evalLoop_def hpb (hme _ _) h_def, eval_stepper_none hsb, op2_eq, hG1 G hG, op1_eq]
        rfl
      cases r1 with
      | oof => exact absurd rfl hne1
      | err e => cases h; exact ⟨s1', he1, conv_of_key 2 G1 key⟩
      | ok v =>
        dsimp only at h key
        generalize op1 ops = tgt at h key
        cases tgt <;> dsimp only at h key <;> cases h <;>
          first
          | exact ⟨_, he1.set _ _ _, conv_of_key 2 G1 key⟩
          | exact ⟨_, he1, conv_of_key 2 G1 key⟩
    by_cases h_let : a0sym a0 = "let"
    · rw [parse_let h_let] at h; simp only [semArm] at h
      have hid : (a.newScope env []).2 = ((tick b).newScope env []).2 := hat.newScope_id env []
      have hen := hat.newScope env []
      cases hsq : seqOf? (op1 ops) with
      | none =>
        rw [hsq] at h; dsimp only at h; cases h
        exact ⟨_, hen, conv_of_key 2 0 fun G _ => by rw [evalLoop_let' hpb (hme _ _) h_let, op1_eq, hsq]⟩
      | some bs =>
        rw [hsq] at h; dsimp only at h
        by_cases hodd : bs.length % 2 ≠ 0
        · rw [if_pos hodd] at h; cases h
          exact ⟨_, hen, conv_of_key 2 0 fun G _ => by
            rw [evalLoop_let' hpb (hme _ _) h_let, op1_eq, hsq]; dsimp only; rw [if_pos hodd]⟩
        rw [if_neg hodd] at h
        rcases h1 : semBinds F (a.newScope env []).1 (a.newScope env []).2 bs (op1 ops) with ⟨r1, s1⟩
        rw [h1] at h
        have hne1 : r1 ≠ .oof := by rintro rfl; exact hne (by cases h; rfl)
        rw [hid] at h1 h
        obtain ⟨s1', he1, G1, hG1⟩ := ih.semBinds hen h1 hne1 d; dsimp only at hG1
        cases r1 with
        | oof => exact absurd rfl hne1
        | err e =>
          cases h
          exact ⟨s1', he1, conv_of_key 2 G1 fun G hG => by
            rw [evalLoop_let' hpb (hme _ _) h_let, op1_eq, hsq]; dsimp only
            rw [if_neg hodd, hG1 (G+1) (by omega)]⟩
        | ok v =>
          dsimp only at h
          obtain ⟨s2', he2, G2, hG2⟩ := ih.semBody he1 h hne d
          refine ⟨s2', he2, conv_of_key 3 (G1 + G2) fun G hG => ?_⟩
          rw [evalLoop_let' hpb (hme _ _) h_let, op1_eq, hsq]; dsimp only
          rw [if_neg hodd, hG1 (G+1+1) (by omega)]; dsimp only
          rw [do_arm he1.sb]
          exact hG2 _ _ (by omega) (by omega)
    by_cases h_quote : a0sym a0 = "quote"
    · rw [parse_quote h_quote] at h; simp only [semArm] at h; cases h
      exact ⟨tick b, hat, conv_of_key 2 0 fun G _ => by rw [evalLoop_quote hpb (hme _ _) h_quote, op1_eq]⟩
    by_cases h_out : a0sym a0 ∈ outsideForms
    · rw [parse_outside h_out] at h; simp only [semArm] at h; exact deleg_fwd hab h hne d
    have h_quasiquoteexpand : a0sym a0 ≠ "quasiquoteexpand" := fun hc => h_out (by simp [outsideForms, hc])
    have h_quasiquote : a0sym a0 ≠ "quasiquote" := fun hc => h_out (by simp [outsideForms, hc])
    have h_defmacro : a0sym a0 ≠ "defmacro" := fun hc => h_out (by simp [outsideForms, hc])
    have h_macroexpand : a0sym a0 ≠ "macroexpand" := fun hc => h_out (by simp [outsideForms, hc])
    have h_try : a0sym a0 ≠ "try" := fun hc => h_out (by simp [outsideForms, hc])
    by_cases h_do : a0sym a0 = "do"
    · rw [parse_do h_do] at h; simp only [semArm] at h
      obtain ⟨s', he, G0, hG0⟩ := ih.semBody hat h hne d
      refine ⟨s', he, conv_of_key 3 G0 fun G hG => ?_⟩
      rw [evalLoop_do' hpb (hme _ _) h_do, do_arm hsb]
      exact hG0 _ _ (by omega) (by omega)
    by_cases h_if : a0sym a0 = "if"
    · rw [parse_if h_if] at h; simp only [semArm] at h
      rcases h1 : sem F a env (op1 ops) with ⟨r1, s1⟩
      rw [h1] at h
      have hne1 : r1 ≠ .oof := by rintro rfl; exact hne (by cases h; rfl)
      obtain ⟨s1', he1, G1, hG1⟩ := ih.sem hat h1 hne1 (d+1); dsimp only at hG1
      cases r1 with
      | oof => exact absurd rfl hne1
      | err e =>
        cases h
        exact ⟨s1', he1, conv_of_key 2 G1 fun G hG => by
          rw [evalLoop_if hpb (hme _ _) h_if, eval_stepper_none hsb, op1_eq, hG1 G hG]⟩
      | ok v =>
        dsimp only at h
        by_cases ht : truthy v = true
        · rw [if_pos ht] at h
          obtain ⟨s2', he2, G2, hG2⟩ := ih.sem he1 h hne d; dsimp only at hG2
          refine ⟨s2', he2, conv_of_key 2 (G1 + G2) fun G hG => ?_⟩
          rw [evalLoop_if hpb (hme _ _) h_if, eval_stepper_none hsb, op1_eq, hG1 G (by omega)]; dsimp only
          rw [if_pos ht, cw he1.sb, op2_eq]; exact hG2 (G+1) (by omega)
        rw [if_neg ht] at h
        cases h3 : op3? ops with
        | some e =>
          rw [h3] at h; dsimp only at h
          obtain ⟨hlen, hget⟩ := op3_some (a0 := a0) h3
          obtain ⟨s2', he2, G2, hG2⟩ := ih.sem he1 h hne d; dsimp only at hG2
          refine ⟨s2', he2, conv_of_key 2 (G1 + G2) fun G hG => ?_⟩
          rw [evalLoop_if hpb (hme _ _) h_if, eval_stepper_none hsb, op1_eq, hG1 G (by omega)]; dsimp only
          rw [if_neg ht, if_pos hlen, cw he1.sb, hget]; exact hG2 (G+1) (by omega)
        | none =>
          rw [h3] at h; dsimp only at h; cases h
          exact ⟨s1', he1, conv_of_key 2 G1 fun G hG => by
            rw [evalLoop_if hpb (hme _ _) h_if, eval_stepper_none hsb, op1_eq, hG1 G hG]; dsimp only
            rw [if_neg ht, if_neg (op3_none h3)]⟩
    by_cases h_fn : a0sym a0 = "fn"
    · cases ops with
      | nil =>
        rw [parse_fn_nil h_fn] at h; simp only [semArm] at h; cases h
        exact ⟨tick b, hat, conv_of_key 2 0 fun G _ => by rw [evalLoop_fn hpb (hme _ _) h_fn]; rfl⟩
      | cons params body =>
        rw [parse_fn_cons h_fn] at h; simp only [semArm] at h; cases h
        exact ⟨tick b, hat, conv_of_key 2 0 fun G _ => by rw [evalLoop_fn hpb (hme _ _) h_fn]; rfl⟩
    have ha : a0sym a0 ∉ specialForms := by
      simp only [specialForms, List.mem_cons, List.not_mem_nil, or_false, not_or]
      exact ⟨h_def, h_let, h_quote, h_quasiquoteexpand, h_quasiquote, h_defmacro, h_macroexpand, h_try, h_do, h_if, h_fn⟩
    rw [parse_app ha] at h; simp only [semArm] at h
    rcases h1 : semList F a env (a0 :: ops) with ⟨r1, s1⟩
    rw [h1] at h
    have hne1 : r1 ≠ .oof := by rintro rfl; exact hne (by cases h; rfl)
    obtain ⟨s1', he1, G1, hG1⟩ := ih.semList hat h1 hne1 d; dsimp only at hG1
    cases r1 with
    | oof => exact absurd rfl hne1
    | err e =>
      cases h
      exact ⟨s1', he1, conv_of_key 2 G1 fun G hG => by rw [evalLoop_app hpb (hme _ _) ha, hG1 (G+1) (by omega)]⟩
    | ok el =>
      cases el with
      | nil =>
        dsimp only at h; cases h
        exact ⟨s1', he1, conv_of_key 2 G1 fun G hG => by rw [evalLoop_app hpb (hme _ _) ha, hG1 (G+1) (by omega)]⟩
      | cons fv vs =>
        dsimp only at h
        cases fv
        case fn params body fenv m fp =>
          dsimp only at h
          cases hbp : bindParams params vs with
          | error e =>
            rw [hbp] at h; dsimp only at h; cases h
            exact ⟨s1', he1, conv_of_key 2 G1 fun G hG => by
              rw [evalLoop_app hpb (hme _ _) ha, hG1 (G+1) (by omega)]; dsimp only; rw [hbp]; dsimp only
              unfold arityError
              cases e with
              | lisp pl ps => cases pl <;> rfl
              | plain m => rfl⟩
          | ok data =>
            rw [hbp] at h; dsimp only at h
            rw [he1.newScope_id fenv data] at h
            obtain ⟨s2', he2, G2, hG2⟩ := ih.sem (he1.newScope fenv data) h hne d; dsimp only at hG2
            refine ⟨s2', he2, conv_of_key 2 (G1 + G2) fun G hG => ?_⟩
            rw [evalLoop_app hpb (hme _ _) ha, hG1 (G+1) (by omega)]; dsimp only
            rw [hbp]; dsimp only; rw [cw (he1.newScope fenv data).sb]; exact hG2 (G+1) (by omega)
        case builtin name =>
          dsimp only at h
          rcases h2 : callBuiltin F s1 name vs 0 with ⟨r2, s2⟩
          rw [h2] at h
          have hne2 : r2 ≠ .oof := by rintro rfl; exact hne (by cases h; rfl)
          obtain ⟨s2', hb2, he2⟩ := (ins F).callBuiltin he1 h2 d
          refine ⟨s2', ?_, conv_of_key 2 (G1 + F) fun G hG => ?_⟩
          · cases r2 <;> cases h <;> first | exact he2 | exact absurd rfl hne2
          · rw [evalLoop_app hpb (hme _ _) ha, hG1 (G+1) (by omega)]; dsimp only
            rw [callBuiltin_fuel_le (by omega : F ≤ G+1) hb2 hne2]
            cases r2 <;> cases h <;> first | rfl | exact absurd rfl hne2
        all_goals
          (dsimp only at h; cases h
           exact ⟨s1', he1, conv_of_key 2 G1 fun G hG => by
             rw [evalLoop_app hpb (hme _ _) ha, hG1 (G+1) (by omega)]⟩)

end fwd

theorem fwd : ∀ F, Fwd F := by
  intro F
  induction F with
  | zero =>
    constructor <;> intros <;> rename_i h hne d <;> exfalso <;> apply hne
    · rw [sem.eq_1] at h; cases h; rfl
    · rw [semList.eq_1] at h; cases h; rfl
    · rw [semBody.eq_1] at h; cases h; rfl
    · unfold semBinds at h; cases h; rfl
  | succ F ih => exact ⟨sem_fwd ih, semList_fwd ih, semBody_fwd ih, semBinds_fwd ih⟩

/-! ### backward: `evalLoop` ⊑ `sem` -/

structure Bwd (F : Nat) : Prop where
  evalLoop : ∀ {a b env ast d r s'}, Eqv a b → evalLoop F b env ast d = (r, s') → r ≠ .oof →
    ∃ s, Eqv s s' ∧ Conv (fun G => sem G a env ast) (r, s)
  evalList : ∀ {a b env xs d r s'}, Eqv a b → evalList F b env xs d = (r, s') → r ≠ .oof →
    ∃ s, Eqv s s' ∧ Conv (fun G => semList G a env xs) (r, s)
  letBinds : ∀ {a b env bs a1 d r s'}, Eqv a b → letBinds F b env bs a1 d = (r, s') → r ≠ .oof →
    ∃ s, Eqv s s' ∧ Conv (fun G => semBinds G a env bs a1) (r, s)

/-- a delegated form: the run of the loop is a run of `sem` -/
theorem deleg_bwd {F a b env ast d r s'} (hab : Eqv a b) (h : evalLoop F b env ast d = (r, s')) (hne : r ≠ .oof)
    (hsem : ∀ G, sem (G+1) a env ast = eval G a env ast 0) :
    ∃ s, Eqv s s' ∧ Conv (fun G => sem G a env ast) (r, s) := by
  have h' : eval (F+1) b env ast d = (r, s') := by rw [eval_stepper_none hab.sb]; exact h
  obtain ⟨s, hs, he⟩ := (ins (F+1)).eval hab.symm h' 0
  exact ⟨s, he.symm, conv_of_key 1 (F+1) fun G hG => by rw [hsem]; exact eval_fuel_le hG hs hne⟩

section bwd
variable {F : Nat} (ih : Bwd F)
include ih

theorem Bwd.eval' {a b env ast d r s'} (hab : Eqv a b) (h : eval F b env ast d = (r, s')) (hne : r ≠ .oof) :
    ∃ s, Eqv s s' ∧ Conv (fun G => sem G a env ast) (r, s) := by
  cases F with
  | zero => rw [eval.eq_1] at h; cases h; exact absurd rfl hne
  | succ F' =>
    rw [eval_stepper_none hab.sb] at h
    exact ih.evalLoop hab (evalLoop_fuel_le (Nat.le_succ _) h hne) hne

theorem evalList_bwd {a b env xs d r s'} (hab : Eqv a b) (h : evalList (F+1) b env xs d = (r, s')) (hne : r ≠ .oof) :
    ∃ s, Eqv s s' ∧ Conv (fun G => semList G a env xs) (r, s) := by
  cases xs with
  | nil => rw [evalList.eq_2] at h; cases h; exact ⟨a, hab, conv_of_key 1 0 fun G _ => by rw [semList.eq_2]⟩
  | cons x xs =>
    rw [evalList.eq_3] at h
    rcases h1 : eval F b env x (d+1) with ⟨r1, s1'⟩
    rw [h1] at h
    cases r1 with
    | oof => exact absurd (by cases h; rfl) hne
    | err e =>
      cases h
      obtain ⟨s1, he1, G1, hG1⟩ := ih.eval' hab h1 (by simp); dsimp only at hG1
      exact ⟨s1, he1, conv_of_key 1 G1 fun G hG => by rw [semList.eq_3, hG1 G hG]⟩
    | ok v =>
      dsimp only at h
      obtain ⟨s1, he1, G1, hG1⟩ := ih.eval' hab h1 (by simp); dsimp only at hG1
      rcases h2 : evalList F s1' env xs d with ⟨r2, s2'⟩
      rw [h2] at h
      have hne2 : r2 ≠ .oof := by rintro rfl; exact hne (by cases h; rfl)
      obtain ⟨s2, he2, G2, hG2⟩ := ih.evalList he1 h2 hne2; dsimp only at hG2
      refine ⟨s2, ?_, conv_of_key 1 (G1 + G2) fun G hG => ?_⟩
      · cases r2 <;> cases h <;> first | exact he2 | exact absurd rfl hne2
      · rw [semList.eq_3, hG1 G (by omega)]; dsimp only
        rw [hG2 G (by omega)]
        cases r2 <;> cases h <;> first | rfl | exact absurd rfl hne2

theorem letBinds_bwd {a b env bs a1 d r s'} (hab : Eqv a b) (h : letBinds (F+1) b env bs a1 d = (r, s'))
    (hne : r ≠ .oof) : ∃ s, Eqv s s' ∧ Conv (fun G => semBinds G a env bs a1) (r, s) := by
  match bs with
  | [] => rw [letBinds.eq_2] at h; cases h; exact ⟨a, hab, conv_of_key 1 0 fun G _ => by rw [semBinds.eq_2]⟩
  | [_] => rw [letBinds.eq_3] at h; cases h; exact ⟨a, hab, conv_of_key 1 0 fun G _ => by rw [semBinds.eq_3]⟩
  | bb :: x :: rest =>
    cases bb
    case sym n p =>
      rw [letBinds_cons] at h
      rcases h1 : eval F b env x (d+1) with ⟨r1, s1'⟩
      rw [h1] at h
      cases r1 with
      | oof => exact absurd (by cases h; rfl) hne
      | err e =>
        cases h
        obtain ⟨s1, he1, G1, hG1⟩ := ih.eval' hab h1 (by simp); dsimp only at hG1
        exact ⟨s1, he1, conv_of_key 1 G1 fun G hG => by unfold semBinds; dsimp only; rw [hG1 G hG]⟩
      | ok v =>
        dsimp only at h
        obtain ⟨s1, he1, G1, hG1⟩ := ih.eval' hab h1 (by simp); dsimp only at hG1
        obtain ⟨s2, he2, G2, hG2⟩ := ih.letBinds (he1.set env n v) h hne; dsimp only at hG2
        refine ⟨s2, he2, conv_of_key 1 (G1 + G2) fun G hG => ?_⟩
        unfold semBinds; dsimp only; rw [hG1 G (by omega)]; exact hG2 G (by omega)
    all_goals
      (rw [letBinds_non_symbol _ _ _ (by intro _ _ hc; cases hc)] at h; cases h
       exact ⟨a, hab, conv_of_key 1 0 fun G _ => by unfold semBinds; rfl⟩)

/-- the body forms as the loop runs them (fuels at most `F`) are a run of `semBody` -/
theorem body_bwd {env d r} : ∀ (forms : List Val) {a b : State} {s' : State} (G1 : Nat), G1 ≤ F → Eqv a b →
    bodyRun G1 F b env forms d = (r, s') → r ≠ .oof →
    ∃ s, Eqv s s' ∧ Conv (fun G => semBody G a env forms) (r, s)
  | [], a, b, s', G1, hG1, hab, h, hne => by
    unfold bodyRun at h
    cases G1 with
    | zero => simp only [List.dropLast_nil, evalList] at h; cases h; exact absurd rfl hne
    | succ G1 =>
      simp only [List.dropLast_nil, evalList, List.getLast?_nil, Option.getD_none] at h
      obtain ⟨s, he, G, hG⟩ := ih.evalLoop hab h hne; dsimp only at hG
      have h2 := hG (G+1) (by omega)
      rw [sem_succ] at h2
      simp only [macroHead, parse, semArm, Bool.false_eq_true, ↓reduceIte] at h2
      cases h2
      exact ⟨a, he, conv_of_key 1 0 fun G _ => by rw [semBody.eq_2]⟩
  | [x], a, b, s', G1, hG1, hab, h, hne => by
    unfold bodyRun at h
    cases G1 with
    | zero => simp only [List.dropLast_singleton, evalList] at h; cases h; exact absurd rfl hne
    | succ G1 =>
      simp only [List.dropLast_singleton, evalList, List.getLast?_singleton, Option.getD_some] at h
      obtain ⟨s, he, G, hG⟩ := ih.evalLoop hab h hne; dsimp only at hG
      exact ⟨s, he, conv_of_key 1 G fun G' hG' => by rw [semBody.eq_3]; exact hG G' hG'⟩
  | x :: y :: rest, a, b, s', G1, hG1, hab, h, hne => by
    cases G1 with
    | zero => unfold bodyRun at h; simp only [evalList] at h; cases h; exact absurd rfl hne
    | succ G1 =>
      rw [bodyRun_cons] at h
      rcases h1 : eval G1 b env x (d+1) with ⟨r1, s1'⟩
      rw [h1] at h
      cases r1 with
      | oof => exact absurd (by cases h; rfl) hne
      | err e =>
        cases h
        obtain ⟨s1, he1, G, hG⟩ := ih.eval' hab (eval_fuel_le (by omega) h1 (by simp)) (by simp); dsimp only at hG
        exact ⟨s1, he1, conv_of_key 1 G fun G' hG' => by rw [semBody.eq_4, hG G' hG']⟩
      | ok v =>
        dsimp only at h
        obtain ⟨s1, he1, G, hG⟩ := ih.eval' hab (eval_fuel_le (by omega) h1 (by simp)) (by simp); dsimp only at hG
        obtain ⟨s2, he2, G', hG'⟩ := body_bwd (y :: rest) G1 (by omega) he1 h hne; dsimp only at hG'
        refine ⟨s2, he2, conv_of_key 1 (G + G') fun G'' hG'' => ?_⟩
        rw [semBody.eq_4, hG G'' (by omega)]; exact hG' G'' (by omega)

omit ih in
theorem evalLoop_one {b : State} (hp : b.poll = (false, tick b)) (env : Nat) (ast : Val) (d : Nat) :
    (evalLoop 1 b env ast d).1 = .oof := by
  by_cases hl : ∃ xs p, ast = .list xs p
  · obtain ⟨xs, p, rfl⟩ := hl
    rw [evalLoop_mac_oof hp (by unfold macroexpand; rfl)]
  · rw [evalLoop_nonlist hp (fun xs p hc => hl ⟨xs, p, hc⟩)]; unfold evalAst; rfl

omit ih in
theorem thenContinue_one {st : State} (hc : st.cancelAt = none) (hs : st.stepper = none) (env d : Nat)
    (lst : List Val) (fr : Nat) : (thenContinue 1 env d (doForms 1 st env lst fr true d)).1 = .oof := by
  rw [doForms_keepLast hs]
  unfold thenContinue
  by_cases hl : lst.length ≤ fr
  · rw [if_pos hl]; dsimp only; rw [cw hs]; exact evalLoop_one (poll_of_not_cancelled hc) _ _ _
  · rw [if_neg hl]; simp only [evalList]

omit ih in
theorem op3_of_len {a0 : Val} {ops : List Val} (h : (a0 :: ops).length ≥ 4) :
    op3? ops = some ((a0 :: ops).getD 3 .nil) := by
  match ops, h with
  | _ :: _ :: z :: _, _ => rfl

omit ih in
theorem op3_of_not_len {a0 : Val} {ops : List Val} (h : ¬ (a0 :: ops).length ≥ 4) : op3? ops = none := by
  match ops, h with
  | [], _ => rfl
  | [_], _ => rfl
  | [_, _], _ => rfl
  | _ :: _ :: _ :: _, h => exact absurd (by simp) h

theorem evalLoop_bwd {a b env ast d r s'} (hab : Eqv a b) (h : evalLoop (F+1) b env ast d = (r, s')) (hne : r ≠ .oof) :
    ∃ s, Eqv s s' ∧ Conv (fun G => sem G a env ast) (r, s) := by
  cases hm : macroHead a env ast
  case true => exact deleg_bwd hab h hne (fun G => sem_macro hm)
  have hnm : ¬ IsMacroCall b env ast := by
    rw [← macroHead_iff, ← macroHead_congr hab.scopes, hm]; simp
  obtain ⟨hpb, hme⟩ := reach_b hab.cb hnm
  have hat : Eqv a (tick b) := hab.tickR
  have hsb : (tick b).stepper = none := hab.sb
  have hsem : ∀ G, sem (G+1) a env ast = semArm G a env ast (parse ast) := fun G => sem_arm hm
  cases F with
  | zero => exact absurd (by have := evalLoop_one hpb env ast d; rw [h] at this; exact this) hne
  | succ F =>
  by_cases hl : ∃ xs p, ast = .list xs p
  case neg =>
    have hnl := fun xs p hc => hl ⟨xs, p, hc⟩
    have h0 := h
    rw [evalLoop_nonlist hpb hnl] at h
    cases ast <;> (first | exact absurd ⟨_, _, rfl⟩ hl | skip) <;> simp only [evalAst] at h
    case sym n p =>
      refine ⟨a, ?_, conv_of_key 1 0 fun G _ => ?_⟩
      · split at h <;> cases h <;> exact hat
      · rw [hsem]; simp only [parse, semArm]; rw [hat.get env n]
        split at h <;> cases h <;> first | (simp only [*]; done) | (simp only [*]; rfl)
    case vec xs p =>
      rcases h1 : evalList F (tick b) env xs d with ⟨r1, s1'⟩
      rw [h1] at h
      have hne1 : r1 ≠ .oof := by rintro rfl; exact hne (by cases h; rfl)
      obtain ⟨s1, he1, G1, hG1⟩ := ih.evalList hat (evalList_fuel_le (Nat.le_succ _) h1 hne1) hne1
      dsimp only at hG1
      refine ⟨s1, ?_, conv_of_key 1 G1 fun G hG => ?_⟩
      · cases r1 <;> cases h <;> first | exact he1 | exact absurd rfl hne1
      · rw [hsem]; simp only [parse, semArm]; rw [hG1 G hG]
        cases r1 <;> cases h <;> first | rfl | exact absurd rfl hne1
    case map kvs => exact deleg_bwd hab h0 hne (fun G => by rw [hsem]; rfl)
    all_goals
      (cases h
       exact ⟨a, hat, conv_of_key 1 0 fun G _ => by rw [hsem]; simp only [parse, semArm]⟩)
  obtain ⟨xs, p, rfl⟩ := hl
  cases xs with
  | nil =>
    rw [evalLoop_mac_empty hpb (hme _ _)] at h; cases h
    exact ⟨a, hat, conv_of_key 1 0 fun G _ => by rw [hsem]; simp only [parse, semArm]⟩
  | cons a0 ops =>
    by_cases h_def : a0sym a0 = "def"
    · rw [evalLoop_def hpb (hme _ _) h_def, op1_eq] at h
      rcases h1 : eval (F+1) (tick b) env (ops.getD 1 .nil) (d+1) with ⟨r1, s1'⟩
      rw [h1] at h
      have hne1 : r1 ≠ .oof := by rintro rfl; exact hne (by cases h; rfl)
      obtain ⟨s1, he1, G1, hG1⟩ := ih.eval' hat h1 hne1; dsimp only at hG1
      have key : ∀ G, G1 ≤ G → sem (G+1) a env (.list (a0 :: ops) p) =
          match (r1, s1) with
          | (.ok v, st1) =>
            (match op1 ops with
             | .sym name _ => (.ok v, st1.set env name v)
             | _ => (.err (newLispError (.plain "cannot use value as identifier") (.list (a0 :: ops) p)), st1))
          | r => r := by
        intro G hG
        rw [hsem, parse_def h_def]; simp only [semArm]; rw [← op2_eq, hG1 G hG]
        rfl
      cases r1 with
      | oof => exact absurd rfl hne1
      | err e => cases h; exact ⟨s1, he1, conv_of_key 1 G1 key⟩
      | ok v =>
        dsimp only at h key
        generalize op1 ops = tgt at h key
        cases tgt <;> dsimp only at h key <;> cases h <;>
          first
          | exact ⟨_, he1.set _ _ _, conv_of_key 1 G1 key⟩
          | exact ⟨_, he1, conv_of_key 1 G1 key⟩
    by_cases h_let : a0sym a0 = "let"
    · rw [evalLoop_let' hpb (hme _ _) h_let, op1_eq] at h
      have hid : (a.newScope env []).2 = ((tick b).newScope env []).2 := hat.newScope_id env []
      have hen := hat.newScope env []
      cases hsq : seqOf? (op1 ops) with
      | none =>
        rw [hsq] at h; dsimp only at h; cases h
        exact ⟨_, hen, conv_of_key 1 0 fun G _ => by rw [hsem, parse_let h_let]; simp only [semArm]; rw [hsq]⟩
      | some bs =>
        rw [hsq] at h; dsimp only at h
        by_cases hodd : bs.length % 2 ≠ 0
        · rw [if_pos hodd] at h; cases h
          exact ⟨_, hen, conv_of_key 1 0 fun G _ => by
            rw [hsem, parse_let h_let]; simp only [semArm]; rw [hsq]; dsimp only; rw [if_pos hodd]⟩
        rw [if_neg hodd] at h
        rcases h1 : letBinds (F+1) ((tick b).newScope env []).1 ((tick b).newScope env []).2 bs (op1 ops) d with ⟨r1, s1'⟩
        rw [h1] at h
        have hne1 : r1 ≠ .oof := by rintro rfl; exact hne (by cases h; rfl)
        obtain ⟨s1, he1, G1, hG1⟩ := ih.letBinds hen h1 hne1; dsimp only at hG1
        cases r1 with
        | oof => exact absurd rfl hne1
        | err e =>
          cases h
          exact ⟨s1, he1, conv_of_key 1 G1 fun G hG => by
            rw [hsem, parse_let h_let]; simp only [semArm]; rw [hsq]; dsimp only
            rw [if_neg hodd, hid, hG1 G hG]⟩
        | ok v =>
          dsimp only at h
          cases F with
          | zero =>
            have h' : thenContinue 1 ((tick b).newScope env []).2 d
                (doForms 1 s1' ((tick b).newScope env []).2 (a0 :: ops) 2 true d) = (r, s') := h
            exact absurd (by have := thenContinue_one he1.cb he1.sb ((tick b).newScope env []).2 d (a0 :: ops) 2
                             rw [h'] at this; exact this) hne
          | succ F' =>
            rw [do_arm he1.sb] at h
            obtain ⟨s2, he2, G2, hG2⟩ := body_bwd ih _ (F'+1) (by omega) he1 h hne; dsimp only at hG2
            refine ⟨s2, he2, conv_of_key 1 (G1 + G2) fun G hG => ?_⟩
            rw [hsem, parse_let h_let]; simp only [semArm]; rw [hsq]; dsimp only
            rw [if_neg hodd, hid, hG1 G (by omega)]; exact hG2 G (by omega)
    by_cases h_quote : a0sym a0 = "quote"
    · rw [evalLoop_quote hpb (hme _ _) h_quote, op1_eq] at h; cases h
      exact ⟨a, hat, conv_of_key 1 0 fun G _ => by rw [hsem, parse_quote h_quote]; simp only [semArm]⟩
    by_cases h_out : a0sym a0 ∈ outsideForms
    · exact deleg_bwd hab h hne (fun G => by rw [hsem, parse_outside h_out]; rfl)
    have h_quasiquoteexpand : a0sym a0 ≠ "quasiquoteexpand" := fun hc => h_out (by simp [outsideForms, hc])
    have h_quasiquote : a0sym a0 ≠ "quasiquote" := fun hc => h_out (by simp [outsideForms, hc])
    have h_defmacro : a0sym a0 ≠ "defmacro" := fun hc => h_out (by simp [outsideForms, hc])
    have h_macroexpand : a0sym a0 ≠ "macroexpand" := fun hc => h_out (by simp [outsideForms, hc])
    have h_try : a0sym a0 ≠ "try" := fun hc => h_out (by simp [outsideForms, hc])
    by_cases h_do : a0sym a0 = "do"
    · rw [evalLoop_do' hpb (hme _ _) h_do] at h
      cases F with
      | zero =>
        have h' : thenContinue 1 env d (doForms 1 (tick b) env (a0 :: ops) 1 true d) = (r, s') := h
        exact absurd (by have := thenContinue_one (st := tick b) hab.cb hsb env d (a0 :: ops) 1; rw [h'] at this; exact this) hne
      | succ F' =>
        rw [do_arm hsb] at h
        obtain ⟨s2, he2, G2, hG2⟩ := body_bwd ih _ (F'+1) (by omega) hat h hne; dsimp only at hG2
        exact ⟨s2, he2, conv_of_key 1 G2 fun G hG => by
          rw [hsem, parse_do h_do]; simp only [semArm]; exact hG2 G hG⟩
    by_cases h_if : a0sym a0 = "if"
    · rw [evalLoop_if hpb (hme _ _) h_if, op1_eq, op2_eq] at h
      rcases h1 : eval (F+1) (tick b) env (op1 ops) (d+1) with ⟨r1, s1'⟩
      rw [h1] at h
      have hne1 : r1 ≠ .oof := by rintro rfl; exact hne (by cases h; rfl)
      obtain ⟨s1, he1, G1, hG1⟩ := ih.eval' hat h1 hne1; dsimp only at hG1
      cases r1 with
      | oof => exact absurd rfl hne1
      | err e =>
        cases h
        exact ⟨s1, he1, conv_of_key 1 G1 fun G hG => by
          rw [hsem, parse_if h_if]; simp only [semArm]; rw [hG1 G hG]⟩
      | ok v =>
        dsimp only at h
        rw [cw he1.sb, cw he1.sb] at h
        by_cases ht : truthy v = true
        · rw [if_pos ht] at h
          obtain ⟨s2, he2, G2, hG2⟩ := ih.evalLoop he1 h hne; dsimp only at hG2
          refine ⟨s2, he2, conv_of_key 1 (G1 + G2) fun G hG => ?_⟩
          rw [hsem, parse_if h_if]; simp only [semArm]; rw [hG1 G (by omega)]; dsimp only
          rw [if_pos ht]; exact hG2 G (by omega)
        rw [if_neg ht] at h
        by_cases hlen : (a0 :: ops).length ≥ 4
        · rw [if_pos hlen] at h
          obtain ⟨s2, he2, G2, hG2⟩ := ih.evalLoop he1 h hne; dsimp only at hG2
          refine ⟨s2, he2, conv_of_key 1 (G1 + G2) fun G hG => ?_⟩
          rw [hsem, parse_if h_if]; simp only [semArm]; rw [hG1 G (by omega)]; dsimp only
          rw [if_neg ht, op3_of_len hlen]; exact hG2 G (by omega)
        · rw [if_neg hlen] at h; cases h
          exact ⟨s1, he1, conv_of_key 1 G1 fun G hG => by
            rw [hsem, parse_if h_if]; simp only [semArm]; rw [hG1 G hG]; dsimp only
            rw [if_neg ht, op3_of_not_len hlen]⟩
    by_cases h_fn : a0sym a0 = "fn"
    · rw [evalLoop_fn hpb (hme _ _) h_fn] at h
      cases ops with
      | nil =>
        cases h
        exact ⟨a, hat, conv_of_key 1 0 fun G _ => by rw [hsem, parse_fn_nil h_fn]; simp only [semArm] <;> rfl⟩
      | cons params body =>
        cases h
        exact ⟨a, hat, conv_of_key 1 0 fun G _ => by rw [hsem, parse_fn_cons h_fn]; simp only [semArm] <;> rfl⟩
    have ha : a0sym a0 ∉ specialForms := by
      simp only [specialForms, List.mem_cons, List.not_mem_nil, or_false, not_or]
      exact ⟨h_def, h_let, h_quote, h_quasiquoteexpand, h_quasiquote, h_defmacro, h_macroexpand, h_try, h_do, h_if, h_fn⟩
    rw [evalLoop_app hpb (hme _ _) ha] at h
    rcases h1 : evalList (F+1) (tick b) env (a0 :: ops) d with ⟨r1, s1'⟩
    rw [h1] at h
    have hne1 : r1 ≠ .oof := by rintro rfl; exact hne (by cases h; rfl)
    obtain ⟨s1, he1, G1, hG1⟩ := ih.evalList hat h1 hne1; dsimp only at hG1
    have hsem' : ∀ G, G1 ≤ G → sem (G+1) a env (.list (a0 :: ops) p) =
        semArm G a env (.list (a0 :: ops) p) (.app a0 ops) := fun G _ => by rw [hsem, parse_app ha]
    cases r1 with
    | oof => exact absurd rfl hne1
    | err e =>
      cases h
      exact ⟨s1, he1, conv_of_key 1 G1 fun G hG => by rw [hsem' G hG]; simp only [semArm]; rw [hG1 G hG]⟩
    | ok el =>
      cases el with
      | nil =>
        dsimp only at h; cases h
        exact ⟨s1, he1, conv_of_key 1 G1 fun G hG => by rw [hsem' G hG]; simp only [semArm]; rw [hG1 G hG]⟩
      | cons fv vs =>
        dsimp only at h
        cases fv
        case fn params body fenv m fp =>
          dsimp only at h
          cases hbp : bindParams params vs with
          | error e =>
            rw [hbp] at h; dsimp only at h
            have h' : (Res.err (arityError e body), s1') = (r, s') := by
              rw [← h]; unfold arityError
              cases e with
              | lisp pl ps => cases pl <;> rfl
              | plain m => rfl
            cases h'
            exact ⟨s1, he1, conv_of_key 1 G1 fun G hG => by
              rw [hsem' G hG]; simp only [semArm]; rw [hG1 G hG]; dsimp only; rw [hbp]⟩
          | ok data =>
            rw [hbp] at h; dsimp only at h
            rw [cw (he1.newScope fenv data).sb] at h
            obtain ⟨s2, he2, G2, hG2⟩ := ih.evalLoop (he1.newScope fenv data) h hne; dsimp only at hG2
            refine ⟨s2, he2, conv_of_key 1 (G1 + G2) fun G hG => ?_⟩
            rw [hsem' G (by omega)]; simp only [semArm]; rw [hG1 G (by omega)]; dsimp only
            rw [hbp]; dsimp only; rw [he1.newScope_id fenv data]; exact hG2 G (by omega)
        case builtin name =>
          dsimp only at h
          rcases h2 : callBuiltin (F+1) s1' name vs d with ⟨r2, s2'⟩
          rw [h2] at h
          have hne2 : r2 ≠ .oof := by rintro rfl; exact hne (by cases h; rfl)
          obtain ⟨s2, hb2, he2⟩ := (ins (F+1)).callBuiltin he1.symm h2 0
          refine ⟨s2, ?_, conv_of_key 1 (G1 + (F+1)) fun G hG => ?_⟩
          · cases r2 <;> cases h <;> first | exact he2.symm | exact absurd rfl hne2
          · rw [hsem' G (by omega)]; simp only [semArm]; rw [hG1 G (by omega)]; dsimp only
            rw [callBuiltin_fuel_le (by omega : F+1 ≤ G) hb2 hne2]
            cases r2 <;> cases h <;> first | rfl | exact absurd rfl hne2
        all_goals
          (dsimp only at h; cases h
           exact ⟨s1, he1, conv_of_key 1 G1 fun G hG => by rw [hsem' G hG]; simp only [semArm]; rw [hG1 G hG]⟩)

end bwd

theorem bwd : ∀ F, Bwd F := by
  intro F
  induction F with
  | zero =>
    constructor <;> intros <;> rename_i h hne <;> exfalso <;> apply hne
    · rw [evalLoop.eq_1] at h; cases h; rfl
    · rw [evalList.eq_1] at h; cases h; rfl
    · unfold letBinds at h; cases h; rfl
  | succ F ih => exact ⟨evalLoop_bwd ih, evalList_bwd ih, letBinds_bwd ih⟩

/-! ### the refinement theorems -/

theorem sameUpToPolls_of_eqv {a b : State} (h : Eqv a b) : SameUpToPolls a b :=
  ⟨h.scopes, h.atoms, h.trace, h.ca.trans h.cb.symm, h.sa.trans h.sb.symm⟩

theorem eqv_of_sameUpToPolls {a b : State} (h : SameUpToPolls a b) (hc : a.cancelAt = none) (hs : a.stepper = none) :
    Eqv a b :=
  ⟨h.1, h.2.1, h.2.2.1, hc, h.2.2.2.1 ▸ hc, hs, h.2.2.2.2 ▸ hs⟩

/-- every finished run of `sem` is a run of `eval` (some fuel, any depth), from any store that agrees
    with the start store up to polls -/
theorem eval_refines_sem_upto {st₁ st₂ : State} (hc : st₁.cancelAt = none) (hs : st₁.stepper = none)
    (hst : SameUpToPolls st₁ st₂) {F env : Nat} {ast : Val} {r : Res Val} {st' : State}
    (h : sem F st₁ env ast = (r, st')) (hne : r ≠ .oof) (d : Nat) :
    ∃ F' st'', eval F' st₂ env ast d = (r, st'') ∧ SameUpToPolls st' st'' := by
  have hab := eqv_of_sameUpToPolls hst hc hs
  obtain ⟨s', he, G, hG⟩ := (fwd F).sem hab h hne d
  exact ⟨G+1, s', by rw [eval_stepper_none hab.sb]; exact hG G (Nat.le_refl _), sameUpToPolls_of_eqv he⟩

/-- … and every finished run of `eval` is a run of `sem` -/
theorem sem_refines_eval_upto {st₁ st₂ : State} (hc : st₁.cancelAt = none) (hs : st₁.stepper = none)
    (hst : SameUpToPolls st₁ st₂) {F env d : Nat} {ast : Val} {r : Res Val} {st'' : State}
    (h : eval F st₂ env ast d = (r, st'')) (hne : r ≠ .oof) :
    ∃ F' st', sem F' st₁ env ast = (r, st') ∧ SameUpToPolls st' st'' := by
  have hab := eqv_of_sameUpToPolls hst hc hs
  obtain ⟨s, he, G, hG⟩ := (bwd F).eval' hab h hne
  exact ⟨G, s, hG G (Nat.le_refl _), sameUpToPolls_of_eqv he⟩

theorem sameUpToPolls_refl (st : State) : SameUpToPolls st st := ⟨rfl, rfl, rfl, rfl, rfl⟩

/-- two finished runs, one of `sem` and one of `eval`, agree -/
theorem sem_eval_agree {st : State} (hc : st.cancelAt = none) (hs : st.stepper = none)
    {F F' env d : Nat} {ast : Val} {r r' : Res Val} {s s' : State}
    (h : sem F st env ast = (r, s)) (hne : r ≠ .oof) (h' : eval F' st env ast d = (r', s')) (hne' : r' ≠ .oof) :
    r = r' ∧ SameUpToPolls s s' := by
  obtain ⟨F'', s'', h'', hs''⟩ := eval_refines_sem_upto hc hs (sameUpToPolls_refl st) h hne d
  obtain ⟨rfl, rfl⟩ := eval_fuel_agree h'' hne h' hne'
  exact ⟨rfl, hs''⟩

/-! ### the rules of `sem`, form by form (the language definition) -/

section rules
variable {F : Nat} {st : State} {env : Nat} {pos p0 : Option Pos}

theorem macroHead_of_headNotMacro {f : Val} {args : List Val} (h : HeadNotMacro st env f) :
    macroHead st env (.list (f :: args) pos) = false := by
  cases hm : macroHead st env (.list (f :: args) pos)
  · rfl
  · obtain ⟨n, p, args', pos', params, body, fenv, fp, heq, hg⟩ := macroHead_iff.mp hm
    cases heq
    exact absurd hg (h _ _ _ _)

theorem macroHead_of_notMacro {s : String} {p : Option Pos} {args : List Val} (h : NotMacro st env s) :
    macroHead st env (.list (.sym s p :: args) pos) = false :=
  macroHead_of_headNotMacro (f := .sym s p) h

theorem sem_symbol (s : String) (p : Option Pos) :
    sem (F+1) st env (.sym s p) =
      match st.get env s with
      | some v => (.ok v, st)
      | none => (.err (.lisp (.goerr ("symbol '" ++ s ++ "' not found")) p), st) := by
  rw [sem_arm (by rfl)]; rfl

theorem sem_quote (hm : NotMacro st env "quote") (x : Val) (rest : List Val) :
    sem (F+1) st env (.list (.sym "quote" p0 :: x :: rest) pos) = (.ok x, st) := by
  rw [sem_arm (macroHead_of_notMacro hm), parse_quote rfl]; rfl

theorem sem_fn (hm : NotMacro st env "fn") (params : Val) (body : List Val) :
    sem (F+1) st env (.list (.sym "fn" p0 :: params :: body) pos) =
      (.ok (.fn params (.list (.sym "do" none :: body) none) env false pos), st) := by
  rw [sem_arm (macroHead_of_notMacro hm), parse_fn_cons rfl]; rfl

theorem sem_def (hm : NotMacro st env "def") (name : String) (pn : Option Pos) (x : Val) (rest : List Val) :
    sem (F+1) st env (.list (.sym "def" p0 :: .sym name pn :: x :: rest) pos) =
      match sem F st env x with
      | (.ok v, st1) => (.ok v, st1.set env name v)
      | r => r := by
  rw [sem_arm (macroHead_of_notMacro hm), parse_def rfl]; rfl

theorem sem_def_non_symbol (hm : NotMacro st env "def") (target : Val) (ht : ∀ n p, target ≠ .sym n p)
    (x : Val) (rest : List Val) :
    sem (F+1) st env (.list (.sym "def" p0 :: target :: x :: rest) pos) =
      match sem F st env x with
      | (.ok _, st1) => (.err (newLispError (.plain "cannot use value as identifier")
                                (.list (.sym "def" p0 :: target :: x :: rest) pos)), st1)
      | r => r := by
  rw [sem_arm (macroHead_of_notMacro hm), parse_def rfl]
  cases target <;> first | exact absurd rfl (ht _ _) | rfl

theorem sem_if (hm : NotMacro st env "if") (c t e : Val) (rest : List Val) :
    sem (F+1) st env (.list (.sym "if" p0 :: c :: t :: e :: rest) pos) =
      match sem F st env c with
      | (.ok v, st1) => if truthy v then sem F st1 env t else sem F st1 env e
      | r => r := by
  rw [sem_arm (macroHead_of_notMacro hm), parse_if rfl]; rfl

theorem sem_if_no_else (hm : NotMacro st env "if") (c t : Val) :
    sem (F+1) st env (.list [.sym "if" p0, c, t] pos) =
      match sem F st env c with
      | (.ok v, st1) => if truthy v then sem F st1 env t else (.ok .nil, st1)
      | r => r := by
  rw [sem_arm (macroHead_of_notMacro hm), parse_if rfl]; rfl

theorem sem_do (hm : NotMacro st env "do") (body : List Val) :
    sem (F+1) st env (.list (.sym "do" p0 :: body) pos) = semBody F st env body := by
  rw [sem_arm (macroHead_of_notMacro hm), parse_do rfl]; rfl

theorem semBody_nil : semBody (F+1) st env [] = (.ok .nil, st) := by rw [semBody.eq_2]
theorem semBody_last (x : Val) : semBody (F+1) st env [x] = sem F st env x := by rw [semBody.eq_3]
theorem semBody_cons (x y : Val) (rest : List Val) :
    semBody (F+1) st env (x :: y :: rest) =
      match sem F st env x with
      | (.ok _, st1) => semBody F st1 env (y :: rest)
      | r => r := by rw [semBody.eq_4]; rfl

theorem sem_let (hm : NotMacro st env "let") (bindings : Val) (bs body : List Val)
    (hb : seqOf? bindings = some bs) (heven : bs.length % 2 = 0) :
    sem (F+1) st env (.list (.sym "let" p0 :: bindings :: body) pos) =
      match semBinds F (st.newScope env []).1 st.scopes.size bs bindings with
      | (.ok _, st2) => semBody F st2 st.scopes.size body
      | r => r := by
  rw [sem_arm (macroHead_of_notMacro hm), parse_let rfl]
  simp only [semArm, op1, hb]
  rw [if_neg (by omega)]; rfl

theorem sem_let_odd (hm : NotMacro st env "let") (bindings : Val) (bs body : List Val)
    (hb : seqOf? bindings = some bs) (hodd : bs.length % 2 ≠ 0) :
    sem (F+1) st env (.list (.sym "let" p0 :: bindings :: body) pos) =
      (.err (newLispError (.plain "let: odd elements on binding vector") bindings), (st.newScope env []).1) := by
  rw [sem_arm (macroHead_of_notMacro hm), parse_let rfl]
  simp only [semArm, op1, hb]
  rw [if_pos hodd]

theorem semBinds_nil (letEnv : Nat) (a1 : Val) : semBinds (F+1) st letEnv [] a1 = (.ok .nil, st) := by
  rw [semBinds.eq_2]

theorem semBinds_cons (letEnv : Nat) (name : String) (pn : Option Pos) (x : Val) (rest : List Val) (a1 : Val) :
    semBinds (F+1) st letEnv (.sym name pn :: x :: rest) a1 =
      match sem F st letEnv x with
      | (.ok v, st1) => semBinds F (st1.set letEnv name v) letEnv rest a1
      | r => r := by
  conv => lhs; unfold semBinds
  rfl

theorem semBinds_non_symbol (letEnv : Nat) (b : Val) (hb : ∀ n p, b ≠ .sym n p) (x : Val) (rest : List Val)
    (a1 : Val) :
    semBinds (F+1) st letEnv (b :: x :: rest) a1 = (.err (newLispError (.plain "non-symbol bind value") a1), st) := by
  unfold semBinds
  cases b <;> first | exact absurd rfl (hb _ _) | rfl

theorem semList_nil : semList (F+1) st env [] = (.ok [], st) := by rw [semList.eq_2]
theorem semList_cons (x : Val) (xs : List Val) :
    semList (F+1) st env (x :: xs) =
      match sem F st env x with
      | (.ok v, st1) =>
        (match semList F st1 env xs with
         | (.ok vs, st2) => (.ok (v :: vs), st2)
         | r => r)
      | (.err e, st1) => (.err e, st1)
      | (.oof, st1) => (.oof, st1) := by rw [semList.eq_3]; rfl

theorem sem_application {f : Val} (args : List Val) (hm : HeadNotMacro st env f) (hsf : a0sym f ∉ specialForms) :
    sem (F+1) st env (.list (f :: args) pos) =
      match semList F st env (f :: args) with
      | (.ok [], st1) => (.err (.plain "empty application"), st1)
      | (.ok (fv :: vs), st1) =>
        (match fv with
         | .fn params body fenv _ _ =>
           (match bindParams params vs with
            | .error e => (.err (arityError e body), st1)
            | .ok data => sem F (st1.newScope fenv data).1 (st1.newScope fenv data).2 body)
         | .builtin name =>
           (match callBuiltin F st1 name vs 0 with
            | (.ok v, st2) => (.ok v, st2)
            | (.err e, st2) => (.err (newLispError e (.list (f :: args) pos)), st2)
            | (.oof, st2) => (.oof, st2))
         | _ => (.err (.lisp (.goerr "attempt to call non-function") none), st1))
      | (.err e, st1) => (.err e, st1)
      | (.oof, st1) => (.oof, st1) := by
  rw [sem_arm (macroHead_of_headNotMacro hm), parse_app hsf]; rfl

theorem sem_call_closure {f : Val} {args : List Val} (hm : HeadNotMacro st env f) (hsf : a0sym f ∉ specialForms)
    {params body : Val} {fenv : Nat} {m : Bool} {fp : Option Pos} {vs : List Val} {st1 : State}
    {data : List (String × Val)}
    (hargs : semList F st env (f :: args) = (.ok (.fn params body fenv m fp :: vs), st1))
    (hbind : bindParams params vs = .ok data) :
    sem (F+1) st env (.list (f :: args) pos) = sem F (st1.newScope fenv data).1 (st1.newScope fenv data).2 body := by
  rw [sem_application args hm hsf, hargs]; dsimp only; rw [hbind]

theorem sem_call_arity_error {f : Val} {args : List Val} (hm : HeadNotMacro st env f) (hsf : a0sym f ∉ specialForms)
    {params body : Val} {fenv : Nat} {m : Bool} {fp : Option Pos} {vs : List Val} {st1 : State} {msg : String}
    {ep : Option Pos}
    (hargs : semList F st env (f :: args) = (.ok (.fn params body fenv m fp :: vs), st1))
    (hbind : bindParams params vs = .error (.lisp (.goerr msg) ep)) :
    sem (F+1) st env (.list (f :: args) pos) = (.err (.lisp (.goerr (msg ++ " (around do)")) none), st1) := by
  rw [sem_application args hm hsf, hargs]; dsimp only; rw [hbind]; rfl

theorem sem_call_builtin {f : Val} {args : List Val} (hm : HeadNotMacro st env f) (hsf : a0sym f ∉ specialForms)
    {name : String} {vs : List Val} {st1 : State}
    (hargs : semList F st env (f :: args) = (.ok (.builtin name :: vs), st1)) :
    sem (F+1) st env (.list (f :: args) pos) =
      match callBuiltin F st1 name vs 0 with
      | (.ok v, st2) => (.ok v, st2)
      | (.err e, st2) => (.err (newLispError e (.list (f :: args) pos)), st2)
      | (.oof, st2) => (.oof, st2) := by
  rw [sem_application args hm hsf, hargs]

theorem sem_call_non_callable {f : Val} {args : List Val} (hm : HeadNotMacro st env f) (hsf : a0sym f ∉ specialForms)
    {fv : Val} {vs : List Val} {st1 : State}
    (hargs : semList F st env (f :: args) = (.ok (fv :: vs), st1))
    (hnf : ∀ ps b e m p, fv ≠ .fn ps b e m p) (hnb : ∀ n, fv ≠ .builtin n) :
    sem (F+1) st env (.list (f :: args) pos) = (.err (.lisp (.goerr "attempt to call non-function") none), st1) := by
  rw [sem_application args hm hsf, hargs]
  cases fv <;> first | exact absurd rfl (hnf _ _ _ _ _) | exact absurd rfl (hnb _) | rfl

theorem sem_args_error {f : Val} {args : List Val} (hm : HeadNotMacro st env f) (hsf : a0sym f ∉ specialForms)
    {e : Err} {st1 : State} (hargs : semList F st env (f :: args) = (.err e, st1)) :
    sem (F+1) st env (.list (f :: args) pos) = (.err e, st1) := by
  rw [sem_application args hm hsf, hargs]

end rules

end LispModel.Proofs.BigStepRefine

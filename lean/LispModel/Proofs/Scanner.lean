/-
  The scanner invariant behind `readAtom`'s slicing: in a successful tokenization every String token
  has at least two characters and every RawString token starts with `¬`.  Core Lean only.
-/
import LispModel.Scan
namespace LispModel.Proofs.Scanner
open LispModel LispModel.Scan

def NumKind (k : Kind) : Prop := k = .int ∨ k = .float ∨ k = .char 45

theorem scanNumber_kind (pre : List Int) (rest : List Rune) (ch : Int) (p : PState) (sd neg : Bool) :
    NumKind (scanNumber pre rest ch p sd neg).1 := by
  unfold scanNumber
  extract_lets restStart chFirst
  split
  rename_i tok0 base prefx digsep0 ch1 rest1 p1 seenDot inv heq0
  have h0 : tok0 = .int ∨ tok0 = .float := by
    split at heq0
    · split at heq0
      split at heq0
      split at heq0
      · split at heq0
        injection heq0 with heq0; exact Or.inl heq0.symm
      · injection heq0 with heq0; exact Or.inl heq0.symm
    · injection heq0 with heq0; exact Or.inr heq0.symm
  clear heq0
  split
  rename_i tok1 digsep1 ch2 rest2 p2 inv2 heq1
  have h1 : tok1 = .int ∨ tok1 = .float := by
    split at heq1
    · extract_lets p' at heq1
      split at heq1
      injection heq1 with heq1; exact Or.inr heq1.symm
    · injection heq1 with heq1; exact heq1 ▸ h0
  clear heq1
  split
  rename_i tok2 p3 heq2
  have h2 : NumKind tok2 := by
    split at heq2
    · split at heq2
      · injection heq2 with heq2; exact Or.inr (Or.inr heq2.symm)
      · injection heq2 with heq2; subst heq2; rcases h1 with h | h <;> simp [NumKind, h]
    · injection heq2 with heq2; subst heq2; rcases h1 with h | h <;> simp [NumKind, h]
  clear heq2
  extract_lets e
  split
  rename_i tok3 digsep2 ch4 rest4 p4 heq3
  have h3 : NumKind tok3 := by
    split at heq3
    · split at heq3
      split at heq3
      split at heq3
      injection heq3 with heq3; exact Or.inr (Or.inl heq3.symm)
    · split at heq3 <;> (injection heq3 with heq3; exact heq3 ▸ h2)
  exact h3

/-! ### lengths -/

theorem next_nil (p : PState) : ∃ q, next [] p = (EOF, [], q) ∧ q.errs = p.errs := ⟨_, rfl, rfl⟩

theorem next_cons (r : Rune) (rs : List Rune) (p : PState) :
    ∃ c q, next (r :: rs) p = (c, rs, q) ∧ 0 ≤ c := by
  unfold next
  simp only []
  split
  · exact ⟨_, _, rfl, Int.natCast_nonneg _⟩
  · split
    · exact ⟨_, _, rfl, by decide⟩
    · split
      · exact ⟨_, _, rfl, by decide⟩
      · exact ⟨_, _, rfl, Int.natCast_nonneg _⟩

theorem next_length (rest : List Rune) (p : PState) : (next rest p).2.1.length ≤ rest.length := by
  cases rest with
  | nil => obtain ⟨q, h, _⟩ := next_nil p; rw [h]; simp
  | cons r rs => obtain ⟨c, q, h, _⟩ := next_cons r rs p; rw [h]; simp

theorem scanDigits_length (base : Nat) : ∀ n rest ch p, (scanDigits base n rest ch p).2.1.length ≤ rest.length := by
  intro n
  induction n with
  | zero => intro rest ch p; simp [scanDigits]
  | succ n ih =>
    intro rest ch p
    unfold scanDigits
    split
    · have h1 := next_length rest p
      have h2 := ih (next rest p).2.1 (next rest p).1 (next rest p).2.2
      exact Nat.le_trans h2 h1
    · simp

theorem scanEscape_length (rest : List Rune) (p : PState) : (scanEscape rest p).2.1.length ≤ rest.length := by
  unfold scanEscape
  have h1 := next_length rest p
  generalize next rest p = s at h1
  obtain ⟨ch, rest1, p1⟩ := s
  simp only [] at h1 ⊢
  have h2 := next_length rest1 p1
  generalize next rest1 p1 = s2 at h2
  obtain ⟨ch2, rest2, p2⟩ := s2
  simp only [] at h2 ⊢
  split
  · simp only []; omega
  · split
    · exact Nat.le_trans (scanDigits_length _ _ _ _ _) h1
    · split
      · exact Nat.le_trans (scanDigits_length _ _ _ _ _) (by omega)
      · split
        · exact Nat.le_trans (scanDigits_length _ _ _ _ _) (by omega)
        · split
          · exact Nat.le_trans (scanDigits_length _ _ _ _ _) (by omega)
          · exact h1

theorem stringLoop_length : ∀ fuel rest ch p, (stringLoop fuel rest ch p).2.1.length ≤ rest.length := by
  intro fuel
  induction fuel with
  | zero => intro rest ch p; simp [stringLoop]
  | succ n ih =>
    intro rest ch p
    unfold stringLoop
    split
    · simp
    · split
      · simp
      · split
        · have h1 := scanEscape_length rest p
          generalize scanEscape rest p = s at h1
          obtain ⟨ch1, rest1, p1⟩ := s
          exact Nat.le_trans (ih _ _ _) h1
        · have h1 := next_length rest p
          generalize next rest p = s at h1
          obtain ⟨ch1, rest1, p1⟩ := s
          exact Nat.le_trans (ih _ _ _) h1


theorem consumed_length (ch0 : Int) (rs re : List Rune) (ce : Int) :
    (consumed ch0 rs re ce).length =
      (if ch0 < 0 then 0 else 1) +
        (if ce < 0 then min (rs.length - re.length) rs.length
         else min (rs.length - re.length) rs.length - 1) := by
  unfold consumed
  simp only []
  split <;> split <;> simp [List.length_take, List.length_dropLast] <;> omega

theorem string_text_length (rest : List Rune) (p : PState) :
    (next (scanString rest p).2.1 (scanString rest p).2.2).2.2.errs = 0 →
    2 ≤ (consumed 34 rest (next (scanString rest p).2.1 (scanString rest p).2.2).2.1
          (next (scanString rest p).2.1 (scanString rest p).2.2).1).length := by
  cases rest with
  | nil =>
    intro h
    exfalso
    have e : scanString [] p = (EOF, [], err (next [] p).2.2) := rfl
    rw [e] at h
    obtain ⟨q', h', he⟩ := next_nil (err (next [] p).2.2)
    rw [h'] at h
    simp only [] at h
    rw [h] at he
    simp [err] at he
  | cons x xs =>
    intro _
    have hs : (scanString (x :: xs) p).2.1.length ≤ xs.length := by
      unfold scanString
      obtain ⟨c, q, h, _⟩ := next_cons x xs p
      rw [h]
      exact stringLoop_length _ _ _ _
    generalize scanString (x :: xs) p = s at hs ⊢
    obtain ⟨c, r, q⟩ := s
    simp only [] at hs ⊢
    rw [consumed_length]
    cases r with
    | nil =>
      obtain ⟨q', h, _⟩ := next_nil q
      rw [h]
      simp
      omega
    | cons y ys =>
      obtain ⟨c', q', h, hc⟩ := next_cons y ys q
      rw [h]
      simp only [List.length_cons] at hs ⊢
      have : ¬ c' < 0 := by omega
      simp only [this, if_false]
      have : ¬ ((34 : Int) < 0) := by decide
      simp only [this, if_false]
      omega


/-- what `readAtom` needs of a token -/
def Good (k : Kind) (text : List Nat) : Prop :=
  (k = .string → 2 ≤ text.length) ∧ (k = .rawString → text.head? = some 172)

theorem good_of_numKind {k : Kind} (h : NumKind k) (text : List Nat) : Good k text := by
  unfold Good
  rcases h with h | h | h <;> subst h <;> constructor <;> intro h <;> cases h

theorem good_ident (k : Kind) (text : List Nat) (h1 : k ≠ .string) (h2 : k ≠ .rawString) : Good k text :=
  ⟨fun h => absurd h h1, fun h => absurd h h2⟩

local macro "fin_tac" h:ident : tactic =>
  `(tactic| (injection $h with h1 h2; injection h1 with h1; injection h1 with hk ht; subst hk ht h2;
             first | exact good_of_numKind (scanNumber_kind ..) _
                   | exact good_ident _ _ (by intro h; cases h) (by intro h; cases h)))

theorem scan_spec : ∀ fuel rest ch p k text s,
    scan fuel rest ch p = (some (k, text), s) → s.2.2.errs = 0 → Good k text := by
  intro fuel
  induction fuel with
  | zero => intro rest ch p k text s h; simp [scan] at h
  | succ n ih =>
    intro rest ch p k text s h herr
    unfold scan at h
    generalize skipWhite rest ch p = sw at h
    obtain ⟨ch1, rest1, p1⟩ := sw
    simp only [] at h
    by_cases c1 : isIdentRune ch1 0 = true
    · rw [if_pos c1] at h; fin_tac h
    rw [if_neg c1] at h
    by_cases c2 : isDecimal ch1 = true
    · rw [if_pos c2] at h; fin_tac h
    rw [if_neg c2] at h
    by_cases c3 : ch1 = 45
    · rw [if_pos c3] at h
      by_cases c31 : isIdentRune (next rest1 p1).fst 0 = true
      · rw [if_pos c31] at h; fin_tac h
      rw [if_neg c31] at h
      by_cases c32 : isDecimal (next rest1 p1).fst = true
      · rw [if_pos c32] at h; fin_tac h
      rw [if_neg c32] at h; fin_tac h
    rw [if_neg c3] at h
    by_cases c4 : ch1 < 0
    · rw [if_pos c4] at h; cases h
    rw [if_neg c4] at h
    by_cases c5 : ch1 = 34
    · rw [if_pos c5] at h
      injection h with h1 h2; injection h1 with h1; injection h1 with hk ht; subst hk ht h2 c5
      exact ⟨fun _ => string_text_length _ _ herr, fun h => by cases h⟩
    rw [if_neg c5] at h
    by_cases c6 : ch1 = 58
    · rw [if_pos c6] at h; fin_tac h
    rw [if_neg c6] at h
    by_cases c7 : ch1 = 46
    · rw [if_pos c7] at h
      by_cases c71 : isDecimal (next rest1 p1).fst = true
      · rw [if_pos c71] at h; fin_tac h
      rw [if_neg c71] at h; fin_tac h
    rw [if_neg c7] at h
    by_cases c8 : ch1 = 59
    · rw [if_pos c8] at h; exact ih _ _ _ _ _ _ h herr
    rw [if_neg c8] at h
    by_cases c9 : ch1 = 172
    · rw [if_pos c9] at h
      injection h with h1 h2; injection h1 with h1; injection h1 with hk ht; subst hk ht h2 c9
      unfold Good
      refine ⟨fun h => (by cases h), fun _ => ?_⟩
      simp [consumed]
    rw [if_neg c9] at h
    by_cases c10 : ch1 = 126
    · rw [if_pos c10] at h
      by_cases c101 : (next rest1 p1).fst = 64
      · rw [if_pos c101] at h; fin_tac h
      rw [if_neg c101] at h; fin_tac h
    rw [if_neg c10] at h
    by_cases c11 : ch1 = 35
    · rw [if_pos c11] at h
      by_cases c111 : (next rest1 p1).fst = 123
      · rw [if_pos c111] at h; fin_tac h
      rw [if_neg c111] at h; fin_tac h
    rw [if_neg c11] at h
    fin_tac h


/-! ### the token loop -/

def GoodTok (t : Token) : Prop := Good t.kind t.text

theorem tokLoop_good : ∀ fuel rest ch p acc toks, (∀ t ∈ acc, GoodTok t) →
    tokLoop fuel rest ch p acc = .ok toks → ∀ t ∈ toks, GoodTok t := by
  intro fuel
  induction fuel with
  | zero =>
    intro rest ch p acc toks hacc h
    simp only [tokLoop, TokResult.ok.injEq] at h
    subst h
    intro t ht; exact hacc t (List.mem_reverse.mp ht)
  | succ n ih =>
    intro rest ch p acc toks hacc h
    unfold tokLoop at h
    cases hs : scan (rest.length + 2) rest ch p with
    | mk o s =>
      rw [hs] at h
      cases o with
      | none =>
        simp only [TokResult.ok.injEq] at h
        subst h
        intro t ht; exact hacc t (List.mem_reverse.mp ht)
      | some kt =>
        obtain ⟨k, text⟩ := kt
        obtain ⟨ch', rest', p'⟩ := s
        simp only [] at h
        by_cases he : p'.errs ≠ 0
        · rw [if_pos he] at h; cases h
        · rw [if_neg he] at h
          have he0 : p'.errs = 0 := Classical.not_not.mp he
          refine ih _ _ _ _ _ ?_ h
          intro t ht
          rcases List.mem_cons.mp ht with rfl | ht
          · exact scan_spec _ _ _ _ _ _ _ hs he0
          · exact hacc t ht

theorem tokenize_good (bytes : List UInt8) (toks : List Token) (h : tokenize bytes = .ok toks) :
    ∀ t ∈ toks, GoodTok t := by
  unfold tokenize tokenizeRunes at h
  generalize start (decodeAll bytes) = st at h
  obtain ⟨ch, rest, p⟩ := st
  exact tokLoop_good _ _ _ _ _ _ (by simp) h

end LispModel.Proofs.Scanner

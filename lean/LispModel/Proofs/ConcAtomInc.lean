/-
  C09 proofs, part 12: no lost update.  When every operation is `swap! inc`, every linearization event
  is an install of (current + 1), so the value is the initial one plus the number of installs.
-/
import LispModel.Proofs.ConcAtomLog
namespace LispModel.Proofs.ConcAtom
open LispModel.Conc

def isInc (op : AOp) : Prop := ∃ a, op = .swap a (.app (· + 1))

/-- all operations, pending or running, are `swap! inc`; a running one that has computed its result
    holds old + 1 -/
structure IncInv (s : State) : Prop where
  todo : ∀ t, ∀ op ∈ (s.threads t).todo, isInc op
  stack : ∀ t, (s.threads t).stack = [] ∨ ∃ fr, (s.threads t).stack = [fr] ∧ isInc fr.op ∧ fr.failed = false ∧
    (fr.returning = false → 5 ≤ fr.pc → fr.pc ≤ 7 → fr.res = fr.old + 1)
  log : ∀ e ∈ s.lin, ∃ t a o, e = LinEv.cas t a o (o + 1)

def incEntry (n : OpName) (pc : Nat) (m : MOp) : Bool :=
  (ctl m pc (defersAt n pc)).all fun (pc', _, ret') =>
    (!ret' && n == .swap && decide (5 ≤ pc') && decide (pc' ≤ 7)) →
      (decide (5 ≤ pc) && decide (pc ≤ 7) && m != .read .val) || m == .callback

theorem incTable_true : forAllOps incEntry = true := by decide

theorem isInc_name {op : AOp} (h : isInc op) : op.name = .swap := by
  obtain ⟨a, rfl⟩ := h; rfl

theorem IncInv.other {s s' : State} {t : Nat} (h : IncInv s)
    (hth : ∀ u, u ≠ t → s'.threads u = s.threads u)
    (htodo : ∀ op ∈ (s'.threads t).todo, isInc op)
    (hstack : (s'.threads t).stack = [] ∨ ∃ fr, (s'.threads t).stack = [fr] ∧ isInc fr.op ∧ fr.failed = false ∧
      (fr.returning = false → 5 ≤ fr.pc → fr.pc ≤ 7 → fr.res = fr.old + 1))
    (hlog : ∀ e ∈ s'.lin, e ∈ s.lin ∨ ∃ t a o, e = LinEv.cas t a o (o + 1)) : IncInv s' := by
  constructor
  · intro u; by_cases hu : u = t
    · subst hu; exact htodo
    · rw [hth u hu]; exact h.todo u
  · intro u; by_cases hu : u = t
    · subst hu; exact hstack
    · rw [hth u hu]; exact h.stack u
  · intro e he
    rcases hlog e he with h1 | h1
    · exact h.log e h1
    · exact h1

theorem IncInv.step {s s' : State} {t : Nat} (h : IncInv s) (hL : LockInv s)
    (hs : step prog s t = some s') : IncInv s' := by
  have hk := step_kind hs
  have hoth : ∀ u, u ≠ t → s'.threads u = s.threads u := fun u hu => step_other_thread hs hu
  rcases h.stack t with hempty | ⟨fr0, hst0, hinc0, hfail0, hres0⟩
  · -- no frame: only `start` is possible
    cases hk with
    | start op more hst htd =>
      apply h.other hoth
      · intro op' hop'; simp at hop'; exact h.todo t op' (by rw [htd]; simp [hop'])
      · right
        refine ⟨Frame.new op, by simp, ?_, ?_, ?_⟩
        · have := h.todo t op (by rw [htd]; simp)
          obtain ⟨a, rfl⟩ := this; exact ⟨a, rfl⟩
        · obtain ⟨a, ha⟩ := h.todo t op (by rw [htd]; simp); subst ha; rfl
        · intro _ h5; obtain ⟨a, ha⟩ := h.todo t op (by rw [htd]; simp); subst ha; simp [Frame.new] at h5
      · intro e he; exact Or.inl (by simpa using he)
    | _ => simp_all
  · have hwf := hL.wf t
    rw [hst0] at hwf
    have hwf0 := hwf.1
    have hn0 := isInc_name hinc0
    cases hk with
    | start op more hst htd => rw [hst0] at hst; cases hst
    | popOk fr par rest' v hst hr hd hv => rw [hst0] at hst; cases hst
    | popFail fr par rest' hst hr hd hv => rw [hst0] at hst; cases hst
    | cbFail fr rest a hst hnr hm hop =>
      rw [hst0] at hst; cases hst; obtain ⟨a', ha'⟩ := hinc0; rw [ha'] at hop; cases hop
    | cbDeref fr rest a b hst hnr hm hop =>
      rw [hst0] at hst; cases hst; obtain ⟨a', ha'⟩ := hinc0; rw [ha'] at hop; cases hop
    | cbSwap fr rest a b g hst hnr hm hop =>
      rw [hst0] at hst; cases hst; obtain ⟨a', ha'⟩ := hinc0; rw [ha'] at hop; cases hop
    | defer fr rest d ds fr1 A' hst hr hd hex =>
      rw [hst0] at hst; cases hst
      obtain ⟨-, hdd⟩ := returning_defers hwf0 hr hd
      exfalso
      unfold FrameWF at hwf0
      simp only [hr, if_true, hn0, defersAt] at hwf0
      rcases hwf0 with h1 | ⟨h1, -⟩ <;> rw [hd] at h1 <;> cases h1
    | finish fr hst hr hd =>
      apply h.other hoth
      · intro op hop; simp at hop; exact h.todo t op hop
      · left; simp
      · intro e he; exact Or.inl he
    | cbApp fr rest a f hst hnr hm hop =>
      rw [hst0] at hst; cases hst
      obtain ⟨-, hpc⟩ := callback_pc (name_mem fr0.op) hm
      have hf : f = (· + 1) := by
        obtain ⟨a', ha'⟩ := hinc0; rw [ha'] at hop; cases hop; rfl
      apply h.other hoth
      · intro op hop'; exact h.todo t op (by simpa [State.setTop] using hop')
      · right
        refine ⟨{ fr0 with res := f fr0.old, pc := fr0.pc + 1 }, by simp [State.setTop], hinc0, hfail0, ?_⟩
        intro _ _ _; simp [hf]
      · intro e he; exact Or.inl (by simpa [State.setTop] using he)
    | mop fr rest m fr' A' hst hnr hm hcb hex =>
      rw [hst0] at hst; cases hst
      have hop := (execM_eff hex).1
      obtain ⟨-, -, -, -, -, d6, -, -, d9⟩ := execM_data hex
      obtain ⟨hctl, hfl⟩ := execM_ctl hex hnr
      unfold FrameWF at hwf0
      simp only [hnr] at hwf0
      rw [hwf0.2.1] at hctl
      have tab := forAllOps_spec incTable_true (name_mem fr0.op) hm
      unfold incEntry at tab
      rw [List.all_eq_true] at tab
      have tab := tab _ hctl
      simp only [hn0, beq_self_eq_true, Bool.and_true, Bool.and_eq_true, Bool.not_eq_true', decide_eq_true_eq,
        Bool.or_eq_true, bne_iff_ne, ne_eq, beq_iff_eq] at tab
      apply h.other hoth
      · intro op hop'; exact h.todo t op (by simpa [State.setTop] using hop')
      · right
        refine ⟨fr', by simp [State.setTop], by rw [hop]; exact hinc0, by rw [hfl]; exact hfail0, ?_⟩
        intro hr' h5 h7
        rcases tab ⟨⟨hr', h5⟩, h7⟩ with ⟨⟨p5, p7⟩, hnrv⟩ | hc
        · rw [d9, d6 hnrv]; exact hres0 hnr p5 p7
        · exact absurd hc hcb
      · intro e he
        simp only [State.setTop, List.mem_append] at he
        rcases he with he | he
        · exact Or.inl he
        · right
          by_cases hw : m = .write .val
          · subst hw
            have tabw := forAllOps_spec wvalTable_true (name_mem fr0.op) hm
            simp only [wvalEntry, beq_self_eq_true, hn0, Bool.true_and, Bool.or_eq_true, beq_iff_eq,
              decide_eq_true_eq, forall_const] at tabw
            have hpc : fr0.pc = 7 := by
              rcases tabw with h7 | h7
              · exact h7
              · cases h7
            obtain ⟨a, ha⟩ := hinc0
            simp only [linOf, ha, List.mem_singleton] at he
            exact ⟨t, a, fr0.old, by rw [he, hres0 hnr (by omega) (by omega)]⟩
          · exfalso
            obtain ⟨a, ha⟩ := hinc0
            unfold linOf at he
            rw [ha] at he
            split at he <;> simp_all

/-- number of successful-`swap!` linearization events on atom `a` -/
def casCount (a : Nat) : List LinEv → Nat
  | [] => 0
  | .cas _ b _ _ :: l => (if b = a then 1 else 0) + casCount a l
  | _ :: l => casCount a l

theorem replay_inc (l : List LinEv) (cur cur' : Nat → Nat)
    (hl : ∀ e ∈ l, ∃ t a o, e = LinEv.cas t a o (o + 1)) (hr : replay l cur = some cur') (a : Nat) :
    cur' a = cur a + casCount a l := by
  induction l generalizing cur with
  | nil => simp [replay] at hr; subst hr; simp [casCount]
  | cons e es ih =>
    obtain ⟨t, b, o, he⟩ := hl e (by simp)
    subst he
    simp only [replay, applyEv] at hr
    split at hr
    · rename_i hcur
      simp only [Option.bind_some] at hr
      have := ih _ (fun e he => hl e (by simp [he])) hr
      rw [this]
      simp only [casCount]
      by_cases hab : a = b
      · subst hab; simp [hcur]; omega
      · have hba : ¬ b = a := fun h => hab h.symm
        simp [hab, hba]
    · simp at hr

theorem IncInv.init (progs : List (List AOp)) (vals : Nat → Nat)
    (hall : ∀ ops ∈ progs, ∀ op ∈ ops, isInc op) : IncInv (init progs vals) := by
  constructor
  · intro t op hop
    simp only [Conc.init] at hop
    rw [List.getD_eq_getElem?_getD] at hop
    cases hg : progs[t]? with
    | none => rw [hg] at hop; simp at hop
    | some ops =>
      rw [hg] at hop
      exact hall ops (List.mem_of_getElem? hg) op (by simpa using hop)
  · intro t; left; simp [Conc.init]
  · intro e he; simp [Conc.init] at he

/-- no lost update, in terms of the linearization log: with only `swap! inc` operations the value of
    an atom is its initial value plus the number of installs performed on it -/
theorem val_eq_init_plus_installs {progs vals s} (hr : Reachable progs vals s)
    (hall : ∀ ops ∈ progs, ∀ op ∈ ops, isInc op) (a : Nat) :
    (s.atoms a).val = vals a + casCount a s.lin := by
  obtain ⟨sched, hrun⟩ := hr
  have key : ∀ (sched : List Nat) (s0 : State), AtomInv vals s0 → IncInv s0 → run prog sched s0 = some s →
      AtomInv vals s ∧ IncInv s := by
    intro sched
    induction sched with
    | nil => intro s0 hA hI h0; simp [Conc.run] at h0; subst h0; exact ⟨hA, hI⟩
    | cons t ts ih =>
      intro s0 hA hI h0
      simp only [Conc.run, Option.bind_eq_some_iff] at h0
      obtain ⟨s1, h1, h2⟩ := h0
      exact ih s1 (hA.step h1) (hI.step hA.lock h1) h2
  obtain ⟨hA, hI⟩ := key sched _ (AtomInv.init progs vals) (IncInv.init progs vals hall) hrun
  obtain ⟨cur, hrep, hcur⟩ := hA.lin
  rw [← hcur a]
  exact replay_inc s.lin vals cur hI.log hrep a

end LispModel.Proofs.ConcAtom

/-
  The laws of evaluation (property C01): one theorem per clause of the language definition, proved
  from the arm equations of `Proofs/EvalBasic.lean`.  Standing side conditions of every law about a
  form: the debugger is off (`st.stepper = none`), the context is not cancelled
  (`st.cancelAt = none`), and the head symbol is not bound to a macro (`NotMacro`).
  Fuel: the loop on the form runs with `F+2`; its recursive `EVAL`s and its `continue` run with `F+1`.
  Core Lean only.
-/
import LispModel.Proofs.EvalBasic
namespace LispModel
open LispModel.Core

/-- outer links point to older scopes (true of every store the evaluator builds from `initState`:
    `newScope` links the new, youngest scope to an existing one) -/
def ScopesWF (st : State) : Prop :=
  ∀ (i : Nat) (sc : Scope), st.scopes[i]? = some sc → ∀ o, sc.outer = some o → o < i

/-- `ArgRun env d F st xs vs ts st'`: `evalList F` evaluates the forms `xs` one after the other, left
    to right, each exactly once, starting in `st`; `vs` are their values, `ts` the effects each of them
    appended to the trace (each most-recent-first), `st'` the final state -/
inductive ArgRun (env d : Nat) : Nat → State → List Val → List Val → List (List Val) → State → Prop
  | nil {F st} : ArgRun env d (F+1) st [] [] [] st
  | cons {F st x xs v vs t ts st1 st2} :
      eval F st env x (d+1) = (.ok v, st1) → st1.trace = t ++ st.trace →
      ArgRun env d F st1 xs vs ts st2 → ArgRun env d (F+1) st (x :: xs) (v :: vs) (t :: ts) st2

/-- positional binding: parameter names to argument values, left to right (a later duplicate name
    overwrites) -/
def bindFixed : List String → List Val → List (String × Val) → List (String × Val)
  | n :: ns, v :: vs, acc => bindFixed ns vs (ainsert n v acc)
  | _, _, acc => acc

/-- a parameter list: symbols with their positions -/
def mkParams (nps : List (String × Option Pos)) : List Val := nps.map (fun np => Val.sym np.1 np.2)

namespace Proofs.EvalLaws
open Proofs.EvalBasic

/-! ### the poll, `tick`, truthiness -/

theorem poll_of_not_cancelled {st : State} (hc : st.cancelAt = none) : st.poll = (false, tick st) := by
  unfold State.poll tick; simp only [hc]

@[simp] theorem tick_stepper (st : State) : (tick st).stepper = st.stepper := rfl
@[simp] theorem tick_cancelAt (st : State) : (tick st).cancelAt = st.cancelAt := rfl
@[simp] theorem tick_scopes (st : State) : (tick st).scopes = st.scopes := rfl
@[simp] theorem tick_trace (st : State) : (tick st).trace = st.trace := rfl
@[simp] theorem tick_atoms (st : State) : (tick st).atoms = st.atoms := rfl
@[simp] theorem tick_ticks (st : State) : (tick st).ticks = st.ticks + 1 := rfl

theorem getAux_scopes_congr {a b : State} (h : a.scopes = b.scopes) (n env k) :
    a.getAux n env k = b.getAux n env k := by
  induction n generalizing env with
  | zero => rfl
  | succ n ih =>
    simp only [State.getAux, State.scope?, h]
    split
    · rfl
    · split
      · rfl
      · split
        · exact ih _
        · rfl

theorem get_scopes_congr {a b : State} (h : a.scopes = b.scopes) (env k) : a.get env k = b.get env k := by
  unfold State.get; rw [h]; exact getAux_scopes_congr h _ _ _

@[simp] theorem tick_get (st : State) (env k) : (tick st).get env k = st.get env k :=
  get_scopes_congr (a := tick st) (b := st) rfl env k

theorem notMacro_tick {st env s} (h : NotMacro st env s) : NotMacro (tick st) env s := by
  intro ps b e p; rw [tick_get]; exact h ps b e p

/-- only `nil` and `false` are falsy -/
theorem truthy_eq_false_iff (v : Val) : truthy v = false ↔ v = .nil ∨ v = .bool false := by
  constructor
  · intro h
    cases v <;> simp only [truthy] at h <;> try (exact absurd h (by decide))
    · exact Or.inl rfl
    · rename_i b; cases b
      · exact Or.inr rfl
      · simp at h
  · rintro (rfl | rfl) <;> rfl

theorem truthy_eq_true_iff (v : Val) : truthy v = true ↔ v ≠ .nil ∧ v ≠ .bool false := by
  rw [← Bool.not_eq_false, truthy_eq_false_iff]; simp only [not_or, ne_eq]

/-! ### `macroexpand` leaves a form alone unless its head is bound to a macro -/

theorem macroexpand_of_notMacro {F st env s p args pos d} (h : NotMacro st env s) :
    macroexpand (F+1) st env (.list (.sym s p :: args) pos) d = (.ok (.list (.sym s p :: args) pos), st) := by
  unfold macroexpand
  dsimp only
  split
  · rename_i heq; exact absurd heq (h _ _ _ _)
  · rfl

theorem macroexpand_of_headNotMacro {F st env a0 args pos d} (h : HeadNotMacro st env a0) :
    macroexpand (F+1) st env (.list (a0 :: args) pos) d = (.ok (.list (a0 :: args) pos), st) := by
  cases a0 <;> first | exact macroexpand_of_notMacro h | (unfold macroexpand; rfl)

theorem eval_of_stepper_none {F st env ast d} (hs : st.stepper = none) :
    eval (F+1) st env ast d = evalLoop F st env ast d := eval_stepper_none hs

theorem continueWith_of_stepper_none {F st env ast d} (hs : st.stepper = none) :
    continueWith F st env ast d = evalLoop F st env ast d := by
  unfold continueWith; simp only [hs]

/-! ### lexical scoping: `Env.Get` / `Env.Set` -/

theorem alookup_ainsert_self {α} (k : String) (v : α) (m : List (String × α)) :
    alookup k (ainsert k v m) = some v := by
  induction m with
  | nil => simp [ainsert, alookup]
  | cons hd tl ih =>
    obtain ⟨k', v'⟩ := hd
    unfold ainsert
    split
    · simp [alookup]
    · rename_i hne; simp [alookup, hne, ih]

theorem alookup_ainsert_ne {α} {k k' : String} (hne : k' ≠ k) (v : α) (m : List (String × α)) :
    alookup k' (ainsert k v m) = alookup k' m := by
  induction m with
  | nil => simp [ainsert, alookup, Ne.symm hne]
  | cons hd tl ih =>
    obtain ⟨k1, v1⟩ := hd
    unfold ainsert
    split
    · rename_i h1; subst h1; simp [alookup, Ne.symm hne]
    · simp only [alookup, ih]

/-- the innermost binding wins: a binding of `k` in scope `env` itself is what `get` returns, whatever
    the scopes around it bind -/
theorem get_innermost {st : State} {env : Nat} {sc : Scope} {k : String} {v : Val}
    (hsc : st.scopes[env]? = some sc) (hk : alookup k sc.data = some v) : st.get env k = some v := by
  unfold State.get State.getAux State.scope?; simp only [hsc, hk]

/-- a scope that does not bind `k` hands the lookup to its `outer` scope (one step of the climb) -/
theorem getAux_outer {st : State} {env : Nat} {sc : Scope} {k : String} {o : Nat} (n : Nat)
    (hsc : st.scopes[env]? = some sc) (hk : alookup k sc.data = none) (ho : sc.outer = some o) :
    st.getAux (n+1) env k = st.getAux n o k := by
  simp only [State.getAux, State.scope?, hsc, hk, ho]

/-- the root scope ends the climb -/
theorem get_root_unbound {st : State} {env : Nat} {sc : Scope} {k : String}
    (hsc : st.scopes[env]? = some sc) (hk : alookup k sc.data = none) (ho : sc.outer = none) :
    st.get env k = none := by
  unfold State.get State.getAux State.scope?; simp only [hsc, hk, ho]

theorem getAux_stable {st : State} (hwf : ScopesWF st) (k : String) :
    ∀ (env n m : Nat), env < n → env < m → st.getAux n env k = st.getAux m env k := by
  intro env
  induction env using Nat.strongRecOn with
  | _ env ih =>
    intro n m hn hm
    obtain ⟨n, rfl⟩ : ∃ n', n = n' + 1 := ⟨n - 1, by omega⟩
    obtain ⟨m, rfl⟩ : ∃ m', m = m' + 1 := ⟨m - 1, by omega⟩
    unfold State.getAux State.scope?
    cases hsc : st.scopes[env]? with
    | none => rfl
    | some sc =>
      dsimp only
      cases hk : alookup k sc.data with
      | some v => rfl
      | none =>
        dsimp only
        cases ho : sc.outer with
        | none => rfl
        | some o =>
          have := hwf env sc hsc o ho
          exact ih o this n m (by omega) (by omega)

/-- … and the lookup goes on in the outer scope (outer links pointing to older scopes) -/
theorem get_outer {st : State} (hwf : ScopesWF st) {env : Nat} {sc : Scope} {k : String} {o : Nat}
    (hsc : st.scopes[env]? = some sc) (hk : alookup k sc.data = none) (ho : sc.outer = some o) :
    st.get env k = st.get o k := by
  have hlt : env < st.scopes.size := by
    rcases Nat.lt_or_ge env st.scopes.size with h | h
    · exact h
    · rw [Array.getElem?_eq_none h] at hsc; cases hsc
  have ho' := hwf env sc hsc o ho
  unfold State.get
  rw [getAux_outer _ hsc hk ho]
  exact getAux_stable hwf k o _ _ (by omega) (by omega)

/-- `Env.Set` then `Env.Get` in the same scope -/
theorem get_set_self {st : State} {env : Nat} {sc : Scope} (hsc : st.scopes[env]? = some sc) (k : String) (v : Val) :
    (st.set env k v).get env k = some v := by
  have hlt : env < st.scopes.size := by
    rcases Nat.lt_or_ge env st.scopes.size with h | h
    · exact h
    · rw [Array.getElem?_eq_none h] at hsc; cases hsc
  have : (st.set env k v).scopes[env]? = some { sc with data := ainsert k v sc.data } := by
    unfold State.set State.scope?; simp only [hsc]; simp [hlt]
  exact get_innermost this (alookup_ainsert_self k v sc.data)

theorem scopesWF_initState : ScopesWF initState := by
  intro i sc h o ho
  cases i with
  | zero => simp [initState] at h; subst h; cases ho
  | succ i => simp [initState] at h

theorem scopesWF_tick {st} (h : ScopesWF st) : ScopesWF (tick st) := h

theorem scopesWF_newScope {st : State} (h : ScopesWF st) {o : Nat} (ho : o < st.scopes.size) (data) :
    ScopesWF (st.newScope o data).1 := by
  intro i sc hsc o' ho'
  simp only [State.newScope, Array.getElem?_push] at hsc
  split at hsc
  · rename_i hi; cases hsc; cases ho'; omega
  · exact h i sc hsc o' ho'

theorem scopesWF_set {st : State} (h : ScopesWF st) (env k v) : ScopesWF (st.set env k v) := by
  intro i sc hsc o ho
  unfold State.set State.scope? at hsc
  split at hsc
  · exact h i sc hsc o ho
  · rename_i sc0 hsc0
    simp only [Array.getElem?_setIfInBounds] at hsc
    split at hsc
    · split at hsc
      · cases hsc; rename_i he _; subst he; exact h _ _ hsc0 o ho
      · cases hsc
    · exact h i sc hsc o ho

/-- the scope created by `newScope`: its own bindings first, then the scope it was linked to -/
theorem newScope_scope (st : State) (o : Nat) (data) :
    (st.newScope o data).1.scopes[(st.newScope o data).2]? = some ⟨data, some o⟩ := by
  simp [State.newScope]

theorem getAux_newScope_old {st : State} (hwf : ScopesWF st) (o' : Nat) (data) (k : String) :
    ∀ (env n : Nat), env < st.scopes.size → (st.newScope o' data).1.getAux n env k = st.getAux n env k := by
  intro env
  induction env using Nat.strongRecOn with
  | _ env ih =>
    intro n hlt
    cases n with
    | zero => rfl
    | succ n =>
      unfold State.getAux State.scope?
      have : (st.newScope o' data).1.scopes[env]? = st.scopes[env]? := by
        simp [State.newScope, Array.getElem?_push, Nat.ne_of_lt hlt]
      rw [this]
      cases hsc : st.scopes[env]? with
      | none => rfl
      | some sc =>
        dsimp only
        cases hk : alookup k sc.data with
        | some v => rfl
        | none =>
          dsimp only
          cases ho : sc.outer with
          | none => rfl
          | some o =>
            have := hwf env sc hsc o ho
            exact ih o this n (by omega)

/-- lookup from a fresh scope: its own bindings win, everything else is looked up where the scope was
    linked to (for a call: the closure's defining scope) -/
theorem get_newScope {st : State} (hwf : ScopesWF st) {o : Nat} (ho : o < st.scopes.size) (data) (k : String) :
    (st.newScope o data).1.get (st.newScope o data).2 k =
      match alookup k data with
      | some v => some v
      | none => st.get o k := by
  cases hk : alookup k data with
  | some v => exact get_innermost (newScope_scope st o data) hk
  | none =>
    dsimp only
    rw [get_outer (scopesWF_newScope hwf ho data) (newScope_scope st o data) hk rfl]
    unfold State.get
    rw [getAux_newScope_old hwf o data k o _ ho]
    exact getAux_stable hwf k o _ _ (by simp [State.newScope]; omega) (by omega)

/-! ### the standing side conditions, packaged for the arm equations -/

section laws
variable {F : Nat} {st : State} {env d : Nat} {pos p0 : Option Pos}

/-- under the standing conditions the loop on a list form reaches the dispatch with the form unchanged
    and one poll consumed -/
theorem reach_dispatch (hc : st.cancelAt = none) {a0 : Val} {ops : List Val} (hm : HeadNotMacro st env a0) :
    st.poll = (false, tick st) ∧
    macroexpand (F+1) (tick st) env (.list (a0 :: ops) pos) d = (.ok (.list (a0 :: ops) pos), tick st) := by
  refine ⟨poll_of_not_cancelled hc, macroexpand_of_headNotMacro ?_⟩
  cases a0 <;> first | exact notMacro_tick hm | trivial

/-! ### symbols -/

/-- evaluating a symbol is `Env.Get` from the current scope -/
theorem eval_symbol (hc : st.cancelAt = none) (s : String) (p : Option Pos) :
    evalLoop (F+2) st env (.sym s p) d =
      match st.get env s with
      | some v => (.ok v, tick st)
      | none => (.err (.lisp (.goerr ("symbol '" ++ s ++ "' not found")) p), tick st) := by
  rw [evalLoop_nonlist (poll_of_not_cancelled hc) (by intro _ _ h; cases h)]
  simp only [evalAst, tick_get]; rfl

theorem eval_symbol_innermost (hc : st.cancelAt = none) {sc : Scope} {k : String} {v : Val} (p : Option Pos)
    (hsc : st.scopes[env]? = some sc) (hk : alookup k sc.data = some v) :
    evalLoop (F+2) st env (.sym k p) d = (.ok v, tick st) := by
  rw [eval_symbol hc, get_innermost hsc hk]

theorem eval_symbol_outer (hc : st.cancelAt = none) (hwf : ScopesWF st) {sc : Scope} {k : String} {o : Nat}
    (p : Option Pos) (hsc : st.scopes[env]? = some sc) (hk : alookup k sc.data = none) (ho : sc.outer = some o) :
    evalLoop (F+2) st env (.sym k p) d = evalLoop (F+2) st o (.sym k p) d := by
  rw [eval_symbol hc, eval_symbol hc, get_outer hwf hsc hk ho]

theorem eval_unbound_symbol_errors (hc : st.cancelAt = none) {s : String} (p : Option Pos)
    (hu : st.get env s = none) :
    evalLoop (F+2) st env (.sym s p) d =
      (.err (.lisp (.goerr ("symbol '" ++ s ++ "' not found")) p), tick st) := by
  rw [eval_symbol hc, hu]

/-- self-evaluating forms (everything but symbols, lists, vectors and maps) -/
theorem eval_nil (hc : st.cancelAt = none) : evalLoop (F+2) st env .nil d = (.ok .nil, tick st) := by
  rw [evalLoop_nonlist (poll_of_not_cancelled hc) (by intro _ _ h; cases h)]; simp only [evalAst]

/-! ### quote, fn -/

theorem eval_quote (hc : st.cancelAt = none) (hm : NotMacro st env "quote") (x : Val) (rest : List Val) :
    evalLoop (F+2) st env (.list (.sym "quote" p0 :: x :: rest) pos) d = (.ok x, tick st) := by
  obtain ⟨hp, hme⟩ := reach_dispatch (F := F) (d := d) (pos := pos) (ops := x :: rest) hc (a0 := .sym "quote" p0) hm
  rw [evalLoop_quote hp hme rfl]; rfl

theorem eval_fn_captures_scope (hc : st.cancelAt = none) (hm : NotMacro st env "fn") (params : Val) (body : List Val) :
    evalLoop (F+2) st env (.list (.sym "fn" p0 :: params :: body) pos) d =
      (.ok (.fn params (.list (.sym "do" none :: body) none) env false pos), tick st) := by
  obtain ⟨hp, hme⟩ := reach_dispatch (F := F) (d := d) (pos := pos) (ops := params :: body) hc (a0 := .sym "fn" p0) hm
  rw [evalLoop_fn hp hme rfl]
  simp only [List.length_cons]
  rw [if_neg (by omega)]; rfl

/-! ### def -/

theorem eval_def (hc : st.cancelAt = none) (hm : NotMacro st env "def")
    (name : String) (pn : Option Pos) (x : Val) (rest : List Val) :
    evalLoop (F+2) st env (.list (.sym "def" p0 :: .sym name pn :: x :: rest) pos) d =
      match eval (F+1) (tick st) env x (d+1) with
      | (.ok v, st') => (.ok v, st'.set env name v)
      | r => r := by
  obtain ⟨hp, hme⟩ := reach_dispatch (F := F) (d := d) (pos := pos) (ops := .sym name pn :: x :: rest) hc
    (a0 := .sym "def" p0) hm
  rw [evalLoop_def hp hme rfl]
  simp only [List.getD_cons_zero, List.getD_cons_succ]
  rfl

theorem eval_def_non_symbol (hc : st.cancelAt = none) (hm : NotMacro st env "def")
    (target : Val) (ht : ∀ n p, target ≠ .sym n p) (x : Val) (rest : List Val) :
    evalLoop (F+2) st env (.list (.sym "def" p0 :: target :: x :: rest) pos) d =
      match eval (F+1) (tick st) env x (d+1) with
      | (.ok _, st') => (.err (newLispError (.plain "cannot use value as identifier")
                                (.list (.sym "def" p0 :: target :: x :: rest) pos)), st')
      | r => r := by
  obtain ⟨hp, hme⟩ := reach_dispatch (F := F) (d := d) (pos := pos) (ops := target :: x :: rest) hc
    (a0 := .sym "def" p0) hm
  rw [evalLoop_def hp hme rfl]
  simp only [List.getD_cons_zero, List.getD_cons_succ]
  cases target <;> first | exact absurd rfl (ht _ _) | rfl

/-! ### if -/

/-- the whole `if` arm: the condition first; then exactly one of the branches, as the next iteration of
    the same loop (tail position, same depth) -/
theorem eval_if (hc : st.cancelAt = none) (hs : st.stepper = none) (hm : NotMacro st env "if")
    (c : Val) (branches : List Val) :
    evalLoop (F+2) st env (.list (.sym "if" p0 :: c :: branches) pos) d =
      match eval (F+1) (tick st) env c (d+1) with
      | (.ok v, st1) =>
        if truthy v then evalLoop (F+1) st1 env (branches.getD 0 .nil) d
        else if branches.length ≥ 2 then evalLoop (F+1) st1 env (branches.getD 1 .nil) d
        else (.ok .nil, st1)
      | r => r := by
  obtain ⟨hp, hme⟩ := reach_dispatch (F := F) (d := d) (pos := pos) (ops := c :: branches) hc
    (a0 := .sym "if" p0) hm
  rw [evalLoop_if hp hme rfl]
  simp only [List.getD_cons_zero, List.getD_cons_succ, List.length_cons]
  rcases hx : eval (F+1) (tick st) env c (d+1) with ⟨r, st1⟩
  have hs1 : st1.stepper = none := (stepper_none_preserved (F+1)).eval hx (by simpa using hs)
  cases r with
  | ok v =>
    dsimp only
    rw [continueWith_of_stepper_none hs1, continueWith_of_stepper_none hs1]
    have : (branches.length + 1 + 1 ≥ 4) ↔ (branches.length ≥ 2) := by omega
    simp only [this]
  | err e => rfl
  | oof => rfl

theorem eval_if_truthy (hc : st.cancelAt = none) (hs : st.stepper = none) (hm : NotMacro st env "if")
    {c : Val} {v : Val} {st1 : State} (a : Val) (rest : List Val)
    (hcond : eval (F+1) (tick st) env c (d+1) = (.ok v, st1)) (hv : truthy v = true) :
    evalLoop (F+2) st env (.list (.sym "if" p0 :: c :: a :: rest) pos) d = evalLoop (F+1) st1 env a d := by
  rw [eval_if hc hs hm, hcond]; simp only [hv, if_true, List.getD_cons_zero]

theorem eval_if_falsy (hc : st.cancelAt = none) (hs : st.stepper = none) (hm : NotMacro st env "if")
    {c : Val} {v : Val} {st1 : State} (a b : Val) (rest : List Val)
    (hcond : eval (F+1) (tick st) env c (d+1) = (.ok v, st1)) (hv : truthy v = false) :
    evalLoop (F+2) st env (.list (.sym "if" p0 :: c :: a :: b :: rest) pos) d = evalLoop (F+1) st1 env b d := by
  rw [eval_if hc hs hm, hcond]
  simp only [hv, Bool.false_eq_true, if_false, List.length_cons, List.getD_cons_succ, List.getD_cons_zero]
  rw [if_pos (by omega)]

theorem eval_if_no_else (hc : st.cancelAt = none) (hs : st.stepper = none) (hm : NotMacro st env "if")
    {c : Val} {v : Val} {st1 : State} (a : Val)
    (hcond : eval (F+1) (tick st) env c (d+1) = (.ok v, st1)) (hv : truthy v = false) :
    evalLoop (F+2) st env (.list [.sym "if" p0, c, a] pos) d = (.ok .nil, st1) := by
  rw [eval_if hc hs hm, hcond]
  simp only [hv, Bool.false_eq_true, if_false, List.length_cons, List.length_nil]
  rw [if_neg (by omega)]

theorem eval_if_cond_error (hc : st.cancelAt = none) (hs : st.stepper = none) (hm : NotMacro st env "if")
    {c : Val} {e : Err} {st1 : State} (branches : List Val)
    (hcond : eval (F+1) (tick st) env c (d+1) = (.err e, st1)) :
    evalLoop (F+2) st env (.list (.sym "if" p0 :: c :: branches) pos) d = (.err e, st1) := by
  rw [eval_if hc hs hm, hcond]

/-! ### do, let -/

/-- `do(ast, from, -1)` without debugger -/
theorem doForms_keepLast {st : State} (hs : st.stepper = none) (lst : List Val) (fr : Nat) :
    doForms (F+1) st env lst fr true d =
      if lst.length ≤ fr then (.ok .nil, st) else
      match evalList F st env (lst.drop fr).dropLast d with
      | (.ok _, st') => (.ok (lst.getLast?.getD .nil), st')
      | (.err e, st') => (.err e, st')
      | (.oof, st') => (.oof, st') := by
  unfold doForms
  simp only [hs, Bool.false_eq_true, if_false, if_true]
  split
  · rfl
  · rcases hx : evalList F st env (List.drop fr lst).dropLast d with ⟨r, st'⟩
    cases r <;> rfl

/-- body forms (of `do`, `let`, and through `do` of `fn`): all but the last in order by `evalList`,
    then the last one as the next iteration of the loop; no forms ⇒ the loop continues on `nil` -/
theorem eval_do (hc : st.cancelAt = none) (hs : st.stepper = none) (hm : NotMacro st env "do")
    (body : List Val) :
    evalLoop (F+2) st env (.list (.sym "do" p0 :: body) pos) d =
      match body with
      | [] => evalLoop (F+1) (tick st) env .nil d
      | b :: bs =>
        match evalList F (tick st) env (b :: bs).dropLast d with
        | (.ok _, st1) => evalLoop (F+1) st1 env ((b :: bs).getLast (by simp)) d
        | (.err e, st1) => (.err e, st1)
        | (.oof, st1) => (.oof, st1) := by
  obtain ⟨hp, hme⟩ := reach_dispatch (F := F) (d := d) (pos := pos) (ops := body) hc (a0 := .sym "do" p0) hm
  rw [evalLoop_do hp hme rfl, doForms_keepLast (by simpa using hs)]
  cases body with
  | nil =>
    simp only [List.length_cons, List.length_nil, Nat.le_refl, if_true]
    rw [continueWith_of_stepper_none (by simpa using hs)]
  | cons b bs =>
    simp only [List.length_cons, List.drop_succ_cons, List.drop_zero]
    rw [if_neg (by omega)]
    rcases hx : evalList F (tick st) env (b :: bs).dropLast d with ⟨r, st1⟩
    have hs1 : st1.stepper = none := (stepper_none_preserved F).evalList hx (by simpa using hs)
    cases r with
    | ok vs =>
      dsimp only
      rw [continueWith_of_stepper_none hs1]
      rfl
    | err e => rfl
    | oof => rfl

/-- `(do)` is `nil` (after a second poll: the loop continues on the form `nil`) -/
theorem eval_do_empty (hc : st.cancelAt = none) (hs : st.stepper = none) (hm : NotMacro st env "do") :
    evalLoop (F+3) st env (.list [.sym "do" p0] pos) d = (.ok .nil, tick (tick st)) := by
  rw [eval_do hc hs hm]; exact eval_nil (by simpa using hc)

/-- `let`: a NEW scope whose outer is the current one; the bindings by `letBinds` in that scope; then
    the body forms in order in that scope, the last one in tail position -/
theorem eval_let (hc : st.cancelAt = none) (hs : st.stepper = none) (hm : NotMacro st env "let")
    (bindings : Val) (bs : List Val) (body : List Val)
    (hb : seqOf? bindings = some bs) (heven : bs.length % 2 = 0) :
    evalLoop (F+2) st env (.list (.sym "let" p0 :: bindings :: body) pos) d =
      match letBinds (F+1) ((tick st).newScope env []).1 st.scopes.size bs bindings d with
      | (.ok _, st1) =>
        (match body with
         | [] => evalLoop (F+1) st1 st.scopes.size .nil d
         | b :: bs' =>
           match evalList F st1 st.scopes.size (b :: bs').dropLast d with
           | (.ok _, st2) => evalLoop (F+1) st2 st.scopes.size ((b :: bs').getLast (by simp)) d
           | (.err e, st2) => (.err e, st2)
           | (.oof, st2) => (.oof, st2))
      | r => r := by
  obtain ⟨hp, hme⟩ := reach_dispatch (F := F) (d := d) (pos := pos) (ops := bindings :: body) hc
    (a0 := .sym "let" p0) hm
  rw [evalLoop_let hp hme rfl]
  simp only [List.getD_cons_zero, hb, heven, ne_eq, not_true_eq_false, if_false]
  have hsz : ((tick st).newScope env []).2 = st.scopes.size := rfl
  rw [hsz]
  rcases hx : letBinds (F+1) ((tick st).newScope env []).1 st.scopes.size bs bindings d with ⟨r, st1⟩
  have hs1 : st1.stepper = none := (stepper_none_preserved (F+1)).letBinds hx (by simpa [State.newScope] using hs)
  cases r with
  | err e => rfl
  | oof => rfl
  | ok v =>
    dsimp only
    rw [doForms_keepLast hs1]
    cases body with
    | nil =>
      simp only [List.length_cons, List.length_nil, Nat.le_refl, if_true]
      rw [continueWith_of_stepper_none hs1]
    | cons b bs' =>
      simp only [List.length_cons, List.drop_succ_cons, List.drop_zero]
      rw [if_neg (by omega)]
      rcases hy : evalList F st1 st.scopes.size (b :: bs').dropLast d with ⟨r2, st2⟩
      have hs2 : st2.stepper = none := (stepper_none_preserved F).evalList hy hs1
      cases r2 with
      | ok vs => dsimp only; rw [continueWith_of_stepper_none hs2]; rfl
      | err e => rfl
      | oof => rfl

/-- sequential `let`: the value of a binding is evaluated in the `let` scope, in the state in which all
    earlier bindings of the same `let` have already been `set` in that scope -/
theorem letBinds_cons (st : State) (letEnv : Nat) (name : String) (pn : Option Pos) (x : Val) (rest : List Val)
    (a1 : Val) :
    letBinds (F+1) st letEnv (.sym name pn :: x :: rest) a1 d =
      match eval F st letEnv x (d+1) with
      | (.ok v, st') => letBinds F (st'.set letEnv name v) letEnv rest a1 d
      | r => r := by
  conv => lhs; unfold letBinds
  rfl

theorem letBinds_nil (st : State) (letEnv : Nat) (a1 : Val) :
    letBinds (F+1) st letEnv [] a1 d = (.ok .nil, st) := by
  unfold letBinds; rfl

theorem letBinds_non_symbol (st : State) (letEnv : Nat) (b : Val) (hb : ∀ n p, b ≠ .sym n p) (x : Val)
    (rest : List Val) (a1 : Val) :
    letBinds (F+1) st letEnv (b :: x :: rest) a1 d =
      (.err (newLispError (.plain "non-symbol bind value") a1), st) := by
  unfold letBinds
  cases b <;> first | exact absurd rfl (hb _ _) | rfl

/-! ### call arguments: `evalList` -/

theorem evalList_nil (st : State) : evalList (F+1) st env [] d = (.ok [], st) := by
  rw [evalList.eq_2]

theorem evalList_left_to_right (st : State) (x : Val) (xs : List Val) :
    evalList (F+1) st env (x :: xs) d =
      match eval F st env x (d+1) with
      | (.ok v, st1) =>
        (match evalList F st1 env xs d with
         | (.ok vs, st2) => (.ok (v :: vs), st2)
         | r => r)
      | (.err e, st1) => (.err e, st1)
      | (.oof, st1) => (.oof, st1) := by
  rw [evalList.eq_3]; rfl

theorem evalList_error_stops {st : State} {x : Val} {e : Err} {st1 : State} (xs : List Val)
    (h : eval F st env x (d+1) = (.err e, st1)) : evalList (F+1) st env (x :: xs) d = (.err e, st1) := by
  rw [evalList.eq_3, h]

theorem evalList_ok_iff {st : State} {xs vs : List Val} {st' : State} :
    evalList F st env xs d = (.ok vs, st') ↔ ∃ ts, ArgRun env d F st xs vs ts st' := by
  constructor
  · intro h
    induction F generalizing st xs vs with
    | zero => rw [evalList.eq_1] at h; cases h
    | succ F ih =>
      cases xs with
      | nil => rw [evalList.eq_2] at h; cases h; exact ⟨[], .nil⟩
      | cons x xs =>
        rw [evalList.eq_3] at h
        rcases hx : eval F st env x (d+1) with ⟨r, st1⟩
        rw [hx] at h
        cases r with
        | err e => cases h
        | oof => cases h
        | ok v =>
          dsimp only at h
          rcases hy : evalList F st1 env xs d with ⟨r2, st2⟩
          rw [hy] at h
          cases r2 with
          | err e => cases h
          | oof => cases h
          | ok vs' =>
            cases h
            obtain ⟨ts, hts⟩ := ih hy
            obtain ⟨t, ht⟩ := (trace_suffix F).eval hx
            exact ⟨t :: ts, .cons hx ht hts⟩
  · rintro ⟨ts, h⟩
    induction h with
    | nil => rw [evalList.eq_2]
    | cons hx _ _ ih => rw [evalList.eq_3, hx]; dsimp only; rw [ih]

theorem argRun_trace_eq {F : Nat} {st : State} {xs vs : List Val} {ts : List (List Val)} {st' : State}
    (h : ArgRun env d F st xs vs ts st') : st'.trace = ts.reverse.flatten ++ st.trace := by
  induction h with
  | nil => rfl
  | cons _ ht _ ih =>
    rw [ih, ht, List.reverse_cons, List.flatten_append]
    simp only [List.flatten_cons, List.flatten_nil, List.append_nil, List.append_assoc]

theorem argRun_length_eq {F : Nat} {st : State} {xs vs : List Val} {ts : List (List Val)} {st' : State}
    (h : ArgRun env d F st xs vs ts st') : vs.length = xs.length ∧ ts.length = xs.length := by
  induction h with
  | nil => exact ⟨rfl, rfl⟩
  | cons _ _ _ ih => simp only [List.length_cons, ih.1, ih.2, and_self]

/-! ### application -/

/-- the application arm: head and arguments are evaluated first, once, left to right, by ONE `evalList`
    over the whole form; everything else happens afterwards, in the state `evalList` left -/
theorem eval_application (hc : st.cancelAt = none) (hs : st.stepper = none) {f : Val} (args : List Val)
    (hm : HeadNotMacro st env f) (hsf : a0sym f ∉ specialForms) :
    evalLoop (F+2) st env (.list (f :: args) pos) d =
      match evalList (F+1) (tick st) env (f :: args) d with
      | (.ok el, st1) =>
        (match el with
         | [] => (.err (.plain "empty application"), st1)
         | fv :: vs =>
           match fv with
           | .fn params body fenv _ _ =>
             (match bindParams params vs with
              | .error e =>
                (match e with
                 | .lisp (.goerr m) _ => (.err (.lisp (.goerr (m ++ " (around do)")) none), st1)
                 | e => (.err (newLispError e body), st1))
              | .ok data => evalLoop (F+1) (st1.newScope fenv data).1 (st1.newScope fenv data).2 body d)
           | .builtin name =>
             (match callBuiltin (F+1) st1 name vs d with
              | (.ok v, st2) => (.ok v, st2)
              | (.err e, st2) => (.err (newLispError e (.list (f :: args) pos)), st2)
              | (.oof, st2) => (.oof, st2))
           | _ => (.err (.lisp (.goerr "attempt to call non-function") none), st1))
      | (.err e, st1) => (.err e, st1)
      | (.oof, st1) => (.oof, st1) := by
  obtain ⟨hp, hme⟩ := reach_dispatch (F := F) (d := d) (pos := pos) (ops := args) hc hm
  rw [evalLoop_app hp hme hsf]
  rcases hx : evalList (F+1) (tick st) env (f :: args) d with ⟨r, st1⟩
  have hs1 : st1.stepper = none := (stepper_none_preserved (F+1)).evalList hx (by simpa using hs)
  cases r with
  | err e => rfl
  | oof => rfl
  | ok el =>
    dsimp only
    cases el with
    | nil => rfl
    | cons fv vs =>
      dsimp only
      cases fv <;> try rfl
      rename_i params body fenv m fp
      dsimp only
      cases hb : bindParams params vs with
      | error e => rfl
      | ok data =>
        dsimp only
        rw [continueWith_of_stepper_none (by simpa [State.newScope] using hs1)]

theorem eval_apply_closure (hc : st.cancelAt = none) (hs : st.stepper = none) {f : Val} {args : List Val}
    (hm : HeadNotMacro st env f) (hsf : a0sym f ∉ specialForms)
    {params body : Val} {fenv : Nat} {m : Bool} {fp : Option Pos} {vs : List Val} {st1 : State}
    {data : List (String × Val)}
    (hargs : evalList (F+1) (tick st) env (f :: args) d = (.ok (.fn params body fenv m fp :: vs), st1))
    (hbind : bindParams params vs = .ok data) :
    evalLoop (F+2) st env (.list (f :: args) pos) d =
      evalLoop (F+1) (st1.newScope fenv data).1 (st1.newScope fenv data).2 body d := by
  rw [eval_application hc hs args hm hsf, hargs]; simp only [hbind]

theorem eval_apply_closure_arity_error (hc : st.cancelAt = none) (hs : st.stepper = none) {f : Val}
    {args : List Val} (hm : HeadNotMacro st env f) (hsf : a0sym f ∉ specialForms)
    {params body : Val} {fenv : Nat} {m : Bool} {fp : Option Pos} {vs : List Val} {st1 : State} {msg : String}
    {ep : Option Pos}
    (hargs : evalList (F+1) (tick st) env (f :: args) d = (.ok (.fn params body fenv m fp :: vs), st1))
    (hbind : bindParams params vs = .error (.lisp (.goerr msg) ep)) :
    evalLoop (F+2) st env (.list (f :: args) pos) d =
      (.err (.lisp (.goerr (msg ++ " (around do)")) none), st1) := by
  rw [eval_application hc hs args hm hsf, hargs]; simp only [hbind]

theorem eval_apply_builtin (hc : st.cancelAt = none) (hs : st.stepper = none) {f : Val} {args : List Val}
    (hm : HeadNotMacro st env f) (hsf : a0sym f ∉ specialForms)
    {name : String} {vs : List Val} {st1 : State}
    (hargs : evalList (F+1) (tick st) env (f :: args) d = (.ok (.builtin name :: vs), st1)) :
    evalLoop (F+2) st env (.list (f :: args) pos) d =
      match callBuiltin (F+1) st1 name vs d with
      | (.ok v, st2) => (.ok v, st2)
      | (.err e, st2) => (.err (newLispError e (.list (f :: args) pos)), st2)
      | (.oof, st2) => (.oof, st2) := by
  rw [eval_application hc hs args hm hsf, hargs]

theorem eval_non_callable_head_errors (hc : st.cancelAt = none) (hs : st.stepper = none) {f : Val}
    {args : List Val} (hm : HeadNotMacro st env f) (hsf : a0sym f ∉ specialForms)
    {fv : Val} {vs : List Val} {st1 : State}
    (hargs : evalList (F+1) (tick st) env (f :: args) d = (.ok (fv :: vs), st1))
    (hnf : ∀ ps b e m p, fv ≠ .fn ps b e m p) (hnb : ∀ n, fv ≠ .builtin n) :
    evalLoop (F+2) st env (.list (f :: args) pos) d =
      (.err (.lisp (.goerr "attempt to call non-function") none), st1) := by
  rw [eval_application hc hs args hm hsf, hargs]
  cases fv <;> first | rfl | exact absurd rfl (hnf _ _ _ _ _) | exact absurd rfl (hnb _)

theorem eval_args_error (hc : st.cancelAt = none) (hs : st.stepper = none) {f : Val}
    {args : List Val} (hm : HeadNotMacro st env f) (hsf : a0sym f ∉ specialForms) {e : Err} {st1 : State}
    (hargs : evalList (F+1) (tick st) env (f :: args) d = (.err e, st1)) :
    evalLoop (F+2) st env (.list (f :: args) pos) d = (.err e, st1) := by
  rw [eval_application hc hs args hm hsf, hargs]

/-- the builtins that do not need the evaluator are applied to the values, in the state the arguments
    left, and do not touch the state -/
theorem callBuiltin_pure (st1 : State) {name : String} (vs : List Val)
    (hn : name ∉ ["trace!", "depth!", "eval", "apply", "map", "atom", "deref", "reset!", "swap!", "update",
      "update-in"]) :
    callBuiltin (F+1) st1 name vs d =
      match Core.call name vs with
      | some (.ok v) => (.ok v, st1)
      | some (.thrown v) => (.err (.lisp v none), st1)
      | some (.goerr m) => (.err (.lisp (.goerr m) none), st1)
      | none => (.err (.lisp (.goerr ("unmodelled builtin " ++ name)) none), st1) := by
  simp only [List.mem_cons, List.not_mem_nil, or_false, not_or] at hn
  obtain ⟨h1, h2, h3, h4, h5, h6, h7, h8, h9, h10, h11⟩ := hn
  unfold callBuiltin
  simp only [h1, h2, h3, h4, h5, h6, h7, h8, h9, h10, h11, if_false]
  rfl

theorem callBuiltin_trace (st1 : State) (v : Val) :
    callBuiltin (F+1) st1 "trace!" [v] d = (.ok v, { st1 with trace := v :: st1.trace }) := by
  unfold callBuiltin; rfl

/-- effect order of a call: the trace after the call is
    `effects(call itself) ++ effects(aₙ) ++ … ++ effects(a₁) ++ effects(head) ++ old trace`
    (most recent first), each argument form contributing exactly one segment -/
theorem args_effects_in_order (hc : st.cancelAt = none) (hs : st.stepper = none) {f : Val} {args : List Val}
    (hm : HeadNotMacro st env f) (hsf : a0sym f ∉ specialForms) {r : Res Val} {st' : State}
    {el : List Val} {st1 : State}
    (hargs : evalList (F+1) (tick st) env (f :: args) d = (.ok el, st1))
    (h : evalLoop (F+2) st env (.list (f :: args) pos) d = (r, st')) :
    ∃ (ts : List (List Val)) (tcall : List Val),
      ArgRun env d (F+1) (tick st) (f :: args) el ts st1 ∧ ts.length = args.length + 1 ∧
      st1.trace = ts.reverse.flatten ++ st.trace ∧
      st'.trace = tcall ++ ts.reverse.flatten ++ st.trace := by
  obtain ⟨ts, hts⟩ := evalList_ok_iff.mp hargs
  have h1 : st1.trace = ts.reverse.flatten ++ st.trace := by rw [argRun_trace_eq hts]; rfl
  have hs1 : st1.stepper = none := (stepper_none_preserved (F+1)).evalList hargs (by simpa using hs)
  rw [eval_application hc hs args hm hsf, hargs] at h
  refine ⟨ts, ?_⟩
  suffices hsuf : ∃ tcall, st'.trace = tcall ++ st1.trace by
    obtain ⟨tcall, ht⟩ := hsuf
    exact ⟨tcall, hts, by simpa using (argRun_length_eq hts).2, h1, by rw [ht, h1, List.append_assoc]⟩
  dsimp only at h
  cases el with
  | nil => cases h; exact ⟨[], rfl⟩
  | cons fv vs =>
    dsimp only at h
    cases fv <;> try (cases h; exact ⟨[], rfl⟩)
    · rename_i params body fenv m fp
      dsimp only at h
      cases hb : bindParams params vs with
      | error e =>
        rw [hb] at h; dsimp only at h
        split at h <;> (cases h; exact ⟨[], rfl⟩)
      | ok data =>
        rw [hb] at h; dsimp only at h
        obtain ⟨t, ht⟩ := (trace_suffix (F+1)).evalLoop h
        exact ⟨t, ht⟩
    · rename_i name
      dsimp only at h
      rcases hcb : callBuiltin (F+1) st1 name vs d with ⟨rb, sb⟩
      rw [hcb] at h
      obtain ⟨t, ht⟩ := (trace_suffix (F+1)).callBuiltin hcb
      cases rb <;> (cases h; exact ⟨t, ht⟩)

end laws

/-! ### parameter binding -/

theorem bindLoop_exact (nps : List (String × Option Pos)) (hamp : ∀ np ∈ nps, np.1 ≠ "&") :
    ∀ (args : List Val) (nb ne : Nat) (acc : List (String × Val)), args.length = nps.length →
      bindLoop (mkParams nps) args nb ne acc = .ok (bindFixed (nps.map (·.1)) args acc) := by
  induction nps with
  | nil =>
    intro args nb ne acc hl
    cases args with
    | nil => simp [mkParams, bindLoop, bindFixed]
    | cons a as => cases hl
  | cons np nps ih =>
    intro args nb ne acc hl
    obtain ⟨n, p⟩ := np
    have hn : n ≠ "&" := hamp (n, p) (List.mem_cons_self ..)
    cases args with
    | nil => cases hl
    | cons a as =>
      simp only [mkParams, List.map_cons]
      rw [bindLoop.eq_5 _ _ _ _ _ _ _ _ hn]
      exact ih (fun np h => hamp np (List.mem_cons_of_mem _ h)) as nb ne _ (by simpa using hl)

theorem bindLoop_too_few (nps : List (String × Option Pos)) (hamp : ∀ np ∈ nps, np.1 ≠ "&") :
    ∀ (args : List Val) (nb ne : Nat) (acc : List (String × Val)), args.length < nps.length →
      ∃ msg, bindLoop (mkParams nps) args nb ne acc = .error (.lisp (.goerr msg) none) := by
  induction nps with
  | nil => intro args nb ne acc hl; cases hl
  | cons np nps ih =>
    intro args nb ne acc hl
    obtain ⟨n, p⟩ := np
    have hn : n ≠ "&" := hamp (n, p) (List.mem_cons_self ..)
    cases args with
    | nil => simp only [mkParams, List.map_cons]; rw [bindLoop.eq_4 _ _ _ _ _ _ hn]; exact ⟨_, rfl⟩
    | cons a as =>
      simp only [mkParams, List.map_cons]
      rw [bindLoop.eq_5 _ _ _ _ _ _ _ _ hn]
      exact ih (fun np h => hamp np (List.mem_cons_of_mem _ h)) as nb ne _ (by simpa using hl)

theorem bindLoop_too_many (nps : List (String × Option Pos)) (hamp : ∀ np ∈ nps, np.1 ≠ "&") :
    ∀ (args : List Val) (nb ne : Nat) (acc : List (String × Val)), nps.length < args.length →
      ∃ msg, bindLoop (mkParams nps) args nb ne acc = .error (.lisp (.goerr msg) none) := by
  induction nps with
  | nil =>
    intro args nb ne acc hl
    cases args with
    | nil => cases hl
    | cons a as => simp only [mkParams, List.map_nil]; rw [bindLoop.eq_1]; exact ⟨_, rfl⟩
  | cons np nps ih =>
    intro args nb ne acc hl
    obtain ⟨n, p⟩ := np
    have hn : n ≠ "&" := hamp (n, p) (List.mem_cons_self ..)
    cases args with
    | nil => cases hl
    | cons a as =>
      simp only [mkParams, List.map_cons]
      rw [bindLoop.eq_5 _ _ _ _ _ _ _ _ hn]
      exact ih (fun np h => hamp np (List.mem_cons_of_mem _ h)) as nb ne _ (by simpa using hl)

theorem bindLoop_rest (nps : List (String × Option Pos)) (hamp : ∀ np ∈ nps, np.1 ≠ "&")
    (pa : Option Pos) (r : String) (pr : Option Pos) (junk : List Val) :
    ∀ (args : List Val) (nb ne : Nat) (acc : List (String × Val)), nps.length ≤ args.length →
      bindLoop (mkParams nps ++ .sym "&" pa :: .sym r pr :: junk) args nb ne acc =
        .ok (ainsert r (.list (args.drop nps.length) none) (bindFixed (nps.map (·.1)) args acc)) := by
  induction nps with
  | nil =>
    intro args nb ne acc _
    simp only [mkParams, List.map_nil, List.nil_append, List.length_nil, List.drop_zero]
    rw [bindLoop.eq_2]
    cases args <;> rfl
  | cons np nps ih =>
    intro args nb ne acc hl
    obtain ⟨n, p⟩ := np
    have hn : n ≠ "&" := hamp (n, p) (List.mem_cons_self ..)
    cases args with
    | nil => cases hl
    | cons a as =>
      simp only [mkParams, List.map_cons, List.cons_append]
      rw [bindLoop.eq_5 _ _ _ _ _ _ _ _ hn]
      exact ih (fun np h => hamp np (List.mem_cons_of_mem _ h)) as nb ne _ (by simpa using hl)

/-- exactly as many arguments as (fixed) parameters: bound positionally -/
theorem bindParams_exact (nps : List (String × Option Pos)) (hamp : ∀ np ∈ nps, np.1 ≠ "&") (pp : Option Pos)
    (args : List Val) (hl : args.length = nps.length) :
    bindParams (.list (mkParams nps) pp) args = .ok (bindFixed (nps.map (·.1)) args []) ∧
    bindParams (.vec (mkParams nps) pp) args = .ok (bindFixed (nps.map (·.1)) args []) :=
  ⟨bindLoop_exact nps hamp args _ _ [] hl, bindLoop_exact nps hamp args _ _ [] hl⟩

/-- too few arguments: an error -/
theorem bindParams_too_few (nps : List (String × Option Pos)) (hamp : ∀ np ∈ nps, np.1 ≠ "&") (pp : Option Pos)
    (args : List Val) (hl : args.length < nps.length) :
    (∃ msg, bindParams (.list (mkParams nps) pp) args = .error (.lisp (.goerr msg) none)) ∧
    (∃ msg, bindParams (.vec (mkParams nps) pp) args = .error (.lisp (.goerr msg) none)) :=
  ⟨bindLoop_too_few nps hamp args _ _ [] hl, bindLoop_too_few nps hamp args _ _ [] hl⟩

/-- too many arguments: an error -/
theorem bindParams_too_many (nps : List (String × Option Pos)) (hamp : ∀ np ∈ nps, np.1 ≠ "&") (pp : Option Pos)
    (args : List Val) (hl : nps.length < args.length) :
    (∃ msg, bindParams (.list (mkParams nps) pp) args = .error (.lisp (.goerr msg) none)) ∧
    (∃ msg, bindParams (.vec (mkParams nps) pp) args = .error (.lisp (.goerr msg) none)) :=
  ⟨bindLoop_too_many nps hamp args _ _ [] hl, bindLoop_too_many nps hamp args _ _ [] hl⟩

/-- `&`: the fixed parameters positionally, the remaining arguments as a list under the rest name -/
theorem bindParams_rest (nps : List (String × Option Pos)) (hamp : ∀ np ∈ nps, np.1 ≠ "&")
    (pa : Option Pos) (r : String) (pr : Option Pos) (junk : List Val) (pp : Option Pos)
    (args : List Val) (hl : nps.length ≤ args.length) :
    bindParams (.list (mkParams nps ++ .sym "&" pa :: .sym r pr :: junk) pp) args =
      .ok (ainsert r (.list (args.drop nps.length) none) (bindFixed (nps.map (·.1)) args [])) ∧
    bindParams (.vec (mkParams nps ++ .sym "&" pa :: .sym r pr :: junk) pp) args =
      .ok (ainsert r (.list (args.drop nps.length) none) (bindFixed (nps.map (·.1)) args [])) :=
  ⟨bindLoop_rest nps hamp pa r pr junk args _ _ [] hl, bindLoop_rest nps hamp pa r pr junk args _ _ [] hl⟩

end Proofs.EvalLaws
end LispModel

/-
  C09 proofs, part 5: every access to `Val` / `version` happens under the atom's lock; hence no two
  conflicting accesses are ever simultaneously enabled (data-race freedom of the fixed programs).
-/
import LispModel.Proofs.ConcAtomInv
namespace LispModel.Proofs.ConcAtom
open LispModel.Conc

def accessTable : Bool :=
  atomNames.all fun n => (List.range (prog n).length).all fun pc =>
    match (prog n)[pc]? with
    | some (.write _) => holdsWAt n pc
    | some (.read _) => holdsWAt n pc || holdsRAt n pc
    | _ => true

theorem accessTable_true : accessTable = true := by decide

theorem LockInv.access_guarded {s : State} (h : LockInv s) {t a : Nat} {l : Loc} {w : Bool}
    (hacc : nextAccess prog s t = some (a, l, w)) :
    (w = true → (s.atoms a).w = some t) ∧ (w = false → (s.atoms a).w = some t ∨ t ∈ (s.atoms a).r) := by
  unfold nextAccess at hacc
  split at hacc
  · cases hacc
  · rename_i fr rest hst
    have hwfs := h.wf t
    rw [hst] at hwfs
    have hwf := hwfs.1
    split at hacc
    · cases hacc
    · rename_i hnr
      have hnr : fr.returning = false := by simpa using hnr
      unfold FrameWF at hwf
      simp only [hnr] at hwf
      have htab := accessTable_true
      unfold accessTable at htab
      rw [List.all_eq_true] at htab
      have h1 := htab _ (name_mem fr.op)
      rw [List.all_eq_true] at h1
      have h2 := h1 fr.pc (List.mem_range.mpr hwf.1)
      split at hacc
      · rename_i l' hm
        cases hacc
        rw [hm] at h2
        refine ⟨(by intro hh; cases hh), fun _ => ?_⟩
        simp only [Bool.or_eq_true] at h2
        rcases h2 with h2 | h2
        · exact Or.inl ((h.top_w hst _).mpr ⟨rfl, by simp [holdsW, hnr, h2]⟩)
        · exact Or.inr ((h.top_r hst _).mpr ⟨rfl, by simp [holdsR, hnr, h2]⟩)
      · rename_i l' hm
        cases hacc
        rw [hm] at h2
        refine ⟨fun _ => ?_, (by intro hh; cases hh)⟩
        exact (h.top_w hst _).mpr ⟨rfl, by simp [holdsW, hnr, h2]⟩
      · cases hacc

/-- data-race freedom: two different threads are never both about to access the same location of
    the same atom with one of them writing -/
theorem LockInv.no_race {s : State} (h : LockInv s) (t u : Nat) : raceAt prog s t u = false := by
  unfold raceAt
  by_cases htu : t = u
  · simp [htu]
  · cases hat : nextAccess prog s t with
    | none => simp
    | some x =>
      obtain ⟨a, l, w⟩ := x
      cases hau : nextAccess prog s u with
      | none => simp
      | some y =>
        obtain ⟨b, k, x⟩ := y
        have gt := h.access_guarded hat
        have gu := h.access_guarded hau
        by_cases hab : a = b
        · subst hab
          have key : (w || x) = false := by
            cases w <;> cases x
            · rfl
            · -- t reads, u writes
              have hwu := gu.1 rfl
              rcases gt.2 rfl with h1 | h1
              · rw [hwu] at h1; cases h1; exact absurd rfl htu
              · have := h.excl a (by rw [hwu]; simp); rw [this] at h1; cases h1
            · have hwt := gt.1 rfl
              rcases gu.2 rfl with h1 | h1
              · rw [hwt] at h1; cases h1; exact absurd rfl htu
              · have := h.excl a (by rw [hwt]; simp); rw [this] at h1; cases h1
            · have hwt := gt.1 rfl
              have hwu := gu.1 rfl
              rw [hwt] at hwu; cases hwu; exact absurd rfl htu
          simp [key]
        · simp [hab]

end LispModel.Proofs.ConcAtom

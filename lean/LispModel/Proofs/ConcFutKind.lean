/-
  C10 proofs: the shapes a step of the future system can take.
-/
import LispModel.ConcFut
namespace LispModel.Proofs.ConcFut
open LispModel.Conc LispModel.Conc.Fut

/-- one step of a frame, classified -/
inductive FrameStep (code : OpName → Program) (o : Owner) (arm : Nat) (ctxEnded : Bool) (fr : FFrame) (F : FutS) :
    (FFrame ⊕ FFrame) × FutS → Prop
  | mop (m : MOp) (fr' : FFrame) (F' : FutS) (hnr : fr.returning = false)
      (hm : (code fr.name)[fr.pc]? = some m) (hex : execF o arm ctxEnded m fr F = some (fr', F')) :
      FrameStep code o arm ctxEnded fr F (.inl fr', F')
  | defer (d : MOp) (ds : List MOp) (fr1 : FFrame) (F' : FutS) (hr : fr.returning = true)
      (hd : fr.defers = d :: ds) (hex : execF o arm ctxEnded d { fr with defers := ds } F = some (fr1, F')) :
      FrameStep code o arm ctxEnded fr F (.inl { fr1 with pc := fr.pc }, F')
  | ret (hr : fr.returning = true) (hd : fr.defers = []) :
      FrameStep code o arm ctxEnded fr F (.inr fr, F)

theorem stepFrame_kind {code o arm ce fr F r} (h : stepFrame code o arm ce fr F = some r) :
    FrameStep code o arm ce fr F r := by
  unfold stepFrame at h
  split at h
  · rename_i hr
    split at h
    · rename_i d ds hd
      simp only [Option.map_eq_some_iff] at h
      obtain ⟨⟨fr1, F'⟩, hex, h⟩ := h
      cases h
      exact .defer d ds fr1 F' hr hd hex
    · rename_i hd
      cases h
      exact .ret hr hd
  · rename_i hnr
    have hnr : fr.returning = false := by simpa using hnr
    split at h
    · cases h
    · rename_i m hm
      simp only [Option.map_eq_some_iff] at h
      obtain ⟨⟨fr', F'⟩, hex, h⟩ := h
      cases h
      exact .mop m fr' F' hnr hm hex

inductive FKind (code : OpName → Program) (s : FState) : Label → FState → Prop
  | endCtx (t : Nat) :
      FKind code s (.endCtx t) { s with threads := upd s.threads t { s.threads t with ctxEnded := true } }
  | bodyStep (f : Nat) (fr fr' : FFrame) (F' : FutS) (hb : (s.futs f).body = some fr)
      (hk : FrameStep code (.body f) 0 false fr (s.futs f) (.inl fr', F')) :
      FKind code s (.body f) { s with futs := upd s.futs f { F' with body := some fr' } }
  | bodyRet (f : Nat) (fr fr' : FFrame) (F' : FutS) (hb : (s.futs f).body = some fr)
      (hk : FrameStep code (.body f) 0 false fr (s.futs f) (.inr fr', F')) :
      FKind code s (.body f) { s with futs := upd s.futs f { F' with body := none } }
  | start (t arm : Nat) (op : FOp) (more : List FOp) (hc : (s.threads t).cur = none)
      (htd : (s.threads t).todo = op :: more) :
      FKind code s (.thr t arm)
        { s with threads := upd s.threads t { s.threads t with cur := some op.frame, todo := more } }
  | thrStep (t arm : Nat) (fr fr' : FFrame) (F' : FutS) (hc : (s.threads t).cur = some fr)
      (hk : FrameStep code (.thr t) arm (s.threads t).ctxEnded fr (s.futs fr.fut) (.inl fr', F')) :
      FKind code s (.thr t arm)
        { futs := upd s.futs fr.fut F', threads := upd s.threads t { s.threads t with cur := some fr' } }
  | thrRet (t arm : Nat) (fr fr' : FFrame) (F' : FutS) (hc : (s.threads t).cur = some fr)
      (hk : FrameStep code (.thr t) arm (s.threads t).ctxEnded fr (s.futs fr.fut) (.inr fr', F')) :
      FKind code s (.thr t arm)
        { futs := upd s.futs fr.fut F',
          threads := upd s.threads t { s.threads t with cur := none, out := (s.threads t).out ++ [(fr'.name, fr'.fut, fr'.resp)] } }

theorem fstep_kind {code : OpName → Program} {s s' : FState} {l : Label} (h : fstep code s l = some s') :
    FKind code s l s' := by
  cases l with
  | endCtx t => simp [fstep] at h; subst h; exact .endCtx t
  | body f =>
    simp only [fstep] at h
    split at h
    · cases h
    · rename_i fr hb
      simp only [Option.map_eq_some_iff] at h
      obtain ⟨⟨r, F'⟩, hsf, h⟩ := h
      have hk := stepFrame_kind hsf
      cases r with
      | inl fr' => simp at h; subst h; exact .bodyStep f fr fr' F' hb hk
      | inr fr' => simp at h; subst h; exact .bodyRet f fr fr' F' hb hk
  | thr t arm =>
    simp only [fstep] at h
    split at h
    · rename_i hc
      split at h
      · cases h
      · rename_i op more htd
        cases h
        exact .start t arm op more hc htd
    · rename_i fr hc
      simp only [Option.map_eq_some_iff] at h
      obtain ⟨⟨r, F'⟩, hsf, h⟩ := h
      have hk := stepFrame_kind hsf
      cases r with
      | inl fr' => simp at h; subst h; exact .thrStep t arm fr fr' F' hc hk
      | inr fr' => simp at h; subst h; exact .thrRet t arm fr fr' F' hc hk

end LispModel.Proofs.ConcFut

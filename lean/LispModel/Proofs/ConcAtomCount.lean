/-
  C09 proofs, part 13: every successful `swap! inc` accounts for exactly one install event (per thread),
  and the installs of all threads add up: no update is lost.
-/
import LispModel.Proofs.ConcAtomInc
namespace LispModel.Proofs.ConcAtom
open LispModel.Conc

def evTid : LinEv → Nat
  | .read t _ _ => t | .set t _ _ => t | .cas t _ _ _ => t | .failed t _ => t

/-- installs on atom `a` performed by thread `t` -/
def casBy (t a : Nat) : List LinEv → Nat
  | [] => 0
  | .cas u b _ _ :: l => (if u = t ∧ b = a then 1 else 0) + casBy t a l
  | _ :: l => casBy t a l

theorem casBy_append (t a : Nat) (l1 l2 : List LinEv) : casBy t a (l1 ++ l2) = casBy t a l1 + casBy t a l2 := by
  induction l1 with
  | nil => simp [casBy]
  | cons e es ih => cases e <;> simp [casBy, ih]; omega

theorem casBy_other {t a : Nat} {l : List LinEv} (h : ∀ e ∈ l, evTid e ≠ t) : casBy t a l = 0 := by
  induction l with
  | nil => rfl
  | cons e es ih =>
    have h1 := h e (by simp)
    have h2 := ih (fun e he => h e (by simp [he]))
    cases e <;> simp_all [casBy, evTid]

/-- successful responses of operations on atom `a` -/
def okOn (a : Nat) (out : List (AOp × Option Nat)) : Nat :=
  (out.filter fun e => decide (e.1.atom = a) && e.2.isSome).length

/-- 1 iff the (single) frame is a swap! on `a` that has installed and not yet returned -/
def installedOn (a : Nat) : List Frame → Nat
  | [fr] => if fr.op.atom = a ∧ (fr.returning = true ∨ (8 ≤ fr.pc ∧ fr.pc ≤ 10)) then 1 else 0
  | _ => 0

theorem linOf_tid {t : Nat} {m : MOp} {fr : Frame} {A : AtomS} : ∀ e ∈ linOf t m fr A, evTid e = t := by
  intro e he
  unfold linOf at he
  split at he <;> simp at he <;> subst he <;> rfl

/-- the events a step appends are events of the stepping thread -/
theorem step_lin {s s' : State} {u : Nat} (hs : step prog s u = some s') :
    ∃ ev, s'.lin = s.lin ++ ev ∧ ∀ e ∈ ev, evTid e = u := by
  have hk := step_kind hs
  cases hk with
  | start op more hst htd => exact ⟨[], by simp, by simp⟩
  | finish fr hst hr hd => exact ⟨[], by simp, by simp⟩
  | mop fr rest m fr' A' hst hnr hm hcb hex => exact ⟨_, rfl, linOf_tid⟩
  | defer fr rest d ds fr1 A' hst hr hd hex => exact ⟨[], rfl, by simp⟩
  | popOk fr par rest' v hst hr hd hv => exact ⟨[], rfl, by simp⟩
  | popFail fr par rest' hst hr hd hv => exact ⟨_, rfl, by simp [evTid]⟩
  | cbApp fr rest a f hst hnr hm hop => exact ⟨[], rfl, by simp⟩
  | cbFail fr rest a hst hnr hm hop => exact ⟨_, rfl, by simp [evTid]⟩
  | cbDeref fr rest a b hst hnr hm hop => exact ⟨[], rfl, by simp⟩
  | cbSwap fr rest a b g hst hnr hm hop => exact ⟨[], rfl, by simp⟩

/-- per thread: installs = successful responses + (1 if the running swap! has installed already) -/
def MatchInv (s : State) : Prop :=
  ∀ t a, casBy t a s.lin = okOn a (s.threads t).out + installedOn a (s.threads t).stack

def instAt (pc : Nat) (ret : Bool) : Bool := ret || (decide (8 ≤ pc) && decide (pc ≤ 10))

def instEntry (n : OpName) (pc : Nat) (m : MOp) : Bool :=
  (ctl m pc (defersAt n pc)).all fun (pc', _, ret') =>
    n != .swap || m == .callback ||
      (if m == .write .val then (!instAt pc false && instAt pc' ret') else (instAt pc' ret' == instAt pc false))

theorem instTable_true : forAllOps instEntry = true := by decide

theorem installedOn_single (a : Nat) (fr : Frame) :
    installedOn a [fr] = if fr.op.atom = a ∧ instAt fr.pc fr.returning = true then 1 else 0 := by
  simp only [installedOn, instAt, Bool.or_eq_true, Bool.and_eq_true, decide_eq_true_eq]

theorem MatchInv.step {s s' : State} {u : Nat} (h : MatchInv s) (hI : IncInv s) (hL : LockInv s)
    (hs : step prog s u = some s') : MatchInv s' := by
  intro t a
  by_cases htu : t = u
  · subst htu
    have h0 := h t a
    have hk := step_kind hs
    rcases hI.stack t with hempty | ⟨fr0, hst0, hinc0, hfail0, -⟩
    · cases hk with
      | start op more hst htd =>
        obtain ⟨b, hb⟩ := hI.todo t op (by rw [htd]; simp)
        subst hb
        simp only [upd, if_true] at h0 ⊢
        rw [hempty] at h0
        simpa [installedOn, Frame.new] using h0
      | _ => simp_all
    · have hn0 := isInc_name hinc0
      have hwf := hL.wf t
      rw [hst0] at hwf
      have hwf0 := hwf.1
      rw [hst0, installedOn_single] at h0
      cases hk with
      | start op more hst htd => rw [hst0] at hst; cases hst
      | popOk fr par rest' v hst hr hd hv => rw [hst0] at hst; cases hst
      | popFail fr par rest' hst hr hd hv => rw [hst0] at hst; cases hst
      | cbFail fr rest b hst hnr hm hop =>
        rw [hst0] at hst; cases hst; obtain ⟨a', ha'⟩ := hinc0; rw [ha'] at hop; cases hop
      | cbDeref fr rest b c hst hnr hm hop =>
        rw [hst0] at hst; cases hst; obtain ⟨a', ha'⟩ := hinc0; rw [ha'] at hop; cases hop
      | cbSwap fr rest b c g hst hnr hm hop =>
        rw [hst0] at hst; cases hst; obtain ⟨a', ha'⟩ := hinc0; rw [ha'] at hop; cases hop
      | defer fr rest d ds fr1 A' hst hr hd hex =>
        rw [hst0] at hst; cases hst
        exfalso
        unfold FrameWF at hwf0
        simp only [hr, if_true, hn0, defersAt] at hwf0
        rcases hwf0 with h1 | ⟨h1, -⟩ <;> rw [hd] at h1 <;> cases h1
      | finish fr hst hr hd =>
        rw [hst0] at hst; cases hst
        simp only [upd, if_true, installedOn, Nat.add_zero]
        rw [h0]
        simp only [instAt, hr, Bool.true_or, and_true]
        unfold okOn
        rw [List.filter_append, List.length_append]
        simp [Frame.retval, hfail0]
        obtain ⟨b, hb⟩ := hinc0
        rw [hb]
        by_cases hba : b = a <;> simp [AOp.atom, hba]
      | cbApp fr rest b f hst hnr hm hop =>
        rw [hst0] at hst; cases hst
        obtain ⟨-, hpc⟩ := callback_pc (name_mem fr0.op) hm
        simp only [State.setTop, upd, if_true, List.append_nil]
        rw [h0, installedOn_single]
        simp [instAt, hnr, hpc]
      | mop fr rest m fr' A' hst hnr hm hcb hex =>
        rw [hst0] at hst; cases hst
        have hop := (execM_eff hex).1
        obtain ⟨hctl, -⟩ := execM_ctl hex hnr
        unfold FrameWF at hwf0
        simp only [hnr] at hwf0
        rw [hwf0.2.1] at hctl
        have tab := forAllOps_spec instTable_true (name_mem fr0.op) hm
        unfold instEntry at tab
        rw [List.all_eq_true] at tab
        have tab := tab _ hctl
        simp only [hn0, bne_self_eq_false, Bool.false_or, Bool.or_eq_true, beq_iff_eq] at tab
        rcases tab with hc | tab
        · exact absurd hc hcb
        simp only [State.setTop, upd, if_true]
        rw [casBy_append, h0, installedOn_single, hop]
        obtain ⟨b, hb⟩ := hinc0
        by_cases hw : m = .write .val
        · subst hw
          simp only [beq_self_eq_true, if_true, Bool.and_eq_true, Bool.not_eq_true'] at tab
          rw [hnr, tab.1, tab.2]
          simp only [linOf, hb, casBy, AOp.atom]
          by_cases hba : b = a <;> simp [hba]
        · have hwb : (m == MOp.write Loc.val) = false := by simpa using hw
          simp only [hw, if_false, beq_iff_eq] at tab
          have hl : linOf t m fr0 (s.atoms fr0.op.atom) = [] := by
            unfold linOf
            rw [hb]
            split <;> simp_all
          rw [hl, hnr, tab]
          simp [casBy]
  · obtain ⟨ev, hlin, htid⟩ := step_lin hs
    have hz : casBy t a ev = 0 := casBy_other (fun e he => by rw [htid e he]; exact fun hh => htu hh.symm)
    rw [hlin, casBy_append, hz, step_other_thread hs htu]
    exact h t a

end LispModel.Proofs.ConcAtom

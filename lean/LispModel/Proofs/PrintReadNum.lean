/-
  C06, scanner level: `Scan.scanNumber` cut into its phases (prefix, integer digits, fraction,
  exponent and checks), so that each phase can be reasoned about separately.  Core Lean only.
-/
import LispModel.Scan
import LispModel.Proofs.PrintReadSim
namespace LispModel.Proofs.PrintRead
open LispModel LispModel.Scan

/-- base prefix: `(base, prefix, digsep, state)` -/
def numPre (rest : List Rune) (ch : Int) (p : PState) : Nat × Int × Nat × Int × List Rune × PState :=
  if ch = 48 then
    let (c, r, q) := next rest p
    if lower c = 120 then let (c2, r2, q2) := next r q; (16, (120 : Int), 0, c2, r2, q2)
    else if lower c = 111 then let (c2, r2, q2) := next r q; (8, (111 : Int), 0, c2, r2, q2)
    else if lower c = 98 then let (c2, r2, q2) := next r q; (2, (98 : Int), 0, c2, r2, q2)
    else (8, (48 : Int), 1, c, r, q)
  else if ch = 45 then
    let (c, r, q) := next rest p
    (10, (0 : Int), 0, c, r, q)
  else (10, (0 : Int), 0, ch, rest, p)

/-- integer part: `(tok, base, prefix, digsep, ch, rest, p, seenDot, invalid)` -/
def numA (rest : List Rune) (ch : Int) (p : PState) (seenDot : Bool) :
    Kind × Nat × Int × Nat × Int × List Rune × PState × Bool × Int :=
  if !seenDot then
    let (base, prefx, digsep, ch, rest, p) := numPre rest ch p
    let ((ch, rest, p), ds, inv) := digitsLoop base rest ch p 0 0
    let digsep := digsep ||| ds
    if ch = 46 then
      let (c, r, q) := next rest p
      (Kind.int, base, prefx, digsep, c, r, q, true, inv)
    else (Kind.int, base, prefx, digsep, ch, rest, p, false, inv)
  else (Kind.float, 10, (0 : Int), 0, ch, rest, p, true, (0 : Int))

/-- fractional part: `(tok, digsep, ch, rest, p, invalid)` -/
def numB (tok0 : Kind) (base : Nat) (prefx : Int) (digsep0 : Nat) (ch : Int) (rest : List Rune)
    (p : PState) (seenDot : Bool) (inv : Int) : Kind × Nat × Int × List Rune × PState × Int :=
  if seenDot then
    let p := if prefx = 111 || prefx = 98 then err p else p
    let ((ch, rest, p), ds, inv) := digitsLoop base rest ch p 0 inv
    (Kind.float, digsep0 ||| ds, ch, rest, p, inv)
  else (tok0, digsep0, ch, rest, p, inv)

/-- exponent: `(tok, digsep, ch, rest, p)` -/
def numC (prefx : Int) (tok2 : Kind) (digsep1 : Nat) (ch : Int) (rest : List Rune) (p : PState) :
    Kind × Nat × Int × List Rune × PState :=
  let e := lower ch
  if e = 101 || e = 112 then
    let p := if e = 101 && prefx ≠ 0 && prefx ≠ 48 then err p
             else if e = 112 && prefx ≠ 120 then err p else p
    let (c, r, q) := next rest p
    let (c, r, q) := if c = 43 || c = 45 then next r q else (c, r, q)
    let ((c, r, q), ds, _) := digitsLoop 10 r c q 0 1
    let q := if ds % 2 = 0 then err q else q
    (Kind.float, digsep1 ||| ds, c, r, q)
  else if prefx = 120 && tok2 = Kind.float then (tok2, digsep1, ch, rest, err p)
  else (tok2, digsep1, ch, rest, p)

/-- the final checks -/
def numD (pre : List Int) (restStart : List Rune) (chFirst : Int) (tok3 : Kind) (digsep2 : Nat)
    (ch : Int) (rest : List Rune) (p : PState) (inv : Int) : Kind × St :=
  let p := if tok3 = Kind.int && inv ≠ 0 then err p else p
  let p :=
    if (digsep2 / 2) % 2 = 1 then
      let text := pre ++ (consumed chFirst restStart rest ch).map Int.ofNat
      if invalidSep text then err p else p
    else p
  (tok3, (ch, rest, p))

theorem scanNumber_eq (pre : List Int) (rest : List Rune) (ch : Int) (p : PState) (seenDot negative : Bool) :
    scanNumber pre rest ch p seenDot negative =
      (let (tok0, base, prefx, digsep0, ch1, rest1, p1, seenDot1, inv1) := numA rest ch p seenDot
       let (tok1, digsep1, ch2, rest2, p2, inv2) := numB tok0 base prefx digsep0 ch1 rest1 p1 seenDot1 inv1
       let (tok2, p3) :=
         if digsep1 % 2 = 0 then
           if negative then (Kind.char 45, p2) else (tok1, err p2)
         else (tok1, p2)
       let (tok3, digsep2, ch4, rest4, p4) := numC prefx tok2 digsep1 ch2 rest2 p3
       numD pre rest ch tok3 digsep2 ch4 rest4 p4 inv2) := by
  rfl

/-! ### the phases under `Sim` -/

local macro "triv" : term => `(by first | rfl | trivial)


theorem delim_lower {d : Rune} (hd : IsDelim d) :
    lower (d.ch : Int) ≠ 120 ∧ lower (d.ch : Int) ≠ 111 ∧ lower (d.ch : Int) ≠ 98 ∧
    lower (d.ch : Int) ≠ 101 ∧ lower (d.ch : Int) ≠ 112 := by
  obtain ⟨_, h | h | h | h⟩ := hd <;> rw [h] <;> decide

theorem delim_ne {d : Rune} (hd : IsDelim d) :
    (d.ch : Int) ≠ 48 ∧ (d.ch : Int) ≠ 45 ∧ (d.ch : Int) ≠ 46 ∧ (d.ch : Int) ≠ 43 ∧ ¬ (d.ch : Int) < 0 := by
  obtain ⟨_, h | h | h | h⟩ := hd <;> rw [h] <;> decide

theorem numPre_other (rest : List Rune) (ch : Int) (p : PState) (h1 : ch ≠ 48) (h2 : ch ≠ 45) :
    numPre rest ch p = (10, 0, 0, ch, rest, p) := by
  simp only [numPre, if_neg h1, if_neg h2]

theorem numPre_sim {d : Rune} (hd : IsDelim d) (S : List Rune) (s1 s2 : St) (h : Sim d S s1 s2) :
    (numPre s1.2.1 s1.1 s1.2.2).1 = (numPre s2.2.1 s2.1 s2.2.2).1 ∧
    (numPre s1.2.1 s1.1 s1.2.2).2.1 = (numPre s2.2.1 s2.1 s2.2.2).2.1 ∧
    (numPre s1.2.1 s1.1 s1.2.2).2.2.1 = (numPre s2.2.1 s2.1 s2.2.2).2.2.1 ∧
    Sim d S (numPre s1.2.1 s1.1 s1.2.2).2.2.2 (numPre s2.2.1 s2.1 s2.2.2).2.2.2 := by
  obtain ⟨d48, d45, _, _, _⟩ := delim_ne hd
  obtain ⟨l120, l111, l98, _, _⟩ := delim_lower hd
  cases h with
  | done p1 p2 he =>
    simp only []
    rw [numPre_other _ _ _ (by decide) (by decide), numPre_other _ _ _ d48 d45]
    exact ⟨triv, triv, triv, Sim.done _ _ he⟩
  | sync ch r p1 p2 h0 he =>
    simp only []
    by_cases h48 : ch = 48
    · have hs := next_sim hd S r p1 p2 he
      simp only [numPre, if_pos h48]
      generalize next r p1 = n1 at hs
      generalize next (r ++ d :: S) p2 = n2 at hs
      cases hs with
      | done q1 q2 he' =>
        have e1 : lower EOF ≠ 120 := by decide
        have e2 : lower EOF ≠ 111 := by decide
        have e3 : lower EOF ≠ 98 := by decide
        simp only [if_neg e1, if_neg e2, if_neg e3, if_neg l120, if_neg l111, if_neg l98]
        exact ⟨triv, triv, triv, Sim.done _ _ he'⟩
      | sync c r' q1 q2 h0' he' =>
        simp only []
        have hs2 := next_sim hd S r' q1 q2 he'
        by_cases c1 : lower c = 120
        · simp only [if_pos c1]; exact ⟨triv, triv, triv, hs2⟩
        · simp only [if_neg c1]
          by_cases c2 : lower c = 111
          · simp only [if_pos c2]; exact ⟨triv, triv, triv, hs2⟩
          · simp only [if_neg c2]
            by_cases c3 : lower c = 98
            · simp only [if_pos c3]; exact ⟨triv, triv, triv, hs2⟩
            · simp only [if_neg c3]; exact ⟨triv, triv, triv, Sim.sync _ _ _ _ h0' he'⟩
    · by_cases h45 : ch = 45
      · simp only [numPre, if_neg h48, if_pos h45]
        exact ⟨triv, triv, triv, next_sim hd S r p1 p2 he⟩
      · rw [numPre_other _ _ _ h48 h45, numPre_other _ _ _ h48 h45]
        exact ⟨triv, triv, triv, Sim.sync _ _ _ _ h0 he⟩

/-- a conditional `next` whose test fails on EOF and on the delimiter -/
theorem condNext_sim {d : Rune} (hd : IsDelim d) (S : List Rune) (P : Int → Bool)
    (hE : P EOF = false) (hD : P (d.ch : Int) = false) (s1 s2 : St) (h : Sim d S s1 s2) :
    P s1.1 = P s2.1 ∧
    Sim d S (if P s1.1 = true then next s1.2.1 s1.2.2 else s1) (if P s2.1 = true then next s2.2.1 s2.2.2 else s2) := by
  cases h with
  | done p1 p2 he =>
    simp only [hE, hD, Bool.false_eq_true, if_false]
    exact ⟨trivial, Sim.done _ _ he⟩
  | sync ch r p1 p2 h0 he =>
    refine ⟨rfl, ?_⟩
    simp only []
    by_cases hp : P ch = true
    · rw [if_pos hp, if_pos hp]; exact next_sim hd S r p1 p2 he
    · rw [if_neg hp, if_neg hp]; exact Sim.sync _ _ _ _ h0 he

theorem numA_eq_false (rest : List Rune) (ch : Int) (p : PState) :
    numA rest ch p false =
      (let a := numPre rest ch p
       let b := digitsLoop a.1 a.2.2.2.2.1 a.2.2.2.1 a.2.2.2.2.2 0 0
       let s := if (decide (b.1.1 = 46)) = true then next b.1.2.1 b.1.2.2 else b.1
       (Kind.int, a.1, a.2.1, a.2.2.1 ||| b.2.1, s.1, s.2.1, s.2.2, decide (b.1.1 = 46), b.2.2)) := by
  simp only [numA, Bool.not_false, if_true]
  by_cases h : (digitsLoop (numPre rest ch p).1 (numPre rest ch p).2.2.2.2.1 (numPre rest ch p).2.2.2.1
      (numPre rest ch p).2.2.2.2.2 0 0).1.1 = 46
  · simp only [h, if_true, decide_true]
  · simp only [h, if_false, decide_false, Bool.false_eq_true]

theorem numA_sim {d : Rune} (hd : IsDelim d) (S : List Rune) (sd : Bool) (s1 s2 : St) (h : Sim d S s1 s2) :
    ∃ tok base prefx digsep t1 t2 sd' inv, Sim d S t1 t2 ∧
      numA s1.2.1 s1.1 s1.2.2 sd = (tok, base, prefx, digsep, t1.1, t1.2.1, t1.2.2, sd', inv) ∧
      numA s2.2.1 s2.1 s2.2.2 sd = (tok, base, prefx, digsep, t2.1, t2.2.1, t2.2.2, sd', inv) := by
  cases sd with
  | true => exact ⟨_, _, _, _, s1, s2, _, _, h, rfl, rfl⟩
  | false =>
    rw [numA_eq_false, numA_eq_false]
    obtain ⟨e1, e2, e3, hs⟩ := numPre_sim hd S s1 s2 h
    generalize numPre s1.2.1 s1.1 s1.2.2 = a1 at e1 e2 e3 hs
    generalize numPre s2.2.1 s2.1 s2.2.2 = a2 at e1 e2 e3 hs
    obtain ⟨b1, x1, g1, u1⟩ := a1
    obtain ⟨b2, x2, g2, u2⟩ := a2
    simp only [] at e1 e2 e3 hs
    subst e1 e2 e3
    simp only []
    obtain ⟨hs2, e4⟩ := digitsLoop_sim hd S b1 u1 u2 0 0 hs
    generalize digitsLoop b1 u1.2.1 u1.1 u1.2.2 0 0 = o1 at hs2 e4
    generalize digitsLoop b1 u2.2.1 u2.1 u2.2.2 0 0 = o2 at hs2 e4
    obtain ⟨v1, ds1, i1⟩ := o1
    obtain ⟨v2, ds2, i2⟩ := o2
    simp only [Prod.mk.injEq] at e4 hs2
    obtain ⟨e5, e6⟩ := e4
    subst e5 e6
    obtain ⟨e7, hs3⟩ := condNext_sim hd S (fun c => decide (c = 46)) (by decide)
      (by simp only [decide_eq_false_iff_not]; exact (delim_ne hd).2.2.1) v1 v2 hs2
    dsimp only
    rw [← e7] at hs3 ⊢
    exact ⟨_, _, _, _, _, _, _, _, hs3, rfl, rfl⟩

theorem Sim.errs_eq {d : Rune} {S : List Rune} {s1 s2 : St} (h : Sim d S s1 s2) :
    s1.2.2.errs = s2.2.2.errs := by
  cases h <;> assumption

theorem Sim.setP {d : Rune} {S : List Rune} {s1 s2 : St} (h : Sim d S s1 s2) (q1 q2 : PState)
    (he : q1.errs = q2.errs) : Sim d S (s1.1, s1.2.1, q1) (s2.1, s2.2.1, q2) := by
  cases h with
  | sync ch r p1 p2 h0 _ => exact Sim.sync _ _ _ _ h0 he
  | done p1 p2 _ => exact Sim.done _ _ he

theorem Sim.condErr {d : Rune} {S : List Rune} {s1 s2 : St} (h : Sim d S s1 s2) (c : Prop) [Decidable c] :
    Sim d S (s1.1, s1.2.1, if c then err s1.2.2 else s1.2.2) (s2.1, s2.2.1, if c then err s2.2.2 else s2.2.2) := by
  apply h.setP
  have := h.errs_eq
  split <;> simp [err, this]

theorem numB_sim {d : Rune} (hd : IsDelim d) (S : List Rune) (tok0 : Kind) (base : Nat) (prefx : Int)
    (digsep0 : Nat) (sd : Bool) (inv : Int) (s1 s2 : St) (h : Sim d S s1 s2) :
    ∃ tok digsep t1 t2 inv', Sim d S t1 t2 ∧
      numB tok0 base prefx digsep0 s1.1 s1.2.1 s1.2.2 sd inv = (tok, digsep, t1.1, t1.2.1, t1.2.2, inv') ∧
      numB tok0 base prefx digsep0 s2.1 s2.2.1 s2.2.2 sd inv = (tok, digsep, t2.1, t2.2.1, t2.2.2, inv') := by
  cases sd with
  | false => exact ⟨_, _, s1, s2, _, h, rfl, rfl⟩
  | true =>
    have h' := h.condErr (prefx = 111 || prefx = 98)
    obtain ⟨hs, e⟩ := digitsLoop_sim hd S base _ _ 0 inv h'
    simp only [] at hs e
    simp only [numB, if_true]
    generalize digitsLoop base s1.2.1 s1.1 (if (prefx = 111 || prefx = 98) = true then err s1.2.2 else s1.2.2) 0 inv
      = o1 at hs e
    generalize digitsLoop base s2.2.1 s2.1 (if (prefx = 111 || prefx = 98) = true then err s2.2.2 else s2.2.2) 0 inv
      = o2 at hs e
    obtain ⟨v1, ds1, i1⟩ := o1
    obtain ⟨v2, ds2, i2⟩ := o2
    simp only [Prod.mk.injEq] at e hs
    obtain ⟨e1, e2⟩ := e
    subst e1 e2
    exact ⟨_, _, v1, v2, _, hs, rfl, rfl⟩

theorem numC_exp (prefx : Int) (tok2 : Kind) (digsep1 : Nat) (ch : Int) (rest : List Rune) (p : PState)
    (h : (lower ch = 101 || lower ch = 112) = true) :
    numC prefx tok2 digsep1 ch rest p =
      (let p' := if (lower ch = 101 && prefx ≠ 0 && prefx ≠ 48) = true then err p
                 else if (lower ch = 112 && prefx ≠ 120) = true then err p else p
       let n1 := next rest p'
       let n2 := if (decide (n1.1 = 43) || decide (n1.1 = 45)) = true then next n1.2.1 n1.2.2 else n1
       let b := digitsLoop 10 n2.2.1 n2.1 n2.2.2 0 1
       (Kind.float, digsep1 ||| b.2.1, b.1.1, b.1.2.1, if b.2.1 % 2 = 0 then err b.1.2.2 else b.1.2.2)) := by
  simp only [numC, h, if_true]

theorem numC_noexp (prefx : Int) (tok2 : Kind) (digsep1 : Nat) (ch : Int) (rest : List Rune) (p : PState)
    (h : (lower ch = 101 || lower ch = 112) = false) :
    numC prefx tok2 digsep1 ch rest p =
      (tok2, digsep1, ch, rest, if (prefx = 120 && tok2 = Kind.float) = true then err p else p) := by
  simp only [numC, h, Bool.false_eq_true, if_false]
  split <;> rfl

theorem numC_sim {d : Rune} (hd : IsDelim d) (S : List Rune) (prefx : Int) (tok2 : Kind) (digsep1 : Nat)
    (s1 s2 : St) (h : Sim d S s1 s2) :
    ∃ tok digsep t1 t2, Sim d S t1 t2 ∧
      numC prefx tok2 digsep1 s1.1 s1.2.1 s1.2.2 = (tok, digsep, t1.1, t1.2.1, t1.2.2) ∧
      numC prefx tok2 digsep1 s2.1 s2.2.1 s2.2.2 = (tok, digsep, t2.1, t2.2.1, t2.2.2) := by
  obtain ⟨_, _, _, l101, l112⟩ := delim_lower hd
  have noexp_case : ∀ s1 s2 : St, Sim d S s1 s2 → (lower s1.1 = 101 || lower s1.1 = 112) = false →
      (lower s2.1 = 101 || lower s2.1 = 112) = false →
      ∃ tok digsep t1 t2, Sim d S t1 t2 ∧
        numC prefx tok2 digsep1 s1.1 s1.2.1 s1.2.2 = (tok, digsep, t1.1, t1.2.1, t1.2.2) ∧
        numC prefx tok2 digsep1 s2.1 s2.2.1 s2.2.2 = (tok, digsep, t2.1, t2.2.1, t2.2.2) := by
    intro s1 s2 h a b
    rw [numC_noexp _ _ _ _ _ _ a, numC_noexp _ _ _ _ _ _ b]
    exact ⟨_, _, _, _, h.condErr ((prefx = 120 && tok2 = Kind.float) = true), rfl, rfl⟩
  cases h with
  | done p1 p2 he =>
    exact noexp_case _ _ (Sim.done _ _ he) (by show (lower EOF = 101 || lower EOF = 112) = false; decide)
      (by simp [l101, l112])
  | sync ch r p1 p2 h0 he =>
    by_cases hx : (lower ch = 101 || lower ch = 112) = true
    · simp only []
      rw [numC_exp _ _ _ _ _ _ hx, numC_exp _ _ _ _ _ _ hx]
      have he' : (if (lower ch = 101 && prefx ≠ 0 && prefx ≠ 48) = true then err p1
                 else if (lower ch = 112 && prefx ≠ 120) = true then err p1 else p1).errs =
          (if (lower ch = 101 && prefx ≠ 0 && prefx ≠ 48) = true then err p2
                 else if (lower ch = 112 && prefx ≠ 120) = true then err p2 else p2).errs := by
        split
        · simp [err, he]
        · split <;> simp [err, he]
      have hn1 := next_sim hd S r _ _ he'
      simp only []
      generalize next r _ = n1 at hn1
      generalize next (r ++ d :: S) _ = m1 at hn1
      obtain ⟨-, hn2⟩ := condNext_sim hd S (fun c => decide (c = 43) || decide (c = 45)) (by decide)
        (by have := delim_ne hd; simp [this.2.1, this.2.2.2.1]) n1 m1 hn1
      generalize (if (decide (n1.1 = 43) || decide (n1.1 = 45)) = true then next n1.2.1 n1.2.2 else n1) = n2 at hn2
      generalize (if (decide (m1.1 = 43) || decide (m1.1 = 45)) = true then next m1.2.1 m1.2.2 else m1) = m2 at hn2
      obtain ⟨hb, eb⟩ := digitsLoop_sim hd S 10 n2 m2 0 1 hn2
      generalize digitsLoop 10 n2.2.1 n2.1 n2.2.2 0 1 = o1 at hb eb
      generalize digitsLoop 10 m2.2.1 m2.1 m2.2.2 0 1 = o2 at hb eb
      obtain ⟨v1, ds1, i1⟩ := o1
      obtain ⟨v2, ds2, i2⟩ := o2
      simp only [Prod.mk.injEq] at eb hb
      obtain ⟨e1, e2⟩ := eb
      subst e1 e2
      exact ⟨_, _, _, _, hb.condErr (ds1 % 2 = 0), rfl, rfl⟩
    · have hx' : (lower ch = 101 || lower ch = 112) = false := by simpa using hx
      exact noexp_case _ _ (Sim.sync _ _ _ _ h0 he) hx' hx'

/-! ### the token text and the final checks -/

theorem consumed_sim {d : Rune} (_hd : IsDelim d) (S : List Rune) (c0 : Int) (R0 : List Rune) (s1 s2 : St)
    (h : Sim d S s1 s2) :
    consumed c0 R0 s1.2.1 s1.1 = consumed c0 (R0 ++ d :: S) s2.2.1 s2.1 := by
  cases h with
  | sync ch r p1 p2 _ _ =>
    simp only [consumed]
    have hl : (R0 ++ d :: S).length - (r ++ d :: S).length = R0.length - r.length := by
      simp only [List.length_append, List.length_cons]; omega
    rw [hl, List.take_append_of_le_length (by omega)]
  | done p1 p2 _ =>
    have h1 : ¬ ((d.ch : Int) < 0) := by omega
    have hl : (R0 ++ d :: S).length - S.length = (R0 ++ [d]).length := by
      simp only [List.length_append, List.length_cons, List.length_nil]; omega
    have hR : R0 ++ d :: S = (R0 ++ [d]) ++ S := by simp
    simp only [consumed, if_neg h1]
    rw [hl, hR, List.take_left]
    simp

theorem numD_sim {d : Rune} (hd : IsDelim d) (S : List Rune) (pre : List Int) (R0 : List Rune) (c0 : Int)
    (tok3 : Kind) (digsep2 : Nat) (inv : Int) (s1 s2 : St) (h : Sim d S s1 s2) :
    (numD pre R0 c0 tok3 digsep2 s1.1 s1.2.1 s1.2.2 inv).1 =
      (numD pre (R0 ++ d :: S) c0 tok3 digsep2 s2.1 s2.2.1 s2.2.2 inv).1 ∧
    Sim d S (numD pre R0 c0 tok3 digsep2 s1.1 s1.2.1 s1.2.2 inv).2
      (numD pre (R0 ++ d :: S) c0 tok3 digsep2 s2.1 s2.2.1 s2.2.2 inv).2 := by
  refine ⟨rfl, ?_⟩
  simp only [numD]
  rw [← consumed_sim hd S c0 R0 s1 s2 h]
  apply h.setP
  have := h.errs_eq
  split <;> split <;> (try split) <;> simp [err, this]

/-- `scanNumber` treats a delimiter after the number as the end of the input -/
theorem scanNumber_sim {d : Rune} (hd : IsDelim d) (S : List Rune) (pre : List Int) (r : List Rune)
    (ch : Int) (p1 p2 : PState) (sd neg : Bool) (h0 : 0 ≤ ch) (he : p1.errs = p2.errs) :
    (scanNumber pre r ch p1 sd neg).1 = (scanNumber pre (r ++ d :: S) ch p2 sd neg).1 ∧
    Sim d S (scanNumber pre r ch p1 sd neg).2 (scanNumber pre (r ++ d :: S) ch p2 sd neg).2 := by
  rw [scanNumber_eq, scanNumber_eq]
  obtain ⟨tok0, base, prefx, digsep0, t1, t2, sd', inv, hA, eA1, eA2⟩ :=
    numA_sim hd S sd (ch, r, p1) (ch, r ++ d :: S, p2) (Sim.sync _ _ _ _ h0 he)
  simp only [] at eA1 eA2
  rw [eA1, eA2]
  simp only []
  obtain ⟨tok1, digsep1, u1, u2, inv2, hB, eB1, eB2⟩ := numB_sim hd S tok0 base prefx digsep0 sd' inv t1 t2 hA
  rw [eB1, eB2]
  simp only []
  have hB' : ∃ tok2 q1 q2, Sim d S (u1.1, u1.2.1, q1) (u2.1, u2.2.1, q2) ∧
      (if digsep1 % 2 = 0 then if neg = true then (Kind.char 45, u1.2.2) else (tok1, err u1.2.2)
        else (tok1, u1.2.2)) = (tok2, q1) ∧
      (if digsep1 % 2 = 0 then if neg = true then (Kind.char 45, u2.2.2) else (tok1, err u2.2.2)
        else (tok1, u2.2.2)) = (tok2, q2) := by
    have := hB.errs_eq
    split
    · split
      · exact ⟨_, _, _, hB.setP _ _ this, rfl, rfl⟩
      · exact ⟨_, _, _, hB.setP _ _ (by simp [err, this]), rfl, rfl⟩
    · exact ⟨_, _, _, hB.setP _ _ this, rfl, rfl⟩
  obtain ⟨tok2, q1, q2, hB2, e1, e2⟩ := hB'
  rw [e1, e2]
  simp only []
  obtain ⟨tok3, digsep2, v1, v2, hC, eC1, eC2⟩ := numC_sim hd S prefx tok2 digsep1 _ _ hB2
  simp only [] at eC1 eC2
  rw [eC1, eC2]
  simp only []
  exact numD_sim hd S pre r ch tok3 digsep2 inv2 v1 v2 hC

/-! ### kinds -/

theorem numA_kind (rest : List Rune) (ch : Int) (p : PState) (sd : Bool) :
    (numA rest ch p sd).1 = .int ∨ (numA rest ch p sd).1 = .float := by
  cases sd with
  | true => exact Or.inr rfl
  | false => rw [numA_eq_false]; exact Or.inl rfl

theorem numB_kind (tok0 : Kind) (base : Nat) (prefx : Int) (digsep0 : Nat) (ch : Int) (rest : List Rune)
    (p : PState) (sd : Bool) (inv : Int) :
    (numB tok0 base prefx digsep0 ch rest p sd inv).1 = tok0 ∨
    (numB tok0 base prefx digsep0 ch rest p sd inv).1 = .float := by
  cases sd with
  | true => exact Or.inr rfl
  | false => exact Or.inl rfl

theorem numC_kind (prefx : Int) (tok2 : Kind) (digsep1 : Nat) (ch : Int) (rest : List Rune) (p : PState) :
    (numC prefx tok2 digsep1 ch rest p).1 = tok2 ∨ (numC prefx tok2 digsep1 ch rest p).1 = .float := by
  by_cases hx : (lower ch = 101 || lower ch = 112) = true
  · rw [numC_exp _ _ _ _ _ _ hx]; exact Or.inr rfl
  · rw [numC_noexp _ _ _ _ _ _ (by simpa using hx)]; exact Or.inl rfl

/-- a number that did not start with `-` is an Int or a Float token -/
theorem scanNumber_kind_nonneg (pre : List Int) (rest : List Rune) (ch : Int) (p : PState) (sd : Bool) :
    (scanNumber pre rest ch p sd false).1 = .int ∨ (scanNumber pre rest ch p sd false).1 = .float := by
  rw [scanNumber_eq]
  have hA := numA_kind rest ch p sd
  generalize numA rest ch p sd = a at hA
  obtain ⟨tok0, base, prefx, digsep0, ch1, rest1, p1, sd1, inv1⟩ := a
  simp only [] at hA ⊢
  have hB := numB_kind tok0 base prefx digsep0 ch1 rest1 p1 sd1 inv1
  generalize numB tok0 base prefx digsep0 ch1 rest1 p1 sd1 inv1 = b at hB
  obtain ⟨tok1, digsep1, ch2, rest2, p2, inv2⟩ := b
  simp only [] at hB ⊢
  have h1 : tok1 = .int ∨ tok1 = .float := by
    rcases hB with h | h
    · rw [h]; exact hA
    · exact Or.inr h
  have h2 : ∃ q, (if digsep1 % 2 = 0 then if false = true then (Kind.char 45, p2) else (tok1, err p2)
      else (tok1, p2)) = (tok1, q) := by
    split
    · exact ⟨err p2, by simp⟩
    · exact ⟨_, rfl⟩
  obtain ⟨q, hq⟩ := h2
  rw [hq]
  simp only []
  have hC := numC_kind prefx tok1 digsep1 ch2 rest2 q
  generalize numC prefx tok1 digsep1 ch2 rest2 q = c at hC
  obtain ⟨tok3, digsep2, ch4, rest4, p4⟩ := c
  simp only [numD] at hC ⊢
  rcases hC with h | h
  · rw [h]; exact h1
  · exact Or.inr h

end LispModel.Proofs.PrintRead

/-
  Scanner level of C06 (Props/C06.lean): the string loop of the scanner (`Scan.scanString`) accepts
  exactly the quoted body the printer produces.  In `escape cs` the scanner only ever meets the
  escapes `\\`, `\"`, `\n` — never a raw newline, never EOF, never NUL — so it stops at the closing
  quote with the error counter untouched, whatever follows.
  Core Lean only.
-/
import LispModel.Scan
import LispModel.Proofs.RoundTrip
namespace LispModel.Proofs.ScanString
open LispModel LispModel.Read LispModel.Scan LispModel.Proofs.RoundTrip

/-- the decoded form of well-encoded text: one good rune per character, any widths -/
def runes (w : Char → Nat) (cs : List Char) : List Rune :=
  cs.map (fun c => (⟨c.toNat, w c, false⟩ : Rune))

theorem runes_append (w : Char → Nat) (a b : List Char) : runes w (a ++ b) = runes w a ++ runes w b := by
  simp [runes]

theorem runes_length (w : Char → Nat) (a : List Char) : (runes w a).length = a.length := by
  simp [runes]

/-- one loop turn, as a function of the scanner state -/
def run (fuel : Nat) (s : St) : St := stringLoop fuel s.2.1 s.1 s.2.2

theorem scanString_eq_run (rest : List Rune) (p : PState) :
    scanString rest p = run ((next rest p).2.1.length + 2) (next rest p) := rfl

/-! ### single steps -/

/-- `next` on a well-encoded rune other than NUL and newline: the rune becomes the look-ahead,
    the error counter is untouched -/
theorem next_good (n w : Nat) (rs : List Rune) (p : PState) (h0 : n ≠ 0) (h10 : n ≠ 10) :
    ∃ q, next (⟨n, w, false⟩ :: rs) p = ((n : Int), rs, q) ∧ q.errs = p.errs := by
  simp [next, h0, h10]

theorem run_quote (fuel : Nat) (rest : List Rune) (p : PState) :
    run (fuel + 1) ((34 : Int), rest, p) = (34, rest, p) := by
  simp [run, stringLoop]

theorem run_plain (fuel n : Nat) (rest : List Rune) (p : PState)
    (h34 : n ≠ 34) (h10 : n ≠ 10) (h92 : n ≠ 92) :
    run (fuel + 1) ((n : Int), rest, p) = run fuel (next rest p) := by
  have a : ¬ ((n : Int) = 34) := by omega
  have b : ¬ ((n : Int) = 10) := by omega
  have c : ¬ ((n : Int) < 0) := by omega
  have d : ¬ ((n : Int) = 92) := by omega
  simp [run, stringLoop, a, b, c, d]

theorem run_backslash (fuel : Nat) (rest : List Rune) (p : PState) :
    run (fuel + 1) ((92 : Int), rest, p) = run fuel (scanEscape rest p) := by
  simp [run, stringLoop]

/-- `scanEscape` on one of the three escape letters the printer emits -/
theorem scanEscape_simple (n w : Nat) (rs : List Rune) (p : PState)
    (hn : n = 92 ∨ n = 34 ∨ n = 110) :
    ∃ q, scanEscape (⟨n, w, false⟩ :: rs) p = next rs q ∧ q.errs = p.errs := by
  have h0 : n ≠ 0 := by omega
  have h10 : n ≠ 10 := by omega
  obtain ⟨q, hq, he⟩ := next_good n w rs p h0 h10
  refine ⟨q, ?_, he⟩
  unfold scanEscape
  rw [hq]
  rcases hn with h | h | h <;> subst h <;> simp

/-- a backslash followed by one of the three escape letters, then anything -/
theorem run_escape_pair (fuel n w1 w2 : Nat) (T : List Rune) (p : PState)
    (hn : n = 92 ∨ n = 34 ∨ n = 110) :
    ∃ q, run (fuel + 1) (next (⟨92, w1, false⟩ :: ⟨n, w2, false⟩ :: T) p) = run fuel (next T q) ∧
      q.errs = p.errs := by
  obtain ⟨q1, hq1, he1⟩ := next_good 92 w1 (⟨n, w2, false⟩ :: T) p (by decide) (by decide)
  obtain ⟨q2, hq2, he2⟩ := scanEscape_simple n w2 T q1 hn
  refine ⟨q2, ?_, he2.trans he1⟩
  rw [hq1]
  show run (fuel + 1) ((92 : Int), _, q1) = _
  rw [run_backslash, hq2]

/-- an ordinary character, then anything -/
theorem run_plain_char (fuel n w : Nat) (T : List Rune) (p : PState)
    (h0 : n ≠ 0) (h34 : n ≠ 34) (h10 : n ≠ 10) (h92 : n ≠ 92) :
    ∃ q, run (fuel + 1) (next (⟨n, w, false⟩ :: T) p) = run fuel (next T q) ∧ q.errs = p.errs := by
  obtain ⟨q, hq, he⟩ := next_good n w T p h0 h10
  exact ⟨q, by rw [hq, run_plain fuel n T q h34 h10 h92], he⟩

theorem toNat_ne (c d : Char) (h : c ≠ d) : c.toNat ≠ d.toNat :=
  fun e => h (Char.toNat_inj.mp e)

/-! ### the loop over a printed body -/

theorem escChar_length_pos (c : Char) : 1 ≤ (escChar c).length := by
  unfold escChar
  split
  · simp
  · split
    · simp
    · split <;> simp

/-- the string loop, started on the first character of a printed body, runs to the closing quote -/
theorem run_printed (w : Char → Nat) (cs : List Char) (h0 : Char.ofNat 0 ∉ cs) :
    ∀ (fuel : Nat) (rest : List Rune) (p : PState), (esc cs).length + 1 ≤ fuel →
      ∃ q, run fuel (next (runes w (esc cs ++ ['"']) ++ rest) p) = (34, rest, q) ∧ q.errs = p.errs := by
  induction cs with
  | nil =>
    intro fuel rest p hf
    rw [esc_nil]
    obtain ⟨f, rfl⟩ : ∃ f, fuel = f + 1 := ⟨fuel - 1, by omega⟩
    obtain ⟨q, hq, he⟩ := next_good 34 (w '"') rest p (by decide) (by decide)
    refine ⟨q, ?_, he⟩
    show run (f + 1) (next (⟨34, w '"', false⟩ :: rest) p) = _
    rw [hq]
    exact run_quote f rest q
  | cons c cs ih =>
    intro fuel rest p hf
    have h0' : Char.ofNat 0 ∉ cs := fun h => h0 (List.mem_cons_of_mem _ h)
    have hc0 : c ≠ Char.ofNat 0 := fun h => h0 (h ▸ List.mem_cons_self ..)
    rw [esc_cons] at hf ⊢
    have hlen := escChar_length_pos c
    rw [List.length_append] at hf
    obtain ⟨f, rfl⟩ : ∃ f, fuel = f + 1 := ⟨fuel - 1, by omega⟩
    rw [List.append_assoc, runes_append, List.append_assoc]
    generalize hT : runes w (esc cs ++ ['"']) ++ rest = T
    have ih' : ∀ (fuel : Nat) (p : PState), (esc cs).length + 1 ≤ fuel →
        ∃ q, run fuel (next T p) = (34, rest, q) ∧ q.errs = p.errs := by
      intro fuel p h; rw [← hT]; exact ih h0' fuel rest p h
    -- a two-character escape
    have pair : ∀ (e : Char), escChar c = ['\\', e] → (e.toNat = 92 ∨ e.toNat = 34 ∨ e.toNat = 110) →
        ∃ q, run (f + 1) (next (runes w (escChar c) ++ T) p) = (34, rest, q) ∧ q.errs = p.errs := by
      intro e he hn
      rw [he] at hf ⊢
      obtain ⟨q, hq, hqe⟩ := run_escape_pair f e.toNat (w '\\') (w e) T p hn
      obtain ⟨q', hq', hqe'⟩ := ih' f q (by simp at hf; omega)
      refine ⟨q', ?_, hqe'.trans hqe⟩
      show run (f + 1) (next (⟨92, w '\\', false⟩ :: ⟨e.toNat, w e, false⟩ :: T) p) = _
      rw [hq, hq']
    by_cases h1 : c = '\\'
    · exact pair '\\' (by subst h1; rfl) (Or.inl rfl)
    · by_cases h2 : c = '"'
      · exact pair '"' (by subst h2; rfl) (Or.inr (Or.inl rfl))
      · by_cases h3 : c = '\n'
        · exact pair 'n' (by subst h3; rfl) (Or.inr (Or.inr rfl))
        · have he : escChar c = [c] := by simp [escChar, h1, h2, h3]
          rw [he] at hf ⊢
          obtain ⟨q, hq, hqe⟩ := run_plain_char f c.toNat (w c) T p
            (toNat_ne c (Char.ofNat 0) hc0) (toNat_ne c '"' h2) (toNat_ne c '\n' h3) (toNat_ne c '\\' h1)
          obtain ⟨q', hq', hqe'⟩ := ih' f q (by simp at hf; omega)
          refine ⟨q', ?_, hqe'.trans hqe⟩
          show run (f + 1) (next (⟨c.toNat, w c, false⟩ :: T) p) = _
          rw [hq, hq']

/-- 2. scanner level: `scanString`, entered after the opening quote, reads the printed body
    `escape cs` and stops with the closing quote as look-ahead, exactly the continuation `rest`
    unread and no error recorded — for every string without NUL, any widths, any continuation. -/
theorem scan_printed_quoted_string (w : Char → Nat) (cs : List Char) (h0 : Char.ofNat 0 ∉ cs)
    (rest : List Rune) (p : PState) (hp : p.errs = 0) :
    ∃ q, scanString (runes w (esc cs ++ ['"']) ++ rest) p = (34, rest, q) ∧ q.errs = 0 := by
  have hne : ∃ r T, runes w (esc cs ++ ['"']) ++ rest = r :: T ∧
      (esc cs).length + rest.length = T.length := by
    cases hb : esc cs with
    | nil => exact ⟨_, _, rfl, by simp⟩
    | cons b bs => exact ⟨_, _, rfl, by simp; omega⟩
  obtain ⟨r, T, hT, hl⟩ := hne
  obtain ⟨q, hq, he⟩ := run_printed w cs h0 (T.length + 2) rest p (by omega)
  refine ⟨q, ?_, he.trans hp⟩
  rw [hT] at hq ⊢
  have hn : (next (r :: T) p).2.1 = T := by
    simp only [next]; split <;> (try split) <;> (try split) <;> rfl
  rw [scanString_eq_run, hn]
  exact hq

/-! ### token level: one call of `Scan.scan` on the printed quoted form -/

/-- the look-ahead produced by `next` is EOF exactly at the end of the input -/
theorem next_lookahead_nonneg (r : Rune) (rs : List Rune) (q : PState) :
    ¬ (next (r :: rs) q).1 < 0 ∧ (next (r :: rs) q).2.1 = rs := by
  simp only [next]
  split
  · exact ⟨by simp, rfl⟩
  · split
    · exact ⟨by simp, rfl⟩
    · split
      · exact ⟨by simp, rfl⟩
      · exact ⟨by simp, rfl⟩

/-- the token text recorded by `consumed` when the token's runes are `R` (after the look-ahead
    `ch0` at the token start) and the scanner then takes one more look-ahead from `rest` -/
theorem consumed_next (n : Nat) (R rest : List Rune) (q : PState) :
    consumed (n : Int) (R ++ rest) (next rest q).2.1 (next rest q).1 = n :: R.map (·.ch) := by
  have hn : ¬ ((n : Int) < 0) := by omega
  cases rest with
  | nil => simp [consumed, next, hn]
  | cons r rs =>
    obtain ⟨h1, h2⟩ := next_lookahead_nonneg r rs q
    have hl : (R ++ r :: rs).length - rs.length = (R ++ [r]).length := by simp; omega
    have hR : R ++ r :: rs = (R ++ [r]) ++ rs := by simp
    unfold consumed
    simp only [h2, if_neg h1]
    rw [hl, hR, List.take_left]
    simp [hn]

theorem runes_map_ch (w : Char → Nat) (cs : List Char) : (runes w cs).map (·.ch) = cs.map Char.toNat := by
  simp [runes]

/-- 2'. one call of `Scan.scan` with the opening quote as look-ahead, on the printed body and
    closing quote followed by anything: exactly one `String` token, spelled `"` body `"`, no error
    recorded up to the closing quote, and the scanner continues with `rest`. -/
theorem scan_printed_string_token (w : Char → Nat) (cs : List Char) (h0 : Char.ofNat 0 ∉ cs)
    (rest : List Rune) (p : PState) (hp : p.errs = 0) (fuel : Nat) :
    ∃ q, scan (fuel + 1) (runes w (esc cs ++ ['"']) ++ rest) 34 p =
        (some (.string, 34 :: (esc cs ++ ['"']).map Char.toNat), next rest q) ∧ q.errs = 0 := by
  obtain ⟨q, hq, he⟩ := scan_printed_quoted_string w cs h0 rest p hp
  refine ⟨q, ?_, he⟩
  have hne : ∃ r T, runes w (esc cs ++ ['"']) ++ rest = r :: T := by
    cases hb : esc cs with
    | nil => exact ⟨_, _, rfl⟩
    | cons b bs => exact ⟨_, _, rfl⟩
  obtain ⟨r, T, hT⟩ := hne
  have hskip : skipWhite (r :: T) 34 p = (34, r :: T, p) := by simp [skipWhite, isWhite]
  have h1 : isIdentRune 34 0 = false := by decide
  have h2 : isDecimal 34 = false := by decide
  have hc : consumed (34 : Int) (runes w (esc cs ++ ['"']) ++ rest) (next rest q).2.1 (next rest q).1 = _ :=
    consumed_next 34 (runes w (esc cs ++ ['"'])) rest q
  rw [runes_map_ch] at hc
  rw [hT] at hq hc ⊢
  unfold scan
  simp only [hskip, h1, h2, hq]
  rw [hc]
  simp

/-- the token text of `scan_printed_string_token`, as characters, is the printed quoted form -/
theorem printed_text_chars (body : List Char) :
    (34 :: (body ++ ['"']).map Char.toNat).map Char.ofNat = '"' :: body ++ ['"'] := by
  have h : ∀ l : List Char, (l.map Char.toNat).map Char.ofNat = l := by
    intro l; induction l with
    | nil => rfl
    | cons a l ih => rw [List.map_cons, List.map_cons, Char.ofNat_toNat, ih]
  rw [List.map_cons, h]
  rfl

/-- the quoted form of `prString`: every non-keyword string that is not printed raw -/
theorem prString_quoted (s : String) (hkw : Val.isKwStr s = false)
    (hraw : ¬ (['{', '"'].isPrefixOf s.toList ∧ s.toList.getLast? = some '}')) :
    Print.prString true s = '"' :: esc s.toList ++ ['"'] := by
  unfold Print.prString
  unfold Val.isKwStr at hkw
  generalize s.toList = cs at *
  cases cs with
  | nil => rw [esc_nil]; rfl
  | cons c rest =>
    have hc : ¬ c = kwMarker := by simpa using hkw
    simp only [hc, if_false, if_true, if_neg hraw]

/-- 2 + 3. scanner and reader composed: the printed quoted form of a non-keyword string without
    NUL, followed by anything, is scanned as one `String` token whose text is the printed form and
    which `readAtom` turns back into the string (whatever position the token carries). -/
theorem scan_read_printed_string (cfg : Cfg) (w : Char → Nat) (s : String)
    (hkw : Val.isKwStr s = false)
    (hraw : ¬ (['{', '"'].isPrefixOf s.toList ∧ s.toList.getLast? = some '}'))
    (h0 : Char.ofNat 0 ∉ s.toList)
    (rest : List Rune) (p : PState) (hp : p.errs = 0) (fuel line column offset : Nat) :
    ∃ text q, scan (fuel + 1) (runes w (esc s.toList ++ ['"']) ++ rest) 34 p =
        (some (.string, text), next rest q) ∧ q.errs = 0 ∧
      text.map Char.ofNat = Print.prString true s ∧
      ∃ s', readAtom cfg ⟨.string, text, line, column, offset⟩ = .ok (.str s') ∧
        s'.toList = s.toList := by
  obtain ⟨q, hq, he⟩ := scan_printed_string_token w s.toList h0 rest p hp fuel
  have ht : (34 :: (esc s.toList ++ ['"']).map Char.toNat).map Char.ofNat = Print.prString true s := by
    rw [printed_text_chars, prString_quoted s hkw hraw]
  refine ⟨_, q, hq, he, ht, ?_⟩
  exact read_printed_string_token cfg s ⟨.string, _, line, column, offset⟩ hkw ht
    (by simp only [if_neg hraw])

end LispModel.Proofs.ScanString

/-
  C10 proofs, part 4: every access to `Done` / `Cancelled` happens with `mu` held, hence two owners
  are never both about to access a flag of the same future (no data race on the flags).
-/
import LispModel.Proofs.ConcFutMuStep
namespace LispModel.Proofs.ConcFut
open LispModel.Conc LispModel.Conc.Fut

def isFlagAccess : MOp → Bool
  | .read _ | .write _ | .brTrue _ _ => true
  | _ => false

def accEntry (n : OpName) (pc : Nat) (m : MOp) : Bool := isFlagAccess m → holdsMuAt n pc

theorem accTable_true : forAllFOps accEntry = true := by decide

theorem nextAccess_isFlag {code fr l w} (h : FFrame.nextAccess code fr = some (l, w)) :
    ∃ m, (if fr.returning then fr.defers.head? else (code fr.name)[fr.pc]?) = some m ∧ isFlagAccess m = true := by
  unfold FFrame.nextAccess at h
  simp only at h
  split at h
  · rename_i heq; exact ⟨_, heq, rfl⟩
  · rename_i heq; exact ⟨_, heq, rfl⟩
  · rename_i heq; exact ⟨_, heq, rfl⟩
  · cases h

theorem MuInv.access_guarded {s : FState} (h : MuInv s) {o : Owner} {fr : FFrame} {l : Loc} {w : Bool}
    (hfr : frameOf s o = some fr) (hacc : fr.nextAccess prog = some (l, w)) :
    (s.futs fr.fut).mu = some o := by
  obtain ⟨hwf, hok⟩ := h.wf o fr hfr
  obtain ⟨m, hm, hflag⟩ := nextAccess_isFlag hacc
  refine (h.mu_iff fr.fut o).mpr ⟨fr, hfr, rfl, ?_⟩
  unfold FFrameWF at hwf
  cases hr : fr.returning
  · simp only [hr] at hwf hm
    obtain ⟨m', hm', htab⟩ := forAllFOps_spec accTable_true hok.names hwf.1
    simp only [Bool.false_eq_true, if_false] at hm
    rw [hm] at hm'; cases hm'
    simp only [accEntry, decide_eq_true_eq] at htab
    simp [holdsMu, hr, htab hflag]
  · simp only [hr, if_true] at hwf hm
    rcases hwf with hd | ⟨hd, -⟩
    · rw [hd] at hm; cases hm
    · -- the only deferred call of the fixed programs is the unlock
      exfalso
      rw [hd] at hm
      have hn := hok.names
      simp only [futNames, clientNames, List.mem_cons, List.not_mem_nil, or_false] at hn
      rcases hn with hn | hn | hn | hn | hn <;> rw [hn] at hm <;> simp only [defersAtF] at hm <;>
        first
        | (cases hm; done)
        | (split at hm
           · cases hm; cases hflag
           · cases hm)

/-- two different owners are never both about to access a flag of the same future -/
theorem MuInv.no_flag_race {s : FState} (h : MuInv s) {o o' : Owner} {fr fr' : FFrame} {a a' : Loc × Bool}
    (hne : o ≠ o') (hfr : frameOf s o = some fr) (hfr' : frameOf s o' = some fr') (hsame : fr.fut = fr'.fut)
    (hacc : fr.nextAccess prog = some a) (hacc' : fr'.nextAccess prog = some a') : False := by
  have h1 := h.access_guarded hfr hacc
  have h2 := h.access_guarded hfr' hacc'
  rw [hsame, h2] at h1
  cases h1
  exact hne rfl

end LispModel.Proofs.ConcFut

/-
  C18: the debugger Stepper is transparent.

  One simulation, by induction on fuel over the whole mutual block of `Eval.lean`, relates a run
  from a state `s` to a run from a state `t` with the same observables, at other EVAL depths:
  * mode `c = true`: `t` has no stepper (`s` has any); the `t` run needs no more fuel than the `s` run;
  * mode `c = false`: `s` and `t` have any steppers (or none); twice the fuel suffices for `t`
    (with a stepper the loop does not `continue` but calls `EVAL`, which costs one more unit).
  A second, unary induction shows that the callback log only grows, and only in the prologue of `EVAL`.
-/
import LispModel.Eval
namespace LispModel.Stepper
open LispModel LispModel.Core

/-- forget the debugger -/
def erase (st : State) : State := { st with stepper := none }

/-- same observables: everything but `stepper` and the `depth!` marks -/
def Obs (s s' : State) : Prop :=
  s.scopes = s'.scopes ∧ s.atoms = s'.atoms ∧ s.trace = s'.trace ∧ s.ticks = s'.ticks ∧ s.cancelAt = s'.cancelAt

theorem Obs.refl (s : State) : Obs s s := ⟨rfl, rfl, rfl, rfl, rfl⟩

theorem Obs.symm {s t : State} (h : Obs s t) : Obs t s :=
  ⟨h.1.symm, h.2.1.symm, h.2.2.1.symm, h.2.2.2.1.symm, h.2.2.2.2.symm⟩

theorem Obs.trans {s t u : State} (h : Obs s t) (k : Obs t u) : Obs s u :=
  ⟨h.1.trans k.1, h.2.1.trans k.2.1, h.2.2.1.trans k.2.2.1, h.2.2.2.1.trans k.2.2.2.1,
   h.2.2.2.2.trans k.2.2.2.2⟩

theorem Obs.erase (s : State) : Obs s (erase s) := ⟨rfl, rfl, rfl, rfl, rfl⟩

/-- `Sim c s t`: `s` and `t` have the same observables (`stepper` and the `depth!` marks are not
    compared); in mode `c = true`, moreover, `t` has no stepper -/
structure Sim (c : Bool) (s t : State) : Prop where
  nostep : c = true → t.stepper = none
  scopes : s.scopes = t.scopes
  atoms : s.atoms = t.atoms
  trace : s.trace = t.trace
  ticks : s.ticks = t.ticks
  cancelAt : s.cancelAt = t.cancelAt

theorem Sim.erase (s : State) : Sim true s (erase s) := ⟨fun _ => rfl, rfl, rfl, rfl, rfl, rfl⟩

theorem Sim.ofObs₂ {s t : State} (h : Obs s t) : Sim false s t :=
  ⟨(fun hc => nomatch hc), h.1, h.2.1, h.2.2.1, h.2.2.2.1, h.2.2.2.2⟩

theorem Sim.obs {c : Bool} {s t : State} (h : Sim c s t) : Obs s t := ⟨h.2, h.3, h.4, h.5, h.6⟩

theorem Sim.ofObs {c : Bool} {s s' t : State} (h : Sim c s' t) (o : Obs s s') : Sim c s t :=
  ⟨h.1, o.1.trans h.2, o.2.1.trans h.3, o.2.2.1.trans h.4, o.2.2.2.1.trans h.5, o.2.2.2.2.trans h.6⟩

theorem Sim.ofObsR {c : Bool} {s t t' : State} (h : Sim c s t) (o : Obs t' t)
    (n : c = true → t'.stepper = none) : Sim c s t' :=
  ⟨n, h.2.trans o.1.symm, h.3.trans o.2.1.symm, h.4.trans o.2.2.1.symm, h.5.trans o.2.2.2.1.symm,
   h.6.trans o.2.2.2.2.symm⟩

/-- result simulation: when the left run is not out of fuel the right run has the same result
    and a simulating state -/
def RRel {α : Type} (c : Bool) (p q : Res α × State) : Prop :=
  p.1 ≠ .oof → q.1 = p.1 ∧ Sim c p.2 q.2

theorem Sim.setStepper {c : Bool} {s t : State} (h : Sim c s t) (x : Option Stepper) :
    Sim c { s with stepper := x } t := ⟨h.1, h.2, h.3, h.4, h.5, h.6⟩

theorem Sim.setStepperR {s t : State} (h : Sim false s t) (x : Option Stepper) :
    Sim false s { t with stepper := x } := ⟨(fun hc => nomatch hc), h.2, h.3, h.4, h.5, h.6⟩

theorem Sim.get {c : Bool} {s t : State} (h : Sim c s t) (env : Nat) (k : String) :
    s.get env k = t.get env k := by
  have e : ∀ n id, s.getAux n id k = t.getAux n id k := by
    intro n
    induction n with
    | zero => intro id; rfl
    | succ n ih => intro id; simp only [State.getAux, State.scope?, h.scopes, ih]
  simp only [State.get, h.scopes, e]

theorem Sim.set {c : Bool} {s t : State} (h : Sim c s t) (env : Nat) (k : String) (v : Val) :
    Sim c (s.set env k v) (t.set env k v) := by
  unfold State.set State.scope?
  rw [h.scopes]
  cases t.scopes[env]? with
  | none => exact h
  | some sc => exact ⟨h.1, rfl, h.3, h.4, h.5, h.6⟩

theorem Sim.newScope {c : Bool} {s t : State} (h : Sim c s t) (o : Nat) (data : List (String × Val)) :
    Sim c (s.newScope o data).1 (t.newScope o data).1 ∧ (s.newScope o data).2 = (t.newScope o data).2 :=
  ⟨⟨h.1, by simp only [State.newScope, h.scopes], h.3, h.4, h.5, h.6⟩, by simp only [State.newScope, h.scopes]⟩

theorem Sim.poll {c : Bool} {s t : State} (h : Sim c s t) :
    s.poll.1 = t.poll.1 ∧ Sim c s.poll.2 t.poll.2 :=
  ⟨by simp only [State.poll, h.cancelAt, h.ticks],
   ⟨h.1, h.2, h.3, h.4, by simp only [State.poll, h.ticks], h.6⟩⟩

theorem outing1Defer_obs (s : State) : Obs (outing1Defer s) s := by
  unfold outing1Defer
  split
  · split
    · exact ⟨rfl, rfl, rfl, rfl, rfl⟩
    · exact Obs.refl _
  · exact Obs.refl _

theorem outing1Defer_nostep {t : State} (h : t.stepper = none) : (outing1Defer t).stepper = none := by
  unfold outing1Defer; rw [h]; exact h

theorem Sim.outing1Defer₂ {c : Bool} {s t : State} (h : Sim c s t) :
    Sim c (LispModel.outing1Defer s) (LispModel.outing1Defer t) :=
  (h.ofObs (outing1Defer_obs s)).ofObsR (outing1Defer_obs t) (fun hc => outing1Defer_nostep (h.1 hc))

theorem RRel.oof {α : Type} {c : Bool} {s : State} {q : Res α × State} : RRel c (.oof, s) q :=
  fun h => absurd rfl h

theorem RRel.same {α : Type} {c : Bool} {r : Res α} {s t : State} (h : Sim c s t) : RRel c (r, s) (r, t) :=
  fun _ => ⟨rfl, h⟩

/-- flag-only changes on either side do not matter -/
theorem RRel.post {α : Type} {c : Bool} {p q p' q' : Res α × State} (h : RRel c p q)
    (hp1 : p'.1 = p.1) (hp2 : Obs p'.2 p.2) (hq1 : q'.1 = q.1) (hq2 : Obs q'.2 q.2)
    (hq3 : q.2.stepper = none → q'.2.stepper = none) : RRel c p' q' := by
  intro hne
  rw [hp1] at hne
  obtain ⟨e, hs⟩ := h hne
  exact ⟨by rw [hq1, hp1, e], (hs.ofObs hp2).ofObsR hq2 (fun hc => hq3 (hs.1 hc))⟩

theorem RRel.cases {α : Type} {c : Bool} {p q : Res α × State} (h : RRel c p q) :
    (∃ s, p = (.oof, s)) ∨ (∃ v s t, p = (.ok v, s) ∧ q = (.ok v, t) ∧ Sim c s t)
      ∨ (∃ e s t, p = (.err e, s) ∧ q = (.err e, t) ∧ Sim c s t) := by
  obtain ⟨r, s⟩ := p
  obtain ⟨r', t⟩ := q
  cases r with
  | oof => exact .inl ⟨s, rfl⟩
  | ok v =>
    obtain ⟨e, hs⟩ := h (fun h => nomatch h)
    exact .inr (.inl ⟨v, s, t, rfl, by simp only at e; rw [e], hs⟩)
  | err e' =>
    obtain ⟨e, hs⟩ := h (fun h => nomatch h)
    exact .inr (.inr ⟨e', s, t, rfl, by simp only at e; rw [e], hs⟩)

theorem RRel.elim {α : Type} {c : Bool} {p q : Res α × State} {motive : Prop} (h : RRel c p q)
    (hoof : ∀ s, p = (.oof, s) → motive)
    (hok : ∀ v s t, p = (.ok v, s) → q = (.ok v, t) → Sim c s t → motive)
    (herr : ∀ e s t, p = (.err e, s) → q = (.err e, t) → Sim c s t → motive) : motive := by
  rcases h.cases with ⟨s, e⟩ | ⟨v, s, t, e1, e2, hs⟩ | ⟨v, s, t, e1, e2, hs⟩
  · exact hoof s e
  · exact hok v s t e1 e2 hs
  · exact herr v s t e1 e2 hs

/-- close a leaf goal -/
macro "sim_done" : tactic =>
  `(tactic| first
      | exact RRel.oof
      | exact RRel.same (by assumption)
      | exact RRel.same (Sim.set (by assumption) _ _ _)
      | (dsimp only; exact RRel.oof))

/-- split a sub-call by its simulation `h`: the out-of-fuel case is closed, the `ok` and `err`
    cases remain with both sub-calls replaced by their results -/
macro "sim_bind " h:term " with " v:ident s:ident t:ident hs:ident : tactic =>
  `(tactic|
    (refine RRel.elim (h := $h) (fun _ e => by (rw [e]; sim_done))
        (fun $v $s $t e1 e2 $hs => ?_) (fun $v $s $t e1 e2 $hs => ?_) <;>
      rw [e1, e2] <;> clear e1 e2 <;> try dsimp only))

/-- how much fuel the right run needs: as much as the left one when it has no stepper
    (`c = true`), twice as much otherwise -/
def FuelOK (c : Bool) (F F' : Nat) : Prop := if c = true then F ≤ F' else 2 * F ≤ F'

theorem FuelOK.pred {c : Bool} {F F' : Nat} (h : FuelOK c (F + 1) F') :
    ∃ G, F' = G + 1 ∧ FuelOK c F G ∧ (c = false → 2 * F + 1 ≤ G) := by
  unfold FuelOK at *
  cases c with
  | true =>
    simp only [if_true] at h ⊢
    exact ⟨F' - 1, by omega, by omega, fun h => nomatch h⟩
  | false =>
    simp only [Bool.false_eq_true, if_false] at h ⊢
    exact ⟨F' - 1, by omega, by omega, fun _ => by omega⟩

theorem FuelOK.succ {c : Bool} {F G : Nat} (h : FuelOK c F G) : FuelOK c F (G + 1) := by
  unfold FuelOK at *
  cases c with
  | true => simp only [if_true] at h ⊢; omega
  | false => simp only [Bool.false_eq_true, if_false] at h ⊢; omega

/-- the induction predicate: at fuel `F` every function of the mutual block, run from a state `s`
    at any depth, is simulated by the run from any `t` with `Sim c s t`, at any depth and any fuel
    `F'` with `FuelOK c F F'` -/
structure IH (c : Bool) (F : Nat) : Prop where
  eval : ∀ s t env ast d d' F', Sim c s t → FuelOK c F F' → RRel c (eval F s env ast d) (eval F' t env ast d')
  evalLoop : ∀ s t env ast d d' F', Sim c s t → FuelOK c F F' →
    RRel c (evalLoop F s env ast d) (evalLoop F' t env ast d')
  evalAst : ∀ s t env ast d d' F', Sim c s t → FuelOK c F F' →
    RRel c (evalAst F s env ast d) (evalAst F' t env ast d')
  evalList : ∀ s t env xs d d' F', Sim c s t → FuelOK c F F' →
    RRel c (evalList F s env xs d) (evalList F' t env xs d')
  evalMap : ∀ s t env kvs d d' F', Sim c s t → FuelOK c F F' →
    RRel c (evalMap F s env kvs d) (evalMap F' t env kvs d')
  doForms : ∀ s t env lst from_ keep d d' F', Sim c s t → FuelOK c F F' →
    RRel c (doForms F s env lst from_ keep d) (doForms F' t env lst from_ keep d')
  letBinds : ∀ s t env bs a1 d d' F', Sim c s t → FuelOK c F F' →
    RRel c (letBinds F s env bs a1 d) (letBinds F' t env bs a1 d')
  macroexpand : ∀ s t env ast d d' F', Sim c s t → FuelOK c F F' →
    RRel c (macroexpand F s env ast d) (macroexpand F' t env ast d')
  apply : ∀ s t f args d d' F', Sim c s t → FuelOK c F F' →
    RRel c (apply F s f args d) (apply F' t f args d')
  mapLoop : ∀ s t f xs d d' F', Sim c s t → FuelOK c F F' →
    RRel c (mapLoop F s f xs d) (mapLoop F' t f xs d')
  updateIn : ∀ s t v path f d d' F', Sim c s t → FuelOK c F F' →
    RRel c (updateIn F s v path f d) (updateIn F' t v path f d')
  update1 : ∀ s t v i f d d' F', Sim c s t → FuelOK c F F' →
    RRel c (update1 F s v i f d) (update1 F' t v i f d')
  callBuiltin : ∀ s t name args d d' F', Sim c s t → FuelOK c F F' →
    RRel c (callBuiltin F s name args d) (callBuiltin F' t name args d')

theorem ih_zero (c : Bool) : IH c 0 := by
  constructor <;> intros <;> first
    | (rw [eval.eq_def]; exact RRel.oof) | (rw [evalLoop.eq_def]; exact RRel.oof)
    | (rw [evalAst.eq_def]; exact RRel.oof) | (rw [evalList.eq_def]; exact RRel.oof)
    | (rw [evalMap.eq_def]; exact RRel.oof) | (rw [doForms.eq_def]; exact RRel.oof)
    | (rw [letBinds.eq_def]; exact RRel.oof) | (rw [macroexpand.eq_def]; exact RRel.oof)
    | (rw [apply.eq_def]; exact RRel.oof) | (rw [mapLoop.eq_def]; exact RRel.oof)
    | (rw [updateIn.eq_def]; exact RRel.oof) | (rw [update1.eq_def]; exact RRel.oof)
    | (rw [callBuiltin.eq_def]; exact RRel.oof)

/-- the Stepper prologue of `EVAL`: hand `ast` to the callback unless `skip`, obey its command -/
def prologue (sp : Stepper) (ast : Val) : Stepper × Bool :=
  if !sp.skip then
    let cmd := sp.script.headD .noop
    let sp := { sp with script := sp.script.tail, calls := ast :: sp.calls }
    match cmd with
    | .next => ({ sp with skip := true }, true)
    | .stepIn => ({ sp with skip := false, outing1 := false }, false)
    | .stepOut => ({ sp with skip := true, outing1 := true }, false)
    | .noop => (sp, false)
  else (sp, false)

/-- the deferred flag resets of `EVAL` -/
def epilogue (hadOuting2 isNext : Bool) (st' : State) : State :=
  match st'.stepper with
  | none => st'
  | some sp' =>
    let sp' := if hadOuting2 then { sp' with skip := false, outing2 := false } else sp'
    let sp' := if isNext then { sp' with skip := false } else sp'
    { st' with stepper := some sp' }

/-- with a stepper, `EVAL` = prologue, the loop, deferred flag resets -/
theorem eval_some (F : Nat) (s : State) (env : Nat) (ast : Val) (d : Nat) (sp : Stepper)
    (h : s.stepper = some sp) :
    eval (F + 1) s env ast d =
      ((evalLoop F { s with stepper := some (prologue sp ast).1 } env ast d).1,
       epilogue (prologue sp ast).1.outing2 (prologue sp ast).2
         (evalLoop F { s with stepper := some (prologue sp ast).1 } env ast d).2) := by
  rw [eval, h]
  rfl

theorem epilogue_obs (a b : Bool) (st : State) : Obs (epilogue a b st) st := by
  unfold epilogue
  split
  · exact ⟨rfl, rfl, rfl, rfl, rfl⟩
  · exact ⟨rfl, rfl, rfl, rfl, rfl⟩

/-- was `outing1` set on entry of `do()` -/
def hadOuting1 (s : State) : Bool :=
  match s.stepper with | some sp => sp.outing1 | none => false

/-- the deferred block of `do()` -/
def doFin (had : Bool) (r : R) : R :=
  if had then
    match r.2.stepper with
    | some sp => (r.1, { r.2 with stepper := some { sp with skip := true, outing1 := false, outing2 := true } })
    | none => r
  else r

/-- `do()` without its deferred block -/
def doCore (F : Nat) (s : State) (env : Nat) (lst : List Val) (from_ : Nat) (keep : Bool) (d : Nat) : R :=
  if lst.length ≤ from_ then (.ok .nil, s)
  else
    match evalList F s env (if keep then (lst.drop from_).dropLast else lst.drop from_) d with
    | (.ok vs, st) => (.ok (if keep then lst.getLast?.getD .nil else vs.getLast?.getD .nil), st)
    | (.err e, st) => (.err e, st)
    | (.oof, st) => (.oof, st)

theorem doForms_eq (F : Nat) (s : State) (env : Nat) (lst : List Val) (from_ : Nat) (keep : Bool) (d : Nat) :
    doForms (F + 1) s env lst from_ keep d = doFin (hadOuting1 s) (doCore F s env lst from_ keep d) := by
  rw [doForms]
  unfold doCore
  split
  · rfl
  · dsimp only
    generalize evalList F s env _ d = p
    obtain ⟨r, st⟩ := p
    cases r <;> cases keep <;> rfl

theorem doFin_fst (had : Bool) (r : R) : (doFin had r).1 = r.1 := by
  unfold doFin; split
  · split <;> rfl
  · rfl

theorem doFin_obs (had : Bool) (r : R) : Obs (doFin had r).2 r.2 := by
  unfold doFin; split
  · split <;> exact ⟨rfl, rfl, rfl, rfl, rfl⟩
  · exact ⟨rfl, rfl, rfl, rfl, rfl⟩

theorem epilogue_fst_nostep (a b : Bool) {st : State} (h : st.stepper = none) :
    (epilogue a b st).stepper = none := by
  unfold epilogue; rw [h]; exact h

theorem doFin_snd_nostep (had : Bool) {r : R} (h : r.2.stepper = none) : (doFin had r).2.stepper = none := by
  unfold doFin
  split
  · split
    · rename_i sp h'; rw [h] at h'; exact nomatch h'
    · exact h
  · exact h

/-- `EVAL` is its loop from a state with other flags, followed by flag-only changes -/
theorem eval_view (F : Nat) (u : State) (env : Nat) (ast : Val) (d : Nat) :
    ∃ x, (u.stepper = none → x = none) ∧
      (eval (F + 1) u env ast d).1 = (evalLoop F { u with stepper := x } env ast d).1 ∧
      Obs (eval (F + 1) u env ast d).2 (evalLoop F { u with stepper := x } env ast d).2 ∧
      ((evalLoop F { u with stepper := x } env ast d).2.stepper = none →
        (eval (F + 1) u env ast d).2.stepper = none) := by
  cases hu : u.stepper with
  | none =>
    refine ⟨none, ?_, ?_⟩
    · intro _; rfl
    have : ({ u with stepper := none } : State) = u := by rw [← hu]
    rw [eval, hu, this]
    exact ⟨rfl, Obs.refl _, id⟩
  | some sp =>
    refine ⟨some (prologue sp ast).1, ?_, ?_⟩
    · intro h; cases h
    rw [eval_some F u env ast d sp hu]
    exact ⟨rfl, epilogue_obs _ _ _, epilogue_fst_nostep _ _⟩

theorem eval_step {c : Bool} {F : Nat} (ih : IH c F) : ∀ s t env ast d d' F', Sim c s t → FuelOK c (F + 1) F' →
    RRel c (eval (F + 1) s env ast d) (eval F' t env ast d') := by
  intro s t env ast d d' F' hs hF
  obtain ⟨G, rfl, hG, -⟩ := hF.pred
  obtain ⟨x, -, hx1, hx2, -⟩ := eval_view F s env ast d
  obtain ⟨y, hy0, hy1, hy2, hy3⟩ := eval_view G t env ast d'
  have hs' : Sim c { s with stepper := x } { t with stepper := y } :=
    ⟨fun hc => hy0 (hs.1 hc), hs.2, hs.3, hs.4, hs.5, hs.6⟩
  exact (ih.evalLoop _ _ env ast d d' G hs' hG).post hx1 hx2 hy1 hy2 hy3

/-- `continue` of the loop: with a stepper the run calls `EVAL` recursively -/
theorem sim_continue {c : Bool} {F G : Nat} (ih : IH c F) (hG : FuelOK c F G) (hG' : c = false → 2 * F + 1 ≤ G)
    {s t : State} (hs : Sim c s t) (env ast d d') :
    RRel c (eval.match_3 (fun _ => R) s.stepper (fun _ => evalLoop F s env ast d)
              (fun _ => eval F s env ast (d + 1)))
           (eval.match_3 (fun _ => R) t.stepper (fun _ => evalLoop G t env ast d')
              (fun _ => eval G t env ast (d' + 1))) := by
  cases hst : s.stepper with
  | none =>
    cases htt : t.stepper with
    | none => exact ih.evalLoop _ _ _ _ _ _ _ hs hG
    | some tp =>
      dsimp only
      cases c with
      | true => exact absurd (hs.1 rfl) (by rw [htt]; exact fun h => nomatch h)
      | false =>
        obtain ⟨H, rfl⟩ : ∃ H, G = H + 1 := ⟨G - 1, by have := hG' rfl; omega⟩
        have hH : FuelOK false F H := by
          have := hG' rfl; unfold FuelOK; simp only [Bool.false_eq_true, if_false]; omega
        obtain ⟨y, -, hy1, hy2, hy3⟩ := eval_view H t env ast (d' + 1)
        exact (ih.evalLoop s _ env ast d (d' + 1) H (hs.setStepperR y) hH).post rfl (Obs.refl _) hy1 hy2 hy3
  | some sp =>
    cases htt : t.stepper with
    | none =>
      dsimp only
      have := ih.eval s t env ast (d + 1) d' (G + 1) hs hG.succ
      rw [eval, htt] at this
      exact this
    | some tp => exact ih.eval _ _ _ _ _ _ _ hs hG

theorem doForms_step {c : Bool} {F : Nat} (ih : IH c F) : ∀ s t env lst from_ keep d d' F', Sim c s t →
    FuelOK c (F + 1) F' →
    RRel c (doForms (F + 1) s env lst from_ keep d) (doForms F' t env lst from_ keep d') := by
  intro s t env lst from_ keep d d' F' hs hF
  obtain ⟨G, rfl, hG, -⟩ := hF.pred
  rw [doForms_eq, doForms_eq]
  have core : RRel c (doCore F s env lst from_ keep d) (doCore G t env lst from_ keep d') := by
    unfold doCore
    split
    · sim_done
    · sim_bind (ih.evalList s t env _ d d' G hs hG) with v s1 t1 hs1 <;> sim_done
  exact core.post (doFin_fst _ _) (doFin_obs _ _) (doFin_fst _ _) (doFin_obs _ _) (doFin_snd_nostep _)

/-! ### the induction step, function by function -/

theorem evalList_step {c : Bool} {F : Nat} (ih : IH c F) : ∀ s t env xs d d' F', Sim c s t → FuelOK c (F + 1) F' →
    RRel c (evalList (F + 1) s env xs d) (evalList F' t env xs d') := by
  intro s t env xs d d' F' hs hF
  obtain ⟨G, rfl, hG, hG'⟩ := hF.pred
  cases xs with
  | nil => rw [evalList, evalList]; exact RRel.same hs
  | cons x xs =>
    rw [evalList, evalList]
    rcases (ih.eval s t env x (d + 1) (d' + 1) G hs hG).cases with ⟨s1, e⟩ | ⟨v, s1, t1, e1, e2, hs1⟩ | ⟨e, s1, t1, e1, e2, hs1⟩
    · rw [e]; exact RRel.oof
    · rw [e1, e2]; dsimp only
      rcases (ih.evalList s1 t1 env xs d d' G hs1 hG).cases with ⟨s1, e⟩ | ⟨v, s2, t2, e1, e2, hs2⟩ | ⟨e, s2, t2, e1, e2, hs2⟩
      · rw [e]; exact RRel.oof
      · rw [e1, e2]; exact RRel.same hs2
      · rw [e1, e2]; exact RRel.same hs2
    · rw [e1, e2]; exact RRel.same hs1

theorem evalLoop_step {c : Bool} {F : Nat} (ih : IH c F) : ∀ s t env ast d d' F', Sim c s t → FuelOK c (F + 1) F' →
    RRel c (evalLoop (F + 1) s env ast d) (evalLoop F' t env ast d') := by
  intro s t env ast d d' F' hs hF
  obtain ⟨G, rfl, hG, hG'⟩ := hF.pred
  rw [evalLoop, evalLoop]
  obtain ⟨hp1, hp2⟩ := hs.poll
  generalize s.poll = p at hp1 hp2 ⊢
  generalize t.poll = q at hp1 hp2 ⊢
  obtain ⟨done, s0⟩ := p
  obtain ⟨done', t0⟩ := q
  dsimp only at hp1 hp2 ⊢
  subst hp1
  by_cases hd : done = true
  · rw [if_pos hd, if_pos hd]; exact RRel.same hp2
  rw [if_neg hd, if_neg hd]
  cases ast <;> (try dsimp only) <;> try exact ih.evalAst _ _ _ _ _ _ _ hp2 hG
  rename_i xs pos
  rcases (ih.macroexpand s0 t0 env (.list xs pos) d d' G hp2 hG).cases with
    ⟨s1, e⟩ | ⟨ast, s1, t1, e1, e2, hs1⟩ | ⟨e, s1, t1, e1, e2, hs1⟩
  · rw [e]; exact RRel.oof
  rotate_left
  · rw [e1, e2]; exact RRel.same hs1
  rw [e1, e2]; dsimp only
  clear e1 e2 hp2 hs hd xs pos s0 t0 s t
  cases ast <;> (try dsimp only) <;> try exact ih.evalAst _ _ _ _ _ _ _ hs1 hG
  rename_i xs pos
  cases xs with
  | nil => exact RRel.same hs1
  | cons a0 ops =>
  dsimp only
  generalize evalLoop.match_1 (fun _ => String) a0 (fun s _ => s) (fun _ => "__<*fn>__") = a0sym
  by_cases h1 : a0sym = "def"
  · rw [if_pos h1, if_pos h1]
    sim_bind (ih.eval s1 t1 env _ (d + 1) (d' + 1) G hs1 hG) with v s2 t2 hs2
    · split <;> sim_done
    · sim_done
  rw [if_neg h1, if_neg h1]; clear h1
  by_cases h1 : a0sym = "let"
  · rw [if_pos h1, if_pos h1]
    obtain ⟨hs2, e⟩ := hs1.newScope env []
    rw [← e]
    split
    · sim_done
    split
    · sim_done
    sim_bind (ih.letBinds _ _ _ _ _ d d' G hs2 hG) with v s3 t3 hs3
    · sim_bind (ih.doForms _ _ _ _ _ _ d d' G hs3 hG) with v s4 t4 hs4
      · exact sim_continue ih hG hG' hs4 _ _ _ _
      · sim_done
    · sim_done
  rw [if_neg h1, if_neg h1]; clear h1
  by_cases h1 : a0sym = "quote"
  · rw [if_pos h1, if_pos h1]; sim_done
  rw [if_neg h1, if_neg h1]; clear h1
  by_cases h1 : a0sym = "quasiquoteexpand"
  · rw [if_pos h1, if_pos h1]; sim_done
  rw [if_neg h1, if_neg h1]; clear h1
  by_cases h1 : a0sym = "quasiquote"
  · rw [if_pos h1, if_pos h1]; exact sim_continue ih hG hG' hs1 _ _ _ _
  rw [if_neg h1, if_neg h1]; clear h1
  by_cases h1 : a0sym = "defmacro"
  · rw [if_pos h1, if_pos h1]
    sim_bind (ih.eval s1 t1 env _ (d + 1) (d' + 1) G hs1 hG) with v s2 t2 hs2
    · split
      · split <;> sim_done
      · sim_done
    · sim_done
  rw [if_neg h1, if_neg h1]; clear h1
  by_cases h1 : a0sym = "macroexpand"
  · rw [if_pos h1, if_pos h1]; exact ih.macroexpand _ _ _ _ _ _ _ hs1 hG
  rw [if_neg h1, if_neg h1]; clear h1
  by_cases h1 : a0sym = "try"
  · rw [if_pos h1, if_pos h1]
    split
    · sim_done
    split
    · sim_done
    rename_i parts _
    sim_bind (ih.doForms s1 t1 env parts.body 0 false d d' G hs1 hG) with v s2 t2 hs2
    · split
      · exact RRel.same (hs2.outing1Defer₂)
      · sim_bind (ih.doForms s2 t2 env _ 0 false d d' G hs2 hG) with w s3 t3 hs3 <;> sim_done
    · cases parts.catchDo <;> cases parts.catchBind <;> dsimp only
      · (split; exact RRel.same hs2.outing1Defer₂; sim_bind (ih.doForms s2 t2 env _ 0 false d d' G hs2 hG) with w s5 t5 hs5 <;> sim_done)
      · (split; exact RRel.same hs2.outing1Defer₂; sim_bind (ih.doForms s2 t2 env _ 0 false d d' G hs2 hG) with w s5 t5 hs5 <;> sim_done)
      · (split; exact RRel.same hs2.outing1Defer₂; sim_bind (ih.doForms s2 t2 env _ 0 false d d' G hs2 hG) with w s5 t5 hs5 <;> sim_done)
      · generalize bindParams _ _ = bp
        cases bp <;> dsimp only
        · (split; exact RRel.same hs2.outing1Defer₂; sim_bind (ih.doForms s2 t2 env _ 0 false d d' G hs2 hG) with w s5 t5 hs5 <;> sim_done)
        · obtain ⟨hs3, e⟩ := hs2.newScope env ‹_›
          rw [← e]
          sim_bind (ih.doForms _ _ _ _ 0 false d d' G hs3 hG) with w s4 t4 hs4
          · (split; exact RRel.same hs4.outing1Defer₂; sim_bind (ih.doForms s4 t4 env _ 0 false d d' G hs4 hG) with w s5 t5 hs5 <;> sim_done)
          · (split; exact RRel.same hs4.outing1Defer₂; sim_bind (ih.doForms s4 t4 env _ 0 false d d' G hs4 hG) with w s5 t5 hs5 <;> sim_done)
  rw [if_neg h1, if_neg h1]; clear h1
  by_cases h1 : a0sym = "do"
  · rw [if_pos h1, if_pos h1]
    sim_bind (ih.doForms _ _ _ _ _ _ d d' G hs1 hG) with v s2 t2 hs2
    · exact sim_continue ih hG hG' hs2 _ _ _ _
    · sim_done
  rw [if_neg h1, if_neg h1]; clear h1
  by_cases h1 : a0sym = "if"
  · rw [if_pos h1, if_pos h1]
    sim_bind (ih.eval s1 t1 env _ (d + 1) (d' + 1) G hs1 hG) with v s2 t2 hs2
    · split
      · exact sim_continue ih hG hG' hs2 _ _ _ _
      split
      · exact sim_continue ih hG hG' hs2 _ _ _ _
      · sim_done
    · sim_done
  rw [if_neg h1, if_neg h1]; clear h1
  by_cases h1 : a0sym = "fn"
  · rw [if_pos h1, if_pos h1]
    split <;> sim_done
  rw [if_neg h1, if_neg h1]; clear h1
  sim_bind (ih.evalList s1 t1 env _ d d' G hs1 hG) with el s2 t2 hs2
  · cases el with
    | nil => sim_done
    | cons f args =>
      dsimp only
      split
      · split
        · split <;> sim_done
        · obtain ⟨hs3, e⟩ := hs2.newScope ‹_› ‹_›
          rw [← e]
          exact sim_continue ih hG hG' hs3 _ _ _ _
      · sim_bind (ih.callBuiltin s2 t2 _ _ d d' G hs2 hG) with v s3 t3 hs3 <;> sim_done
      · sim_done
  · sim_done

theorem evalAst_step {c : Bool} {F : Nat} (ih : IH c F) : ∀ s t env ast d d' F', Sim c s t → FuelOK c (F + 1) F' →
    RRel c (evalAst (F + 1) s env ast d) (evalAst F' t env ast d') := by
  intro s t env ast d d' F' hs hF
  obtain ⟨G, rfl, hG, hG'⟩ := hF.pred
  cases ast <;> simp only [evalAst] <;> try sim_done
  · rw [hs.get]; split <;> sim_done
  · sim_bind (ih.evalList s t env _ d d' G hs hG) with v s1 t1 hs1 <;> sim_done
  · sim_bind (ih.evalList s t env _ d d' G hs hG) with v s1 t1 hs1 <;> sim_done
  · sim_bind (ih.evalMap s t env _ d d' G hs hG) with v s1 t1 hs1 <;> sim_done

theorem evalMap_step {c : Bool} {F : Nat} (ih : IH c F) : ∀ s t env kvs d d' F', Sim c s t → FuelOK c (F + 1) F' →
    RRel c (evalMap (F + 1) s env kvs d) (evalMap F' t env kvs d') := by
  intro s t env kvs d d' F' hs hF
  obtain ⟨G, rfl, hG, hG'⟩ := hF.pred
  cases kvs with
  | nil => rw [evalMap, evalMap]; sim_done
  | cons kv r =>
    obtain ⟨k, x⟩ := kv
    rw [evalMap, evalMap]
    sim_bind (ih.eval s t env x (d + 1) (d' + 1) G hs hG) with v s1 t1 hs1
    · sim_bind (ih.evalMap s1 t1 env r d d' G hs1 hG) with m s2 t2 hs2 <;> sim_done
    · sim_done

theorem letBinds_step {c : Bool} {F : Nat} (ih : IH c F) : ∀ s t env bs a1 d d' F', Sim c s t → FuelOK c (F + 1) F' →
    RRel c (letBinds (F + 1) s env bs a1 d) (letBinds F' t env bs a1 d') := by
  intro s t env bs a1 d d' F' hs hF
  obtain ⟨G, rfl, hG, hG'⟩ := hF.pred
  match bs with
  | [] => rw [letBinds, letBinds]; sim_done
  | [_] => rw [letBinds, letBinds]; sim_done
  | b :: x :: rest =>
    cases b <;> simp only [letBinds] <;> try sim_done
    sim_bind (ih.eval s t env x (d + 1) (d' + 1) G hs hG) with v s1 t1 hs1
    · exact ih.letBinds _ _ _ _ _ _ _ _ (hs1.set _ _ _) hG
    · sim_done

theorem macroexpand_step {c : Bool} {F : Nat} (ih : IH c F) : ∀ s t env ast d d' F', Sim c s t → FuelOK c (F + 1) F' →
    RRel c (macroexpand (F + 1) s env ast d) (macroexpand F' t env ast d') := by
  intro s t env ast d d' F' hs hF
  obtain ⟨G, rfl, hG, hG'⟩ := hF.pred
  rw [macroexpand.eq_def, macroexpand.eq_def]
  dsimp only
  split
  · rw [hs.get]
    split
    · split
      · sim_done
      · obtain ⟨hs3, e⟩ := hs.newScope ‹_› ‹_›
        rw [← e]
        sim_bind (ih.eval _ _ _ _ (d + 1) (d' + 1) G hs3 hG) with v s1 t1 hs1
        · exact ih.macroexpand _ _ _ _ _ _ _ hs1 hG
        · sim_done
    · sim_done
  · sim_done

theorem apply_step {c : Bool} {F : Nat} (ih : IH c F) : ∀ s t f args d d' F', Sim c s t → FuelOK c (F + 1) F' →
    RRel c (apply (F + 1) s f args d) (apply F' t f args d') := by
  intro s t f args d d' F' hs hF
  obtain ⟨G, rfl, hG, hG'⟩ := hF.pred
  rw [apply.eq_def, apply.eq_def]
  dsimp only
  split
  · split
    · sim_done
    · obtain ⟨hs3, e⟩ := hs.newScope ‹_› ‹_›
      rw [← e]
      exact ih.eval _ _ _ _ _ _ _ hs3 hG
  · exact ih.callBuiltin _ _ _ _ _ _ _ hs hG
  · sim_done

theorem mapLoop_step {c : Bool} {F : Nat} (ih : IH c F) : ∀ s t f xs d d' F', Sim c s t → FuelOK c (F + 1) F' →
    RRel c (mapLoop (F + 1) s f xs d) (mapLoop F' t f xs d') := by
  intro s t f xs d d' F' hs hF
  obtain ⟨G, rfl, hG, hG'⟩ := hF.pred
  cases xs with
  | nil => rw [mapLoop, mapLoop]; sim_done
  | cons x xs =>
    rw [mapLoop, mapLoop]
    sim_bind (ih.apply s t f [x] d d' G hs hG) with v s1 t1 hs1
    · sim_bind (ih.mapLoop s1 t1 f xs d d' G hs1 hG) with vs s2 t2 hs2 <;> sim_done
    · sim_done

theorem update1_step {c : Bool} {F : Nat} (ih : IH c F) : ∀ s t v i f d d' F', Sim c s t → FuelOK c (F + 1) F' →
    RRel c (update1 (F + 1) s v i f d) (update1 F' t v i f d') := by
  intro s t v i f d d' F' hs hF
  obtain ⟨G, rfl, hG, hG'⟩ := hF.pred
  rw [update1.eq_def, update1.eq_def]
  dsimp only
  split
  · split
    · sim_done
    · sim_bind (ih.apply s t f _ d d' G hs hG) with r s1 t1 hs1
      · split <;> sim_done
      · sim_done
  · split
    · sim_done
    · sim_bind (ih.apply s t f _ d d' G hs hG) with r s1 t1 hs1
      · split <;> sim_done
      · sim_done
  · sim_done

theorem updateIn_step {c : Bool} {F : Nat} (ih : IH c F) : ∀ s t v path f d d' F', Sim c s t → FuelOK c (F + 1) F' →
    RRel c (updateIn (F + 1) s v path f d) (updateIn F' t v path f d') := by
  intro s t v path f d d' F' hs hF
  obtain ⟨G, rfl, hG, hG'⟩ := hF.pred
  match path with
  | [] => rw [updateIn, updateIn]; sim_done
  | [i] => rw [updateIn, updateIn]; exact ih.update1 _ _ _ _ _ _ _ _ hs hG
  | i :: j :: rest =>
    rw [updateIn.eq_def, updateIn.eq_def]
    dsimp only
    split
    · sim_done
    · split <;> simp only [Bool.not_false, Bool.not_true, Bool.false_eq_true, ↓reduceIte] <;> try sim_done
      all_goals
        sim_bind (ih.updateIn s t _ _ f d d' G hs hG) with r s1 t1 hs1
        · split <;> sim_done
        · sim_done

theorem callBuiltin_step {c : Bool} {F : Nat} (ih : IH c F) : ∀ s t name args d d' F', Sim c s t → FuelOK c (F + 1) F' →
    RRel c (callBuiltin (F + 1) s name args d) (callBuiltin F' t name args d') := by
  intro s t name args d d' F' hs hF
  obtain ⟨G, rfl, hG, hG'⟩ := hF.pred
  rw [callBuiltin.eq_def, callBuiltin.eq_def]
  dsimp only
  by_cases h1 : name = "trace!"
  · rw [if_pos h1, if_pos h1]
    split
    · exact RRel.same ⟨hs.1, hs.2, hs.3, by simp only [hs.trace], hs.5, hs.6⟩
    · sim_done
  rw [if_neg h1, if_neg h1]; clear h1
  by_cases h1 : name = "depth!"
  · rw [if_pos h1, if_pos h1]
    split
    · exact RRel.same ⟨hs.1, hs.2, hs.3, hs.4, hs.5, hs.6⟩
    · sim_done
  rw [if_neg h1, if_neg h1]; clear h1
  by_cases h1 : name = "eval"
  · rw [if_pos h1, if_pos h1]
    split
    · exact ih.eval _ _ _ _ _ _ _ hs hG
    · sim_done
  rw [if_neg h1, if_neg h1]; clear h1
  by_cases h1 : name = "apply"
  · rw [if_pos h1, if_pos h1]
    split
    · split
      · sim_done
      · split
        · sim_done
        · exact ih.apply _ _ _ _ _ _ _ hs hG
    · sim_done
  rw [if_neg h1, if_neg h1]; clear h1
  by_cases h1 : name = "map"
  · rw [if_pos h1, if_pos h1]
    split
    · split
      · sim_done
      · sim_bind (ih.mapLoop s t _ _ d d' G hs hG) with r s1 t1 hs1 <;> sim_done
    · sim_done
  rw [if_neg h1, if_neg h1]; clear h1
  by_cases h1 : name = "atom"
  · rw [if_pos h1, if_pos h1]
    split
    · simp only [State.newAtom, hs.atoms]
      exact RRel.same ⟨hs.1, hs.2, rfl, hs.4, hs.5, hs.6⟩
    · sim_done
  rw [if_neg h1, if_neg h1]; clear h1
  by_cases h1 : name = "deref"
  · rw [if_pos h1, if_pos h1, hs.atoms]
    split <;> sim_done
  rw [if_neg h1, if_neg h1]; clear h1
  by_cases h1 : name = "reset!"
  · rw [if_pos h1, if_pos h1]
    split
    · exact RRel.same ⟨hs.1, hs.2, by simp only [hs.atoms], hs.4, hs.5, hs.6⟩
    · sim_done
    · sim_done
  rw [if_neg h1, if_neg h1]; clear h1
  by_cases h1 : name = "swap!"
  · rw [if_pos h1, if_pos h1, hs.atoms]
    split
    · sim_bind (ih.apply s t _ _ d d' G hs hG) with r s1 t1 hs1
      · exact RRel.same ⟨hs1.1, hs1.2, by simp only [hs1.atoms], hs1.4, hs1.5, hs1.6⟩
      · sim_done
    · sim_done
    · sim_done
  rw [if_neg h1, if_neg h1]; clear h1
  by_cases h1 : name = "update"
  · rw [if_pos h1, if_pos h1]
    split
    · sim_done
    · exact ih.update1 _ _ _ _ _ _ _ _ hs hG
    · sim_done
  rw [if_neg h1, if_neg h1]; clear h1
  by_cases h1 : name = "update-in"
  · rw [if_pos h1, if_pos h1]
    split
    · split
      · sim_done
      · exact ih.updateIn _ _ _ _ _ _ _ _ hs hG
    · sim_done
    · sim_done
  rw [if_neg h1, if_neg h1]; clear h1
  split <;> sim_done

/-- the simulation holds at every fuel, in both modes -/
theorem ih_all (c : Bool) : ∀ F, IH c F
  | 0 => ih_zero c
  | F + 1 =>
    have ih := ih_all c F
    ⟨eval_step ih, evalLoop_step ih, evalAst_step ih, evalList_step ih, evalMap_step ih, doForms_step ih,
     letBinds_step ih, macroexpand_step ih, apply_step ih, mapLoop_step ih, updateIn_step ih,
     update1_step ih, callBuiltin_step ih⟩

/-! ### consequences for `EVAL` -/

theorem FuelOK.of_le {F F' : Nat} (h : F ≤ F') : FuelOK true F F' := by
  unfold FuelOK; simp only [if_true]; exact h

theorem FuelOK.of_two_mul_le {F F' : Nat} (h : 2 * F ≤ F') : FuelOK false F F' := by
  unfold FuelOK; simp only [Bool.false_eq_true, if_false]; exact h

/-- a terminated run from `s` (at any depth) is reproduced by the run from any `t` with `Sim c s t`,
    at any depth and any fuel `F'` with `FuelOK c F F'` -/
theorem eval_sim {c : Bool} {F F' : Nat} {s t : State} (hs : Sim c s t) (hF : FuelOK c F F')
    (env : Nat) (ast : Val) (d d' : Nat)
    {r : Res Val} {s' : State} (h : eval F s env ast d = (r, s')) (hr : r ≠ .oof) :
    ∃ t', eval F' t env ast d' = (r, t') ∧ Sim c s' t' := by
  have := (ih_all c F).eval s t env ast d d' F' hs hF
  rw [h] at this
  obtain ⟨e, hs'⟩ := this hr
  exact ⟨(eval F' t env ast d').2, Prod.ext e rfl, hs'⟩

/-- two terminated runs from states with the same observables agree, whatever their steppers,
    depths and fuels -/
theorem eval_agree {F₁ F₂ : Nat} {s₁ s₂ : State} (ho : Obs s₁ s₂) (env : Nat) (ast : Val) (d₁ d₂ : Nat)
    {r₁ r₂ : Res Val} {s₁' s₂' : State}
    (h₁ : eval F₁ s₁ env ast d₁ = (r₁, s₁')) (hr₁ : r₁ ≠ .oof)
    (h₂ : eval F₂ s₂ env ast d₂ = (r₂, s₂')) (hr₂ : r₂ ≠ .oof) :
    r₁ = r₂ ∧ Obs s₁' s₂' := by
  have hs₁ : Sim true s₁ (erase s₁) := Sim.erase s₁
  have hs₂ : Sim true s₂ (erase s₁) := (Sim.erase s₁).ofObs ho.symm
  obtain ⟨t₁, e₁, k₁⟩ := eval_sim hs₁ (FuelOK.of_le (Nat.le_max_left F₁ F₂)) env ast d₁ 0 h₁ hr₁
  obtain ⟨t₂, e₂, k₂⟩ := eval_sim hs₂ (FuelOK.of_le (Nat.le_max_right F₁ F₂)) env ast d₂ 0 h₂ hr₂
  rw [e₁] at e₂
  injection e₂ with er et
  subst et
  exact ⟨er, k₁.obs.trans k₂.obs.symm⟩

/-! ### the callback log only grows, and only in the prologue of `EVAL` -/

/-- the forms handed to the callback so far (most recent first) -/
def callsOf (s : State) : Option (List Val) := s.stepper.map (·.calls)

/-- `Ext s s'`: `s'` has a stepper iff `s` has, and its callback log extends that of `s` -/
def Ext (s s' : State) : Prop :=
  match callsOf s, callsOf s' with
  | none, none => True
  | some c, some c' => ∃ new, c' = new ++ c
  | _, _ => False

theorem Ext.of_eq {s s' : State} (h : callsOf s' = callsOf s) : Ext s s' := by
  unfold Ext; rw [h]
  cases callsOf s with
  | none => trivial
  | some c => exact ⟨[], rfl⟩

theorem Ext.refl (s : State) : Ext s s := Ext.of_eq rfl

theorem Ext.trans {s t u : State} (h : Ext s t) (k : Ext t u) : Ext s u := by
  unfold Ext at *
  cases hs : callsOf s <;> cases ht : callsOf t <;> cases hu : callsOf u <;>
    simp only [hs, ht, hu] at h k ⊢ <;> try contradiction
  obtain ⟨n1, e1⟩ := h
  obtain ⟨n2, e2⟩ := k
  exact ⟨n2 ++ n1, by rw [e2, e1, List.append_assoc]⟩

theorem Ext.bind {α : Type} {s : State} {p : Res α × State} {motive : Prop} (h : Ext s p.2)
    (k : ∀ r s1, p = (r, s1) → Ext s s1 → motive) : motive := k p.1 p.2 rfl h

theorem callsOf_set (s : State) (env : Nat) (k : String) (v : Val) : callsOf (s.set env k v) = callsOf s := by
  unfold State.set; split <;> rfl

/-- close a leaf goal -/
macro "ext_done" : tactic =>
  `(tactic| first
      | exact Ext.refl _
      | exact Ext.of_eq rfl
      | exact Ext.of_eq (callsOf_set _ _ _ _)
      | assumption)

/-- split on a sub-call whose log extension is `h`; the goal continues from the state it returns -/
macro "ext_bind " h:term " with " v:ident s:ident : tactic =>
  `(tactic|
    (apply Ext.bind $h
     intro r $s e h1
     rw [e]
     refine Ext.trans h1 ?_
     clear e h1
     rcases r with $v:ident | $v:ident | _ <;> (try dsimp only) <;> (try ext_done)))

structure IHc (F : Nat) : Prop where
  eval : ∀ s env ast d, Ext s (eval F s env ast d).2
  evalLoop : ∀ s env ast d, Ext s (evalLoop F s env ast d).2
  evalAst : ∀ s env ast d, Ext s (evalAst F s env ast d).2
  evalList : ∀ s env xs d, Ext s (evalList F s env xs d).2
  evalMap : ∀ s env kvs d, Ext s (evalMap F s env kvs d).2
  doForms : ∀ s env lst from_ keep d, Ext s (doForms F s env lst from_ keep d).2
  letBinds : ∀ s env bs a1 d, Ext s (letBinds F s env bs a1 d).2
  macroexpand : ∀ s env ast d, Ext s (macroexpand F s env ast d).2
  apply : ∀ s f args d, Ext s (apply F s f args d).2
  mapLoop : ∀ s f xs d, Ext s (mapLoop F s f xs d).2
  updateIn : ∀ s v path f d, Ext s (updateIn F s v path f d).2
  update1 : ∀ s v i f d, Ext s (update1 F s v i f d).2
  callBuiltin : ∀ s name args d, Ext s (callBuiltin F s name args d).2

theorem ihc_zero : IHc 0 := by
  constructor <;> intros <;> first
    | (rw [eval.eq_def]; exact Ext.refl _) | (rw [evalLoop.eq_def]; exact Ext.refl _)
    | (rw [evalAst.eq_def]; exact Ext.refl _) | (rw [evalList.eq_def]; exact Ext.refl _)
    | (rw [evalMap.eq_def]; exact Ext.refl _) | (rw [doForms.eq_def]; exact Ext.refl _)
    | (rw [letBinds.eq_def]; exact Ext.refl _) | (rw [macroexpand.eq_def]; exact Ext.refl _)
    | (rw [apply.eq_def]; exact Ext.refl _) | (rw [mapLoop.eq_def]; exact Ext.refl _)
    | (rw [updateIn.eq_def]; exact Ext.refl _) | (rw [update1.eq_def]; exact Ext.refl _)
    | (rw [callBuiltin.eq_def]; exact Ext.refl _)

theorem evalList_ext {F : Nat} (ih : IHc F) : ∀ s env xs d, Ext s (evalList (F + 1) s env xs d).2 := by
  intro s env xs d
  cases xs with
  | nil => rw [evalList]; ext_done
  | cons x xs =>
    rw [evalList]
    ext_bind (ih.eval s env x (d + 1)) with v s1
    ext_bind (ih.evalList s1 env xs d) with vs s2

theorem ext_continue {F : Nat} (ih : IHc F) (s : State) (env ast d) :
    Ext s (eval.match_3 (fun _ => R) s.stepper (fun _ => evalLoop F s env ast d)
            (fun _ => eval F s env ast (d + 1))).2 := by
  cases s.stepper with
  | none => exact ih.evalLoop _ _ _ _
  | some _ => exact ih.eval _ _ _ _

theorem Ext.outing1Defer (s : State) : Ext s (outing1Defer s) := by
  unfold LispModel.outing1Defer
  split
  · split
    · rename_i sp h _
      apply Ext.of_eq; simp only [callsOf, h, Option.map]
    · ext_done
  · ext_done

theorem evalLoop_ext {F : Nat} (ih : IHc F) : ∀ s env ast d, Ext s (evalLoop (F + 1) s env ast d).2 := by
  intro s env ast d
  rw [evalLoop]
  have hp : Ext s s.poll.2 := Ext.of_eq rfl
  generalize s.poll = p at hp ⊢
  obtain ⟨done, s0⟩ := p
  dsimp only at hp ⊢
  refine Ext.trans hp ?_
  clear hp s
  by_cases hd : done = true
  · rw [if_pos hd]; ext_done
  rw [if_neg hd]
  cases ast <;> (try dsimp only) <;> try exact ih.evalAst _ _ _ _
  rename_i xs pos
  ext_bind (ih.macroexpand s0 env (.list xs pos) d) with ast s1
  clear hd xs pos s0
  cases ast <;> (try dsimp only) <;> try exact ih.evalAst _ _ _ _
  rename_i xs pos
  cases xs with
  | nil => ext_done
  | cons a0 ops =>
  dsimp only
  generalize evalLoop.match_1 (fun _ => String) a0 (fun s _ => s) (fun _ => "__<*fn>__") = a0sym
  by_cases h1 : a0sym = "def"
  · rw [if_pos h1]
    ext_bind (ih.eval s1 env _ (d + 1)) with v s2
    split <;> ext_done
  rw [if_neg h1]; clear h1
  by_cases h1 : a0sym = "let"
  · rw [if_pos h1]
    refine Ext.trans (t := (s1.newScope env []).1) (Ext.of_eq rfl) ?_
    split
    · ext_done
    split
    · ext_done
    ext_bind (ih.letBinds _ _ _ _ d) with v s3
    ext_bind (ih.doForms s3 _ _ _ _ d) with v s4
    exact ext_continue ih _ _ _ _
  rw [if_neg h1]; clear h1
  by_cases h1 : a0sym = "quote"
  · rw [if_pos h1]; ext_done
  rw [if_neg h1]; clear h1
  by_cases h1 : a0sym = "quasiquoteexpand"
  · rw [if_pos h1]; ext_done
  rw [if_neg h1]; clear h1
  by_cases h1 : a0sym = "quasiquote"
  · rw [if_pos h1]; exact ext_continue ih _ _ _ _
  rw [if_neg h1]; clear h1
  by_cases h1 : a0sym = "defmacro"
  · rw [if_pos h1]
    ext_bind (ih.eval s1 env _ (d + 1)) with v s2
    split
    · split <;> ext_done
    · ext_done
  rw [if_neg h1]; clear h1
  by_cases h1 : a0sym = "macroexpand"
  · rw [if_pos h1]; exact ih.macroexpand _ _ _ _
  rw [if_neg h1]; clear h1
  by_cases h1 : a0sym = "try"
  · rw [if_pos h1]
    split
    · ext_done
    split
    · ext_done
    rename_i parts _
    ext_bind (ih.doForms s1 env parts.body 0 false d) with v s2
    · (split; exact Ext.outing1Defer _; ext_bind (ih.doForms _ env _ 0 false d) with w s5)
    · cases parts.catchDo <;> cases parts.catchBind <;> dsimp only
      · (split; exact Ext.outing1Defer _; ext_bind (ih.doForms _ env _ 0 false d) with w s5)
      · (split; exact Ext.outing1Defer _; ext_bind (ih.doForms _ env _ 0 false d) with w s5)
      · (split; exact Ext.outing1Defer _; ext_bind (ih.doForms _ env _ 0 false d) with w s5)
      · generalize bindParams _ _ = bp
        cases bp <;> dsimp only
        · (split; exact Ext.outing1Defer _; ext_bind (ih.doForms _ env _ 0 false d) with w s5)
        · refine Ext.bind (p := doForms F (s2.newScope env ‹_›).1 (s2.newScope env ‹_›).2 ‹_› 0 false d)
            (ih.doForms _ _ _ _ _ _) (fun r s4 e h4 => ?_)
          rw [e]
          replace h4 : Ext s2 s4 := Ext.trans (Ext.of_eq rfl) h4
          refine Ext.trans h4 ?_
          clear e h4
          rcases r with w | w | _ <;> dsimp only
          · (split; exact Ext.outing1Defer _; ext_bind (ih.doForms _ env _ 0 false d) with w s5)
          · (split; exact Ext.outing1Defer _; ext_bind (ih.doForms _ env _ 0 false d) with w s5)
          · ext_done
  rw [if_neg h1]; clear h1
  by_cases h1 : a0sym = "do"
  · rw [if_pos h1]
    ext_bind (ih.doForms s1 _ _ _ _ d) with v s2
    exact ext_continue ih _ _ _ _
  rw [if_neg h1]; clear h1
  by_cases h1 : a0sym = "if"
  · rw [if_pos h1]
    ext_bind (ih.eval s1 env _ (d + 1)) with v s2
    split
    · exact ext_continue ih _ _ _ _
    split
    · exact ext_continue ih _ _ _ _
    · ext_done
  rw [if_neg h1]; clear h1
  by_cases h1 : a0sym = "fn"
  · rw [if_pos h1]
    split <;> ext_done
  rw [if_neg h1]; clear h1
  ext_bind (ih.evalList s1 env _ d) with el s2
  cases el with
  | nil => ext_done
  | cons f args =>
    dsimp only
    split
    · split
      · split <;> ext_done
      · refine Ext.trans (t := (s2.newScope ‹_› ‹_›).1) (Ext.of_eq rfl) ?_
        exact ext_continue ih _ _ _ _
    · ext_bind (ih.callBuiltin s2 _ _ d) with v s3
    · ext_done

theorem prologue_calls (sp : Stepper) (ast : Val) :
    (prologue sp ast).1.calls = if sp.skip then sp.calls else ast :: sp.calls := by
  unfold prologue
  cases sp.skip <;> simp only [Bool.not_true, Bool.not_false, Bool.false_eq_true, ↓reduceIte]
  split <;> rfl

theorem epilogue_calls (a b : Bool) (st : State) : callsOf (epilogue a b st) = callsOf st := by
  unfold epilogue callsOf
  split
  · rfl
  · rename_i sp' h
    rw [h]; cases a <;> cases b <;> rfl

theorem doFin_calls (had : Bool) (r : R) : callsOf (doFin had r).2 = callsOf r.2 := by
  unfold doFin callsOf
  split
  · split
    · rename_i sp h; rw [h]; rfl
    · rfl
  · rfl

theorem eval_ext {F : Nat} (ih : IHc F) : ∀ s env ast d, Ext s (eval (F + 1) s env ast d).2 := by
  intro s env ast d
  cases hst : s.stepper with
  | none => rw [eval, hst]; exact ih.evalLoop _ _ _ _
  | some sp =>
    rw [eval_some F s env ast d sp hst]
    refine Ext.trans (t := { s with stepper := some (prologue sp ast).1 }) ?_
      (Ext.trans (ih.evalLoop _ _ _ _) (Ext.of_eq (epilogue_calls _ _ _)))
    unfold Ext callsOf
    rw [hst]
    simp only [Option.map, prologue_calls]
    cases sp.skip with
    | true => exact ⟨[], rfl⟩
    | false => exact ⟨[ast], rfl⟩

theorem evalAst_ext {F : Nat} (ih : IHc F) : ∀ s env ast d, Ext s (evalAst (F + 1) s env ast d).2 := by
  intro s env ast d
  cases ast <;> simp only [evalAst] <;> try ext_done
  · split <;> ext_done
  · ext_bind (ih.evalList s env _ d) with v s1
  · ext_bind (ih.evalList s env _ d) with v s1
  · ext_bind (ih.evalMap s env _ d) with v s1

theorem evalMap_ext {F : Nat} (ih : IHc F) : ∀ s env kvs d, Ext s (evalMap (F + 1) s env kvs d).2 := by
  intro s env kvs d
  cases kvs with
  | nil => rw [evalMap]; ext_done
  | cons kv r =>
    obtain ⟨k, x⟩ := kv
    rw [evalMap]
    ext_bind (ih.eval s env x (d + 1)) with v s1
    ext_bind (ih.evalMap s1 env r d) with m s2

theorem letBinds_ext {F : Nat} (ih : IHc F) : ∀ s env bs a1 d, Ext s (letBinds (F + 1) s env bs a1 d).2 := by
  intro s env bs a1 d
  match bs with
  | [] => rw [letBinds]; ext_done
  | [_] => rw [letBinds]; ext_done
  | b :: x :: rest =>
    cases b <;> simp only [letBinds] <;> try ext_done
    ext_bind (ih.eval s env x (d + 1)) with v s1
    exact Ext.trans (Ext.of_eq (callsOf_set _ _ _ _)) (ih.letBinds _ _ _ _ _)

theorem doForms_ext {F : Nat} (ih : IHc F) : ∀ s env lst from_ keep d,
    Ext s (doForms (F + 1) s env lst from_ keep d).2 := by
  intro s env lst from_ keep d
  rw [doForms_eq]
  refine Ext.trans ?_ (Ext.of_eq (doFin_calls _ _))
  unfold doCore
  split
  · ext_done
  · ext_bind (ih.evalList s env _ d) with v s1

theorem macroexpand_ext {F : Nat} (ih : IHc F) : ∀ s env ast d, Ext s (macroexpand (F + 1) s env ast d).2 := by
  intro s env ast d
  rw [macroexpand.eq_def]
  dsimp only
  split
  · split
    · split
      · ext_done
      · refine Ext.trans (t := (s.newScope ‹_› ‹_›).1) (Ext.of_eq rfl) ?_
        ext_bind (ih.eval _ _ _ (d + 1)) with v s1
        exact ih.macroexpand _ _ _ _
    · ext_done
  · ext_done

theorem apply_ext {F : Nat} (ih : IHc F) : ∀ s f args d, Ext s (apply (F + 1) s f args d).2 := by
  intro s f args d
  rw [apply.eq_def]
  dsimp only
  split
  · split
    · ext_done
    · exact Ext.trans (t := (s.newScope ‹_› ‹_›).1) (Ext.of_eq rfl) (ih.eval _ _ _ _)
  · exact ih.callBuiltin _ _ _ _
  · ext_done

theorem mapLoop_ext {F : Nat} (ih : IHc F) : ∀ s f xs d, Ext s (mapLoop (F + 1) s f xs d).2 := by
  intro s f xs d
  cases xs with
  | nil => rw [mapLoop]; ext_done
  | cons x xs =>
    rw [mapLoop]
    ext_bind (ih.apply s f [x] d) with v s1
    ext_bind (ih.mapLoop s1 f xs d) with vs s2

theorem update1_ext {F : Nat} (ih : IHc F) : ∀ s v i f d, Ext s (update1 (F + 1) s v i f d).2 := by
  intro s v i f d
  rw [update1.eq_def]
  dsimp only
  split
  · split
    · ext_done
    · ext_bind (ih.apply s f _ d) with r s1
      split <;> ext_done
  · split
    · ext_done
    · ext_bind (ih.apply s f _ d) with r s1
      split <;> ext_done
  · ext_done

theorem updateIn_ext {F : Nat} (ih : IHc F) : ∀ s v path f d, Ext s (updateIn (F + 1) s v path f d).2 := by
  intro s v path f d
  match path with
  | [] => rw [updateIn]; ext_done
  | [i] => rw [updateIn]; exact ih.update1 _ _ _ _ _
  | i :: j :: rest =>
    rw [updateIn.eq_def]
    dsimp only
    split
    · ext_done
    · split <;> simp only [Bool.not_false, Bool.not_true, Bool.false_eq_true, ↓reduceIte] <;> try ext_done
      all_goals
        ext_bind (ih.updateIn s _ _ f d) with r s1
        split <;> ext_done

theorem callBuiltin_ext {F : Nat} (ih : IHc F) : ∀ s name args d,
    Ext s (callBuiltin (F + 1) s name args d).2 := by
  intro s name args d
  rw [callBuiltin.eq_def]
  dsimp only
  by_cases h1 : name = "trace!"
  · rw [if_pos h1]; split <;> ext_done
  rw [if_neg h1]; clear h1
  by_cases h1 : name = "depth!"
  · rw [if_pos h1]; split <;> ext_done
  rw [if_neg h1]; clear h1
  by_cases h1 : name = "eval"
  · rw [if_pos h1]
    split
    · exact ih.eval _ _ _ _
    · ext_done
  rw [if_neg h1]; clear h1
  by_cases h1 : name = "apply"
  · rw [if_pos h1]
    split
    · split
      · ext_done
      · split
        · ext_done
        · exact ih.apply _ _ _ _
    · ext_done
  rw [if_neg h1]; clear h1
  by_cases h1 : name = "map"
  · rw [if_pos h1]
    split
    · split
      · ext_done
      · ext_bind (ih.mapLoop s _ _ d) with r s1
    · ext_done
  rw [if_neg h1]; clear h1
  by_cases h1 : name = "atom"
  · rw [if_pos h1]; split <;> ext_done
  rw [if_neg h1]; clear h1
  by_cases h1 : name = "deref"
  · rw [if_pos h1]; split <;> ext_done
  rw [if_neg h1]; clear h1
  by_cases h1 : name = "reset!"
  · rw [if_pos h1]; split <;> ext_done
  rw [if_neg h1]; clear h1
  by_cases h1 : name = "swap!"
  · rw [if_pos h1]
    split
    · ext_bind (ih.apply s _ _ d) with r s1
    · ext_done
    · ext_done
  rw [if_neg h1]; clear h1
  by_cases h1 : name = "update"
  · rw [if_pos h1]
    split
    · ext_done
    · exact ih.update1 _ _ _ _ _
    · ext_done
  rw [if_neg h1]; clear h1
  by_cases h1 : name = "update-in"
  · rw [if_pos h1]
    split
    · split
      · ext_done
      · exact ih.updateIn _ _ _ _ _
    · ext_done
    · ext_done
  rw [if_neg h1]; clear h1
  split <;> ext_done

/-- the callback log only grows, at every fuel, in every function -/
theorem ihc_all : ∀ F, IHc F
  | 0 => ihc_zero
  | F + 1 =>
    have ih := ihc_all F
    ⟨eval_ext ih, evalLoop_ext ih, evalAst_ext ih, evalList_ext ih, evalMap_ext ih, doForms_ext ih,
     letBinds_ext ih, macroexpand_ext ih, apply_ext ih, mapLoop_ext ih, updateIn_ext ih,
     update1_ext ih, callBuiltin_ext ih⟩

/-- `EVAL` with a stepper: the callback log afterwards is the log before, plus `ast` when the
    callback was called on entry (`skip` false), plus whatever the nested `EVAL`s added -/
theorem eval_calls (F : Nat) (s : State) (env : Nat) (ast : Val) (d : Nat) (sp : Stepper)
    (h : s.stepper = some sp) :
    ∃ sp' new, (eval (F + 1) s env ast d).2.stepper = some sp'
      ∧ sp'.calls = new ++ (if sp.skip then sp.calls else ast :: sp.calls) := by
  rw [eval_some F s env ast d sp h]
  have h1 := (ihc_all F).evalLoop { s with stepper := some (prologue sp ast).1 } env ast d
  have h2 := Ext.trans h1 (Ext.of_eq (epilogue_calls (prologue sp ast).1.outing2 (prologue sp ast).2 _))
  unfold Ext at h2
  generalize (epilogue _ _ _) = s' at h2 ⊢
  simp only [callsOf, Option.map, prologue_calls] at h2
  cases hs' : s'.stepper with
  | none => rw [hs'] at h2; exact h2.elim
  | some sp' =>
    rw [hs'] at h2
    obtain ⟨new, e⟩ := h2
    exact ⟨sp', new, rfl, e⟩

end LispModel.Stepper

/-
  C18: the debugger Stepper is transparent.  Simulation of a run with an arbitrary stepper by the
  stepper-free run, by induction on fuel over the whole mutual block of `Eval.lean`.
-/
import LispModel.Eval
namespace LispModel.Stepper
open LispModel LispModel.Core

/-- forget the debugger -/
def erase (st : State) : State := { st with stepper := none }

/-- `Sim s t`: `t` is a stepper-free state with the same observable stores as `s`
    (`stepper` and the `depth!` marks are not compared) -/
structure Sim (s t : State) : Prop where
  nostep : t.stepper = none
  scopes : s.scopes = t.scopes
  atoms : s.atoms = t.atoms
  trace : s.trace = t.trace
  ticks : s.ticks = t.ticks
  cancelAt : s.cancelAt = t.cancelAt

theorem Sim.erase (s : State) : Sim s (erase s) := ⟨rfl, rfl, rfl, rfl, rfl, rfl⟩

/-- result simulation: when the left run is not out of fuel the right run has the same result
    and a simulating state -/
def RRel {α : Type} (p q : Res α × State) : Prop :=
  p.1 ≠ .oof → q.1 = p.1 ∧ Sim p.2 q.2

theorem Sim.setStepper {s t : State} (h : Sim s t) (x : Option Stepper) :
    Sim { s with stepper := x } t := ⟨h.1, h.2, h.3, h.4, h.5, h.6⟩

theorem Sim.get {s t : State} (h : Sim s t) (env : Nat) (k : String) : s.get env k = t.get env k := by
  have e : ∀ n id, s.getAux n id k = t.getAux n id k := by
    intro n
    induction n with
    | zero => intro id; rfl
    | succ n ih => intro id; simp only [State.getAux, State.scope?, h.scopes, ih]
  simp only [State.get, h.scopes, e]

theorem Sim.set {s t : State} (h : Sim s t) (env : Nat) (k : String) (v : Val) :
    Sim (s.set env k v) (t.set env k v) := by
  unfold State.set State.scope?
  rw [h.scopes]
  cases t.scopes[env]? with
  | none => exact h
  | some sc => exact ⟨h.1, rfl, h.3, h.4, h.5, h.6⟩

theorem Sim.newScope {s t : State} (h : Sim s t) (o : Nat) (data : List (String × Val)) :
    Sim (s.newScope o data).1 (t.newScope o data).1 ∧ (s.newScope o data).2 = (t.newScope o data).2 :=
  ⟨⟨h.1, by simp only [State.newScope, h.scopes], h.3, h.4, h.5, h.6⟩, by simp only [State.newScope, h.scopes]⟩

theorem Sim.poll {s t : State} (h : Sim s t) :
    s.poll.1 = t.poll.1 ∧ Sim s.poll.2 t.poll.2 :=
  ⟨by simp only [State.poll, h.cancelAt, h.ticks],
   ⟨h.1, h.2, h.3, h.4, by simp only [State.poll, h.ticks], h.6⟩⟩

theorem Sim.outing1Defer {s t : State} (h : Sim s t) : Sim (outing1Defer s) t := by
  unfold LispModel.outing1Defer
  split
  · split
    · exact h.setStepper _
    · exact h
  · exact h

theorem Sim.outing1Defer₂ {s t : State} (h : Sim s t) :
    Sim (LispModel.outing1Defer s) (LispModel.outing1Defer t) := by
  have : LispModel.outing1Defer t = t := by
    unfold LispModel.outing1Defer; rw [h.nostep]
  rw [this]; exact h.outing1Defer

theorem RRel.oof {α : Type} {s : State} {q : Res α × State} : RRel (.oof, s) q := fun h => absurd rfl h

theorem RRel.same {α : Type} {r : Res α} {s t : State} (h : Sim s t) : RRel (r, s) (r, t) := fun _ => ⟨rfl, h⟩

theorem RRel.cases {α : Type} {p q : Res α × State} (h : RRel p q) :
    (∃ s, p = (.oof, s)) ∨ (∃ v s t, p = (.ok v, s) ∧ q = (.ok v, t) ∧ Sim s t)
      ∨ (∃ e s t, p = (.err e, s) ∧ q = (.err e, t) ∧ Sim s t) := by
  obtain ⟨r, s⟩ := p
  obtain ⟨r', t⟩ := q
  cases r with
  | oof => exact .inl ⟨s, rfl⟩
  | ok v =>
    obtain ⟨e, hs⟩ := h (fun h => nomatch h)
    exact .inr (.inl ⟨v, s, t, rfl, by simp only at e; rw [e], hs⟩)
  | err e' =>
    obtain ⟨e, hs⟩ := h (fun h => nomatch h)
    exact .inr (.inr ⟨e', s, t, rfl, by simp only at e; rw [e], hs⟩)

theorem RRel.elim {α : Type} {p q : Res α × State} {motive : Prop} (h : RRel p q)
    (hoof : ∀ s, p = (.oof, s) → motive)
    (hok : ∀ v s t, p = (.ok v, s) → q = (.ok v, t) → Sim s t → motive)
    (herr : ∀ e s t, p = (.err e, s) → q = (.err e, t) → Sim s t → motive) : motive := by
  rcases h.cases with ⟨s, e⟩ | ⟨v, s, t, e1, e2, hs⟩ | ⟨v, s, t, e1, e2, hs⟩
  · exact hoof s e
  · exact hok v s t e1 e2 hs
  · exact herr v s t e1 e2 hs

/-- close a leaf goal -/
macro "sim_done" : tactic =>
  `(tactic| first
      | exact RRel.oof
      | exact RRel.same (by assumption)
      | exact RRel.same (Sim.set (by assumption) _ _ _)
      | (dsimp only; exact RRel.oof))

/-- split a sub-call by its simulation `h`: the out-of-fuel case is closed, the `ok` and `err`
    cases remain with both sub-calls replaced by their results -/
macro "sim_bind " h:term " with " v:ident s:ident t:ident hs:ident : tactic =>
  `(tactic|
    (refine RRel.elim (h := $h) (fun _ e => by (rw [e]; sim_done))
        (fun $v $s $t e1 e2 $hs => ?_) (fun $v $s $t e1 e2 $hs => ?_) <;>
      rw [e1, e2] <;> clear e1 e2 <;> try dsimp only))

/-- the induction predicate: at fuel `F` every function of the mutual block, run from a state with
    any stepper at any depth, is simulated by the run from a stepper-free state at any depth and
    any fuel `F' ≥ F` -/
structure IH (F : Nat) : Prop where
  eval : ∀ s t env ast d d' F', Sim s t → F ≤ F' → RRel (eval F s env ast d) (eval F' t env ast d')
  evalLoop : ∀ s t env ast d d' F', Sim s t → F ≤ F' →
    RRel (evalLoop F s env ast d) (evalLoop F' t env ast d')
  evalAst : ∀ s t env ast d d' F', Sim s t → F ≤ F' →
    RRel (evalAst F s env ast d) (evalAst F' t env ast d')
  evalList : ∀ s t env xs d d' F', Sim s t → F ≤ F' →
    RRel (evalList F s env xs d) (evalList F' t env xs d')
  evalMap : ∀ s t env kvs d d' F', Sim s t → F ≤ F' →
    RRel (evalMap F s env kvs d) (evalMap F' t env kvs d')
  doForms : ∀ s t env lst from_ keep d d' F', Sim s t → F ≤ F' →
    RRel (doForms F s env lst from_ keep d) (doForms F' t env lst from_ keep d')
  letBinds : ∀ s t env bs a1 d d' F', Sim s t → F ≤ F' →
    RRel (letBinds F s env bs a1 d) (letBinds F' t env bs a1 d')
  macroexpand : ∀ s t env ast d d' F', Sim s t → F ≤ F' →
    RRel (macroexpand F s env ast d) (macroexpand F' t env ast d')
  apply : ∀ s t f args d d' F', Sim s t → F ≤ F' →
    RRel (apply F s f args d) (apply F' t f args d')
  mapLoop : ∀ s t f xs d d' F', Sim s t → F ≤ F' →
    RRel (mapLoop F s f xs d) (mapLoop F' t f xs d')
  updateIn : ∀ s t v path f d d' F', Sim s t → F ≤ F' →
    RRel (updateIn F s v path f d) (updateIn F' t v path f d')
  update1 : ∀ s t v i f d d' F', Sim s t → F ≤ F' →
    RRel (update1 F s v i f d) (update1 F' t v i f d')
  callBuiltin : ∀ s t name args d d' F', Sim s t → F ≤ F' →
    RRel (callBuiltin F s name args d) (callBuiltin F' t name args d')

theorem ih_zero : IH 0 := by
  constructor <;> intros <;> first
    | (rw [eval.eq_def]; exact RRel.oof) | (rw [evalLoop.eq_def]; exact RRel.oof)
    | (rw [evalAst.eq_def]; exact RRel.oof) | (rw [evalList.eq_def]; exact RRel.oof)
    | (rw [evalMap.eq_def]; exact RRel.oof) | (rw [doForms.eq_def]; exact RRel.oof)
    | (rw [letBinds.eq_def]; exact RRel.oof) | (rw [macroexpand.eq_def]; exact RRel.oof)
    | (rw [apply.eq_def]; exact RRel.oof) | (rw [mapLoop.eq_def]; exact RRel.oof)
    | (rw [updateIn.eq_def]; exact RRel.oof) | (rw [update1.eq_def]; exact RRel.oof)
    | (rw [callBuiltin.eq_def]; exact RRel.oof)

theorem cont_some {F G : Nat} (ih : IH F) (hG : F ≤ G) {s t : State} (hs : Sim s t) (env ast d d') :
    RRel (eval F s env ast d) (evalLoop G t env ast d') := by
  have := ih.eval s t env ast d d' (G + 1) hs (by omega)
  rw [eval, hs.nostep] at this
  exact this

/-- `continue` of the loop: with a stepper the left run calls `EVAL` recursively -/
theorem sim_continue {F G : Nat} (ih : IH F) (hG : F ≤ G) {s t : State} (hs : Sim s t) (env ast d d') :
    RRel (eval.match_3 (fun _ => R) s.stepper (fun _ => evalLoop F s env ast d)
            (fun _ => eval F s env ast (d + 1)))
         (eval.match_3 (fun _ => R) t.stepper (fun _ => evalLoop G t env ast d')
            (fun _ => eval G t env ast (d' + 1))) := by
  rw [hs.nostep]
  cases s.stepper with
  | none => exact ih.evalLoop _ _ _ _ _ _ _ hs hG
  | some _ => exact cont_some ih hG hs _ _ _ _

/-! ### the induction step, function by function -/

theorem evalList_step {F : Nat} (ih : IH F) : ∀ s t env xs d d' F', Sim s t → F + 1 ≤ F' →
    RRel (evalList (F + 1) s env xs d) (evalList F' t env xs d') := by
  intro s t env xs d d' F' hs hF
  obtain ⟨G, rfl⟩ : ∃ G, F' = G + 1 := ⟨F' - 1, by omega⟩
  have hG : F ≤ G := by omega
  cases xs with
  | nil => rw [evalList, evalList]; exact RRel.same hs
  | cons x xs =>
    rw [evalList, evalList]
    rcases (ih.eval s t env x (d + 1) (d' + 1) G hs hG).cases with ⟨s1, e⟩ | ⟨v, s1, t1, e1, e2, hs1⟩ | ⟨e, s1, t1, e1, e2, hs1⟩
    · rw [e]; exact RRel.oof
    · rw [e1, e2]; dsimp only
      rcases (ih.evalList s1 t1 env xs d d' G hs1 hG).cases with ⟨s1, e⟩ | ⟨v, s2, t2, e1, e2, hs2⟩ | ⟨e, s2, t2, e1, e2, hs2⟩
      · rw [e]; exact RRel.oof
      · rw [e1, e2]; exact RRel.same hs2
      · rw [e1, e2]; exact RRel.same hs2
    · rw [e1, e2]; exact RRel.same hs1

theorem evalLoop_step {F : Nat} (ih : IH F) : ∀ s t env ast d d' F', Sim s t → F + 1 ≤ F' →
    RRel (evalLoop (F + 1) s env ast d) (evalLoop F' t env ast d') := by
  intro s t env ast d d' F' hs hF
  obtain ⟨G, rfl⟩ : ∃ G, F' = G + 1 := ⟨F' - 1, by omega⟩
  have hG : F ≤ G := by omega
  rw [evalLoop, evalLoop]
  obtain ⟨hp1, hp2⟩ := hs.poll
  generalize s.poll = p at hp1 hp2 ⊢
  generalize t.poll = q at hp1 hp2 ⊢
  obtain ⟨done, s0⟩ := p
  obtain ⟨done', t0⟩ := q
  dsimp only at hp1 hp2 ⊢
  subst hp1
  by_cases hd : done = true
  · rw [if_pos hd, if_pos hd]; exact RRel.same hp2
  rw [if_neg hd, if_neg hd]
  cases ast <;> (try dsimp only) <;> try exact ih.evalAst _ _ _ _ _ _ _ hp2 hG
  rename_i xs pos
  rcases (ih.macroexpand s0 t0 env (.list xs pos) d d' G hp2 hG).cases with
    ⟨s1, e⟩ | ⟨ast, s1, t1, e1, e2, hs1⟩ | ⟨e, s1, t1, e1, e2, hs1⟩
  · rw [e]; exact RRel.oof
  rotate_left
  · rw [e1, e2]; exact RRel.same hs1
  rw [e1, e2]; dsimp only
  clear e1 e2 hp2 hs hd xs pos s0 t0 s t
  cases ast <;> (try dsimp only) <;> try exact ih.evalAst _ _ _ _ _ _ _ hs1 hG
  rename_i xs pos
  cases xs with
  | nil => exact RRel.same hs1
  | cons a0 ops =>
  dsimp only
  generalize evalLoop.match_1 (fun _ => String) a0 (fun s _ => s) (fun _ => "__<*fn>__") = a0sym
  by_cases h1 : a0sym = "def"
  · rw [if_pos h1, if_pos h1]
    sim_bind (ih.eval s1 t1 env _ (d + 1) (d' + 1) G hs1 hG) with v s2 t2 hs2
    · split <;> sim_done
    · sim_done
  rw [if_neg h1, if_neg h1]; clear h1
  by_cases h1 : a0sym = "let"
  · rw [if_pos h1, if_pos h1]
    obtain ⟨hs2, e⟩ := hs1.newScope env []
    rw [← e]
    split
    · sim_done
    split
    · sim_done
    sim_bind (ih.letBinds _ _ _ _ _ d d' G hs2 hG) with v s3 t3 hs3
    · sim_bind (ih.doForms _ _ _ _ _ _ d d' G hs3 hG) with v s4 t4 hs4
      · exact sim_continue ih hG hs4 _ _ _ _
      · sim_done
    · sim_done
  rw [if_neg h1, if_neg h1]; clear h1
  by_cases h1 : a0sym = "quote"
  · rw [if_pos h1, if_pos h1]; sim_done
  rw [if_neg h1, if_neg h1]; clear h1
  by_cases h1 : a0sym = "quasiquoteexpand"
  · rw [if_pos h1, if_pos h1]; sim_done
  rw [if_neg h1, if_neg h1]; clear h1
  by_cases h1 : a0sym = "quasiquote"
  · rw [if_pos h1, if_pos h1]; exact sim_continue ih hG hs1 _ _ _ _
  rw [if_neg h1, if_neg h1]; clear h1
  by_cases h1 : a0sym = "defmacro"
  · rw [if_pos h1, if_pos h1]
    sim_bind (ih.eval s1 t1 env _ (d + 1) (d' + 1) G hs1 hG) with v s2 t2 hs2
    · split
      · split <;> sim_done
      · sim_done
    · sim_done
  rw [if_neg h1, if_neg h1]; clear h1
  by_cases h1 : a0sym = "macroexpand"
  · rw [if_pos h1, if_pos h1]; exact ih.macroexpand _ _ _ _ _ _ _ hs1 hG
  rw [if_neg h1, if_neg h1]; clear h1
  by_cases h1 : a0sym = "try"
  · rw [if_pos h1, if_pos h1]
    split
    · sim_done
    split
    · sim_done
    rename_i parts _
    sim_bind (ih.doForms s1 t1 env parts.body 0 false d d' G hs1 hG) with v s2 t2 hs2
    · split
      · exact RRel.same (hs2.outing1Defer₂)
      · sim_bind (ih.doForms s2 t2 env _ 0 false d d' G hs2 hG) with w s3 t3 hs3 <;> sim_done
    · cases parts.catchDo <;> cases parts.catchBind <;> dsimp only
      · (split; exact RRel.same hs2.outing1Defer₂; sim_bind (ih.doForms s2 t2 env _ 0 false d d' G hs2 hG) with w s5 t5 hs5 <;> sim_done)
      · (split; exact RRel.same hs2.outing1Defer₂; sim_bind (ih.doForms s2 t2 env _ 0 false d d' G hs2 hG) with w s5 t5 hs5 <;> sim_done)
      · (split; exact RRel.same hs2.outing1Defer₂; sim_bind (ih.doForms s2 t2 env _ 0 false d d' G hs2 hG) with w s5 t5 hs5 <;> sim_done)
      · generalize bindParams _ _ = bp
        cases bp <;> dsimp only
        · (split; exact RRel.same hs2.outing1Defer₂; sim_bind (ih.doForms s2 t2 env _ 0 false d d' G hs2 hG) with w s5 t5 hs5 <;> sim_done)
        · obtain ⟨hs3, e⟩ := hs2.newScope env ‹_›
          rw [← e]
          sim_bind (ih.doForms _ _ _ _ 0 false d d' G hs3 hG) with w s4 t4 hs4
          · (split; exact RRel.same hs4.outing1Defer₂; sim_bind (ih.doForms s4 t4 env _ 0 false d d' G hs4 hG) with w s5 t5 hs5 <;> sim_done)
          · (split; exact RRel.same hs4.outing1Defer₂; sim_bind (ih.doForms s4 t4 env _ 0 false d d' G hs4 hG) with w s5 t5 hs5 <;> sim_done)
  rw [if_neg h1, if_neg h1]; clear h1
  by_cases h1 : a0sym = "do"
  · rw [if_pos h1, if_pos h1]
    sim_bind (ih.doForms _ _ _ _ _ _ d d' G hs1 hG) with v s2 t2 hs2
    · exact sim_continue ih hG hs2 _ _ _ _
    · sim_done
  rw [if_neg h1, if_neg h1]; clear h1
  by_cases h1 : a0sym = "if"
  · rw [if_pos h1, if_pos h1]
    sim_bind (ih.eval s1 t1 env _ (d + 1) (d' + 1) G hs1 hG) with v s2 t2 hs2
    · split
      · exact sim_continue ih hG hs2 _ _ _ _
      split
      · exact sim_continue ih hG hs2 _ _ _ _
      · sim_done
    · sim_done
  rw [if_neg h1, if_neg h1]; clear h1
  by_cases h1 : a0sym = "fn"
  · rw [if_pos h1, if_pos h1]
    split <;> sim_done
  rw [if_neg h1, if_neg h1]; clear h1
  sim_bind (ih.evalList s1 t1 env _ d d' G hs1 hG) with el s2 t2 hs2
  · cases el with
    | nil => sim_done
    | cons f args =>
      dsimp only
      split
      · split
        · split <;> sim_done
        · obtain ⟨hs3, e⟩ := hs2.newScope ‹_› ‹_›
          rw [← e]
          exact sim_continue ih hG hs3 _ _ _ _
      · sim_bind (ih.callBuiltin s2 t2 _ _ d d' G hs2 hG) with v s3 t3 hs3 <;> sim_done
      · sim_done
  · sim_done

end LispModel.Stepper

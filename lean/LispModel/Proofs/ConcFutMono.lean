/-
  C10 proofs, part 1: the flags only ever go from false to true (any program, any step).
-/
import LispModel.Proofs.ConcFutKind
namespace LispModel.Proofs.ConcFut
open LispModel.Conc LispModel.Conc.Fut

theorem putBack_flags {o : Outcome} {F F' : FutS} (h : putBack o F = some F') :
    F'.done = F.done ∧ F'.cancelled = F.cancelled ∧ F'.ctxCancelled = F.ctxCancelled ∧ F'.mu = F.mu ∧
    F'.runs = F.runs ∧ F'.res = F.res ∧ F'.body = F.body ∧ F'.kind = F.kind := by
  obtain ⟨e, v⟩ := o
  cases e <;> simp [putBack] at h <;> obtain ⟨-, h⟩ := h <;> subst h <;> simp

/-- monotonicity of the flags under one micro-op -/
theorem execF_mono {o arm ce m fr F fr' F'} (h : execF o arm ce m fr F = some (fr', F')) :
    (F.done = true → F'.done = true) ∧ (F.cancelled = true → F'.cancelled = true) ∧
    (F.ctxCancelled = true → F'.ctxCancelled = true) := by
  cases m with
  | lock mu => cases mu <;> simp [execF] at h; obtain ⟨-, -, h⟩ := h; subst h; simp
  | unlock mu => cases mu <;> simp [execF] at h; obtain ⟨-, h⟩ := h; subst h; simp
  | deferUnlock mu => simp [execF] at h; obtain ⟨-, h⟩ := h; subst h; simp
  | deferWrite l => simp [execF] at h; obtain ⟨-, h⟩ := h; subst h; simp
  | read l => cases l <;> simp [execF] at h <;> (obtain ⟨-, h⟩ := h; subst h; simp)
  | write l => cases l <;> simp [execF] at h <;> (obtain ⟨-, h⟩ := h; subst h; simp)
  | brTrue l k => cases l <;> simp [execF] at h; obtain ⟨-, h⟩ := h; subst h; simp
  | cancelCtx => simp [execF] at h; obtain ⟨-, h⟩ := h; subst h; simp
  | callBody => simp [execF] at h; obtain ⟨-, h⟩ := h; subst h; simp
  | send =>
    simp only [execF] at h
    split at h
    · simp only [Option.map_eq_some_iff] at h
      obtain ⟨F1, hp, h⟩ := h
      cases h
      obtain ⟨h1, h2, h3, -⟩ := putBack_flags hp
      rw [h1, h2, h3]; simp
    · cases h
  | resend =>
    simp only [execF] at h
    split at h
    · simp only [Option.map_eq_some_iff] at h
      obtain ⟨F1, hp, h⟩ := h
      cases h
      obtain ⟨h1, h2, h3, -⟩ := putBack_flags hp
      rw [h1, h2, h3]; simp
    · cases h
  | selectRecv =>
    simp only [execF] at h
    split at h
    · split at h
      · cases h; simp
      · cases h
    · simp only [Option.map_eq_some_iff] at h; obtain ⟨e, -, h⟩ := h; cases h; simp
    · simp only [Option.map_eq_some_iff] at h; obtain ⟨e, -, h⟩ := h; cases h; simp
    · cases h
  | ret => simp [execF] at h; obtain ⟨-, h⟩ := h; subst h; simp
  | _ => simp [execF] at h

def FlagsLe (F F' : FutS) : Prop :=
  (F.done = true → F'.done = true) ∧ (F.cancelled = true → F'.cancelled = true) ∧
  (F.ctxCancelled = true → F'.ctxCancelled = true)

theorem frameStep_mono {code o arm ce fr F r F'} (h : FrameStep code o arm ce fr F (r, F')) : FlagsLe F F' := by
  cases h with
  | mop m fr' F' hnr hm hex => exact execF_mono hex
  | defer d ds fr1 F' hr hd hex => exact execF_mono hex
  | ret hr hd => exact ⟨id, id, id⟩

/-- `future-done?` and `future-cancelled?` never go back from true to false: whatever the program,
    one step never clears a flag -/
theorem flags_monotone_step {code : OpName → Program} {s s' : FState} {l : Label}
    (h : fstep code s l = some s') (f : Nat) : FlagsLe (s.futs f) (s'.futs f) := by
  have hk := fstep_kind h
  cases hk with
  | endCtx t => exact ⟨id, id, id⟩
  | start t arm op more hc htd => exact ⟨id, id, id⟩
  | bodyStep g fr fr' F' hb hk =>
    by_cases hf : f = g
    · subst hf; simpa [upd, FlagsLe] using frameStep_mono hk
    · simp [upd, hf, FlagsLe]
  | bodyRet g fr fr' F' hb hk =>
    by_cases hf : f = g
    · subst hf; simpa [upd, FlagsLe] using frameStep_mono hk
    · simp [upd, hf, FlagsLe]
  | thrStep t arm fr fr' F' hc hk =>
    by_cases hf : f = fr.fut
    · subst hf; simpa [upd, FlagsLe] using frameStep_mono hk
    · simp [upd, hf, FlagsLe]
  | thrRet t arm fr fr' F' hc hk =>
    by_cases hf : f = fr.fut
    · subst hf; simpa [upd, FlagsLe] using frameStep_mono hk
    · simp [upd, hf, FlagsLe]

theorem flags_monotone_run {code : OpName → Program} {sched : List Label} {s s' : FState}
    (h : frun code sched s = some s') (f : Nat) : FlagsLe (s.futs f) (s'.futs f) := by
  induction sched generalizing s with
  | nil => simp [frun] at h; subst h; exact ⟨id, id, id⟩
  | cons l ls ih =>
    simp only [frun, Option.bind_eq_some_iff] at h
    obtain ⟨s1, h1, h2⟩ := h
    have a := flags_monotone_step h1 f
    have b := ih h2
    exact ⟨fun x => b.1 (a.1 x), fun x => b.2.1 (a.2.1 x), fun x => b.2.2 (a.2.2 x)⟩

end LispModel.Proofs.ConcFut

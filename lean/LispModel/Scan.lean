/-
  The tokenizer: `reader.tokenize` over `github.com/jig/scanner v1.2.0` (a fork of text/scanner),
  mirrored function by function.

  * `decodeAll` mirrors `utf8.DecodeRune` (invalid byte ⇒ RuneError of width 1, flagged `bad`);
    the scanner's 1 KiB buffer refill is abstracted away (the model scans the whole decoded list).
  * the scanner state is the look-ahead rune `ch` (an `Int`, −1 = EOF), the unread runes and
    `PState` (line/column bookkeeping, byte offset, sticky error counter).  Every Go loop is a
    structural recursion over the unread runes.
  * `unicode.IsLetter/IsDigit` come from the tables dumped from Go on every run
    (Generated/Unicode.lean).
  Core Lean only.
-/
import LispModel.Val
import LispModel.Generated.Unicode
namespace LispModel.Scan

/-- one decoded source character -/
structure Rune where
  ch : Nat          -- code point (0xFFFD for an invalid byte)
  width : Nat       -- bytes consumed
  bad : Bool        -- invalid UTF-8 encoding
deriving Repr, DecidableEq, Inhabited

def runeError : Nat := 0xFFFD

/-- `utf8.DecodeRune` on a non-empty byte list: the rune and the unread bytes -/
def decodeRune : List UInt8 → Option (Rune × List UInt8)
  | [] => none
  | b0 :: r0 =>
    let p0 := b0.toNat
    let bad : Option (Rune × List UInt8) := some (⟨runeError, 1, true⟩, r0)
    let cont (b : Nat) (lo hi : Nat) : Bool := lo ≤ b && b ≤ hi
    if p0 < 0x80 then some (⟨p0, 1, false⟩, r0)
    else if p0 < 0xC2 then bad
    else if p0 < 0xE0 then
      match r0 with
      | b1 :: r1 =>
        if cont b1.toNat 0x80 0xBF then some (⟨(p0 % 32) * 64 + (b1.toNat % 64), 2, false⟩, r1) else bad
      | _ => bad
    else if p0 < 0xF0 then
      let lo := if p0 = 0xE0 then 0xA0 else 0x80
      let hi := if p0 = 0xED then 0x9F else 0xBF
      match r0 with
      | b1 :: b2 :: r2 =>
        if cont b1.toNat lo hi && cont b2.toNat 0x80 0xBF then
          some (⟨(p0 % 16) * 4096 + (b1.toNat % 64) * 64 + (b2.toNat % 64), 3, false⟩, r2)
        else bad
      | _ => bad
    else if p0 < 0xF5 then
      let lo := if p0 = 0xF0 then 0x90 else 0x80
      let hi := if p0 = 0xF4 then 0x8F else 0xBF
      match r0 with
      | b1 :: b2 :: b3 :: r3 =>
        if cont b1.toNat lo hi && cont b2.toNat 0x80 0xBF && cont b3.toNat 0x80 0xBF then
          some (⟨(p0 % 8) * 262144 + (b1.toNat % 64) * 4096 + (b2.toNat % 64) * 64 + (b3.toNat % 64), 4, false⟩, r3)
        else bad
      | _ => bad
    else bad

def decodeAllAux : Nat → List UInt8 → List Rune
  | 0, _ => []
  | fuel + 1, bs =>
    match decodeRune bs with
    | none => []
    | some (r, rest) => r :: decodeAllAux fuel rest

/-- the whole input as runes (each step consumes at least one byte, so `length` is enough fuel) -/
def decodeAll (bs : List UInt8) : List Rune := decodeAllAux bs.length bs

/-! ### character classes -/

def inRanges (c : Nat) : List (Nat × Nat × Nat) → Bool
  | [] => false
  | (lo, hi, stride) :: r => (lo ≤ c && c ≤ hi && (c - lo) % stride == 0) || inRanges c r

def isLetter (c : Nat) : Bool :=
  if c < 128 then (65 ≤ c && c ≤ 90) || (97 ≤ c && c ≤ 122)
  else inRanges c Generated.letterRanges

def isDigit (c : Nat) : Bool :=
  if c < 128 then (48 ≤ c && c ≤ 57)
  else inRanges c Generated.digitRanges

abbrev EOF : Int := -1

def isDecimal (ch : Int) : Bool := 48 ≤ ch && ch ≤ 57
/-- `('a'-'A') | ch` -/
def lower (ch : Int) : Int := if ch < 0 then ch else Int.ofNat (ch.toNat ||| 32)
def isHex (ch : Int) : Bool := isDecimal ch || (97 ≤ lower ch && lower ch ≤ 102)

/-- `Scanner.isIdentRune` (default predicate) -/
def isIdentRune (ch : Int) (i : Nat) : Bool :=
  if ch < 0 then false else
  let c := ch.toNat
  c = 95 || c = 36 || c = 42 || c = 43 || c = 47 || c = 63 || c = 33 || c = 60 || c = 62 || c = 61 ||
  isLetter c || (c = 45 && i > 0) || (isDigit c && i > 0)

/-- `Whitespace&(1<<uint(ch)) != 0` for LispWhitespace -/
def isWhite (ch : Int) : Bool := ch = 9 || ch = 10 || ch = 13 || ch = 32

/-! ### scanner state -/

structure PState where
  line : Nat := 1
  column : Nat := 0
  lastLineLen : Nat := 0
  lastCharLen : Nat := 0
  offset : Nat := 0      -- srcBufOffset + srcPos
  errs : Nat := 0
deriving Repr, DecidableEq, Inhabited

/-- `Scanner.next` -/
def next (rest : List Rune) (p : PState) : Int × List Rune × PState :=
  match rest with
  | [] => (EOF, [], { p with column := if p.lastCharLen > 0 then p.column + 1 else p.column, lastCharLen := 0 })
  | r :: rs =>
    let p := { p with offset := p.offset + r.width, lastCharLen := r.width, column := p.column + 1 }
    if r.bad then (Int.ofNat r.ch, rs, { p with errs := p.errs + 1 })
    else if r.ch = 0 then (0, rs, { p with errs := p.errs + 1 })
    else if r.ch = 10 then (10, rs, { p with line := p.line + 1, lastLineLen := p.column, column := 0 })
    else (Int.ofNat r.ch, rs, p)

def err (p : PState) : PState := { p with errs := p.errs + 1 }

/-- `Scanner.Pos()`: (line, column, offset) of the character after the last token -/
def posOf (p : PState) : Nat × Nat × Nat :=
  let off := p.offset - p.lastCharLen
  if p.column > 0 then (p.line, p.column, off)
  else if p.lastLineLen > 0 then (p.line - 1, p.lastLineLen, off)
  else (1, 1, off)

/-- a loop state: look-ahead, unread runes, bookkeeping -/
abbrev St := Int × List Rune × PState

/-- `for i := 1; s.isIdentRune(ch, i); i++ { ch = s.next() }` -/
def identLoop : List Rune → Int → PState → St
  | [], ch, p => if isIdentRune ch 1 then next [] p else (ch, [], p)
  | r :: rs, ch, p =>
    if isIdentRune ch 1 then
      let (ch', _, p') := next (r :: rs) p
      identLoop rs ch' p'
    else (ch, r :: rs, p)

/-- `scanIdentifier`: `ch := s.next()` then the loop -/
def scanIdentifier (rest : List Rune) (p : PState) : St :=
  let (ch, rest', p') := next rest p
  identLoop rest' ch p'

/-- `skip white space` -/
def skipWhite : List Rune → Int → PState → St
  | [], ch, p => if isWhite ch then next [] p else (ch, [], p)
  | r :: rs, ch, p =>
    if isWhite ch then
      let (ch', _, p') := next (r :: rs) p
      skipWhite rs ch' p'
    else (ch, r :: rs, p)

/-- `scanComment(ch)` where `ch` is the character after `;` -/
def commentLoop : List Rune → Int → PState → St
  | [], ch, p => if ch ≠ 10 ∧ ch ≥ 0 then next [] p else (ch, [], p)
  | r :: rs, ch, p =>
    if ch ≠ 10 ∧ ch ≥ 0 then
      let (ch', _, p') := next (r :: rs) p
      commentLoop rs ch' p'
    else (ch, r :: rs, p)

def scanComment (rest : List Rune) (ch : Int) (p : PState) : St :=
  if ch ≠ 10 then
    let (ch', rest', p') := next rest p
    commentLoop rest' ch' p'
  else (ch, rest, p)

/-- `digits(ch0, base, &invalid)`: returns look-ahead, digsep bits, first invalid digit -/
def digitsLoop (base : Nat) : List Rune → Int → PState → Nat → Int → (St × Nat × Int)
  | [], ch, p, ds, inv =>
    let isDig := if base ≤ 10 then isDecimal ch else isHex ch
    if isDig || ch = 95 then
      let ds' := ds ||| (if ch = 95 then 2 else 1)
      let inv' := if base ≤ 10 ∧ ch ≠ 95 ∧ ch ≥ 48 + base ∧ inv = 0 then ch else inv
      (next [] p, ds', inv')
    else ((ch, [], p), ds, inv)
  | r :: rs, ch, p, ds, inv =>
    let isDig := if base ≤ 10 then isDecimal ch else isHex ch
    if isDig || ch = 95 then
      let ds' := ds ||| (if ch = 95 then 2 else 1)
      let inv' := if base ≤ 10 ∧ ch ≠ 95 ∧ ch ≥ 48 + base ∧ inv = 0 then ch else inv
      let (ch', _, p') := next (r :: rs) p
      digitsLoop base rs ch' p' ds' inv'
    else ((ch, r :: rs, p), ds, inv)

/-- `invalidSep(x) >= 0` on the token text so far -/
def invalidSepAux (x1 : Int) : List Int → Int → Bool   -- (remaining chars, previous d) ; true = invalid
  | [], d => d = 95
  | c :: cs, p =>
    if c = 95 then (if p ≠ 48 then true else invalidSepAux x1 cs 95)
    else if isDecimal c || (x1 = 120 && isHex c) then invalidSepAux x1 cs 48
    else if p = 95 then true
    else invalidSepAux x1 cs 46

def invalidSep (x : List Int) : Bool :=
  match x with
  | 48 :: c1 :: rest =>
    let x1 := lower c1
    if x1 = 120 || x1 = 111 || x1 = 98 then invalidSepAux x1 rest 48
    else invalidSepAux x1 (48 :: c1 :: rest) 46
  | _ => invalidSepAux 32 x 46

/-- `digitVal(ch) < base` -/
def digitValLt (ch : Int) (base : Nat) : Bool :=
  if isDecimal ch then (ch - 48).toNat < base
  else if 97 ≤ lower ch && lower ch ≤ 102 then (lower ch - 97 + 10).toNat < base
  else false

/-- `scanDigits(ch, base, n)` -/
def scanDigits (base : Nat) : Nat → List Rune → Int → PState → St
  | 0, rest, ch, p => (ch, rest, p)
  | n + 1, rest, ch, p =>
    if digitValLt ch base then
      let (ch', rest', p') := next rest p
      scanDigits base n rest' ch' p'
    else (ch, rest, err p)

/-- `scanEscape('"')` -/
def scanEscape (rest : List Rune) (p : PState) : St :=
  let (ch, rest, p) := next rest p
  if ch = 97 || ch = 98 || ch = 102 || ch = 110 || ch = 114 || ch = 116 || ch = 118 || ch = 92 || ch = 34 then
    next rest p
  else if 48 ≤ ch && ch ≤ 55 then scanDigits 8 3 rest ch p
  else if ch = 120 then let (c, r, q) := next rest p; scanDigits 16 2 r c q
  else if ch = 117 then let (c, r, q) := next rest p; scanDigits 16 4 r c q
  else if ch = 85 then let (c, r, q) := next rest p; scanDigits 16 8 r c q
  else (ch, rest, err p)

/-- the loop of `scanString('"')`, with fuel = number of unread runes + 1 (each turn consumes one) -/
def stringLoop : Nat → List Rune → Int → PState → St
  | 0, rest, ch, p => (ch, rest, p)
  | fuel + 1, rest, ch, p =>
    if ch = 34 then (ch, rest, p)
    else if ch = 10 || ch < 0 then (ch, rest, err p)
    else if ch = 92 then
      let (ch', rest', p') := scanEscape rest p
      stringLoop fuel rest' ch' p'
    else
      let (ch', rest', p') := next rest p
      stringLoop fuel rest' ch' p'

def scanString (rest : List Rune) (p : PState) : St :=
  let (ch, rest', p') := next rest p
  stringLoop (rest'.length + 2) rest' ch p'

/-- `scanRawString`, one character per step.  `afterQuote = false`: inside the literal, `ch` was just
    read; `afterQuote = true`: the previous character was a `¬` and `ch` follows it (a second `¬` is the
    escaped quote, anything else ends the literal).  Returns the look-ahead (0 on error). -/
def rawLoop : Bool → List Rune → Int → PState → St
  | false, [], ch, p =>
    if ch = 172 then next [] p                -- closing quote, then EOF
    else if ch < 0 then (0, [], err p)          -- "literal not terminated"
    else let (_, _, q) := next [] p; (0, [], err q)
  | true, [], ch, p =>
    if ch ≠ 172 then (ch, [], p)
    else let (_, _, q) := next [] p; (0, [], err q)   -- `¬¬` then EOF
  | false, r :: rs, ch, p =>
    if ch = 172 then
      let (c, _, q) := next (r :: rs) p
      rawLoop true rs c q
    else if ch < 0 then (0, r :: rs, err p)
    else
      let (c, _, q) := next (r :: rs) p
      rawLoop false rs c q
  | true, r :: rs, ch, p =>
    if ch ≠ 172 then (ch, r :: rs, p)
    else
      let (c, _, q) := next (r :: rs) p
      rawLoop false rs c q

def scanRawString (rest : List Rune) (p : PState) : St :=
  let (ch, rest', p') := next rest p
  rawLoop false rest' ch p'

inductive Kind where
  | ident | int | float | string | keyword | rawString | char (c : Nat)
deriving Repr, DecidableEq, Inhabited

/-- the runes of the token: everything consumed since the token start except the final look-ahead -/
def consumed (ch0 : Int) (restStart : List Rune) (restEnd : List Rune) (chEnd : Int) : List Nat :=
  let popped := restStart.take (restStart.length - restEnd.length)
  let body := if chEnd < 0 then popped else popped.dropLast
  (if ch0 < 0 then [] else [ch0.toNat]) ++ body.map (·.ch)

/-- `scanNumber(ch, seenDot, negative)`; `pre` = token characters before `ch` (for `invalidSep`) -/
def scanNumber (pre : List Int) (rest : List Rune) (ch : Int) (p : PState) (seenDot negative : Bool) :
    Kind × St :=
  let restStart := rest
  let chFirst := ch
  -- integer part
  let (tok0, base, prefx, digsep0, ch, rest, p, seenDot, inv) :=
    if !seenDot then
      let (base, prefx, digsep, ch, rest, p) :=
        if ch = 48 then
          let (c, r, q) := next rest p
          if lower c = 120 then let (c2, r2, q2) := next r q; (16, (120 : Int), 0, c2, r2, q2)
          else if lower c = 111 then let (c2, r2, q2) := next r q; (8, (111 : Int), 0, c2, r2, q2)
          else if lower c = 98 then let (c2, r2, q2) := next r q; (2, (98 : Int), 0, c2, r2, q2)
          else (8, (48 : Int), 1, c, r, q)
        else if ch = 45 then
          let (c, r, q) := next rest p
          (10, (0 : Int), 0, c, r, q)
        else (10, (0 : Int), 0, ch, rest, p)
      let ((ch, rest, p), ds, inv) := digitsLoop base rest ch p 0 0
      let digsep := digsep ||| ds
      if ch = 46 then
        let (c, r, q) := next rest p
        (Kind.int, base, prefx, digsep, c, r, q, true, inv)
      else (Kind.int, base, prefx, digsep, ch, rest, p, false, inv)
    else (Kind.float, 10, (0 : Int), 0, ch, rest, p, true, (0 : Int))
  -- fractional part
  let (tok1, digsep1, ch, rest, p, inv) :=
    if seenDot then
      let p := if prefx = 111 || prefx = 98 then err p else p
      let ((ch, rest, p), ds, inv) := digitsLoop base rest ch p 0 inv
      (Kind.float, digsep0 ||| ds, ch, rest, p, inv)
    else (tok0, digsep0, ch, rest, p, inv)
  let (tok2, p) :=
    if digsep1 % 2 = 0 then
      if negative then (Kind.char 45, p) else (tok1, err p)
    else (tok1, p)
  -- exponent
  let e := lower ch
  let (tok3, digsep2, ch, rest, p) :=
    if e = 101 || e = 112 then
      let p := if e = 101 && prefx ≠ 0 && prefx ≠ 48 then err p
               else if e = 112 && prefx ≠ 120 then err p else p
      let (c, r, q) := next rest p
      let (c, r, q) := if c = 43 || c = 45 then next r q else (c, r, q)
      -- digits(ch, 10, nil)
      let ((c, r, q), ds, _) := digitsLoop 10 r c q 0 1
      let q := if ds % 2 = 0 then err q else q
      (Kind.float, digsep1 ||| ds, c, r, q)
    else if prefx = 120 && tok2 = Kind.float then (tok2, digsep1, ch, rest, err p)
    else (tok2, digsep1, ch, rest, p)
  let p := if tok3 = Kind.int && inv ≠ 0 then err p else p
  let p :=
    if (digsep2 / 2) % 2 = 1 then
      -- s.tokEnd = srcPos - lastCharLen; TokenText()
      let text := pre ++ (consumed chFirst restStart rest ch).map Int.ofNat
      if invalidSep text then err p else p
    else p
  (tok3, (ch, rest, p))

structure Token where
  kind : Kind
  text : List Nat       -- code points of the token text
  line : Nat            -- `s.Pos().Line` after the token
  column : Nat          -- `s.Pos().Column`
  offset : Nat          -- `s.Pos().Offset`
deriving Repr, DecidableEq, Inhabited

/-- one call of `Scanner.Scan` (after `Peek`): `none` = EOF; fuel bounds the comment `goto redo` -/
def scan : Nat → List Rune → Int → PState → Option (Kind × List Nat) × St
  | 0, rest, ch, p => (none, (ch, rest, p))
  | fuel + 1, rest, ch, p =>
    let (ch, rest, p) := skipWhite rest ch p
    let fin (k : Kind) (ch0 : Int) (restStart : List Rune) (s : St) : Option (Kind × List Nat) × St :=
      (some (k, consumed ch0 restStart s.2.1 s.1), s)
    if isIdentRune ch 0 then
      fin .ident ch rest (scanIdentifier rest p)
    else if isDecimal ch then
      let (k, s) := scanNumber [] rest ch p false false
      fin k ch rest s
    else if ch = 45 then
      let (c, r, q) := next rest p
      if isIdentRune c 0 then fin .ident ch rest (scanIdentifier r q)
      else if isDecimal c then
        let (k, s) := scanNumber [45] r c q false true
        fin k ch rest s
      else fin .ident ch rest (c, r, q)
    else if ch < 0 then (none, (ch, rest, p))
    else if ch = 34 then
      let (_, r, q) := scanString rest p
      fin .string ch rest (next r q)
    else if ch = 58 then fin .keyword ch rest (scanIdentifier rest p)
    else if ch = 46 then
      let (c, r, q) := next rest p
      if isDecimal c then
        let (k, s) := scanNumber [46] r c q true false
        fin k ch rest s
      else fin (.char 46) ch rest (c, r, q)
    else if ch = 59 then
      let (c, r, q) := next rest p
      let (c, r, q) := scanComment r c q
      scan fuel r c q
    else if ch = 172 then fin .rawString ch rest (scanRawString rest p)
    else if ch = 126 then
      let (c, r, q) := next rest p
      if c = 64 then fin .ident ch rest (next r q) else fin (.char 126) ch rest (c, r, q)
    else if ch = 35 then
      let (c, r, q) := next rest p
      if c = 123 then fin .ident ch rest (next r q) else fin (.char 35) ch rest (c, r, q)
    else fin (.char ch.toNat) ch rest (next rest p)

inductive TokResult where
  | ok (toks : List Token)
  | error (line column : Nat)      -- "invalid token …" with the scanner position
deriving Repr, DecidableEq, Inhabited

/-- the loop of `reader.tokenize` -/
def tokLoop : Nat → List Rune → Int → PState → List Token → TokResult
  | 0, _, _, _, acc => .ok acc.reverse
  | fuel + 1, rest, ch, p, acc =>
    match scan (rest.length + 2) rest ch p with
    | (none, _) => .ok acc.reverse
    | (some (k, text), (ch', rest', p')) =>
      let (l, c, o) := posOf p'
      if p'.errs ≠ 0 then .error l (c - 1)
      else tokLoop fuel rest' ch' p' ({ kind := k, text := text, line := l, column := c, offset := o } :: acc)

/-- `Peek` on a fresh scanner: read the first character, skip a BOM -/
def start (runes : List Rune) : St :=
  let (ch, rest, p) := next runes {}
  if ch = 0xFEFF then next rest p else (ch, rest, p)

def tokenizeRunes (runes : List Rune) : TokResult :=
  let (ch, rest, p) := start runes
  tokLoop (runes.length + 2) rest ch p []

def tokenize (bytes : List UInt8) : TokResult := tokenizeRunes (decodeAll bytes)

end LispModel.Scan

/-
  `bytes% "text"` — the UTF-8 bytes of a literal as a `List UInt8` *literal*, computed at
  elaboration time (the kernel cannot reduce `String.toUTF8`), for `decide`-checked examples.
-/
namespace LispModel

open Lean in
macro "bytes%" s:str : term => do
  let bs := s.getString.toUTF8.toList
  let lits := bs.toArray.map fun b => Syntax.mkNumLit (toString b.toNat)
  `(([$lits,*] : List UInt8))

end LispModel

/-
  The evaluator: `EVAL`, `eval_ast`, `do`, `macroexpand`, `quasiquote`, `Apply`,
  `_newSubordinateEnvWithBinds` and the `Env` store of mal.go / env/env.go / types.Apply, in the
  shape of the Go code: one function per Go function, the TCO `for` loop as a recursion that keeps
  the EVAL-frame depth (`continue` = same depth, a recursive `EVAL` call = depth+1), the `a1/a2`
  extraction, `do(ast, from, to)` with its index arithmetic, the poll of `ctx.Done()` at the top of
  every loop iteration, and the Stepper prologue with its process-wide flags.

  Closures and atoms are pointers in Go: scopes and atoms live in a store that only grows.
  Fuel decreases on every recursive call and every loop iteration; `Res.oof` = out of fuel.
  Core Lean only.
-/
import LispModel.Val
import LispModel.Core
namespace LispModel
open LispModel.Core

/-! ### errors -/

/-- a Go `error` returned by the evaluator -/
inductive Err where
  /-- `LispError{err: payload, cursor: pos}` — `payload` is the thrown lisp value or a Go error (`Val.goerr`) -/
  | lisp (payload : Val) (pos : Option Pos)
  /-- any other Go error (no `ErrorValue` method): `catch` binds its message string -/
  | plain (msg : String)
deriving Inhabited

inductive Res (α : Type) where
  | ok (a : α)
  | err (e : Err)
  | oof
deriving Inhabited

/-- `lisperror.GetPosition(ast)` -/
def getPosition : Val → Option Pos
  | .list _ p => p
  | .sym _ p => p
  | .vec _ p => p
  | _ => none

/-- `lisperror.NewLispError(err, ast)`: a LispError keeps its payload and is re-positioned only when it
    has no position yet (repair of D16); any other error is wrapped -/
def newLispError (e : Err) (carrier : Val) : Err :=
  match e with
  | .lisp p none => .lisp p (getPosition carrier)
  | .lisp p (some pos) => .lisp p (some pos)
  | .plain msg => .lisp (.goerr msg) (getPosition carrier)

/-- what `catch` binds: `e.ErrorValue()` for a LispError, else the message string -/
def caughtValue : Err → Val
  | .lisp p _ => p
  | .plain msg => .str msg

/-! ### store -/

structure Scope where
  data : List (String × Val)
  outer : Option Nat
deriving Inhabited

inductive Cmd where
  | noop | next | stepIn | stepOut
deriving DecidableEq, Inhabited, Repr

/-- the debugger hook: the scripted callback and the three process-wide flags of mal.go -/
structure Stepper where
  script : List Cmd            -- what the callback returns, call by call (NoOp when exhausted)
  skip : Bool := false
  outing1 : Bool := false
  outing2 : Bool := false
  calls : List Val := []       -- forms handed to the callback (most recent first)
deriving Inhabited

structure State where
  scopes : Array Scope := #[⟨[], none⟩]
  atoms : Array Val := #[]
  trace : List Val := []       -- `trace!` effects, most recent first
  marks : List Nat := []       -- `depth!` marks (EVAL-frame depth), most recent first
  ticks : Nat := 0             -- polls of `ctx.Done()` so far
  cancelAt : Option Nat := none  -- the poll (0-based) from which on `Done` is closed
  stepper : Option Stepper := none
deriving Inhabited

namespace State

def scope? (st : State) (id : Nat) : Option Scope := st.scopes[id]?

/-- `Env.Get` climbing the `outer` chain (fuel = number of scopes: outer ids are older scopes) -/
def getAux (st : State) : Nat → Nat → String → Option Val
  | 0, _, _ => none
  | fuel + 1, id, k =>
    match st.scope? id with
    | none => none
    | some sc =>
      match alookup k sc.data with
      | some v => some v
      | none => match sc.outer with
        | some o => getAux st fuel o k
        | none => none

def get (st : State) (env : Nat) (k : String) : Option Val := st.getAux (st.scopes.size + 1) env k

/-- `Env.Set` in scope `env` -/
def set (st : State) (env : Nat) (k : String) (v : Val) : State :=
  match st.scope? env with
  | none => st
  | some sc => { st with scopes := st.scopes.setIfInBounds env { sc with data := ainsert k v sc.data } }

/-- `NewSubordinateEnv(outer)` with initial bindings -/
def newScope (st : State) (outer : Nat) (data : List (String × Val)) : State × Nat :=
  ({ st with scopes := st.scopes.push ⟨data, some outer⟩ }, st.scopes.size)

def newAtom (st : State) (v : Val) : State × Nat :=
  ({ st with atoms := st.atoms.push v }, st.atoms.size)

/-- one poll of `ctx.Done()`: is the context cancelled? -/
def poll (st : State) : Bool × State :=
  let done := match st.cancelAt with
    | some n => decide (n ≤ st.ticks)
    | none => false
  (done, { st with ticks := st.ticks + 1 })

end State

/-- the deferred block of `do()`: `if outing1 { defer { skip = true; outing1 = false; outing2 = true } }` -/
def outing1Defer (st : State) : State :=
  match st.stepper with
  | some sp => if sp.outing1 then { st with stepper := some { sp with skip := true, outing1 := false, outing2 := true } } else st
  | none => st

def timeoutErr (ast : Val) : Err :=
  newLispError (.plain "timeout while evaluating expression") ast

/-! ### parameter binding: `_newSubordinateEnvWithBinds` (with the repairs of D3) -/

def bindLoop : List Val → List Val → Nat → Nat → List (String × Val) → Except Err (List (String × Val))
  | [], exprs, nb, ne, acc =>
    if exprs.isEmpty then .ok acc
    else .error (.lisp (.goerr s!"too many arguments passed ({nb} binds, {ne} arguments passed)") none)
  | .sym "&" _ :: rest, exprs, _, _, acc =>
    (match rest with
     | .sym name _ :: _ => .ok (ainsert name (.list exprs none) acc)
     | _ => .error (.lisp (.goerr "'&' must be followed by a parameter name") none))
  | .sym name _ :: rest, exprs, nb, ne, acc =>
    (match exprs with
     | [] => .error (.lisp (.goerr s!"too few arguments passed ({nb} binds, {ne} arguments passed)") none)
     | e :: es => bindLoop rest es nb ne (ainsert name e acc))
  | _ :: _, _, _, _, _ => .error (.lisp (.goerr "cannot use value as parameter name") none)

/-- the bindings of a call; `params = nil` binds nothing and accepts anything -/
def bindParams (params : Val) (args : List Val) : Except Err (List (String × Val)) :=
  match params with
  | .nil => .ok []
  | .list bs _ => bindLoop bs args bs.length args.length []
  | .vec bs _ => bindLoop bs args bs.length args.length []
  | _ => .error (.plain "GetSlice called on non-sequence")

/-! ### quasiquote -/

def startsWith (xs : List Val) (s : String) : Bool :=
  match xs with
  | .sym n _ :: _ => n == s
  | _ => false

mutual
/-- `quasiquote(ast)` -/
def quasiquote : Val → Val
  | .vec xs _ => .list [.sym "vec" none, qqLoop xs] none
  | .map m => .list [.sym "quote" none, .map m] none
  | .sym s p => .list [.sym "quote" none, .sym s p] none
  | .list xs _ =>
    match xs with
    | [.sym "unquote" _] => qqLoop xs                    -- `(unquote)`: no operand, an ordinary list
    | .sym "unquote" _ :: x :: _ => x
    | _ => qqLoop xs
  | v => v
/-- `qq_loop(xs)`: right-to-left fold building `cons` / `concat` forms -/
def qqLoop : List Val → Val
  | [] => .list [] none
  | elt :: rest =>
    let acc := qqLoop rest
    match elt with
    | .list (.sym "splice-unquote" _ :: x :: _) _ => .list [.sym "concat" none, x, acc] none
    | _ => .list [.sym "cons" none, quasiquote elt, acc] none
end

/-! ### the evaluator -/

abbrev R := Res Val × State

def specialForms : List String :=
  ["def", "let", "quote", "quasiquoteexpand", "quasiquote", "defmacro", "macroexpand", "try", "do", "if", "fn"]

/-- `first(list)` of mal.go -/
def firstSym : Val → String
  | .list (.sym s _ :: _) _ => s
  | _ => ""

/-- the operands of `try`: (body forms, catch clause, finally forms) -/
structure TryParts where
  body : List Val
  catchBind : Option Val := none
  catchDo : Option (List Val) := none
  finallyDo : Option (List Val) := none

/-- operand splitting of the `try` arm (`lst` = the whole form, at least two elements) -/
def splitTry (lst : List Val) : Except String TryParts :=
  let n := lst.length
  let last := lst.getLast?.getD .nil
  let prelast := if n ≥ 3 then lst.getD (n - 2) .nil else .nil
  let clause (c : Val) : Except String (Val × List Val) :=
    match c with
    | .list (_ :: b :: d) _ => if d.isEmpty then .error "catch must have 2 arguments at least" else .ok (b, d)
    | _ => .error "catch must have 2 arguments at least"
  if firstSym last = "catch" then
    match clause last with
    | .error m => .error m
    | .ok (b, d) => .ok { body := (lst.drop 1).take (n - 2), catchBind := some b, catchDo := some d }
  else if firstSym last = "finally" then
    let fin := match last with | .list (_ :: f) _ => f | _ => []
    if firstSym prelast = "catch" then
      match clause prelast with
      | .error m => .error m
      | .ok (b, d) => .ok { body := (lst.drop 1).take (n - 3), catchBind := some b, catchDo := some d, finallyDo := some fin }
    else .ok { body := (lst.drop 1).take (n - 2), finallyDo := some fin }
  else .ok { body := lst.drop 1 }

mutual

/-- `EVAL(ctx, ast, env)`: Stepper prologue, then the loop.  `d` = number of live EVAL activations. -/
def eval : Nat → State → Nat → Val → Nat → R
  | 0, st, _, _, _ => (.oof, st)
  | fuel + 1, st, env, ast, d =>
    match st.stepper with
    | none => evalLoop fuel st env ast d
    | some sp =>
      -- if !skip { cmd := Stepper(ast, env); … }
      let (sp, isNext) :=
        if !sp.skip then
          let cmd := sp.script.headD .noop
          let sp := { sp with script := sp.script.tail, calls := ast :: sp.calls }
          match cmd with
          | .next => ({ sp with skip := true }, true)
          | .stepIn => ({ sp with skip := false, outing1 := false }, false)
          | .stepOut => ({ sp with skip := true, outing1 := true }, false)
          | .noop => (sp, false)
        else (sp, false)
      let hadOuting2 := sp.outing2
      let (r, st') := evalLoop fuel { st with stepper := some sp } env ast d
      -- deferred resets, in LIFO order (both only assign flags)
      let st' := match st'.stepper with
        | none => st'
        | some sp' =>
          let sp' := if hadOuting2 then { sp' with skip := false, outing2 := false } else sp'
          let sp' := if isNext then { sp' with skip := false } else sp'
          { st' with stepper := some sp' }
      (r, st')

/-- the `for { … }` loop of `EVAL`, one iteration -/
def evalLoop : Nat → State → Nat → Val → Nat → R
  | 0, st, _, _, _ => (.oof, st)
  | fuel + 1, st, env, ast, d =>
    -- select { case <-ctx.Done(): … }
    let (done, st) := st.poll
    if done then (.err (timeoutErr ast), st) else
    match ast with
    | .list _ _ =>
      -- macroexpand
      match macroexpand fuel st env ast d with
      | (.err e, st) => (.err e, st)
      | (.oof, st) => (.oof, st)
      | (.ok ast, st) =>
      match ast with
      | .list [] _ => (.ok ast, st)
      | .list (a0 :: operands) pos =>
        let lst := a0 :: operands
        let a1 := operands.getD 0 .nil
        let a2 := operands.getD 1 .nil
        let a0sym := match a0 with | .sym s _ => s | _ => "__<*fn>__"
        /- `continue` / `if Stepper != nil { return EVAL(ctx, ast, env) }` -/
        let continueWith (st : State) (env : Nat) (ast : Val) : R :=
          match st.stepper with
          | none => evalLoop fuel st env ast d
          | some _ => eval fuel st env ast (d + 1)
        if a0sym = "def" then
          match eval fuel st env a2 (d + 1) with
          | (.ok res, st) =>
            (match a1 with
             | .sym name _ => (.ok res, st.set env name res)
             | _ => (.err (newLispError (.plain "cannot use value as identifier") ast), st))
          | r => r
        else if a0sym = "let" then
          let (st, letEnv) := st.newScope env []
          match seqOf? a1 with
          | none => (.err (.plain "GetSlice called on non-sequence"), st)
          | some arr1 =>
            if arr1.length % 2 ≠ 0 then (.err (newLispError (.plain "let: odd elements on binding vector") a1), st)
            else
              match letBinds fuel st letEnv arr1 a1 d with
              | (.ok _, st) =>
                (match doForms fuel st letEnv lst 2 true d with
                 | (.ok next, st) => continueWith st letEnv next
                 | r => r)
              | r => r
        else if a0sym = "quote" then (.ok a1, st)
        else if a0sym = "quasiquoteexpand" then (.ok (quasiquote a1), st)
        else if a0sym = "quasiquote" then continueWith st env (quasiquote a1)
        else if a0sym = "defmacro" then
          match eval fuel st env a2 (d + 1) with
          | (.ok f, st) =>
            (match f with
             | .fn ps b e _ p =>
               (match a1 with
                | .sym name _ => let m := Val.fn ps b e true p; (.ok m, st.set env name m)
                | _ => (.err (newLispError (.plain "cannot use value as identifier") ast), st))
             | _ => (.err (newLispError (.plain "defmacro requires a function") ast), st))
          | r => r
        else if a0sym = "macroexpand" then macroexpand fuel st env a1 d
        else if a0sym = "try" then
          if operands.isEmpty then (.ok .nil, st) else
          match splitTry lst with
          | .error msg => (.err (newLispError (.plain msg) ast), st)
          | .ok parts =>
            -- body as `do(ctx, tryDo, 0, 0, env)`
            let (r, st) := doForms fuel st env parts.body 0 false d
            let (r, st) : R :=
              match r with
              | .ok v => (.ok v, st)
              | .oof => (.oof, st)
              | .err e =>
                (match parts.catchDo, parts.catchBind with
                 | some handler, some bind =>
                   (match bindParams (.list [bind] none) [caughtValue e] with
                    | .error be => (.err be, st)
                    | .ok data =>
                      let (st, catchEnv) := st.newScope env data
                      doForms fuel st catchEnv handler 0 false d)
                 | _, _ => (.err e, st))
            -- defer func() { _, _ = do(ctx, finallyDo, 0, 0, env) }()
            match r with
            | .oof => (.oof, st)
            | _ =>
              match parts.finallyDo with
              | none => (r, outing1Defer st)      -- `do(ctx, nil, …)` still runs its `outing1` prologue
              | some fin =>
                match doForms fuel st env fin 0 false d with
                | (.oof, st) => (.oof, st)
                | (_, st) => (r, st)
        else if a0sym = "do" then
          match doForms fuel st env lst 1 true d with
          | (.ok next, st) => continueWith st env next
          | r => r
        else if a0sym = "if" then
          match eval fuel st env a1 (d + 1) with
          | (.ok cond, st) =>
            if truthy cond then continueWith st env a2
            else if lst.length ≥ 4 then continueWith st env (lst.getD 3 .nil)
            else (.ok .nil, st)
          | r => r
        else if a0sym = "fn" then
          if lst.length < 2 then (.err (newLispError (.plain "fn requires a parameter list") ast), st)
          else (.ok (.fn a1 (.list (.sym "do" none :: lst.drop 2) none) env false pos), st)
        else
          -- application: el := eval_ast(ast, env)
          match evalList fuel st env lst d with
          | (.ok el, st) =>
            (match el with
             | [] => (.err (.plain "empty application"), st)
             | f :: args =>
               match f with
               | .fn params body fenv _ _ =>
                 (match bindParams params args with
                  | .error e =>
                    (match e with
                     | .lisp (.goerr m) _ => (.err (.lisp (.goerr (m ++ " (around do)")) none), st)
                     | e => (.err (newLispError e body), st))
                  | .ok data =>
                    let (st, callEnv) := st.newScope fenv data
                    continueWith st callEnv body)
               | .builtin name =>
                 (match callBuiltin fuel st name args d with
                  | (.ok v, st) => (.ok v, st)
                  | (.err e, st) => (.err (newLispError e ast), st)
                  | (.oof, st) => (.oof, st))
               | _ => (.err (.lisp (.goerr "attempt to call non-function") none), st))
          | (.err e, st) => (.err e, st)
          | (.oof, st) => (.oof, st)
      | _ => evalAst fuel st env ast d
    | _ => evalAst fuel st env ast d

/-- `eval_ast(ast, env)` -/
def evalAst : Nat → State → Nat → Val → Nat → R
  | 0, st, _, _, _ => (.oof, st)
  | fuel + 1, st, env, ast, d =>
    match ast with
    | .sym s _ =>
      (match st.get env s with
       | some v => (.ok v, st)
       | none => (.err (.lisp (.goerr ("symbol '" ++ s ++ "' not found")) (getPosition ast)), st))
    | .list xs _ =>
      (match evalList fuel st env xs d with
       | (.ok vs, st) => (.ok (.list vs none), st)
       | (.err e, st) => (.err e, st)
       | (.oof, st) => (.oof, st))
    | .vec xs _ =>
      (match evalList fuel st env xs d with
       | (.ok vs, st) => (.ok (.vec vs none), st)
       | (.err e, st) => (.err e, st)
       | (.oof, st) => (.oof, st))
    | .map kvs =>
      (match evalMap fuel st env kvs d with
       | (.ok m, st) => (.ok (.map m), st)
       | (.err e, st) => (.err e, st)
       | (.oof, st) => (.oof, st))
    | v => (.ok v, st)

/-- the element loop of `eval_ast`: left to right, each element by a recursive `EVAL` -/
def evalList : Nat → State → Nat → List Val → Nat → Res (List Val) × State
  | 0, st, _, _, _ => (.oof, st)
  | _ + 1, st, _, [], _ => (.ok [], st)
  | fuel + 1, st, env, x :: xs, d =>
    match eval fuel st env x (d + 1) with
    | (.ok v, st) =>
      (match evalList fuel st env xs d with
       | (.ok vs, st) => (.ok (v :: vs), st)
       | r => r)
    | (.err e, st) => (.err e, st)
    | (.oof, st) => (.oof, st)

/-- hash-map literal: values evaluated entry by entry (Go: in map iteration order) -/
def evalMap : Nat → State → Nat → List (String × Val) → Nat → Res (List (String × Val)) × State
  | 0, st, _, _, _ => (.oof, st)
  | _ + 1, st, _, [], _ => (.ok [], st)
  | fuel + 1, st, env, (k, x) :: r, d =>
    match eval fuel st env x (d + 1) with
    | (.ok v, st) =>
      (match evalMap fuel st env r d with
       | (.ok m, st) => (.ok (ainsert k v m), st)
       | r => r)
    | (.err e, st) => (.err e, st)
    | (.oof, st) => (.oof, st)

/-- `do(ctx, ast, from, to, env)` on the element list of `ast`.
    `keepLast = true` (`to = -1`): evaluate `lst[from : len-1]` and return the last element
    *unevaluated* (the caller loops on it); `keepLast = false` (`to = 0`): evaluate all of `lst[from:]`
    and return the last value.  `len(lst) == from` ⇒ nil. -/
def doForms : Nat → State → Nat → List Val → Nat → Bool → Nat → R
  | 0, st, _, _, _, _, _ => (.oof, st)
  | fuel + 1, st, env, lst, from_, keepLast, d =>
    -- if outing1 { defer { skip = true; outing1 = false; outing2 = true } }
    let hadOuting1 := match st.stepper with | some sp => sp.outing1 | none => false
    let fin (r : R) : R :=
      if hadOuting1 then
        match r.2.stepper with
        | some sp => (r.1, { r.2 with stepper := some { sp with skip := true, outing1 := false, outing2 := true } })
        | none => r
      else r
    if lst.length ≤ from_ then fin (.ok .nil, st)
    else
      let forms := lst.drop from_
      let toEval := if keepLast then forms.dropLast else forms
      match evalList fuel st env toEval d with
      | (.ok vs, st) =>
        if keepLast then fin (.ok (lst.getLast?.getD .nil), st)
        else fin (.ok (vs.getLast?.getD .nil), st)
      | (.err e, st) => fin (.err e, st)
      | (.oof, st) => fin (.oof, st)

/-- the binding loop of `let` -/
def letBinds : Nat → State → Nat → List Val → Val → Nat → R
  | 0, st, _, _, _, _ => (.oof, st)
  | _ + 1, st, _, [], _, _ => (.ok .nil, st)
  | _ + 1, st, _, [_], _, _ => (.ok .nil, st)
  | fuel + 1, st, letEnv, b :: x :: rest, a1, d =>
    match b with
    | .sym name _ =>
      (match eval fuel st letEnv x (d + 1) with
       | (.ok v, st) => letBinds fuel (st.set letEnv name v) letEnv rest a1 d
       | r => r)
    | _ => (.err (newLispError (.plain "non-symbol bind value") a1), st)

/-- `macroexpand(ctx, ast, env)` -/
def macroexpand : Nat → State → Nat → Val → Nat → R
  | 0, st, _, _, _ => (.oof, st)
  | fuel + 1, st, env, ast, d =>
    match ast with
    | .list (.sym s _ :: args) _ =>
      (match st.get env s with
       | some (.fn params body fenv true _) =>
         -- Apply(ctx, fn, slc[1:])
         (match bindParams params args with
          | .error e => (.err e, st)
          | .ok data =>
            let (st, callEnv) := st.newScope fenv data
            match eval fuel st callEnv body (d + 1) with
            | (.ok ast', st) => macroexpand fuel st env ast' d
            | r => r)
       | _ => (.ok ast, st))
    | _ => (.ok ast, st)

/-- `types.Apply(ctx, f, args)` as builtins use it -/
def apply : Nat → State → Val → List Val → Nat → R
  | 0, st, _, _, _ => (.oof, st)
  | fuel + 1, st, f, args, d =>
    match f with
    | .fn params body fenv _ _ =>
      (match bindParams params args with
       | .error e => (.err e, st)
       | .ok data =>
         let (st, callEnv) := st.newScope fenv data
         eval fuel st callEnv body (d + 1))
    | .builtin name => callBuiltin fuel st name args d
    | _ => (.err (.plain "invalid function to Apply"), st)

/-- `mAp`: the element loop -/
def mapLoop : Nat → State → Val → List Val → Nat → Res (List Val) × State
  | 0, st, _, _, _ => (.oof, st)
  | _ + 1, st, _, [], _ => (.ok [], st)
  | fuel + 1, st, f, x :: xs, d =>
    match apply fuel st f [x] d with
    | (.ok v, st) =>
      (match mapLoop fuel st f xs d with
       | (.ok vs, st) => (.ok (v :: vs), st)
       | r => r)
    | (.err e, st) => (.err e, st)
    | (.oof, st) => (.oof, st)

/-- `_updateIn` -/
def updateIn : Nat → State → Val → List Val → Val → Nat → R
  | 0, st, _, _, _, _ => (.oof, st)
  | _ + 1, st, v, [], _, _ => (.ok v, st)
  | fuel + 1, st, v, [i], f, d => update1 fuel st v i f d
  | fuel + 1, st, v, i :: rest, f, d =>
    let branch : Option Val :=
      match v, i with
      | .map m, .str k => some (match (alookup k m).getD .nil with | .nil => .map [] | b => b)
      | .vec xs _, .int n => if 0 ≤ n ∧ n.toNat < xs.length then some (match xs.getD n.toNat .nil with | .nil => .vec [] none | b => b) else none
      | _, _ => none
    match branch with
    | none => (.err (.lisp (.goerr "update-in: type not supported / conversion") none), st)
    | some b =>
      -- `branch.(HashMap)` / `branch.(Vector)`: the branch must have the kind of its parent
      let sameKind := match v, b with | .map _, .map _ => true | .vec _ _, .vec _ _ => true | _, _ => false
      if !sameKind then (.err (.lisp (.goerr "interface conversion") none), st) else
      match updateIn fuel st b rest f d with
      | (.ok inner, st) =>
        (match Core.assoc [v, i, inner] with
         | .ok r => (.ok r, st)
         | .thrown t => (.err (.lisp t none), st)
         | .goerr m => (.err (.lisp (.goerr m) none), st))
      | r => r

/-- `_update` -/
def update1 : Nat → State → Val → Val → Val → Nat → R
  | 0, st, _, _, _, _ => (.oof, st)
  | fuel + 1, st, v, i, f, d =>
    let cur : Option Val :=
      match v, i with
      | .map m, .str k => some ((alookup k m).getD .nil)
      | .vec xs _, .int n => if 0 ≤ n ∧ n.toNat < xs.length then some (xs.getD n.toNat .nil) else none
      | _, _ => none
    match v with
    | .map _ | .vec _ _ =>
      (match cur with
       | none => (.err (.lisp (.goerr "interface conversion or index out of range") none), st)
       | some c =>
         match apply fuel st f [c] d with
         | (.ok res, st) =>
           (match Core.assoc [v, i, res] with
            | .ok r => (.ok r, st)
            | .thrown t => (.err (.lisp t none), st)
            | .goerr m => (.err (.lisp (.goerr m) none), st))
         | r => r)
    | _ => (.err (.lisp (.goerr "expected vector or hash-map") none), st)

/-- a Go builtin applied to evaluated arguments (`fn.Fn(ctx, args)`): its error comes back as a
    `LispError` without position (binder / `throw`), or as the callee's own error (callbacks) -/
def callBuiltin : Nat → State → String → List Val → Nat → R
  | 0, st, _, _, _ => (.oof, st)
  | fuel + 1, st, name, args, d =>
    let goerr (m : String) : R := (.err (.lisp (.goerr m) none), st)
    if name = "trace!" then
      (match args with
       | [v] => (.ok v, { st with trace := v :: st.trace })
       | _ => goerr "wrong number of arguments")
    else if name = "depth!" then
      (match args with
       | [] => (.ok .nil, { st with marks := d :: st.marks })
       | _ => goerr "wrong number of arguments")
    else if name = "eval" then
      (match args with
       | [a] => eval fuel st 0 a (d + 1)
       | _ => (.err (.plain "eval requires one argument"), st))
    else if name = "apply" then
      (match args with
       | f :: rest =>
         (match rest.getLast? with
          | none => goerr "apply requires at least 2 args"
          | some last =>
            match seqOf? last with
            | none => goerr "GetSlice called on non-sequence"
            | some tail => apply fuel st f (rest.dropLast ++ tail) d)
       | [] => goerr "wrong number of arguments")
    else if name = "map" then
      (match args with
       | [f, s] =>
         (match seqOf? s with
          | none => goerr "GetSlice called on non-sequence"
          | some xs =>
            match mapLoop fuel st f xs d with
            | (.ok vs, st) => (.ok (.list vs none), st)
            | (.err e, st) => (.err e, st)
            | (.oof, st) => (.oof, st))
       | _ => goerr "wrong number of arguments")
    else if name = "atom" then
      (match args with
       | [v] => let (st, id) := st.newAtom v; (.ok (.atom id), st)
       | _ => goerr "wrong number of arguments")
    else if name = "deref" then
      (match args with
       | [.atom id] => (.ok (st.atoms.getD id .nil), st)
       | [_] => (.err (.lisp (.str "reflect: Call using") none), st)
       | _ => goerr "wrong number of arguments")
    else if name = "reset!" then
      (match args with
       | [.atom id, v] => (.ok v, { st with atoms := st.atoms.setIfInBounds id v })
       | [_, _] => goerr "reset! called with non-atom"
       | _ => goerr "wrong number of arguments")
    else if name = "swap!" then
      (match args with
       | .atom id :: f :: extra =>
         (match apply fuel st f (st.atoms.getD id .nil :: extra) d with
          | (.ok v, st) => (.ok v, { st with atoms := st.atoms.setIfInBounds id v })
          | r => r)
       | _ :: _ :: _ => goerr "swap! called with non-atom"
       | _ => goerr "runtime error: index out of range")
    else if name = "update" then
      (match args with
       | [.nil, _, _] => (.ok .nil, st)
       | [v, i, f] => update1 fuel st v i f d
       | _ => goerr "wrong number of arguments")
    else if name = "update-in" then
      (match args with
       | [v, .vec path _, f] => (match v with | .nil => (.ok .nil, st) | _ => updateIn fuel st v path f d)
       | [_, _, _] => (.err (.lisp (.str "reflect: Call using") none), st)
       | _ => goerr "wrong number of arguments")
    else
      match Core.call name args with
      | some (.ok v) => (.ok v, st)
      | some (.thrown v) => (.err (.lisp v none), st)
      | some (.goerr m) => goerr m
      | none => goerr ("unmodelled builtin " ++ name)

end

/-- builtins bound in the root scope by the harness environment -/
def builtinNames : List String :=
  Core.pureNames ++ ["trace!", "depth!", "eval", "apply", "map", "atom", "deref", "reset!", "swap!", "update", "update-in"]

def initState : State :=
  { scopes := #[⟨builtinNames.map (fun n => (n, Val.builtin n)), none⟩] }

end LispModel

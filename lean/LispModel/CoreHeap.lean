/-
  The sequence / map builtins of lib/core/core.go at the level of slices: which backing array
  each of them writes and which window its result shares with its arguments — AS THE REPAIRED CODE
  WRITES THEM — plus, suffixed `Baseline`, `conj` (vector), `concat` and `subvec` as the code wrote
  them before the repair, and the literal builders (reader `read_list`, `eval_ast`: element-wise
  `append`, which is what leaves spare capacity behind: `[1 2 3]` has len 3, cap 4).

  Every function threads the heap: `op g h args = (h', result)`; `g` is the growth policy of
  `append`.  Case splits and checks follow `Core.body` (the pure model of the same Go function).
  Modelled at the slice level (`stepOp`): conj concat subvec list vector cons rest vec seq first nth
  take take-last drop drop-last range assoc dissoc hash-map merge rename-keys get keys vals assoc-in;
  separately (not in `Core.body`): with-meta, and with the callee as a parameter: apply (its argument
  vector), map, update, update-in.  Quasiquote with unquote-splicing and macro expansion produce
  calls of `concat` / `cons` / `vec` — histories of the above.
  `HRes.pure r` is an answer that carries no slice: every error, every scalar answer, and the answer
  of a builtin on arguments that are not heap collections (there the heap is not touched and `r` is
  what the pure model answers; a collection inside such an `r` is a constant outside the heap, see
  `Valid` in Heap.lean — e.g. the result of `get-in`, which is not modelled at the slice level).
  A step whose Go code fails half-way (e.g. `assoc` on a vector with a bad index, after `copy_vector`)
  answers on the heap it started from: what it wrote was its own copy, now garbage.
  Core Lean only.
-/
import LispModel.Heap
import LispModel.Core
namespace LispModel.Heap
open LispModel

inductive HRes where
  | ok (v : HVal)
  /-- no heap value: an error, or an answer computed on pure values only -/
  | pure (r : Core.BRes)
deriving Inhabited

def absRes (h : Heap) : HRes → Core.BRes
  | .ok v => .ok (abs h v)
  | .pure r => r

/-- `GetSlice` -/
def seqOfH? : HVal → Option Slice
  | .seq _ s _ => some s
  | _ => none

def mkList (s : Slice) : HVal := .seq .list s none
def mkVec (s : Slice) : HVal := .seq .vec s none
def intH (i : Int) : HVal := .leaf (.int i)

/-- what the pure model answers on the same arguments (used for every non-collection outcome) -/
def pureAns (name : String) (h : Heap) (args : List HVal) : Heap × HRes :=
  (h, .pure (Core.body name (args.map (abs h))))

/-! ### literal builders -/

/-- `lst := []MalType{}; for … { lst = append(lst, x) }` (reader `read_list`, `eval_ast`, `take`,
    `drop`, `mAp`, `keys` …).  The elements are already evaluated: the calls that produce them run
    before, which changes no aliasing (the slice under construction is a local). -/
def buildSeq (g : Nat → Nat → Nat) (h : Heap) (xs : List HVal) : Heap × Slice :=
  let e := emptyLit h
  appendEach g e.1 e.2 xs

/-- a list / vector literal -/
def litSeq (g : Nat → Nat → Nat) (k : SKind) (h : Heap) (xs : List HVal) : Heap × HVal :=
  let r := buildSeq g h xs
  (r.1, .seq k r.2 none)

/-- `append([]MalType{}, xs...)` -/
def copyOf (g : Nat → Nat → Nat) (h : Heap) (xs : List HVal) : Heap × Slice :=
  let e := emptyLit h
  goAppend g e.1 e.2 xs

/-! ### map objects -/

/-- a new map object with these entries -/
def allocMap (h : Heap) (kvs : List (String × HVal)) : Heap × HVal :=
  let r := alloc h (kvs.map (·.2)) 0
  (r.1, .map (kvs.map (·.1)) r.2)

/-- `new_hm.Val[key.(string)] = a[i+1]` over the key/value arguments; `none`: not string-keyed pairs -/
def assocMapH : List HVal → List (String × HVal) → Option (List (String × HVal))
  | [], m => some m
  | .leaf (.str k) :: v :: r, m => assocMapH r (ainsert k v m)
  | _, _ => none

/-! ### conj, concat, subvec — repaired -/

/-- `conj`, List arm: `new_slc := []MalType{}`; the items appended one by one in reverse; then
    `append(new_slc, seq.Val...)`.  Vector arm: `append(append([]MalType{}, seq.Val...), a[1:]...)`.
    HashMap arm: `copy_hash_map` and writes into the copy.  (A set answers a set: no slice.) -/
def hConj (g : Nat → Nat → Nat) (h : Heap) (args : List HVal) : Heap × HRes :=
  match args with
  | .seq .list s _ :: xs =>
    let b := buildSeq g h xs.reverse
    let r := goAppend g b.1 b.2 (window b.1 s)
    (r.1, .ok (mkList r.2))
  | .seq .vec s _ :: xs =>
    let c := copyOf g h (window h s)
    let r := goAppend g c.1 c.2 xs
    (r.1, .ok (mkVec r.2))
  | .map ks s :: xs =>
    if xs.length % 2 ≠ 0 then pureAns "conj" h args
    else match assocMapH xs (entries h ks s) with
      | some m => let x := allocMap h m; (x.1, .ok x.2)
      | none => pureAns "conj" h args
  | _ => pureAns "conj" h args

/-- the loop `slc1 = append(slc1, slc2...)` of `concat`; `none` when an argument is no sequence -/
def concatLoop (g : Nat → Nat → Nat) : Heap → Slice → List HVal → Option (Heap × Slice)
  | h, s, [] => some (h, s)
  | h, s, a :: as =>
    match seqOfH? a with
    | none => none
    | some s2 => let r := goAppend g h s (window h s2); concatLoop g r.1 r.2 as

/-- `concat`: no argument → `List{}`; else `slc1 := append([]MalType{}, slc0...)` and the loop -/
def hConcat (g : Nat → Nat → Nat) (h : Heap) (args : List HVal) : Heap × HRes :=
  match args with
  | [] => let e := emptyLit h; (e.1, .ok (mkList e.2))
  | a :: as =>
    match seqOfH? a with
    | none => pureAns "concat" h args
    | some s0 =>
      let c := copyOf g h (window h s0)
      match concatLoop g c.1 c.2 as with
      | none => pureAns "concat" h args
      | some r => (r.1, .ok (mkList r.2))

/-- `subvec`: `v.Val[from:to:to]` -/
def hSubvec (h : Heap) (args : List HVal) : Heap × HRes :=
  match args with
  | [.seq .vec s _, .leaf (.int f)] =>
    if 0 ≤ f ∧ f.toNat ≤ s.len then (h, .ok (mkVec (slice3 s f.toNat s.len s.len))) else pureAns "subvec" h args
  | [.seq .vec s _, .leaf (.int f), .leaf (.int t)] =>
    if 0 ≤ f ∧ f ≤ t ∧ t.toNat ≤ s.len then (h, .ok (mkVec (slice3 s f.toNat t.toNat t.toNat)))
    else pureAns "subvec" h args
  | _ => pureAns "subvec" h args

/-! ### conj, concat, subvec — as written BEFORE the repair -/

/-- Vector arm: `new_slc := append(seq.Val, a[1:]...)` — onto the argument's own slice -/
def hConjBaseline (g : Nat → Nat → Nat) (h : Heap) (args : List HVal) : Heap × HRes :=
  match args with
  | .seq .vec s _ :: xs =>
    let r := goAppend g h s xs
    (r.1, .ok (mkVec r.2))
  | _ => hConj g h args

/-- `slc1, _ := GetSlice(a[0])` and then the loop — onto the first argument's slice -/
def hConcatBaseline (g : Nat → Nat → Nat) (h : Heap) (args : List HVal) : Heap × HRes :=
  match args with
  | [] => let e := emptyLit h; (e.1, .ok (mkList e.2))
  | a :: as =>
    match seqOfH? a with
    | none => pureAns "concat" h args
    | some s0 =>
      match concatLoop g h s0 as with
      | none => pureAns "concat" h args
      | some r => (r.1, .ok (mkList r.2))

/-- `v.Val[from:to]` — the capacity of the parent kept -/
def hSubvecBaseline (h : Heap) (args : List HVal) : Heap × HRes :=
  match args with
  | [.seq .vec s _, .leaf (.int f)] =>
    if 0 ≤ f ∧ f.toNat ≤ s.len then (h, .ok (mkVec (slice2 s f.toNat s.len))) else pureAns "subvec" h args
  | [.seq .vec s _, .leaf (.int f), .leaf (.int t)] =>
    if 0 ≤ f ∧ f ≤ t ∧ t.toNat ≤ s.len then (h, .ok (mkVec (slice2 s f.toNat t.toNat)))
    else pureAns "subvec" h args
  | _ => pureAns "subvec" h args

/-! ### the other sequence builtins (repaired = unrepaired: the repair did not touch them) -/

/-- `list` / `vector`: `List{Val: a}` where `a` is the variadic parameter, which the reflective binder
    (`reflect.Value.Call`) packs into a NEW slice with `len = cap = number of arguments` -/
def hListOf (k : SKind) (h : Heap) (args : List HVal) : Heap × HRes :=
  let r := alloc h args 0
  (r.1, .ok (.seq k r.2 none))

/-- `cons`: `append([]MalType{x}, lst...)` -/
def hCons (g : Nat → Nat → Nat) (h : Heap) (args : List HVal) : Heap × HRes :=
  match args with
  | [x, .seq _ s _] =>
    let l := alloc h [x] 0
    let r := goAppend g l.1 l.2 (window l.1 s)
    (r.1, .ok (mkList r.2))
  | _ => pureAns "cons" h args

/-- `rest`: `List{}` for nil and for an empty sequence, else `slc[1:]` (shares, capacity kept) -/
def hRest (h : Heap) (args : List HVal) : Heap × HRes :=
  match args with
  | [.leaf .nil] => let e := emptyLit h; (e.1, .ok (mkList e.2))
  | [.seq _ s _] =>
    if s.len = 0 then let e := emptyLit h; (e.1, .ok (mkList e.2))
    else (h, .ok (mkList (slice2 s 1 s.len)))
  | _ => pureAns "rest" h args

/-- `vec`: `ConvertFrom` hands the argument's own slice over; a set gives `make([]MalType, 0, n)` filled -/
def hVec (h : Heap) (args : List HVal) : Heap × HRes :=
  match args with
  | [.seq _ s _] => (h, .ok (mkVec s))
  | [.leaf (.set ks)] => let r := alloc h (ks.map fun k => .leaf (.str k)) 0; (r.1, .ok (mkVec r.2))
  | _ => pureAns "vec" h args

/-- `seq`: a list is returned as it is, a vector as `List{Val: arg.Val}` (shares); set and string build -/
def hSeq (g : Nat → Nat → Nat) (h : Heap) (args : List HVal) : Heap × HRes :=
  match args with
  | [.seq .list s p] => if s.len = 0 then (h, .ok nilH) else (h, .ok (.seq .list s p))
  | [.seq .vec s _] => if s.len = 0 then (h, .ok nilH) else (h, .ok (mkList s))
  | [.leaf (.set ks)] => let r := buildSeq g h (ks.map fun k => .leaf (.str k)); (r.1, .ok (mkList r.2))
  | [.leaf (.str str)] =>
    if str.toList.isEmpty then (h, .ok nilH)
    else let r := buildSeq g h (str.toList.map fun c => .leaf (.str (String.ofList [c]))); (r.1, .ok (mkList r.2))
  | _ => pureAns "seq" h args

/-- `first`: the cell itself -/
def hFirst (h : Heap) (args : List HVal) : Heap × HRes :=
  match args with
  | [.seq _ s _] => (h, .ok ((window h s).headD nilH))
  | _ => pureAns "first" h args

/-- `nth`: the cell itself -/
def hNth (h : Heap) (args : List HVal) : Heap × HRes :=
  match args with
  | [.seq _ s _, .leaf (.int i)] =>
    if 0 ≤ i ∧ i.toNat < s.len then (h, .ok ((window h s).getD i.toNat nilH)) else pureAns "nth" h args
  | _ => pureAns "nth" h args

/-- `take` / `drop` / `drop-last`: `new_list := List{Val: []MalType{}}` and element-wise `append` -/
def hTake (g : Nat → Nat → Nat) (h : Heap) (args : List HVal) : Heap × HRes :=
  match args with
  | [.leaf (.int _), .leaf .nil] => let e := emptyLit h; (e.1, .ok (mkList e.2))
  | [.leaf (.int n), .seq _ s _] => let r := buildSeq g h ((window h s).take n.toNat); (r.1, .ok (mkList r.2))
  | _ => pureAns "take" h args

def hDrop (g : Nat → Nat → Nat) (h : Heap) (args : List HVal) : Heap × HRes :=
  match args with
  | [.leaf (.int _), .leaf .nil] => let e := emptyLit h; (e.1, .ok (mkList e.2))
  | [.leaf (.int n), .seq _ s _] => let r := buildSeq g h ((window h s).drop n.toNat); (r.1, .ok (mkList r.2))
  | _ => pureAns "drop" h args

def hDropLast (g : Nat → Nat → Nat) (h : Heap) (args : List HVal) : Heap × HRes :=
  match args with
  | [.leaf (.int _), .leaf .nil] => let e := emptyLit h; (e.1, .ok (mkList e.2))
  | [.leaf (.int n), .seq _ s _] =>
    let r := buildSeq g h ((window h s).take (s.len - n.toNat)); (r.1, .ok (mkList r.2))
  | _ => pureAns "drop-last" h args

/-- `take-last`: `new_list := List{}` (nil slice), element-wise `append`, `nil` when nothing was taken -/
def hTakeLast (g : Nat → Nat → Nat) (h : Heap) (args : List HVal) : Heap × HRes :=
  match args with
  | [.leaf (.int n), .seq _ s _] =>
    let xs := (window h s).drop (s.len - n.toNat)
    if xs.isEmpty then (h, .ok nilH)
    else let r := buildSeq g h xs; (r.1, .ok (mkList r.2))
  | _ => pureAns "take-last" h args

/-- `range`: `var value []MalType` and element-wise `append` -/
def hRange (g : Nat → Nat → Nat) (h : Heap) (args : List HVal) : Heap × HRes :=
  match args with
  | [.leaf (.int f), .leaf (.int t)] =>
    let r := buildSeq g h ((Core.rangeList (t - f).toNat f).map .leaf); (r.1, .ok (mkVec r.2))
  | _ => pureAns "range" h args

/-! ### hash-maps, `assoc` / `get` on vectors

  A producing builtin copies the Go map (`copy_hash_map`, or a new `map[string]MalType{}`) and writes
  the copy only: the result is a NEW map object — here, a new array holding the values.  Iteration
  order of a Go map is arbitrary; like `Val.map` the model keeps insertion order (every statement
  about maps is up to key order). -/

/-- `new_v.Val[keyInt] = a[i+1]` over the arguments, on the copy `s`; `none`: a bad key / index -/
def assocVecH : Heap → Slice → List HVal → Option Heap
  | h, _, [] => some h
  | h, s, .leaf (.int i) :: v :: r =>
    if 0 ≤ i ∧ i.toNat < s.len then assocVecH (setAt h s i.toNat v) s r else none
  | _, _, _ => none

/-- `assoc`: map arm `copy_hash_map` + writes; vector arm `copy_vector` (= `append([]MalType{}, v.Val...)`)
    + index assignments INTO THE COPY; a set answers a set (no slice) -/
def hAssoc (g : Nat → Nat → Nat) (h : Heap) (args : List HVal) : Heap × HRes :=
  match args with
  | .map ks s :: r =>
    if args.length < 3 then pureAns "assoc" h args
    else if args.length % 2 ≠ 1 then pureAns "assoc" h args
    else match assocMapH r (entries h ks s) with
      | some m => let x := allocMap h m; (x.1, .ok x.2)
      | none => pureAns "assoc" h args
  | .seq .vec s _ :: r =>
    if args.length < 3 then pureAns "assoc" h args
    else
      let c := copyOf g h (window h s)
      match assocVecH c.1 c.2 r with
      | some h' => (h', .ok (mkVec c.2))
      | none => pureAns "assoc" h args
  | _ => pureAns "assoc" h args

def strKeys? : List HVal → Option (List String)
  | [] => some []
  | .leaf (.str k) :: r => (strKeys? r).map (k :: ·)
  | _ => none

/-- `dissoc` on a map: `copy_hash_map` + `delete` -/
def hDissoc (h : Heap) (args : List HVal) : Heap × HRes :=
  match args with
  | .map ks s :: r =>
    if args.length < 2 then pureAns "dissoc" h args
    else match strKeys? r with
      | some del => let x := allocMap h (del.foldl (fun m k => aerase k m) (entries h ks s)); (x.1, .ok x.2)
      | none => pureAns "dissoc" h args
  | _ => pureAns "dissoc" h args

/-- `hash-map`: `NewHashMap` fills a new `map[string]MalType{}` -/
def hHashMap (h : Heap) (args : List HVal) : Heap × HRes :=
  match args with
  | [] => let x := allocMap h []; (x.1, .ok x.2)
  | [_] => pureAns "hash-map" h args
  | _ =>
    if args.length % 2 = 1 then pureAns "hash-map" h args
    else match assocMapH args [] with
      | some m => let x := allocMap h m; (x.1, .ok x.2)
      | none => pureAns "hash-map" h args

/-- `merge`: `make(map[string]MalType)` filled from both -/
def hMerge (h : Heap) (args : List HVal) : Heap × HRes :=
  let ins := fun (acc : List (String × HVal)) (kv : String × HVal) => ainsert kv.1 kv.2 acc
  match args with
  | [.leaf .nil, .map ks s] => let x := allocMap h ((entries h ks s).foldl ins []); (x.1, .ok x.2)
  | [.map ks s, .leaf .nil] => let x := allocMap h ((entries h ks s).foldl ins []); (x.1, .ok x.2)
  | [.map ks1 s1, .map ks2 s2] =>
    let x := allocMap h ((entries h ks2 s2).foldl ins (entries h ks1 s1)); (x.1, .ok x.2)
  | _ => pureAns "merge" h args

/-- one iteration of `rename-keys`: `output[newKey.(string)] = v` / `output[k] = v` -/
def renStepH (alt : List (String × HVal)) (acc : Option (List (String × HVal))) (kv : String × HVal) :
    Option (List (String × HVal)) :=
  acc.bind fun out =>
    match alookup kv.1 alt with
    | some (.leaf (.str nk)) => some (ainsert nk kv.2 out)
    | some _ => none
    | none => some (ainsert kv.1 kv.2 out)

/-- `rename-keys`: `output := map[string]MalType{}` filled while iterating `data` -/
def hRenameKeys (h : Heap) (args : List HVal) : Heap × HRes :=
  match args with
  | [.map ks s, .map ks2 s2] =>
    match (entries h ks s).foldl (renStepH (entries h ks2 s2)) (some []) with
    | some out => let x := allocMap h out; (x.1, .ok x.2)
    | none => pureAns "rename-keys" h args
  | _ => pureAns "rename-keys" h args

/-- `get`: the stored value itself -/
def hGet (h : Heap) (args : List HVal) : Heap × HRes :=
  match args with
  | [.map ks s, .leaf (.str k)] => (h, .ok ((alookup k (entries h ks s)).getD nilH))
  | [.seq _ s _, .leaf (.int i)] =>
    if 0 ≤ i ∧ i.toNat < s.len then (h, .ok ((window h s).getD i.toNat nilH)) else pureAns "get" h args
  | _ => pureAns "get" h args

/-- `keys` / `vals`: `slc := []MalType{}` and element-wise `append` -/
def hKeys (g : Nat → Nat → Nat) (h : Heap) (args : List HVal) : Heap × HRes :=
  match args with
  | [.map ks s] => let r := buildSeq g h ((entries h ks s).map fun kv => .leaf (.str kv.1)); (r.1, .ok (mkList r.2))
  | _ => pureAns "keys" h args

def hVals (g : Nat → Nat → Nat) (h : Heap) (args : List HVal) : Heap × HRes :=
  match args with
  | [.map ks s] => let r := buildSeq g h ((entries h ks s).map (·.2)); (r.1, .ok (mkList r.2))
  | _ => pureAns "vals" h args

/-! ### with-meta, assoc-in, and the builtins that call back into the evaluator

  `apply`, `map`, `update`, `update-in` call a lisp function.  Here the callee is a parameter
  `cb : Heap → HVal → Heap × HRes` (the function applied to one argument: whatever it does, it does it
  as a step on the heap); the theorems assume of it exactly what they prove of every builtin
  (`CallbackOK` in Proofs/Heap.lean). -/

/-- `with-meta` on a list / vector / map: a new header `{Val: tobj.Val, Meta: meta}` on the SAME window
    (the cursor is dropped; metadata is not part of `Val`) -/
def hWithMeta (h : Heap) (args : List HVal) : Heap × HRes :=
  match args with
  | [.seq k s _, _] => (h, .ok (.seq k s none))
  | [.map ks s, _] => (h, .ok (.map ks s))
  | _ => (h, .pure (.goerr "with-meta not supported on type"))

/-- the argument list `apply` hands to its callee, on pure values (`callBuiltin "apply"` in Eval.lean):
    all arguments but the last, then the elements of the last -/
def pureApplyArgs (args : List Val) : Core.BRes :=
  match args.getLast? with
  | none => .goerr "GetSlice called on non-sequence"
  | some last =>
    match Core.seqOf? last with
    | none => .goerr "GetSlice called on non-sequence"
    | some tail => .ok (.list (args.dropLast ++ tail) none)

/-- the argument vector `apply` builds: `args := append([]MalType{}, a[1:len(a)-1]...)` and then
    `append(args, last...)` — what a variadic lisp callee sees as its `& rest` list -/
def hApplyArgs (g : Nat → Nat → Nat) (h : Heap) (args : List HVal) : Heap × HRes :=
  match args.getLast? with
  | some (.seq _ s _) =>
    let c := copyOf g h args.dropLast
    let r := goAppend g c.1 c.2 (window c.1 s)
    (r.1, .ok (mkList r.2))
  | _ => (h, .pure (pureApplyArgs (args.map (abs h))))

/-- the value a successful call produced -/
def resVal : HRes → Option HVal
  | .ok v => some v
  | .pure (.ok v) => some (.leaf v)
  | .pure _ => none

/-- the loop of `mAp`: `res, e := Apply(ctx, f, []MalType{arg})` for every element, first error wins.
    (The results are appended to `results` afterwards, see `buildSeq`.) -/
def mapLoopH (cb : Heap → HVal → Heap × HRes) : Heap → List HVal → Heap × Except Core.BRes (List HVal)
  | h, [] => (h, .ok [])
  | h, x :: xs =>
    let r := cb h x
    match resVal r.2 with
    | none => (r.1, .error (absRes r.1 r.2))
    | some v =>
      let t := mapLoopH cb r.1 xs
      match t.2 with
      | .ok vs => (t.1, .ok (v :: vs))
      | .error e => (t.1, .error e)

/-- the elements `GetSlice` hands out (a `leaf` constant that is a collection: its elements) -/
def elemsH (h : Heap) : HVal → Option (List HVal)
  | .seq _ s _ => some (window h s)
  | .leaf v => (Core.seqOf? v).map (·.map .leaf)
  | .map _ _ => none

/-- `map` -/
def hMap (g : Nat → Nat → Nat) (cb : Heap → HVal → Heap × HRes) (h : Heap) (s : HVal) : Heap × HRes :=
  match elemsH h s with
  | none => (h, .pure (.goerr "GetSlice called on non-sequence"))
  | some xs =>
    let t := mapLoopH cb h xs
    match t.2 with
    | .error e => (t.1, .pure e)
    | .ok vs => let r := buildSeq g t.1 vs; (r.1, .ok (mkList r.2))

/-- `m[index]` of `_update`: the stored value itself -/
def curH (h : Heap) (v i : HVal) : Option HVal :=
  match v, i with
  | .map ks s, .leaf (.str k) => some ((alookup k (entries h ks s)).getD nilH)
  | .seq .vec s _, .leaf (.int n) => if 0 ≤ n ∧ n.toNat < s.len then some ((window h s).getD n.toNat nilH) else none
  | _, _ => none

/-- `_update`: `res := Apply(f, [m[index]])` then `assoc(m, index, res)` -/
def hUpdate (g : Nat → Nat → Nat) (cb : Heap → HVal → Heap × HRes) (h : Heap) (v i : HVal) : Heap × HRes :=
  match curH h v i with
  | none => (h, .pure (.goerr "update: expected vector or hash-map / bad index"))
  | some c =>
    let r := cb h c
    match resVal r.2 with
    | none => (r.1, .pure (absRes r.1 r.2))
    | some res => hAssoc g r.1 [v, i, res]

/-- the branch `_assocIn` descends into: the stored value, or a NEW empty map / vector when it is nil -/
def branchH (h : Heap) (v i : HVal) : Option (Heap × HVal) :=
  match v, i with
  | .map ks s, .leaf (.str k) =>
    some (match (alookup k (entries h ks s)).getD nilH with
          | .leaf .nil => allocMap h []
          | b => (h, b))
  | .seq .vec s _, .leaf (.int n) =>
    if 0 ≤ n ∧ n.toNat < s.len then
      some (match (window h s).getD n.toNat nilH with
            | .leaf .nil => let e := emptyLit h; (e.1, mkVec e.2)
            | b => (h, b))
    else none
  | _, _ => none

/-- `_assocIn` on heap collections (`none`: an argument shape outside maps / vectors — the caller
    answers what the pure model answers) -/
def assocInH (g : Nat → Nat → Nat) : Heap → HVal → List HVal → HVal → Option (Heap × HRes)
  | h, v, [], _ => some (h, .ok v)
  | h, v, [i], nv => some (hAssoc g h [v, i, nv])
  | h, v, i :: rest, nv =>
    match branchH h v i with
    | none => none
    | some b =>
      match assocInH g b.1 b.2 rest nv with
      | none => none
      | some r =>
        match resVal r.2 with
        | none => some r
        | some inner => some (hAssoc g r.1 [v, i, inner])

/-- `assoc-in` -/
def hAssocIn (g : Nat → Nat → Nat) (h : Heap) (args : List HVal) : Heap × HRes :=
  match args with
  | [v, .seq .vec ps _, nv] =>
    match assocInH g h v (window h ps) nv with
    | some r => r
    | none => pureAns "assoc-in" h args
  | _ => pureAns "assoc-in" h args

/-- `branch.(HashMap)` / `branch.(Vector)`: the branch must have the kind of its parent -/
def sameKindH (v b : HVal) : Bool :=
  match v, b with
  | .map _ _, .map _ _ => true
  | .seq .vec _ _, .seq .vec _ _ => true
  | _, _ => false

/-- `_updateIn`: like `_assocIn`, the leaf step is `_update` -/
def updateInH (g : Nat → Nat → Nat) (cb : Heap → HVal → Heap × HRes) : Heap → HVal → List HVal → Heap × HRes
  | h, v, [] => (h, .ok v)
  | h, v, [i] => hUpdate g cb h v i
  | h, v, i :: rest =>
    match branchH h v i with
    | none => (h, .pure (.goerr "update-in: type not supported / conversion"))
    | some b =>
      if !sameKindH v b.2 then (b.1, .pure (.goerr "interface conversion")) else
      let r := updateInH g cb b.1 b.2 rest
      match resVal r.2 with
      | none => r
      | some inner => hAssoc g r.1 [v, i, inner]

/-! ### one step, histories -/

/-- one builtin call on the heap.  Builtins that are not modelled at the slice level (arithmetic,
    predicates, printing, … — their answers carry no slice) answer what the pure model answers. -/
def stepOp (g : Nat → Nat → Nat) (name : String) (h : Heap) (args : List HVal) : Heap × HRes :=
  match name with
  | "conj" => hConj g h args
  | "concat" => hConcat g h args
  | "subvec" => hSubvec h args
  | "list" => hListOf .list h args
  | "vector" => hListOf .vec h args
  | "cons" => hCons g h args
  | "rest" => hRest h args
  | "vec" => hVec h args
  | "seq" => hSeq g h args
  | "first" => hFirst h args
  | "nth" => hNth h args
  | "take" => hTake g h args
  | "take-last" => hTakeLast g h args
  | "drop" => hDrop g h args
  | "drop-last" => hDropLast g h args
  | "range" => hRange g h args
  | "assoc" => hAssoc g h args
  | "dissoc" => hDissoc h args
  | "hash-map" => hHashMap h args
  | "merge" => hMerge h args
  | "rename-keys" => hRenameKeys h args
  | "get" => hGet h args
  | "keys" => hKeys g h args
  | "vals" => hVals g h args
  | "assoc-in" => hAssocIn g h args
  | _ => pureAns name h args

/-- the unrepaired code: `conj`, `concat`, `subvec` as they were, everything else the same -/
def stepOpBaseline (g : Nat → Nat → Nat) (name : String) (h : Heap) (args : List HVal) : Heap × HRes :=
  match name with
  | "conj" => hConjBaseline g h args
  | "concat" => hConcatBaseline g h args
  | "subvec" => hSubvecBaseline h args
  | _ => stepOp g name h args

/-- an argument of a step: an earlier binding (by index) or a scalar literal -/
inductive Arg where
  | ref (i : Nat)
  | lit (v : Val)

/-- `(def vᵢ (name arg…))`, or `(def vᵢ [arg…])` / a list built the same way (`eval_ast`) -/
inductive Step where
  | call (name : String) (args : List Arg)
  | lit (k : SKind) (args : List Arg)

abbrev History := List Step

def argH (env : List HVal) : Arg → HVal
  | .ref i => env.getD i nilH
  | .lit v => .leaf v

/-- what `def` binds: the value; `nil` when the step failed -/
def bindH : HRes → HVal
  | .ok v => v
  | .pure (.ok v) => .leaf v
  | .pure _ => nilH

def stepH (step : (name : String) → Heap → List HVal → Heap × HRes) (g : Nat → Nat → Nat)
    (h : Heap) (env : List HVal) : Step → Heap × HVal
  | .call name args => let r := step name h (args.map (argH env)); (r.1, bindH r.2)
  | .lit k args => litSeq g k h (args.map (argH env))

/-- run a history: every step binds the next name; bindings are never re-defined -/
def runH (step : (name : String) → Heap → List HVal → Heap × HRes) (g : Nat → Nat → Nat) :
    Heap → List HVal → History → Heap × List HVal
  | h, env, [] => (h, env)
  | h, env, st :: rest => let r := stepH step g h env st; runH step g r.1 (env ++ [r.2]) rest

/-! the pure meaning of a history: every name is bound once, to an immutable value -/

def argP (env : List Val) : Arg → Val
  | .ref i => env.getD i .nil
  | .lit v => v

def bindP : Core.BRes → Val
  | .ok v => v
  | _ => .nil

def stepP (env : List Val) : Step → Val
  | .call name args => bindP (Core.body name (args.map (argP env)))
  | .lit k args => mkSeq k (args.map (argP env)) none

def runP : List Val → History → List Val
  | env, [] => env
  | env, st :: rest => runP (env ++ [stepP env st]) rest

end LispModel.Heap

/-
  Driver of engine `pkgreg` (C02): one request = a history of host registrations and program
  bindings of the `_PACKAGES_` registry; answer = after every operation the current registry and the
  value of every binding made so far (restricted to the harness' own packages, sorted).
  Protocol: ops separated by blanks: `R,<pkg>,<fn>` (host registers fn of pkg), `S` (def sK _PACKAGES_),
  `G,<pkg>` (def sK (get _PACKAGES_ "pkg")).
-/
import LispModel.PkgReg
namespace LispModel.PkgReg

def sortStrs (l : List String) : List String := l.mergeSort (fun a b => decide (a ≤ b))

def renderSet (ks : List String) : String := "[" ++ ",".intercalate (sortStrs ks) ++ "]"

def renderV : V → String
  | .nil => "nil"
  | .set ks => renderSet ks
  | .map kvs =>
    let es := (kvs.map fun (k, v) => k ++ "=" ++ renderSet v)
    "{" ++ ";".intercalate (sortStrs es) ++ "}"

def parseOp (t : String) : Option Op :=
  match t.splitOn "," with
  | ["R", p, f] => some (.reg p f)
  | ["S"] => some .snapMap
  | ["G", p] => some (.snapSet p)
  | _ => none

/-- the environment after `nscore.Load`: `_PACKAGES_` is bound; the core's own packages are other keys
    of the same objects and are filtered out of the observation on both sides -/
def initSt : St := { heap := { sets := [], maps := [[]] }, pkgs := some 0 }

def renderSt (st : St) : String :=
  "cur=" ++ renderV (curVal st) ++ " snaps=" ++ " ".intercalate ((observe st).map renderV)

def handlePkgReg (payload : String) : String :=
  match (payload.splitOn " ").filter (· ≠ "") |>.mapM parseOp with
  | none => "bad-case"
  | some ops =>
    let rec go (st : St) (ops : List Op) (acc : List String) : List String :=
      match ops with
      | [] => acc.reverse
      | o :: r => let st' := step registerFixed st o; go st' r (renderSt st' :: acc)
    " | ".intercalate (go initSt ops [])

end LispModel.PkgReg

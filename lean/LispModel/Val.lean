/-
  Values of jig/lisp as the Go code represents them (types/types.go).

  * keywords are `str` whose first character is U+029E (exactly as in Go);
  * hash-maps / sets are association lists kept in insertion order with overwrite; every
    statement about them is up to key permutation;
  * `sym`, `list`, `vec` and closures carry the reader's cursor (`Option Pos`), which never
    takes part in equality or printing;
  * reference objects (atoms, futures) are ids into the store of the evaluator model.
  Core Lean only (this file is linked into the driver executable).
-/
namespace LispModel

/-- `types.Position` (module name and the four coordinates). -/
structure Pos where
  module : Option String := none
  beginRow : Int := 0
  beginCol : Int := 0
  row : Int := 0
  col : Int := 0
deriving Repr, DecidableEq, Inhabited, BEq

/-- U+029E, the keyword marker. -/
def kwMarker : Char := 'ʞ'

inductive Val where
  | nil
  | bool (b : Bool)
  | int (i : Int)
  | str (s : String)
  | sym (s : String) (pos : Option Pos)
  | list (xs : List Val) (pos : Option Pos)
  | vec (xs : List Val) (pos : Option Pos)
  | map (kvs : List (String × Val))
  | set (ks : List String)
  /-- `MalFunc{Params, Exp, Env, IsMacro, Cursor}`; `env` is a scope id of the store. -/
  | fn (params : Val) (body : Val) (env : Nat) (isMacro : Bool) (pos : Option Pos)
  /-- `Func{Fn}`: a Go builtin, identified by its lisp name. -/
  | builtin (name : String)
  | atom (id : Nat)
  | future (id : Nat)
  /-- a Go `error` object that is not a `LispError`, as a lisp value -/
  | goerr (msg : String)
  /-- `float32` (value not modelled) and every other Go value, by tag -/
  | opaque (tag : String)
deriving Repr, Inhabited

namespace Val

def sym' (s : String) : Val := .sym s none
def list' (xs : List Val) : Val := .list xs none
def vec' (xs : List Val) : Val := .vec xs none
def kw (s : String) : Val := .str (String.ofList (kwMarker :: s.toList))

/-- `strings.HasPrefix(s, "ʞ")` -/
def isKwStr (s : String) : Bool :=
  match s.toList with
  | c :: _ => c == kwMarker
  | [] => false

/-- Go dynamic type name, as `%T` / `reflect.TypeOf` distinguish them. -/
def kind : Val → String
  | .nil => "nil" | .bool _ => "bool" | .int _ => "int" | .str _ => "string"
  | .sym _ _ => "Symbol" | .list _ _ => "List" | .vec _ _ => "Vector" | .map _ => "HashMap"
  | .set _ => "Set" | .fn .. => "MalFunc" | .builtin _ => "Func" | .atom _ => "*Atom"
  | .future _ => "*Future" | .goerr _ => "error" | .opaque t => t

end Val

/-! ### association-list maps with Go `map[string]` update semantics -/

def alookup {α} (k : String) : List (String × α) → Option α
  | [] => none
  | (k', v) :: r => if k' = k then some v else alookup k r

/-- `m[k] = v`: overwrite in place when present, else a new entry (kept at the end). -/
def ainsert {α} (k : String) (v : α) : List (String × α) → List (String × α)
  | [] => [(k, v)]
  | (k', v') :: r => if k' = k then (k, v) :: r else (k', v') :: ainsert k v r

def aerase {α} (k : String) : List (String × α) → List (String × α)
  | [] => []
  | (k', v') :: r => if k' = k then r else (k', v') :: aerase k r

def akeys {α} (m : List (String × α)) : List String := m.map (·.1)

/-- set insert (no duplicates kept) -/
def sinsert (k : String) (s : List String) : List String :=
  if s.contains k then s else s ++ [k]

end LispModel

/-
  Driver side of engine `call` (C20): parses the request of harness/eng_call.go, runs the model
  (`LispModel.Call`) and the contract (`LispModel.CallSpec`) and renders both observations.
  Driver-only code (never used in a theorem).

    payload: <loc> <kind> <shape>[:<ident>] <call|ov:<hex>> <decl> <beh> | ( L <args> ) | <value>
    extra:   P<hex import path> R<hex rest of runtime name> K<hex _PACKAGES_ key|-> E<hex error text|->
             V<hex rendered result accompanying an error|->
-/
import LispModel.Call
import LispModel.Spec.CallContract
import LispModel.Proto
namespace LispModel.CallDriver
open LispModel LispModel.Call

def kindOf : Char → Option PKind
  | 'i' => some (.typed "int")
  | 's' => some (.typed "string")
  | 'm' => some .iface
  | _ => none

def parseShape (s : String) : Option Sig :=
  match ((s.splitOn ":").headD "").splitOn "_" with
  | [c, f, v, r] => do
    let fixed ← if f == "0" then some [] else f.toList.mapM kindOf
    let variadic ← if v == "0" then some none else
      match v.toList with
      | [ch] => (kindOf ch).map some
      | _ => none
    let results ← r.toNat?
    some { ctx := c == "c", fixed := fixed, variadic := variadic, results := results }
  | _ => none

def parseDecl (s : String) : Option (List Int) :=
  if s == "-" then some [] else (s.splitOn ",").mapM (·.toInt?)

/-- `X<hex>` or `X-` -/
def optField (s : String) : Option (Option String) :=
  let body := (s.drop 1).toString
  if body == "-" then some none else (Proto.hexDecode body).map some

def tf (b : Bool) : String := if b then "T" else "F"

def hexL (l : List Char) : String := Proto.hexEncode (String.ofList l)

def errText : Err → String
  | .goError full inner => full ++ ": " ++ inner
  | .lispError (.str s) => s
  | .lispError _ => "?"
  | .raw e => e

def regClass : RegPanic → String
  | .sliceBounds => "slice"
  | .notVariadicMin | .notVariadicMinMax => "not-variadic"
  | .maxBelowMin => "max-below-min"
  | .negative => "negative"
  | .results => "results"

def calleeOf (beh : String) (val : Val) : Callee := fun _ =>
  match beh with
  | "err" => .ret val (some "callee error")
  | "perr" => .panicErr "callee panic"
  | "pwrap" => .panicErr "storage layer: inner failure"
  | "plisp" => .panicErr "lisp-level failure"
  | "pval" => .panicVal val
  | "prt" => .panicErr "runtime error"
  | _ => .ret val none

/-- does the error the model returns still wrap what the callee panicked with -/
def wrapsPanic (e : Err) : CalleeResult → Bool
  | .panicErr pe => e.wrapsErr pe
  | .panicVal v => match e with
    | .lispError v' => Proto.renderPlain v' == Proto.renderPlain v
    | _ => false
  | .ret .. => false

def auxVerdict (checks : List (String × Bool)) : String :=
  match checks.filter (fun c => !c.2) with
  | [] => "aux=T"
  | bad => "aux=F(" ++ ",".intercalate (bad.map (·.1)) ++ ")"

def sameOpt (go : Option String) (model : Option String) : Bool :=
  match go, model with
  | none, _ => true          -- nothing sent: nothing to compare
  | some g, some m => g == m
  | some _, none => false

def modelObs (ov : Option (List Char)) (rt : List Char) (σ : Sig) (decl : List Int) (args : List Val)
    (callee : Callee) (k e v : Option String) : String :=
  match register ov rt σ decl with
  | .error p =>
    let text : Option String :=
      match p, deriveNames ov rt, selectRaw σ decl with
      | .sliceBounds, _, _ => none
      | p, some names, .ok (mn, mx) => some (regPanicText names σ mn mx p)
      | p, some names, .error _ => some (regPanicText names σ 0 0 p)
      | _, none, _ => none
    s!"REGPANIC {regClass p} " ++ auxVerdict [("E", sameOpt e text)]
  | .ok reg =>
    let pre := "name=" ++ hexL reg.names.functionName
    let kOk := ("K", sameOpt k (some (String.ofList reg.names.packageName)))
    match invoke reg args callee with
    | .rejectedCount er =>
      pre ++ " entered=F ctx=- args=- res=err count " ++
        auxVerdict [kOk, ("E", sameOpt e (some (errText er))), ("V", sameOpt v (some "N"))]
    | .rejectedType er =>
      pre ++ " entered=F ctx=- args=- res=err type " ++
        auxVerdict [kOk, ("E", sameOpt e (some (errText er))), ("V", sameOpt v (some "N"))]
    | .entered c seen r er =>
      let head := pre ++ s!" entered=T ctx={if σ.ctx then tf c else "-"} args={Proto.renderPlain (.list seen none)}"
      match er with
      | none => head ++ " res=ok " ++ Proto.renderPlain r ++ " " ++ auxVerdict [kOk, ("E", e.isNone), ("V", v.isNone)]
      | some er =>
        let cls := match callee seen, er with
          | .ret .., .raw _ => "callee-error"
          | cr, er => "callee-panic wraps=" ++ tf (wrapsPanic er cr)
        head ++ " res=err " ++ cls ++ " " ++
          auxVerdict [kOk, ("E", sameOpt e (some (errText er))), ("V", sameOpt v (some (Proto.renderPlain r)))]

def specObs (ov : Option (List Char)) (g : CallSpec.GoName) (σ : Sig) (decl : List Int) (args : List Val)
    (callee : Callee) : String :=
  if !CallSpec.validDecl σ decl then "-" else
  let pre := "name=" ++ hexL (CallSpec.specName ov g)
  match CallSpec.expect σ decl args with
  | .countError => pre ++ " entered=F ctx=- args=- res=err count aux=T"
  | .typeError => pre ++ " entered=F ctx=- args=- res=err type aux=T"
  | .enter c seen =>
    let head := pre ++ s!" entered=T ctx={if c then "T" else "-"} args={Proto.renderPlain (.list seen none)}"
    match CallSpec.mapResult σ.results (callee seen) with
    | .value r => head ++ " res=ok " ++ Proto.renderPlain r ++ " aux=T"
    | .error _ => head ++ " res=err callee-error aux=T"
    | .wrapsErr _ => head ++ " res=err callee-panic wraps=T aux=T"
    | .wrapsVal _ => head ++ " res=err callee-panic wraps=T aux=T"

def splitLast : List String → List String × String
  | [] => ([], "")
  | [x] => ([], x)
  | x :: r => let (i, l) := splitLast r; (x :: i, l)

def handleCall (payload extra : String) : String :=
  match payload.splitOn " | ", extra.splitOn " " with
  | [hdr, argsS, valS], [pS, rS, kS, eS, vS] =>
    match hdr.splitOn " " with
    | [_loc, _kind, shape, entry, declS, beh] =>
      let ov : Option (Option (List Char)) :=
        if entry == "call" then some none
        else if entry.startsWith "ov:" then (Proto.hexDecode (entry.drop 3).toString).map fun s => some s.toList
        else none
      match parseShape shape, ov, parseDecl declS, Proto.parseLine argsS, Proto.parseLine valS,
            optField pS, optField rS, optField kS, optField eS, optField vS with
      | some σ, some ov, some decl, some (.list args _), some val, some (some p), some (some r), some k, some e, some v =>
        let rt := (p ++ "." ++ r).toList
        let (outer, simple) := splitLast (r.splitOn ".")
        let g : CallSpec.GoName := { pkgPath := p.toList, outer := outer.map (·.toList), simple := simple.toList }
        let callee := calleeOf beh val
        modelObs ov rt σ decl args callee k e v ++ "\t" ++ specObs ov g σ decl args callee
      | _, _, _, _, _, _, _, _, _, _ => "bad-op"
    | _ => "bad-op"
  | _, _ => "bad-op"

end LispModel.CallDriver

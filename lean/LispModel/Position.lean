/-
  The position algebra of `types/positiontype.go`, function by function, as the Go code is written.

  * `*Position` is `Option Pos` (`none` = nil pointer); a method that dereferences a nil receiver or a nil
    argument has the explicit outcome `Res.panic`.
  * Which methods guard `cursor == nil` (Copy, String, StringModule, StringPosition, StringPositionRow,
    Includes) and which do not (Here, Close) is mirrored exactly; `SetPos` never reads its receiver at all.
  * `fmt.Sprintf("%d", i)` is `dec i` (own definition, so that the rendering laws can be proved).
  Core Lean only.
-/
import LispModel.Val
namespace LispModel.Position
open LispModel

/-- outcome of a Go call that may dereference a nil pointer -/
inductive Res (α : Type) where
  | ok (a : α)
  | panic
deriving Repr, DecidableEq, Inhabited

/-- a `*Position` -/
abbrev Cur := Option Pos

/-! ### constructors -/

/-- `NewCursorFile(module)`: `Row` and `Col` keep their zero value -/
def newCursorFile (module : String) : Pos :=
  { module := some module, beginRow := 1, beginCol := 1, row := 0, col := 0 }

/-- `NewAnonymousCursorHere(row, col)` -/
def newAnonymousCursorHere (row col : Int) : Pos :=
  { module := none, beginRow := row, beginCol := col, row := row, col := col }

/-- `NewCursorHere(moduleName, row, col)` -/
def newCursorHere (moduleName : String) (row col : Int) : Pos :=
  { newAnonymousCursorHere row col with module := some moduleName }

/-- `NewCursor()` -/
def newCursor : Pos :=
  { module := none, beginRow := 1, beginCol := 1, row := 1, col := 1 }

/-! ### methods -/

/-- `(p *Position) SetPos(row)`: the receiver is never read (a nil receiver does not panic) and the module
    is NOT carried over -/
def setPos (_p : Cur) (row : Int) : Pos :=
  { module := none, beginRow := row, beginCol := 1, row := row, col := 1 }

/-- `(p *Position) Here(here)`: `here.Module` is read first (nil `here` panics); the receiver is read only
    when `here` has no module (so a nil receiver panics only then) -/
def here (p h : Cur) : Res Pos :=
  match h with
  | none => .panic
  | some h =>
    match h.module with
    | some m => .ok { module := some m, beginRow := h.beginRow, beginCol := h.beginCol, row := h.row, col := h.col }
    | none =>
      match p with
      | none => .panic
      | some p => .ok { module := p.module, beginRow := h.beginRow, beginCol := h.beginCol, row := h.row, col := h.col }

/-- `(p *Position) Copy()`: nil stays nil; the module string is copied (equal as a value) -/
def copy (p : Cur) : Cur :=
  match p with
  | none => none
  | some p =>
    match p.module with
    | none => some { module := none, row := p.row, col := p.col, beginRow := p.beginRow, beginCol := p.beginCol }
    | some v => some { module := some v, row := p.row, col := p.col, beginRow := p.beginRow, beginCol := p.beginCol }

/-- `(c *Position) Close(here)`: neither pointer is guarded -/
def close (c h : Cur) : Res Pos :=
  match c, h with
  | some c, some h => .ok { module := c.module, beginRow := c.beginRow, beginCol := c.beginCol, row := h.row, col := h.col }
  | _, _ => .panic

/-- `(cursor *Position) Includes(inside Position)`: the argument is a VALUE; a nil receiver answers false -/
def includes (cursor : Cur) (inside : Pos) : Bool :=
  match cursor with
  | none => false
  | some c =>
    decide ((c.beginRow < inside.beginRow ∨ (c.beginRow = inside.beginRow ∧ c.beginCol ≤ inside.beginCol)) ∧
            (c.row > inside.row ∨ (c.row = inside.row ∧ c.col ≥ inside.col)))

/-- the call `p.Includes(*q)` with a pointer `q`: the dereference at the call site panics on nil `q`
    (before the method runs, so also when `p` is nil) -/
def includesArg (p q : Cur) : Res Bool :=
  match q with
  | none => .panic
  | some q => .ok (includes p q)

/-! ### `%d` -/

/-- one decimal digit -/
def digitChar (d : Nat) : Char :=
  match d with
  | 0 => '0' | 1 => '1' | 2 => '2' | 3 => '3' | 4 => '4'
  | 5 => '5' | 6 => '6' | 7 => '7' | 8 => '8' | _ => '9'

/-- decimal digits of a natural number, most significant first (fuel: `n + 1` is always enough) -/
def natDigitsAux : Nat → Nat → List Char
  | 0, _ => []
  | fuel + 1, n => if n < 10 then [digitChar n] else natDigitsAux fuel (n / 10) ++ [digitChar (n % 10)]

def natDigits (n : Nat) : List Char := natDigitsAux (n + 1) n

/-- `fmt.Sprintf("%d", i)` for a Go `int` -/
def dec : Int → List Char
  | .ofNat n => natDigits n
  | .negSucc n => '-' :: natDigits (n + 1)

/-! ### renderings -/

/-- `(cursor *Position) StringModule()` -/
def stringModule (cursor : Cur) : String :=
  match cursor with
  | none => ""
  | some p =>
    match p.module with
    | some m => m
    | none => ""

/-- `fmt.Sprintf("%d…%d,%d…%d", BeginRow, Row, BeginCol, Col)` -/
def positionText (p : Pos) : List Char :=
  dec p.beginRow ++ '…' :: dec p.row ++ ',' :: dec p.beginCol ++ '…' :: dec p.col

/-- `(cursor *Position) StringPosition()`: empty for nil and for `Row < 0` -/
def stringPosition (cursor : Cur) : String :=
  match cursor with
  | none => ""
  | some p => if p.row < 0 then "" else String.ofList (positionText p)

/-- the two shapes of `StringPositionRow` -/
def rowText (p : Pos) : List Char :=
  if p.beginRow ≠ p.row then dec p.beginRow ++ '…' :: dec p.row else dec p.row

/-- `(cursor *Position) StringPositionRow()` -/
def stringPositionRow (cursor : Cur) : String :=
  match cursor with
  | none => ""
  | some p => if p.row < 0 then "" else String.ofList (rowText p)

/-- `(cursor *Position) String()` -/
def toString (cursor : Cur) : String :=
  match cursor with
  | none => ""
  | some p => stringModule (some p) ++ "§" ++ stringPosition (some p)

/-! ### the row statement used by C17 -/

/-- the rows of `q` lie within the rows of `p` -/
def rowsInside (p q : Pos) : Bool := decide (p.beginRow ≤ q.beginRow ∧ q.row ≤ p.row)

end LispModel.Position

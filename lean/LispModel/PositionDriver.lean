/-
  Driver side of engine `posalg` (harness/eng_posalg.go): the position algebra of types/positiontype.go and the
  cursors the reader builds with it.  Driver-only code (never used in a theorem).

  case kind 1   ops <op> ; <op> ; …        a register file of four `*Position` (all nil at the start)
      F r m<hex>               r := NewCursorFile(module)
      A r row col              r := NewAnonymousCursorHere(row, col)
      H r m<hex> row col       r := NewCursorHere(module, row, col)
      N r                      r := NewCursor()
      Z r                      r := nil
      L r m<hex>|- br bc row col    r := &Position{…}   (`-` = no module)
      S r a row                r := a.SetPos(row)
      E r a b                  r := a.Here(b)
      C r a b                  r := a.Close(b)
      K r a                    r := a.Copy()
    observation:  log=<k|P per op> | <reg 0> | … | <reg 3> | inc=<16 × T|F|P, row-major: i.Includes(*j)>
      reg = nil|<m<hex>|->,br,bc,row,col  then  <hex String()>,<hex StringModule()>,<hex StringPosition()>,<hex StringPositionRow()>

  case kind 2   readpos <f|n|h> x<hex text>     Read_str under NewCursorFile("m.lisp") / nil / NewCursorHere("h.lisp",5,7)
    observation:  ok nest=<T|F>/<T|F> <node>…   |  err <class>  |  PANIC <site>
      node = <L|V|Y><m<hex>|->:br,bc,row,col  (pre-order; map values in key order);  nest = every cursor is
      `Includes`-d in / has its rows inside the cursor of the nearest enclosing node that has one.
    no spec column: the nesting verdicts are part of the observation (Go and model must agree on them); nesting itself is
    NOT demanded — a reader-macro form's cursor is the macro token alone (`close_self`), so `'(a\nb)` has rows 1…1 around 1…2.
-/
import LispModel.Position
import LispModel.Read
import LispModel.Proto
namespace LispModel.PositionDriver
open LispModel LispModel.Position

def tf (b : Bool) : String := if b then "T" else "F"

def decS (i : Int) : String := String.ofList (dec i)

/-- `m<hex>` = a module name, `-` = none -/
def parseMod (s : String) : Option (Option String) :=
  match s.toList with
  | ['-'] => some none
  | 'm' :: rest => (Proto.hexDecode (String.ofList rest)).map some
  | _ => none

def renderMod : Option String → String
  | none => "-"
  | some m => "m" ++ Proto.hexEncode m

def renderFields : Cur → String
  | none => "nil"
  | some p => s!"{renderMod p.module},{decS p.beginRow},{decS p.beginCol},{decS p.row},{decS p.col}"

def renderReg (c : Cur) : String :=
  let h := Proto.hexEncode
  s!"{renderFields c} {h (Position.toString c)},{h (stringModule c)},{h (stringPosition c)},{h (stringPositionRow c)}"

abbrev Regs := List Cur

def getReg (rs : Regs) (i : Nat) : Cur := (rs[i]?).getD none

def parseReg (s : String) : Option Nat :=
  match s.toNat? with
  | some n => if n < 4 then some n else none
  | none => none

/-- one operation: the new register file and whether the call panicked (`none` = malformed request) -/
def step (rs : Regs) (op : List String) : Option (Regs × Bool) :=
  let put (r : Nat) (c : Cur) : Option (Regs × Bool) := some (rs.set r c, false)
  let putRes (r : Nat) (x : Res Pos) : Option (Regs × Bool) :=
    match x with
    | .ok p => some (rs.set r (some p), false)
    | .panic => some (rs, true)
  match op with
  | ["F", r, m] => do
    let r ← parseReg r
    let m ← parseMod m
    let m ← m
    put r (some (newCursorFile m))
  | ["A", r, row, col] => do
    put (← parseReg r) (some (newAnonymousCursorHere (← row.toInt?) (← col.toInt?)))
  | ["H", r, m, row, col] => do
    let m ← parseMod m
    let m ← m
    put (← parseReg r) (some (newCursorHere m (← row.toInt?) (← col.toInt?)))
  | ["N", r] => do put (← parseReg r) (some newCursor)
  | ["Z", r] => do put (← parseReg r) none
  | ["L", r, m, br, bc, row, col] => do
    let m ← parseMod m
    put (← parseReg r) (some { module := m, beginRow := (← br.toInt?), beginCol := (← bc.toInt?),
                                row := (← row.toInt?), col := (← col.toInt?) })
  | ["S", r, a, row] => do
    put (← parseReg r) (some (setPos (getReg rs (← parseReg a)) (← row.toInt?)))
  | ["E", r, a, b] => do
    putRes (← parseReg r) (here (getReg rs (← parseReg a)) (getReg rs (← parseReg b)))
  | ["C", r, a, b] => do
    putRes (← parseReg r) (close (getReg rs (← parseReg a)) (getReg rs (← parseReg b)))
  | ["K", r, a] => do
    put (← parseReg r) (copy (getReg rs (← parseReg a)))
  | _ => none

def runOps : Regs → List (List String) → List Char → Option (Regs × List Char)
  | rs, [], log => some (rs, log.reverse)
  | rs, op :: rest, log =>
    match step rs op with
    | none => none
    | some (rs', panicked) => runOps rs' rest ((if panicked then 'P' else 'k') :: log)

def incCell (p q : Cur) : Char :=
  match includesArg p q with
  | .panic => 'P'
  | .ok true => 'T'
  | .ok false => 'F'

def handleOps (body : String) : String :=
  let ops := (body.splitOn " ; ").map fun o => (o.splitOn " ").filter (· ≠ "")
  match runOps [none, none, none, none] ops [] with
  | none => "bad-op"
  | some (rs, log) =>
    let idx := [0, 1, 2, 3]
    let inc := idx.flatMap fun i => idx.map fun j => incCell (getReg rs i) (getReg rs j)
    s!"log={String.ofList log} | {" | ".intercalate (idx.map fun i => renderReg (getReg rs i))} | inc={String.ofList inc}"

/-! ### readpos -/

structure Node where
  kind : Char
  pos : Option Pos
  /-- the cursor of the nearest enclosing node that has one -/
  parent : Option Pos

def orParent (p parent : Option Pos) : Option Pos :=
  match p with
  | some _ => p
  | none => parent

mutual
/-- pre-order walk over lists, vectors, symbols (the nodes that carry a cursor) and through map values -/
def walk (parent : Option Pos) : Val → List Node
  | .sym _ p => [⟨'Y', p, parent⟩]
  | .list xs p => ⟨'L', p, parent⟩ :: walkList (orParent p parent) xs
  | .vec xs p => ⟨'V', p, parent⟩ :: walkList (orParent p parent) xs
  | .map kvs => ((Proto.sortKV (walkKV parent kvs)).map (·.2)).flatten
  | _ => []
def walkList (parent : Option Pos) : List Val → List Node
  | [] => []
  | v :: r => walk parent v ++ walkList parent r
def walkKV (parent : Option Pos) : List (String × Val) → List (String × List Node)
  | [] => []
  | (k, v) :: r => (k, walk parent v) :: walkKV parent r
end

def renderNode (n : Node) : String :=
  match n.pos with
  | none => String.singleton n.kind ++ ":nil"
  | some p => s!"{String.singleton n.kind}{renderMod p.module}:{decS p.beginRow},{decS p.beginCol},{decS p.row},{decS p.col}"

/-- the nesting verdicts: (`Includes`, rows only) -/
def nesting (ns : List Node) : Bool × Bool :=
  ns.foldl (fun (acc : Bool × Bool) n =>
    match n.pos, n.parent with
    | some c, some p => (acc.1 && includes (some p) c, acc.2 && rowsInside p c)
    | _, _ => acc) (true, true)

def errClass : Read.RErr → String
  | .eof c => "eof:" ++ c
  | .unexpected c => "unexpected:" ++ c
  | .trailing => "trailing"
  | .empty => "empty"
  | .underflow => "underflow"
  | .badtoken => "badtoken"
  | .badint => "badint"
  | .oddmap => "oddmap"
  | .badkey => "badkey"
  | .badsetitem => "badsetitem"
  | .rawEof => "eof:¬"
  | .floaterr => "floaterr"
  | .extern _ => "extern"
  | .panic site => "PANIC " ++ site

def handleReadpos (flag hx : String) : String :=
  let callerModule : Option (Option String) :=
    if flag == "f" then some ((newCursorFile "m.lisp").module)
    else if flag == "h" then some ((newCursorHere "h.lisp" 5 7).module)
    else if flag == "n" then some none
    else none
  match callerModule, hx.toList with
  | some m, 'x' :: h =>
    match Proto.hexToBytes h with
    | none => "bad-op"
    | some bs =>
      match Read.readStr { module := m } bs with
      | .error (.panic site) => "PANIC " ++ site
      | .error e => "err " ++ errClass e
      | .ok v =>
        let ns := walk none v
        let (full, rows) := nesting ns
        let tail := String.join (ns.map fun n => " " ++ renderNode n)
        s!"ok nest={tf full}/{tf rows}{tail}"
  | _, _ => "bad-op"

/-- one request of engine `posalg` -/
def handlePosition (payload : String) : String :=
  match payload.splitOn " " with
  | "ops" :: _ => handleOps ((payload.drop 4).toString)
  | ["readpos", flag, hx] => handleReadpos flag hx
  | _ => "bad-op"

end LispModel.PositionDriver

/-- entry point used by `Main.lean` -/
def handlePosition (payload : String) : String := LispModel.PositionDriver.handlePosition payload

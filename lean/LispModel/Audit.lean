/-
  Audit helper: `#audit_ns LispModel.Props.C14` prints, for every theorem declared in that
  namespace, one line  `AUDIT <name> :: <axiom> <axiom> …`  (from `Lean.collectAxioms`).
  bin/check rejects anything but propext / Classical.choice / Quot.sound.
-/
import Lean
open Lean Elab Command

elab "#audit_ns " ns:ident : command => do
  let env ← getEnv
  let nsName := ns.getId
  let mut names : Array Name := #[]
  for (n, ci) in env.constants.map₁.toList ++ env.constants.map₂.toList do
    if nsName.isPrefixOf n && !n.isInternal then
      match ci with
      | .thmInfo _ => names := names.push n
      | _ => pure ()
  let sorted := names.qsort (fun a b => a.toString < b.toString)
  for n in sorted do
    let axs ← liftCoreM (collectAxioms n)
    let axStr := " ".intercalate (axs.toList.map toString)
    logInfo m!"AUDIT {n} :: {axStr}"

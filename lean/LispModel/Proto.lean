/-
  Line protocol shared by the Go harness and the Lean driver: a canonical, trivially
  parseable rendering of values (not the lisp syntax — the reader and printer are models
  under test and must not be part of the protocol).

    N | T | F | I<int> | S<hex utf8> | Y<hex utf8> | ( L v* ) | ( V v* ) | ( M S<k> v … ) | ( H S<k>* )
    ( FN ) | ( MC ) | ( BI ) | ( AT v ) | ( FU ) | ( GE ) | ( OP <tag> )

  Tokens are separated by single blanks.  Maps and sets are written sorted by key.
  Driver-only code (never used in a theorem).
-/
import LispModel.Val
namespace LispModel.Proto
open LispModel

def hexDigit (n : Nat) : Char :=
  if n < 10 then Char.ofNat (48 + n) else Char.ofNat (87 + n)

def hexOfBytes (bs : List UInt8) : String :=
  String.ofList (bs.foldr (fun b acc => hexDigit (b.toNat / 16) :: hexDigit (b.toNat % 16) :: acc) [])

def hexEncode (s : String) : String := hexOfBytes s.toUTF8.toList

def hexVal (c : Char) : Option Nat :=
  if '0' ≤ c ∧ c ≤ '9' then some (c.toNat - 48)
  else if 'a' ≤ c ∧ c ≤ 'f' then some (c.toNat - 87)
  else if 'A' ≤ c ∧ c ≤ 'F' then some (c.toNat - 55)
  else none

def hexToBytes : List Char → Option (List UInt8)
  | [] => some []
  | [_] => none
  | a :: b :: r => do
    let x ← hexVal a
    let y ← hexVal b
    let rest ← hexToBytes r
    pure (UInt8.ofNat (x * 16 + y) :: rest)

def hexDecode (s : String) : Option String := do
  let bs ← hexToBytes s.toList
  String.fromUTF8? (ByteArray.mk bs.toArray)

/-- insertion sort of strings (bytewise = code point order, as Go's `sort.Strings`) -/
def sortStrs (l : List String) : List String :=
  (l.toArray.qsort (· < ·)).toList

def sortKV {α} (l : List (String × α)) : List (String × α) :=
  (l.toArray.qsort (fun a b => a.1 < b.1)).toList

/-- canonical rendering; `deref` gives the current content of an atom; `fuel` bounds atom nesting -/
partial def render (deref : Nat → Option Val) : Val → String
  | .nil => "N"
  | .bool true => "T"
  | .bool false => "F"
  | .int i => "I" ++ toString i
  | .str s => "S" ++ hexEncode s
  | .sym s _ => "Y" ++ hexEncode s
  | .list xs _ => "( L" ++ String.join (xs.map (fun x => " " ++ render deref x)) ++ " )"
  | .vec xs _ => "( V" ++ String.join (xs.map (fun x => " " ++ render deref x)) ++ " )"
  | .map kvs => "( M" ++ String.join ((sortKV kvs).map (fun (k, v) => " S" ++ hexEncode k ++ " " ++ render deref v)) ++ " )"
  | .set ks => "( H" ++ String.join ((sortStrs ks).map (fun k => " S" ++ hexEncode k)) ++ " )"
  | .fn _ _ _ false _ => "( FN )"
  | .fn _ _ _ true _ => "( MC )"
  | .builtin _ => "( BI )"
  | .atom id => match deref id with
      | some v => "( AT " ++ render deref v ++ " )"
      | none => "( AT ? )"
  | .future _ => "( FU )"
  | .goerr _ => "( GE )"
  | .opaque t => "( OP " ++ t ++ " )"

def renderPlain (v : Val) : String := render (fun _ => none) v

/-- parser over blank-separated tokens -/
partial def parseVal : List String → Option (Val × List String)
  | [] => none
  | "N" :: r => some (.nil, r)
  | "T" :: r => some (.bool true, r)
  | "F" :: r => some (.bool false, r)
  | "(" :: tag :: r =>
    let rec items (toks : List String) (acc : Array Val) : Option (Array Val × List String) :=
      match toks with
      | ")" :: r => some (acc, r)
      | _ => match parseVal toks with
        | some (v, r) => items r (acc.push v)
        | none => none
    match tag with
    | "L" => (items r #[]).map fun (a, r) => (Val.list a.toList none, r)
    | "V" => (items r #[]).map fun (a, r) => (Val.vec a.toList none, r)
    | "M" => (items r #[]).bind fun (a, r) =>
        let rec build (l : List Val) (m : List (String × Val)) : Option (List (String × Val)) :=
          match l with
          | [] => some m
          | .str k :: v :: rest => build rest (ainsert k v m)
          | _ => none
        (build a.toList []).map fun m => (Val.map m, r)
    | "H" => (items r #[]).bind fun (a, r) =>
        let ks := a.toList.filterMap fun | .str k => some k | _ => none
        if ks.length = a.size then some (Val.set (ks.foldl (fun s k => sinsert k s) []), r) else none
    | "GE" => match r with | ")" :: r => some (.goerr "", r) | _ => none
    | "OP" => match r with | t :: ")" :: r => some (.opaque t, r) | _ => none
    | _ => none
  | t :: r =>
    match t.toList with
    | 'I' :: ds =>
      let s := String.ofList ds
      (s.toInt?).map fun i => (Val.int i, r)
    | 'S' :: hs => (hexDecode (String.ofList hs)).map fun s => (Val.str s, r)
    | 'Y' :: hs => (hexDecode (String.ofList hs)).map fun s => (Val.sym s none, r)
    | _ => none

def parseLine (s : String) : Option Val :=
  match parseVal ((s.splitOn " ").filter (· ≠ "")) with
  | some (v, []) => some v
  | _ => none

end LispModel.Proto

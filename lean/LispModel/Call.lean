/-
  `lib/call/call.go` as written: the reflective binder `call.Call` / `call.CallOverrideFN`.

  What is mirrored, in the order of the Go text:
  * the name derivation of `call()`: `strings.ToLower(runtime.FuncForPC(..).Name())`,
    `n := strings.LastIndex(full, ".")`, `packageName := full[:n]`, and in the override branch
    `m := strings.LastIndex(packageName, ".")`, `packageName[:m]` only if `m >= 0` (else the whole
    `packageName`); `functionFullName[:n]` is a slice expression whose bound is `-1` for a runtime name
    without any dot: a Go run-time panic at registration, here `RegPanic.sliceBounds` (no Go function has
    such a name; the test `len(functionFullName) == -1` of the Go text is dead code, no counterpart);
  * the selection of `minArgs, maxArgs` from `args ...int` (one int: minimum, maximum
    `unlimitedArgments = 1000`; two: both; any other count: derived from the signature, for a
    non-variadic function `NumIn()` minus the context parameter, else `0, 1000` — bounds always count
    lisp arguments) and the three registration panics for invalid declarations, then the panic for
    more than two results;
  * `_args` / `_args_ctx`: the count check against the bounds as stored, which panics with an `error`
    value; `_recover` turns it into `NewGoError`;
    (the code before the repairs 2f9941a / e281c62 is frozen in Proofs/CallBaseline.lean)
  * `reflect.Value.Call`'s own checks as a modelled oracle (reflect/value.go, `Value.call`): too few
    / too many inputs, assignability of the fixed arguments in order, then of the variadic ones; a nil
    lisp argument is `reflect.Zero(MalType)`: an interface-typed value, assignable to interface-typed
    parameters only.  reflect panics with a *string*; `_recover` turns that into
    `NewLispError(string, nil)`;
  * the adapters `_nil_nil`, `_nil_error`, `_result_error` and `_recover` around a panic of the callee
    (an `error` value ⇒ `NewGoError`, which wraps it with `%w`; any other value ⇒ `NewLispError(value)`).

  The callee is a parameter (`Callee`): what the bound Go function does with the arguments it sees.
  Not modelled: `panic(nil)` inside the callee (its meaning depends on the `go` line of the main module),
  a nil `context.Context` handed to `Fn` (reflect refuses a zero `Value`), result types that do not follow
  the convention (single result of type `error`; two results `(T, error)`), a `_PACKAGES_` binding that is
  not a hash-map.  Names are `List Char` (ASCII lower-casing = `strings.ToLower` on Go identifiers and
  import paths that are ASCII); messages are `String`s that no theorem inspects.
  Core Lean only (linked into the driver executable).
-/
import LispModel.Val
namespace LispModel.Call
open LispModel

/-! ## Go-side vocabulary -/

/-- the type of one Go parameter, as far as `reflect`'s assignability test can tell -/
inductive PKind where
  /-- an interface type without methods: `types.MalType`, `interface{}`, `any` -/
  | iface
  /-- a concrete type, named as `reflect.Type.String()` prints it (`int`, `string`, `types.List` …) -/
  | typed (goType : String)
deriving DecidableEq, Repr, Inhabited

/-- signature shape of the registered Go function -/
structure Sig where
  /-- `In(0)` implements `context.Context` -/
  ctx : Bool
  /-- the non-variadic parameters after the context -/
  fixed : List PKind
  /-- element type of a final `...T` -/
  variadic : Option PKind
  /-- `NumOut()` -/
  results : Nat
deriving DecidableEq, Repr, Inhabited

def Sig.isVariadic (σ : Sig) : Bool := σ.variadic.isSome

/-- `reflect.Type.NumIn()`: context, fixed parameters and the variadic slice -/
def Sig.numIn (σ : Sig) : Nat :=
  (if σ.ctx then 1 else 0) + σ.fixed.length + (if σ.isVariadic then 1 else 0)

/-- `reflect.ValueOf(v).Type().String()` of a lisp value; nil travels as `reflect.Zero(MalType)` -/
def goTypeOf : Val → String
  | .nil => "types.MalType"
  | .bool _ => "bool"
  | .int _ => "int"
  | .str _ => "string"
  | .sym _ _ => "types.Symbol"
  | .list _ _ => "types.List"
  | .vec _ _ => "types.Vector"
  | .map _ => "types.HashMap"
  | .set _ => "types.Set"
  | .fn .. => "types.MalFunc"
  | .builtin _ => "types.Func"
  | .atom _ => "*concurrent.Atom"
  | .future _ => "*concurrent.Future"
  | .goerr _ => "*errors.errorString"
  | .opaque t => t

def isNil : Val → Bool
  | .nil => true
  | _ => false

/-- oracle of `xt.AssignableTo(targ)`: everything (the interface-typed zero value included) goes into
    an interface without methods; into a concrete type only a value of that very dynamic type -/
def assignableTo (v : Val) : PKind → Bool
  | .iface => true
  | .typed t => !isNil v && goTypeOf v == t

def PKind.goString : PKind → String
  | .iface => "types.MalType"
  | .typed t => t

/-! ## name derivation -/

def lower (l : List Char) : List Char := l.map Char.toLower

/-- `strings.LastIndex(l, ".")` -/
def lastIndexDot : List Char → Int
  | [] => -1
  | c :: r =>
    let k := lastIndexDot r
    if 0 ≤ k then k + 1 else if c = '.' then 0 else -1

/-- the slice expression `l[:n]`; `none` = run-time panic "slice bounds out of range" -/
def sliceTo (l : List Char) (n : Int) : Option (List Char) :=
  if 0 ≤ n ∧ n ≤ l.length then some (l.take n.toNat) else none

/-- `l[n:]` -/
def sliceFrom (l : List Char) (n : Int) : Option (List Char) :=
  if 0 ≤ n ∧ n ≤ l.length then some (l.drop n.toNat) else none

/-- `strings.Replace(l, "_", "-", -1)` -/
def hyphenate (l : List Char) : List Char := l.map fun c => if c = '_' then '-' else c

structure Names where
  /-- the symbol the function is bound to -/
  functionName : List Char
  /-- key of the `_PACKAGES_` map -/
  packageName : List Char
  /-- prefix of the error messages -/
  fullName : List Char
deriving DecidableEq, Repr

/-- lines 23–40 of call.go; `none` = the slice-bounds panic (`functionFullName[:n]` for a name without any dot) -/
def deriveNames (overrideFN : Option (List Char)) (runtimeName : List Char) : Option Names :=
  let functionFullName := lower runtimeName
  let n := lastIndexDot functionFullName
  match sliceTo functionFullName n with
  | none => none
  | some packageName =>
    match overrideFN with
    | some o =>
      -- if m := strings.LastIndex(packageName, "."); m >= 0 { …packageName[:m]… } else { …packageName… }
      let m := lastIndexDot packageName
      if 0 ≤ m then
        match sliceTo packageName m with
        | none => none
        | some p => some ⟨o, packageName, p ++ '[' :: o ++ [']']⟩
      else some ⟨o, packageName, packageName ++ '[' :: o ++ [']']⟩
    | none =>
      match sliceFrom functionFullName (n + 1) with
      | none => none
      | some rest =>
        let functionName := hyphenate rest
        some ⟨functionName, packageName, packageName ++ '[' :: functionName ++ [']']⟩

/-! ## registration -/

def unlimitedArgments : Int := 1000

inductive RegPanic where
  /-- `functionFullName[:n]` / `packageName[:m]` with index −1 -/
  | sliceBounds
  /-- one int declared, implementation not variadic -/
  | notVariadicMin
  /-- two ints declared, implementation not variadic -/
  | notVariadicMinMax
  /-- `minArgs > maxArgs` -/
  | maxBelowMin
  /-- a negative bound -/
  | negative
  /-- more than two results -/
  | results
deriving DecidableEq, Repr

/-- the `switch len(args)` -/
def selectRaw (σ : Sig) (decl : List Int) : Except RegPanic (Int × Int) :=
  match decl with
  | [a] => if !σ.isVariadic then .error .notVariadicMin else .ok (a, unlimitedArgments)
  | [a, b] => if !σ.isVariadic then .error .notVariadicMinMax else .ok (a, b)
  | _ =>
    if !σ.isVariadic then
      -- minArgs, maxArgs = NumIn(), NumIn(); if contextRequired { minArgs, maxArgs = minArgs-1, maxArgs-1 }
      let k : Int := σ.numIn
      if σ.ctx then .ok (k - 1, k - 1) else .ok (k, k)
    else .ok (0, unlimitedArgments)

/-- … and the two checks after it -/
def selectBounds (σ : Sig) (decl : List Int) : Except RegPanic (Int × Int) :=
  match selectRaw σ decl with
  | .error e => .error e
  | .ok (mn, mx) =>
    if mn > mx then .error .maxBelowMin
    else if mn < 0 ∨ mx < 0 then .error .negative
    else .ok (mn, mx)

/-- what `call()` leaves behind: the symbol bound in the environment, the `_PACKAGES_` entry and the
    closure `extCall` (its captured variables) -/
structure Reg where
  names : Names
  minArgs : Int
  maxArgs : Int
  sig : Sig
deriving DecidableEq, Repr

instance : DecidableEq (Except RegPanic Reg) := fun a b =>
  match a, b with
  | .ok x, .ok y => if h : x = y then isTrue (h ▸ rfl) else isFalse (fun e => h (Except.ok.inj e))
  | .error x, .error y => if h : x = y then isTrue (h ▸ rfl) else isFalse (fun e => h (Except.error.inj e))
  | .ok _, .error _ => isFalse (fun e => by cases e)
  | .error _, .ok _ => isFalse (fun e => by cases e)

def register (overrideFN : Option (List Char)) (runtimeName : List Char) (σ : Sig) (decl : List Int) :
    Except RegPanic Reg :=
  match deriveNames overrideFN runtimeName with
  | none => .error .sliceBounds
  | some names =>
    match selectBounds σ decl with
    | .error e => .error e
    | .ok (mn, mx) =>
      if σ.results > 2 then .error .results
      else .ok { names := names, minArgs := mn, maxArgs := mx, sig := σ }

/-- text of the `fmt.Errorf` the registration panics with (driver only) -/
def regPanicText (names : Names) (σ : Sig) (mn mx : Int) : RegPanic → String
  | .sliceBounds => "runtime error: slice bounds out of range [:-1]"
  | .notVariadicMin => String.ofList names.fullName ++ ": argument maximum argument count defined but implementation is not variadic"
  | .notVariadicMinMax => String.ofList names.fullName ++ ": argument maximum and minimum argument count defined but implementation is not variadic"
  | .maxBelowMin => String.ofList names.fullName ++ s!": maximum arguments ({mx}) is lower than minimum arguments ({mn})"
  | .negative => String.ofList names.fullName ++ ": argument count bounds cannot be negative"
  | .results => String.ofList names.fullName ++ s!": wrong number of results ({σ.results} instead of 2)"

/-! ## the call -/

/-- a Go `error` object, identified by its message -/
abbrev GoErr := String

/-- what the bound Go function does once entered -/
inductive CalleeResult where
  /-- it returns; `v` is the first of two results, `err` the error result (ignored where the signature has none) -/
  | ret (v : Val) (err : Option GoErr)
  /-- `panic(e)` with `e` an `error` -/
  | panicErr (e : GoErr)
  /-- `panic(v)` with any other value -/
  | panicVal (v : Val)

abbrev Callee := List Val → CalleeResult

/-- the `error` the caller of `Func.Fn` receives -/
inductive Err where
  /-- `lisperror.NewGoError(fullName, inner)` = `LispError{err: fmt.Errorf("%s: %w", fullName, inner)}` -/
  | goError (fullName : String) (inner : GoErr)
  /-- `lisperror.NewLispError(v, nil)` = `LispError{err: v}` -/
  | lispError (v : Val)
  /-- the callee's own error result, handed on as it is -/
  | raw (e : GoErr)

/-- `errors.Is(err, e)` along the `Unwrap` chain (`LispError.Unwrap`, then `%w`) -/
def Err.wrapsErr : Err → GoErr → Bool
  | .goError _ inner, e => inner == e
  | .raw e', e => e' == e
  | .lispError _, _ => false

/-- the panics of `reflect.Value.Call` -/
inductive ReflectPanic where
  | tooFew
  | tooMany
  /-- `"reflect: Call using " + xt + " as type " + targ` -/
  | fixedType (got want : String)
  /-- `"reflect: cannot use " + xt + " as type " + elem + " in Call"` -/
  | variadicType (got want : String)
deriving DecidableEq, Repr

def ReflectPanic.text : ReflectPanic → String
  | .tooFew => "reflect: Call with too few input arguments"
  | .tooMany => "reflect: Call with too many input arguments"
  | .fixedType g w => "reflect: Call using " ++ g ++ " as type " ++ w
  | .variadicType g w => "reflect: cannot use " ++ g ++ " as type " ++ w ++ " in Call"

def ReflectPanic.isCount : ReflectPanic → Bool
  | .tooFew | .tooMany => true
  | _ => false

/-- `for i := 0; i < n; i++ { if !in[i].Type().AssignableTo(t.In(i)) { panic } }` (after the context) -/
def checkFixed : List PKind → List Val → Option ReflectPanic
  | p :: ps, a :: as =>
    if assignableTo a p then checkFixed ps as else some (.fixedType (goTypeOf a) p.goString)
  | _, _ => none

/-- the loop that fills the variadic slice -/
def checkVariadic (elem : PKind) : List Val → Option ReflectPanic
  | [] => none
  | a :: as => if assignableTo a elem then checkVariadic elem as else some (.variadicType (goTypeOf a) elem.goString)

/-- `reflect.Value.Call(in)` up to the actual call; `nargs` lisp arguments, the context (if any) in front -/
def reflectCheck (σ : Sig) (args : List Val) : Option ReflectPanic :=
  let c : Nat := if σ.ctx then 1 else 0
  let inLen := c + args.length
  -- n := t.NumIn(); if isVariadic { n-- }
  let n := σ.numIn - (if σ.isVariadic then 1 else 0)
  if inLen < n then some .tooFew
  else if !σ.isVariadic && inLen > n then some .tooMany
  else
    match checkFixed σ.fixed args with
    | some p => some p
    | none =>
      match σ.variadic with
      | some elem => checkVariadic elem (args.drop σ.fixed.length)
      | none => none

/-- the `fmt.Errorf` of `_args` / `_args_ctx` -/
def countMessage (minParams maxParams : Int) (n : Nat) : String :=
  if maxParams = unlimitedArgments then s!"wrong number of arguments ({n} instead of a minimum of {minParams})"
  else if minParams = maxParams then s!"wrong number of arguments ({n} instead of {minParams})"
  else s!"wrong number of arguments ({n} instead of {minParams}…{maxParams})"

/-- the count check of `_args` (no context) and of `_args_ctx` (context): the same test and the same
    message in both, against the bounds as `call()` stored them; `some msg` = `panic(fmt.Errorf(msg))` -/
def argsCheck (_ctx : Bool) (minParams maxParams : Int) (n : Nat) : Option String :=
  if (n : Int) < minParams ∨ (n : Int) > maxParams then some (countMessage minParams maxParams n) else none

/-- `_nil_nil`, `_nil_error`, `_result_error`, chosen by `NumOut()` -/
def adapt (results : Nat) (v : Val) (err : Option GoErr) : Val × Option Err :=
  match results with
  | 0 => (.nil, none)
  | 1 => (.nil, err.map .raw)
  | _ => (v, err.map .raw)

inductive Outcome where
  /-- the Go function was not called: the count is wrong (`_args*` or reflect's own arity test) -/
  | rejectedCount (e : Err)
  /-- the Go function was not called: an argument is not assignable -/
  | rejectedType (e : Err)
  /-- the Go function ran: was the caller's context its first argument, the lisp arguments it saw,
      and the pair `extCall` returns -/
  | entered (ctxInjected : Bool) (seen : List Val) (res : Val) (err : Option Err)

def Outcome.isEntered : Outcome → Bool
  | .entered .. => true
  | _ => false

/-- `extCall(ctx, args)` -/
def invoke (reg : Reg) (args : List Val) (callee : Callee) : Outcome :=
  let full := String.ofList reg.names.fullName
  match argsCheck reg.sig.ctx reg.minArgs reg.maxArgs args.length with
  | some msg => .rejectedCount (.goError full msg)
  | none =>
    match reflectCheck reg.sig args with
    | some p =>
      if p.isCount then .rejectedCount (.lispError (.str p.text)) else .rejectedType (.lispError (.str p.text))
    | none =>
      -- in[k] = reflect.ValueOf(param), or the zero MalType for nil: the callee sees `args`
      match callee args with
      | .ret v err =>
        let (r, e) := adapt reg.sig.results v err
        .entered reg.sig.ctx args r e
      | .panicErr e => .entered reg.sig.ctx args .nil (some (.goError full e))
      | .panicVal v => .entered reg.sig.ctx args .nil (some (.lispError v))

end LispModel.Call

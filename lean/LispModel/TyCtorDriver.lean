/-
  Driver of the engine `tyctor` (harness/eng_tyctor.go).  Request payload: `<fn> <argument terms>`, blank-separated
  ASCII tokens.  Terms = the canonical value protocol of harness/proto.go, extended by what `types.go` can see:

      term := N | T | F | I<int> | S<hex> | Y<hex>
            | ( L term* ) | ( V term* ) | ( M (S<hex> term)* ) | ( H S<hex>* )     Meta nil, Cursor nil
            | ( ZS )                            the zero Set{} (nil Go map)
            | ( WM term meta )                  term with Meta := meta      (term: L V M H ZS FN BI)
            | ( WC term cur )                   term with Cursor := cur     (term: L V FN, possibly inside WM)
            | ( FN <e><g><m> <env> params exp ) MalFunc: Eval / GenEnv non-nil, IsMacro (three 0/1 digits), Env #
            | ( BI <id>|- ) | ( RF <id>|- )     Func{Fn} / bare func([]MalType)(MalType,error); `-` = nil func
            | ( OP <%T> <Name()|-> )            any other Go value
      cur  := C- (nil) | C<m>:<beginRow>:<beginCol>:<row>:<col>      m := - (nil module) | m<hex>

  Requests (answer):
      nil? true? false? keyword? string? sequential? <term>       T | F | PANIC <kind>
      q <type> <term>                                             T | F
      newKeyword S<hex>                                           S<hex>
      setMacro <FN term> | getMacro <FN term>                     ok <term> | T/F
      newList <term>* | newHashMap <term> | newSet <term>         ok <term> | err <class> | PANIC <kind>
      getSlice <term>                                             ok [ <term>* ] | err …
      convertFrom <term>                                          ok [ <term>* ] <meta>   (members of a set sorted)
      convertTo <to> <meta> <term>*                               ok <term> | err … | PANIC assert
      apply <f> <term>*                                           outcome of the stubbed callee (see `stub…`)
      line <cur> S<hex> | tokpos <cur>                            S<hex> | <cur>
  Core Lean only.
-/
import LispModel.TyCtor
import LispModel.Proto
namespace LispModel.TyCtor
open LispModel

/-! ### cursors -/

def renderCur : Option Pos → String
  | none => "C-"
  | some p =>
    let m := match p.module with
      | none => "-"
      | some s => "m" ++ Proto.hexEncode s
    s!"C{m}:{p.beginRow}:{p.beginCol}:{p.row}:{p.col}"

def pCur (t : String) : Option (Option Pos) :=
  match t.toList with
  | 'C' :: rest =>
    if rest = ['-'] then some none else
    match (String.ofList rest).splitOn ":" with
    | [m, br, bc, r, c] => do
      let md ← match m.toList with
        | ['-'] => some none
        | 'm' :: hs => (Proto.hexDecode (String.ofList hs)).map some
        | _ => none
      let br ← br.toInt?
      let bc ← bc.toInt?
      let r ← r.toInt?
      let c ← c.toInt?
      some (some { module := md, beginRow := br, beginCol := bc, row := r, col := c })
    | _ => none
  | _ => none

/-! ### terms: parser -/

def pairUp : List TVal → List (String × TVal) → Option (List (String × TVal))
  | [], m => some m
  | .str k :: v :: rest, m => pairUp rest (ainsert k v m)
  | _, _ => none

def strsOf : List TVal → List String → Option (List String)
  | [], s => some s
  | .str k :: rest, s => strsOf rest (sinsert k s)
  | _, _ => none

def withMd (t m : TVal) : Option TVal :=
  match t with
  | .list xs _ c => some (.list xs m c)
  | .vec xs _ c => some (.vec xs m c)
  | .map kvs _ => some (.map kvs m)
  | .set ks _ => some (.set ks m)
  | .fn f => some (.fn { f with md := m })
  | .builtin f _ => some (.builtin f m)
  | _ => none

def withCur (t : TVal) (c : Option Pos) : Option TVal :=
  match t with
  | .list xs m _ => some (.list xs m c)
  | .vec xs m _ => some (.vec xs m c)
  | .fn f => some (.fn { f with cur := c })
  | _ => none

def pFlag (c : Char) : Option Bool :=
  if c = '1' then some true else if c = '0' then some false else none

def pFnId (t : String) : Option (Option Nat) :=
  if t = "-" then some none else t.toNat?.map some

mutual
def pVal : Nat → List String → Option (TVal × List String)
  | 0, _ => none
  | f + 1, toks =>
    match toks with
    | [] => none
    | "N" :: r => some (.nil, r)
    | "T" :: r => some (.bool true, r)
    | "F" :: r => some (.bool false, r)
    | "(" :: "L" :: r => do
      let (xs, r) ← pItems f r
      some (.list xs .nil none, r)
    | "(" :: "V" :: r => do
      let (xs, r) ← pItems f r
      some (.vec xs .nil none, r)
    | "(" :: "M" :: r => do
      let (xs, r) ← pItems f r
      let kvs ← pairUp xs []
      some (.map kvs .nil, r)
    | "(" :: "H" :: r => do
      let (xs, r) ← pItems f r
      let ks ← strsOf xs []
      some (.set (some ks) .nil, r)
    | "(" :: "ZS" :: ")" :: r => some (.set none .nil, r)
    | "(" :: "WM" :: r => do
      let (t, r) ← pVal f r
      let (m, r) ← pVal f r
      let v ← withMd t m
      match r with
      | ")" :: r => some (v, r)
      | _ => none
    | "(" :: "WC" :: r => do
      let (t, r) ← pVal f r
      match r with
      | c :: ")" :: r => do
        let c ← pCur c
        let v ← withCur t c
        some (v, r)
      | _ => none
    | "(" :: "FN" :: flags :: env :: r => do
      let (e, g, m) ← match flags.toList with
        | [e, g, m] => do some ((← pFlag e), (← pFlag g), (← pFlag m))
        | _ => none
      let env ← env.toNat?
      let (params, r) ← pVal f r
      let (exp, r) ← pVal f r
      match r with
      | ")" :: r => some (.fn (MalFn.mk e g m env params exp .nil none), r)
      | _ => none
    | "(" :: "BI" :: id :: ")" :: r => (pFnId id).map fun i => (.builtin i .nil, r)
    | "(" :: "RF" :: id :: ")" :: r => (pFnId id).map fun i => (.rawfn i, r)
    | "(" :: "OP" :: ty :: name :: ")" :: r => some (.other ty (if name = "-" then "" else name), r)
    | t :: r =>
      match t.toList with
      | 'I' :: ds => (String.ofList ds).toInt?.map fun i => (.int i, r)
      | 'S' :: hs => (Proto.hexDecode (String.ofList hs)).map fun s => (.str s, r)
      | 'Y' :: hs => (Proto.hexDecode (String.ofList hs)).map fun s => (.sym s, r)
      | _ => none
def pItems : Nat → List String → Option (List TVal × List String)
  | 0, _ => none
  | f + 1, toks =>
    match toks with
    | ")" :: r => some ([], r)
    | _ => do
      let (v, r) ← pVal f toks
      let (vs, r) ← pItems f r
      some (v :: vs, r)
end

/-- all the terms up to the end of the line -/
def pTerms : Nat → List String → Option (List TVal)
  | 0, _ => none
  | f + 1, toks =>
    match toks with
    | [] => some []
    | _ => do
      let (v, r) ← pVal (toks.length + 1) toks
      let vs ← pTerms f r
      some (v :: vs)

/-! ### terms: canonical rendering -/

def joinSp (l : List String) : String := String.join (l.map (" " ++ ·))

def b01 (b : Bool) : String := if b then "1" else "0"

def fnIdStr : Option Nat → String
  | none => "-"
  | some n => toString n

/-- ( WM base meta ) when there is metadata, ( WC … cur ) around it when there is a cursor -/
def wrap (base mdS : String) (hasMd : Bool) (cur : Option Pos) : String :=
  let a := if hasMd then "( WM " ++ base ++ " " ++ mdS ++ " )" else base
  match cur with
  | none => a
  | some _ => "( WC " ++ a ++ " " ++ renderCur cur ++ " )"

def isNil : TVal → Bool
  | .nil => true
  | _ => false

def us (s : String) : String := String.ofList (s.toList.map fun c => if c = ' ' then '_' else c)

mutual
def render : TVal → String
  | .nil => "N"
  | .bool true => "T"
  | .bool false => "F"
  | .int i => "I" ++ toString i
  | .str s => "S" ++ Proto.hexEncode s
  | .sym s => "Y" ++ Proto.hexEncode s
  | .list xs m c => wrap ("( L" ++ joinSp (renderList xs) ++ " )") (render m) (!isNil m) c
  | .vec xs m c => wrap ("( V" ++ joinSp (renderList xs) ++ " )") (render m) (!isNil m) c
  | .map kvs m =>
    wrap ("( M" ++ joinSp ((Proto.sortKV (renderMap kvs)).map fun (k, v) => "S" ++ Proto.hexEncode k ++ " " ++ v) ++ " )")
      (render m) (!isNil m) none
  | .set none m => wrap "( ZS )" (render m) (!isNil m) none
  | .set (some ks) m =>
    wrap ("( H" ++ joinSp ((Proto.sortStrs ks).map fun k => "S" ++ Proto.hexEncode k) ++ " )") (render m) (!isNil m) none
  | .fn f =>
    wrap ("( FN " ++ b01 f.hasEval ++ b01 f.hasGenEnv ++ b01 f.isMacro ++ " " ++ toString f.env ++ " " ++
          render f.params ++ " " ++ render f.exp ++ " )") (render f.md) (!isNil f.md) f.cur
  | .builtin f m => wrap ("( BI " ++ fnIdStr f ++ " )") (render m) (!isNil m) none
  | .rawfn f => "( RF " ++ fnIdStr f ++ " )"
  | .other ty name => "( OP " ++ us ty ++ " " ++ (if name = "" then "-" else name) ++ " )"
def renderList : List TVal → List String
  | [] => []
  | x :: xs => render x :: renderList xs
def renderMap : List (String × TVal) → List (String × String)
  | [] => []
  | (k, v) :: r => (k, render v) :: renderMap r
end

def errStr : Err → String
  | .notSeq => "notseq"
  | .oddArgs => "odd"
  | .badKey ty => "badkey:" ++ us ty
  | .badSetItem => "setitem"
  | .convFrom ty => "from:" ++ us ty
  | .convTo ty => "to:" ++ us ty
  | .badApply ty => "apply:" ++ us ty
  | .callee t => "callee:" ++ t

def panicStr : PanicKind → String
  | .assert => "assert"
  | .index => "index"
  | .nilDeref => "nilderef"

def outStr {α} (show_ : α → String) : Out α → String
  | .ok a => show_ a
  | .err e => "err " ++ errStr e
  | .panic k _ => "PANIC " ++ panicStr k

def tf (b : Bool) : String := if b then "T" else "F"

def okVal (v : TVal) : String := "ok " ++ render v

def sliceStr (xs : List TVal) : String := "[" ++ joinSp (xs.map render) ++ " ]"

/-! ### the stub callees of `apply` (the Go engine installs the same ones) -/

def stubEnvOf (n : Nat) : String := "e" ++ toString n

/-- `GenEnv`: refuses when the closure's env number is ≡ 1 (mod 3), else a new environment described by what
    it was given -/
def stubGenEnv (envNo : Nat) (e : String) (params args : TVal) : Out String :=
  if envNo % 3 = 1 then .err (.callee "genenv")
  else .ok ("G(" ++ e ++ ";" ++ render params ++ ";" ++ render args ++ ")")

/-- `Eval`: fails on the body `fail`, else reports what it was given -/
def stubEval (exp : TVal) (env : String) : Out TVal :=
  match exp with
  | .sym "fail" => .err (.callee "eval")
  | exp => .ok (.list [.str "eval", exp, .str env] .nil none)

def stubCall (tag : String) (id : Nat) (a : List TVal) : Out TVal :=
  if id % 3 = 0 then .ok (.list (.str tag :: .int id :: a) .nil none)
  else if id % 3 = 1 then .err (.callee tag)
  else .ok .nil

def runApply (f : TVal) (a : List TVal) : Out TVal :=
  let envNo := match f with
    | .fn mf => mf.env
    | _ => 0
  apply stubEnvOf (stubGenEnv envNo) stubEval (stubCall "fn") (stubCall "raw") f a

def pGoType : String → Option GoType
  | "bool" => some .bool | "int" => some .int | "string" => some .string | "Symbol" => some .symbol
  | "List" => some .list | "Vector" => some .vector | "HashMap" => some .hashMap | "Set" => some .set
  | "MalFunc" => some .malFunc | "Func" => some .func | "RawFunc" => some .rawFunc | "any" => some .any
  | "float32" => some (.other "float32") | "Placeholder" => some (.other "types.Placeholder")
  | _ => none

def handleTyCtor (payload : String) : String :=
  match (payload.splitOn " ").filter (· ≠ "") with
  | [] => "bad-case"
  | "q" :: ty :: r =>
    match pGoType ty, pTerms (r.length + 1) r with
    | some t, some [v] => tf (q t v)
    | _, _ => "bad-case"
  | "line" :: c :: [m] =>
    match pCur c, pTerms 2 [m] with
    | some c, some [.str m] => "S" ++ Proto.hexEncode (line c m)
    | _, _ => "bad-case"
  | "tokpos" :: [c] =>
    match pCur c with
    | some (some p) => renderCur (some (tokenGetPosition { value := "", type := 0, cursor := p }))
    | _ => "bad-case"
  | fn :: r =>
    match pTerms (r.length + 1) r with
    | none => "bad-case"
    | some args =>
      match fn, args with
      | "nil?", [v] => tf (nilQ v)
      | "true?", [v] => tf (trueQ v)
      | "false?", [v] => tf (falseQ v)
      | "keyword?", [v] => outStr tf (keywordQ v)
      | "string?", [v] => outStr tf (stringQ v)
      | "sequential?", [v] => outStr tf (sequentialQ v)
      | "newKeyword", [.str s] => "S" ++ Proto.hexEncode (newKeyword s)
      | "setMacro", [.fn f] => okVal (setMacro f)
      | "getMacro", [.fn f] => tf (getMacro f)
      | "newList", a => okVal (newList a)
      | "getSlice", [v] => outStr (fun xs => "ok " ++ sliceStr xs) (getSlice v)
      | "newHashMap", [v] => outStr okVal (newHashMap v)
      | "newSet", [v] => outStr okVal (newSet v)
      | "convertFrom", [v] =>
        let sorted := match v with
          | .set ks _ => fun (_ : List TVal) => (Proto.sortStrs (setKeys ks)).map TVal.str
          | _ => id
        outStr (fun (xs, m) => "ok " ++ sliceStr (sorted xs) ++ " " ++ render m) (convertFrom v)
      | "convertTo", to :: m :: src => outStr okVal (convertTo src to m)
      | "apply", f :: a => outStr okVal (runApply f a)
      | _, _ => "bad-case"

end LispModel.TyCtor

/-
  Driver arm of engine `conc` (C09/C10): decides, for a history recorded by the Go harness on the real
  builtins, whether it is linearizable w.r.t. the sequential atom / future object (Spec/ConcObj.lean).
  Request: payload = the case (see harness/eng_conc_hist.go), extra = the recorded history.
  Answer: `ok\t<spec>` (model: every case terminates); spec = `ok` (what the property demands of every case) or `REJECTED <why>`.
-/
import LispModel.Spec.ConcObj
namespace LispModel.ConcDriver
open LispModel.Spec.Lin LispModel.Spec.ConcObj

def parseRes (s : String) : Res :=
  if s == "T" then .bool true else if s == "F" then .bool false else if s == "ep" then .plainErr else
  match s.toList with
  | 'v' :: r => match (String.ofList r).toInt? with
    | some n => .val n
    | none => .other
  | 'e' :: r => match (String.ofList r).toInt? with
    | some n => .thrown n
    | none => .other
  | _ => .other

/-- token = kind letters, index digits, optional separator char, optional argument digits -/
def splitTok (s : String) : Option (String × Nat × Option Char × Option Nat) :=
  let cs := s.toList
  let kind := cs.takeWhile (fun c => !c.isDigit)
  let r1 := cs.dropWhile (fun c => !c.isDigit)
  let idx := r1.takeWhile Char.isDigit
  let r2 := r1.dropWhile Char.isDigit
  match (String.ofList idx).toNat? with
  | none => none
  | some a =>
    match r2 with
    | [] => some (String.ofList kind, a, none, none)
    | sep :: arg => some (String.ofList kind, a, some sep, (String.ofList arg).toNat?)

def atomOpOf (loose : Bool) (tok : String) (r : Res) : Option AtomOp :=
  match splitTok tok with
  | some ("d", a, none, _) => some (if loose && a == 1 then .derefLoose a r else .deref a r)
  | some ("p", a, none, _) => some (if loose && a == 1 then .derefLoose a r else .deref a r)
  | some ("r", a, some '=', some v) => some (.reset a v r)
  | some ("s", a, some '+', some n) => some (.swapAdd a n r)
  | some ("s", a, some '!', _) => some (.swapFail a r)
  | some ("s", a, some '@', some _) => some (.swapAdd a 1 r)
  | some ("s", a, some '^', some b) => some (.swapInc a b r)
  | _ => none

def futOpOf (tok : String) (r : Res) : Option FutOp :=
  match splitTok tok with
  | some ("D", f, none, _) => some (.deref f r)
  | some ("?d", f, none, _) => some (.isDone f r)
  | some ("?c", f, none, _) => some (.isCancelled f r)
  | some ("C", f, none, _) => some (.cancel f r)
  | _ => none

/-- body description → what it yields when not cancelled -/
def bodyNormal (b : String) : Res :=
  let after (p : String) : String := (b.drop p.length).toString
  if b.startsWith "ret" then parseRes ("v" ++ after "ret")
  else if b.startsWith "throw" then parseRes ("e" ++ after "throw")
  else match b.splitOn ":" with
    | [_, n] => parseRes ("v" ++ n)
    | _ => .other

structure Rec where
  t : Nat
  i : Nat
  inv : Nat
  resp : Nat
  res : Res

def parseRec (s : String) : Option Rec :=
  match s.splitOn ":" with
  | [ti, inv, resp, res] =>
    match ti.splitOn ".", inv.toNat?, resp.toNat? with
    | [t, i], some inv, some resp =>
      match t.toNat?, i.toNat? with
      | some t, some i => some { t, i, inv, resp, res := parseRes res }
      | _, _ => none
    | _, _, _ => none
  | _ => none

def allSome {α : Type} : List (Option α) → Option (List α)
  | [] => some []
  | none :: _ => none
  | some x :: r => (allSome r).map (x :: ·)

def words (s : String) : List String := (s.splitOn " ").filter (· != "")

def cfgList (cfg : String) (pre : String) : List String :=
  if cfg.startsWith pre then ((cfg.drop pre.length).toString).splitOn "," else []

def far : Nat := 1000000000000

def verdictAtoms (cfg : String) (threads : List (List String)) (recs : List Rec) (finals : List Res) (loose : Bool) : String :=
  let init : List Int := (cfgList cfg "init=").map fun v => (v.toInt?).getD 0
  let ops := allSome (recs.map fun r =>
    (atomOpOf loose ((threads.getD r.t []).getD r.i "") r.res).map fun op =>
      ({ inv := r.inv, resp := r.resp, op := op } : HOp AtomOp))
  let fin : Option (List Int) := allSome (finals.map fun r => match r with
    | .val n => some n
    | _ => none)
  match ops, fin with
  | some h, some fin =>
    if linCheck atomObj (atomFinal loose fin) init h then "ok"
    else if linCheck atomObj (fun _ => true) init h then "REJECTED lost update: the final values differ from those of every linearization"
    else "REJECTED history not linearizable w.r.t. the sequential atom"
  | _, _ => "REJECTED unreadable history"

def verdictFuts (cfg : String) (threads : List (List String)) (recs : List Rec) : String :=
  let s0 : FutState := (cfgList cfg "fut=").map fun b => { normal := bodyNormal b }
  let ops := allSome (recs.map fun r =>
    (futOpOf ((threads.getD r.t []).getD r.i "") r.res).map fun op =>
      ({ inv := r.inv, resp := r.resp, op := op } : HOp FutOp))
  match ops with
  | some h =>
    let ticks : List (HOp FutOp) := (List.range s0.length).flatMap fun f =>
      [{ inv := 0, resp := far, op := .tick f, optional := true },
       { inv := 0, resp := far, op := .tick f, optional := true }]
    if linCheck futObj (fun _ => true) s0 (h ++ ticks) then "ok"
    else "REJECTED history not linearizable w.r.t. the sequential future"
  | none => "REJECTED unreadable history"

def handleConc (payload extra : String) : String :=
  let parts := payload.splitOn " | "
  match words (parts.headD "") with
  | ["hist", half, _k, cfg] =>
    if extra == "-" then "-" else
    let threads := parts.tail.map words
    let fields := words extra
    let finals := (fields.filter (·.startsWith "final=")).flatMap fun f => (cfgList f "final=").map parseRes
    match allSome ((fields.filter (fun f => !f.startsWith "final=")).map parseRec) with
    | none => "ok\tREJECTED unreadable history"
    | some recs =>
      if recs.length != (threads.map List.length).sum then "ok\tREJECTED incomplete history" else
      let v := if half == "a" then verdictAtoms cfg threads recs finals (payload.contains '^')
               else verdictFuts cfg threads recs
      "ok\t" ++ v
  | "wit" :: _ => "ok\tok"
  | "race" :: _ => "ok\tok"
  | "envconc" :: _ => "ok\tok"   -- C11: the oracle (solo run) is harness-side; the property demands `ok`
  | _ => "bad-op"

end LispModel.ConcDriver

/-
  Concurrency model of /repo/lib/concurrent/concurrent.go (C09 atoms, C10 futures).

  Every Go function is a *micro-op program* (`Program`), interpreted by an interleaving
  small-step semantics: one scheduler choice = one micro-op of one thread.  Go `sync.RWMutex`
  rules: `Lock` needs no writer and no reader, `RLock` needs no writer (also not the calling
  thread itself: Go mutexes are not re-entrant).  Sequential consistency of the micro-op
  interleaving stands in for the Go memory model (justified for data-race-free programs).

  Each function has two programs: `…Baseline` (the code as it stands) and `…Fixed` (after
  docs/candidate-fixes.patch).  `prog` := the fixed ones; the theorems are about `prog`.
  The shapes are tied to the source by Generated/Sync.lean (Tie/Sync.lean); the baseline shapes by the frozen facts of Proofs/ConcBaselineFacts.lean.
-/
namespace LispModel.Conc

inductive Mu | atomRW | futMu deriving DecidableEq, Repr
inductive Loc | val | ver | done | cancelled deriving DecidableEq, Repr

/-- micro-ops, as written in the source -/
inductive MOp
  | lock (m : Mu) | unlock (m : Mu) | rlock (m : Mu) | runlock (m : Mu)
  | deferUnlock (m : Mu) | deferRUnlock (m : Mu)
  | read (l : Loc) | write (l : Loc) | deferWrite (l : Loc)
  | callback                    -- `Apply(ctx, f, args)`; an error return leaves the function
  | brNe (l : Loc) (k : Nat)    -- compare shared `l` with the saved copy; jump to `k` if different
  | brTrue (l : Loc) (k : Nat)  -- read flag `l`; jump to `k` if set
  | jmp (k : Nat) | ctxCheck | ret
  | callBody | send | selectRecv | resend | cancelCtx | mkChans | spawn
  | unknown                     -- a construct the fact extractor does not understand
  deriving DecidableEq, Repr

abbrev Program := List MOp

inductive OpName
  | swap | reset | deref | print
  | newFuture | body | cancel | derefF | isDone | isCancelled
  deriving DecidableEq, Repr

open MOp Mu Loc

/-! ### the programs -/

def swapBaseline : Program :=
  [lock atomRW, deferUnlock atomRW, read val, callback, write val, ret]
def swapFixed : Program :=
  [rlock atomRW, read val, read ver, runlock atomRW, callback, lock atomRW, brNe ver 11,
   write val, write ver, unlock atomRW, ret, unlock atomRW, ctxCheck, jmp 0]
def resetBaseline : Program := [lock atomRW, deferUnlock atomRW, write val, ret]
def resetFixed : Program := [lock atomRW, deferUnlock atomRW, write val, write ver, ret]
def derefBaseline : Program := [rlock atomRW, deferRUnlock atomRW, read val, ret]
def derefFixed : Program := derefBaseline
def printBaseline : Program := [read val, ret]
def printFixed : Program := [rlock atomRW, read val, runlock atomRW, ret]

def newFutureBaseline : Program := [mkChans, spawn, ret]
def newFutureFixed : Program := newFutureBaseline
def bodyBaseline : Program := [deferWrite done, callBody, send, ret]
def bodyFixed : Program := [callBody, lock futMu, write done, unlock futMu, send, ret]
def cancelBaseline : Program :=
  [brTrue done 4, write cancelled, write done, cancelCtx, read cancelled, ret]
def cancelFixed : Program :=
  [lock futMu, deferUnlock futMu, brTrue done 6, write cancelled, write done, cancelCtx,
   read cancelled, ret]
def derefFBaseline : Program := [selectRecv, resend, ret]
def derefFFixed : Program := derefFBaseline
def isDoneBaseline : Program := [read done, ret]
def isDoneFixed : Program := [lock futMu, deferUnlock futMu, read done, ret]
def isCancelledBaseline : Program := [read cancelled, ret]
def isCancelledFixed : Program := [lock futMu, deferUnlock futMu, read cancelled, ret]

def progBaseline : OpName → Program
  | .swap => swapBaseline | .reset => resetBaseline | .deref => derefBaseline
  | .print => printBaseline | .newFuture => newFutureBaseline | .body => bodyBaseline
  | .cancel => cancelBaseline | .derefF => derefFBaseline | .isDone => isDoneBaseline
  | .isCancelled => isCancelledBaseline

def progFixed : OpName → Program
  | .swap => swapFixed | .reset => resetFixed | .deref => derefFixed
  | .print => printFixed | .newFuture => newFutureFixed | .body => bodyFixed
  | .cancel => cancelFixed | .derefF => derefFFixed | .isDone => isDoneFixed
  | .isCancelled => isCancelledFixed

/-! ### static lock discipline (facts regenerated from the source: Generated/Sync.lean) -/

inductive Held | w (m : Mu) | r (m : Mu) deriving DecidableEq, Repr

/-- one syntactic access to a shared field, with the locks held at that point -/
structure Access where
  fn : OpName
  loc : Loc
  isWrite : Bool
  held : List Held
  deriving DecidableEq, Repr

/-- `Val`/`version` are guarded by the atom's RWMutex (writes need the write lock), the flags by `mu` -/
def Access.guarded (a : Access) : Bool :=
  match a.loc with
  | .val | .ver =>
    a.held.contains (.w .atomRW) || (!a.isWrite && a.held.contains (.r .atomRW))
  | .done | .cancelled => a.held.contains (.w .futMu)

/-- the programs the theorems are about -/
def prog : OpName → Program := progFixed

def upd {α : Type} (f : Nat → α) (i : Nat) (x : α) : Nat → α := fun j => if j = i then x else f j

/-! ## Atom system (C09) -/

/-- update functions of `swap!`: pure, failing, reading an atom (possibly the one being swapped),
    updating another atom (nested `swap!` with its own update function) -/
inductive UFn
  | app (f : Nat → Nat)
  | fail
  | addDeref (b : Nat)              -- (fn [x] (+ x @b))
  | addSwap (b : Nat) (g : UFn)     -- (fn [x] (+ x (swap! b g)))

inductive AOp
  | deref (a : Nat) | reset (a : Nat) (v : Nat) | swap (a : Nat) (f : UFn) | print (a : Nat)

def AOp.atom : AOp → Nat
  | .deref a => a | .reset a _ => a | .swap a _ => a | .print a => a

def AOp.name : AOp → OpName
  | .deref _ => .deref | .reset _ _ => .reset | .swap _ _ => .swap | .print _ => .print

/-- `sync.RWMutex` + the guarded fields -/
structure AtomS where
  val : Nat := 0
  ver : Nat := 0
  w : Option Nat := none     -- thread holding the write lock
  r : List Nat := []         -- threads holding a read lock

structure Frame where
  op : AOp
  pc : Nat := 0
  old : Nat := 0             -- local copy of Val
  sver : Nat := 0            -- local copy of version
  res : Nat := 0             -- value to install / return
  defers : List MOp := []
  returning : Bool := false
  failed : Bool := false

def Frame.new (op : AOp) : Frame :=
  match op with
  | .reset _ v => { op := op, res := v }
  | _ => { op := op }

/-- linearization events (ghost) -/
inductive LinEv
  | read (t a v : Nat)          -- deref / print returned v
  | set (t a v : Nat)           -- reset! installed v
  | cas (t a old new : Nat)     -- swap! replaced old by new
  | failed (t a : Nat)          -- swap! whose function failed

/-- the sequential atom object: what each linearization event demands of, and does to, the values -/
def applyEv (cur : Nat → Nat) : LinEv → Option (Nat → Nat)
  | .read _ a v => if cur a = v then some cur else none
  | .set _ a v => some (fun b => if b = a then v else cur b)
  | .cas _ a old new => if cur a = old then some (fun b => if b = a then new else cur b) else none
  | .failed _ _ => some cur

/-- a log of linearization events is a legal sequential history from `cur` -/
def replay : List LinEv → (Nat → Nat) → Option (Nat → Nat)
  | [], cur => some cur
  | e :: es, cur => (applyEv cur e).bind (replay es)

structure Thread where
  stack : List Frame := []
  todo : List AOp := []
  out : List (AOp × Option Nat) := []   -- responses (none = error)

structure State where
  atoms : Nat → AtomS
  threads : Nat → Thread
  lin : List LinEv := []

def Frame.retval (fr : Frame) : Option Nat :=
  if fr.failed then none else
  match fr.op with
  | .deref _ => some fr.old | .print _ => some fr.old
  | .reset _ _ => some fr.res | .swap _ _ => some fr.res

/-- effect of a lock-like or data micro-op of thread `t` on its frame and the frame's atom;
    `none` = blocked (or not an atom micro-op) -/
def execM (t : Nat) (m : MOp) (fr : Frame) (A : AtomS) : Option (Frame × AtomS) :=
  let nx := { fr with pc := fr.pc + 1 }
  match m with
  | .lock .atomRW => if A.w.isNone && A.r.isEmpty then some (nx, { A with w := some t }) else none
  | .rlock .atomRW => if A.w.isNone then some (nx, { A with r := t :: A.r }) else none
  | .unlock .atomRW => some (nx, { A with w := none })
  | .runlock .atomRW => some (nx, { A with r := A.r.erase t })
  | .deferUnlock m => some ({ nx with defers := .unlock m :: fr.defers }, A)
  | .deferRUnlock m => some ({ nx with defers := .runlock m :: fr.defers }, A)
  | .read .val => some ({ nx with old := A.val }, A)
  | .read .ver => some ({ nx with sver := A.ver }, A)
  | .write .val => some (nx, { A with val := fr.res })
  | .write .ver => some (nx, { A with ver := A.ver + 1 })
  | .brNe .ver k => some (if A.ver ≠ fr.sver then { fr with pc := k } else nx, A)
  | .jmp k => some ({ fr with pc := k }, A)
  | .ctxCheck => some (nx, A)
  | .ret => some ({ fr with returning := true }, A)
  | _ => none

/-- ghost: the linearization event of a micro-op, if it is a linearization point -/
def linOf (t : Nat) (m : MOp) (fr : Frame) (A : AtomS) : List LinEv :=
  match m, fr.op with
  | .read .val, .deref a => [.read t a A.val]
  | .read .val, .print a => [.read t a A.val]
  | .write .val, .reset a _ => [.set t a fr.res]
  | .write .val, .swap a _ => [.cas t a fr.old fr.res]
  | _, _ => []

def State.setTop (s : State) (t : Nat) (fr : Frame) (rest : List Frame) (A : AtomS) (ev : List LinEv) : State :=
  { atoms := upd s.atoms fr.op.atom A,
    threads := upd s.threads t { s.threads t with stack := fr :: rest },
    lin := s.lin ++ ev }

/-- one step of thread `t`; `none` = thread `t` has no enabled step -/
def step (code : OpName → Program) (s : State) (t : Nat) : Option State :=
  let th := s.threads t
  match th.stack with
  | [] =>
    match th.todo with
    | [] => none
    | op :: more => some { s with threads := upd s.threads t { th with stack := [Frame.new op], todo := more } }
  | fr :: rest =>
    let A := s.atoms fr.op.atom
    if fr.returning then
      match fr.defers with
      | d :: ds =>
        (execM t d { fr with defers := ds } A).map fun (fr', A') =>
          s.setTop t { fr' with pc := fr.pc } rest A' []
      | [] =>
        match rest with
        | [] => some { s with threads := upd s.threads t { th with stack := [], out := th.out ++ [(fr.op, fr.retval)] } }
        | par :: rest' =>
          match fr.retval with
          | some v => some (s.setTop t { par with res := par.old + v, pc := par.pc + 1 } rest' (s.atoms par.op.atom) [])
          | none => some (s.setTop t { par with failed := true, returning := true } rest' (s.atoms par.op.atom)
                            [.failed t par.op.atom])
    else
      match (code fr.op.name)[fr.pc]? with
      | none => none
      | some .callback =>
        match fr.op with
        | .swap _ (.app f) => some (s.setTop t { fr with res := f fr.old, pc := fr.pc + 1 } rest A [])
        | .swap a .fail => some (s.setTop t { fr with failed := true, returning := true } rest A [.failed t a])
        | .swap _ (.addDeref b) => some (s.setTop t (Frame.new (.deref b)) (fr :: rest) (s.atoms b) [])
        | .swap _ (.addSwap b g) => some (s.setTop t (Frame.new (.swap b g)) (fr :: rest) (s.atoms b) [])
        | _ => none
      | some m => (execM t m fr A).map fun (fr', A') => s.setTop t fr' rest A' (linOf t m fr A)

def enabled (code : OpName → Program) (s : State) (t : Nat) : Bool := (step code s t).isSome

/-- thread `t` still has something to do -/
def pending (s : State) (t : Nat) : Bool :=
  !(s.threads t).stack.isEmpty || !(s.threads t).todo.isEmpty

def run (code : OpName → Program) : List Nat → State → Option State
  | [], s => some s
  | t :: ts, s => (step code s t).bind (run code ts)

def init (progs : List (List AOp)) (vals : Nat → Nat := fun _ => 0) : State :=
  { atoms := fun a => { val := vals a },
    threads := fun t => { todo := progs.getD t [] } }

/-- a reachable state in which thread `p` is in the middle of an operation and none of the `n`
    threads can move -/
def deadlocked (code : OpName → Program) (s : State) (n p : Nat) : Bool :=
  pending s p && (List.range n).all fun t => !enabled code s t

def reachesDeadlock (code : OpName → Program) (sched : List Nat) (s0 : State) (n p : Nat) : Bool :=
  match run code sched s0 with
  | some s => deadlocked code s n p
  | none => false

theorem reachesDeadlock_spec {code sched s0 n p} (h : reachesDeadlock code sched s0 n p = true) :
    ∃ s, run code sched s0 = some s ∧ deadlocked code s n p = true := by
  unfold reachesDeadlock at h
  split at h
  · exact ⟨_, ‹_›, h⟩
  · cases h

/-- the shared-memory access thread `t` performs with its next step, if any: (atom, location, isWrite) -/
def nextAccess (code : OpName → Program) (s : State) (t : Nat) : Option (Nat × Loc × Bool) :=
  match (s.threads t).stack with
  | [] => none
  | fr :: _ =>
    if fr.returning then none else
    match (code fr.op.name)[fr.pc]? with
    | some (.read l) => some (fr.op.atom, l, false)
    | some (.write l) => some (fr.op.atom, l, true)
    | _ => none

/-- a data race: two different threads are both about to access the same location of the same
    atom, at least one of them writing (no happens-before edge orders the two accesses) -/
def raceAt (code : OpName → Program) (s : State) (t u : Nat) : Bool :=
  t != u &&
  match nextAccess code s t, nextAccess code s u with
  | some (a, l, w), some (b, k, x) => a == b && decide (l = k) && (w || x)
  | _, _ => false

def reachesRace (code : OpName → Program) (sched : List Nat) (s0 : State) (t u : Nat) : Bool :=
  match run code sched s0 with
  | some s => raceAt code s t u
  | none => false

end LispModel.Conc

/-
  The value constructors, predicates and helpers of `types/types.go`, function by function, as the Go code is
  written (supports C13 "type predicates", C04 "apply", C14).

  * values carry what the Go structs carry and these functions read or write: the `Meta` field of
    `List / Vector / HashMap / Set / MalFunc / Func`, the `Cursor` of `List / Vector / MalFunc`, the nil-ness of a
    `Set`'s Go map, the nil-ness of the function fields of `MalFunc` / `Func`;
  * every partial Go operation in these functions (unchecked type assertion, index, call of a nil func) has the
    explicit outcome `Out.panic`; the theorems then say which of them are reachable;
  * hash-maps / sets are association lists in insertion order (`LispModel.ainsert`), as everywhere in the model.
  Not mirrored here: `Equal_Q` (LispModel/Equal.lean), the `MarshalJSON` methods (encoding/json).
  Core Lean only (linked into the driver executable).
-/
import LispModel.Val
import LispModel.Position
namespace LispModel.TyCtor
open LispModel

/-- `types.MalFunc`, over the value type (the struct is nested in `TVal`).  `Eval` and `GenEnv` are Go func
    fields: only their nil-ness is data, what they do is a parameter of `apply`.  `env` names the `EnvType`. -/
structure MalFn (α : Type) where
  hasEval : Bool
  hasGenEnv : Bool
  isMacro : Bool
  env : Nat
  params : α
  exp : α
  md : α
  cur : Option Pos
deriving Repr, Inhabited

inductive TVal where
  | nil
  | bool (b : Bool)
  | int (i : Int)
  | str (s : String)
  | sym (s : String)
  | list (xs : List TVal) (md : TVal) (cur : Option Pos)
  | vec (xs : List TVal) (md : TVal) (cur : Option Pos)
  | map (kvs : List (String × TVal)) (md : TVal)
  /-- `Set{Val, Meta}`; `ks = none` is a nil Go map (the zero `Set{}`) -/
  | set (ks : Option (List String)) (md : TVal)
  | fn (f : MalFn TVal)
  /-- `Func{Fn, Meta}`; `f = none` is a nil `Fn`, `some id` names the Go function -/
  | builtin (f : Option Nat) (md : TVal)
  /-- a bare `func([]MalType) (MalType, error)` (third arm of `Apply`) -/
  | rawfn (f : Option Nat)
  /-- any other Go value: its `%T` text and its `reflect.TypeOf(v).Name()` -/
  | other (ty : String) (name : String)
deriving Repr, Inhabited

/-- error classes: one per `errors.New` / `fmt.Errorf` site of these functions (`%T` text kept) -/
inductive Err where
  | notSeq                  -- "GetSlice called on non-sequence"
  | oddArgs                 -- "odd number of arguments to NewHashMap"
  | badKey (ty : String)    -- "expected hash-map key string (found %T)"
  | badSetItem              -- "set items must be strings or keywords"
  | convFrom (ty : String)  -- "cannot convert from type %T"
  | convTo (ty : String)    -- "cannot convert to type %T"
  | badApply (ty : String)  -- "invalid function to Apply (%T)"
  | callee (tag : String)   -- an error returned by `GenEnv` / `Eval` / `Fn`, passed through unchanged
deriving DecidableEq, Repr, Inhabited

inductive PanicKind where
  | assert   -- failed unchecked type assertion
  | index    -- index out of range
  | nilDeref -- call of a nil func value / method call on a nil interface
deriving DecidableEq, Repr, Inhabited

inductive Out (α : Type) where
  | ok (a : α)
  | err (e : Err)
  | panic (k : PanicKind) (site : String)
deriving Repr, Inhabited, DecidableEq

namespace Out
def bind {α β} (x : Out α) (f : α → Out β) : Out β :=
  match x with
  | .ok a => f a
  | .err e => .err e
  | .panic k s => .panic k s
def map {α β} (f : α → β) (x : Out α) : Out β := x.bind fun a => .ok (f a)
def isPanic {α} : Out α → Bool
  | .panic _ _ => true
  | _ => false
def isOk {α} : Out α → Bool
  | .ok _ => true
  | _ => false
end Out

/-! ### Go dynamic types -/

/-- `fmt.Sprintf("%T", v)` (`<nil>` for the nil interface) -/
def typeName : TVal → String
  | .nil => "<nil>" | .bool _ => "bool" | .int _ => "int" | .str _ => "string"
  | .sym _ => "types.Symbol" | .list .. => "types.List" | .vec .. => "types.Vector"
  | .map .. => "types.HashMap" | .set .. => "types.Set" | .fn _ => "types.MalFunc"
  | .builtin .. => "types.Func" | .rawfn _ => "func([]types.MalType) (types.MalType, error)"
  | .other ty _ => ty

/-- `reflect.TypeOf(v).Name()`; `none` when `reflect.TypeOf(v)` is nil (calling `.Name()` on it would panic);
    an unnamed type (the bare func type) has the empty name -/
def reflectName : TVal → Option String
  | .nil => none | .bool _ => some "bool" | .int _ => some "int" | .str _ => some "string"
  | .sym _ => some "Symbol" | .list .. => some "List" | .vec .. => some "Vector"
  | .map .. => some "HashMap" | .set .. => some "Set" | .fn _ => some "MalFunc"
  | .builtin .. => some "Func" | .rawfn _ => some ""
  | .other _ name => some name

/-- the static type `T` of a `Q[T]` instantiation / of a type-switch arm -/
inductive GoType where
  | bool | int | string | symbol | list | vector | hashMap | set | malFunc | func | rawFunc
  | other (ty : String)
  /-- `MalType` itself (an interface every non-nil value satisfies) -/
  | any
deriving DecidableEq, Repr, Inhabited

/-- the dynamic type of an interface value; `none` for the nil interface -/
def dynType : TVal → Option GoType
  | .nil => none | .bool _ => some .bool | .int _ => some .int | .str _ => some .string
  | .sym _ => some .symbol | .list .. => some .list | .vec .. => some .vector
  | .map .. => some .hashMap | .set .. => some .set | .fn _ => some .malFunc
  | .builtin .. => some .func | .rawfn _ => some .rawFunc
  | .other ty _ => some (.other ty)

/-! ### scalars and predicates -/

/-- `Nil_Q`: `obj == nil` -/
def nilQ : TVal → Bool
  | .nil => true
  | _ => false

/-- `True_Q`: `b, ok := obj.(bool); ok && b` -/
def trueQ : TVal → Bool
  | .bool b => b
  | _ => false

/-- `False_Q` -/
def falseQ : TVal → Bool
  | .bool b => !b
  | _ => false

/-- `Q[T]`: `_, ok := obj.(T)` -/
def q (t : GoType) (v : TVal) : Bool :=
  match t with
  | .any => (dynType v).isSome
  | t => decide (dynType v = some t)

/-- the unchecked `obj.(string)` -/
def assertString (site : String) : TVal → Out String
  | .str s => .ok s
  | _ => .panic .assert site

/-- `NewKeyword`: `"\u029e" + s` -/
def newKeyword (s : String) : String := String.ofList (kwMarker :: s.toList)

/-- `Keyword_Q`: `Q[string](obj) && strings.HasPrefix(obj.(string), "\u029e")` -/
def keywordQ (v : TVal) : Out Bool :=
  if q .string v then (assertString "Keyword_Q:obj.(string)" v).map Val.isKwStr else .ok false

/-- `String_Q`: `Q[string](obj) && !strings.HasPrefix(obj.(string), "\u029e")` -/
def stringQ (v : TVal) : Out Bool :=
  if q .string v then (assertString "String_Q:obj.(string)" v).map (fun s => !Val.isKwStr s) else .ok false

/-- `Sequential_Q`: nil ⇒ false, else the NAME of the dynamic type is "List" or "Vector" -/
def sequentialQ (v : TVal) : Out Bool :=
  match v with
  | .nil => .ok false
  | v =>
    match reflectName v with
    | none => .panic .nilDeref "Sequential_Q:reflect.TypeOf(seq).Name()"
    | some n => .ok (n == "List" || n == "Vector")

/-! ### `MalFunc` methods -/

/-- `(f MalFunc) SetMacro()`: a copy with `IsMacro = true` -/
def setMacro (f : MalFn TVal) : TVal := .fn { f with isMacro := true }

/-- `(f MalFunc) GetMacro()` -/
def getMacro (f : MalFn TVal) : Bool := f.isMacro

/-! ### sequences -/

/-- `NewList(a...)`: `List{Val: a}` -/
def newList (a : List TVal) : TVal := .list a .nil none

/-- `GetSlice`: the `Val` of a `List` or a `Vector` (the very slice, not a copy) -/
def getSlice : TVal → Out (List TVal)
  | .list xs _ _ => .ok xs
  | .vec xs _ _ => .ok xs
  | _ => .err .notSeq

/-! ### hash-maps -/

/-- the loop of `NewHashMap` (`for i := 0; i < len(lst); i += 2`), on the rest of the slice from `i` on:
    `lst[i].(string)` is checked, `lst[i+1]` is an unchecked index -/
def hmLoop : List TVal → List (String × TVal) → Out (List (String × TVal))
  | [], m => .ok m
  | .str k :: v :: rest, m => hmLoop rest (ainsert k v m)
  | [.str _], _ => .panic .index "NewHashMap:lst[i+1]"
  | x :: _, _ => .err (.badKey (typeName x))

/-- `NewHashMap` -/
def newHashMap (seq : TVal) : Out TVal :=
  (getSlice seq).bind fun lst =>
    if lst.length % 2 = 1 then .err .oddArgs
    else (hmLoop lst []).map fun m => .map m .nil

/-! ### sets -/

/-- the loop of `NewSet` -/
def setLoop : List TVal → List String → Out (List String)
  | [], m => .ok m
  | .str k :: rest, m => setLoop rest (sinsert k m)
  | _ :: _, _ => .err .badSetItem

/-- `NewSet`: nil ⇒ the zero `Set{}` (its Go map is NIL, not an empty map) -/
def newSet (seq : TVal) : Out TVal :=
  match seq with
  | .nil => .ok (.set none .nil)
  | seq => (getSlice seq).bind fun lst => (setLoop lst []).map fun m => .set (some m) .nil

/-- the members of a set value: a nil Go map ranges over nothing -/
def setKeys : Option (List String) → List String
  | none => []
  | some ks => ks

/-! ### `ConvertFrom` / `ConvertTo` -/

/-- `ConvertFrom`: the elements (of a set: its members, in Go map order — here insertion order) and the `Meta` -/
def convertFrom : TVal → Out (List TVal × TVal)
  | .set ks md => .ok ((setKeys ks).map .str, md)
  | .list xs md _ => .ok (xs, md)
  | .vec xs md _ => .ok (xs, md)
  | v => .err (.convFrom (typeName v))

/-- the loop of the `Set` arm of `ConvertTo`: `to.Val[k.(string)] = struct{}{}` — an UNCHECKED assertion -/
def toSetLoop : List TVal → List String → Out (List String)
  | [], m => .ok m
  | k :: rest, m => (assertString "ConvertTo:k.(string)" k).bind fun s => toSetLoop rest (sinsert s m)

/-- the `&Position{}` that `ConvertTo` puts into a new list / vector -/
def zeroPos : Pos := { module := none, beginRow := 0, beginCol := 0, row := 0, col := 0 }

/-- `ConvertTo(from, _to, meta)`: only the dynamic type of `_to` matters; the `Set` arm DROPS `meta` -/
def convertTo (src : List TVal) (to md : TVal) : Out TVal :=
  match to with
  | .set _ _ => (toSetLoop src []).map fun m => .set (some m) .nil
  | .list _ _ _ => .ok (.list src md (some zeroPos))
  | .vec _ _ _ => .ok (.vec src md (some zeroPos))
  | v => .err (.convTo (typeName v))

/-! ### `Apply` -/

/-- `Apply(ctx, f, a)`.  Parameters: what the `GenEnv` and `Eval` fields of a closure do (environments are an
    abstract type `ε`, `envOf` turns the `Env` field into one), what the Go function behind a `Func` / a bare
    func does.  A nil func field is called all the same: a nil-dereference panic. -/
def apply {ε : Type} (envOf : Nat → ε) (genEnv : ε → TVal → TVal → Out ε)
    (eval : TVal → ε → Out TVal) (callFn : Nat → List TVal → Out TVal) (callRaw : Nat → List TVal → Out TVal)
    (f : TVal) (a : List TVal) : Out TVal :=
  match f with
  | .fn mf =>
    if !mf.hasGenEnv then .panic .nilDeref "Apply:f.GenEnv" else
    (genEnv (envOf mf.env) mf.params (.list a .nil mf.cur)).bind fun env =>
      if !mf.hasEval then .panic .nilDeref "Apply:f.Eval" else eval mf.exp env
  | .builtin (some id) _ => callFn id a
  | .builtin none _ => .panic .nilDeref "Apply:f.Fn"
  | .rawfn (some id) => callRaw id a
  | .rawfn none => .panic .nilDeref "Apply:f"
  | v => .err (.badApply (typeName v))

/-! ### positions -/

/-- `types.Token` -/
structure Token where
  value : String
  type : Int
  cursor : Pos
deriving Repr, Inhabited

/-- `(token Token) GetPosition()`: the address of the receiver COPY's `Cursor` -/
def tokenGetPosition (t : Token) : Pos := t.cursor

/-- `Line(cursor, message)`: `cursor.String() + ": " + message` (a nil cursor prints as the empty string) -/
def line (cursor : Option Pos) (message : String) : String :=
  Position.toString cursor ++ ": " ++ message

end LispModel.TyCtor

/-
  Future system (C10): micro-op semantics of `NewFuture`'s goroutine (`body`), `Future.Cancel`,
  `Future.Deref` and the `future-done?` / `future-cancelled?` lambdas over the shared `MOp`
  vocabulary of Conc.lean.  The system starts right after the `future` calls returned: every
  future has its (single, see `newFuture_spawns_once`) body thread at the start of its program,
  empty capacity-1 channels and cleared flags.  Scheduler labels: a step of a client thread (with
  the `select` arm it takes), a step of a body thread, the end of a client's context.
-/
import LispModel.Conc
namespace LispModel.Conc.Fut
open LispModel.Conc

inductive Owner | thr (t : Nat) | body (f : Nat) deriving DecidableEq, Repr

inductive FOp | derefF (f : Nat) | isDone (f : Nat) | isCancelled (f : Nat) | cancel (f : Nat)
  deriving DecidableEq, Repr

def FOp.fut : FOp → Nat
  | .derefF f => f | .isDone f => f | .isCancelled f => f | .cancel f => f
def FOp.name : FOp → OpName
  | .derefF _ => .derefF | .isDone _ => .isDone | .isCancelled _ => .isCancelled | .cancel _ => .cancel

/-- outcome of a body / of a deref: (isError, payload) -/
abbrev Outcome := Bool × Nat

/-- what the body does: its outcome when left alone, and whether it gives up (error 0) when its
    context has been cancelled by the time it finishes -/
structure BodyKind where
  outcome : Outcome := (false, 0)
  honors : Bool := false
  deriving DecidableEq, Repr

inductive Resp | out (o : Outcome) | timeout | flag (b : Bool) deriving DecidableEq, Repr

structure FFrame where
  name : OpName
  fut : Nat
  pc : Nat := 0
  got : Option Outcome := none   -- outcome computed (body) or received (deref)
  flag : Bool := false           -- flag value read
  timedOut : Bool := false
  took : Bool := false           -- ghost: the `brTrue` branch was taken (future-cancel found Done set)
  defers : List MOp := []
  returning : Bool := false
  deriving DecidableEq, Repr

structure FutS where
  valCh : Option Nat := none
  errCh : Option Nat := none
  mu : Option Owner := none
  done : Bool := false
  cancelled : Bool := false
  ctxCancelled : Bool := false
  runs : Nat := 0                -- ghost: how often the body function was applied
  res : Option Outcome := none   -- ghost: the outcome the body function produced
  kind : BodyKind := {}
  body : Option FFrame := none   -- the goroutine started by NewFuture; none = finished
  deriving DecidableEq, Repr

structure FThread where
  cur : Option FFrame := none
  todo : List FOp := []
  out : List (OpName × Nat × Resp) := []
  ctxEnded : Bool := false
  deriving DecidableEq, Repr

structure FState where
  futs : Nat → FutS
  threads : Nat → FThread

inductive Label | thr (t : Nat) (arm : Nat) | body (f : Nat) | endCtx (t : Nat)
  deriving DecidableEq, Repr

def putBack (o : Outcome) (F : FutS) : Option FutS :=
  match o with
  | (true, e) => if F.errCh.isNone then some { F with errCh := some e } else none
  | (false, v) => if F.valCh.isNone then some { F with valCh := some v } else none

/-- effect of one micro-op of `o` on its frame and the future; `none` = blocked -/
def execF (o : Owner) (arm : Nat) (ctxEnded : Bool) (m : MOp) (fr : FFrame) (F : FutS) : Option (FFrame × FutS) :=
  let nx := { fr with pc := fr.pc + 1 }
  match m with
  | .lock .futMu => if F.mu.isNone then some (nx, { F with mu := some o }) else none
  | .unlock .futMu => some (nx, { F with mu := none })
  | .deferUnlock m => some ({ nx with defers := .unlock m :: fr.defers }, F)
  | .deferWrite l => some ({ nx with defers := .write l :: fr.defers }, F)
  | .read .done => some ({ nx with flag := F.done }, F)
  | .read .cancelled => some ({ nx with flag := F.cancelled }, F)
  | .write .done => some (nx, { F with done := true })
  | .write .cancelled => some (nx, { F with cancelled := true })
  | .brTrue .done k => some (if F.done then { fr with pc := k, took := true } else nx, F)
  | .cancelCtx => some (nx, { F with ctxCancelled := true })
  | .callBody =>
    let oc : Outcome := if F.kind.honors && F.ctxCancelled then (true, 0) else F.kind.outcome
    some ({ nx with got := some oc }, { F with runs := F.runs + 1, res := some oc })
  | .send => match fr.got with
    | some oc => (putBack oc F).map fun F' => (nx, F')
    | none => none
  | .selectRecv =>
    match arm with
    | 0 => if ctxEnded then some ({ fr with timedOut := true, returning := true }, F) else none
    | 1 => F.errCh.map fun e => ({ nx with got := some (true, e) }, { F with errCh := none })
    | 2 => F.valCh.map fun v => ({ nx with got := some (false, v) }, { F with valCh := none })
    | _ => none
  | .resend => match fr.got with
    | some oc => (putBack oc F).map fun F' => (nx, F')
    | none => none
  | .ret => some ({ fr with returning := true }, F)
  | _ => none

/-- one step of a frame: the next micro-op, or a deferred one while returning; `.inr` = the frame returned -/
def stepFrame (code : OpName → Program) (o : Owner) (arm : Nat) (ctxEnded : Bool) (fr : FFrame) (F : FutS) :
    Option ((FFrame ⊕ FFrame) × FutS) :=
  if fr.returning then
    match fr.defers with
    | d :: ds => (execF o arm ctxEnded d { fr with defers := ds } F).map fun (fr', F') => (.inl { fr' with pc := fr.pc }, F')
    | [] => some (.inr fr, F)
  else
    match (code fr.name)[fr.pc]? with
    | none => none
    | some m => (execF o arm ctxEnded m fr F).map fun (fr', F') => (.inl fr', F')

def FFrame.resp (fr : FFrame) : Resp :=
  match fr.name with
  | .derefF => if fr.timedOut then .timeout else match fr.got with
    | some oc => .out oc
    | none => .timeout
  | _ => .flag fr.flag

def FOp.frame (op : FOp) : FFrame := { name := op.name, fut := op.fut }

def fstep (code : OpName → Program) (s : FState) : Label → Option FState
  | .endCtx t => some { s with threads := upd s.threads t { s.threads t with ctxEnded := true } }
  | .body f =>
    match (s.futs f).body with
    | none => none
    | some fr =>
      (stepFrame code (.body f) 0 false fr (s.futs f)).map fun (r, F') =>
        match r with
        | .inl fr' => { s with futs := upd s.futs f { F' with body := some fr' } }
        | .inr _ => { s with futs := upd s.futs f { F' with body := none } }
  | .thr t arm =>
    let th := s.threads t
    match th.cur with
    | none =>
      match th.todo with
      | [] => none
      | op :: more => some { s with threads := upd s.threads t { th with cur := some op.frame, todo := more } }
    | some fr =>
      (stepFrame code (.thr t) arm th.ctxEnded fr (s.futs fr.fut)).map fun (r, F') =>
        match r with
        | .inl fr' => { futs := upd s.futs fr.fut F', threads := upd s.threads t { th with cur := some fr' } }
        | .inr fr' => { futs := upd s.futs fr.fut F',
                        threads := upd s.threads t { th with cur := none, out := th.out ++ [(fr'.name, fr'.fut, fr'.resp)] } }

def frun (code : OpName → Program) : List Label → FState → Option FState
  | [], s => some s
  | l :: ls, s => (fstep code s l).bind (frun code ls)

def finit (kinds : List BodyKind) (progs : List (List FOp)) : FState :=
  { futs := fun f => { kind := kinds.getD f {},
                       body := if f < kinds.length then some { name := .body, fut := f } else none },
    threads := fun t => { todo := progs.getD t [] } }

/-- the flag access a frame performs with its next step: (location, isWrite) -/
def FFrame.nextAccess (code : OpName → Program) (fr : FFrame) : Option (Loc × Bool) :=
  let m := if fr.returning then fr.defers.head? else (code fr.name)[fr.pc]?
  match m with
  | some (.read l) => some (l, false)
  | some (.brTrue l _) => some (l, false)
  | some (.write l) => some (l, true)
  | _ => none

/-- data race on a flag of future `f`: its body thread and client `t` (working on `f`) are both
    about to access the same flag, one of them writing -/
def fraceBodyVs (code : OpName → Program) (s : FState) (f t : Nat) : Bool :=
  match (s.futs f).body, (s.threads t).cur with
  | some b, some c =>
    c.fut == f && match b.nextAccess code, c.nextAccess code with
    | some (l, w), some (k, x) => decide (l = k) && (w || x)
    | _, _ => false
  | _, _ => false

/-- the responses thread `t` has got after the schedule -/
def outAfter (code : OpName → Program) (sched : List Label) (s0 : FState) (t : Nat) : Option (List (OpName × Nat × Resp)) :=
  (frun code sched s0).map fun s => (s.threads t).out

end LispModel.Conc.Fut

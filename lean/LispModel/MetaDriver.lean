/-
  Driver of the engine `meta` (harness/eng_meta.go).  Request payload (blank-separated ASCII tokens):

      payload := style stmt*
      style   := s0 | s1 | s2                 how the Go side writes a metadata annotation (`^m x`, `(with-meta x m)`,
                                              alternating); the model does not look at it
      stmt    := D<k> := arg                  (def r<k> arg)
               | D<k> <op> arg*               (def r<k> (<op> arg…))          0 ≤ k < 8
      arg     := R<k> | value
      value   := N | T | F | I<int> | S<hex> | Y<hex>
               | ( L meta value* ) | ( V meta value* ) | ( M meta (S<hex> value)* ) | ( H meta S<hex>* )
               | ( FN <id> meta ) | ( BI <name> meta )          meta := value   (N = no metadata)

  Answer: `<outcome of every stmt: ok | error | panic | bind | skip> | r0 ; r1 ; … ; r7` — the registers in the
  same value syntax (hash-maps and sets sorted by key, `( FN meta )`, `( BI meta )`), so the metadata of every
  node is part of the observation.  Core Lean only, no `partial`.
-/
import LispModel.Meta
import LispModel.Proto
namespace LispModel.Meta
open LispModel

def nRegs : Nat := 8

def pairUp : List MVal → List (String × MVal) → Option (List (String × MVal))
  | [], m => some m
  | .str k :: v :: rest, m => pairUp rest (ainsert k v m)
  | _, _ => none

def strsOf : List MVal → List String → Option (List String)
  | [], s => some s
  | .str k :: rest, s => strsOf rest (sinsert k s)
  | _, _ => none

mutual
def pVal : Nat → List String → Option (MVal × List String)
  | 0, _ => none
  | f + 1, toks =>
    match toks with
    | [] => none
    | "N" :: r => some (.nil, r)
    | "T" :: r => some (.bool true, r)
    | "F" :: r => some (.bool false, r)
    | "(" :: "L" :: r => do
      let (m, r) ← pVal f r
      let (xs, r) ← pItems f r
      some (.list xs m, r)
    | "(" :: "V" :: r => do
      let (m, r) ← pVal f r
      let (xs, r) ← pItems f r
      some (.vec xs m, r)
    | "(" :: "M" :: r => do
      let (m, r) ← pVal f r
      let (xs, r) ← pItems f r
      let kvs ← pairUp xs []
      some (.map kvs m, r)
    | "(" :: "H" :: r => do
      let (m, r) ← pVal f r
      let (xs, r) ← pItems f r
      let ks ← strsOf xs []
      some (.set ks m, r)
    | "(" :: "FN" :: id :: r => do
      let n ← id.toNat?
      let (m, r) ← pVal f r
      match r with
      | ")" :: r => some (.fn n m, r)
      | _ => none
    | "(" :: "BI" :: name :: r => do
      let (m, r) ← pVal f r
      match r with
      | ")" :: r => some (.builtin name m, r)
      | _ => none
    | t :: r =>
      match t.toList with
      | 'I' :: ds => (String.ofList ds).toInt?.map fun i => (.int i, r)
      | 'S' :: hs => (Proto.hexDecode (String.ofList hs)).map fun s => (.str s, r)
      | 'Y' :: hs => (Proto.hexDecode (String.ofList hs)).map fun s => (.sym s, r)
      | _ => none
def pItems : Nat → List String → Option (List MVal × List String)
  | 0, _ => none
  | f + 1, toks =>
    match toks with
    | ")" :: r => some ([], r)
    | _ => do
      let (v, r) ← pVal f toks
      let (vs, r) ← pItems f r
      some (v :: vs, r)
end

def joinSp (l : List String) : String := String.join (l.map (" " ++ ·))

mutual
def mrender : MVal → String
  | .nil => "N"
  | .bool true => "T"
  | .bool false => "F"
  | .int i => "I" ++ toString i
  | .str s => "S" ++ Proto.hexEncode s
  | .sym s => "Y" ++ Proto.hexEncode s
  | .list xs m => "( L " ++ mrender m ++ joinSp (mrenderList xs) ++ " )"
  | .vec xs m => "( V " ++ mrender m ++ joinSp (mrenderList xs) ++ " )"
  | .map kvs m =>
    "( M " ++ mrender m ++ joinSp ((Proto.sortKV (mrenderMap kvs)).map fun (k, v) => "S" ++ Proto.hexEncode k ++ " " ++ v) ++ " )"
  | .set ks m => "( H " ++ mrender m ++ joinSp ((Proto.sortStrs ks).map fun k => "S" ++ Proto.hexEncode k) ++ " )"
  | .fn _ m => "( FN " ++ mrender m ++ " )"
  | .builtin _ m => "( BI " ++ mrender m ++ " )"
def mrenderList : List MVal → List String
  | [] => []
  | x :: xs => mrender x :: mrenderList xs
def mrenderMap : List (String × MVal) → List (String × String)
  | [] => []
  | (k, v) :: r => (k, mrender v) :: mrenderMap r
end

def regIx (pfx : Char) (t : String) : Option Nat :=
  match t.toList with
  | c :: ds => if c = pfx ∧ !ds.isEmpty then (String.ofList ds).toNat?.bind fun n => if n < nRegs then some n else none else none
  | [] => none

def isStmtHead (t : String) : Bool :=
  match t.toList with
  | 'D' :: _ => true
  | _ => false

/-- the arguments of one statement: up to the next `D<k>` token -/
def pArgs : Nat → List String → Option (List MArg × List String)
  | 0, _ => none
  | f + 1, toks =>
    match toks with
    | [] => some ([], [])
    | t :: r =>
      if isStmtHead t then some ([], toks)
      else
        match t.toList with
        | 'R' :: _ => do
          let i ← regIx 'R' t
          let (as, r) ← pArgs f r
          some (.reg i :: as, r)
        | _ => do
          let (v, r) ← pVal (toks.length + 1) toks
          let (as, r) ← pArgs f r
          some (.const v :: as, r)

def pStmts : Nat → List String → Option (List Stmt)
  | 0, _ => none
  | f + 1, toks =>
    match toks with
    | [] => some []
    | d :: ":=" :: r => do
      let k ← regIx 'D' d
      let (as, r) ← pArgs (r.length + 1) r
      match as with
      | [a] => (pStmts f r).map ({ dst := k, e := .arg a } :: ·)
      | _ => none
    | d :: op :: r => do
      let k ← regIx 'D' d
      let (as, r) ← pArgs (r.length + 1) r
      (pStmts f r).map ({ dst := k, e := .call op as } :: ·)
    | _ => none

def outcomeStr : Option Err → String
  | none => "ok"
  | some .error => "error"
  | some .panic => "panic"
  | some .bind => "bind"
  | some .skip => "skip"

def handleMeta (payload : String) : String :=
  let toks := (payload.splitOn " ").filter (· ≠ "")
  match toks with
  | style :: r =>
    if style ≠ "s0" ∧ style ≠ "s1" ∧ style ≠ "s2" then "bad-case" else
    match pStmts (r.length + 1) r with
    | none => "bad-case"
    | some prog =>
      let (regs, outs) := run (List.replicate nRegs .nil) prog
      String.intercalate " " (outs.map outcomeStr) ++ " | " ++ String.intercalate " ; " (regs.map mrender)
  | [] => "bad-case"

end LispModel.Meta

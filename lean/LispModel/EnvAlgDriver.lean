/-
  Driver of engine `envalg` (harness/eng_envalg.go): the environment object of env/env.go used sequentially
  through a register file of four `types.EnvType` handles (all nil at the start).  Driver-only code.

  request   KEYS K<hex>… ; <op> ; <op> ; …        (tokens separated by blanks, ops by the token `;`)
      NEW r | SUB r p | BIND r p <binds term> <exprs term> | SET r K<hex> <term> | GET r K<hex> | FIND r K<hex>
      REMOVE r K<hex> | UPDATE r K<hex> inc|fail|nil|wrap | SYMS r K<hex prefix>
      term = N | I<int> | S<hex> | Y<hex> | ( L term… ) | ( V term… )
  answer    <obs per op, joined by " | "> || r0=<e<id>|nil>{K<hex>=<term|-|P>,…} r1=… r2=… r3=…
      obs = e<id> | nil | ok <term> | ok | [<hex>,…] | err <lisp|plain> <class …> | PANIC
-/
import LispModel.EnvAlg
import LispModel.Proto
namespace LispModel.EnvAlg

def renderV : V → String
  | .nil => "N"
  | .int i => "I" ++ toString i
  | .str s => "S" ++ Proto.hexEncode s
  | .sym s => "Y" ++ Proto.hexEncode s
  | .list xs => "(L" ++ renderVs xs ++ ")"
  | .vec xs => "(V" ++ renderVs xs ++ ")"
where renderVs : List V → String
  | [] => ""
  | x :: r => " " ++ renderV x ++ renderVs r

def renderErr : Err → String
  | .notFound k => "err lisp notfound " ++ Proto.hexEncode k
  | .nonSeq => "err plain nonseq"
  | .notSym t => "err lisp notsym " ++ t
  | .danglingAmp => "err lisp amp"
  | .tooFew nb ne => s!"err lisp toofew {nb} {ne}"
  | .tooMany nb ne => s!"err lisp toomany {nb} {ne}"
  | .cb m => "err plain cb " ++ m

def renderObs : Obs → String
  | .env id => s!"e{id}"
  | .noEnv => "nil"
  | .val v => "ok " ++ renderV v
  | .done => "ok"
  | .names l => "[" ++ ",".intercalate (l.map Proto.hexEncode) ++ "]"
  | .err e => renderErr e
  | .panic _ => "PANIC"

/-! parsing -/

def tagged (c : Char) (t : String) : Option String :=
  match t.toList with
  | c' :: rest => if c = c' then Proto.hexDecode (String.ofList rest) else none
  | [] => none

mutual
def parseTerm : Nat → List String → Option (V × List String)
  | 0, _ => none
  | _ + 1, [] => none
  | fuel + 1, t :: rest =>
    if t = "N" then some (.nil, rest)
    else if t = "(" then
      match rest with
      | "L" :: r => (parseItems fuel r []).map fun (xs, r') => (.list xs, r')
      | "V" :: r => (parseItems fuel r []).map fun (xs, r') => (.vec xs, r')
      | _ => none
    else
      match t.toList with
      | 'I' :: ds => (String.ofList ds).toInt?.map fun i => (.int i, rest)
      | 'S' :: _ => (tagged 'S' t).map fun s => (.str s, rest)
      | 'Y' :: _ => (tagged 'Y' t).map fun s => (.sym s, rest)
      | _ => none
def parseItems : Nat → List String → List V → Option (List V × List String)
  | 0, _, _ => none
  | _ + 1, [], _ => none
  | fuel + 1, t :: rest, acc =>
    if t = ")" then some (acc, rest)
    else
      match parseTerm fuel (t :: rest) with
      | some (v, r) => parseItems fuel r (acc ++ [v])
      | none => none
end


def parseReg (t : String) : Option Nat :=
  match t.toNat? with
  | some n => if n < 4 then some n else none
  | none => none

def parseMode : String → Option CbMode
  | "inc" => some .inc
  | "fail" => some .fail
  | "nil" => some .retNil
  | "wrap" => some .wrap
  | _ => none

/-- `SETNT`, `GETNT`, `FINDNT`, `REMOVENT` call the lock-free variants: sequentially the same functions -/
def dropNT (name : String) : String :=
  if name = "SETNT" then "SET" else if name = "GETNT" then "GET" else if name = "FINDNT" then "FIND"
  else if name = "REMOVENT" then "REMOVE" else name

def parseOp (toks0 : List String) : Option Op :=
  let toks := match toks0 with
    | n :: r => dropNT n :: r
    | [] => []
  match toks with
  | ["NEW", r] => (parseReg r).map .new
  | ["SUB", r, p] => do some (.sub (← parseReg r) (← parseReg p))
  | "BIND" :: r :: p :: rest => do
    let (b, rest1) ← parseTerm (rest.length + 1) rest
    let (e, rest2) ← parseTerm (rest1.length + 1) rest1
    if rest2.isEmpty then some (.bind (← parseReg r) (← parseReg p) b e) else none
  | "SET" :: r :: k :: rest => do
    let (v, rest1) ← parseTerm (rest.length + 1) rest
    if rest1.isEmpty then some (.set (← parseReg r) (← tagged 'K' k) v) else none
  | ["GET", r, k] => do some (.get (← parseReg r) (← tagged 'K' k))
  | ["FIND", r, k] => do some (.find (← parseReg r) (← tagged 'K' k))
  | ["REMOVE", r, k] => do some (.remove (← parseReg r) (← tagged 'K' k))
  | ["UPDATE", r, k, m] => do some (.update (← parseReg r) (← tagged 'K' k) (← parseMode m))
  | ["SYMS", r, k] => do some (.syms (← parseReg r) (← tagged 'K' k))
  | _ => none

/-- split the token list at the `;` tokens -/
def splitOps : List String → List String → List (List String)
  | [], cur => [cur]
  | t :: r, cur => if t = ";" then cur :: splitOps r [] else splitOps r (cur ++ [t])

def renderFinalKey (st : Store) (id : Nat) (k : String) : String :=
  "K" ++ Proto.hexEncode k ++ "=" ++
    match get st id k with
    | .ok v => renderV v
    | .err _ => "-"
    | .panic _ => "P"

def renderFinalReg (m : Machine) (keys : List String) (r : Nat) : String :=
  match m.reg r with
  | none => s!"r{r}=nil"
  | some id => s!"r{r}=e{id}" ++ "{" ++ ",".intercalate (keys.map (renderFinalKey m.store id)) ++ "}"

def handleEnvAlg (payload : String) : String :=
  let toks := (payload.splitOn " ").filter (· ≠ "")
  match splitOps toks [] with
  | ("KEYS" :: ks) :: opToks =>
    match ks.mapM (tagged 'K'), opToks.mapM parseOp with
    | some keys, some ops =>
      let (m, obs) := run {} ops
      " | ".intercalate (obs.map renderObs) ++ " || " ++
        " ".intercalate ((List.range 4).map (renderFinalReg m keys))
    | _, _ => "bad-case"
  | _ => "bad-case"

end LispModel.EnvAlg

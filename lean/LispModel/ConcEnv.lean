/-
  Concurrency model of /repo/env/env.go (C11): scopes with a per-scope RWMutex, the micro-op programs of
  the `*Env` methods (tied to the source by Generated/EnvSync.lean, Tie/EnvSync.lean), and evaluations as
  threads issuing an adaptive sequence of env operations (the next operation is a function of the
  results obtained so far).

  Scope identities: `none` is the shared root environment, `some (t, i)` the i-th scope created by
  thread t (allocation = a fresh address; per-thread numbering makes a thread's own allocations
  independent of what other threads do).  The climb to `outer` re-enters through the locked entry
  point while the inner scope's read lock is still held (deferred unlocks run LIFO at return); since
  that call is in tail position the frame simply moves to the outer scope.
  Residual assumptions: as C09 (sequential consistency for data-race-free executions; fairness of
  sync.RWMutex).  `Env.Symbols` (REPL completion) is covered by the static lockset facts only;
  `Env.Update` (used at registration time on the root namespace) is modelled without the climb of its
  non-tail `GetNT`.
-/
import LispModel.Conc
namespace LispModel.ConcEnv
open LispModel.Conc (upd)

abbrev Sid := Option (Nat × Nat)

inductive EName | find | get | set | remove | update | symbols | newScope
  deriving DecidableEq, Repr

/-- micro-ops of env.go, as written in the source (`*NT` helpers inlined) -/
inductive EMOp
  | rlock | lock | deferRUnlock | deferUnlock | runlock | unlock   -- the receiver's `mu`
  | readHit        -- `if v, ok := e.data[k]; ok { return … }`
  | readMiss       -- `if _, ok := e.data[k]; !ok { return err }`
  | readVal        -- `v, _ := e.GetNT(k)` (Update)
  | writeData | deleteData | rangeData
  | callOuter (m : EName)   -- `else if e.outer != nil { return e.outer.<m>(…) }`
  | callback                -- Update's function argument
  | alloc | setOuter | bindLoop   -- scope creation: writes go to the scope not yet returned
  | ret
  | unknown
  deriving DecidableEq, Repr

abbrev EProgram := List EMOp
open EMOp

def prog : EName → EProgram
  | .find => [rlock, deferRUnlock, readHit, callOuter .find, ret]
  | .get => [rlock, deferRUnlock, readHit, callOuter .get, ret]
  | .set => [lock, deferUnlock, writeData, ret]
  | .remove => [lock, deferUnlock, readMiss, deleteData, ret]
  | .update => [lock, deferUnlock, readVal, callback, writeData, ret]
  | .symbols => [rlock, deferRUnlock, rangeData, callOuter .symbols, ret]
  | .newScope => [alloc, setOuter, bindLoop, ret]

/-- static lock discipline facts (regenerated: Generated/EnvSync.lean) -/
inductive EHeld | w | r deriving DecidableEq, Repr

structure EAccess where
  fn : String
  isWrite : Bool
  held : List EHeld
  fresh : Bool          -- the receiver is the scope created in this very function, not yet returned
  deriving DecidableEq, Repr

def EAccess.guarded (a : EAccess) : Bool :=
  a.fresh || a.held.contains .w || (!a.isWrite && a.held.contains .r)

inductive ERes | none | val (v : Nat) | scope (s : Sid) deriving DecidableEq, Repr

inductive EOp
  | get (sc : Sid) (k : Nat) | find (sc : Sid) (k : Nat) | set (sc : Sid) (k v : Nat)
  | remove (sc : Sid) (k : Nat) | update (sc : Sid) (k : Nat) (g : Option Nat → Nat)
  | newScope (outer : Sid) (binds : List (Nat × Nat))

end LispModel.ConcEnv

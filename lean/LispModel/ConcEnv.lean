/-
  Concurrency model of /repo/env/env.go (C11): scopes with a per-scope RWMutex, the micro-op programs of
  the `*Env` methods (tied to the source by Generated/EnvSync.lean, Tie/EnvSync.lean), and evaluations as
  threads issuing an adaptive sequence of env operations (the next operation is a function of the
  results obtained so far).

  Scope identities: `none` is the shared root environment, `some (t, i)` the i-th scope created by
  thread t (allocation = a fresh address; per-thread numbering makes a thread's own allocations
  independent of what other threads do).  The climb to `outer` re-enters through the locked entry
  point while the inner scope's read lock is still held (deferred unlocks run LIFO at return); since
  that call is in tail position the frame simply moves to the outer scope.
  Residual assumptions: as C09 (sequential consistency for data-race-free executions; fairness of
  sync.RWMutex).  `Env.Symbols` (REPL completion) is covered by the static lockset facts only;
  `Env.Update` (used at registration time on the root namespace) is modelled without the climb of its
  non-tail `GetNT`.
-/
import LispModel.Conc
namespace LispModel.ConcEnv
open LispModel.Conc (upd)

abbrev Sid := Option (Nat × Nat)

inductive EName | find | get | set | remove | update | symbols | newScope
  deriving DecidableEq, Repr

/-- micro-ops of env.go, as written in the source (`*NT` helpers inlined) -/
inductive EMOp
  | rlock | lock | deferRUnlock | deferUnlock | runlock | unlock   -- the receiver's `mu`
  | readHit        -- `if v, ok := e.data[k]; ok { return … }`
  | readMiss       -- `if _, ok := e.data[k]; !ok { return err }`
  | readVal        -- `v, _ := e.GetNT(k)` (Update)
  | writeData | deleteData | rangeData
  | callOuter (m : EName)   -- `else if e.outer != nil { return e.outer.<m>(…) }`
  | callback                -- Update's function argument
  | alloc | setOuter | bindLoop   -- scope creation: writes go to the scope not yet returned
  | ret
  | unknown
  deriving DecidableEq, Repr

abbrev EProgram := List EMOp
open EMOp

def prog : EName → EProgram
  | .find => [rlock, deferRUnlock, readHit, callOuter .find, ret]
  | .get => [rlock, deferRUnlock, readHit, callOuter .get, ret]
  | .set => [lock, deferUnlock, writeData, ret]
  | .remove => [lock, deferUnlock, readMiss, deleteData, ret]
  | .update => [lock, deferUnlock, readVal, callback, writeData, ret]
  | .symbols => [rlock, deferRUnlock, rangeData, callOuter .symbols, ret]
  | .newScope => [alloc, setOuter, bindLoop, ret]

/-- static lock discipline facts (regenerated: Generated/EnvSync.lean) -/
inductive EHeld | w | r deriving DecidableEq, Repr

structure EAccess where
  fn : String
  isWrite : Bool
  held : List EHeld
  fresh : Bool          -- the receiver is the scope created in this very function, not yet returned
  deriving DecidableEq, Repr

def EAccess.guarded (a : EAccess) : Bool :=
  a.fresh || a.held.contains .w || (!a.isWrite && a.held.contains .r)

inductive ERes | none | val (v : Nat) | scope (s : Sid) deriving DecidableEq, Repr

inductive EOp
  | get (sc : Sid) (k : Nat) | find (sc : Sid) (k : Nat) | set (sc : Sid) (k v : Nat)
  | remove (sc : Sid) (k : Nat) | update (sc : Sid) (k : Nat) (g : Option Nat → Nat)
  | newScope (outer : Sid) (binds : List (Nat × Nat))

def EOp.name : EOp → EName
  | .get _ _ => .get | .find _ _ => .find | .set _ _ _ => .set | .remove _ _ => .remove
  | .update _ _ _ => .update | .newScope _ _ => .newScope

def EOp.scope : EOp → Sid
  | .get s _ => s | .find s _ => s | .set s _ _ => s | .remove s _ => s | .update s _ _ => s
  | .newScope s _ => s

structure ScopeS where
  live : Bool := false
  data : Nat → Option Nat := fun _ => none
  outer : Option Sid := none        -- `none`: no outer (the root)
  w : Option Nat := none
  r : List Nat := []
  rank : Nat := 0                   -- ghost: creation time (an outer scope is older)

structure EFrame where
  m : EName
  cur : Sid
  key : Nat := 0
  val : Nat := 0
  g : Option Nat → Nat := fun _ => 0
  binds : List (Nat × Nat) := []
  pc : Nat := 0
  defers : List (EMOp × Sid) := []
  returning : Bool := false
  res : ERes := .none
  got : Option Nat := none
  newId : Sid := none
  fresh : Nat → Option Nat := fun _ => none   -- data of the scope under construction

def EOp.frame : EOp → EFrame
  | .get s k => { m := .get, cur := s, key := k }
  | .find s k => { m := .find, cur := s, key := k }
  | .set s k v => { m := .set, cur := s, key := k, val := v }
  | .remove s k => { m := .remove, cur := s, key := k }
  | .update s k g => { m := .update, cur := s, key := k, g := g }
  | .newScope s b => { m := .newScope, cur := s, binds := b }

structure EThread where
  strat : List ERes → Option EOp := fun _ => none
  results : List ERes := []
  cur : Option EFrame := none
  nextLocal : Nat := 0

structure EState where
  scopes : Sid → ScopeS
  threads : Nat → EThread
  clock : Nat := 1
  writes : List (Sid × Nat × Nat) := []   -- ghost: every (scope, key, value) ever stored

def applyBinds (bs : List (Nat × Nat)) (d : Nat → Option Nat) : Nat → Option Nat :=
  bs.foldl (fun d kv => fun k => if k = kv.1 then some kv.2 else d k) d

/-- one micro-op of thread `t` on its frame and the scope the frame is at; `none` = blocked -/
def exec (t : Nat) (m : EMOp) (fr : EFrame) (A : ScopeS) : Option (EFrame × ScopeS) :=
  let nx := { fr with pc := fr.pc + 1 }
  match m with
  | .rlock => if A.w.isNone then some (nx, { A with r := t :: A.r }) else none
  | .lock => if A.w.isNone && A.r.isEmpty then some (nx, { A with w := some t }) else none
  | .deferRUnlock => some ({ nx with defers := (.runlock, fr.cur) :: fr.defers }, A)
  | .deferUnlock => some ({ nx with defers := (.unlock, fr.cur) :: fr.defers }, A)
  | .readHit =>
    match A.data fr.key with
    | some v => some ({ fr with returning := true,
                                res := if fr.m = .find then .scope fr.cur else .val v }, A)
    | none => some (nx, A)
  | .readMiss =>
    match A.data fr.key with
    | some _ => some (nx, A)
    | none => some ({ fr with returning := true }, A)
  | .readVal => some ({ nx with got := A.data fr.key }, A)
  | .callback => some ({ nx with val := fr.g fr.got }, A)
  | .writeData =>
    some ({ nx with res := .val fr.val }, { A with data := fun k => if k = fr.key then some fr.val else A.data k })
  | .deleteData => some (nx, { A with data := fun k => if k = fr.key then none else A.data k })
  | .callOuter _ =>
    match A.outer with
    | some p => some ({ fr with cur := p, pc := 0 }, A)
    | none => some (nx, A)
  | .setOuter => some (nx, A)
  | .bindLoop => some ({ nx with fresh := applyBinds fr.binds fr.fresh }, A)
  | .ret => some ({ fr with returning := true }, A)
  | _ => none

def updS {α : Type} (f : Sid → α) (i : Sid) (x : α) : Sid → α := fun j => if j = i then x else f j

/-- effect of a deferred (r)unlock of thread `t` on the scope it was registered for -/
def execDefer (t : Nat) (d : EMOp) (A : ScopeS) : ScopeS :=
  match d with
  | .runlock => { A with r := A.r.erase t }
  | .unlock => { A with w := none }
  | _ => A

/-- one step of thread `t`; `none` = no enabled step -/
def step (s : EState) (t : Nat) : Option EState :=
  let th := s.threads t
  match th.cur with
  | none =>
    match th.strat th.results with
    | none => none
    | some op =>
      if (s.scopes op.scope).live then
        some { s with threads := upd s.threads t { th with cur := some op.frame } }
      else none
  | some fr =>
    if fr.returning then
      match fr.defers with
      | (d, sc) :: ds =>
        some { s with scopes := updS s.scopes sc (execDefer t d (s.scopes sc)),
                      threads := upd s.threads t { th with cur := some { fr with defers := ds } } }
      | [] =>
        let th' := { th with cur := none, results := th.results ++ [fr.res] }
        if fr.m = .newScope then
          let A : ScopeS := { s.scopes fr.newId with live := true, data := fr.fresh, outer := some fr.cur, rank := s.clock }
          some { s with scopes := updS s.scopes fr.newId A, threads := upd s.threads t th', clock := s.clock + 1,
                        writes := s.writes ++ fr.binds.map fun kv => (fr.newId, kv.1, kv.2) }
        else some { s with threads := upd s.threads t th' }
    else
      match (prog fr.m)[fr.pc]? with
      | none => none
      | some .alloc =>
        let fr' : EFrame := { fr with pc := fr.pc + 1, newId := some (t, th.nextLocal), res := .scope (some (t, th.nextLocal)) }
        some { s with threads := upd s.threads t { th with nextLocal := th.nextLocal + 1, cur := some fr' } }
      | some m =>
        (exec t m fr (s.scopes fr.cur)).map fun (fr', A') =>
          { s with scopes := updS s.scopes fr.cur A',
                   threads := upd s.threads t { th with cur := some fr' },
                   writes := if m = .writeData then s.writes ++ [(fr.cur, fr.key, fr.val)] else s.writes }

def run : List Nat → EState → Option EState
  | [], s => some s
  | t :: ts, s => (step s t).bind (run ts)

/-- initial state: only the root scope exists (holding `vals`), thread `t` follows `strats[t]` -/
def init (strats : List (List ERes → Option EOp)) (vals : Nat → Option Nat) : EState :=
  { scopes := fun sc => if sc = none then { live := true, data := vals } else {},
    threads := fun t => { strat := strats.getD t (fun _ => none) } }

def Reachable (strats : List (List ERes → Option EOp)) (vals : Nat → Option Nat) (s : EState) : Prop :=
  ∃ sched, run sched (init strats vals) = some s

/-! ### the interpreter's package-level variables (mal.go: `Stepper`, `skip`, `outing1`, `outing2`) -/

structure Globals where
  stepper : Bool := false      -- a Stepper callback is installed
  skip : Bool := false
  outing1 : Bool := false
  outing2 : Bool := false
  deriving DecidableEq, Repr

/-- guards whose truth needs a Stepper: `Stepper != nil` itself, and the two flags only ever set under it -/
def isStepperGuard (g : String) : Bool := g == "Stepper != nil" || g == "outing1" || g == "outing2"

/-- value of an `if` condition; conditions the model does not interpret are left to an oracle -/
def guardHolds (G : Globals) (oracle : String → Bool) (g : String) : Bool :=
  if g = "Stepper != nil" then G.stepper else if g = "outing1" then G.outing1
  else if g = "outing2" then G.outing2 else oracle g

def assignGlobal (G : Globals) (v : String) (b : Bool) : Globals :=
  if v = "skip" then { G with skip := b } else if v = "outing1" then { G with outing1 := b }
  else if v = "outing2" then { G with outing2 := b } else if v = "Stepper" then { G with stepper := b } else G

/-- an assignment site (variable, enclosing conditions) is reached with value `b` -/
def fire (G : Globals) (site : String × List String) (b : Bool) (oracle : String → Bool) : Globals :=
  if site.2.all (guardHolds G oracle) then assignGlobal G site.1 b else G

end LispModel.ConcEnv

/-
  `lisp.AddPreamble` and `lisp.READWithPreamble` (mal.go) as written: line splitting with
  `strings.Cut`, `strings.Trim(line, " \t\r\n")`, the prefix test, the regular expression
  `^(;; \$[\-\d\w]+)+\s(.+)` as the equivalent hand-written matcher, the per-line `Read_str` whose
  *error is discarded* (a panic is not), stop at the first blank or non-preamble line.
  Core Lean only.
-/
import LispModel.Read
import LispModel.Print
namespace LispModel.Preamble
open LispModel LispModel.Read

def isTrimByte (b : UInt8) : Bool := b = 32 || b = 9 || b = 13 || b = 10

def trim (l : List UInt8) : List UInt8 :=
  ((l.dropWhile isTrimByte).reverse.dropWhile isTrimByte).reverse

/-- `strings.Cut(s, "\n")` -/
def cutLine : List UInt8 → List UInt8 × List UInt8
  | [] => ([], [])
  | b :: r => if b = 10 then ([], r) else let (l, rest) := cutLine r; (b :: l, rest)

/-- `[\-\d\w]` -/
def isNameByte (b : UInt8) : Bool :=
  b = 45 || b = 95 || (48 ≤ b && b ≤ 57) || (65 ≤ b && b ≤ 90) || (97 ≤ b && b ≤ 122)

/-- `\s` of Go's regexp: `[\t\n\f\r ]` -/
def isReSpace (b : UInt8) : Bool := b = 9 || b = 10 || b = 12 || b = 13 || b = 32

def prefixBytes : List UInt8 := [59, 59, 32, 36]   -- ";; $"

/-- `(;; \$[\-\d\w]+)+` greedy: returns the name of the *last* repetition and the unread bytes -/
def matchGroups : Nat → List UInt8 → Option (List UInt8 × List UInt8)
  | 0, _ => none
  | fuel + 1, l =>
    if prefixBytes.isPrefixOf l then
      let r := l.drop 4
      let name := r.takeWhile isNameByte
      let rest := r.dropWhile isNameByte
      if name.isEmpty then none
      else match matchGroups fuel rest with
        | some res => some res
        | none => some (name, rest)
    else none

/-- the whole regexp on a trimmed line: `(key without the leading "$", value bytes)`.
    `.` does not match a newline, but a trimmed single line contains none. -/
def matchLine (line : List UInt8) : Option (List UInt8 × List UInt8) :=
  match matchGroups (line.length + 1) line with
  | none => none
  | some (name, rest) =>
    match rest with
    | s :: v :: vs => if isReSpace s then some (name, v :: vs) else none
    | _ => none

inductive PRes where
  | ok (v : Val)
  | err (e : RErr)
  | badPreamble          -- "invalid preamble format"
deriving Inhabited

def bytesToString (l : List UInt8) : String := strOf ((Scan.decodeAll l).map (·.ch))

/-- `READWithPreamble(str, cursor, ns)`; fuel = number of lines + 1 -/
def readWithPreambleAux (cfg : Cfg) : Nat → List UInt8 → List (String × Val) → PRes
  | 0, _, _ => .err (.panic "fuel")
  | fuel + 1, str, phs =>
    let (line0, rest) := cutLine str
    let line := trim line0
    if line.isEmpty then
      match readStr { cfg with phs := some phs } rest with
      | .ok v => .ok v
      | .error e => .err e
    else if !prefixBytes.isPrefixOf line then
      match readStr { cfg with phs := some phs } (line ++ [10] ++ rest) with
      | .ok v => .ok v
      | .error e => .err e
    else
      match matchLine line with
      | none => .badPreamble
      | some (name, value) =>
        -- `item, _ := reader.Read_str(placeholderValue, &Position{…}, nil, ns)`
        match readStr { cfg with phs := none, module := none } value with
        | .error (.panic site) => .err (.panic site)
        | .error _ => readWithPreambleAux cfg fuel rest (ainsert ("$" ++ bytesToString name) .nil phs)
        | .ok item => readWithPreambleAux cfg fuel rest (ainsert ("$" ++ bytesToString name) item phs)

def readWithPreamble (cfg : Cfg) (str : List UInt8) : PRes :=
  readWithPreambleAux cfg (str.length + 2) str []

/-- `AddPreamble(str, placeholderMap)` for a given iteration order of the Go map -/
def addPreamble (src : List UInt8) (phs : List (String × Val)) : List UInt8 :=
  let line (kv : String × Val) : List UInt8 :=
    (";; " ++ kv.1 ++ " " ++ String.ofList (Print.print kv.2) ++ "\n").toUTF8.toList
  (phs.map line).flatten ++ [10] ++ src

end LispModel.Preamble

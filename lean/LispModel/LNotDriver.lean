/-
  Driver of the `lnot` engine (harness/eng_lnot.go).  Core Lean only.

  request  : <mode> <term>      mode = d (data) | p (program: both deliveries are also EVALuated)
  term     : N | T | F | I<int> | S<hex> | Y<hex>
           | ( L t* ) | ( LS Y<hex> t* ) | ( V t* ) | ( HM (S<hex> t)* ) | ( RM (S<hex> t)* ) | ( SET S<hex>* )
             (`RM` = a bare Go `map[string]interface{}`; strings hex-encoded UTF-8; a keyword is the
              string starting with U+029E)
  answer   : b=<built value> x=<hex of the written text> r=<ok value | err class> same=T|F al=T|F ev=<a> | <b>
             [\t <the same line as C19 demands it> — only when the term is well-formed]
  `al` = does the built value share the caller's argument slice (only `L` does); `ev` = `-` in mode d.
-/
import LispModel.LNot
import LispModel.Proto
import LispModel.Eval
namespace LispModel.LNot
open LispModel

mutual
/-- one term from the token list -/
def parseTerm : Nat → List String → Option (LTerm × List String)
  | 0, _ => none
  | _ + 1, [] => none
  | _ + 1, "N" :: r => some (.nil, r)
  | _ + 1, "T" :: r => some (.bool true, r)
  | _ + 1, "F" :: r => some (.bool false, r)
  | fuel + 1, "(" :: tag :: r =>
    match parseItems fuel r [] with
    | none => none
    | some (items, rest) =>
      let entries : List LTerm → Option (List (String × LTerm)) := fun l =>
        let rec go : Nat → List LTerm → List (String × LTerm) → Option (List (String × LTerm))
          | _, [], acc => some acc.reverse
          | n + 1, .str k :: v :: rest, acc => go n rest ((k, v) :: acc)
          | _, _, _ => none
        go l.length l []
      if tag = "L" then some (.L items, rest)
      else if tag = "V" then some (.V items, rest)
      else if tag = "LS" then
        (match items with
         | .S n :: args => some (.LS n args, rest)
         | _ => none)
      else if tag = "HM" then (entries items).map fun es => (.HM es, rest)
      else if tag = "RM" then (entries items).map fun es => (.rawMap es, rest)
      else if tag = "SET" then
        let ks := items.filterMap fun | .str k => some k | _ => none
        if ks.length = items.length then some (.SET ks, rest) else none
      else none
  | _ + 1, t :: r =>
    match t.toList with
    | 'I' :: ds => ((String.ofList ds).toInt?).map fun i => (.int i, r)
    | 'S' :: hs => (Proto.hexDecode (String.ofList hs)).map fun s => (.str s, r)
    | 'Y' :: hs => (Proto.hexDecode (String.ofList hs)).map fun s => (.S s, r)
    | _ => none
/-- terms up to the closing `)` -/
def parseItems : Nat → List String → List LTerm → Option (List LTerm × List String)
  | 0, _, _ => none
  | _ + 1, [], _ => none
  | _ + 1, ")" :: r, acc => some (acc.reverse, r)
  | fuel + 1, toks, acc =>
    match parseTerm fuel toks with
    | none => none
    | some (t, rest) => parseItems fuel rest (t :: acc)
end

/-- the harness prints `%T` with blanks replaced -/
def canonTag (s : String) : String := String.ofList (s.toList.map fun c => if c = ' ' then '_' else c)

mutual
def canonTags : Val → Val
  | .opaque t => .opaque (canonTag t)
  | .list xs p => .list (canonTagsL xs) p
  | .vec xs p => .vec (canonTagsL xs) p
  | .map kvs => .map (canonTagsM kvs)
  | v => v
def canonTagsL : List Val → List Val
  | [] => []
  | x :: r => canonTags x :: canonTagsL r
def canonTagsM : List (String × Val) → List (String × Val)
  | [] => []
  | (k, v) :: r => (k, canonTags v) :: canonTagsM r
end

def renderV (v : Val) : String := Proto.renderPlain (canonTags v)

def errClass : Read.RErr → String
  | .eof c => "eof:" ++ c
  | .unexpected c => "unexpected:" ++ c
  | .trailing => "trailing"
  | .empty => "empty"
  | .underflow => "underflow"
  | .badtoken => "badtoken"
  | .badint => "badint"
  | .oddmap => "oddmap"
  | .badkey => "badkey"
  | .badsetitem => "badsetitem"
  | .rawEof => "eof:¬"
  | .floaterr => "floaterr"
  | .extern _ => "extern"
  | .panic site => "PANIC " ++ site

def evalFuel : Nat := 200000

/-- `lisp.EVAL(ctx, ast, env)` in a fresh environment with the core library; the result by class -/
def evalObs (ast : Val) : String :=
  match (eval evalFuel initState 0 ast 1).1 with
  | .ok v => "ok " ++ renderV v
  | .err _ => "err"
  | .oof => "OOF"

def tf (b : Bool) : String := if b then "T" else "F"

def handleLNot (payload : String) : String :=
  match (payload.splitOn " ").filter (· ≠ "") with
  | mode :: toks =>
    if mode ≠ "d" ∧ mode ≠ "p" then "bad-op" else
    match parseTerm (toks.length + 1) toks with
    | some (t, []) =>
      let b := build t
      let bs := renderV b
      let head := "b=" ++ bs ++ " x=" ++ Proto.hexEncode (String.ofList (toText t))
      let al := " al=" ++ tf (sharesArgs t)
      let r := readText {} t
      let evB := if mode = "p" then evalObs b else "-"
      let (rs, same, evR) := match r with
        | .ok v => ("ok " ++ renderV v, renderV v == bs, if mode = "p" then evalObs v else "-")
        | .error e => ("err " ++ errClass e, false, "-")
      let ev (a b : String) : String := if mode = "p" then " ev=" ++ a ++ " | " ++ b else " ev=-"
      let model := head ++ " r=" ++ rs ++ " same=" ++ tf same ++ al ++ ev evB evR
      -- the C19 demand, for well-formed terms only (no spec column otherwise)
      if wf t then model ++ "\t" ++ head ++ " r=ok " ++ bs ++ " same=T" ++ al ++ ev evB evB else model
    | _ => "bad-op"
  | [] => "bad-op"

end LispModel.LNot

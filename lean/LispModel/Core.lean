/-
  The pure builtins of lib/core/core.go on immutable values, shaped like the Go code (same case
  splits, same checks, the reflective binder's count/type checks in front of them).
  A builtin returns a value, throws a lisp value (`throw`), or fails with a Go error (returned,
  or a recovered run-time panic / binder panic — all surface as a `LispError` wrapping a Go error).
  Builtins that need the evaluator (apply, map, swap!, update, update-in, eval, deref …) are in Eval.lean.
  Core Lean only.
-/
import LispModel.Val
import LispModel.Equal
import LispModel.Print
namespace LispModel.Core
open LispModel

inductive BRes where
  | ok (v : Val)
  | thrown (v : Val)          -- `throw` of a lisp value
  | goerr (msg : String)      -- a Go error (message kept, compared by class only)
deriving Inhabited

/-- parameter kinds the binder checks by `reflect.Value.Call` assignability -/
inductive PK where
  | any | int | str | vec | map | sym
deriving DecidableEq

def fits : PK → Val → Bool
  | .any, _ => true
  | .int, .int _ => true
  | .str, .str _ => true
  | .vec, .vec _ _ => true
  | .map, .map _ => true
  | .sym, .sym _ _ => true
  | _, _ => false

/-- signature shapes: fixed parameter kinds; or variadic with (min, max) bounds in lisp arguments -/
inductive Sig where
  | fixed (ps : List PK)
  | variadic (min : Nat) (max : Option Nat)

def checkSig (s : Sig) (args : List Val) : Option String :=
  match s with
  | .fixed ps =>
    if args.length ≠ ps.length then some "wrong number of arguments"
    else if (ps.zip args).all (fun (p, a) => fits p a) then none
    else some "reflect: Call using"
  | .variadic mn mx =>
    if args.length < mn then some "wrong number of arguments"
    else match mx with
      | some m => if args.length > m then some "wrong number of arguments" else none
      | none => if args.length > 1000 then some "wrong number of arguments" else none

def seqOf? : Val → Option (List Val)
  | .list xs _ => some xs
  | .vec xs _ => some xs
  | _ => none

def isStr : Val → Bool
  | .str _ => true
  | _ => false

def truthy : Val → Bool
  | .nil => false
  | .bool false => false
  | _ => true

/-- `NewHashMap(List{a})` -/
def newHashMapLoop : List Val → List (String × Val) → BRes
  | [], m => .ok (.map m)
  | .str k :: v :: r, m => newHashMapLoop r (ainsert k v m)
  | _ :: _ :: _, _ => .goerr "expected hash-map key string"
  | [_], _ => .goerr "odd number of arguments to NewHashMap"

def newHashMap (xs : List Val) : BRes :=
  if xs.length % 2 = 1 then .goerr "odd number of arguments to NewHashMap" else newHashMapLoop xs []

def newSet : List Val → List String → BRes
  | [], s => .ok (.set s)
  | .str k :: r, s => newSet r (sinsert k s)
  | _ :: _, _ => .goerr "set items must be strings or keywords"

def assocMap : List Val → List (String × Val) → BRes
  | [], m => .ok (.map m)
  | .str k :: v :: r, m => assocMap r (ainsert k v m)
  | _ :: _ :: _, _ => .goerr "assoc called with non-string key"
  | [_], _ => .goerr "index out of range"        -- `a[i+1]` past the end: recovered run-time panic

def assocVec : List Val → List Val → BRes
  | [], xs => .ok (.vec xs none)
  | .int i :: v :: r, xs =>
    if 0 ≤ i ∧ i.toNat < xs.length then assocVec r (xs.set i.toNat v) else .goerr "index out of range"
  | _ :: _ :: _, _ => .goerr "assoc called with non-int key"
  | [_], _ => .goerr "index out of range"

def addKeys (what : String) : List Val → List String → BRes
  | [], s => .ok (.set s)
  | .str k :: r, s => addKeys what r (sinsert k s)
  | _ :: _, _ => .goerr (what ++ " called with non-string key")

/-- `assoc(a ...MalType)` -/
def assoc (a : List Val) : BRes :=
  match a with
  | [] => .goerr "index out of range"
  | .map m :: r =>
    if a.length < 3 then .goerr "assoc requires at least 3 arguments"
    else if a.length % 2 ≠ 1 then .goerr "assoc requires odd number of arguments"
    else assocMap r m
  | .vec xs _ :: r =>
    if a.length < 3 then .goerr "assoc requires at least 3 arguments" else assocVec r xs
  | .set s :: r =>
    if a.length < 2 then .goerr "assoc requires at least 2 arguments" else addKeys "assoc" r s
  | _ :: _ => .goerr "assoc called on non-hash map and non-set"

def dissoc (a : List Val) : BRes :=
  if a.length < 2 then .goerr "dissoc requires at least 3 arguments" else
  match a with
  | .map m :: r =>
    if r.all isStr then .ok (.map (r.foldl (fun m k => match k with | .str k => aerase k m | _ => m) m))
    else .goerr "dissoc called with non-string key"
  | .set s :: r =>
    if r.all isStr then .ok (.set (r.foldl (fun s k => match k with | .str k => s.erase k | _ => s) s))
    else .goerr "dissoc called with non-string key"
  | _ => .goerr "assoc called on non-hash map and non-set"

/-- `get(hm, key)` -/
def get (hm key : Val) : BRes :=
  match hm with
  | .nil => .ok .nil
  | _ =>
    match key with
    | .str k =>
      (match hm with
       | .map m => .ok ((alookup k m).getD .nil)
       | .vec _ _ => .goerr "interface conversion"      -- `key.(int)` panics, recovered
       | .list _ _ => .goerr "interface conversion"
       | .set s => if s.contains k then .ok (.str k) else .ok .nil
       | _ => .goerr "get called on non-hash map and a non-set")
    | .int i =>
      (match hm with
       | .map _ => .goerr "interface conversion"
       | .vec xs _ => if 0 ≤ i ∧ i.toNat < xs.length then .ok (xs.getD i.toNat .nil) else .goerr "index out of range"
       | .list xs _ => if 0 ≤ i ∧ i.toNat < xs.length then .ok (xs.getD i.toNat .nil) else .goerr "index out of range"
       | .set _ => .goerr "interface conversion"
       | _ => .goerr "get called on non-hash map and a non-set")
    | _ => .goerr "get called with non-string key nor a non-int key"

/-- `_getIn` -/
def getIn : Val → List Val → BRes
  | v, [] => .ok v
  | v, [i] => get v i
  | v, i :: rest =>
    let branch : Option Val :=
      match v, i with
      | .map m, .str k => some (match (alookup k m).getD .nil with | .nil => .map [] | b => b)
      | .list xs _, .int n => if 0 ≤ n ∧ n.toNat < xs.length then some (match xs.getD n.toNat .nil with | .nil => .list [] none | b => b) else none
      | .vec xs _, .int n => if 0 ≤ n ∧ n.toNat < xs.length then some (match xs.getD n.toNat .nil with | .nil => .vec [] none | b => b) else none
      | .map _, _ => none
      | .list _ _, _ => none
      | .vec _ _, _ => none
      | _, _ => some .nil        -- no case matches: `branch` stays nil
    match branch with
    | none => .goerr "interface conversion or index out of range"
    | some b => getIn b rest

/-- `_assocIn` -/
def assocIn : Val → List Val → Val → BRes
  | v, [], _ => .ok v
  | v, [i], nv => assoc [v, i, nv]
  | v, i :: rest, nv =>
    let branch : Option Val :=
      match v, i with
      | .map m, .str k => some (match (alookup k m).getD .nil with | .nil => .map [] | b => b)
      | .vec xs _, .int n => if 0 ≤ n ∧ n.toNat < xs.length then some (match xs.getD n.toNat .nil with | .nil => .vec [] none | b => b) else none
      | .map _, _ => none
      | .vec _ _, _ => none
      | _, _ => some .nil
    match branch with
    | none => .goerr "interface conversion or index out of range"
    | some b =>
      match assocIn b rest nv with
      | .ok inner => assoc [v, i, inner]
      | r => r

def rangeList : Nat → Int → List Val
  | 0, _ => []
  | n + 1, from_ => .int from_ :: rangeList n (from_ + 1)

def conjMap : List Val → List (String × Val) → BRes
  | [], m => .ok (.map m)
  | .str k :: v :: r, m => conjMap r (ainsert k v m)
  | _ :: _ :: _, _ => .goerr "conj called with non-string key"
  | [_], _ => .goerr "index out of range"

def renameKeys (data alt : List (String × Val)) : BRes :=
  -- `output[newKey.(string)] = v` / `output[k] = v`, iterating `data`
  let step (acc : Option (List (String × Val))) (kv : String × Val) : Option (List (String × Val)) :=
    acc.bind fun out =>
      match alookup kv.1 alt with
      | some (.str nk) => some (ainsert nk kv.2 out)
      | some _ => none
      | none => some (ainsert kv.1 kv.2 out)
  match data.foldl step (some []) with
  | some out => .ok (.map out)
  | none => .goerr "interface conversion"

def typeName : Val → String
  | .nil => "nil" | .list _ _ => "list" | .map _ => "hash-map" | .vec _ _ => "vector" | .set _ => "set"
  | .int _ => "integer" | .bool _ => "boolean" | .sym _ _ => "symbol"
  | .str s => if Val.isKwStr s then "keyword" else "string"
  | .fn .. => "function" | .atom _ => "atom" | .future _ => "future-call" | .goerr _ => "go-error"
  | .builtin _ => "go-function" | .opaque t => "unsupported(" ++ t ++ ")"

def bool (b : Bool) : BRes := .ok (.bool b)

def prList (readably : Bool) (sep : List Char) (a : List Val) : Val :=
  .str (String.ofList (Print.intercalate sep (a.map (Print.prStr readably))))

/-- signatures of the pure builtins (name ↦ what `call.Call`/`CallOverrideFN` derives or is told) -/
def sigOf (name : String) : Option Sig :=
  let two := Sig.fixed [.any, .any]
  let one := Sig.fixed [.any]
  let ii := Sig.fixed [.int, .int]
  let var := Sig.variadic 0 none
  match name with
  | "<" | "<=" | ">" | ">=" | "+" | "-" | "*" | "/" | "range" => some ii
  | "=" | "get" | "get-in" | "cons" | "merge" => some two
  | "contains?" => some (.fixed [.any, .str])
  | "nth" => some (.fixed [.any, .int])
  | "take" | "take-last" | "drop" | "drop-last" => some (.fixed [.int, .any])
  | "rename-keys" => some (.fixed [.map, .map])
  | "assoc-in" => some (.fixed [.any, .vec, .any])
  | "symbol" | "keyword" => some (.fixed [.str])
  | "throw" | "set" | "keys" | "vals" | "vec" | "first" | "rest" | "count" | "seq" | "type?"
  | "nil?" | "true?" | "false?" | "empty?" | "symbol?" | "keyword?" | "string?" | "number?" | "fn?" | "macro?"
  | "list?" | "vector?" | "map?" | "set?" | "sequential?" | "atom?" => some one
  | "list" | "vector" | "hash-map" | "hash-set" | "assoc" | "dissoc" | "concat" | "str" | "pr-str" => some var
  | "conj" => some (.variadic 2 none)
  | "subvec" => some (.variadic 2 (some 3))
  | "assert" => some (.variadic 1 (some 2))
  | _ => none

/-- the body of each pure builtin, after the binder's checks -/
def body (name : String) (a : List Val) : BRes :=
  match name, a with
  | "+", [.int x, .int y] => .ok (.int (x + y))
  | "-", [.int x, .int y] => .ok (.int (x - y))
  | "*", [.int x, .int y] => .ok (.int (x * y))
  | "/", [.int x, .int y] => if y = 0 then .goerr "runtime error: integer divide by zero" else .ok (.int (Int.tdiv x y))
  | "<", [.int x, .int y] => bool (x < y)
  | "<=", [.int x, .int y] => bool (x ≤ y)
  | ">", [.int x, .int y] => bool (x > y)
  | ">=", [.int x, .int y] => bool (x ≥ y)
  | "=", [x, y] => bool (equalQ x y)
  | "throw", [v] => (match v with | .goerr m => .goerr m | v => .thrown v)
  | "list", xs => .ok (.list xs none)
  | "vector", xs => .ok (.vec xs none)
  | "hash-map", xs =>
    (match xs with
     | [] => .ok (.map [])
     | [_] => .goerr "interface conversion"
     | _ => newHashMap xs)
  | "hash-set", xs => newSet xs []
  | "set", [v] =>
    (match v with
     | .nil => .ok (.set [])
     | _ => match seqOf? v with
       | some xs => newSet xs []
       | none => .goerr "GetSlice called on non-sequence")
  | "assoc", xs => assoc xs
  | "dissoc", xs => dissoc xs
  | "get", [h, k] => get h k
  | "get-in", [h, p] =>
    (match h with
     | .nil => .ok .nil
     | _ => match p with
       | .vec path _ => getIn h path
       | _ => .goerr "get-in index must be a vector")
  | "assoc-in", [h, .vec path _, d] => assocIn h path d
  | "contains?", [h, .str k] =>
    (match h with
     | .nil => bool false
     | .map m => bool (alookup k m).isSome
     | .set s => bool (s.contains k)
     | _ => .goerr "get called on non-hash map and a non-set")
  | "keys", [h] => (match h with | .map m => .ok (.list (m.map (fun kv => .str kv.1)) none) | _ => .goerr "keys called on non-hash map")
  | "vals", [h] => (match h with | .map m => .ok (.list (m.map (·.2)) none) | _ => .goerr "vals called on non-hash map")
  | "merge", [x, y] =>
    (match x, y with
     | .nil, .nil => .ok .nil
     | .nil, .map m => .ok (.map (m.foldl (fun acc kv => ainsert kv.1 kv.2 acc) []))
     | .map m, .nil => .ok (.map (m.foldl (fun acc kv => ainsert kv.1 kv.2 acc) []))
     | .map m1, .map m2 => .ok (.map (m2.foldl (fun acc kv => ainsert kv.1 kv.2 acc) m1))
     | _, _ => .goerr "expected hash map")
  | "rename-keys", [.map d, .map alt] => renameKeys d alt
  | "cons", [x, s] => (match seqOf? s with | some xs => .ok (.list (x :: xs) none) | none => .goerr "GetSlice called on non-sequence")
  | "concat", xs =>
    (match xs with
     | [] => .ok (.list [] none)
     | _ => if xs.all (fun x => (seqOf? x).isSome) then .ok (.list (xs.flatMap (fun x => (seqOf? x).getD [])) none)
            else .goerr "GetSlice called on non-sequence")
  | "vec", [s] =>
    (match s with
     | .set ks => .ok (.vec (ks.map .str) none)
     | .list xs _ => .ok (.vec xs none)
     | .vec xs _ => .ok (.vec xs none)
     | _ => .goerr "cannot convert from type")
  | "nth", [s, .int i] =>
    (match seqOf? s with
     | none => .goerr "GetSlice called on non-sequence"
     | some xs =>
       if i < 0 then .goerr "runtime error: index out of range"
       else if i.toNat < xs.length then .ok (xs.getD i.toNat .nil) else .goerr "nth: index out of range")
  | "first", [s] =>
    (match s with
     | .nil => .ok .nil
     | _ => match seqOf? s with
       | none => .goerr "GetSlice called on non-sequence"
       | some xs => .ok (xs.headD .nil))
  | "rest", [s] =>
    (match s with
     | .nil => .ok (.list [] none)
     | _ => match seqOf? s with
       | none => .goerr "GetSlice called on non-sequence"
       | some xs => .ok (.list xs.tail none))
  | "count", [s] =>
    (match s with
     | .list xs _ => .ok (.int xs.length)
     | .vec xs _ => .ok (.int xs.length)
     | .map m => .ok (.int m.length)
     | .set ks => .ok (.int ks.length)
     | .nil => .ok (.int 0)
     | _ => .goerr "count called on non-sequence type")
  | "empty?", [s] =>
    (match s with
     | .list xs _ => bool xs.isEmpty
     | .vec xs _ => bool xs.isEmpty
     | .map m => bool m.isEmpty
     | .set ks => bool ks.isEmpty
     | .nil => bool true
     | _ => .goerr "empty? called on non-sequence")
  | "conj", s :: xs =>
    (match s with
     | .list ys _ => .ok (.list (xs.reverse ++ ys) none)
     | .vec ys _ => .ok (.vec (ys ++ xs) none)
     | .map m => if xs.length % 2 ≠ 0 then .goerr "conj called with on a hash map requires an odd number of arguments" else conjMap xs m
     | .set ks => addKeys "conj" xs ks
     | _ => .goerr "conj called on non-hash map and a non-list and a non-set and a non-vector")
  | "seq", [s] =>
    (match s with
     | .nil => .ok .nil
     | .list xs p => if xs.isEmpty then .ok .nil else .ok (.list xs p)
     | .vec xs _ => if xs.isEmpty then .ok .nil else .ok (.list xs none)
     | .set ks => .ok (.list (ks.map .str) none)
     | .str str => if str.toList.isEmpty then .ok .nil else .ok (.list (str.toList.map (fun c => .str (String.ofList [c]))) none)
     | _ => .goerr "seq requires string or list or vector or nil")
  | "take", [.int n, s] =>
    (match s with
     | .nil => .ok (.list [] none)
     | _ => match seqOf? s with
       | some xs => .ok (.list (xs.take n.toNat) none)
       | none => .goerr "take called on non-list and non-vector")
  | "take-last", [.int n, s] =>
    (match s with
     | .nil => .ok .nil
     | _ => match seqOf? s with
       | some xs =>
         let r := xs.drop (xs.length - n.toNat)
         if r.isEmpty then .ok .nil else .ok (.list r none)
       | none => .goerr "take called on non-list and non-vector")
  | "drop", [.int n, s] =>
    (match s with
     | .nil => .ok (.list [] none)
     | _ => match seqOf? s with
       | some xs => .ok (.list (xs.drop n.toNat) none)
       | none => .goerr "drop called on non-list and non-vector")
  | "drop-last", [.int n, s] =>
    (match s with
     | .nil => .ok (.list [] none)
     | _ => match seqOf? s with
       | some xs => .ok (.list (xs.take (xs.length - n.toNat)) none)
       | none => .goerr "drop called on non-list and non-vector")
  | "subvec", v :: idx =>
    (match v with
     | .vec xs _ =>
       (match idx with
        | [.int f] =>
          if 0 ≤ f ∧ f.toNat ≤ xs.length then .ok (.vec (xs.drop f.toNat) none) else .goerr "subvec index out of range"
        | [.int f, .int t] =>
          if 0 ≤ f ∧ f ≤ t ∧ t.toNat ≤ xs.length then .ok (.vec ((xs.take t.toNat).drop f.toNat) none)
          else .goerr "subvec index out of range"
        | _ => .goerr "interface conversion")
     | _ => .goerr "subvec requires a vector")
  | "range", [.int f, .int t] => .ok (.vec (rangeList (t - f).toNat f) none)
  | "symbol", [.str s] => .ok (.sym s none)
  | "keyword", [.str s] => if Val.isKwStr s then .ok (.str s) else .ok (.str (String.ofList (kwMarker :: s.toList)))
  | "str", xs => .ok (prList false [] xs)
  | "pr-str", xs => .ok (prList true [' '] xs)
  | "type?", [v] => .ok (.str (typeName v))
  | "nil?", [v] => bool (match v with | .nil => true | _ => false)
  | "true?", [v] => bool (match v with | .bool true => true | _ => false)
  | "false?", [v] => bool (match v with | .bool false => true | _ => false)
  | "symbol?", [v] => bool (match v with | .sym _ _ => true | _ => false)
  | "keyword?", [v] => bool (match v with | .str s => Val.isKwStr s | _ => false)
  | "string?", [v] => bool (match v with | .str s => !Val.isKwStr s | _ => false)
  | "number?", [v] => bool (match v with | .int _ => true | _ => false)
  | "fn?", [v] => bool (match v with | .fn _ _ _ m _ => !m | .builtin _ => true | _ => false)
  | "macro?", [v] => bool (match v with | .fn _ _ _ m _ => m | _ => false)
  | "list?", [v] => bool (match v with | .list _ _ => true | _ => false)
  | "vector?", [v] => bool (match v with | .vec _ _ => true | _ => false)
  | "map?", [v] => bool (match v with | .map _ => true | _ => false)
  | "set?", [v] => bool (match v with | .set _ => true | _ => false)
  | "atom?", [v] => bool (match v with | .atom _ => true | _ => false)
  | "sequential?", [v] => bool (seqOf? v).isSome
  | "assert", a0 :: r =>
    (match a0 with
     | .nil | .bool false =>
       (match r with
        | [] | [.nil] => .goerr (if a0 matches .nil then "assertion failed: nil" else "assertion failed: false")
        | [.str s] => .goerr s
        | [v] => .thrown v
        | _ => .goerr "one or two parameters required")
     | _ => .ok .nil)
  | _, _ => .goerr "unreachable: signature check passed but no body matches"

/-- a reflectively bound pure builtin applied to evaluated arguments -/
def call (name : String) (args : List Val) : Option BRes :=
  match sigOf name with
  | none => none
  | some s =>
    match checkSig s args with
    | some msg =>
      -- `reflect.Value.Call` panics with a *string*: `_recover` turns it into a LispError whose
      -- payload is that string; the binder's own count check panics with an error value
      if msg = "reflect: Call using" then some (.thrown (.str msg)) else some (.goerr msg)
    | none => some (body name args)

/-- the vocabulary of pure builtins (bound in the root scope at start-up) -/
def pureNames : List String :=
  ["+", "-", "*", "/", "<", "<=", ">", ">=", "=", "throw", "list", "vector", "hash-map", "hash-set", "set", "assoc", "dissoc",
   "get", "get-in", "assoc-in", "contains?", "keys", "vals", "merge", "rename-keys", "cons", "concat", "vec", "nth", "first",
   "rest", "count", "empty?", "conj", "seq", "take", "take-last", "drop", "drop-last", "subvec", "range", "symbol", "keyword",
   "str", "pr-str", "type?", "nil?", "true?", "false?", "symbol?", "keyword?", "string?", "number?", "fn?", "macro?", "list?",
   "vector?", "map?", "set?", "atom?", "sequential?", "assert"]

end LispModel.Core

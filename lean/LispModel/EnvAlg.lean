/-
  G6 — the environment object of `env/env.go` as an abstract data type, used SEQUENTIALLY
  (the concurrent side is `LispModel/ConcEnv.lean`).  Supports C01 (lexical scoping, arity errors),
  C04 (never a panic), C11 (locals of one call are invisible elsewhere).

  A store of scopes; a scope id is an index of the store; scopes are never removed.  One function per
  Go function of the exported API.  Every partial Go operation has an explicit `panic` outcome:
  a method call through a nil `*Env` (`st[id]? = none`), `exprs[i:]` / `exprs[i]` out of range in the
  binder, and a cyclic `outer` chain (which in Go would never return) — the laws prove that none of
  them is reachable on stores built through the API.
-/
namespace LispModel.EnvAlg

/-- the values that travel through the environment in this slice -/
inductive V
  | nil
  | int (i : Int)
  | str (s : String)
  | sym (s : String)
  | list (xs : List V)
  | vec (xs : List V)
  deriving Repr, Inhabited

mutual
def V.beq : V → V → Bool
  | .nil, .nil => true
  | .int a, .int b => a == b
  | .str a, .str b => a == b
  | .sym a, .sym b => a == b
  | .list a, .list b => V.beqList a b
  | .vec a, .vec b => V.beqList a b
  | _, _ => false
def V.beqList : List V → List V → Bool
  | [], [] => true
  | a :: as, b :: bs => V.beq a b && V.beqList as bs
  | _, _ => false
end

mutual
theorem V.beq_iff : ∀ (a b : V), V.beq a b = true ↔ a = b
  | .nil, b => by cases b <;> simp [V.beq]
  | .int a, b => by cases b <;> simp [V.beq]
  | .str a, b => by cases b <;> simp [V.beq]
  | .sym a, b => by cases b <;> simp [V.beq]
  | .list a, b => by cases b <;> simp [V.beq, V.beqList_iff a]
  | .vec a, b => by cases b <;> simp [V.beq, V.beqList_iff a]
theorem V.beqList_iff : ∀ (a b : List V), V.beqList a b = true ↔ a = b
  | [], b => by cases b <;> simp [V.beqList]
  | a :: as, b => by
    cases b with
    | nil => simp [V.beqList]
    | cons b bs => simp [V.beqList, V.beq_iff a b, V.beqList_iff as bs]
end

instance : DecidableEq V := fun a b => decidable_of_iff _ (V.beq_iff a b)

/-- error classes of the package (`lisp` = wrapped in `lisperror.LispError`, `plain` = `errors.New`) -/
inductive Err
  | notFound (k : String)        -- lisp  "symbol '<k>' not found"                     (GetNT, RemoveNT)
  | nonSeq                        -- plain "GetSlice called on non-sequence"            (types.GetSlice)
  | notSym (goType : String)      -- lisp  "cannot use '<%T>' as parameter name"
  | danglingAmp                   -- lisp  "'&' must be followed by a parameter name"
  | tooFew (nb ne : Nat)          -- lisp  "too few arguments passed (nb binds, ne arguments passed)"
  | tooMany (nb ne : Nat)         -- lisp  "too many arguments passed (nb binds, ne arguments passed)"
  | cb (msg : String)             -- whatever error the `Update` callback returned, passed through
  deriving DecidableEq, Repr

inductive Res (α : Type)
  | ok (a : α)
  | err (e : Err)
  | panic (site : String)
  deriving DecidableEq, Repr

/-! ### one scope's map (`map[string]interface{}`): first match wins, `dset` keeps keys unique -/

abbrev Data := List (String × V)

def dget (k : String) : Data → Option V
  | [] => none
  | (k', v) :: r => if k = k' then some v else dget k r

def derase (k : String) : Data → Data
  | [] => []
  | (k', v) :: r => if k = k' then derase k r else (k', v) :: derase k r

def dset (k : String) (v : V) (d : Data) : Data := (k, v) :: derase k d

/-! ### the store -/

structure Scope where
  data : Data
  outer : Option Nat
  deriving DecidableEq, Repr

abbrev Store := List Scope

/-- `NewEnv` / `_newEnv` -/
def newEnv (st : Store) : Store × Nat := (st ++ [⟨[], none⟩], st.length)

/-- `NewSubordinateEnv` / `_newSubordinateEnv` (the nil-interface `outer` is handled by `step`) -/
def newSub (st : Store) (outer : Nat) : Store × Nat := (st ++ [⟨[], some outer⟩], st.length)

/-- `Find` / `FindNT`: the innermost scope, from `id` outwards, whose own map holds `k`.
    `fuel` bounds the climb; running out of it is the (unreachable) cyclic chain. -/
def findF (st : Store) (k : String) : Nat → Nat → Res (Option Nat)
  | 0, _ => .panic "hang: cyclic outer chain"
  | fuel + 1, id =>
    match st[id]? with
    | none => .panic "nil *Env"
    | some sc =>
      match dget k sc.data with
      | some _ => .ok (some id)
      | none =>
        match sc.outer with
        | none => .ok none
        | some o => findF st k fuel o

def find (st : Store) (id : Nat) (k : String) : Res (Option Nat) := findF st k (id + 1) id

/-- `Get` / `GetNT` -/
def getF (st : Store) (k : String) : Nat → Nat → Res V
  | 0, _ => .panic "hang: cyclic outer chain"
  | fuel + 1, id =>
    match st[id]? with
    | none => .panic "nil *Env"
    | some sc =>
      match dget k sc.data with
      | some v => .ok v
      | none =>
        match sc.outer with
        | none => .err (.notFound k)
        | some o => getF st k fuel o

def get (st : Store) (id : Nat) (k : String) : Res V := getF st k (id + 1) id

/-- `Set` / `SetNT`: always the scope itself; returns the value -/
def set (st : Store) (id : Nat) (k : String) (v : V) : Store × Res V :=
  match st[id]? with
  | none => (st, .panic "nil *Env")
  | some sc => (st.set id { sc with data := dset k v sc.data }, .ok v)

/-- `Remove` / `RemoveNT`: only the scope's OWN map is looked at (no climbing) -/
def remove (st : Store) (id : Nat) (k : String) : Store × Res Unit :=
  match st[id]? with
  | none => (st, .panic "nil *Env")
  | some sc =>
    match dget k sc.data with
    | none => (st, .err (.notFound k))
    | some _ => (st.set id { sc with data := derase k sc.data }, .ok ())

/-- `Update`: `v, _ := e.GetNT(key)` climbs (a missing key gives the callback Go `nil`, the same thing it
    gets for a key bound to nil), the callback's error is passed through with nothing written, and the
    result is written with `e.SetNT` — into the scope ITSELF, not into the holder. -/
def argOf : Res V → V
  | .ok v => v
  | _ => .nil

def update (st : Store) (id : Nat) (k : String) (f : V → Except String V) : Store × Res V :=
  match st[id]? with
  | none => (st, .panic "nil *Env")
  | some _ =>
    match get st id k with
    | .panic s => (st, .panic s)
    | r =>
      match f (argOf r) with
      | .error m => (st, .err (.cb m))
      | .ok nv => set st id k nv

/-! ### `Symbols` (prefix completion): per scope the matching keys with the prefix cut off, sorted
    (`sort.Strings`, so the Go map order does not show); scopes from the innermost outwards; no
    de-duplication across scopes (a shadowed name is listed once per scope that holds it). -/

def insertSorted (s : String) : List String → List String
  | [] => [s]
  | t :: r => if s ≤ t then s :: t :: r else t :: insertSorted s r

def isort : List String → List String := List.foldr insertSorted []

def stripPre (pre k : String) : Option String :=
  if pre.toList.isPrefixOf k.toList then some (String.ofList (k.toList.drop pre.toList.length)) else none

def localSyms (pre : String) (d : Data) : List String := isort ((d.map (·.1)).filterMap (stripPre pre))

def symbolsF (st : Store) (pre : String) : Nat → Nat → List String → Res (List String)
  | 0, _, _ => .panic "hang: cyclic outer chain"
  | fuel + 1, id, acc =>
    match st[id]? with
    | none => .panic "nil *Env"
    | some sc =>
      match sc.outer with
      | none => .ok (acc ++ localSyms pre sc.data)
      | some o => symbolsF st pre fuel o (acc ++ localSyms pre sc.data)

def symbols (st : Store) (id : Nat) (acc : List String) (pre : String) : Res (List String) :=
  symbolsF st pre (id + 1) id acc

/-! ### `_newSubordinateEnvWithBinds`, the parameter binder of every function call -/

/-- what `%T` prints for the value -/
def V.goType : V → String
  | .nil => "<nil>"
  | .int _ => "int"
  | .str _ => "string"
  | .sym _ => "types.Symbol"
  | .list _ => "types.List"
  | .vec _ => "types.Vector"

def V.isNil : V → Bool
  | .nil => true
  | _ => false

/-- `types.GetSlice` -/
def getSlice : V → Option (List V)
  | .list xs => some xs
  | .vec xs => some xs
  | _ => none

/-- the `for ; i < len(binds); i++` loop; `rest = binds[i:]`, `d` = the new scope's map so far.
    The rest parameter gets `exprs[i:]` — in Go a WINDOW on the caller's argument slice (same backing
    array, not a copy); values are immutable here, so the sharing itself is not visible in this model. -/
def bindLoop (nb : Nat) (exprs : List V) : Nat → List V → Data → Res Data
  | i, [], d => if exprs.length ≠ i then .err (.tooMany nb exprs.length) else .ok d
  | i, b :: rest, d =>
    match b with
    | .sym s =>
      if s = "&" then
        match rest with
        | .sym r :: _ =>
          if exprs.length < i then .panic "slice bounds out of range"
          else .ok (dset r (.list (exprs.drop i)) d)
        | _ => .err .danglingAmp
      else if i = exprs.length then .err (.tooFew nb exprs.length)
      else
        match exprs[i]? with
        | some e => bindLoop nb exprs (i + 1) rest (dset s e d)
        | none => .panic "index out of range"
    | other => .err (.notSym other.goType)

/-- the map of the new scope: nothing is bound and NOTHING is checked when either side is nil -/
def bindData (bm em : V) : Res Data :=
  if bm.isNil || em.isNil then .ok []
  else
    match getSlice bm with
    | none => .err .nonSeq
    | some binds =>
      match getSlice em with
      | none => .err .nonSeq
      | some exprs => bindLoop binds.length exprs 0 binds []

/-- `NewSubordinateEnvWithBinds`: on an error the half-built scope is dropped (it was never published),
    so the store is unchanged -/
def bind (st : Store) (outer : Nat) (bm em : V) : Store × Res Nat :=
  match bindData bm em with
  | .ok d => (st ++ [⟨d, some outer⟩], .ok st.length)
  | .err e => (st, .err e)
  | .panic s => (st, .panic s)

/-! ### sequential use through a register file of `types.EnvType` handles (engine `envalg`) -/

/-- the callbacks handed to `Update` by the engine -/
inductive CbMode
  | inc | fail | retNil | wrap
  deriving DecidableEq, Repr

def cbFun : CbMode → V → Except String V
  | .inc, .int i => .ok (.int (i + 1))
  | .inc, .nil => .ok (.int 1)
  | .inc, _ => .error "notint"
  | .fail, _ => .error "fail"
  | .retNil, _ => .ok .nil
  | .wrap, v => .ok (.list [v])

inductive Op
  | new (r : Nat)
  | sub (r p : Nat)
  | bind (r p : Nat) (binds exprs : V)
  | set (r : Nat) (k : String) (v : V)
  | get (r : Nat) (k : String)
  | find (r : Nat) (k : String)
  | remove (r : Nat) (k : String)
  | update (r : Nat) (k : String) (m : CbMode)
  | syms (r : Nat) (pre : String)
  deriving Repr

inductive Obs
  | env (id : Nat)
  | noEnv
  | val (v : V)
  | done
  | names (l : List String)
  | err (e : Err)
  | panic (site : String)
  deriving DecidableEq, Repr

/-- a register is `none` (the nil interface) until an environment is stored in it -/
structure Machine where
  store : Store := []
  regs : List (Option Nat) := [none, none, none, none]
  deriving DecidableEq, Repr

def Machine.reg (m : Machine) (r : Nat) : Option Nat := (m.regs[r]?).join

def obsOfV : Res V → Obs
  | .ok v => .val v
  | .err e => .err e
  | .panic s => .panic s

def step (m : Machine) : Op → Machine × Obs
  | .new r =>
    let (st, id) := newEnv m.store
    ({ store := st, regs := m.regs.set r (some id) }, .env id)
  | .sub r p =>
    match m.reg p with
    | none => (m, .panic "outer.(*Env) on a nil interface")
    | some o =>
      let (st, id) := newSub m.store o
      ({ store := st, regs := m.regs.set r (some id) }, .env id)
  | .bind r p b e =>
    match m.reg p with
    | none => (m, .panic "outer.(*Env) on a nil interface")
    | some o =>
      match bind m.store o b e with
      | (st, .ok id) => ({ store := st, regs := m.regs.set r (some id) }, .env id)
      | (st, .err x) => ({ m with store := st }, .err x)
      | (st, .panic x) => ({ m with store := st }, .panic x)
  | .set r k v =>
    match m.reg r with
    | none => (m, .panic "method call on a nil interface")
    | some id => let (st, res) := set m.store id k v; ({ m with store := st }, obsOfV res)
  | .get r k =>
    match m.reg r with
    | none => (m, .panic "method call on a nil interface")
    | some id => (m, obsOfV (get m.store id k))
  | .find r k =>
    match m.reg r with
    | none => (m, .panic "method call on a nil interface")
    | some id =>
      match find m.store id k with
      | .ok (some h) => (m, .env h)
      | .ok none => (m, .noEnv)
      | .err x => (m, .err x)
      | .panic x => (m, .panic x)
  | .remove r k =>
    match m.reg r with
    | none => (m, .panic "method call on a nil interface")
    | some id =>
      match remove m.store id k with
      | (st, .ok _) => ({ m with store := st }, .done)
      | (st, .err x) => ({ m with store := st }, .err x)
      | (st, .panic x) => ({ m with store := st }, .panic x)
  | .update r k md =>
    match m.reg r with
    | none => (m, .panic "method call on a nil interface")
    | some id => let (st, res) := update m.store id k (cbFun md); ({ m with store := st }, obsOfV res)
  | .syms r pre =>
    match m.reg r with
    | none => (m, .panic "method call on a nil interface")
    | some id =>
      match symbols m.store id [] pre with
      | .ok l => (m, .names l)
      | .err x => (m, .err x)
      | .panic x => (m, .panic x)

def run (m : Machine) : List Op → Machine × List Obs
  | [] => (m, [])
  | o :: r => let (m1, ob) := step m o; let (m2, obs) := run m1 r; (m2, ob :: obs)

end LispModel.EnvAlg
